import Fcgi.Gen.Tables
import Fcgi.Model.Bytes
import Fcgi.Model.VarInt
import Fcgi.Model.Sink
import Fcgi.Model.NV
