import Fcgi.Proofs.RunLoop
namespace Fcgi.Run
open Fcgi Fcgi.Req Fcgi.Str Fcgi.Async

def Phase.isHandler : Phase → Bool
  | .handler _ _ => true
  | _ => false

/-- the events of one phase transition: quiet, unless it leads from `parseReq` into `handler`, in
which case exactly one `HS(` event is appended -/
def StepEvents (c c' : Conn) : Prop :=
  ∃ new, c'.env.tr.events = c.env.tr.events ++ new ∧
    ((Quiet new ∧ ¬ (c.phase.isParse = true ∧ c'.phase.isHandler = true)) ∨
     (hsCount new = 1 ∧ c.phase.isParse = true ∧ c'.phase.isHandler = true))

theorem StepEvents.of_tle {c c' : Conn} (h : TLe c.env.tr c'.env.tr)
    (hph : ¬ (c.phase.isParse = true ∧ c'.phase.isHandler = true)) : StepEvents c c' := by
  obtain ⟨n, e, q⟩ := h.ev
  exact ⟨n, e, Or.inl ⟨q, hph⟩⟩

theorem StepEvents.hs_start {c : Conn} {t : Transport} (hp : c.phase.isParse = true) (ht : TLe c.env.tr t)
    (rq : Request) (r : AReq) (h : HState) (sc : List (List HOp × Bool)) :
    StepEvents c { phase := .handler r h, env := ({ c.env with tr := t }).ev (hsEvent rq), scripts := sc,
                   stop := c.stop } := by
  obtain ⟨n, e, q⟩ := ht.ev
  refine ⟨n ++ [hsEvent rq], ?_, Or.inr ⟨?_, hp, rfl⟩⟩
  · show (t.events ++ [hsEvent rq]) = _
    rw [e, List.append_assoc]
  · rw [hsCount_append, hsCount_eq_zero q, hsCount_single_true (isHS_hsEvent _)]

theorem stepConn_events (c : Conn) : StepEvents c (stepConn c).conn := by
  obtain ⟨phase, env, scripts, stop⟩ := c
  cases phase with
  | finished => exact .of_tle (.refl _) (by simp [Phase.isParse])
  | handler r h =>
    simp only [stepConn]
    repeat' split
    all_goals
      refine StepEvents.of_tle ?_ (by simp [Phase.isParse])
      first
        | exact handlerPoll_le _ _ _ _ ‹_›
        | exact (handlerPoll_le _ _ _ _ ‹_›).trans (TLe.ev_of _ (by simp [isHS, toString_str]))
  | closing r cs status alive =>
    simp only [stepConn]
    repeat' split
    all_goals exact StepEvents.of_tle (closePoll_le ‹_›) (by simp [Phase.isParse])
  | parseReq rp sub =>
    cases stop with
    | true => exact .of_tle (.refl _) (by simp [stepConn, Step.conn, Phase.isHandler])
    | false =>
      cases sub with
      | start =>
        simp only [stepConn, Bool.false_eq_true, if_false]
        repeat' split
        all_goals exact .of_tle (.refl _) (by simp [Step.conn, Phase.isHandler])
      | reading =>
        simp only [stepConn, Bool.false_eq_true, if_false]
        repeat' split
        all_goals exact .of_tle (read_le ‹_›) (by simp [Step.conn, Phase.isHandler])
      | writing rest done =>
        simp only [stepConn, Bool.false_eq_true, if_false]
        repeat' split
        all_goals first
          | exact .of_tle (writeAllLoop_le _ _ _ ‹_›) (by simp [Step.conn, Phase.isHandler])
          | exact StepEvents.hs_start rfl (writeAllLoop_le _ _ _ ‹_›) _ _ _ _

end Fcgi.Run
