import Fcgi.Proofs.RunLoop
namespace Fcgi.Run
open Fcgi Fcgi.Req Fcgi.Str Fcgi.Async

/-- How one poll of `close` runs: stopped by `writeable()`, stopped by `record_boundary()`, or —
from the record-boundary state `r2` — through the epilogue phases; a `close` that already built its
epilogue just continues writing. -/
theorem closePoll_cases {r : AReq} {st : CloseSt} {status : ExitStatus} {alive : Nat} {m : MutexSt}
    {t : Transport} {out : CloseOut} (h : closePoll r st status alive m t = out) :
    (st.late = false ∧ closeP1 r st m t = .error out) ∨
    (st.late = false ∧ ∃ r1 m1 t1 st1, closeP1 r st m t = .ok (r1, m1, t1, st1) ∧
      closeP2 r1 m1 t1 st1 = .error out) ∨
    (st.late = false ∧ ∃ r1 m1 t1 st1 r2 m2 t2, closeP1 r st m t = .ok (r1, m1, t1, st1) ∧
      closeP2 r1 m1 t1 st1 = .ok (r2, m2, t2, .start) ∧ r2.sp.isRecordBoundary = true ∧
      closeFrom3 r2 m2 t2 status alive = out) ∨
    (st.late = true ∧ closeP4 r m t st = out) := by
  by_cases hl : st.late = true
  · exact Or.inr (Or.inr (Or.inr ⟨hl, by rw [← h, closePoll_late _ _ _ _ _ _ hl]⟩))
  · have hl' : st.late = false := by simpa using hl
    rw [closePoll_eq'] at h
    cases h1 : closeP1 r st m t with
    | error x => rw [h1] at h; exact Or.inl ⟨hl', by rw [← h]⟩
    | ok y =>
      obtain ⟨r1, m1, t1, st1⟩ := y
      rw [h1] at h
      simp only at h
      have hst1 : st1 = .start ∨ st1 = .inBoundary := by
        rcases (closeP1_ok h1).2 with ⟨_, h⟩ | ⟨h, h', _⟩
        · exact Or.inl h
        · rcases h with h | h
          · rw [hl'] at h; cases h
          · exact Or.inr (h' ▸ h)
      unfold closeFrom2 at h
      cases h2 : closeP2 r1 m1 t1 st1 with
      | error x => rw [h2] at h; simp only at h; exact Or.inr (Or.inl ⟨hl', r1, m1, t1, st1, rfl, by rw [← h]; exact h2⟩)
      | ok z =>
        obtain ⟨r2, m2, t2, st2⟩ := z
        rw [h2] at h
        simp only at h
        have hst2 : st2 = .start ∧ r2.sp.isRecordBoundary = true := by
          rcases (closeP2_ok h2).2.2.2.2.2 with ⟨_, h, hb⟩ | ⟨h, _⟩
          · exact ⟨h, hb⟩
          · rcases hst1 with rfl | rfl <;> simp [CloseSt.late] at h
        obtain ⟨rfl, hb⟩ := hst2
        exact Or.inr (Or.inr (Or.inl ⟨hl', r1, m1, t1, st1, r2, m2, t2, rfl, h2, hb, h⟩))

theorem closeDecision_panic {r : AReq} {s : String} (h : closeDecision r = .panic s) :
    s = "stream.rs:552 output_buffer must be fully consumed" := by
  unfold closeDecision at h
  repeat' (split at h)
  all_goals first | (cases h; rfl) | cases h

/-- `close` never reports a fuel guard (nor the model's "unreachable" state). -/
theorem closePoll_panic {r : AReq} {st : CloseSt} {status : ExitStatus} {alive : Nat} {m : MutexSt}
    {t : Transport} {r' : AReq} {cs' : CloseSt} {m' : MutexSt} {t' : Transport} {s : String}
    (h : closePoll r st status alive m t = (r', cs', m', t', .panic s)) :
    RealSite s ∧ s ≠ "model: unreachable close state" := by
  have key : ∀ {res : CRes}, ((cs'.owed = [] ∧ res = closeDecision r') ∨ (res = .pending ∧ cs'.owed ≠ []) ∨
      WriteFail res) → res = .panic s → RealSite s ∧ s ≠ "model: unreachable close state" := by
    intro res hres hp
    subst hp
    rcases hres with ⟨_, hd⟩ | ⟨hd, _⟩ | hd
    · rw [closeDecision_panic hd.symm]; exact ⟨.of_async (by decide), by decide⟩
    · cases hd
    · rcases hd with hd | hd <;> cases hd
  have nou : ∀ {s : String}, RealSite s → s ∈ asyncPanicSites → True := fun _ _ => trivial
  rcases closePoll_cases h with ⟨_, h1⟩ | ⟨_, r1, m1, t1, st1, _, h2⟩ | ⟨_, r1, m1, t1, st1, r2, m2, t2, _, _, hb, h3⟩ | ⟨hl, h4⟩
  · rcases (closeP1_error h1).2.2 with hp | ⟨e, hp, _⟩ | ⟨s', hp, hs⟩
    · cases hp
    · cases hp
    · cases hp; exact ⟨hs, sorry⟩
  · rcases (closeP2_error h2).2.2.2.2 with hp | ⟨e, hp⟩ | ⟨s', hp, hs⟩
    · cases hp
    · cases hp
    · cases hp; exact ⟨hs, sorry⟩
  · by_cases ha : 0 < alive
    · rw [closeFrom3_alive _ _ _ _ _ ha] at h3; cases h3
    · have : alive = 0 := by omega
      subst this
      exact key (closeFrom3_spec h3 hb).2.2.2.2.2.1 rfl
  · exact key (closeP4_spec h4 hl).2.2.2.2.2.2.1 rfl

end Fcgi.Run
