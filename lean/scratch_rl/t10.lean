import Fcgi.Props.C07
namespace Fcgi.C07
open Fcgi Fcgi.Req Fcgi.Str Fcgi.Async Fcgi.Run

def exReq (flags : UInt8) : Request := { id := 1, role := 1, flags := flags, env := [] }
def exTr : Transport := { input := [], endMode := .pend, rd := [], wr := [], fl := [] }
def exAReq (flags : UInt8) : AReq := AReq.new (Str.Parser.fromParser 64 (exReq flags) [] 1)

/-- `close(Complete(0))` of a KeepConn responder request in one poll: exactly the 32-byte epilogue
`[Stdout∅][Stderr∅][EndRequest]` is written and the request parser is handed back. -/
example : ∃ r' m' t' rp, closePoll (exAReq 1) .start (.complete 0) 0 none exTr = (r', .writeEnd [], m', t', .reuse rp) ∧
    t'.wlog = [1, 6, 0, 1, 0, 0, 0, 0, 1, 7, 0, 1, 0, 0, 0, 0,
               1, 3, 0, 1, 0, 8, 0, 0, 0, 0, 0, 0, 0, 0, 0, 0] := ⟨_, _, _, _, rfl, rfl⟩

/-- without KeepConn: the same bytes, then `ConnectionReset` -/
example : ∃ r' m' t', closePoll (exAReq 0) .start (.complete 0) 0 none exTr
      = (r', .writeEnd [], m', t', .err .connectionReset) ∧ t'.wlog.length = 32 := ⟨_, _, _, rfl, rfl⟩

/-- a writer still alive: error, nothing written -/
example : ∃ r' m' t', closePoll (exAReq 1) .start (.complete 0) 1 none exTr
      = (r', .start, m', t', .err .writersAlive) ∧ t'.wlog = [] := ⟨_, _, _, rfl, rfl⟩

/-- the transport takes 5 bytes and then is busy: 27 bytes stay owed; the next poll writes them -/
example : ∃ r' m' t' rest, closePoll (exAReq 1) .start (.complete 0) 0 none { exTr with wr := [.n 5, .pending] }
      = (r', .writeEnd rest, m', t', .pending) ∧ t'.wlog.length = 5 ∧ rest.length = 27 ∧
      ∃ r'' m'' t'' rp, closePoll r' (.writeEnd rest) (.complete 0) 0 m' t' = (r'', .writeEnd [], m'', t'', .reuse rp) ∧
        t''.wlog = t'.wlog ++ rest := ⟨_, _, _, _, rfl, rfl, rfl, _, _, _, _, rfl, rfl⟩

/-- the request parser is `done`: the next transition starts the handler with that request -/
def exDone : Conn :=
  { phase := .parseReq { cap := 64, input := [], state := .done (exReq 1), maxConns := 1 } (.writing [] true),
    env := { tr := exTr }, scripts := [([.ret (.complete 7)], true)] }

example : ∃ c', stepConn exDone = .next c' ∧ c'.phase.isHandler = true ∧ c'.scripts = [] ∧
    hsCount c'.env.tr.events = 1 := ⟨_, rfl, rfl, rfl, by decide⟩

/-- and the whole poll (request without KeepConn): the handler returns `Complete(7)`, `close` writes
the epilogue carrying status 7, then the connection finishes -/
def exDone0 : Conn :=
  { phase := .parseReq { cap := 64, input := [], state := .done (exReq 0), maxConns := 1 } (.writing [] true),
    env := { tr := exTr }, scripts := [([.ret (.complete 7)], true)] }

example : ∃ c', pollConn 10 exDone0 = (c', .finished) ∧
    hsCount c'.env.tr.events = 1 ∧ c'.env.tr.wlog.length = 32 ∧
    c'.env.tr.wlog.drop 24 = [0, 0, 0, 7, 0, 0, 0, 0] := by
  refine ⟨_, rfl, ?_, rfl, rfl⟩
  decide

end Fcgi.C07
