import Fcgi.Model.RunLoop
open Fcgi Fcgi.Async Fcgi.Run

def isHS (s : String) : Bool := match s.toList with | 'H' :: 'S' :: '(' :: _ => true | _ => false
theorem toString_str (s : String) : toString s = s := rfl

example (cap : Nat) : isHS s!"R{cap}:P" = false := by
  simp [isHS, toString_str]
example (cap : Nat) : isHS s!"HE(err:{cap}:P" = false := by
  simp [isHS, toString_str]
example (cap : String) : isHS (cap ++ "W" ++ "a") = false := by
  simp [isHS, toString_str]
