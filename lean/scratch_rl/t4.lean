import Fcgi.Proofs.RunLoop
namespace Fcgi.Run
open Fcgi Fcgi.Req Fcgi.Str Fcgi.Async

/-! ## Fuel -/

/-- the panic messages of the model's fuel guards (not panic sites of the Rust) -/
def fuelMsgs : List String :=
  ["model: write loop fuel exhausted", "model: output loop fuel exhausted",
   "model: input loop fuel exhausted", "model: boundary loop fuel exhausted",
   "model: write_all fuel exhausted", "model: handler fuel exhausted",
   "model: connection fuel exhausted"]

/-- the panic sites of the stream parser model -/
def strPanicSites : List String :=
  ["stream.rs:335 stream_buffer must be fully consumed", "stream.rs:339 new_input exceeds input_buffer",
   "stream.rs:427 consumed > payload_len", "stream.rs:66 debug_assert input stream type",
   "model: parse loop made no progress"]

theorem parsePayload_panic {p : Str.Parser} {d : Option Nat} {r : Status} {s : String}
    (h : parsePayload p d r = .panic s) : s = "stream.rs:427 consumed > payload_len" := by
  simp only [parsePayload] at h
  repeat' (split at h)
  all_goals first | (cases h; rfl) | cases h

theorem parseHead_panic {p : Str.Parser} {d : Option Nat} {r : Status} {s : String}
    (h : parseHead p d r = .panic s) : s = "stream.rs:66 debug_assert input stream type" := by
  simp only [parseHead] at h
  repeat' (split at h)
  all_goals first | (cases h; rfl) | cases h

theorem padHead_panic {q : Str.Parser} {d : Option Nat} {r : Status} {s : String}
    (h : (if q.pad > 0 then
            (if q.raw.length ≤ q.pad then Iter.stop { q with raw := [], g1 := q.g1 + q.raw.length, pad := q.pad - q.raw.length } r
             else parseHead { q with raw := q.raw.drop q.pad, g1 := q.g1 + q.pad, pad := 0 } d r)
          else parseHead q d r) = .panic s) : s = "stream.rs:66 debug_assert input stream type" := by
  repeat' (split at h)
  all_goals first | cases h | exact parseHead_panic h

theorem iter_panic {p : Str.Parser} {d : Option Nat} {r : Status} {s : String}
    (h : iter p d r = .panic s) : s ∈ strPanicSites := by
  unfold iter at h
  by_cases hp : p.pay > 0
  · simp only [hp, if_true] at h
    cases hpp : parsePayload p d r with
    | cont p' d' r' => rw [hpp] at h; rw [padHead_panic h]; decide
    | panic s' => rw [hpp] at h; cases h; rw [parsePayload_panic hpp]; decide
    | stop p' r' => rw [hpp] at h; cases h
    | err p' e => rw [hpp] at h; cases h
  · simp only [hp, if_false] at h
    rw [padHead_panic h]; decide

theorem loop_panic (p : Str.Parser) (dest : Option Nat) (res : Status) {s : String}
    (h : (loop p dest res).2 = .panic s) : s ∈ strPanicSites := by
  generalize hn : p.raw.length = n
  induction n using Nat.strongRecOn generalizing p dest res with
  | _ n ih =>
    rw [loop] at h
    split at h
    · cases h
    · cases hit : iter p dest res with
      | cont p' d' r' =>
        rw [hit] at h
        simp only at h
        split at h
        · exact ih _ (by omega) p' d' r' h rfl
        · cases h; decide
      | stop p' r' => rw [hit] at h; cases h
      | err p' e => rw [hit] at h; cases h
      | panic s' => rw [hit] at h; cases h; exact iter_panic hit

theorem parse_panic {p : Str.Parser} {new : Bytes} {dest : Option Nat} {s : String}
    (h : (p.parse new dest).2 = .panic s) : s ∈ strPanicSites := by
  unfold Str.Parser.parse at h
  split at h
  · cases h; decide
  · split at h
    · cases h; decide
    · exact loop_panic _ _ _ h

theorem strPanic_not_fuel {s : String} (h : s ∈ strPanicSites) : s ∉ fuelMsgs := by
  simp only [strPanicSites, List.mem_cons, List.not_mem_nil, or_false] at h
  rcases h with rfl | rfl | rfl | rfl | rfl <;> decide

/-! ## Exact write-log facts -/

theorem writeV_spec (t : Transport) (sl : List Bytes) (tag : String) :
    (t.writeV sl tag).1.input = t.input ∧
    match (t.writeV sl tag).2 with
    | .ready (.ok n) => n ≤ sl.flatten.length ∧ (t.writeV sl tag).1.wlog = t.wlog ++ sl.flatten.take n
    | _ => (t.writeV sl tag).1.wlog = t.wlog := by
  unfold Transport.writeV
  generalize sl.flatten = data
  by_cases hd : data.isEmpty = true
  · simp only [hd, if_true, Transport.ev]
    simp
  · simp only [hd, Bool.false_eq_true, if_false]
    rcases t.wr with _ | ⟨a, rest⟩
    · simp [Transport.ev]
    · cases a <;> simp [Transport.ev] <;> omega

theorem write_ok {t t' : Transport} {buf : Bytes} {n : Nat} (h : t.write buf = (t', .ready (.ok n))) :
    n ≤ buf.length ∧ t'.wlog = t.wlog ++ buf.take n ∧ t'.input = t.input := by
  have := writeV_spec t [buf] "W"
  unfold Transport.write at h
  rw [h] at this
  simp at this; exact ⟨this.2.1, this.2.2, this.1⟩

theorem write_notok {t t' : Transport} {buf : Bytes} {r : Poll (Except IoErr Nat)}
    (h : t.write buf = (t', r)) (hr : ∀ n, r ≠ .ready (.ok n)) : t'.wlog = t.wlog ∧ t'.input = t.input := by
  have := writeV_spec t [buf] "W"
  unfold Transport.write at h
  rw [h] at this
  obtain ⟨h1, h2⟩ := this
  refine ⟨?_, h1⟩
  revert h2
  cases r with
  | pending => exact id
  | ready x => cases x with
    | error e => exact id
    | ok n => exact absurd rfl (hr n)

/-- `write_all`: one poll writes a prefix of the buffer and keeps exactly the remainder; with
`buf.length + 1` fuel the loop never runs out of fuel (it has no other way to panic). -/
theorem writeAllLoop_spec : ∀ (fuel : Nat) (buf : Bytes) (t : Transport) {rest : Bytes} {t' : Transport} {res : ORes},
    writeAllLoop fuel buf t = (rest, t', res) →
    (∃ done, buf = done ++ rest ∧ t'.wlog = t.wlog ++ done) ∧ t'.input = t.input ∧
    (res = .ready → rest = []) ∧ (buf.length < fuel → ∀ s, res ≠ .panic s) := by
  intro fuel
  induction fuel with
  | zero =>
    intro buf t rest t' res h; simp only [writeAllLoop] at h; cases h
    exact ⟨⟨[], by simp⟩, rfl, by simp, by omega⟩
  | succ k ih =>
    intro buf t rest t' res h
    simp only [writeAllLoop] at h
    split at h
    · cases h
      exact ⟨⟨[], by simp⟩, rfl, fun _ => by simpa using ‹buf.isEmpty = true›, by simp⟩
    · split at h
      · cases h
        obtain ⟨h1, h2⟩ := write_notok ‹_› (by simp)
        exact ⟨⟨[], by simp [h1]⟩, h2, by simp, by simp⟩
      · cases h
        obtain ⟨h1, h2⟩ := write_notok ‹_› (by simp)
        exact ⟨⟨[], by simp [h1]⟩, h2, by simp, by simp⟩
      · cases h
        obtain ⟨_, h1, h2⟩ := write_ok ‹_›
        exact ⟨⟨[], by simpa using h1⟩, h2, by simp, by simp⟩
      · rename_i tw n hne hw
        obtain ⟨hn, h1, h2⟩ := write_ok hw
        obtain ⟨⟨done, hd, hl⟩, hi, hr, hf⟩ := ih _ _ h
        refine ⟨⟨buf.take n ++ done, ?_, ?_⟩, hi.trans h2, hr, ?_⟩
        · rw [List.append_assoc, ← hd, List.take_append_drop]
        · rw [hl, h1, List.append_assoc]
        · intro hlt
          apply hf
          have : n ≠ 0 := fun h0 => hne (by rw [h0])
          simp only [List.length_drop]
          have : buf.length ≠ 0 := by
            intro h0; have := List.length_eq_zero_iff.1 h0; simp_all
          omega

theorem outLoop_spec : ∀ (fuel : Nat) (sp : Str.Parser) (t : Transport) {sp' : Str.Parser} {t' : Transport} {res : ORes},
    outLoop fuel sp t = (sp', t', res) →
    (∃ done, sp.output = done ++ sp'.output ∧ t'.wlog = t.wlog ++ done) ∧
    sp' = { sp with output := sp'.output } ∧ t'.input = t.input ∧
    (res = .ready → sp'.output = []) ∧ (sp.output.length < fuel → ∀ s, res ≠ .panic s) := by
  intro fuel
  induction fuel with
  | zero =>
    intro sp t sp' t' res h; simp only [outLoop] at h; cases h
    exact ⟨⟨[], by simp⟩, rfl, rfl, by simp, by omega⟩
  | succ k ih =>
    intro sp t sp' t' res h
    simp only [outLoop] at h
    split at h
    · cases h
      exact ⟨⟨[], by simp⟩, rfl, rfl, fun _ => by simpa using ‹sp.output.isEmpty = true›, by simp⟩
    · split at h
      · cases h
        obtain ⟨h1, h2⟩ := write_notok ‹_› (by simp)
        exact ⟨⟨[], by simp [h1]⟩, rfl, h2, by simp, by simp⟩
      · cases h
        obtain ⟨h1, h2⟩ := write_notok ‹_› (by simp)
        exact ⟨⟨[], by simp [h1]⟩, rfl, h2, by simp, by simp⟩
      · cases h
        obtain ⟨_, h1, h2⟩ := write_ok ‹_›
        exact ⟨⟨[], by simpa using h1⟩, rfl, h2, by simp, by simp⟩
      · rename_i tw n hne hw
        obtain ⟨hn, h1, h2⟩ := write_ok hw
        obtain ⟨⟨done, hd, hl⟩, heq, hi, hr, hf⟩ := ih _ _ h
        simp only [Str.Parser.consumeOutput] at hd hf heq
        refine ⟨⟨sp.output.take n ++ done, ?_, ?_⟩, ?_, hi.trans h2, hr, ?_⟩
        · rw [List.append_assoc, ← hd, List.take_append_drop]
        · rw [hl, h1, List.append_assoc]
        · rw [heq]
        · intro hlt
          apply hf
          have : n ≠ 0 := fun h0 => hne (by rw [h0])
          simp only [List.length_drop]
          have : sp.output.length ≠ 0 := by
            intro h0; have := List.length_eq_zero_iff.1 h0; simp_all
          omega

theorem pollOutput_spec {r : AReq} {m : MutexSt} {t : Transport}
    {r' : AReq} {m' : MutexSt} {t' : Transport} {res : ORes}
    (h : r.pollOutput m t = (r', m', t', res)) :
    (∃ done, r.sp.output = done ++ r'.sp.output ∧ t'.wlog = t.wlog ++ done) ∧
    r'.sp = { r.sp with output := r'.sp.output } ∧ r'.writeable = r.writeable ∧ t'.input = t.input ∧
    (res = .ready → r'.sp.output = []) ∧
    (∀ s, res = .panic s → s = "async_io:476 lock held with empty output") := by
  simp only [AReq.pollOutput] at h
  repeat' (split at h)
  all_goals first
    | (have he' : r.sp.output = [] := by simpa using ‹r.sp.output.isEmpty = true›
       cases h; exact ⟨⟨[], by simp⟩, rfl, rfl, rfl, fun _ => he', by simp⟩)
    | (cases h; exact ⟨⟨[], by simp⟩, rfl, rfl, rfl, by simp, by simp⟩)
    | (obtain ⟨hd, heq, hi, hr, hf⟩ := outLoop_spec _ _ _ ‹_›
       cases h
       exact ⟨hd, heq, rfl, hi, hr, fun s hs => absurd hs (hf (by omega) s)⟩)

theorem parse_request_eq {p : Str.Parser} {new : Bytes} {dest : Option Nat} {sp : Str.Parser} {pr : ParseRes}
    (h : p.parse new dest = (sp, pr)) : sp.request = p.request := by
  have := (parse_frame p new dest).2.1; rwa [h] at this

/-- `poll_input`'s loop: the request is untouched; with more fuel than pending transport input the
fuel guard is never hit (every panic is a panic site of the Rust); `Ok(0)` is returned only when the
parser reported the end of the stream — a transport read of 0 bytes is `UnexpectedEof`. -/
theorem inLoop_spec : ∀ (fuel : Nat) (r : AReq) (new : Bytes) (dest : Option Nat) (m : MutexSt) (t : Transport)
    {r' : AReq} {m' : MutexSt} {t' : Transport} {res : IRes},
    inLoop fuel r new dest m t = (r', m', t', res) →
    r'.sp.request = r.sp.request ∧
    (t.input.length < fuel → ∀ s, res = .panic s →
      s = "async_io:476 lock held with empty output" ∨ s ∈ strPanicSites) ∧
    (∀ n d, res = .ready n d → 0 < n ∨
      ∃ (sp0 : Str.Parser) (nw : Bytes) (sp1 : Str.Parser) (st : Status),
        sp0.parse nw dest = (sp1, .ok st) ∧ st.streamEnd = true) := by
  intro fuel
  induction fuel with
  | zero =>
    intro r new dest m t r' m' t' res h
    simp only [inLoop] at h; cases h
    exact ⟨rfl, by omega, by simp⟩
  | succ k ih =>
    intro r new dest m t r' m' t' res h
    simp only [inLoop] at h
    cases hparse : r.sp.parse new dest with
    | mk sp pr =>
      have hreq := parse_request_eq hparse
      rw [hparse] at h
      cases pr with
      | panic s =>
        simp only at h; cases h
        exact ⟨hreq, fun _ s' hs => by cases hs; exact Or.inr (parse_panic (by rw [hparse])), by simp⟩
      | err e =>
        simp only at h; cases h
        exact ⟨hreq, by simp, by simp⟩
      | ok st =>
        simp only at h
        split at h
        · rename_i hc
          cases h
          refine ⟨by split <;> exact hreq, by simp, ?_⟩
          intro n d hnd; cases hnd
          simp only [Bool.or_eq_true, decide_eq_true_eq] at hc
          rcases hc with hc | hc
          · exact Or.inr ⟨_, _, _, _, hparse, hc⟩
          · exact Or.inl hc
        · cases hpo : AReq.pollOutput { r with sp := sp.compress } m t with
          | mk r1 x =>
            obtain ⟨m1, t1, ores⟩ := x
            obtain ⟨_, hsp1, _, hin1, _, hpan1⟩ := pollOutput_spec hpo
            have hreq1 : r1.sp.request = r.sp.request := by rw [hsp1]; exact hreq
            have hpo' : AReq.pollOutput { sp := sp.compress, lock := r.lock, writeable := r.writeable } m t
                = (r1, m1, t1, ores) := hpo
            rw [hpo'] at h
            cases ores with
            | pending => simp only at h; cases h; exact ⟨hreq1, by simp, by simp⟩
            | err e => simp only at h; cases h; exact ⟨hreq1, by simp, by simp⟩
            | panic s =>
              simp only at h; cases h
              exact ⟨hreq1, fun _ s' hs => by cases hs; exact Or.inl (hpan1 _ rfl), by simp⟩
            | ready =>
              simp only at h
              cases hrd : t1.read r1.sp.free with
              | mk t2 pr =>
                rw [hrd] at h
                cases pr with
                | pending => simp only at h; cases h; exact ⟨hreq1, by simp, by simp⟩
                | ready ex =>
                  cases ex with
                  | error e => simp only at h; cases h; exact ⟨hreq1, by simp, by simp⟩
                  | ok bs =>
                    cases bs with
                    | nil => simp only at h; cases h; exact ⟨hreq1, by simp, by simp⟩
                    | cons b bs =>
                      simp only at h
                      obtain ⟨h1, h2, h3⟩ := ih _ _ _ _ _ h
                      obtain ⟨hi, _, _⟩ := read_ok hrd
                      refine ⟨h1.trans hreq1, fun hlt => h2 ?_, h3⟩
                      rw [← hin1, hi] at hlt
                      simp only [List.length_append, List.length_cons] at hlt
                      omega

end Fcgi.Run
