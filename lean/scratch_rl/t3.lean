import Fcgi.Props.C14a
namespace Fcgi.C14a
open Fcgi Fcgi.Req Fcgi.Str Fcgi.Async Fcgi.Run

def exReq : Request := { id := 1, role := 1, flags := 1, env := [] }
def exTr : Transport := { input := [], endMode := .pend, rd := [], wr := [], fl := [] }
def exAReq : AReq := AReq.new (Str.Parser.fromParser 64 exReq [] 1)

/-- idle inside `parse_request`, flag raised -/
def exIdle : Conn :=
  { phase := .parseReq (Req.Parser.new 64 1) .reading, env := { tr := exTr }, scripts := [], stop := true }

example : pollConn 5 exIdle = ({ exIdle with phase := .finished }, .finished) :=
  idle_stops_without_reading 4 exIdle _ _ rfl rfl

/-- a handler that opens stdout and flushes it; the transport's flush is pending -/
def exInHandler : Conn :=
  { phase := .handler exAReq { ops := [.open_ 6, .flush 0, .ret (.complete 0)] },
    env := { tr := { exTr with fl := [.pending] } }, scripts := [] }

example : ∃ c', inFlight 10 exInHandler = .halted c' .pending := ⟨_, rfl⟩

/-- a `close` whose final `write_all` is pending -/
def exInClose : Conn :=
  { phase := .closing exAReq .start (.complete 0) 0,
    env := { tr := { exTr with wr := [.pending] } }, scripts := [] }

example : ∃ c', inFlight 10 exInClose = .halted c' .pending := ⟨_, rfl⟩
example : ∃ c' : Conn, pollConn 10 { exInClose with stop := true } = ({ c' with stop := true }, .pending) := by
  obtain ⟨c', h⟩ : ∃ c', inFlight 10 exInClose = .halted c' .pending := ⟨_, rfl⟩
  exact ⟨c', in_flight_runs_on 10 exInClose c' .pending true h⟩

/-- a `close` that completes with keep-alive: the poll comes back to `parse_request` -/
def exCloseReuse : Conn :=
  { phase := .closing exAReq .start (.complete 0) 0, env := { tr := exTr }, scripts := [] }
example : ∃ f c', inFlight 10 exCloseReuse = .reachedParse f c' := ⟨_, _, rfl⟩

end Fcgi.C14a
