import Fcgi.Props.C11
namespace Fcgi.C11
open Fcgi Fcgi.Req Fcgi.Str Fcgi.Async Fcgi.Run

def exReq : Request := { id := 1, role := 1, flags := 1, env := [] }
def exTr : Transport := { input := [], endMode := .pend, rd := [], wr := [], fl := [] }
/-- a request whose buffer holds an `AbortRequest` record for its id -/
def exAborted : AReq := AReq.new (Str.Parser.fromParser 64 exReq [1, 2, 0, 1, 0, 0, 0, 0] 1)

theorem exParseAbort : exAborted.sp.parse [] (some 4) = (exAborted.sp, .err .abortRequest) := by
  unfold Str.Parser.parse
  rw [loop]
  rfl

/-- the handler's `read` returns `Err(ConnectionAborted)` -/
example : inLoop 5 exAborted [] (some 4) none exTr = (exAborted, none, exTr, .err .connectionAborted) :=
  inLoop_abort 4 exAborted [] (some 4) none exTr _ exParseAbort

/-- `close(ABORT)` of that request: one epilogue, `EndRequest` carries `"ABRT"`/`RequestComplete`; the
unread `AbortRequest` record is handed over to the next request parser -/
example : ∃ r' m' t' rp, closePoll exAborted .start ExitStatus.abort 0 none exTr
      = (r', .writeEnd [], m', t', .reuse rp) ∧
    t'.wlog = [1, 6, 0, 1, 0, 0, 0, 0, 1, 7, 0, 1, 0, 0, 0, 0,
               1, 3, 0, 1, 0, 8, 0, 0, 0x41, 0x42, 0x52, 0x54, 0, 0, 0, 0] ∧
    rp.input = [1, 2, 0, 1, 0, 0, 0, 0] := ⟨_, _, _, _, rfl, rfl, rfl⟩

end Fcgi.C11
