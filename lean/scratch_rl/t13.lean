import Fcgi.Props.C12
namespace Fcgi.C12
open Fcgi Fcgi.Req Fcgi.Str Fcgi.Async Fcgi.Run

/-- The unrestricted claim for the handler interpreter: with the fuel `pollConn` passes, the fuel guard
is never hit, whatever the script. -/
def handlerPoll_terminates_full : Prop :=
  ∀ (r : AReq) (h : HState) (e : Env) (r' : AReq) (h' : HState) (e' : Env) (s : String),
    handlerPoll (handlerFuel e) r h e = (r', h', e', .panic s) → s ∉ fuelMsgs

/-- It is false: the fuel is `1000 + 4·(pending input)`, a script of 1001 trivial ops on an idle
connection exhausts it.  (A limit of the harness scripts, not of the Rust: the `_partial` form
`handlerPoll_terminates` covers every script whose cost is below the fuel.) -/
theorem handlerPoll_terminates_full_false : ¬ handlerPoll_terminates_full := by
  intro h
  have key : ∀ (n : Nat) (r : AReq) (e : Env), ∃ r' h' e',
      handlerPoll n r { ops := List.replicate (n + 1) (.consume 0) } e =
        (r', h', e', .panic "model: handler fuel exhausted") := by
    intro n
    induction n with
    | zero => intro r e; exact ⟨_, _, _, rfl⟩
    | succ k ih =>
      intro r e
      obtain ⟨r', h', e', hk⟩ := ih { r with sp := r.sp.consumeStream 0 } e
      exact ⟨r', h', e', by rw [List.replicate_succ]; simp only [handlerPoll]; exact hk⟩
  obtain ⟨r', h', e', hp⟩ := key 1000 exAReq { tr := exTrEof }
  exact h exAReq { ops := List.replicate 1001 (.consume 0) } { tr := exTrEof } r' h' e' _ hp (by decide)

end Fcgi.C12
