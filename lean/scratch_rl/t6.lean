import Fcgi.Proofs.RunLoop
namespace Fcgi.Run
open Fcgi Fcgi.Req Fcgi.Str Fcgi.Async

theorem writeAllLoop_pending_ne : ∀ (fuel : Nat) (buf : Bytes) (t : Transport) {t' : Transport},
    writeAllLoop fuel buf t = ([], t', .pending) → False := by
  intro fuel
  induction fuel with
  | zero => intro buf t t' h; simp only [writeAllLoop] at h; cases h
  | succ k ih =>
    intro buf t t' h
    simp only [writeAllLoop] at h
    repeat' (split at h)
    all_goals first
      | (cases h; simp_all; done)
      | exact ih _ _ h
      | cases h

/-- invariant of a suspended `close` that has built its epilogue: the parser stands at a record
boundary (and, once the parser's output was written, its output buffer is empty) -/
def CloseInv (r : AReq) : CloseSt → Prop
  | .writeOut _ _ => r.sp.isRecordBoundary = true
  | .writeEnd _ => r.sp.isRecordBoundary = true ∧ r.sp.output = []
  | _ => True

theorem closeDecision_of_inv {r : AReq} (hb : r.sp.isRecordBoundary = true) (ho : r.sp.output = []) :
    closeDecision r =
      if r.sp.request.flags.toNat % 2 = 1 then .reuse (Req.Parser.fromParser r.sp.cap r.sp.raw r.sp.maxConns)
      else .err .connectionReset := by
  unfold closeDecision Str.Parser.intoRequestParser
  simp [hb, ho]

/-- Phase 4 (one poll): exactly a prefix of the owed bytes is written, the rest stays owed; the
future completes only when nothing is owed any more, and then answers `closeDecision`. -/
theorem closeP4_spec {r : AReq} {st : CloseSt} {m : MutexSt} {t : Transport}
    {r' : AReq} {cs' : CloseSt} {m' : MutexSt} {t' : Transport} {res : CRes}
    (h : closeP4 r m t st = (r', cs', m', t', res)) (hl : st.late = true) :
    m' = m ∧ r'.sp.request = r.sp.request ∧ r'.writeable = r.writeable ∧ cs'.late = true ∧
    t'.input = t.input ∧
    (∃ done, st.owed = done ++ cs'.owed ∧ t'.wlog = t.wlog ++ done) ∧
    ((cs'.owed = [] ∧ res = closeDecision r') ∨ (res = .pending ∧ cs'.owed ≠ []) ∨ WriteFail res) ∧
    (CloseInv r st → CloseInv r' cs') := by
  cases st with
  | start => cases hl
  | inWriteable => cases hl
  | inBoundary => cases hl
  | writeEnd rest =>
    simp only [closeP4] at h
    obtain ⟨rfl, rfl, done, rest', rfl, hd, hw, hi, hres⟩ := finishEnd_spec h
    exact ⟨rfl, rfl, rfl, rfl, hi, ⟨done, hd, hw⟩, hres, id⟩
  | writeOut rest endreq =>
    simp only [closeP4] at h
    cases hw : writeAllLoop (rest.length + 1) rest t with
    | mk rest' x =>
      obtain ⟨t1, ores⟩ := x
      obtain ⟨⟨done, hd, hl1⟩, hin, hr, hf⟩ := writeAllLoop_spec _ _ _ hw
      rw [hw] at h
      cases ores with
      | pending =>
        simp only at h; cases h
        refine ⟨rfl, rfl, rfl, rfl, hin, ⟨done, ?_, hl1⟩, Or.inr (Or.inl ⟨rfl, ?_⟩), id⟩
        · simp only [CloseSt.owed]; rw [hd, List.append_assoc]
        · simp only [CloseSt.owed]
          intro hnil
          have : rest' = [] := by
            have := congrArg List.length hnil; simp at this; exact this.1
          subst this
          exact writeAllLoop_pending_ne _ _ _ hw
      | err e =>
        simp only at h; cases h
        refine ⟨rfl, rfl, rfl, rfl, hin, ⟨done, ?_, hl1⟩, Or.inr (Or.inr ?_), id⟩
        · simp only [CloseSt.owed]; rw [hd, List.append_assoc]
        · rcases writeAllLoop_err _ _ _ hw with rfl | rfl
          · exact Or.inl rfl
          · exact Or.inr rfl
      | panic s => exact absurd rfl (hf (by omega) s)
      | ready =>
        simp only at h
        have hr' := hr rfl
        subst hr'
        obtain ⟨rfl, rfl, done2, rest2, rfl, hd2, hw2, hi2, hres⟩ := finishEnd_spec h
        refine ⟨rfl, rfl, rfl, rfl, hi2.trans hin, ⟨done ++ done2, ?_, ?_⟩, hres, ?_⟩
        · simp only [CloseSt.owed]
          rw [hd, hd2]; simp
        · rw [hw2, hl1, List.append_assoc]
        · intro hinv
          exact ⟨hinv, by simp [Str.Parser.consumeOutput]⟩

/-- phases 3–4 entered from the record boundary -/
def closeFrom3 (r : AReq) (m : MutexSt) (t : Transport) (status : ExitStatus) (alive : Nat) : CloseOut :=
  match closeP3 r m t .start status alive with
  | .error x => x
  | .ok (r, m, t, st) => closeP4 r m t st

theorem closeFrom2_late (r : AReq) (m : MutexSt) (t : Transport) (st : CloseSt) (status : ExitStatus)
    (alive : Nat) (h : st.late = true) : closeFrom2 r m t st status alive = closeP4 r m t st := by
  unfold closeFrom2
  rw [closeP2_other _ _ _ _ (Or.inl h)]
  simp only [closeP3_late _ _ _ _ _ _ h]

theorem closePoll_late (r : AReq) (st : CloseSt) (status : ExitStatus) (alive : Nat) (m : MutexSt)
    (t : Transport) (h : st.late = true) : closePoll r st status alive m t = closeP4 r m t st := by
  rw [closePoll_eq']
  have : closeP1 r st m t = .ok (r, m, t, st) := by cases st <;> first | rfl | cases h
  rw [this]
  exact closeFrom2_late _ _ _ _ _ _ h

/-- `writers` still alive: `close` fails before writing anything of the epilogue. -/
theorem closeFrom3_alive (r : AReq) (m : MutexSt) (t : Transport) (status : ExitStatus) (alive : Nat)
    (h : 0 < alive) :
    closeFrom3 r m t status alive = ({ r with lock := .none }, .start, lockDrop r.lock m, t, .err .writersAlive) := by
  unfold closeFrom3
  rw [closeP3_start]
  simp [h]

theorem closeFrom3_spec {r : AReq} {m : MutexSt} {t : Transport} {status : ExitStatus}
    {r' : AReq} {cs' : CloseSt} {m' : MutexSt} {t' : Transport} {res : CRes}
    (h : closeFrom3 r m t status 0 = (r', cs', m', t', res)) (hb : r.sp.isRecordBoundary = true) :
    r'.sp.request = r.sp.request ∧ r'.writeable = r.writeable ∧ cs'.late = true ∧ t'.input = t.input ∧
    (∃ done, r.sp.output ++ epilogueOf r status = done ++ cs'.owed ∧ t'.wlog = t.wlog ++ done) ∧
    ((cs'.owed = [] ∧ res = closeDecision r') ∨ (res = .pending ∧ cs'.owed ≠ []) ∨ WriteFail res) ∧
    CloseInv r' cs' := by
  unfold closeFrom3 at h
  rw [closeP3_start] at h
  simp only [Nat.lt_irrefl, if_false] at h
  obtain ⟨_, h2, h3, h4, h5, h6, h7, h8⟩ := closeP4_spec h rfl
  exact ⟨h2, h3, h4, h5, h6, h7, h8 hb⟩

/-! ## `StreamWriter` fuel -/

theorem writeLoop_fuel : ∀ (fuel : Nat) (w : Writer) (head buf : Bytes) (t : Transport)
    {w' : Writer} {t' : Transport} {s : String},
    writeLoop fuel w head buf t = (w', t', .panic s) →
    (head.length - w.headIdx) + w.contentLen + w.padLen < fuel →
    s = "async_io:85 payload_idx underflow" ∨ s = "async_io:112 transport accepted more than offered" := by
  intro fuel
  induction fuel with
  | zero => intro w head buf t w' t' s h hf; omega
  | succ k ih =>
    intro w head buf t w' t' s h hf
    simp only [writeLoop] at h
    split at h
    · cases h
    · split at h
      · cases h; exact Or.inl rfl
      · rename_i hwr hle
        split at h
        · cases h
        · cases h
        · cases h
        · rename_i t1 written hne hwv
          split at h
          · cases h; exact Or.inr rfl
          · rename_i hz
            refine ih _ _ _ _ h ?_
            have hnz : written ≠ 0 := fun h0 => hne (by rw [h0])
            simp only [List.length_drop, zeros, List.length_replicate] at hz ⊢
            omega

theorem headBytes_length (w : Writer) : w.headBytes.length = 8 := by
  simp [Writer.headBytes, RecordHeader.toBytes, toBe16]

theorem pollWrite_panic {w : Writer} {me : Nat} {buf : Bytes} {m : MutexSt} {t : Transport}
    {w' : Writer} {m' : MutexSt} {t' : Transport} {s : String}
    (h : w.pollWrite me buf m t = (w', m', t', .panic s)) : RealSite s := by
  simp only [Writer.pollWrite] at h
  repeat' (split at h)
  all_goals first
    | (cases h; exact .of_async (by decide))
    | (cases h
       have := writeLoop_fuel _ _ _ _ _ ‹writeLoop _ _ _ _ _ = _› (by simp only [headBytes_length]; omega)
       rcases this with rfl | rfl <;> exact .of_async (by decide))
    | (cases h
       have hs := ‹_ = Except.error s›
       split at hs
       · split at hs
         · cases hs; exact .of_async (by decide)
         · cases hs
       · cases hs)
    | cases h

theorem pollFlush_panic {w : Writer} {me : Nat} {m : MutexSt} {t : Transport}
    {w' : Writer} {m' : MutexSt} {t' : Transport} {s : String}
    (h : w.pollFlush me m t = (w', m', t', .panic s)) : RealSite s := by
  simp only [Writer.pollFlush] at h
  repeat' (split at h)
  all_goals first
    | (cases h; exact .of_async (by decide))
    | cases h

/-! ## Handler-interpreter fuel (scripts without `readAll`) -/

def opCost : HOp → Nat
  | .writeAll _ data => data.length + 1
  | _ => 1

def curCost (sub : HSub) (op : HOp) : Nat :=
  match sub, op with
  | .writeRest rd, .writeAll _ _ => rd.length + 1
  | _, op => opCost op

/-- fuel a script needs: one unit per op, plus one per byte of a `writeAll` -/
def scriptCost (h : HState) : Nat :=
  match h.ops with
  | [] => 0
  | op :: rest => curCost h.sub op + (rest.map opCost).sum

def noReadAll (ops : List HOp) : Prop := ∀ op ∈ ops, op ≠ .readAll

theorem curCost_fresh (op : HOp) : curCost .fresh op = opCost op := by cases op <;> rfl

theorem scriptCost_fresh (ops : List HOp) (w : List (Option Writer)) (p : Bool) :
    scriptCost { ops := ops, sub := .fresh, writers := w, propagate := p } = (ops.map opCost).sum := by
  cases ops with
  | nil => rfl
  | cons op rest => simp [scriptCost, curCost_fresh]

theorem curCost_pos (sub : HSub) (op : HOp) : 0 < curCost sub op := by
  cases sub <;> cases op <;> simp [curCost, opCost]

theorem handlerPoll_fuel : ∀ (fuel : Nat) (r : AReq) (h : HState) (e : Env)
    {r' : AReq} {h' : HState} {e' : Env} {s : String},
    handlerPoll fuel r h e = (r', h', e', .panic s) → noReadAll h.ops → scriptCost h < fuel → RealSite s := by
  intro fuel
  induction fuel with
  | zero => intro r h e r' h' e' s hh _ hf; omega
  | succ n ih =>
    intro r h e r' h' e' s hh hnr hf
    simp only [handlerPoll] at hh
    split at hh
    · cases hh
    · rename_i op rest hops
      have hnr' : noReadAll rest := fun o ho => hnr o (by rw [hops]; exact List.mem_cons_of_mem _ ho)
      have hcost : ∀ (w : List (Option Writer)),
          scriptCost { ops := rest, sub := .fresh, writers := w, propagate := h.propagate } < n := by
        intro w
        rw [scriptCost_fresh]
        simp only [scriptCost, hops] at hf
        have := curCost_pos h.sub op
        omega
      have hne : op ≠ .readAll := hnr op (by rw [hops]; exact List.mem_cons_self)
      repeat' (split at hh)
      all_goals first
        | (exact absurd rfl hne)
        | (cases hh; done)
        | (cases hh; exact .of_async (by decide))
        | (cases hh; exact (pollInput_spec ‹_›).2 _ rfl)
        | (cases hh; exact (writeablePoll_spec ‹_›).2 _ rfl)
        | (cases hh; exact pollWrite_panic ‹_›)
        | (cases hh; exact pollFlush_panic ‹_›)
        | exact ih _ _ _ hh hnr' (hcost _)
        | skip
      · refine ih _ _ _ hh hnr ?_
        rename_i nn hn0 _
        have hn0' : nn ≠ 0 := hn0
        have hsub := ‹h.sub = HSub.writeRest _›
        have hlen : ∀ l : Bytes, ¬ l.isEmpty = true → l.length ≠ 0 := by
          intro l hl h0; exact hl (by simp [List.length_eq_zero_iff.1 h0])
        have := hlen _ ‹_›
        simp only [scriptCost, hops, hsub, curCost, List.length_drop] at hf ⊢
        omega
      · refine ih _ _ _ hh hnr ?_
        rename_i i data _ _ _ _ hnsub _ _ _ _ _ nn hn0 _
        have hn0' : nn ≠ 0 := hn0
        have hsub : curCost h.sub (HOp.writeAll i data) = opCost (HOp.writeAll i data) := by
          cases hs : h.sub with
          | writeRest rd => exact absurd hs (hnsub rd)
          | _ => rfl
        have hlen : ∀ l : Bytes, ¬ l.isEmpty = true → l.length ≠ 0 := by
          intro l hl h0; exact hl (by simp [List.length_eq_zero_iff.1 h0])
        have := hlen _ ‹_›
        simp only [scriptCost, hops, hsub, opCost] at hf
        simp only [scriptCost, hops, curCost, List.length_drop]
        omega

end Fcgi.Run
