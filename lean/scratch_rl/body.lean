/-- what `runTask` guarantees once the flag is (being) raised -/
def QExt (c c' : Conn) : Prop :=
  ∃ new, c'.env.tr.events = c.env.tr.events ++ new ∧ Quiet new

theorem QExt.refl (c : Conn) : QExt c c := ⟨[], by simp, Quiet.nil⟩
theorem QExt.trans {a b c : Conn} (h1 : QExt a b) (h2 : QExt b c) : QExt a c := by
  obtain ⟨n1, e1, q1⟩ := h1
  obtain ⟨n2, e2, q2⟩ := h2
  exact ⟨n1 ++ n2, by rw [e2, e1, List.append_assoc], q1.append q2⟩

/-- the part of `runTask` before the poll -/
def prePoll (c : Conn) (pollNo : Nat) (stopAt : Option Nat) : Conn :=
  let c := if stopAt == some pollNo then { c with stop := true } else c
  let (env, _) := c.env.release
  let env := { env with tr := { env.tr with woken := false } }
  { c with env := env.ev s!"|{pollNo}" }

theorem prePoll_spec (c : Conn) (n : Nat) (sa : Option Nat) :
    (prePoll c n sa).stop = (c.stop || sa == some n) ∧ QExt c (prePoll c n sa) := by
  unfold prePoll
  constructor
  · split <;> simp_all
  · refine ⟨[s!"|{n}"], ?_, Quiet.single (by simp [isHS, toString_str])⟩
    have h : ∀ c0 : Conn, c0.env = c.env →
        (match c0.env.release with
        | (env, _) => ({ c0 with env := ({ env with tr := { env.tr with woken := false } } : Env).ev s!"|{n}" } : Conn)).env.tr.events
          = c.env.tr.events ++ [s!"|{n}"] := by
      intro c0 h0
      have := (release_events c0.env).1
      generalize c0.env.release = x at this
      obtain ⟨e', any⟩ := x
      simp only [Env.ev, Transport.ev]
      simp only at this
      rw [this, h0]
    split
    · exact h _ rfl
    · exact h _ rfl

theorem runTask_succ (fuel : Nat) (c : Conn) (pollNo : Nat) (stopAt : Option Nat) :
    runTask (fuel + 1) c pollNo stopAt =
      match pollConn 100000 (prePoll c pollNo stopAt) with
      | (c, .finished) => (c, "RET")
      | (c, .panic _) => (c, "PANIC")
      | (c, .pending) =>
        if c.env.tr.woken then runTask fuel c (pollNo + 1) stopAt
        else
          let (env, _) := c.env.release
          if env.tr.woken then runTask fuel { c with env := env } (pollNo + 1) stopAt
          else
            let c := { c with env := env }
            match stopAt with
            | some k => if k > pollNo && !c.stop then runTask fuel c k stopAt else (c, "STALL")
            | none => (c, "STALL") := by
  rfl

theorem release_qext (c : Conn) : QExt c { c with env := c.env.release.1 } :=
  ⟨[], by simp [(release_events c.env).1], Quiet.nil⟩

theorem CLe.qext {c c' : Conn} (h : CLe c c') (hs : c.stop = true) : QExt c c' := by
  obtain ⟨n, e, _, q⟩ := h.ev
  exact ⟨n, e, q hs⟩

/-- `runTask` only ever raises the flag; from the poll at which it is raised on, no poll starts a
handler. -/
theorem runTask_stop_quiet : ∀ (fuel : Nat) (c : Conn) (n : Nat) (sa : Option Nat),
    (c.stop = true → (runTask fuel c n sa).1.stop = true) ∧
    ((c.stop = true ∨ sa = some n) → QExt c (runTask fuel c n sa).1) := by
  intro fuel
  induction fuel with
  | zero => intro c n sa; exact ⟨fun h => h, fun _ => QExt.refl _⟩
  | succ k ih =>
    intro c n sa
    rw [runTask_succ]
    obtain ⟨hps, hpq⟩ := prePoll_spec c n sa
    have hcle := pollConn_cle 100000 (prePoll c n sa)
    generalize pollConn 100000 (prePoll c n sa) = x at hcle
    obtain ⟨c3, r⟩ := x
    simp only at hcle
    have hstop3 : c.stop = true → c3.stop = true := fun h => by rw [hcle.stop, hps, h]; rfl
    have hq3 : (c.stop = true ∨ sa = some n) → QExt c c3 := fun h => by
      refine hpq.trans (hcle.qext ?_)
      rw [hps]; rcases h with h | h <;> simp [h]
    have hstop3' : (c.stop = true ∨ sa = some n) → c3.stop = true := fun h => by
      rw [hcle.stop, hps]; rcases h with h | h <;> simp [h]
    cases r with
    | finished => exact ⟨hstop3, hq3⟩
    | panic s => exact ⟨hstop3, hq3⟩
    | pending =>
      simp only
      split
      · exact ⟨fun h => (ih c3 (n + 1) sa).1 (hstop3 h),
          fun h => (hq3 h).trans ((ih c3 (n + 1) sa).2 (Or.inl (hstop3' h)))⟩
      · have hrel := release_qext c3
        generalize c3.env.release = y at hrel
        obtain ⟨env, any⟩ := y
        simp only at hrel ⊢
        split
        · exact ⟨fun h => (ih _ (n + 1) sa).1 (hstop3 h),
            fun h => ((hq3 h).trans hrel).trans ((ih _ (n + 1) sa).2 (Or.inl (hstop3' h)))⟩
        · split
          · split
            · exact ⟨fun h => (ih _ _ _).1 (hstop3 h),
                fun h => ((hq3 h).trans hrel).trans ((ih _ _ _).2 (Or.inl (hstop3' h)))⟩
            · exact ⟨hstop3, fun h => (hq3 h).trans hrel⟩
          · exact ⟨hstop3, fun h => (hq3 h).trans hrel⟩

/-! ## Leaving `parse_request` towards a handler emits `HS(` -/

def Phase.inFlight : Phase → Bool
  | .handler _ _ => true
  | .closing _ _ _ _ => true
  | _ => false

/-- what a step out of a `parseReq` phase can be -/
def ParseStepOk (c : Conn) : Step → Prop
  | .halt c' _ => c'.phase.inFlight = false
  | .next c' => c'.phase.isParse = true ∨
      hsCount c'.env.tr.events = hsCount c.env.tr.events + 1

theorem stepConn_parse (c : Conn) (hp : c.phase.isParse = true) : ParseStepOk c (stepConn c) := by
  obtain ⟨phase, env, scripts, stop⟩ := c
  cases phase with
  | parseReq rp sub =>
    cases stop with
    | true => rfl
    | false =>
      cases sub with
      | start =>
        simp only [stepConn, Bool.false_eq_true, if_false]
        repeat' split
        all_goals simp_all [ParseStepOk, Phase.inFlight, Phase.isParse]
      | reading =>
        simp only [stepConn, Bool.false_eq_true, if_false]
        repeat' split
        all_goals simp_all [ParseStepOk, Phase.inFlight, Phase.isParse]
      | writing rest done =>
        simp only [stepConn, Bool.false_eq_true, if_false]
        repeat' split
        all_goals first
          | (simp_all [ParseStepOk, Phase.inFlight, Phase.isParse]; done)
          | (obtain ⟨⟨n, e, q⟩, _, _⟩ := writeAllLoop_le _ _ _ ‹_›
             right
             show hsCount (Transport.ev _ (hsEvent _)).events = _
             simp only [Transport.ev]
             rw [e, hsCount_append, hsCount_append, hsCount_eq_zero q,
               hsCount_single_true (isHS_hsEvent _)])
  | _ => cases hp

theorem from_parse_hs : ∀ (f : Nat) (c : Conn) {c' : Conn} {r : PRes}, c.phase.isParse = true →
    pollConn f c = (c', r) → c'.phase.inFlight = true →
    hsCount c.env.tr.events < hsCount c'.env.tr.events := by
  intro f
  induction f with
  | zero =>
    intro c c' r hp h hin
    cases h
    cases hph : c.phase <;> simp_all [Phase.inFlight, Phase.isParse]
  | succ k ih =>
    intro c c' r hp h hin
    rw [pollConn_succ] at h
    have hstep := stepConn_parse c hp
    have hcle := stepConn_cle c
    cases hs : stepConn c with
    | halt c1 r1 =>
      rw [hs] at h hstep; cases h
      simp only [ParseStepOk] at hstep; rw [hstep] at hin; cases hin
    | next c1 =>
      rw [hs] at h hstep hcle
      simp only [Step.run] at h
      simp only [Step.conn] at hcle
      have hrest := pollConn_cle k c1
      rw [h] at hrest
      simp only [ParseStepOk] at hstep
      rcases hstep with hp1 | hcount
      · have := ih c1 hp1 h hin
        have := hcle.hs_mono
        omega
      · have := hrest.hs_mono
        simp only at this
        omega

