import Fcgi.Props.C14a
open Fcgi Fcgi.Req Fcgi.Str Fcgi.Async Fcgi.Run
example : ((Req.Parser.fromParser 64 [] 1).parse []).2 = some { done := false, output := [] } := by rfl
example : ((Req.Parser.fromParser 64 [] 1).parse []).2 = some { done := false, output := [] } := by decide
