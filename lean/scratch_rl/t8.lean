import Fcgi.Props.C12
namespace Fcgi.C12
open Fcgi Fcgi.Req Fcgi.Str Fcgi.Async Fcgi.Run

def exReq : Request := { id := 1, role := 1, flags := 1, env := [] }
/-- a transport at end of input -/
def exTrEof : Transport := { input := [], endMode := .eof, rd := [], wr := [], fl := [] }
def exAReq : AReq := AReq.new (Str.Parser.fromParser 64 exReq [] 1)

/-- waiting for a request, the peer closes the connection -/
def exEofIdle : Conn :=
  { phase := .parseReq (Req.Parser.new 64 1) .reading, env := { tr := exTrEof }, scripts := [] }

example : ∃ t, exEofIdle.env.tr.read (Req.Parser.new 64 1).free = (t, .ready (.ok [])) := ⟨_, rfl⟩
example : ∃ c', pollConn 5 exEofIdle = (c', .finished) ∧ c'.env.tr.wlog = [] := by
  obtain ⟨t, ht⟩ : ∃ t, exEofIdle.env.tr.read (Req.Parser.new 64 1).free = (t, .ready (.ok [])) := ⟨_, rfl⟩
  obtain ⟨h1, h2, _⟩ := eof_in_preamble_no_handler 4 exEofIdle _ t rfl rfl ht
  exact ⟨_, h1, h2⟩

/-- the parser of `exAReq` has nothing buffered: `parse(0)` asks for more input -/
theorem exParse : exAReq.sp.parse [] (some 4) =
    (exAReq.sp, .ok { stream := 0, streamEnd := false, output := 0, delivered := [] }) := by
  unfold Str.Parser.parse
  rw [loop]
  rfl

/-- mid-stream EOF: the handler's `read` fails with `UnexpectedEof` -/
example : ∃ r1 m1 t2, inLoop 3 exAReq [] (some 4) none exTrEof = (r1, m1, t2, .err .unexpectedEof) :=
  ⟨_, _, _, eof_mid_stream_step 2 exAReq [] (some 4) none exTrEof _ _ _ _ _ _ exParse rfl rfl rfl⟩

/-- EOF while `close` waits for the rest of a record: `UnexpectedEof`, no epilogue -/
example : ∃ t2, closeBoundary exAReq.sp true exTrEof = (exAReq.sp, t2, .err .unexpectedEof) :=
  ⟨_, eof_in_close_unexpected _ _ _ rfl⟩
example : ∃ r' m' t', closePoll exAReq .inBoundary (.complete 0) 0 none exTrEof
    = (r', .inBoundary, m', t', .err .unexpectedEof) ∧ t'.wlog = [] := ⟨_, _, _, rfl, rfl⟩

/-- a failing transport write: `write_all` stops after that one call; the task finishes -/
example : ∃ t', writeAllLoop 3 [1, 2] { exTrEof with wr := [.err, .all] } = ([1, 2], t', .err .transportWrite) ∧
    t'.wr = [.all] ∧ t'.wlog = [] := ⟨_, rfl, rfl, rfl⟩
example : ∃ t', writeAllLoop 3 [1, 2] { exTrEof with wr := [.n 1, .zero, .all] } = ([2], t', .err .writeZero) ∧
    t'.wr = [.all] ∧ t'.wlog = [1] := ⟨_, rfl, rfl, rfl⟩
example : ∃ c', pollConn 5
    { phase := .parseReq (Req.Parser.new 64 1) (.writing [1, 2] true),
      env := { tr := { exTrEof with wr := [.err] } }, scripts := [] } = (c', .finished) ∧
    hsCount c'.env.tr.events = 0 := ⟨_, rfl, by decide⟩

end Fcgi.C12
