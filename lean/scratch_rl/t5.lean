import Fcgi.Proofs.RunLoop
namespace Fcgi.Run
open Fcgi Fcgi.Req Fcgi.Str Fcgi.Async

/-- the panic sites of the async model that correspond to panic sites of the Rust (or to model
states proved unreachable), as opposed to fuel guards -/
def asyncPanicSites : List String :=
  ["async_io:85 payload_idx underflow", "async_io:112 transport accepted more than offered",
   "async_io:71 lock was dropped mid-write", "async_io:77 poll_write called while poll_flush is pending",
   "async_io:79 buf shrunk between calls to poll_write",
   "async_io:122 poll_flush called while poll_write is pending",
   "async_io:476 lock held with empty output",
   "async_io:371 final stream should always be valid to set",
   "async_io:400 stream_buffer not empty",
   "async_io:437 ignoring stream data should always be allowed",
   "model: unreachable close state",
   "stream.rs:552 output_buffer must be fully consumed",
   "async_io:292 streams should follow the order given by Role::input_streams",
   "async_io:324 output_stream assertion",
   "request parser panicked"]

/-- a panic message that is not a fuel guard -/
def RealSite (s : String) : Prop := s ∈ asyncPanicSites ∨ s ∈ strPanicSites

theorem RealSite.not_fuel {s : String} (h : RealSite s) : s ∉ fuelMsgs := by
  rcases h with h | h
  · simp only [asyncPanicSites, List.mem_cons, List.not_mem_nil, or_false] at h
    rcases h with rfl | rfl | rfl | rfl | rfl | rfl | rfl | rfl | rfl | rfl | rfl | rfl | rfl | rfl | rfl <;> decide
  · exact strPanic_not_fuel h

theorem RealSite.of_async {s : String} (h : s ∈ asyncPanicSites) : RealSite s := Or.inl h
theorem RealSite.of_str {s : String} (h : s ∈ strPanicSites) : RealSite s := Or.inr h

theorem inLoop_fuel {fuel : Nat} {r : AReq} {new : Bytes} {dest : Option Nat} {m : MutexSt} {t : Transport}
    {r' : AReq} {m' : MutexSt} {t' : Transport} {s : String}
    (h : inLoop fuel r new dest m t = (r', m', t', .panic s)) (hf : t.input.length < fuel) : RealSite s := by
  rcases (inLoop_spec _ _ _ _ _ _ h).2.1 hf s rfl with rfl | h
  · exact .of_async (by decide)
  · exact .of_str h

theorem pollInput_spec {r : AReq} {dest : Option Nat} {m : MutexSt} {t : Transport}
    {r' : AReq} {m' : MutexSt} {t' : Transport} {res : IRes}
    (h : r.pollInput dest m t = (r', m', t', res)) :
    r'.sp.request = r.sp.request ∧ (∀ s, res = .panic s → RealSite s) := by
  simp only [AReq.pollInput] at h
  repeat' (split at h)
  all_goals first
    | (cases h; exact ⟨rfl, by simp⟩)
    | (obtain ⟨_, hsp, _, hin, _, hpan⟩ := pollOutput_spec ‹_›
       first
        | (cases h
           exact ⟨by rw [hsp], fun s hs => by cases hs; exact .of_async (by rw [hpan _ rfl]; decide)⟩)
        | (cases h; exact ⟨by rw [hsp], by simp⟩)
        | (obtain ⟨h1, _, _⟩ := inLoop_spec _ _ _ _ _ _ h
           refine ⟨h1.trans (by rw [hsp]), fun s hs => ?_⟩
           subst hs
           exact inLoop_fuel h (by omega)))

theorem setStream_request {p p' : Str.Parser} {st : Option Nat} (h : p.setStream st = .ok p') :
    p'.request = p.request := by
  rcases setStream_ok_cases h with ⟨_, rfl⟩ | ⟨_, rfl, _⟩ <;> rfl

theorem writeablePoll_spec {r : AReq} {started : Bool} {m : MutexSt} {t : Transport}
    {r' : AReq} {b : Bool} {m' : MutexSt} {t' : Transport} {res : ORes}
    (h : r.writeablePoll started m t = (r', b, m', t', res)) :
    r'.sp.request = r.sp.request ∧ (∀ s, res = .panic s → RealSite s) := by
  simp only [AReq.writeablePoll] at h
  split at h
  · cases h; exact ⟨rfl, fun s hs => by cases hs⟩
  · split at h
    · cases h; exact ⟨rfl, fun s hs => by cases hs; exact .of_async (by decide)⟩
    · rename_i r0 heq
      have hr : r0.sp.request = r.sp.request := by
        split at heq
        · cases heq; rfl
        · split at heq
          · cases heq; exact setStream_request ‹_›
          · cases heq
      split at h
      all_goals
        obtain ⟨h1, h2⟩ := pollInput_spec ‹_›
        cases h
        exact ⟨h1.trans hr, fun s hs => by cases hs <;> exact h2 _ rfl⟩

/-- what `record_boundary()`'s loop guarantees -/
abbrev BoundarySpec (fuel : Nat) (sp : Str.Parser) (t : Transport) (sp' : Str.Parser) (t' : Transport) (res : ORes) : Prop :=
  sp'.request = sp.request ∧ t'.wlog = t.wlog ∧
  (t.input.length < fuel → ∀ s, res = .panic s → RealSite s) ∧
  (res = .ready → sp'.isRecordBoundary = true)

theorem boundaryCont_spec {n : Nat}
    (ih : ∀ (sp : Str.Parser) (new : Bytes) (t : Transport) {sp' : Str.Parser} {t' : Transport} {res : ORes},
      boundaryLoop n sp new t = (sp', t', res) → BoundarySpec n sp t sp' t' res)
    {sp : Str.Parser} {t : Transport} {sp' : Str.Parser} {t' : Transport} {res : ORes}
    (h : boundaryLoop.cont sp t n = (sp', t', res)) : BoundarySpec (n + 1) sp t sp' t' res := by
  simp only [boundaryLoop.cont] at h
  split at h
  · cases h; exact ⟨rfl, rfl, fun _ s hs => (by cases hs), fun _ => ‹_›⟩
  · split at h
    · cases h
      exact ⟨rfl, rfl, fun _ s hs => by cases hs; exact .of_async (by decide), fun hh => by cases hh⟩
    · cases hrd : t.read sp.compress.free with
      | mk t2 pr =>
        rw [hrd] at h
        have hw : t2.wlog = t.wlog := by have := read_wlog t sp.compress.free; rwa [hrd] at this
        cases pr with
        | pending => simp only at h; cases h; exact ⟨rfl, hw, fun _ s hs => (by cases hs), fun hh => by cases hh⟩
        | ready ex =>
          cases ex with
          | error e => simp only at h; cases h; exact ⟨rfl, hw, fun _ s hs => (by cases hs), fun hh => by cases hh⟩
          | ok bs =>
            cases bs with
            | nil => simp only at h; cases h; exact ⟨rfl, hw, fun _ s hs => (by cases hs), fun hh => by cases hh⟩
            | cons b bs =>
              simp only at h
              obtain ⟨h1, h2, h3, h4⟩ := ih _ _ _ h
              obtain ⟨hi, _, _⟩ := read_ok hrd
              refine ⟨h1, h2.trans hw, fun hlt => h3 ?_, h4⟩
              rw [hi] at hlt
              simp only [List.length_append, List.length_cons] at hlt
              omega

theorem boundaryLoop_spec : ∀ (fuel : Nat) (sp : Str.Parser) (new : Bytes) (t : Transport)
    {sp' : Str.Parser} {t' : Transport} {res : ORes},
    boundaryLoop fuel sp new t = (sp', t', res) → BoundarySpec fuel sp t sp' t' res := by
  intro fuel
  induction fuel with
  | zero =>
    intro sp new t sp' t' res h; simp only [boundaryLoop] at h; cases h
    exact ⟨rfl, rfl, by omega, fun hh => by cases hh⟩
  | succ n ih =>
    intro sp new t sp' t' res h
    simp only [boundaryLoop] at h
    cases hparse : sp.parse new none with
    | mk sp1 pr =>
      have hreq := parse_request_eq hparse
      rw [hparse] at h
      cases pr with
      | panic s =>
        simp only at h; cases h
        exact ⟨hreq, rfl, fun _ s' hs => by cases hs; exact .of_str (parse_panic (by rw [hparse])),
          fun hh => by cases hh⟩
      | err e =>
        simp only at h
        split at h
        · obtain ⟨h1, h2, h3, h4⟩ := boundaryCont_spec ih h
          exact ⟨h1.trans hreq, h2, h3, h4⟩
        · cases h; exact ⟨hreq, rfl, fun _ s hs => (by cases hs), fun hh => by cases hh⟩
      | ok st =>
        simp only at h
        obtain ⟨h1, h2, h3, h4⟩ := boundaryCont_spec ih h
        exact ⟨h1.trans hreq, h2, h3, h4⟩

/-! ## `close`: phase specifications -/

/-- phases 2–4 of `close` -/
def closeFrom2 (r : AReq) (m : MutexSt) (t : Transport) (st : CloseSt) (status : ExitStatus) (alive : Nat) : CloseOut :=
  match closeP2 r m t st with
  | .error x => x
  | .ok (r, m, t, st) =>
    match closeP3 r m t st status alive with
    | .error x => x
    | .ok (r, m, t, st) => closeP4 r m t st

theorem closePoll_eq' (r : AReq) (st : CloseSt) (status : ExitStatus) (alive : Nat) (m : MutexSt) (t : Transport) :
    closePoll r st status alive m t =
      match closeP1 r st m t with
      | .error x => x
      | .ok (r, m, t, st) => closeFrom2 r m t st status alive := rfl

/-- the epilogue `close` sends for request state `r` -/
def epilogueOf (r : AReq) (status : ExitStatus) : Bytes :=
  makeRequestEpilogue r.sp.request.id status (if r.writeable then outputStreams r.sp.request.role else [])

/-- bytes a suspended `close` still has to write -/
def _root_.Fcgi.Async.CloseSt.owed : CloseSt → Bytes
  | .writeOut rest endreq => rest ++ endreq
  | .writeEnd rest => rest
  | _ => []

/-- `close` has passed the point where it builds the epilogue -/
def _root_.Fcgi.Async.CloseSt.late : CloseSt → Bool
  | .writeOut _ _ => true
  | .writeEnd _ => true
  | _ => false

theorem closeP1_ok {r : AReq} {st : CloseSt} {m : MutexSt} {t : Transport} {r1 : AReq} {m1 : MutexSt}
    {t1 : Transport} {st1 : CloseSt} (h : closeP1 r st m t = .ok (r1, m1, t1, st1)) :
    r1.sp.request = r.sp.request ∧
    ((st = .start ∨ st = .inWriteable) ∧ st1 = .start ∨
     (st.late = true ∨ st = .inBoundary) ∧ st1 = st ∧ r1 = r ∧ m1 = m ∧ t1 = t) := by
  simp only [closeP1] at h
  repeat' (split at h)
  all_goals first
    | (obtain ⟨h1, _⟩ := writeablePoll_spec ‹_›
       cases h; exact ⟨h1, Or.inl ⟨by simp, rfl⟩⟩)
    | (cases h; cases st <;> simp_all [CloseSt.late])
    | cases h

theorem closeP1_error {r : AReq} {st : CloseSt} {m : MutexSt} {t : Transport} {r' : AReq} {cs' : CloseSt}
    {m' : MutexSt} {t' : Transport} {res : CRes} (h : closeP1 r st m t = .error (r', cs', m', t', res)) :
    cs' = .inWriteable ∧ (st = .start ∨ st = .inWriteable) ∧
    (res = .pending ∨ (∃ e, res = .err e ∧ e ≠ .connectionAborted) ∨ ∃ s, res = .panic s ∧ RealSite s) := by
  simp only [closeP1] at h
  repeat' (split at h)
  all_goals first
    | (obtain ⟨_, h2⟩ := writeablePoll_spec ‹_›
       cases h
       refine ⟨rfl, by simp, ?_⟩
       first
        | exact Or.inl rfl
        | exact Or.inr (Or.inl ⟨_, rfl, by simpa using ‹¬ (_ == IoErr.connectionAborted) = true›⟩)
        | exact Or.inr (Or.inr ⟨_, rfl, h2 _ rfl⟩))
    | cases h

theorem closeBoundary_spec {sp : Str.Parser} {resume : Bool} {t : Transport}
    {sp' : Str.Parser} {t' : Transport} {res : ORes}
    (h : closeBoundary sp resume t = (sp', t', res)) :
    sp'.request = sp.request ∧ t'.wlog = t.wlog ∧ (∀ s, res = .panic s → RealSite s) ∧
    (res = .ready → sp'.isRecordBoundary = true) := by
  simp only [closeBoundary] at h
  split at h
  · cases hrd : t.read sp.free with
    | mk t2 pr =>
      rw [hrd] at h
      have hw : t2.wlog = t.wlog := by have := read_wlog t sp.free; rwa [hrd] at this
      cases pr with
      | pending => simp only at h; cases h; exact ⟨rfl, hw, by simp, by simp⟩
      | ready ex =>
        cases ex with
        | error e => simp only at h; cases h; exact ⟨rfl, hw, by simp, by simp⟩
        | ok bs =>
          cases bs with
          | nil => simp only at h; cases h; exact ⟨rfl, hw, by simp, by simp⟩
          | cons b bs =>
            simp only at h
            obtain ⟨h1, h2, h3, h4⟩ := boundaryLoop_spec _ _ _ _ h
            exact ⟨h1, h2.trans hw, h3 (by omega), h4⟩
  · split at h
    · cases h; exact ⟨rfl, rfl, by simp, fun _ => ‹_›⟩
    · obtain ⟨h1, h2, h3, h4⟩ := boundaryLoop_spec _ _ _ _ h
      exact ⟨h1, h2, h3 (by omega), h4⟩

/-- `set_stream(None)` always succeeds -/
def spIgnore (sp : Str.Parser) : Str.Parser := if sp.stream = none then sp else sp.switchTo none

theorem spIgnore_request (sp : Str.Parser) : (spIgnore sp).request = sp.request := by
  unfold spIgnore; split <;> rfl

/-- the tail of phase 2 -/
def closeP2Tail (r : AReq) (m : MutexSt) (x : Str.Parser × Transport × ORes) : Except CloseOut CloseMid :=
  match x with
  | (sp, t, .ready) => .ok ({ r with sp := sp }, m, t, .start)
  | (sp, t, .pending) => .error ({ r with sp := sp }, .inBoundary, m, t, .pending)
  | (sp, t, .err e) => .error ({ r with sp := sp }, .inBoundary, m, t, .err e)
  | (sp, t, .panic s) => .error ({ r with sp := sp }, .inBoundary, m, t, .panic s)

theorem closeP2_start (r : AReq) (m : MutexSt) (t : Transport) :
    closeP2 r m t .start = closeP2Tail r m (closeBoundary (spIgnore r.sp) false t) := by
  simp only [closeP2, setStream_none]
  rfl

theorem closeP2_inBoundary (r : AReq) (m : MutexSt) (t : Transport) :
    closeP2 r m t .inBoundary = closeP2Tail r m (closeBoundary r.sp true t) := by
  simp only [closeP2]
  rfl

theorem closeP2_other (r : AReq) (m : MutexSt) (t : Transport) (st : CloseSt)
    (h : st.late = true ∨ st = .inWriteable) : closeP2 r m t st = .ok (r, m, t, st) := by
  cases st <;> first | rfl | simp [CloseSt.late] at h

theorem closeP2Tail_ok {r : AReq} {m : MutexSt} {sp0 : Str.Parser} {resume : Bool} {t : Transport}
    {r2 : AReq} {m2 : MutexSt} {t2 : Transport} {st2 : CloseSt}
    (h : closeP2Tail r m (closeBoundary sp0 resume t) = .ok (r2, m2, t2, st2)) :
    r2.sp.request = sp0.request ∧ r2.writeable = r.writeable ∧ r2.lock = r.lock ∧ m2 = m ∧
    t2.wlog = t.wlog ∧ st2 = .start ∧ r2.sp.isRecordBoundary = true := by
  cases hb : closeBoundary sp0 resume t with
  | mk sp x =>
    obtain ⟨t1, res⟩ := x
    obtain ⟨h1, h2, _, h4⟩ := closeBoundary_spec hb
    rw [hb] at h
    cases res <;> simp only [closeP2Tail] at h <;> cases h
    exact ⟨h1, rfl, rfl, rfl, h2, rfl, h4 rfl⟩

theorem closeP2Tail_error {r : AReq} {m : MutexSt} {sp0 : Str.Parser} {resume : Bool} {t : Transport}
    {r' : AReq} {cs' : CloseSt} {m' : MutexSt} {t' : Transport} {res : CRes}
    (h : closeP2Tail r m (closeBoundary sp0 resume t) = .error (r', cs', m', t', res)) :
    t'.wlog = t.wlog ∧ cs' = .inBoundary ∧ m' = m ∧
    (res = .pending ∨ (∃ e, res = .err e) ∨ ∃ s, res = .panic s ∧ RealSite s) := by
  cases hb : closeBoundary sp0 resume t with
  | mk sp x =>
    obtain ⟨t1, ores⟩ := x
    obtain ⟨_, h2, h3, _⟩ := closeBoundary_spec hb
    rw [hb] at h
    cases ores <;> simp only [closeP2Tail] at h <;> cases h
    · exact ⟨h2, rfl, rfl, Or.inl rfl⟩
    · exact ⟨h2, rfl, rfl, Or.inr (Or.inl ⟨_, rfl⟩)⟩
    · exact ⟨h2, rfl, rfl, Or.inr (Or.inr ⟨_, rfl, h3 _ rfl⟩)⟩

theorem closeP2_ok {r : AReq} {st : CloseSt} {m : MutexSt} {t : Transport} {r2 : AReq} {m2 : MutexSt}
    {t2 : Transport} {st2 : CloseSt} (h : closeP2 r m t st = .ok (r2, m2, t2, st2)) :
    r2.sp.request = r.sp.request ∧ r2.writeable = r.writeable ∧ r2.lock = r.lock ∧ m2 = m ∧
    t2.wlog = t.wlog ∧
    ((st = .start ∨ st = .inBoundary) ∧ st2 = .start ∧ r2.sp.isRecordBoundary = true ∨
     (st.late = true ∨ st = .inWriteable) ∧ st2 = st ∧ r2 = r ∧ t2 = t) := by
  cases st with
  | start =>
    rw [closeP2_start] at h
    obtain ⟨h1, h2, h3, h4, h5, h6, h7⟩ := closeP2Tail_ok h
    exact ⟨h1.trans (spIgnore_request _), h2, h3, h4, h5, Or.inl ⟨Or.inl rfl, h6, h7⟩⟩
  | inBoundary =>
    rw [closeP2_inBoundary] at h
    obtain ⟨h1, h2, h3, h4, h5, h6, h7⟩ := closeP2Tail_ok h
    exact ⟨h1, h2, h3, h4, h5, Or.inl ⟨Or.inr rfl, h6, h7⟩⟩
  | inWriteable =>
    rw [closeP2_other _ _ _ _ (Or.inr rfl)] at h; cases h
    exact ⟨rfl, rfl, rfl, rfl, rfl, Or.inr ⟨Or.inr rfl, rfl, rfl, rfl⟩⟩
  | writeOut a b =>
    rw [closeP2_other _ _ _ _ (Or.inl rfl)] at h; cases h
    exact ⟨rfl, rfl, rfl, rfl, rfl, Or.inr ⟨Or.inl rfl, rfl, rfl, rfl⟩⟩
  | writeEnd a =>
    rw [closeP2_other _ _ _ _ (Or.inl rfl)] at h; cases h
    exact ⟨rfl, rfl, rfl, rfl, rfl, Or.inr ⟨Or.inl rfl, rfl, rfl, rfl⟩⟩

theorem closeP2_error {r : AReq} {st : CloseSt} {m : MutexSt} {t : Transport} {r' : AReq} {cs' : CloseSt}
    {m' : MutexSt} {t' : Transport} {res : CRes} (h : closeP2 r m t st = .error (r', cs', m', t', res)) :
    t'.wlog = t.wlog ∧ (st = .start ∨ st = .inBoundary) ∧ cs' = .inBoundary ∧ m' = m ∧
    (res = .pending ∨ (∃ e, res = .err e) ∨ ∃ s, res = .panic s ∧ RealSite s) := by
  cases st with
  | start =>
    rw [closeP2_start] at h
    obtain ⟨h1, h2, h3, h4⟩ := closeP2Tail_error h
    exact ⟨h1, Or.inl rfl, h2, h3, h4⟩
  | inBoundary =>
    rw [closeP2_inBoundary] at h
    obtain ⟨h1, h2, h3, h4⟩ := closeP2Tail_error h
    exact ⟨h1, Or.inr rfl, h2, h3, h4⟩
  | inWriteable => rw [closeP2_other _ _ _ _ (Or.inr rfl)] at h; cases h
  | writeOut a b => rw [closeP2_other _ _ _ _ (Or.inl rfl)] at h; cases h
  | writeEnd a => rw [closeP2_other _ _ _ _ (Or.inl rfl)] at h; cases h

theorem closeP3_start (r : AReq) (m : MutexSt) (t : Transport) (status : ExitStatus) (alive : Nat) :
    closeP3 r m t .start status alive =
      if alive > 0 then .error ({ r with lock := .none }, .start, lockDrop r.lock m, t, .err .writersAlive)
      else .ok ({ r with lock := .none }, lockDrop r.lock m, t, .writeOut r.sp.output (epilogueOf r status)) := rfl

theorem closeP3_late (r : AReq) (m : MutexSt) (t : Transport) (st : CloseSt) (status : ExitStatus) (alive : Nat)
    (h : st.late = true) : closeP3 r m t st status alive = .ok (r, m, t, st) := by
  cases st <;> first | rfl | cases h

/-- what `close` answers once both `write_all`s completed -/
def closeDecision (r : AReq) : CRes :=
  if r.sp.request.flags.toNat % 2 == 1 then
    match r.sp.intoRequestParser with
    | some (.ok rp) => .reuse rp
    | some (.error e) => .err (ioOfPErr e)
    | none => .panic "stream.rs:552 output_buffer must be fully consumed"
  else .err .connectionReset

theorem writeV_err_kind (t : Transport) (sl : List Bytes) (tag : String) (e : IoErr)
    (h : (t.writeV sl tag).2 = .ready (.error e)) : e = .transportWrite := by
  unfold Transport.writeV at h
  generalize sl.flatten = data at h
  by_cases hd : data.isEmpty = true
  · simp [hd] at h
  · simp only [hd, Bool.false_eq_true, if_false] at h
    cases hwr : t.wr with
    | nil => simp [hwr] at h
    | cons a rest => cases a <;> simp [hwr] at h <;> exact h.symm

theorem write_err_kind {t t' : Transport} {buf : Bytes} {e : IoErr}
    (h : t.write buf = (t', .ready (.error e))) : e = .transportWrite := by
  apply writeV_err_kind t [buf] "W" e
  unfold Transport.write at h; rw [h]

theorem writeAllLoop_err : ∀ (fuel : Nat) (buf : Bytes) (t : Transport) {rest : Bytes} {t' : Transport} {e : IoErr},
    writeAllLoop fuel buf t = (rest, t', .err e) → e = .transportWrite ∨ e = .writeZero := by
  intro fuel
  induction fuel with
  | zero => intro buf t rest t' e h; simp only [writeAllLoop] at h; cases h
  | succ k ih =>
    intro buf t rest t' e h
    simp only [writeAllLoop] at h
    repeat' (split at h)
    all_goals first
      | (cases h; exact Or.inl (write_err_kind ‹_›))
      | (cases h; exact Or.inr rfl)
      | exact ih _ _ h
      | cases h

/-- a write failure of the transport -/
def WriteFail (res : CRes) : Prop := res = .err .transportWrite ∨ res = .err .writeZero

theorem finishEnd_spec {r : AReq} {rest : Bytes} {m : MutexSt} {t : Transport}
    {r' : AReq} {cs' : CloseSt} {m' : MutexSt} {t' : Transport} {res : CRes}
    (h : closePoll.finishEnd r rest m t = (r', cs', m', t', res)) :
    r' = r ∧ m' = m ∧ ∃ done rest', cs' = .writeEnd rest' ∧ rest = done ++ rest' ∧ t'.wlog = t.wlog ++ done ∧
      t'.input = t.input ∧
      ((rest' = [] ∧ res = closeDecision r) ∨ (res = .pending ∧ rest' ≠ []) ∨ WriteFail res) := by
  simp only [closePoll.finishEnd] at h
  cases hw : writeAllLoop (rest.length + 1) rest t with
  | mk rest' x =>
    obtain ⟨t1, ores⟩ := x
    obtain ⟨⟨done, hd, hl⟩, hin, hr, hf⟩ := writeAllLoop_spec _ _ _ hw
    rw [hw] at h
    cases ores with
    | pending =>
      simp only at h; cases h
      refine ⟨rfl, rfl, done, rest', rfl, hd, hl, hin, Or.inr (Or.inl ⟨rfl, ?_⟩)⟩
      -- a pending `write_all` has bytes left
      intro hnil
      subst hnil
      have : ∀ (fuel : Nat) (buf : Bytes) (t : Transport) {t' : Transport},
          writeAllLoop fuel buf t = ([], t', .pending) → False := by
        intro fuel
        induction fuel with
        | zero => intro buf t t' h; simp only [writeAllLoop] at h; cases h
        | succ k ih =>
          intro buf t t' h
          simp only [writeAllLoop] at h
          repeat' (split at h)
          all_goals first
            | (cases h; simp_all; done)
            | exact ih _ _ h
            | cases h
      exact this _ _ _ hw
    | err e =>
      simp only at h; cases h
      refine ⟨rfl, rfl, done, rest', rfl, hd, hl, hin, Or.inr (Or.inr ?_)⟩
      rcases writeAllLoop_err _ _ _ hw with rfl | rfl
      · exact Or.inl rfl
      · exact Or.inr rfl
    | panic s => exact absurd rfl (hf (by omega) s)
    | ready =>
      simp only at h
      have hr' := hr rfl
      subst hr'
      refine ⟨?_, ?_, done, [], ?_, hd, ?_, ?_, Or.inl ⟨rfl, ?_⟩⟩
      all_goals
        try unfold closeDecision
        repeat' (split at h)
        all_goals first
          | (cases h; first | rfl | exact hl | exact hin | simp_all)
          | skip

end Fcgi.Run
