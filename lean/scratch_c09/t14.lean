import Fcgi.Props.C09
namespace Fcgi.C09
open Fcgi Fcgi.Str Fcgi.Async

/-! ## Concrete instances (non-vacuity) -/

section Examples

/-- A Responder request (id 1) right after `Request::new`, 64-byte buffer. -/
def exR : AReq := AReq.new (Parser.fromParser 64 { id := 1, role := 1, flags := 0, env := [] } [] 10)

example : AInv exR ∧ LockInv exR none ∧ WInv exR ∧ exR.writeable = true :=
  ⟨(new_inv_fresh 64 _ [] 10 (by decide) (by decide) (by decide)).1,
   (new_inv_fresh 64 _ [] 10 (by decide) (by decide) (by decide)).2.1,
   (new_inv_fresh 64 _ [] 10 (by decide) (by decide) (by decide)).2.2, by decide⟩

/-- The peer sends a record of unknown type 99 (owed reply: a 16-byte `UnknownType` record), then
`Stdin(id 1, "AB")`, then the empty `Stdin`; the first transport read returns 8 bytes only. -/
def exT : Transport :=
  { input := [1, 99, 0, 0, 0, 0, 0, 0] ++ [1, 5, 0, 1, 0, 2, 0, 0, 65, 66] ++ [1, 5, 0, 1, 0, 0, 0, 0],
    endMode := .eof, rd := [.n 8], wr := [], fl := [] }

/-- `read(&mut [0; 8])`: the first transport read brings the unknown record only, so the loop has to
read again; the reply is written out *before* that second read (16 bytes in the log, reply buffer
empty again); then "AB" is returned. -/
example : (exR.pollInput (some 8) none exT).2.2.2 = .ready 2 [65, 66] ∧
    (exR.pollInput (some 8) none exT).2.2.1.wlog.length = 16 ∧
    (exR.pollInput (some 8) none exT).1.sp.output = [] ∧
    (exR.pollInput (some 8) none exT).2.2.1.input = [] := by decide +kernel

/-- The next read reports end of stream: `Ok(0)`; the request is then in an end-of-stream state with
an empty reply buffer, so by `eof_persists` every further poll returns `Ok(0)` with no transport
call. -/
example :
    let s1 := exR.pollInput (some 8) none exT
    (s1.1.pollInput (some 8) s1.2.1 s1.2.2.1).2.2.2 = .ready 0 [] ∧
    (s1.1.pollInput (some 8) s1.2.1 s1.2.2.1).1.sp.output = [] := by decide +kernel

/-- A Filter standing in front of a `Data` header while `Stdin` is active (`C18.demo3`): an
end-of-stream state; `fill_buf` and `read` return `Ok(0)` with no transport call, by
`eof_persists`. -/
def exEof : AReq := { sp := C18.demo3, lock := .none, writeable := false }

theorem exEof_inv : AInv exEof ∧ LockInv exEof none ∧ EofSt exEof :=
  ⟨⟨SInv_fromParser _ _ _ _ (by decide) (by decide), by decide⟩,
   ⟨by decide, fun _ => rfl⟩,
   ⟨⟨1, 8, 0, 1, 0, 3, 0, 0, [9, 9, 9],
      { rtype := 8, requestId := 1, contentLength := 3, paddingLength := 0 },
      rfl, rfl, by decide, rfl, Or.inr (by decide)⟩, rfl, rfl⟩⟩

example (dest : Option Nat) (t : Transport) :
    ∃ r', exEof.pollInput dest none t = (r', none, t, .ready 0 []) ∧ r'.sp = exEof.sp :=
  let ⟨r', h, hs, _⟩ := eof_persists exEof_inv.1 exEof_inv.2.1 exEof_inv.2.2 rfl dest t
  ⟨r', h, hs⟩

/-- `set_stream(Data)` is accepted there (Data is later than Stdin for a Filter); `set_stream`
back to `Stdin` afterwards would be the documented panic. -/
example : (∃ r', exEof.setStream 8 = some r') ∧
    ∀ r', exEof.setStream 8 = some r' → r'.setStream 5 = none := by
  have h8 := set_stream_async exEof_inv.1 (s := 8) rfl
  refine ⟨h8.1.mpr (Or.inr (by decide)), fun r' hr' => ?_⟩
  obtain ⟨-, -, hs, -, -, -, -, hreq, hinv', -, -⟩ := h8.2.2 r' hr'
  refine (set_stream_async hinv' (s := 5) rfl).2.1 ?_
  rw [hs, hreq]
  decide

/-- The output gate on the concrete Filter request: not writeable yet, so `output_stream(Stdout)`
is the documented panic. -/
example (h : Run.HState) (e : Run.Env) (rest : List Run.HOp) (hops : h.ops = .open_ 6 :: rest) :
    Run.handlerPoll 1 exEof h e = (exEof, h, e, .panic "async_io:324 output_stream assertion") :=
  (output_gate 0 exEof h e 6 rest hops).2 (fun hx => by cases hx.2)

end Examples

end Fcgi.C09
