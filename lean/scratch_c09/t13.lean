import Fcgi.Props.C05
namespace Fcgi.C05
open Fcgi Fcgi.Req Fcgi.Spec
open Fcgi.Str (SInv Op applyOp applyOps Legal LegalAll)

/-- One turn, given what `State::drive` makes of the buffered bytes. -/
theorem turn_of_run {cap mc : Nat} (hcap : 24 ≤ cap) {inp new rest o : Bytes} {r : Request}
    (hlen : (inp ++ new).length ≤ cap)
    (hrun : run .header (inp ++ new) mc = ⟨rest, .done r, o, none⟩) :
    turn (Req.Parser.fromParser cap inp mc) new = some (r, o, Req.Parser.fromParser cap rest mc) := by
  have hl1 : inp.length ≤ cap := by simp only [List.length_append] at hlen; omega
  have hp := C03.fromParser_inv (input := inp) mc hl1 hcap
  have hn : new.length ≤ (Req.Parser.fromParser cap inp mc).free := by
    simp only [Req.Parser.free, Req.Parser.fromParser, List.length_append] at hlen ⊢; omega
  have hparse : (Req.Parser.fromParser cap inp mc).parse new =
      ({ cap := cap, input := rest, state := .done r, maxConns := mc },
        some { done := true, output := o }) := by
    rw [parse_eq hp hn]
    simp only [Req.Parser.fromParser, hrun]
    rfl
  obtain ⟨q, hq, hq1, hq2, hq3, hq4, hq5⟩ : ∃ q,
      (Str.Parser.fromParser cap r rest mc).setStream none = .ok q ∧ q.raw = rest ∧ q.cap = cap ∧
        q.maxConns = mc ∧ q.isRecordBoundary = true ∧ q.output = [] := by
    rw [Str.setStream_none]
    by_cases h : (Str.Parser.fromParser cap r rest mc).stream = none
    · rw [if_pos h]; exact ⟨_, rfl, rfl, rfl, rfl, rfl, rfl⟩
    · rw [if_neg h]; exact ⟨_, rfl, rfl, rfl, rfl, rfl, rfl⟩
  unfold turn
  rw [hparse]
  simp only [Req.Parser.intoRequest, Req.Parser.intoStreamParser, hq,
    (into_request_parser_cases q).2.2 hq4 hq5, hq1, hq2, hq3]

/-- A fresh parser on a preamble followed by anything. -/
theorem fresh_pre_rest {cap mc : Nat} (hcap : 24 ≤ cap) {pre rest o : Bytes} {r : Request}
    (hpre : run .header pre mc = ⟨[], .done r, o, none⟩) (hlen : (pre ++ rest).length ≤ cap) :
    fresh cap mc (pre ++ rest) = some (r, o, rest) := by
  have hp := C03.fromParser_inv (input := []) mc (Nat.zero_le _) hcap
  have hn : (pre ++ rest).length ≤ (Req.Parser.fromParser cap [] mc).free := by
    simp only [Req.Parser.free, Req.Parser.fromParser, List.length_nil]; omega
  unfold fresh
  rw [parse_eq hp hn]
  simp only [Req.Parser.fromParser, List.nil_append, run_pre_rest hpre]
  rfl

/-! ### Concrete instances -/

namespace Examples

/-- `BeginRequest(id 1, Responder, flags 0)`. -/
def exBegin : Rec :=
  { rtype := 1, id := 1, content := toBe16 1 ++ [0] ++ [0, 0, 0, 0, 0], pad := [], reserved := 0 }
/-- the empty `Params` record that ends the preamble -/
def exEndParams : Rec := { rtype := 4, id := 1, content := [], pad := [], reserved := 0 }
def exPre : Bytes := exBegin.ser ++ exEndParams.ser
def exReq : Request := Request.new 1 { role := 1, flags := 0 }
/-- `Stdin(id 1, "hi")` and the empty `Stdin(id 1)`: the request's input stream, never read. -/
def exStdin : Rec := { rtype := 5, id := 1, content := [104, 105], pad := [0, 0, 0, 0, 0, 0] }
def exStdinEnd : Rec := { rtype := 5, id := 1, content := [], pad := [] }

theorem ex_pre (mc : Nat) : run .header exPre mc = ⟨[], .done exReq, [], none⟩ := by
  unfold exPre exBegin
  rw [header_begin 1 1 0 [0, 0, 0, 0, 0] [] 0 _ mc ⟨by decide, by decide⟩ rfl rfl (by decide)]
  have := params_done { req := exReq, buffer := [] } (innerOK_nil _) [] 0 [] mc (by decide)
    (by decide)
  rw [List.append_nil] at this
  exact this

theorem ex_stale : Stale exStdin ∧ Stale exStdinEnd :=
  ⟨stale_of_type ⟨by decide, by decide, by decide⟩ (by decide),
    stale_of_type ⟨by decide, by decide, by decide⟩ (by decide)⟩

/-- The request as sent: preamble, then its (unread) `Stdin` stream. -/
def exSent : Sent := { pre := exPre, streams := [exStdin, exStdinEnd], req := exReq, out := [] }

theorem exSent_ok (mc : Nat) : exSent.OK mc :=
  ⟨ex_pre mc, fun r hr => by
    simp only [exSent, List.mem_cons, List.not_mem_nil, or_false] at hr
    rcases hr with rfl | rfl
    · exact ex_stale.1
    · exact ex_stale.2⟩

/-- Two such requests back to back in a 128-byte buffer: the chain yields both. -/
example : (serve 2 (Req.Parser.fromParser 128 [] 10) (exSent.wire ++ exSent.wire)).1 =
    [(exReq, []), (exReq, [])] :=
  (two_requests_partial (by decide) exSent exSent (exSent_ok 10) (exSent_ok 10) (by decide)).1

/-- The stale `Stdin` records are skipped by the idle parser without output. -/
example (rest : Bytes) (mc : Nat) :
    run .header (exStdin.ser ++ (exStdinEnd.ser ++ rest)) mc = run .header rest mc := by
  rw [stale_records_skipped _ ex_stale.1, stale_records_skipped _ ex_stale.2]

/-- Hand-off identities on a concrete completed parser holding three unread bytes. -/
example :
    let p : Req.Parser := { cap := 24, input := [1, 5, 0], state := .done exReq, maxConns := 1 }
    ∃ sp, p.intoStreamParser = .ok sp ∧ sp.raw = [1, 5, 0] ∧ sp.parsed = [] ∧ sp.cap = 24 ∧
      sp.request = exReq ∧ SInv sp ∧
      ∃ rp, sp.intoRequestParser = some (.ok rp) ∧ rp.input = [1, 5, 0] ∧ rp.state = .header ∧
        PInv rp := by
  intro p
  have hp : PInv p := ⟨by decide, trivial, by decide⟩
  refine ⟨_, into_stream_parser_done rfl, rfl, rfl, rfl, rfl, ?_, ?_⟩
  · exact (into_stream_parser_inv hp rfl (by decide) (into_stream_parser_done rfl)).1
  · have hs := (into_stream_parser_inv hp rfl (by decide) (into_stream_parser_done (p := p) rfl)).1
    refine ⟨_, (into_request_parser_cases _).2.2 rfl rfl, rfl, rfl, ?_⟩
    exact (into_request_parser hs (by decide) ((into_request_parser_cases _).2.2 rfl rfl)).2.2.2.2.1

/-- A management `GetValues` record with a (garbage) one-byte body. -/
def exGetValues : Rec := { rtype := 9, id := 0, content := [1], pad := [] }

theorem ex_owed (mc : Nat) : owed none mc exGetValues ≠ [] := by
  simp [owed, exGetValues, RT.valid, RT.getValues, Vars.responseRecord, RecordHeader.toBytes]

end Examples

open Examples in
/-- **`k_requests_full` is false.**  `w₁` = a preamble followed by a management `GetValues` record,
`w₂` = a preamble.  Fresh parsers yield `(req, no output)` twice.  In the chain the first parser
completes its request with the `GetValues` record unread; the handler does not read; the *next*
request parser answers the query, so the second turn's output is a `GetValuesResult` record. -/
theorem k_requests_full_false : ¬ k_requests_full := by
  intro h
  have hlen : ([exPre ++ exGetValues.ser, exPre] : List Bytes).flatten.length ≤ 64 := by decide
  have hw₁ : fresh 64 10 (exPre ++ exGetValues.ser) = some (exReq, [], exGetValues.ser) :=
    fresh_pre_rest (by decide) (ex_pre 10) (by decide)
  have hw₂ : fresh 64 10 exPre = some (exReq, [], []) := by
    have := fresh_pre_rest (rest := []) (cap := 64) (by decide) (ex_pre 10) (by decide)
    simpa using this
  have := h 64 10 [exPre ++ exGetValues.ser, exPre] (by decide) hlen (by
    intro w hw
    simp only [List.mem_cons, List.not_mem_nil, or_false] at hw
    rcases hw with rfl | rfl
    · rw [hw₁]; rfl
    · rw [hw₂]; rfl)
  -- the chain
  have hflat : ([exPre ++ exGetValues.ser, exPre] : List Bytes).flatten =
      [] ++ (exPre ++ (exGetValues.ser ++ exPre)) := by simp
  have ht1 : turn (Req.Parser.fromParser 64 [] 10) ([exPre ++ exGetValues.ser, exPre] : List Bytes).flatten
      = some (exReq, [], Req.Parser.fromParser 64 (exGetValues.ser ++ exPre) 10) := by
    apply turn_of_run (by decide) (by simpa using hlen)
    rw [hflat, List.nil_append, List.nil_append]
    exact run_pre_rest (ex_pre 10)
  have hrun2 : run .header (exGetValues.ser ++ exPre ++ []) 10 =
      ⟨[], .done exReq, owed none 10 exGetValues, none⟩ := by
    rw [List.append_nil,
      header_noise exGetValues ⟨⟨by decide, by decide, by decide⟩, fun hx => by cases hx⟩ exPre 10
        (Or.inl (by decide)), ex_pre 10]
    simp
  have ht2 : turn (Req.Parser.fromParser 64 (exGetValues.ser ++ exPre) 10) [] =
      some (exReq, owed none 10 exGetValues, Req.Parser.fromParser 64 [] 10) :=
    turn_of_run (by decide) (by decide) hrun2
  simp only [List.length_cons, List.length_nil, serve, ht1, ht2, List.map_cons, List.map_nil, hw₁,
    hw₂, Option.map_some] at this
  simp only [List.cons.injEq, Option.some.injEq, Prod.mk.injEq, true_and, and_true] at this
  exact ex_owed 10 this
