import Fcgi.Proofs.AsyncRead
import Fcgi.Model.RunLoop
namespace Fcgi.Async
open Fcgi Fcgi.Str

def cxReq : Req.Request := { id := 1, role := 3, flags := 0, env := [] }
def cxR0 : AReq := AReq.new (Parser.fromParser 64 cxReq [] 10)
def cxR1 : AReq := (cxR0.setStream 8).getD cxR0
/-- `Data(id 1, "AB")` followed by `AbortRequest(id 1)`, delivered by one transport read. -/
def cxT : Transport :=
  { input := [1, 8, 0, 1, 0, 2, 0, 0, 65, 66,  1, 2, 0, 1, 0, 0, 0, 0], endMode := .eof, rd := [], wr := [], fl := [] }

#eval (cxR1.pollInput none none cxT).2.2.2
#eval (cxR1.pollInput none none cxT).1.sp.parsed
#eval (cxR1.pollInput none none cxT).1.writeable
#eval let x := cxR1.pollInput none none cxT; (x.1.writeablePoll false x.2.1 x.2.2.1).2.2.2.2
#eval let x := cxR1.pollInput none none cxT; (x.1.writeablePoll false x.2.1 x.2.2.1).1.writeable

theorem cx1 : (cxR1.pollInput none none cxT).2.2.2 = .err .connectionAborted ∧
    (cxR1.pollInput none none cxT).1.sp.parsed = [65, 66] ∧
    (cxR1.pollInput none none cxT).1.writeable = false := by decide +kernel
