import Fcgi.Proofs.AsyncRead
namespace Fcgi.Async
open Fcgi Fcgi.Str

theorem lockPoll_req {r : AReq} {m : MutexSt} (hl : LockInv r m) :
    lockPoll (if r.lock == .none then LockSt.polling else r.lock) m 0 = (.held, some 0, true) ∨
    (lockPoll (if r.lock == .none then LockSt.polling else r.lock) m 0 = (.polling, m, false) ∧
      ∃ i, m = some (i + 1)) := by
  obtain ⟨h1, -⟩ := hl
  cases hlk : r.lock with
  | held =>
    have := h1.mp hlk
    subst this
    left; rfl
  | none =>
    have hm : m ≠ some 0 := fun hm => by have := h1.mpr hm; rw [hlk] at this; cases this
    cases m with
    | none => left; rfl
    | some x =>
      cases x with
      | zero => exact absurd rfl hm
      | succ i => right; exact ⟨rfl, i, rfl⟩
  | polling =>
    have hm : m ≠ some 0 := fun hm => by have := h1.mpr hm; rw [hlk] at this; cases this
    cases m with
    | none => left; rfl
    | some x =>
      cases x with
      | zero => exact absurd rfl hm
      | succ i => right; exact ⟨rfl, i, rfl⟩

/-- `Request::poll_output`. -/
theorem pollOutput_spec {r : AReq} {m : MutexSt} {t : Transport} {r' : AReq} {m' : MutexSt}
    {t' : Transport} {res : ORes} (hl : LockInv r m) (h : r.pollOutput m t = (r', m', t', res)) :
    ∃ k, r'.sp = r.sp.consumeOutput k ∧ r'.writeable = r.writeable ∧
      t'.wlog = t.wlog ++ r.sp.output.take k ∧ RFrame t t' ∧ LockInv r' m' ∧
      (∀ s, res ≠ .panic s) ∧
      (res = .ready → r'.sp.output = [] ∧ r'.lock = .none ∧
        (r.sp.output = [] → r' = r ∧ m' = m ∧ t' = t) ∧ (r.sp.output ≠ [] → m' = none)) ∧
      (res ≠ .ready → r'.sp.output ≠ [] ∧
        ((m' = some 0 ∧ r'.lock = .held) ∨
         (t' = t ∧ r' = { r with lock := .polling } ∧ m' = m ∧ res = .pending ∧ ∃ i, m = some (i + 1)))) := by
  unfold AReq.pollOutput at h
  split at h
  · rename_i he
    have he' : r.sp.output = [] := by simpa using he
    have hlk := hl.2 he'
    simp only [hlk, bne_self_eq_false, Bool.false_eq_true, if_false] at h
    cases h
    exact ⟨0, (consumeOutput_zero _).symm, rfl, by simp, RFrame.refl _, hl, fun s hs => (nomatch hs),
      fun _ => ⟨he', hlk, fun _ => ⟨rfl, rfl, rfl⟩, fun hne => absurd he' hne⟩,
      fun hr => absurd rfl hr⟩
  · rename_i hne
    have hne' : r.sp.output ≠ [] := by simpa using hne
    rcases lockPoll_req hl with hq | ⟨hq, i, hi⟩
    · simp only [hq, Bool.not_true, Bool.false_eq_true, if_false] at h
      rcases ho : outLoop (r.sp.output.length + 1) r.sp t with ⟨sp1, t1, o⟩
      obtain ⟨k, h1, h2, h3, h4, h5, h6⟩ := outLoop_spec _ r.sp t (Nat.lt_succ_self _) sp1 t1 o ho
      rw [ho] at h
      cases o with
      | ready =>
        simp only at h
        cases h
        have ho' := h4 rfl
        exact ⟨k, h1, rfl, h2, h3, ⟨⟨fun hx => (nomatch hx), fun hx => (nomatch hx)⟩, fun _ => rfl⟩,
          fun s hs => (nomatch hs),
          fun _ => ⟨ho', rfl, fun he => absurd he hne', fun _ => rfl⟩, fun hr => absurd rfl hr⟩
      | pending =>
        simp only at h
        cases h
        have ho' := h5 (fun hx => (nomatch hx))
        exact ⟨k, h1, rfl, h2, h3, ⟨⟨fun _ => rfl, fun _ => rfl⟩, fun he => absurd he ho'⟩,
          fun s hs => (nomatch hs), fun hr => (nomatch hr), fun _ => ⟨ho', Or.inl ⟨rfl, rfl⟩⟩⟩
      | err e =>
        simp only at h
        cases h
        have ho' := h5 (fun hx => (nomatch hx))
        exact ⟨k, h1, rfl, h2, h3, ⟨⟨fun _ => rfl, fun _ => rfl⟩, fun he => absurd he ho'⟩,
          fun s hs => (nomatch hs), fun hr => (nomatch hr), fun _ => ⟨ho', Or.inl ⟨rfl, rfl⟩⟩⟩
      | panic s => exact absurd rfl (h6 s)
    · simp only [hq, Bool.not_false, if_true] at h
      cases h
      refine ⟨0, (consumeOutput_zero _).symm, rfl, by simp, RFrame.refl _,
        ⟨⟨fun hx => (nomatch hx), fun hx => ?_⟩, fun he => absurd he hne'⟩, fun s hs => (nomatch hs),
        fun hr => (nomatch hr), fun _ => ⟨hne', Or.inr ⟨rfl, rfl, rfl, rfl, i, hi⟩⟩⟩
      rw [hi] at hx; cases hx
