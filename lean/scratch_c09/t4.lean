import Fcgi.Proofs.AsyncRead
namespace Fcgi.Async
open Fcgi Fcgi.Str
open Fcgi.C05 (fedBytes)
open Fcgi.C03S (sentAll outSent)

/-! ## Polls as operation histories -/

/-- The parser-level effect of a stretch of a poll is the operation history `ops`: every call is
legal where it is made, the bytes fed are exactly the bytes that left the transport's input
(`inp = fed ++ inp'`), the bytes removed from the reply buffer are exactly the bytes appended to
the transport's write log. -/
structure Tr (p : Parser) (inp wl : Bytes) (ops : List Op) (p' : Parser) (inp' wl' : Bytes) :
    Prop where
  legal : LegalAll p ops
  sp : p' = applyOps p ops
  fed : inp = fedBytes ops ++ inp'
  sent : wl' = wl ++ sentAll p ops

theorem Tr.nil (p : Parser) (inp wl : Bytes) : Tr p inp wl [] p inp wl :=
  ⟨trivial, rfl, rfl, by simp [sentAll]⟩

theorem Tr.parse {p p' : Parser} {inp wl inp' wl' new : Bytes} {dest : Option Nat} {ops : List Op}
    (hl : Legal p (.parse new dest)) (h : Tr (p.parse new dest).1 inp wl ops p' inp' wl') :
    Tr p (new ++ inp) wl (.parse new dest :: ops) p' inp' wl' :=
  ⟨⟨hl, h.legal⟩, h.sp, by rw [h.fed]; simp [fedBytes], by rw [h.sent]; simp [sentAll, outSent, applyOp]⟩

theorem Tr.compress {p p' : Parser} {inp wl inp' wl' : Bytes} {ops : List Op}
    (h : Tr p.compress inp wl ops p' inp' wl') : Tr p inp wl (.compress :: ops) p' inp' wl' :=
  ⟨⟨trivial, h.legal⟩, h.sp, by rw [h.fed]; simp [fedBytes], by rw [h.sent]; simp [sentAll, outSent, applyOp]⟩

theorem Tr.consumeOutput {p p' : Parser} {inp wl inp' wl' : Bytes} {ops : List Op} (k : Nat)
    (h : Tr (p.consumeOutput k) inp (wl ++ p.output.take k) ops p' inp' wl') :
    Tr p inp wl (.consumeOutput k :: ops) p' inp' wl' :=
  ⟨⟨trivial, h.legal⟩, h.sp, by rw [h.fed]; simp [fedBytes],
    by rw [h.sent]; simp [sentAll, outSent, applyOp]⟩

theorem Tr.consumeStream {p p' : Parser} {inp wl inp' wl' : Bytes} {ops : List Op} (k : Nat)
    (h : Tr (p.consumeStream k) inp wl ops p' inp' wl') :
    Tr p inp wl (.consumeStream k :: ops) p' inp' wl' :=
  ⟨⟨trivial, h.legal⟩, h.sp, by rw [h.fed]; simp [fedBytes],
    by rw [h.sent]; simp [sentAll, outSent, applyOp]⟩

/-- From an invariant state the history keeps the invariant, the capacity and the request. -/
theorem Tr.inv {p p' : Parser} {inp wl inp' wl' : Bytes} {ops : List Op}
    (h : Tr p inp wl ops p' inp' wl') (hinv : SInv p) :
    SInv p' ∧ p'.cap = p.cap ∧ p'.request = p.request ∧ ¬ PanicsAny p ops := by
  obtain ⟨a, b⟩ := trace_safe hinv h.legal
  obtain ⟨c, d, -⟩ := C05.applyOps_frame ops p
  rw [h.sp]
  exact ⟨a, c, d, b⟩

theorem isFinal_congr {r r' : AReq} (h1 : r'.sp.request = r.sp.request)
    (h2 : r'.sp.stream = r.sp.stream) : r'.isFinalStream = r.isFinalStream := by
  simp [AReq.isFinalStream, h1, h2]

/-- What every poll of `poll_input` guarantees about its result. -/
structure PollOut (r : AReq) (dest : Option Nat) (r' : AReq) (m' : MutexSt) (res : IRes) :
    Prop where
  linv : LockInv r' m'
  nopanic : ∀ s, res ≠ .panic s
  final : r'.isFinalStream = r.isFinalStream
  wmono : r.writeable = true → r'.writeable = true
  wset : r'.writeable = true →
    r.writeable = true ∨ (r'.isFinalStream = true ∧ ∃ k d, res = .ready k d)
  rsome : ∀ n k d, dest = some n → res = .ready k d → d.length = k ∧ k ≤ n
  rnone : dest = none → ∀ k d, res = .ready k d → d = []

/-- What a poll that went through the parse loop guarantees in addition. -/
structure LoopOut (r : AReq) (dest : Option Nat) (r' : AReq) (res : IRes) : Prop where
  wready : ∀ k d, res = .ready k d → r.isFinalStream = true → r'.writeable = true
  last : ∀ k d, res = .ready k d → ∃ q new st, SInv q ∧ (dest = none ∨ q.parsed = []) ∧
    new.length ≤ q.free ∧ q.parse new dest = (r'.sp, .ok st) ∧ k = st.stream ∧
    d = st.delivered ∧ (st.streamEnd = true ∨ 0 < st.stream)
  psome : dest ≠ none → r'.sp.parsed = []

theorem PollOut.of_same {r r' : AReq} {dest : Option Nat} {m' : MutexSt} {res : IRes}
    (hw : r'.writeable = r.writeable) (hf : r'.isFinalStream = r.isFinalStream)
    (hl : LockInv r' m') (hres : ∀ k d, res ≠ .ready k d) (hnp : ∀ s, res ≠ .panic s) :
    PollOut r dest r' m' res :=
  ⟨hl, hnp, hf, fun h => hw ▸ h, fun h => Or.inl (hw ▸ h), fun _ k d _ h => absurd h (hres k d),
    fun _ k d h => absurd h (hres k d)⟩

theorem PollOut.pre {r r1 r' : AReq} {dest : Option Nat} {m' : MutexSt} {res : IRes}
    (hw : r1.writeable = r.writeable) (hf : r1.isFinalStream = r.isFinalStream)
    (h : PollOut r1 dest r' m' res) : PollOut r dest r' m' res :=
  ⟨h.linv, h.nopanic, h.final.trans hf, fun x => h.wmono (hw ▸ x),
    fun x => (h.wset x).imp (fun y => hw ▸ y) id, h.rsome, h.rnone⟩

theorem LoopOut.pre {r r1 r' : AReq} {dest : Option Nat} {res : IRes}
    (hf : r1.isFinalStream = r.isFinalStream) (h : LoopOut r1 dest r' res) :
    LoopOut r dest r' res :=
  ⟨fun k d x y => h.wready k d x (hf ▸ y), h.last, h.psome⟩

theorem LoopOut.of_notready {r r' : AReq} {dest : Option Nat} {res : IRes}
    (hres : ∀ k d, res ≠ .ready k d) (hp : dest ≠ none → r'.sp.parsed = []) :
    LoopOut r dest r' res :=
  ⟨fun k d h => absurd h (hres k d), fun k d h => absurd h (hres k d), hp⟩

theorem lockInv_sp {r : AReq} {m : MutexSt} (hl : LockInv r m) {sp : Parser}
    (ho : sp.output = [] → r.sp.output = []) : LockInv { r with sp := sp } m :=
  ⟨hl.1, fun h => hl.2 (ho h)⟩
