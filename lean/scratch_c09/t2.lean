import Fcgi.Model.Async
namespace Fcgi.Async
open Fcgi Fcgi.Str
example {t t' : Transport} {buf : Bytes} {res : Poll (Except IoErr Nat)}
    (h : t.write buf = (t', res)) : True := by
  unfold Transport.write Transport.writeV at h
  simp only [List.flatten_cons, List.flatten_nil, List.append_nil] at h
  split at h
  · trivial
  · trace_state
    split at h
    all_goals trace_state
    all_goals trivial
example (sp sp' : Parser) (t t' : Transport) (fuel : Nat) (res : ORes) (h : outLoop (fuel+1) sp t = (sp', t', res)) : True := by
  rw [outLoop] at h
  split at h
  · trivial
  · split at h
    all_goals trace_state
    all_goals trivial
