import Fcgi.Proofs.AsyncRead
namespace Fcgi.Async
open Fcgi Fcgi.Str
open Fcgi.C05 (fedBytes)
open Fcgi.C03S (sentAll outSent)

/-! ## `writeable`, `set_stream` -/

/-- The last input stream of a role has no successor. -/
theorem next_last_none (role : Nat) : nextInputStream role (inputStreams role).getLast? = none := by
  unfold nextInputStream inputStreams
  by_cases h1 : role = 1
  · subst h1; decide
  · by_cases h3 : role = 3
    · subst h3; decide
    · simp [h1, h3]

/-- Every way `set_stream` succeeds: the active stream is then the requested one; either nothing
changed, or the stream buffer was discarded; reply buffer, capacity, request are kept. -/
theorem setStream_ok_frame {p p' : Parser} {st : Option Nat} (h : p.setStream st = .ok p') :
    p'.stream = st ∧ p'.output = p.output ∧ p'.cap = p.cap ∧ p'.request = p.request ∧
      p'.raw = p.raw ∧ (p' = p ∨ (p'.parsed = [] ∧ st ≠ p.stream)) := by
  rcases setStream_ok_cases h with ⟨h1, rfl⟩ | ⟨h1, rfl, -⟩
  · exact ⟨h1.symm, rfl, rfl, rfl, rfl, Or.inl rfl⟩
  · exact ⟨rfl, rfl, rfl, rfl, rfl, Or.inr ⟨rfl, h1⟩⟩

/-- Selecting the role's last stream is always accepted while some stream is active. -/
theorem setStream_last_ok {p : Parser} (hinv : SInv p) (hs : p.stream ≠ none) :
    ∃ p', p.setStream (inputStreams p.request.role).getLast? = .ok p' := by
  obtain ⟨-, -, -, -, hst, -⟩ := hinv
  rcases hst with hst | ⟨e, hst, hm⟩
  · exact absurd hst hs
  · have hcur : ∀ e', p.stream = some e' → RT.isInputStream e' = true := by
      intro e' he'; rw [hst] at he'; cases he'; exact mem_inputStreams_isInput hm
    by_cases h1 : p.request.role = 1
    · have hl : inputStreams p.request.role = [5] := by simp [inputStreams, h1, RT.stdin]
      rw [hl] at hm ⊢
      simp only [List.mem_singleton] at hm
      subst hm
      refine ⟨p, ?_⟩
      show p.setStream (some 5) = .ok p
      rw [C18.setStream_some_input_eq p (s := 5) rfl hcur]
      simp [hst]
    · by_cases h3 : p.request.role = 3
      · have hl : inputStreams p.request.role = [5, 8] := by
          simp [inputStreams, h3, RT.stdin, RT.data]
        rw [hl] at hm ⊢
        simp only [List.mem_cons, List.not_mem_nil, or_false] at hm
        show ∃ p', p.setStream (some 8) = .ok p'
        rw [C18.setStream_some_input_eq p (s := 8) rfl hcur]
        rcases hm with rfl | rfl
        · refine ⟨p.switchTo (some 8), ?_⟩
          have hl : Later p.request.role (some 5) 8 := by rw [h3]; decide
          simp [hst, hl]
        · exact ⟨p, by simp [hst]⟩
      · simp [inputStreams, h1, h3] at hm

/-- `writeable` is set whenever no stream is active, and whenever stream data of the final stream
is buffered. -/
def WInv (r : AReq) : Prop :=
  (r.sp.stream = none → r.writeable = true) ∧
  (r.sp.parsed ≠ [] → r.isFinalStream = true → r.writeable = true)

theorem new_winv (cap : Nat) (req : Req.Request) (input : Bytes) (mc : Nat) :
    WInv (AReq.new (Parser.fromParser cap req input mc)) := by
  refine ⟨fun h => ?_, fun h => absurd rfl h⟩
  simp only [AReq.new, Parser.fromParser] at h ⊢
  unfold nextInputStream at h
  unfold inputStreams
  by_cases h1 : req.role = 1
  · simp [h1] at h
  · by_cases h3 : req.role = 3
    · simp [h3] at h
    · simp [h1, h3]

/-- `Request::new` sets `writeable` iff the role has at most one input stream. -/
theorem new_writeable (sp : Parser) :
    (AReq.new sp).writeable = true ↔ (inputStreams sp.request.role).length ≤ 1 := by
  simp [AReq.new]

theorem new_ainv {sp : Parser} (h : SInv sp) (hc : 24 ≤ sp.cap) : AInv (AReq.new sp) := ⟨h, hc⟩

theorem new_lockInv (sp : Parser) {m : MutexSt} (hm : m ≠ some 0) : LockInv (AReq.new sp) m :=
  ⟨⟨fun h => (nomatch h), fun h => absurd h hm⟩, fun _ => rfl⟩

/-- `Request::set_stream` succeeds iff the stream parser accepts; the result. -/
theorem setStream_some_iff (r : AReq) (s : Nat) (r' : AReq) :
    r.setStream s = some r' ↔ ∃ sp', r.sp.setStream (some s) = .ok sp' ∧ r' = { r with sp := sp' } := by
  unfold AReq.setStream
  constructor
  · intro h
    split at h
    · rename_i sp' hs
      cases h
      exact ⟨sp', hs, rfl⟩
    · cases h
  · rintro ⟨sp', hs, rfl⟩
    rw [hs]

theorem setStream_none_iff (r : AReq) (s : Nat) :
    r.setStream s = none ↔ ∀ sp', r.sp.setStream (some s) ≠ .ok sp' := by
  unfold AReq.setStream
  constructor
  · intro h sp' hs
    rw [hs] at h; cases h
  · intro h
    split
    · rename_i sp' hs; exact absurd hs (h sp')
    · rfl

/-- `set_stream` keeps all invariants and never resets `writeable`. -/
theorem setStream_inv {r r' : AReq} {s : Nat} {m : MutexSt} (h : r.setStream s = some r')
    (hinv : AInv r) (hl : LockInv r m) (hw : WInv r) :
    AInv r' ∧ LockInv r' m ∧ WInv r' ∧ r'.writeable = r.writeable ∧ r'.lock = r.lock := by
  obtain ⟨sp', hs, rfl⟩ := (setStream_some_iff r s _).mp h
  obtain ⟨h1, h2, h3, h4, -, h6⟩ := setStream_ok_frame hs
  refine ⟨⟨C03S.setStream_inv hinv.1 hs, by show 24 ≤ sp'.cap; rw [h3]; exact hinv.2⟩,
    lockInv_sp hl (fun hx => by rw [← h2]; exact hx), ⟨fun hx => ?_, fun hp hf => ?_⟩, rfl, rfl⟩
  · simp only at hx; rw [h1] at hx; cases hx
  · rcases h6 with rfl | ⟨hx, -⟩
    · exact hw.2 hp hf
    · exact absurd hx hp

/-- the tail of `writeable()`: the `poll_input(None)` poll on the final stream -/
theorem writeable_tail {r1 : AReq} {m : MutexSt} {t : Transport} {r2 : AReq} {m2 : MutexSt}
    {t2 : Transport} {x : IRes} (hinv : AInv r1) (hl : LockInv r1 m)
    (hfin : r1.isFinalStream = true) (hbuf : r1.sp.parsed ≠ [] → r1.writeable = true)
    (h : r1.pollInput none m t = (r2, m2, t2, x)) :
    AInv r2 ∧ LockInv r2 m2 ∧ (∀ s, x ≠ .panic s) ∧ (r1.writeable = true → r2.writeable = true) ∧
      (∀ k d, x = .ready k d → r2.writeable = true) ∧ r2.isFinalStream = true ∧
      (x = .pending → r2.sp.parsed ≠ [] → r2.writeable = true) := by
  obtain ⟨⟨ops, htr⟩, hpo, hlo⟩ := pollInput_spec hinv hl h
  obtain ⟨hs, hc, -, -⟩ := htr.inv hinv.1
  refine ⟨⟨hs, by rw [hc]; exact hinv.2⟩, hpo.linv, hpo.nopanic, hpo.wmono, ?_,
    hpo.final.trans hfin, ?_⟩
  · intro k d hx
    by_cases hp : r1.sp.parsed = []
    · exact (hlo (fun hz => (nomatch hz)) hp).wready k d hx hfin
    · rw [pollInput_none_buffered r1 m t hp] at h
      cases h
      exact hbuf hp
  · intro hx hp2
    by_cases hp : r1.sp.parsed = []
    · rw [(hlo (fun hz => (nomatch hz)) hp).ppend hx] at hp2
      exact absurd hp hp2
    · exact hpo.wmono (hbuf hp)

/-- `poll_input`'s result as `writeable()` reports it (`.and(Ok(()))`). -/
def oresOf : IRes → ORes
  | .ready _ _ => .ready
  | .pending => .pending
  | .err e => .err e
  | .panic s => .panic s

/-- **`Request::writeable()`**, one poll.  Under the invariants (`started`: the future is being
re-polled after a `Pending`, the final stream is then already selected): never panics — in
particular `set_stream(final)` is never rejected —, keeps the invariants, never resets
`writeable`, and completes only with `writeable` set. -/
theorem writeablePoll_spec {r : AReq} {started : Bool} {m : MutexSt} {t : Transport} {r' : AReq}
    {b : Bool} {m' : MutexSt} {t' : Transport} {res : ORes} (hinv : AInv r) (hl : LockInv r m)
    (hw : WInv r) (hstart : started = true → r.isFinalStream = true)
    (h : r.writeablePoll started m t = (r', b, m', t', res)) :
    b = true ∧ AInv r' ∧ LockInv r' m' ∧ (∀ s, res ≠ .panic s) ∧
      (r.writeable = true → r'.writeable = true) ∧ (res = .ready → r'.writeable = true) ∧
      (res = .pending → r'.isFinalStream = true ∧ (r'.sp.parsed ≠ [] → r'.writeable = true)) := by
  -- the `poll_input(None)` poll on the request `r1` with the final stream selected
  have fin : ∀ (r1 : AReq), AInv r1 → LockInv r1 m → r1.isFinalStream = true →
      r1.writeable = r.writeable → (r1.sp.parsed ≠ [] → r1.writeable = true) →
      ∀ r2 m2 t2 x, r1.pollInput none m t = (r2, m2, t2, x) →
      (r', b, m', t', res) = (r2, true, m2, t2, oresOf x) →
      b = true ∧ AInv r' ∧ LockInv r' m' ∧ (∀ s, res ≠ .panic s) ∧
      (r.writeable = true → r'.writeable = true) ∧ (res = .ready → r'.writeable = true) ∧
      (res = .pending → r'.isFinalStream = true ∧ (r'.sp.parsed ≠ [] → r'.writeable = true)) := by
    intro r1 hinv1 hl1 hfin1 hw1 hbuf1 r2 m2 t2 x hpi heq
    cases heq
    obtain ⟨a1, a2, a3, a4, a5, a6, a7⟩ := writeable_tail hinv1 hl1 hfin1 hbuf1 hpi
    refine ⟨rfl, a1, a2, ?_, fun hx => a4 (hw1 ▸ hx), ?_, ?_⟩
    · intro s hx
      cases x with
      | panic s' => exact absurd rfl (a3 s')
      | _ => cases hx
    · intro hx
      cases x with
      | ready k d => exact a5 k d rfl
      | _ => cases hx
    · intro hx
      cases x with
      | pending => exact ⟨a6, a7 rfl⟩
      | _ => cases hx
  cases started with
  | true =>
    simp only [AReq.writeablePoll, Bool.not_true, Bool.false_and, Bool.false_eq_true, if_false,
      if_true] at h
    rcases hpi : r.pollInput none m t with ⟨r2, m2, t2, x⟩
    rw [hpi] at h
    exact fin r hinv hl (hstart rfl) rfl (fun hp => hw.2 hp (hstart rfl)) r2 m2 t2 x hpi
      (by cases x <;> exact h.symm)
  | false =>
    by_cases hwt : r.writeable = true
    · simp only [AReq.writeablePoll, hwt, Bool.not_false, Bool.and_self, if_true] at h
      cases h
      exact ⟨rfl, hinv, hl, fun s hx => (nomatch hx), id, fun _ => hwt, fun hx => (nomatch hx)⟩
    · have hwr : r.writeable = false := by
        cases hx : r.writeable with
        | false => rfl
        | true => exact absurd hx hwt
      have hsn : r.sp.stream ≠ none := fun hx => by
        have := hw.1 hx; rw [hwr] at this; cases this
      obtain ⟨p', hp'⟩ := setStream_last_ok hinv.1 hsn
      obtain ⟨h1, h2, h3, h4, -, h6⟩ := setStream_ok_frame hp'
      simp only [AReq.writeablePoll, hwr, Bool.not_false, Bool.and_false, Bool.false_eq_true,
        if_false, hp'] at h
      rcases hpi : ({ sp := p', lock := r.lock, writeable := false } : AReq).pollInput none m t
        with ⟨r2, m2, t2, x⟩
      rw [hpi] at h
      refine fin { sp := p', lock := r.lock, writeable := false }
        ⟨C03S.setStream_inv hinv.1 hp', ?_⟩
        ⟨hl.1, fun hx => hl.2 (by rw [← h2]; exact hx)⟩ ?_ hwr.symm ?_ r2 m2 t2 x hpi
        (by cases x <;> exact h.symm)
      · show 24 ≤ p'.cap; rw [h3]; exact hinv.2
      · simp only [AReq.isFinalStream, h1, h4, next_last_none]; rfl
      · intro hp
        rcases h6 with rfl | ⟨hx, -⟩
        · exfalso
          have : r.writeable = true := by
            apply hw.2 hp
            simp only [AReq.isFinalStream]
            rw [show r.sp.stream = (inputStreams r.sp.request.role).getLast? from h1,
              next_last_none]
            rfl
          rw [hwr] at this; cases this
        · exact absurd hx hp
