import Fcgi.Props.C05
namespace Fcgi.C05
open Fcgi Fcgi.Req Fcgi.Spec

/-! ## 1b. The request id of a completed request is in `1..65535` -/

/-- Request ids are non-zero 16-bit numbers. -/
def IdB (r : Request) : Prop := 0 < r.id ∧ r.id < 65536

def CtxId : Ctx → Prop
  | .hdr => True
  | .par i => IdB i.req
  | .dn r => IdB r

/-- Every request (under construction or completed) a state carries has a valid id. -/
def StId : State → Prop
  | .header => True
  | .params i _ _ => IdB i.req
  | .skip c _ _ => CtxId c
  | .values c _ _ _ => CtxId c
  | .done r => IdB r
  | .fatal _ => True

theorem stId_intoState {c : Ctx} (h : CtxId c) : StId c.intoState := by
  cases c <;> exact h

theorem stId_intoSkip {c : Ctx} (h : CtxId c) (pay pad : Nat) : StId (c.intoSkip pay pad) := by
  unfold Ctx.intoSkip
  split
  · exact stId_intoState h
  · exact h

theorem tryHead_ok_id {c : Ctx} {d : Bytes} {hd : RecordHeader} (h : tryHead c d = .ok hd) :
    hd.requestId < 65536 := by
  unfold tryHead at h
  split at h
  · rename_i b0 b1 b2 b3 b4 b5 b6 b7 t
    split at h
    · rename_i h' hfb
      cases h
      simp only [RecordHeader.fromBytes] at hfb
      split at hfb
      · cases hfb
      · split at hfb
        · cases hfb
        · cases hfb
          exact be16_lt _ _
    all_goals cases h
  · cases h

theorem tryHead_unknown_id {c : Ctx} {d o : Bytes} {st : State} (hc : CtxId c)
    (h : tryHead c d = .unknownType o st) : StId st := by
  unfold tryHead at h
  split at h
  · split at h
    · cases h
    · cases h; exact stId_intoSkip hc _ _
    all_goals cases h
  · cases h

/-- `parse_stream` never touches the id. -/
theorem parseStream_id {i i' : Inner} {data : Bytes} {e : Bool} {n : Nat} (hi : InnerOK i)
    (h : parseStream i data e = .ok i' n) : i'.req.id = i.req.id := by
  have hinv : ParamsInv i.req.env i.buffer i := by
    unfold ParamsInv
    rw [C16.all_none hi]
    exact ⟨rfl, rfl⟩
  exact (parseStream_spec _ _ _ _ _ _ _ hinv h).2.2.1.1

theorem headerDrive_id {d r o : Bytes} {s : State} {f : Flow} (h : headerDrive d = (f, o))
    (hf : f = .brk r s ∨ f = .cont r s) : StId s := by
  rcases hf with rfl | rfl
  · obtain ⟨-, -, -, hs⟩ := headerDrive_brk h
    rcases hs with rfl | ⟨e, rfl⟩ <;> trivial
  · unfold headerDrive at h
    split at h
    · cases h
    · cases h
    · rename_i o' st hh
      cases h
      exact tryHead_unknown_id (c := .hdr) trivial hh
    · rename_i hd hh
      have hid := tryHead_ok_id hh
      split at h
      · split at h
        · cases h
        · split at h
          · cases h
          · simp only at h
            split at h
            · cases h; exact stId_intoSkip (c := .hdr) trivial _ _
            · split at h
              · cases h
              · rename_i hz
                cases h
                refine ⟨?_, hid⟩
                show 0 < hd.requestId
                have : hd.requestId ≠ 0 := by simpa using hz
                omega
            · cases h
      · split at h
        · cases h; trivial
        · cases h; exact stId_intoSkip (c := .hdr) trivial _ _

theorem skipDrive_id {c : Ctx} {pay pad : Nat} {d r : Bytes} {s : State} {f : Flow}
    (hc : CtxId c) (h : skipDrive c pay pad d = f) (hf : f = .brk r s ∨ f = .cont r s) :
    StId s := by
  subst h
  unfold skipDrive at hf
  split at hf
  · rcases hf with hf | hf <;> cases hf; exact hc
  · split at hf
    · split at hf
      · rcases hf with hf | hf <;> cases hf; exact hc
      · rcases hf with hf | hf <;> cases hf
    · rcases hf with hf | hf <;> cases hf; exact stId_intoState hc

theorem valuesDrive_id {c : Ctx} {vars pay pad mc : Nat} {d r o : Bytes} {s : State} {f : Flow}
    (hc : CtxId c) (h : valuesDrive c vars pay pad d mc = (f, o))
    (hf : f = .brk r s ∨ f = .cont r s) : StId s := by
  unfold valuesDrive at h
  split at h
  · simp only at h
    split at h
    · split at h
      · cases h; rcases hf with hf | hf <;> cases hf; exact hc
      · cases h; rcases hf with hf | hf <;> cases hf
    · split at h
      · cases h; rcases hf with hf | hf <;> cases hf; exact hc
      · cases h; rcases hf with hf | hf <;> cases hf; exact stId_intoState hc
  · split at h
    · cases h; rcases hf with hf | hf <;> cases hf; exact hc
    · cases h; rcases hf with hf | hf <;> cases hf; exact stId_intoState hc

theorem recPhase_id {i : Inner} {d r o : Bytes} {s : State} {f : Flow} (hi : IdB i.req)
    (h : recPhase i d = (f, o)) (hf : f = .brk r s ∨ f = .cont r s) : StId s := by
  unfold recPhase at h
  split at h
  · cases h; rcases hf with hf | hf <;> cases hf; exact hi
  · cases h; rcases hf with hf | hf <;> cases hf; trivial
  · rename_i o' st hh
    cases h; rcases hf with hf | hf <;> cases hf
    exact tryHead_unknown_id (c := .par i) hi hh
  · simp only [] at h
    repeat' split at h
    all_goals cases h
    all_goals rcases hf with hf | hf <;> cases hf
    · exact stId_intoSkip (c := .dn i.req) hi _ _
    · exact hi
    · exact stId_intoSkip (c := .hdr) trivial _ _
    · exact stId_intoSkip (c := .par i) hi _ _
    · exact hi
    · exact stId_intoSkip (c := .par i) hi _ _

theorem paramsDrive_id {i : Inner} {pay pad : Nat} {d r o : Bytes} {s : State} {f : Flow}
    (hw : WFState (.params i pay pad)) (hi : IdB i.req) (h : paramsDrive i pay pad d = (f, o))
    (hf : f = .brk r s ∨ f = .cont r s) : StId s := by
  obtain ⟨-, -, hok⟩ := hw
  rcases paramsDrive_cases i pay pad d with ⟨x, hp, he⟩ | ⟨i', d1, hp, ⟨x, hq, he⟩ | ⟨d', hq, he⟩⟩
  · obtain ⟨i', n, hps, -, -, -, -, hr⟩ := payloadPhase_error hp
    rw [he, hr] at h
    cases h
    rcases hf with hf | hf <;> cases hf
    show IdB i'.req
    unfold IdB; rw [parseStream_id hok hps]; exact hi
  · have hi' : IdB i'.req := by
      rcases payloadPhase_ok hp with ⟨-, rfl, -⟩ | ⟨-, -, -, hps, -⟩
      · exact hi
      · unfold IdB; rw [parseStream_id hok hps]; exact hi
    obtain ⟨-, -, hr⟩ := padPhase_error hq
    rw [he, hr] at h
    cases h
    rcases hf with hf | hf <;> cases hf
    exact hi'
  · have hi' : IdB i'.req := by
      rcases payloadPhase_ok hp with ⟨-, rfl, -⟩ | ⟨-, -, -, hps, -⟩
      · exact hi
      · unfold IdB; rw [parseStream_id hok hps]; exact hi
    rw [he] at h
    exact recPhase_id hi' h hf

/-- One iteration keeps the id invariant. -/
theorem step_id {st s : State} {d r o : Bytes} {mc : Nat} {f : Flow} (hw : WFState st)
    (hid : StId st) (h : step st d mc = (f, o)) (hf : f = .brk r s ∨ f = .cont r s) : StId s := by
  unfold step at h
  split at h
  · cases h; rcases hf with hf | hf <;> cases hf; exact hid
  · cases h; rcases hf with hf | hf <;> cases hf; exact hid
  · exact headerDrive_id h hf
  · simp only [Prod.mk.injEq] at h
    exact skipDrive_id hid h.1 hf
  · cases h; rcases hf with hf | hf <;> cases hf
  · exact valuesDrive_id hid h hf
  · exact paramsDrive_id hw hid h hf

/-- The whole `drive` loop keeps it. -/
theorem run_id {st : State} (d : Bytes) (mc : Nat) (hw : WFState st) (hid : StId st) :
    StId (run st d mc).st := by
  induction hm : 2 * d.length + rank st using Nat.strongRecOn generalizing st d with
  | _ m ih =>
    subst hm
    cases hf : st.isFinal with
    | true => rw [run_final d mc hf]; exact hid
    | false =>
      cases h : step st d mc with
      | mk f o =>
        cases f with
        | panic s => exact (step_no_panic hw h).elim
        | brk r s =>
          rw [run_brk hf h]
          exact step_id hw hid h (Or.inl rfl)
        | cont r s =>
          obtain ⟨hws, hsuf, hg⟩ := step_cont hw h
          have hs := step_id hw hid h (Or.inr rfl)
          by_cases hr : r = []
          · subst hr; rw [run_cont_empty h]; exact hs
          · rw [run_cont hw h hr]
            have hrank := rank_le_one s
            have hrank' := rank_le_one st
            have hle := hsuf.length_le
            exact ih (2 * r.length + rank s) (by omega) r hws hs rfl

/-- …and so does every legal `parse` call. -/
theorem parse_id {p : Req.Parser} {new : Bytes} (hp : PInv p) (hn : new.length ≤ p.free)
    (hid : StId p.state) : StId (p.parse new).1.state := by
  rw [parse_eq hp hn]
  split
  · trivial
  · exact run_id _ _ hp.2.1 hid

/-- **The id bound.**  A request parser that started in state `Header` (`Parser::new`,
`Parser::from_parser`) and was driven by legal `parse` calls can only complete a request whose id
is in `1..65535` — `BeginRequest` with id 0 is `NullRequest`, and the id is a 16-bit field. -/
theorem done_id_bound {p : Req.Parser} (hp : PInv p) (hs : p.state = .header) (ns : List Bytes)
    (hl : C03.Legal p ns) {r : Request} (hd : (C03.feed p ns).state = .done r) :
    0 < r.id ∧ r.id < 65536 := by
  have key : ∀ (ns : List Bytes) (p : Req.Parser), PInv p → StId p.state → C03.Legal p ns →
      StId (C03.feed p ns).state := by
    intro ns
    induction ns with
    | nil => intro p _ h _; exact h
    | cons n ns ih =>
      intro p hp hid hl
      obtain ⟨hn, hl'⟩ := hl
      exact ih _ (C03.parse_total hp hn).choose_spec.2 (parse_id hp hn hid) hl'
  have := key ns p hp (by rw [hs]; trivial) hl
  rw [hd] at this
  exact this

/-- The same along `feedAll` (the caller stops at completion). -/
theorem done_id_bound_feedAll {p : Req.Parser} (hp : PInv p) (hs : StId p.state)
    (cs : List Bytes) (hl : C03.LegalFeed p cs) {r : Request}
    (hd : (C03.feedAll p cs).1.state = .done r) : 0 < r.id ∧ r.id < 65536 := by
  have key : ∀ (cs : List Bytes) (p : Req.Parser), PInv p → StId p.state → C03.LegalFeed p cs →
      StId (C03.feedAll p cs).1.state := by
    intro cs
    induction cs with
    | nil => intro p _ h _; exact h
    | cons c cs ih =>
      intro p hp hid hl
      cases hf : p.state.isFinal with
      | true => rw [C03.feedAll_final hf]; exact hid
      | false =>
        rcases hl with hl | ⟨-, hcn, hl⟩
        · rw [hf] at hl; cases hl
        obtain ⟨y, hy, hp'⟩ := C03.parse_total hp hcn
        have hpar : p.parse c = ((p.parse c).1, some y) := by rw [← hy]
        rw [C03.feedAll_cons cs hf hpar]
        exact ih _ hp' (parse_id hp hcn hid) hl
  have := key cs p hp hs hl
  rw [hd] at this
  exact this
