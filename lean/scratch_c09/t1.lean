import Fcgi.Model.Async
namespace Fcgi.Async
open Fcgi Fcgi.Str
theorem tread_spec {t t' : Transport} {cap : Nat} {res : Poll (Except IoErr Bytes)}
    (h : t.read cap = (t', res)) :
    t'.wlog = t.wlog ∧
    (∀ bs, res = .ready (.ok bs) → bs.length ≤ cap ∧ t.input = bs ++ t'.input ∧
      (bs = [] → cap = 0 ∨ (t.input = [] ∧ t.hold = false ∧ t.endMode = .eof))) ∧
    ((res = .pending ∨ ∃ e, res = .ready (.error e)) → t'.input = t.input) := by
  unfold Transport.read at h
  split at h
  · rename_i hc
    cases h
    refine ⟨rfl, fun bs hb => ?_, fun hb => rfl⟩
    cases hb
    exact ⟨Nat.zero_le _, rfl, fun _ => Or.inl (by simpa using hc)⟩
  · rename_i hc
    have hcap : 0 < cap := by
      have : cap ≠ 0 := by simpa using hc
      omega
    split at h
    rename_i a rest hq
    simp only at h
    split at h
    · cases h
      exact ⟨rfl, fun _ hb => (nomatch hb), fun _ => rfl⟩
    · cases h
      exact ⟨rfl, fun _ hb => (nomatch hb), fun _ => rfl⟩
    · split at h
      · rename_i hie
        have hin : t.input = [] := by simpa using hie
        split at h
        · cases h
          exact ⟨rfl, fun _ hb => (nomatch hb), fun _ => rfl⟩
        · rename_i hh
          split at h
          · rename_i hem
            cases h
            refine ⟨rfl, fun bs hb => ?_, fun hb => rfl⟩
            cases hb
            exact ⟨Nat.zero_le _, by simp [Transport.ev, hin], fun _ => Or.inr ⟨hin, by simpa using hh, hem⟩⟩
          · cases h
            exact ⟨rfl, fun _ hb => (nomatch hb), fun _ => rfl⟩
          · cases h
            exact ⟨rfl, fun _ hb => (nomatch hb), fun _ => rfl⟩
      · rename_i hie
        have hin : t.input ≠ [] := by simpa using hie
        have hlen : 0 < t.input.length := List.length_pos_iff.mpr hin
        cases h
        refine ⟨rfl, fun bs hb => ?_, fun hb => ?_⟩
        · cases hb
          refine ⟨?_, by simp [Transport.ev], fun he => ?_⟩
          · simp only [List.length_take]
            split <;> omega
          · exfalso
            have := congrArg List.length he
            simp only [List.length_take, List.length_nil] at this
            split at this <;> omega
        · rcases hb with hb | ⟨e, hb⟩ <;> cases hb
