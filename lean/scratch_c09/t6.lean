import Fcgi.Proofs.AsyncRead
namespace Fcgi.Async
open Fcgi Fcgi.Str
open Fcgi.C05 (fedBytes)
open Fcgi.C03S (sentAll outSent)

theorem pollInput_zero (r : AReq) (m : MutexSt) (t : Transport) :
    r.pollInput (some 0) m t = (r, m, t, .ready 0 []) := by
  unfold AReq.pollInput; rfl

theorem pollInput_none_buffered (r : AReq) (m : MutexSt) (t : Transport) (h : r.sp.parsed ≠ []) :
    r.pollInput none m t = (r, m, t, .ready 0 []) := by
  unfold AReq.pollInput
  cases hp : r.sp.parsed with
  | nil => exact absurd hp h
  | cons a b => rfl

theorem pollInput_some_buffered (r : AReq) (n : Nat) (m : MutexSt) (t : Transport) (hn : 0 < n)
    (h : r.sp.parsed ≠ []) :
    r.pollInput (some n) m t =
      ({ r with sp := r.sp.consumeStream (min n r.sp.parsed.length) }, m, t,
        .ready (min n r.sp.parsed.length) (r.sp.parsed.take (min n r.sp.parsed.length))) := by
  unfold AReq.pollInput
  cases n with
  | zero => omega
  | succ n =>
    cases hp : r.sp.parsed with
    | nil => exact absurd hp h
    | cons a b => rfl

/-- `poll_input` after its entry flush. -/
def afterFlush (dest : Option Nat) : AReq × MutexSt × Transport × ORes → AReq × MutexSt × Transport × IRes
  | (r, m, t, .pending) => (r, m, t, .pending)
  | (r, m, t, .err e) => (r, m, t, .err e)
  | (r, m, t, .panic s) => (r, m, t, .panic s)
  | (r, m, t, .ready) => inLoop (t.input.length + 2) r [] dest m t

theorem pollInput_loop (r : AReq) (dest : Option Nat) (m : MutexSt) (t : Transport)
    (hd : dest ≠ some 0) (h : r.sp.parsed = []) :
    r.pollInput dest m t = afterFlush dest (r.pollOutput m t) := by
  unfold AReq.pollInput
  cases dest with
  | none =>
    simp only [h]
    rcases r.pollOutput m t with ⟨r1, m1, t1, o⟩
    cases o <;> rfl
  | some n =>
    cases n with
    | zero => exact absurd rfl hd
    | succ n =>
      simp only [h]
      rcases r.pollOutput m t with ⟨r1, m1, t1, o⟩
      cases o <;> rfl

/-- **`Request::poll_input`.**  From an invariant state every poll's effect on the parser is a legal
operation history fed with exactly the bytes taken from the transport; no panic site is reached;
the invariants are kept. -/
theorem pollInput_spec {r : AReq} {dest : Option Nat} {m : MutexSt} {t : Transport} {r' : AReq}
    {m' : MutexSt} {t' : Transport} {res : IRes} (hinv : AInv r) (hl : LockInv r m)
    (h : r.pollInput dest m t = (r', m', t', res)) :
    (∃ ops, Tr r.sp t.input t.wlog ops r'.sp t'.input t'.wlog) ∧ PollOut r dest r' m' res ∧
    (dest ≠ some 0 → r.sp.parsed = [] → LoopOut r dest r' res) := by
  by_cases hz : dest = some 0
  · subst hz
    rw [pollInput_zero] at h
    cases h
    refine ⟨⟨[], Tr.nil _ _ _⟩, ⟨hl, fun s hx => (nomatch hx), rfl, id, Or.inl, ?_, fun hx => (nomatch hx)⟩,
      fun hx => absurd rfl hx⟩
    intro n k d hn hx
    cases hn; cases hx
    exact ⟨rfl, Nat.le_refl _⟩
  by_cases hp : r.sp.parsed = []
  · rw [pollInput_loop r dest m t hz hp] at h
    rcases hpo : r.pollOutput m t with ⟨r1, m1, t1, o⟩
    obtain ⟨k, hk1, hk2, hk3, hk4, hk5, hk6, hk7, hk8⟩ := pollOutput_spec hl hpo
    rw [hpo] at h
    have hfin1 : r1.isFinalStream = r.isFinalStream :=
      isFinal_congr (by rw [hk1]; rfl) (by rw [hk1]; rfl)
    have hps1 : dest ≠ none → r1.sp.parsed = [] := fun _ => by rw [hk1]; exact hp
    have htr1 : ∀ {ops p' inp' wl'}, Tr r1.sp t1.input t1.wlog ops p' inp' wl' →
        Tr r.sp t.input t.wlog (.consumeOutput k :: ops) p' inp' wl' := by
      intro ops p' inp' wl' hx
      refine Tr.consumeOutput k ?_
      rw [← hk1, ← hk4.1, ← hk3]; exact hx
    have stop : ∀ (res1 : IRes), (∀ k d, res1 ≠ .ready k d) → (∀ s, res1 ≠ .panic s) →
        (∃ ops, Tr r.sp t.input t.wlog ops r1.sp t1.input t1.wlog) ∧ PollOut r dest r1 m1 res1 ∧
        (dest ≠ some 0 → r.sp.parsed = [] → LoopOut r dest r1 res1) := fun res1 h3 h4 =>
      ⟨⟨_, htr1 (Tr.nil _ _ _)⟩, PollOut.of_same hk2 hfin1 hk5 h3 h4,
        fun _ _ => LoopOut.of_notready h3 hps1⟩
    cases o with
    | pending =>
      simp only [afterFlush] at h; cases h
      exact stop _ (fun k d hx => (nomatch hx)) (fun s hx => (nomatch hx))
    | err e =>
      simp only [afterFlush] at h; cases h
      exact stop _ (fun k d hx => (nomatch hx)) (fun s hx => (nomatch hx))
    | panic s => exact absurd rfl (hk6 s)
    | ready =>
      simp only [afterFlush] at h
      have hinv1 : AInv r1 := by
        refine ⟨?_, ?_⟩
        · rw [hk1]; exact C03S.consumeOutput_inv hinv.1 k
        · rw [hk1]; exact hinv.2
      have hd1 : dest = none ∨ r1.sp.parsed = [] := Or.inr (by rw [hk1]; exact hp)
      obtain ⟨⟨ops, htr⟩, hpo2, hlo2⟩ := inLoop_spec _ r1 [] dest m1 t1 hinv1 hk5 hd1
        (Nat.zero_le _) (by omega) r' m' t' res h
      rw [List.nil_append] at htr
      exact ⟨⟨_, htr1 htr⟩, hpo2.pre hk2 hfin1, fun _ _ => hlo2.pre hfin1⟩
  · -- buffered stream data is handed out first
    cases dest with
    | none =>
      rw [pollInput_none_buffered r m t hp] at h
      cases h
      exact ⟨⟨[], Tr.nil _ _ _⟩, ⟨hl, fun s hx => (nomatch hx), rfl, id, Or.inl,
        fun n k d hn => (nomatch hn), fun _ k d hx => by cases hx; rfl⟩, fun _ hx => absurd hx hp⟩
    | some n =>
      have hn : 0 < n := by
        cases n with
        | zero => exact absurd rfl hz
        | succ n => omega
      rw [pollInput_some_buffered r n m t hn hp] at h
      cases h
      refine ⟨⟨[.consumeStream (min n r.sp.parsed.length)], Tr.consumeStream _ (Tr.nil _ _ _)⟩,
        ⟨lockInv_sp hl id, fun s hx => (nomatch hx), rfl, id, Or.inl, ?_, fun hx => (nomatch hx)⟩,
        fun _ hx => absurd hx hp⟩
      intro n' k d hn' hx
      cases hn'; cases hx
      refine ⟨?_, Nat.min_le_left _ _⟩
      simp only [List.length_take]
      omega
