import Fcgi.Proofs.AsyncRead
namespace Fcgi.Async
open Fcgi Fcgi.Str

/-! ## End of stream at the `Request` level -/

/-- The state a read that reported end-of-stream leaves behind: at a record boundary in front of a
held-back header, nothing buffered. -/
def EofSt (r : AReq) : Prop :=
  HeldBack r.sp ∧ r.sp.isRecordBoundary = true ∧ r.sp.parsed = []

theorem pollOutput_empty {r : AReq} {m : MutexSt} (hl : LockInv r m) (ho : r.sp.output = [])
    (t : Transport) : r.pollOutput m t = (r, m, t, .ready) := by
  unfold AReq.pollOutput
  simp [ho, hl.2 ho]

/-- The request after `set_writeable` was considered. -/
def markWriteable (r : AReq) : AReq :=
  if !r.writeable && r.isFinalStream then { r with writeable := true } else r

theorem markWriteable_sp (r : AReq) : (markWriteable r).sp = r.sp ∧ (markWriteable r).lock = r.lock ∧
    (r.writeable = true → (markWriteable r).writeable = true) ∧
    (r.isFinalStream = true → (markWriteable r).writeable = true) := by
  unfold markWriteable
  split
  · rename_i h
    exact ⟨rfl, rfl, fun _ => rfl, fun _ => rfl⟩
  · rename_i h
    refine ⟨rfl, rfl, id, fun hf => ?_⟩
    cases hw : r.writeable with
    | true => rfl
    | false => simp [hw, hf] at h

/-- In the end-of-stream state one loop iteration returns `Ok(0)` at once, touching nothing. -/
theorem inLoop_eof (fuel : Nat) {r : AReq} (hinv : AInv r) (he : EofSt r) (dest : Option Nat)
    (m : MutexSt) (t : Transport) :
    inLoop (fuel + 1) r [] dest m t = (markWriteable r, m, t, .ready 0 []) := by
  obtain ⟨hb, hrb, hp⟩ := he
  have hpar := C18.held_back_repeats hinv.1 hrb hb dest (Or.inr hp)
  rw [inLoop, hpar]
  simp only [Bool.true_or, if_true]
  have : ({ r with sp := r.sp } : AReq) = r := rfl
  rfl

/-- **End of stream persists (no reply pending).**  Any later `poll_input`, whatever the
destination, returns `Ok(0)` again without any transport call and without touching the parser. -/
theorem pollInput_eof {r : AReq} {m : MutexSt} (hinv : AInv r) (hl : LockInv r m) (he : EofSt r)
    (ho : r.sp.output = []) (dest : Option Nat) (t : Transport) :
    ∃ r', r.pollInput dest m t = (r', m, t, .ready 0 []) ∧ r'.sp = r.sp ∧ r'.lock = r.lock ∧
      (r.writeable = true → r'.writeable = true) ∧ EofSt r' := by
  by_cases hz : dest = some 0
  · subst hz
    exact ⟨r, pollInput_zero r m t, rfl, rfl, id, he⟩
  · refine ⟨markWriteable r, ?_, (markWriteable_sp r).1, (markWriteable_sp r).2.1,
      (markWriteable_sp r).2.2.1, ?_⟩
    · rw [pollInput_loop r dest m t hz he.2.2, pollOutput_empty hl ho]
      simp only [afterFlush]
      exact inLoop_eof _ hinv he dest m t
    · unfold EofSt; rw [(markWriteable_sp r).1]; exact he

/-- **End of stream persists (replies pending).**  If management replies are still queued, the poll
first flushes them (which may report `Pending` or a write error); the read side of the transport
is never touched, the only possible `Ready` is `Ok(0)`, and the state stays an end-of-stream
state. -/
theorem pollInput_eof_flush {r : AReq} {m : MutexSt} {t : Transport} {dest : Option Nat}
    {r' : AReq} {m' : MutexSt} {t' : Transport} {res : IRes} (hinv : AInv r) (hl : LockInv r m)
    (he : EofSt r) (h : r.pollInput dest m t = (r', m', t', res)) :
    RFrame t t' ∧ EofSt r' ∧ (∀ k d, res = .ready k d → k = 0 ∧ d = []) ∧
      (t'.wlog ++ r'.sp.output = t.wlog ++ r.sp.output) := by
  by_cases hz : dest = some 0
  · subst hz
    rw [pollInput_zero] at h
    cases h
    exact ⟨RFrame.refl _, he, fun k d hx => by cases hx; exact ⟨rfl, rfl⟩, rfl⟩
  · rw [pollInput_loop r dest m t hz he.2.2] at h
    rcases hpo : r.pollOutput m t with ⟨r1, m1, t1, o⟩
    obtain ⟨k, hk1, hk2, hk3, hk4, hk5, hk6, hk7, hk8⟩ := pollOutput_spec hl hpo
    rw [hpo] at h
    have he1 : EofSt r1 := by unfold EofSt; rw [hk1]; exact he
    have hled : t1.wlog ++ r1.sp.output = t.wlog ++ r.sp.output := by
      rw [hk3, hk1, List.append_assoc]
      simp [Parser.consumeOutput]
    cases o with
    | pending =>
      simp only [afterFlush] at h; cases h
      exact ⟨hk4, he1, fun k d hx => (nomatch hx), hled⟩
    | err e =>
      simp only [afterFlush] at h; cases h
      exact ⟨hk4, he1, fun k d hx => (nomatch hx), hled⟩
    | panic s => exact absurd rfl (hk6 s)
    | ready =>
      simp only [afterFlush] at h
      have hinv1 : AInv r1 := by
        refine ⟨?_, ?_⟩
        · rw [hk1]; exact C03S.consumeOutput_inv hinv.1 k
        · rw [hk1]; exact hinv.2
      rw [inLoop_eof _ hinv1 he1 dest m1 t1] at h
      cases h
      refine ⟨hk4, ?_, fun k d hx => by cases hx; exact ⟨rfl, rfl⟩, ?_⟩
      · unfold EofSt; rw [(markWriteable_sp r1).1]; exact he1
      · rw [(markWriteable_sp r1).1]; exact hled

/-- **How the end-of-stream state is entered.**  A read into a non-empty buffer that returns
`Ok(0)` while a stream is active leaves the request in the end-of-stream state. -/
theorem pollInput_eof_enters {r : AReq} {n : Nat} {m : MutexSt} {t : Transport} {r' : AReq}
    {m' : MutexSt} {t' : Transport} (hinv : AInv r) (hl : LockInv r m) (hn : 0 < n)
    (hs : r.sp.stream ≠ none) (h : r.pollInput (some n) m t = (r', m', t', .ready 0 [])) :
    EofSt r' := by
  have hz : some n ≠ some 0 := by intro hx; cases hx; omega
  by_cases hp : r.sp.parsed = []
  · obtain ⟨-, hpo, hlo⟩ := pollInput_spec hinv hl h
    have hlo := hlo hz hp
    obtain ⟨q, new, st, hq, hd, hfree, hpar, hk, -, hdone⟩ := hlo.last 0 [] rfl
    have hse : st.streamEnd = true := by
      rcases hdone with hx | hx
      · exact hx
      · omega
    have hqs : q.stream ≠ none := by
      have h1 := C18.parse_keeps_stream q new (some n)
      rw [hpar] at h1
      simp only at h1
      rw [← h1, hpo.strm]; exact hs
    obtain ⟨a, b⟩ := parse_streamEnd_held hq hd hfree hqs hpar hse
    exact ⟨a, b, hlo.psome (fun hx => (nomatch hx))⟩
  · rw [pollInput_some_buffered r n m t hn hp] at h
    have hlen : 0 < r.sp.parsed.length := List.length_pos_iff.mpr hp
    injection h with _ h
    injection h with _ h
    injection h with _ h
    injection h with h _
    omega

/-- `poll_input` keeps `WInv`, except that a poll that fails may leave stream data of the final
stream buffered without `writeable` having been set (the parser had delivered it before it hit the
fatal header). -/
theorem pollInput_winv {r : AReq} {dest : Option Nat} {m : MutexSt} {t : Transport} {r' : AReq}
    {m' : MutexSt} {t' : Transport} {res : IRes} (hinv : AInv r) (hl : LockInv r m) (hw : WInv r)
    (h : r.pollInput dest m t = (r', m', t', res)) :
    (r'.sp.stream = none → r'.writeable = true) ∧ ((∀ e, res ≠ .err e) → WInv r') := by
  obtain ⟨-, hpo, hlo⟩ := pollInput_spec hinv hl h
  have h1 : r'.sp.stream = none → r'.writeable = true := fun hx =>
    hpo.wmono (hw.1 (by rw [← hpo.strm]; exact hx))
  refine ⟨h1, fun hne => ⟨h1, fun hp hf => ?_⟩⟩
  rw [hpo.final] at hf
  by_cases hz : dest = some 0
  · subst hz
    rw [pollInput_zero] at h
    cases h
    exact hw.2 hp hf
  by_cases hp0 : r.sp.parsed = []
  · have hlo := hlo hz hp0
    cases res with
    | ready k d => exact hlo.wready k d rfl hf
    | pending => rw [hlo.ppend rfl] at hp; exact absurd hp0 hp
    | err e => exact absurd rfl (hne e)
    | panic s => exact absurd rfl (hpo.nopanic s)
  · exact hpo.wmono (hw.2 hp0 hf)
