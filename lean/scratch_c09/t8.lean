import Fcgi.Proofs.AsyncRead
namespace Fcgi.Async
open Fcgi Fcgi.Str

/-! ## End of stream: how `stream_end` arises -/

/-- What a loop-body step does to `stream_end` and the record position. -/
def SeKeep (res : Status) : Iter → Prop
  | .cont p2 _ r => r.streamEnd = res.streamEnd ∧ p2.pay = 0
  | .stop _ r => r.streamEnd = res.streamEnd
  | _ => True

theorem parsePayload_se (p : Parser) (dest : Option Nat) (res : Status) :
    SeKeep res (parsePayload p dest res) := by
  unfold parsePayload
  cases hst : p.state with
  | stream =>
    cases dest with
    | none =>
      simp only []
      split
      · trivial
      · split
        · rename_i hc; simp only [Bool.and_eq_true, beq_iff_eq] at hc; exact ⟨rfl, hc.1⟩
        · simp [SeKeep]
    | some c =>
      simp only []
      split
      · trivial
      · split
        · rename_i hc; simp only [Bool.and_eq_true, beq_iff_eq] at hc; exact ⟨rfl, hc.1⟩
        · simp [SeKeep]
  | skip =>
    simp only []
    split
    · trivial
    · split
      · rename_i hc; simp only [Bool.and_eq_true, beq_iff_eq] at hc; exact ⟨rfl, hc.1⟩
      · simp [SeKeep]
  | values v =>
    by_cases hlt : p.raw.length < p.pay
    · simp only [hlt, if_true]
      split
      · trivial
      · split
        · rename_i hc; simp only [Bool.and_eq_true, beq_iff_eq] at hc; exact ⟨rfl, hc.1⟩
        · simp [SeKeep]
    · simp only [hlt, if_false]
      split
      · trivial
      · split
        · rename_i hc; simp only [Bool.and_eq_true, beq_iff_eq] at hc; exact ⟨rfl, hc.1⟩
        · simp [SeKeep]

theorem parseHead_cont_se {p p' : Parser} {dest d' : Option Nat} {res r' : Status}
    (h : parseHead p dest res = .cont p' d' r') : r'.streamEnd = res.streamEnd := by
  unfold parseHead at h
  split at h
  · split at h
    · cases h; rfl
    · cases h
    · rename_i head hh
      by_cases hin : (RT.isInputStream head.rtype && head.requestId == p.request.id) = true
      · rw [if_pos hin] at h
        split at h
        · cases h
        · split at h
          · cases h; rfl
          · cases h
        · cases h; rfl
        · cases h
      · rw [if_neg hin] at h
        split at h
        · cases h
        · split at h
          · cases h; rfl
          · split at h <;> (cases h; rfl)
    · cases h
  · cases h

/-- The padding step followed by `parse_head`, from a position with no payload outstanding. -/
theorem padHead_se (q : Parser) (d : Option Nat) (r : Status) (hpay : q.pay = 0)
    (h0 : r.streamEnd = false) :
    match (if q.pad > 0 then
        if q.raw.length ≤ q.pad then
          Iter.stop { q with raw := [], g1 := q.g1 + q.raw.length, pad := q.pad - q.raw.length } r
        else parseHead { q with raw := q.raw.drop q.pad, g1 := q.g1 + q.pad, pad := 0 } d r
      else parseHead q d r) with
    | .cont _ _ r' => r'.streamEnd = false
    | .stop p' r' => r'.streamEnd = true → HeldBack p' ∧ p'.isRecordBoundary = true
    | _ => True := by
  have key : ∀ (q' : Parser), q'.pay = 0 → q'.pad = 0 →
      match parseHead q' d r with
      | .cont _ _ r' => r'.streamEnd = false
      | .stop p' r' => r'.streamEnd = true → HeldBack p' ∧ p'.isRecordBoundary = true
      | _ => True := by
    intro q' h1 h2
    cases hh : parseHead q' d r with
    | cont p' d' r' => exact (parseHead_cont_se hh).trans h0
    | stop p' r' =>
      intro hse
      obtain ⟨rfl, -, hb⟩ := parseHead_stop_se hh hse h0
      exact ⟨hb, by simp [Parser.isRecordBoundary, h1, h2]⟩
    | err p' e => trivial
    | panic s => trivial
  by_cases hp : q.pad > 0
  · rw [if_pos hp]
    by_cases hl : q.raw.length ≤ q.pad
    · rw [if_pos hl]
      intro hx; rw [h0] at hx; cases hx
    · rw [if_neg hl]
      exact key _ hpay rfl
  · rw [if_neg hp]
    exact key q hpay (by omega)

theorem iter_se (p : Parser) (dest : Option Nat) (res : Status) (h0 : res.streamEnd = false) :
    match iter p dest res with
    | .cont _ _ r' => r'.streamEnd = false
    | .stop p' r' => r'.streamEnd = true → HeldBack p' ∧ p'.isRecordBoundary = true
    | _ => True := by
  unfold iter
  by_cases hpay : p.pay > 0
  · simp only [hpay, if_true]
    have hp := parsePayload_se p dest res
    cases hpp : parsePayload p dest res with
    | cont q d r =>
      rw [hpp] at hp
      exact padHead_se q d r hp.2 (hp.1.trans h0)
    | stop q r =>
      rw [hpp] at hp
      intro hx
      rw [hp, h0] at hx; cases hx
    | err q e => trivial
    | panic s => trivial
  · simp only [hpay, if_false]
    exact padHead_se p dest res (by omega) h0

theorem loop_se : ∀ (n : Nat) (p : Parser) (dest : Option Nat) (res : Status), p.raw.length = n →
    res.streamEnd = false → ∀ p' st, loop p dest res = (p', .ok st) → st.streamEnd = true →
    HeldBack p' ∧ p'.isRecordBoundary = true := by
  intro n
  induction n using Nat.strongRecOn with
  | _ n ih =>
    intro p dest res hn h0 p' st h hse
    rw [loop] at h
    split at h
    · cases h; rw [h0] at hse; cases hse
    · have hi := iter_se p dest res h0
      cases hit : iter p dest res with
      | cont q d r =>
        rw [hit] at hi h
        simp only at h
        split at h
        · rename_i hlt
          exact ih _ (by omega) q d r rfl hi p' st h hse
        · cases h
      | stop q r =>
        rw [hit] at hi h
        cases h
        exact hi hse
      | err q e => rw [hit] at h; cases h
      | panic s => rw [hit] at h; cases h

/-- **How `stream_end` arises.**  A legal `parse` call while a stream is active that reports
`stream_end` leaves the parser at a record boundary in front of a held-back header (the empty
record of the active stream, or a record of a later stream of this request). -/
theorem parse_streamEnd_held {p p' : Parser} {new : Bytes} {dest : Option Nat} {st : Status}
    (hinv : SInv p) (hd : dest = none ∨ p.parsed = []) (hfree : new.length ≤ p.free)
    (hs : p.stream ≠ none) (h : p.parse new dest = (p', .ok st)) (hse : st.streamEnd = true) :
    HeldBack p' ∧ p'.isRecordBoundary = true := by
  rw [parse_eq_loop p new dest hinv.1 hd hfree] at h
  refine loop_se _ _ dest _ rfl ?_ p' st h hse
  simp only [initStatus]
  cases hx : p.stream with
  | none => exact absurd hx hs
  | some e => rfl
