import Fcgi.Proofs.AsyncRead
namespace Fcgi.Async
open Fcgi Fcgi.Str
open Fcgi.C05 (fedBytes)
open Fcgi.C03S (sentAll outSent)

/-- **The parse / compress / flush / read loop of `poll_input`.**  From an invariant state, entered
with `new` freshly read bytes that fit the input buffer, with at least `t.input.length + 1` fuel:
the loop's effect on the parser is a legal operation history starting with `parse(new, dest)`;
no panic site (Rust assertion or model fuel guard) is reached. -/
theorem inLoop_spec : ∀ (fuel : Nat) (r : AReq) (new : Bytes) (dest : Option Nat) (m : MutexSt)
    (t : Transport), AInv r → LockInv r m → (dest = none ∨ r.sp.parsed = []) →
    new.length ≤ r.sp.free → t.input.length < fuel →
    ∀ r' m' t' res, inLoop fuel r new dest m t = (r', m', t', res) →
    (∃ ops, Tr r.sp (new ++ t.input) t.wlog (.parse new dest :: ops) r'.sp t'.input t'.wlog) ∧
    PollOut r dest r' m' res ∧ LoopOut r dest r' res := by
  intro fuel
  induction fuel with
  | zero => intro r new dest m t _ _ _ _ hf; omega
  | succ fuel ih =>
    intro r new dest m t hinv hl hd hfree hfuel r' m' t' res h
    rw [inLoop] at h
    have hpt := C03S.parse_total r.sp new dest hinv.1 hd hfree
    obtain ⟨hf1, hf2, hf3, -, -, ⟨o1, ho1⟩, -⟩ := Str.parse_frame r.sp new dest
    have hlegal : Legal r.sp (.parse new dest) := ⟨hd, hfree⟩
    rcases hp : r.sp.parse new dest with ⟨sp, pr⟩
    rw [hp] at h hpt hf1 hf2 hf3 ho1
    simp only at hf1 hf2 hf3 ho1
    have hfin : ∀ (q : AReq), q.sp.request = sp.request → q.sp.stream = sp.stream →
        q.isFinalStream = r.isFinalStream := fun q h1 h2 =>
      isFinal_congr (h1.trans hf2) (h2.trans hf1)
    have hout : sp.output = [] → r.sp.output = [] := by
      intro hx; rw [hx] at ho1; simp at ho1; exact ho1.1
    have htr0 : ∀ inp wl, Tr (r.sp.parse new dest).1 inp wl [] sp inp wl := by
      intro inp wl; rw [hp]; exact Tr.nil _ _ _
    cases pr with
    | panic s => exact hpt.elim
    | err e =>
      simp only at h
      cases h
      have hce := C03S.counts_err hinv.1.1 hd hfree hp
      exact ⟨⟨[], Tr.parse hlegal (htr0 _ _)⟩,
        PollOut.of_same rfl (hfin _ rfl rfl) (lockInv_sp hl hout) (fun k d hx => (nomatch hx))
          (fun s hx => (nomatch hx)),
        LoopOut.of_notready (fun k d hx => (nomatch hx)) hce.2.2.1⟩
    | ok st =>
      obtain ⟨hsinv, hfs, hcap, -⟩ := hpt
      obtain ⟨-, hcn, hcs, -⟩ := C03S.counts_exact hinv.1.1 hd hfree hp
      have hps : dest ≠ none → sp.parsed = [] := by
        intro hx
        cases dest with
        | none => exact absurd rfl hx
        | some n => exact (hcs n rfl).1
      simp only at h
      split at h
      · -- the parse produced stream data or reported end of stream
        rename_i hdone
        have hdone' : st.streamEnd = true ∨ 0 < st.stream := by
          simpa using hdone
        by_cases hc : (!r.writeable && ({ r with sp := sp } : AReq).isFinalStream) = true
        · rw [if_pos hc] at h
          cases h
          have hfinal : ({ r with sp := sp } : AReq).isFinalStream = true := by
            simp only [Bool.and_eq_true] at hc; exact hc.2
          refine ⟨⟨[], Tr.parse hlegal (htr0 _ _)⟩, ⟨lockInv_sp hl hout, fun s hx => (nomatch hx),
            hfin _ rfl rfl, fun _ => rfl, fun _ => Or.inr ⟨hfinal, _, _, rfl⟩, ?_, ?_⟩,
            ⟨fun _ _ _ _ => rfl, ?_, hps⟩⟩
          · intro n k d hn hx
            cases hx
            exact ⟨(hcs n hn).2.2.1, (hcs n hn).2.2.2⟩
          · intro hn k d hx
            cases hx
            obtain ⟨_, _, _, h3⟩ := hcn hn
            exact h3
          · intro k d hx
            cases hx
            exact ⟨r.sp, new, st, hinv.1, hd, hfree, hp, rfl, rfl, hdone'⟩
        · rw [if_neg hc] at h
          cases h
          refine ⟨⟨[], Tr.parse hlegal (htr0 _ _)⟩, ⟨lockInv_sp hl hout, fun s hx => (nomatch hx),
            hfin _ rfl rfl, id, fun hx => Or.inl hx, ?_, ?_⟩, ⟨?_, ?_, hps⟩⟩
          · intro n k d hn hx
            cases hx
            exact ⟨(hcs n hn).2.2.1, (hcs n hn).2.2.2⟩
          · intro hn k d hx
            cases hx
            obtain ⟨_, _, _, h3⟩ := hcn hn
            exact h3
          · intro k d _ hfinal
            have h1 : ∀ w, ({ sp := sp, lock := r.lock, writeable := w } : AReq).isFinalStream = true :=
              fun w => by rw [hfin _ rfl rfl]; exact hfinal
            cases hw : r.writeable with
            | true => rfl
            | false => rw [hw] at hc; simp [h1] at hc
          · intro k d hx
            cases hx
            exact ⟨r.sp, new, st, hinv.1, hd, hfree, hp, rfl, rfl, hdone'⟩
      · -- compress, flush the replies, read more
        have hl3 : LockInv ({ r with sp := sp.compress } : AReq) m := lockInv_sp hl hout
        rcases hpo : ({ r with sp := sp.compress } : AReq).pollOutput m t with ⟨r4, m4, t4, o⟩
        obtain ⟨k, hk1, hk2, hk3, hk4, hk5, hk6, hk7, hk8⟩ := pollOutput_spec hl3 hpo
        simp only at hk1 hk2 hk3
        rw [hpo] at h
        have hfin4 : r4.isFinalStream = r.isFinalStream := hfin r4 (by rw [hk1]; rfl) (by rw [hk1]; rfl)
        have hps4 : dest ≠ none → r4.sp.parsed = [] := by
          intro hx; rw [hk1]; exact hps hx
        -- the history up to here
        have htr4 : ∀ {ops p' inp' wl'}, Tr r4.sp t4.input t4.wlog ops p' inp' wl' →
            Tr r.sp (new ++ t.input) t.wlog (.parse new dest :: .compress :: .consumeOutput k :: ops)
              p' inp' wl' := by
          intro ops p' inp' wl' hx
          refine Tr.parse hlegal ?_
          rw [hp]
          refine Tr.compress (Tr.consumeOutput k ?_)
          rw [← hk1, ← hk4.1]
          have : t.wlog ++ List.take k sp.compress.output = t4.wlog := by rw [hk3]
          rw [this]; exact hx
        have stop : ∀ (t5 : Transport) (res5 : IRes), t5.input = t4.input → t5.wlog = t4.wlog →
            (∀ k d, res5 ≠ .ready k d) → (∀ s, res5 ≠ .panic s) →
            (∃ ops, Tr r.sp (new ++ t.input) t.wlog (.parse new dest :: ops) r4.sp t5.input t5.wlog) ∧
            PollOut r dest r4 m4 res5 ∧ LoopOut r dest r4 res5 := by
          intro t5 res5 h1 h2 h3 h4
          refine ⟨⟨_, htr4 (by rw [h1, h2]; exact Tr.nil _ _ _)⟩,
            PollOut.of_same hk2 hfin4 hk5 h3 h4, LoopOut.of_notready h3 hps4⟩
        cases o with
        | pending =>
          simp only at h; cases h
          exact stop _ _ rfl rfl (fun k d hx => (nomatch hx)) (fun s hx => (nomatch hx))
        | err e =>
          simp only at h; cases h
          exact stop _ _ rfl rfl (fun k d hx => (nomatch hx)) (fun s hx => (nomatch hx))
        | panic s => exact absurd rfl (hk6 s)
        | ready =>
          simp only at h
          rcases hrd : t4.read r4.sp.free with ⟨t5, x⟩
          rw [hrd] at h
          obtain ⟨hr1, hr2, hr3⟩ := tread_spec hrd
          cases x with
          | pending =>
            simp only at h; cases h
            exact stop _ _ (hr3 (Or.inl rfl)) hr1 (fun k d hx => (nomatch hx)) (fun s hx => (nomatch hx))
          | ready y =>
            cases y with
            | error e =>
              simp only at h; cases h
              exact stop _ _ (hr3 (Or.inr ⟨e, rfl⟩)) hr1 (fun k d hx => (nomatch hx))
                (fun s hx => (nomatch hx))
            | ok bs =>
              obtain ⟨hb1, hb2, -⟩ := hr2 bs rfl
              cases bs with
              | nil =>
                simp only at h; cases h
                exact stop _ _ (by simpa using hb2.symm) hr1 (fun k d hx => (nomatch hx))
                  (fun s hx => (nomatch hx))
              | cons b bs =>
                simp only at h
                have hinv4 : AInv r4 := by
                  refine ⟨?_, ?_⟩
                  · rw [hk1]; exact C03S.consumeOutput_inv (C03S.compress_inv hsinv) k
                  · rw [hk1]; show sp.cap ≥ 24; rw [hcap]; exact hinv.2
                have hd4 : dest = none ∨ r4.sp.parsed = [] := by
                  cases dest with
                  | none => exact Or.inl rfl
                  | some n => exact Or.inr (hps4 (fun hx => nomatch hx))
                have hfuel4 : t5.input.length < fuel := by
                  have e1 : t4.input = t.input := hk4.1
                  have e2 := congrArg List.length hb2
                  simp only [List.length_append, List.length_cons] at e2
                  rw [e1] at e2
                  omega
                obtain ⟨⟨ops, htr⟩, hpo5, hlo5⟩ :=
                  ih r4 (b :: bs) dest m4 t5 hinv4 hk5 hd4 hb1 hfuel4 r' m' t' res h
                refine ⟨⟨_, htr4 (ops := .parse (b :: bs) dest :: ops) ?_⟩, hpo5.pre hk2 hfin4,
                  hlo5.pre hfin4⟩
                rw [hb2, ← hr1]
                exact htr
