import Fcgi.Proofs.AsyncRead
namespace Fcgi.Async
open Fcgi Fcgi.Str
open Fcgi.C05 (fedBytes)
open Fcgi.C03S (sentAll outSent)

/-! ## Composing polls -/

theorem applyOps_append (p : Parser) (a b : List Op) :
    applyOps p (a ++ b) = applyOps (applyOps p a) b := by
  simp [applyOps, List.foldl_append]

theorem legalAll_append {p : Parser} {a b : List Op} :
    LegalAll p (a ++ b) ↔ LegalAll p a ∧ LegalAll (applyOps p a) b := by
  induction a generalizing p with
  | nil => simp [LegalAll]
  | cons op t ih => simp only [List.cons_append, LegalAll, applyOps_cons, ih, and_assoc]

theorem fedBytes_append (a b : List Op) : fedBytes (a ++ b) = fedBytes a ++ fedBytes b := by
  induction a with
  | nil => rfl
  | cons op t ih => cases op <;> simp [fedBytes, ih]

theorem sentAll_append (p : Parser) (a b : List Op) :
    sentAll p (a ++ b) = sentAll p a ++ sentAll (applyOps p a) b := by
  induction a generalizing p with
  | nil => simp [sentAll]
  | cons op t ih => simp [sentAll, ih]

theorem dlvAll_append (p : Parser) (a b : List Op) :
    dlvAll p (a ++ b) = dlvAll p a ++ dlvAll (applyOps p a) b := by
  induction a generalizing p with
  | nil => simp [dlvAll]
  | cons op t ih => simp [dlvAll, ih]

theorem flushedReads_append {p : Parser} {a b : List Op} (ha : FlushedReads p a)
    (hb : FlushedReads (applyOps p a) b) : FlushedReads p (a ++ b) := by
  induction a generalizing p with
  | nil => exact hb
  | cons op t ih => exact ⟨ha.1, ih ha.2 hb⟩

theorem Tr.append {p p1 p2 : Parser} {i0 w0 i1 w1 i2 w2 : Bytes} {a b : List Op}
    (h1 : Tr p i0 w0 a p1 i1 w1) (h2 : Tr p1 i1 w1 b p2 i2 w2) : Tr p i0 w0 (a ++ b) p2 i2 w2 := by
  have e := h1.sp
  subst e
  refine ⟨legalAll_append.mpr ⟨h1.legal, h2.legal⟩, by rw [h2.sp, applyOps_append], ?_, ?_, ?_⟩
  · rw [h1.fed, h2.fed, fedBytes_append, List.append_assoc]
  · rw [h2.sent, h1.sent, sentAll_append, List.append_assoc]
  · intro s hm
    rcases List.mem_append.mp hm with hx | hx
    · exact h1.noset s hx
    · exact h2.noset s hx

theorem Led.append {p p1 p2 : Parser} {a b : List Op} {r1 r2 : Bytes} (h1 : Led p a r1 p1)
    (h2 : Led p1 b r2 p2) (hp : p1 = applyOps p a) : Led p (a ++ b) (r1 ++ r2) p2 := by
  subst hp
  unfold Led at *
  rw [dlvAll_append, ← List.append_assoc, h1, List.append_assoc, h2, List.append_assoc]
