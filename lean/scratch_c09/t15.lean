import Fcgi.Props.C09
namespace Fcgi.C09
open Fcgi Fcgi.Str Fcgi.Async
def exR : AReq := AReq.new (Parser.fromParser 64 { id := 1, role := 1, flags := 0, env := [] } [] 10)
def exT : Transport :=
  { input := [1, 9, 0, 0, 0, 17, 7, 0] ++ [15, 0] ++ "FCGI_MPXS_CONNS".toUTF8.toList ++
      [0, 0, 0, 0, 0, 0, 0] ++ [1, 5, 0, 1, 0, 2, 0, 0, 65, 66] ++ [1, 5, 0, 1, 0, 0, 0, 0],
    endMode := .eof, rd := [.n 30], wr := [], fl := [] }
#eval (exR.pollInput (some 8) none exT).2.2.2
#eval (exR.pollInput (some 8) none exT).2.2.1.events
example : exT.input.length = 50 := by decide +kernel
example : (exT.read 64).2 = .ready (.ok (exT.input.take 30)) := by decide +kernel
example : ((exR.sp.parse (exT.input.take 30) (some 8)).2) = .ok { stream := 0, streamEnd := false, output := 0, delivered := [] } := by decide +kernel
