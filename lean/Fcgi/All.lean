import Fcgi
import Fcgi.Props.C15
