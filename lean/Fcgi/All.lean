import Fcgi
import Fcgi.Props.C15
import Fcgi.Props.C16
import Fcgi.Props.C17
import Fcgi.Props.C19
import Fcgi.Props.C20
