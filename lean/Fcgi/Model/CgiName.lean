import Fcgi.Model.Bytes
import Fcgi.Gen.Tables
/-!
# `cgi/mod.rs`, `cgi/intern.rs` — variable names

Strings are modelled by their UTF-8 bytes; every operation the Rust performs on names is
byte-wise.  The interned-name table is the generated `Gen.staticVarNames`.
-/
namespace Fcgi.CgiName

/-- `u8::to_ascii_lowercase` -/
def lowerByte (b : UInt8) : UInt8 := if 65 ≤ b.toNat ∧ b.toNat ≤ 90 then UInt8.ofNat (b.toNat + 32) else b

/-- `str::eq_ignore_ascii_case` (`VarName: PartialEq`): equal length and bytewise equal after lowercasing. -/
def eqIgnoreCase : Bytes → Bytes → Bool
  | [], [] => true
  | a :: as, b :: bs => lowerByte a == lowerByte b && eqIgnoreCase as bs
  | _, _ => false

/-- `Iterator::cmp` on byte iterators (lexicographic). -/
def cmpBytes : Bytes → Bytes → Ordering
  | [], [] => .eq
  | [], _ :: _ => .lt
  | _ :: _, [] => .gt
  | a :: as, b :: bs => if a.toNat < b.toNat then .lt else if b.toNat < a.toNat then .gt else cmpBytes as bs

/-- `VarName: Ord` -/
def cmp (a b : Bytes) : Ordering := cmpBytes (upper a) (upper b)

/-- `VarName: Hash` — the sequence of `Hasher::write` calls: uppercased 16-byte chunks, then the
uppercased remainder followed by `0xff`. -/
def hashWrites (s : Bytes) : List Bytes :=
  if s.length < 16 then [upper s ++ [255]]
  else upper (s.take 16) :: hashWrites (s.drop 16)
termination_by s.length
decreasing_by simp; omega

/-- The interned names (generated from `cgi/intern.rs`). -/
def table : List Bytes := Gen.staticVarNames

/-- strum `EnumString` parse: exact lookup, yielding the variant index. -/
def lookup (s : Bytes) : Option Nat := table.findIdx? (· == s)

/-- `OwnedVarName` representations. -/
inductive Owned
  | static (i : Nat)
  | custom (s : Bytes)
deriving Repr, DecidableEq

/-- `AsRef<str> for OwnedVarName` -/
def Owned.asRef : Owned → Bytes
  | .static i => table.getD i []
  | .custom s => s

/-- `OwnedVarName::from_compact` (also `From<String>`, `From<Box<str>>`, `From<Cow::Owned>`,
`from_mut_str`): uppercase, then intern if the table has it. -/
def fromCompact (s : Bytes) : Owned :=
  match lookup (upper s) with
  | some i => .static i
  | none => .custom (upper s)

/-- `From<&str>` (also `From<&VarName>`, `ToOwned`, `From<Cow::Borrowed>`): no normalisation, intern on exact match. -/
def fromStr (s : Bytes) : Owned :=
  match lookup s with
  | some i => .static i
  | none => .custom s

/-- `OwnedVarName: PartialEq` with the `Static × Static` fast path. -/
def Owned.eq (a b : Owned) : Bool :=
  match a, b with
  | .static i, .static j => i == j
  | _, _ => eqIgnoreCase a.asRef b.asRef

/-- `OwnedVarName: Ord`; the fast path is `StaticVarName: Ord` = plain `str::cmp` of the names. -/
def Owned.cmp (a b : Owned) : Ordering :=
  match a, b with
  | .static i, .static j => cmpBytes (table.getD i []) (table.getD j [])
  | _, _ => CgiName.cmp a.asRef b.asRef

def Owned.hashWrites (a : Owned) : List Bytes := CgiName.hashWrites a.asRef

/-- `From<&HeaderName>`: `HTTP_` + name with `-` → `_`, then `from_compact`. -/
def headerVar (h : Bytes) : Bytes := "HTTP_".toUTF8.toList ++ h.map (fun b => if b == 45 then 95 else b)
def fromHeaderName (h : Bytes) : Owned := fromCompact (headerVar h)

end Fcgi.CgiName
