import Fcgi.Model.Bytes
/-!
# `Runner` / `Token` bookkeeping (`async_io/mod.rs`) on top of modelled library primitives

Modelled externals (trusted base): `async_lock::Semaphore` (`count` + an `event_listener::Event`),
`event_listener` 5.3.1 list implementation: listeners are kept in insertion order; `notify(n)` is
*non-additional* ("make sure at least `n` listeners are notified"): it does nothing if `n` or more are
notified already, otherwise notifies the first un-notified ones; a listener that is dropped while
notified passes the notification on (`notify(1)` again); a listener that is polled while notified is
removed and completes.  Operations are atomic at this level (the CAS loop of `try_acquire_arc` and the
list mutex are what makes them so in the library).

`Runner::get_token` = `sema.acquire_arc().await`, then `wg.add_task()`; the `AcquireArc` future is a
temporary that is dropped right after it completed (which drops its listener, if it still has one).
-/
namespace Fcgi.Runner

inductive LState | created | task | notified
deriving Repr, DecidableEq

structure Sem where
  count : Nat
  /-- (listener id, state), insertion order -/
  entries : List (Nat × LState) := []
  nextId : Nat := 0
  /-- wake-ups delivered to the task that registered with a listener: (listener id) log -/
  wakes : List Nat := []
deriving Repr

def Sem.notified (s : Sem) : Nat := (s.entries.filter (·.2 == .notified)).length

/-- `Event::notify(n)` (non-additional) -/
def Sem.notify (s : Sem) (n : Nat) : Sem :=
  if n ≤ s.notified then s
  else
    let k := n - s.notified
    -- notify the first `k` entries that are not yet notified
    let rec go (k : Nat) (es : List (Nat × LState)) (wakes : List Nat) : List (Nat × LState) × List Nat :=
      match k, es with
      | 0, es => (es, wakes)
      | _, [] => ([], wakes)
      | k + 1, (id, st) :: rest =>
        if st == .notified then
          let (r, w) := go (k + 1) rest wakes
          ((id, st) :: r, w)
        else
          let wakes := if st == .task then wakes ++ [id] else wakes
          let (r, w) := go k rest wakes
          ((id, .notified) :: r, w)
    let (es, w) := go k s.entries s.wakes
    { s with entries := es, wakes := w }

/-- `Event::listen()` -/
def Sem.listen (s : Sem) : Sem × Nat :=
  ({ s with entries := s.entries ++ [(s.nextId, .created)], nextId := s.nextId + 1 }, s.nextId)

def Sem.stateOf (s : Sem) (id : Nat) : Option LState := (s.entries.find? (·.1 == id)).map (·.2)

/-- removing a listener; `propagate` = it is being dropped (not completed by a poll) -/
def Sem.remove (s : Sem) (id : Nat) (propagate : Bool) : Sem :=
  let wasNotified := s.stateOf id == some .notified
  let s := { s with entries := s.entries.filter (·.1 != id) }
  if wasNotified && propagate then s.notify 1 else s

/-- the `AcquireArc` future: its listener, if any -/
structure Acq where
  listener : Option Nat := none
deriving Repr, DecidableEq

/-- one poll of `acquire_arc()`; `fuel` bounds the loop (at most 3 iterations are ever needed) -/
def acqPoll (fuel : Nat) (s : Sem) (a : Acq) : Sem × Acq × Bool :=
  match fuel with
  | 0 => (s, a, false)
  | fuel + 1 =>
    if s.count > 0 then ({ s with count := s.count - 1 }, a, true)          -- `try_acquire_arc` succeeded
    else match a.listener with
      | none => let (s, id) := s.listen; acqPoll fuel s { listener := some id }
      | some id =>
        if s.stateOf id == some .notified then acqPoll fuel (s.remove id false) { listener := none }
        else ({ s with entries := s.entries.map (fun e => if e.1 == id then (e.1, .task) else e) }, a, false)

/-- dropping the future (after completion, or a cancelled request) drops its listener -/
def acqDrop (s : Sem) (a : Acq) : Sem :=
  match a.listener with
  | some id => s.remove id true
  | none => s

/-- dropping a `SemaphoreGuardArc` (a `Token`) -/
def release (s : Sem) : Sem := { s with count := s.count + 1 }.notify 1

/-! ## `WaitGroup` — step-level model of `WaitGroupFuture::poll` racing with token drops -/

inductive PollerPc
  | idle                 -- not inside `poll`
  | upgraded             -- `Weak::upgrade` returned `Some` (temporary `Arc` held), waker not yet registered
  | registered           -- waker registered, temporary `Arc` not yet dropped
  | dropped0             -- the temporary `Arc` was the last: its `fetch_sub` hit zero, `wake()` not yet executed
deriving Repr, DecidableEq

inductive DropPc
  | alive                -- token exists
  | zero                 -- its `fetch_sub` took the count to zero; `Drop for WaitGroupInner` (the `wake()`) not yet run
  | gone
deriving Repr, DecidableEq

structure WG where
  /-- `Arc` strong count -/
  strong : Nat
  tokens : List DropPc
  pc : PollerPc := .idle
  /-- a waker is registered in the `AtomicWaker` and has not been taken by `wake()` -/
  waker : Bool := false
  /-- `Drop for WaitGroupInner` ran (`waker.wake()` was executed) -/
  wakeRan : Bool := false
  /-- the poller's registered waker was invoked after its most recent registration -/
  wokenSinceRegister : Bool := false
  /-- result of the most recent completed poll: `some true` = Ready -/
  lastPoll : Option Bool := none
deriving Repr

inductive WStep
  | pollUpgrade          -- `self.0.upgrade()`: Ready if the count is zero, else take a temporary reference
  | pollRegister         -- `wg.waker.register(cx.waker())`
  | pollDropTemp         -- the temporary `Arc` goes out of scope: `fetch_sub`; returns Pending
  | pollWake             -- (only if the temporary was the last) `Drop for WaitGroupInner`: `waker.wake()`
  | tokenDec (i : Nat)   -- a `TaskToken` is dropped: `fetch_sub`
  | tokenWake (i : Nat)  -- (only if that was the last reference) `waker.wake()`
deriving Repr, DecidableEq

def wakeNow (g : WG) : WG :=
  { g with wakeRan := true, wokenSinceRegister := g.wokenSinceRegister || g.waker, waker := false }

/-- one atomic step; `none` = the step is not enabled in this state -/
def wgStep (g : WG) : WStep → Option WG
  | .pollUpgrade =>
    if g.pc != .idle then none
    else if g.strong == 0 then some { g with lastPoll := some true }
    else some { g with strong := g.strong + 1, pc := .upgraded }
  | .pollRegister =>
    if g.pc != .upgraded then none
    else some { g with pc := .registered, waker := true, wokenSinceRegister := false }
  | .pollDropTemp =>
    if g.pc != .registered then none
    else if g.strong == 1 then some { g with strong := 0, pc := .dropped0, lastPoll := some false }
    else some { g with strong := g.strong - 1, pc := .idle, lastPoll := some false }
  | .pollWake =>
    if g.pc != .dropped0 then none else some { (wakeNow g) with pc := .idle }
  | .tokenDec i =>
    match g.tokens[i]? with
    | some .alive =>
      if g.strong == 1 then some { g with strong := 0, tokens := g.tokens.set i .zero }
      else some { g with strong := g.strong - 1, tokens := g.tokens.set i .gone }
    | _ => none
  | .tokenWake i =>
    match g.tokens[i]? with
    | some .zero => some { (wakeNow g) with tokens := g.tokens.set i .gone }
    | _ => none

/-- `Runner::shutdown` with `n` live tokens: the runner's own `Arc` is gone, `n` remain -/
def WG.init (n : Nat) : WG := { strong := n, tokens := List.replicate n .alive }

end Fcgi.Runner
