import Fcgi.Model.StreamParser
/-!
# `async_io/mod.rs` — poll-level model of `StreamWriter` and `Request`

Every `poll_*` function of the Rust is a function here that is (re-)executed from its top on each
poll, exactly like the Rust; the state that survives a `Pending` is what the Rust keeps in `self`.
`async fn`s (`writeable`, `record_boundary`, `close`) are explicit resumable state machines whose
states are their `.await` points.

Modelled externals (trusted base): the transport (`AsyncRead`/`AsyncWrite` implementor — answers
are scripted), `futures::lock::Mutex` (owner or free; a poll of the lock future takes the mutex iff
it is free — wake-ups are not modelled, the model is polled when the script says so),
`AsyncWriteExt::write_all`, `AsyncReadExt::read`, `Arc::try_unwrap` (succeeds iff no writer is alive).
-/
namespace Fcgi.Async
open Fcgi Fcgi.Req Fcgi.Str

inductive RdAns | n (k : Nat) | all | pending | err
deriving Repr, DecidableEq
inductive WrAns | n (k : Nat) | all | pending | zero | err
deriving Repr, DecidableEq
inductive FlAns | ok | pending | err
deriving Repr, DecidableEq
inductive EndMode | eof | pend | err
deriving Repr, DecidableEq

/-- `io::ErrorKind`s that can be observed. -/
inductive IoErr
  | connectionAborted | invalidData | other | unexpectedEof | writeZero | connectionReset
  | transportRead | transportWrite | transportFlush | writersAlive
  /-- kind `ConnectionAborted` *carrying* `parser::Error::AbortRequest` as its payload: the library's own
  "the client aborted this request" signal, as opposed to a bare `connectionAborted` that a transport
  (or a handler) produced. -/
  | abortRequest
deriving Repr, DecidableEq

/-- `impl From<parser::Error> for io::Error` (kind only). -/
def ioOfPErr : PErr → IoErr
  | .abortRequest => .abortRequest
  | .unknownVersion _ | .invalidRequestLen _ | .nullRequest | .protocol => .invalidData
  | _ => .other

inductive Poll (α : Type)
  | ready (a : α)
  | pending
deriving Repr

/-- The scripted transport: both halves of the connection plus the trace. -/
structure Transport where
  input : Bytes
  endMode : EndMode
  rd : List RdAns
  wr : List WrAns
  fl : List FlAns
  wlog : Bytes := []
  events : List String := []
  /-- the peer still holds back input (closed-loop client): an empty input then means "wait", not end-of-stream -/
  hold : Bool := false
  /-- the task's waker was invoked since the current poll started (a scripted transient `Pending` wakes at once) -/
  woken : Bool := false
  /-- a read is parked waiting for input: the transport holds the task's waker -/
  readWaker : Bool := false
  /-- the transport's errors carry kind `ConnectionAborted` (as `ECONNABORTED` does) instead of a kind the
  library never produces itself -/
  abortKind : Bool := false
deriving Repr

namespace Transport

def rdErr (t : Transport) : IoErr := if t.abortKind then .connectionAborted else .transportRead
def wrErr (t : Transport) : IoErr := if t.abortKind then .connectionAborted else .transportWrite
def flErr (t : Transport) : IoErr := if t.abortKind then .connectionAborted else .transportFlush

def ev (t : Transport) (s : String) : Transport := { t with events := t.events ++ [s] }

/-- `poll_read` with a buffer of `cap` bytes. -/
def read (t : Transport) (cap : Nat) : Transport × Poll (Except IoErr Bytes) :=
  if cap == 0 then (t.ev "R0:0", .ready (.ok []))
  else
    let (a, rest) := match t.rd with | [] => (RdAns.all, []) | a :: r => (a, r)
    let t := { t with rd := rest }
    match a with
    | .pending => ({ t with woken := true }.ev s!"R{cap}:P", .pending)
    | .err => (t.ev s!"R{cap}:E", .ready (.error t.rdErr))
    | _ =>
      if t.input.isEmpty then
        if t.hold then ({ t with readWaker := true }.ev s!"R{cap}:W", .pending) else
        match t.endMode with
        | .eof => (t.ev s!"R{cap}:0", .ready (.ok []))
        | .pend => ({ t with readWaker := true }.ev s!"R{cap}:W", .pending)
        | .err => (t.ev s!"R{cap}:E", .ready (.error t.rdErr))
      else
        let k := match a with | .n k => min (max k 1) (min cap t.input.length) | _ => min cap t.input.length
        ({ t with input := t.input.drop k }.ev s!"R{cap}:{k}", .ready (.ok (t.input.take k)))

/-- shared by `poll_write` (`slices = [buf]`) and `poll_write_vectored` -/
def writeV (t : Transport) (slices : List Bytes) (tag : String) : Transport × Poll (Except IoErr Nat) :=
  let data := slices.flatten
  let desc := tag ++ String.intercalate "+" (slices.map (fun s => toString s.length))
  if data.isEmpty then (t.ev s!"{desc}:0", .ready (.ok 0))
  else
    let (a, rest) := match t.wr with | [] => (WrAns.all, []) | a :: r => (a, r)
    let t := { t with wr := rest }
    match a with
    | .pending => ({ t with woken := true }.ev s!"{desc}:P", .pending)
    | .zero => (t.ev s!"{desc}:Z", .ready (.ok 0))
    | .err => (t.ev s!"{desc}:E", .ready (.error t.wrErr))
    | .all => ({ t with wlog := t.wlog ++ data }.ev s!"{desc}:{data.length}", .ready (.ok data.length))
    | .n k =>
      let k := min (max k 1) data.length
      ({ t with wlog := t.wlog ++ data.take k }.ev s!"{desc}:{k}", .ready (.ok k))

def write (t : Transport) (buf : Bytes) := t.writeV [buf] "W"

def flush (t : Transport) : Transport × Poll (Except IoErr Unit) :=
  let (a, rest) := match t.fl with | [] => (FlAns.ok, []) | a :: r => (a, r)
  let t := { t with fl := rest }
  match a with
  | .ok => (t.ev "F:O", .ready (.ok ()))
  | .pending => ({ t with woken := true }.ev "F:P", .pending)
  | .err => (t.ev "F:E", .ready (.error t.flErr))

end Transport

/-- Who holds the `futures::lock::Mutex<W>`. `some 0` = the `Request`, `some (i+1)` = writer `i`. -/
abbrev MutexSt := Option Nat

/-- `Option<RepeatableLockFuture<W>>` -/
inductive LockSt | none | polling | held
deriving Repr, DecidableEq

/-- `RepeatableLockFuture::poll` for holder `me`: new lock state, mutex, acquired? -/
def lockPoll (l : LockSt) (m : MutexSt) (me : Nat) : LockSt × MutexSt × Bool :=
  match l with
  | .held => (.held, m, true)
  | _ => match m with
    | none => (.held, some me, true)
    | some _ => (.polling, m, false)

/-- dropping an `Option<RepeatableLockFuture>` -/
def lockDrop (l : LockSt) (m : MutexSt) : MutexSt :=
  match l with | .held => Option.none | _ => m

/-! ## `StreamWriter` -/

structure Writer where
  rtype : Nat
  id : Nat
  contentLen : Nat := 0     -- head.content_length (decremented while writing)
  padLen : Nat := 0         -- head.padding_length (decremented while writing)
  headIdx : Nat := 0
  origLen : Nat := 0
  lock : LockSt := .none
deriving Repr, DecidableEq

inductive WRes
  | ready (n : Nat)
  | pending
  | err (e : IoErr)
  | panic (site : String)
deriving Repr, DecidableEq

def Writer.isWriting (w : Writer) : Bool := w.contentLen != 0 || w.padLen != 0

def Writer.headBytes (w : Writer) : Bytes :=
  RecordHeader.toBytes { rtype := w.rtype, requestId := w.id, contentLength := w.contentLen, paddingLength := w.padLen }

/-- `Clone for StreamWriter`: same stream and shared transport, no lock, and — since the fix of the clone defect (DESIGN §14.3) — an
idle header: the remaining lengths of a record the source is in the middle of are NOT inherited. -/
def Writer.clone (w : Writer) : Writer := { rtype := w.rtype, id := w.id }

/-- the vectored write loop of `poll_write`; `fuel` bounds the iterations (each accepts ≥ 1 byte) -/
def writeLoop (fuel : Nat) (w : Writer) (head buf : Bytes) (t : Transport) : Writer × Transport × WRes :=
  match fuel with
  | 0 => (w, t, .panic "model: write loop fuel exhausted")
  | fuel + 1 =>
    if !w.isWriting then (w, t, .ready buf.length)
    else
      -- panic-site: async_io/mod.rs:85 `buf.len() - content_length`
      if w.contentLen > buf.length then (w, t, .panic "async_io:85 payload_idx underflow")
      else
        let s0 := head.drop w.headIdx
        let s1 := buf.drop (buf.length - w.contentLen)
        let s2 := zeros w.padLen
        match t.writeV [s0, s1, s2] "V" with
        | (t, .pending) => (w, t, .pending)
        | (t, .ready (.error e)) => (w, t, .err e)
        | (t, .ready (.ok 0)) => (w, t, .err .writeZero)
        | (t, .ready (.ok written)) =>
          let w0 := min written s0.length
          let w1 := min (written - w0) s1.length
          let w2 := min (written - w0 - w1) s2.length
          -- panic-site: async_io/mod.rs:112 debug_assert_eq!(written, 0)
          if written - w0 - w1 - w2 ≠ 0 then (w, t, .panic "async_io:112 transport accepted more than offered")
          else writeLoop fuel { w with headIdx := w.headIdx + w0, contentLen := w.contentLen - w1, padLen := w.padLen - w2 } head buf t

/-- `StreamWriter::poll_write` for writer number `me` (mutex owner id `me + 1`). -/
def Writer.pollWrite (w : Writer) (me : Nat) (buf : Bytes) (m : MutexSt) (t : Transport) : Writer × MutexSt × Transport × WRes :=
  if buf.isEmpty then (w, m, t, .ready 0)
  else
    -- `lock.get_or_insert_with`
    let setup : Except String Writer :=
      if w.lock == .none then
        if w.isWriting then .error "async_io:71 lock was dropped mid-write"
        else
          let c := min buf.length 65535
          .ok { w with contentLen := c, padLen := RecordHeader.autoPadding c, headIdx := 0, origLen := c, lock := .polling }
      else .ok w
    match setup with
    | .error s => (w, m, t, .panic s)
    | .ok w =>
      if !w.isWriting then (w, m, t, .panic "async_io:77 poll_write called while poll_flush is pending")
      else if buf.length < w.origLen then (w, m, t, .panic "async_io:79 buf shrunk between calls to poll_write")
      else
        let buf := buf.take w.origLen
        let (l, m, got) := lockPoll w.lock m (me + 1)
        let w := { w with lock := l }
        if !got then (w, m, t, .pending)
        else
          let head := w.headBytes
          match writeLoop (8 + w.contentLen + w.padLen + 1) w head buf t with
          | (w, t, .ready n) => ({ w with lock := .none }, Option.none, t, .ready n)
          | (w, t, r) => (w, m, t, r)

/-- `StreamWriter::poll_flush` -/
def Writer.pollFlush (w : Writer) (me : Nat) (m : MutexSt) (t : Transport) : Writer × MutexSt × Transport × WRes :=
  if w.isWriting then (w, m, t, .panic "async_io:122 poll_flush called while poll_write is pending")
  else
    let l0 := if w.lock == .none then LockSt.polling else w.lock
    let (l, m, got) := lockPoll l0 m (me + 1)
    let w := { w with lock := l }
    if !got then (w, m, t, .pending)
    else match t.flush with
      | (t, .pending) => (w, m, t, .pending)
      | (t, .ready (.ok ())) => ({ w with lock := .none }, Option.none, t, .ready 0)
      | (t, .ready (.error e)) => ({ w with lock := .none }, Option.none, t, .err e)

/-! ## `Request` -/

structure AReq where
  sp : Str.Parser
  lock : LockSt := .none
  writeable : Bool
deriving Repr

/-- `Request::new` -/
def AReq.new (sp : Str.Parser) : AReq :=
  { sp, writeable := decide ((inputStreams sp.request.role).length ≤ 1) }

def AReq.isFinalStream (r : AReq) : Bool := (nextInputStream r.sp.request.role r.sp.stream).isNone

inductive ORes | ready | pending | err (e : IoErr) | panic (s : String)
deriving Repr, DecidableEq

/-- the `while let out @ [_, ..]` loop of `poll_output` -/
def outLoop (fuel : Nat) (sp : Str.Parser) (t : Transport) : Str.Parser × Transport × ORes :=
  match fuel with
  | 0 => (sp, t, .panic "model: output loop fuel exhausted")
  | fuel + 1 =>
    if sp.output.isEmpty then (sp, t, .ready)
    else match t.write sp.output with
      | (t, .pending) => (sp, t, .pending)
      | (t, .ready (.error e)) => (sp, t, .err e)
      | (t, .ready (.ok 0)) => (sp, t, .err .writeZero)
      | (t, .ready (.ok n)) => outLoop fuel (sp.consumeOutput n) t

/-- `Request::poll_output` -/
def AReq.pollOutput (r : AReq) (m : MutexSt) (t : Transport) : AReq × MutexSt × Transport × ORes :=
  if r.sp.output.isEmpty then
    -- panic-site: async_io/mod.rs:476 debug_assert!(this.lock.is_none())
    if r.lock != .none then (r, m, t, .panic "async_io:476 lock held with empty output") else (r, m, t, .ready)
  else
    let l0 := if r.lock == .none then LockSt.polling else r.lock
    let (l, m, got) := lockPoll l0 m 0
    let r := { r with lock := l }
    if !got then (r, m, t, .pending)
    else match outLoop (r.sp.output.length + 1) r.sp t with
      | (sp, t, .ready) => ({ r with sp := sp, lock := .none }, Option.none, t, .ready)
      | (sp, t, o) => ({ r with sp := sp }, m, t, o)

inductive IRes
  | ready (n : Nat) (data : Bytes)      -- `Ok(n)`; `data` = what went into `dest`
  | pending
  | err (e : IoErr)
  | panic (s : String)
deriving Repr, DecidableEq

/-- the parse / compress / flush / read loop of `poll_input`; each iteration that continues has read ≥ 1 byte -/
def inLoop (fuel : Nat) (r : AReq) (new : Bytes) (dest : Option Nat) (m : MutexSt) (t : Transport) :
    AReq × MutexSt × Transport × IRes :=
  match fuel with
  | 0 => (r, m, t, .panic "model: input loop fuel exhausted")
  | fuel + 1 =>
    match r.sp.parse new dest with
    | (sp, .panic s) => ({ r with sp := sp }, m, t, .panic s)
    | (sp, .err e) => ({ r with sp := sp }, m, t, .err (ioOfPErr e))
    | (sp, .ok st) =>
      let r := { r with sp := sp }
      if st.streamEnd || st.stream > 0 then
        let r := if !r.writeable && r.isFinalStream then { r with writeable := true } else r
        (r, m, t, .ready st.stream st.delivered)
      else
        let r := { r with sp := r.sp.compress }
        -- replies produced by the parse above are sent before waiting for more input
        match r.pollOutput m t with
        | (r, m, t, .pending) => (r, m, t, .pending)
        | (r, m, t, .err e) => (r, m, t, .err e)
        | (r, m, t, .panic s) => (r, m, t, .panic s)
        | (r, m, t, .ready) =>
          match t.read r.sp.free with
          | (t, .pending) => (r, m, t, .pending)
          | (t, .ready (.error e)) => (r, m, t, .err e)
          | (t, .ready (.ok [])) => (r, m, t, .err .unexpectedEof)
          | (t, .ready (.ok bs)) => inLoop fuel r bs dest m t

/-- `Request::poll_input(cx, dest)`; `dest` = length of the caller's buffer. -/
def AReq.pollInput (r : AReq) (dest : Option Nat) (m : MutexSt) (t : Transport) : AReq × MutexSt × Transport × IRes :=
  let buffered := r.sp.parsed
  match dest, buffered with
  | some 0, _ => (r, m, t, .ready 0 [])
  | none, _ :: _ => (r, m, t, .ready 0 [])
  | some n, _ :: _ =>
    let k := min n buffered.length
    ({ r with sp := r.sp.consumeStream k }, m, t, .ready k (buffered.take k))
  | _, _ =>
    match r.pollOutput m t with
    | (r, m, t, .pending) => (r, m, t, .pending)
    | (r, m, t, .err e) => (r, m, t, .err e)
    | (r, m, t, .panic s) => (r, m, t, .panic s)
    | (r, m, t, .ready) => inLoop (t.input.length + 2) r [] dest m t

/-- `Request::set_stream` (panics on a rejected selection) -/
def AReq.setStream (r : AReq) (s : Nat) : Option AReq :=
  match r.sp.setStream (some s) with
  | .ok sp => some { r with sp := sp }
  | _ => none

/-! ## `async fn`s as resumable state machines -/

/-- `Request::writeable()` — one poll. `started`: the future already ran up to its `.await`. -/
def AReq.writeablePoll (r : AReq) (started : Bool) (m : MutexSt) (t : Transport) : AReq × Bool × MutexSt × Transport × ORes :=
  if !started && r.writeable then (r, true, m, t, .ready)
  else
    let r1 : Option AReq :=
      if started then some r
      else match r.sp.setStream (inputStreams r.sp.request.role).getLast? with
        | .ok sp => some { r with sp := sp }
        | _ => none
    match r1 with
    | none => (r, true, m, t, .panic "async_io:371 final stream should always be valid to set")
    | some r =>
      match r.pollInput none m t with
      | (r, m, t, .ready _ _) => (r, true, m, t, .ready)
      | (r, m, t, .pending) => (r, true, m, t, .pending)
      | (r, m, t, .err e) => (r, true, m, t, .err e)
      | (r, m, t, .panic s) => (r, true, m, t, .panic s)

/-- the loop of `record_boundary()` entered with `new` freshly read bytes -/
def boundaryLoop (fuel : Nat) (sp : Str.Parser) (new : Bytes) (t : Transport) : Str.Parser × Transport × ORes :=
  match fuel with
  | 0 => (sp, t, .panic "model: boundary loop fuel exhausted")
  | fuel + 1 =>
    let (sp, res) := sp.parse new none
    match res with
    | .panic s => (sp, t, .panic s)
    | .err e => if e == .abortRequest then cont sp t fuel else (sp, t, .err (ioOfPErr e))
    | .ok _ => cont sp t fuel
where
  cont (sp : Str.Parser) (t : Transport) (fuel : Nat) : Str.Parser × Transport × ORes :=
    if sp.isRecordBoundary then (sp, t, .ready)
    -- panic-site: async_io/mod.rs:400 debug_assert!(stream_buffer().is_empty())
    else if !sp.parsed.isEmpty then (sp, t, .panic "async_io:400 stream_buffer not empty")
    else
      let sp := sp.compress
      match t.read sp.free with
      | (t, .pending) => (sp, t, .pending)
      | (t, .ready (.error e)) => (sp, t, .err e)
      | (t, .ready (.ok [])) => (sp, t, .err .unexpectedEof)
      | (t, .ready (.ok bs)) => boundaryLoop fuel sp bs t

/-- `write_all(buf)` — one poll; returns the unwritten rest on `Pending`. -/
def writeAllLoop (fuel : Nat) (buf : Bytes) (t : Transport) : Bytes × Transport × ORes :=
  match fuel with
  | 0 => (buf, t, .panic "model: write_all fuel exhausted")
  | fuel + 1 =>
    if buf.isEmpty then (buf, t, .ready)
    else match t.write buf with
      | (t, .pending) => (buf, t, .pending)
      | (t, .ready (.error e)) => (buf, t, .err e)
      | (t, .ready (.ok 0)) => (buf, t, .err .writeZero)
      | (t, .ready (.ok n)) => writeAllLoop fuel (buf.drop n) t

/-- Suspension points of `Request::close`. -/
inductive CloseSt
  | start
  | inWriteable
  | inBoundary            -- suspended in `record_boundary().await` on a read
  | writeOut (rest : Bytes) (endreq : Bytes)
  | writeEnd (rest : Bytes)
deriving Repr, DecidableEq

inductive CRes
  | pending
  | reuse (rp : Req.Parser)      -- `Ok((parser, R, W))`
  | err (e : IoErr)
  | panic (s : String)
deriving Repr

/-- `Request::close(status)` — one poll of the future. `writersAlive`: clones of the `Arc` held by
`StreamWriter`s that were not dropped. -/
def closePoll (r : AReq) (st : CloseSt) (status : ExitStatus) (writersAlive : Nat) (m : MutexSt) (t : Transport) :
    AReq × CloseSt × MutexSt × Transport × CRes :=
  -- phase 1: writeable().await
  let p1 : Except (AReq × CloseSt × MutexSt × Transport × CRes) (AReq × MutexSt × Transport × CloseSt) :=
    match st with
    | .start | .inWriteable =>
      match r.writeablePoll (st == .inWriteable) m t with
      | (r, _, m, t, .ready) => .ok (r, m, t, .start)
      | (r, _, m, t, .pending) => .error (r, .inWriteable, m, t, .pending)
      | (r, _, m, t, .err e) => if e == .abortRequest then .ok (r, m, t, .start) else .error (r, .inWriteable, m, t, .err e)
      | (r, _, m, t, .panic s) => .error (r, .inWriteable, m, t, .panic s)
    | s => .ok (r, m, t, s)
  match p1 with
  | .error x => x
  | .ok (r, m, t, st) =>
    -- phase 2: set_stream(None); record_boundary().await
    let p2 : Except (AReq × CloseSt × MutexSt × Transport × CRes) (AReq × MutexSt × Transport × CloseSt) :=
      match st with
      | .start | .inBoundary =>
        let spRes : Except String (Str.Parser × Bool) :=   -- (parser, resume-in-read?)
          if st == .inBoundary then .ok (r.sp, true)
          else match r.sp.setStream none with
            | .ok sp => .ok (sp, false)
            | _ => .error "async_io:437 ignoring stream data should always be allowed"
        match spRes with
        | .error s => .error (r, st, m, t, .panic s)
        | .ok (sp, resume) =>
          let res : Str.Parser × Transport × ORes :=
            if resume then
              -- re-poll of the pending `read`: same call again
              match t.read sp.free with
              | (t, .pending) => (sp, t, .pending)
              | (t, .ready (.error e)) => (sp, t, .err e)
              | (t, .ready (.ok [])) => (sp, t, .err .unexpectedEof)
              | (t, .ready (.ok bs)) => boundaryLoop (t.input.length + 2) sp bs t
            else if sp.isRecordBoundary then (sp, t, .ready)
            else boundaryLoop (t.input.length + 2) sp [] t
          match res with
          | (sp, t, .ready) => .ok ({ r with sp := sp }, m, t, .start)
          | (sp, t, .pending) => .error ({ r with sp := sp }, .inBoundary, m, t, .pending)
          | (sp, t, .err e) => .error ({ r with sp := sp }, .inBoundary, m, t, .err e)
          | (sp, t, .panic s) => .error ({ r with sp := sp }, .inBoundary, m, t, .panic s)
      | s => .ok (r, m, t, s)
    match p2 with
    | .error x => x
    | .ok (r, m, t, st) =>
      -- phase 3: epilogue, drop lock, unwrap the Arc
      let p3 : Except (AReq × CloseSt × MutexSt × Transport × CRes) (AReq × MutexSt × Transport × CloseSt) :=
        match st with
        | .start =>
          let streams := if r.writeable then outputStreams r.sp.request.role else []
          let endreq := makeRequestEpilogue r.sp.request.id status streams
          let m := lockDrop r.lock m
          let r := { r with lock := .none }
          if writersAlive > 0 then .error (r, .start, m, t, .err .writersAlive)
          else .ok (r, m, t, .writeOut r.sp.output endreq)
        | s => .ok (r, m, t, s)
      match p3 with
      | .error x => x
      | .ok (r, m, t, st) =>
        match st with
        | .writeOut rest endreq =>
          match writeAllLoop (rest.length + 1) rest t with
          | (rest, t, .pending) => (r, .writeOut rest endreq, m, t, .pending)
          | (rest, t, .err e) => (r, .writeOut rest endreq, m, t, .err e)
          | (rest, t, .panic s) => (r, .writeOut rest endreq, m, t, .panic s)
          | (_, t, .ready) =>
            let r := { r with sp := r.sp.consumeOutput r.sp.output.length }
            finishEnd r endreq m t
        | .writeEnd rest => finishEnd r rest m t
        | s => (r, s, m, t, .panic "model: unreachable close state")
where
  finishEnd (r : AReq) (rest : Bytes) (m : MutexSt) (t : Transport) : AReq × CloseSt × MutexSt × Transport × CRes :=
    match writeAllLoop (rest.length + 1) rest t with
    | (rest, t, .pending) => (r, .writeEnd rest, m, t, .pending)
    | (rest, t, .err e) => (r, .writeEnd rest, m, t, .err e)
    | (rest, t, .panic s) => (r, .writeEnd rest, m, t, .panic s)
    | (_, t, .ready) =>
      if r.sp.request.flags.toNat % 2 == 1 then      -- `flags.contains(KeepConn)`
        match r.sp.intoRequestParser with
        | some (.ok rp) => (r, .writeEnd [], m, t, .reuse rp)
        | some (.error e) => (r, .writeEnd [], m, t, .err (ioOfPErr e))
        | none => (r, .writeEnd [], m, t, .panic "stream.rs:552 output_buffer must be fully consumed")
      else (r, .writeEnd [], m, t, .err .connectionReset)

end Fcgi.Async
