import Fcgi.Model.VarInt
import Fcgi.Model.Sink
/-!
# `protocol/nv.rs` — `NVIter` and `nv::write`

One function models both instantiations (`NVIter<&[u8]>`, `NVIter<&mut [u8]>`): the generic
Rust code is the same, the correspondence check runs both against this model.
-/
namespace Fcgi.NV

/-- `NVIter::next`: `some ((name, value), rest)`; `none` leaves the iterator's data unchanged.

Rust computes `head_len = data.len() - cur.len()`, `total_len = head_len + name_len + val_len`
(`checked_add`; cannot overflow on 64-bit since both lengths are `< 2³¹` and `head_len ≤ 8`), and
splits only if `data.len() >= total_len`.  With `r2` the slice after the two length prefixes this is
`r2.length ≥ name_len + val_len`. -/
def next (bs : Bytes) : Option ((Bytes × Bytes) × Bytes) :=
  match VarInt.decode bs with
  | none => none
  | some (nl, r1) =>
    match VarInt.decode r1 with
    | none => none
    | some (vl, r2) =>
      if nl + vl ≤ r2.length then some ((r2.take nl, (r2.drop nl).take vl), r2.drop (nl + vl))
      else none

/-- The index preconditions of the slice operations `next` performs when it yields a pair
(`split_at(total_len)`, `advance_by(head_len)`, `split_at(name_len)`), and absence of `usize`
overflow in the two `checked_add`s.  Proved always true (`Proofs/NV.lean`). -/
def nextGuards (bs : Bytes) : Bool :=
  match VarInt.decode bs with
  | none => true
  | some (nl, r1) =>
    match VarInt.decode r1 with
    | none => true
    | some (vl, r2) =>
      let headLen := bs.length - r2.length
      let total := headLen + nl + vl
      decide (r2.length ≤ bs.length) && decide (total < 18446744073709551616) &&
      (if total ≤ bs.length then decide (headLen ≤ total) && decide (nl ≤ total - headLen) else true)

/-- Running the iterator to exhaustion: the pairs yielded and `into_inner()`.
The recursive call is guarded; `next_length` shows the guard always holds. -/
def all (bs : Bytes) : List (Bytes × Bytes) × Bytes :=
  match next bs with
  | none => ([], bs)
  | some (p, r) =>
    if r.length < bs.length then
      let (ps, t) := all r
      (p :: ps, t)
    else ([p], r)
termination_by bs.length

/-- `NVIter::size_hint().1`. -/
def sizeHint (bs : Bytes) : Nat := bs.length / 2

inductive WriteErr | invalidInput | writeZero
deriving Repr, DecidableEq

/-- `nv::write((name, value), w)`: the sink afterwards and `Ok(count)` / `Err`.  The two length
prefixes are validated and written one after the other (a too-long value fails *after* the name
length was written, as in the Rust loop). -/
def write (name value : Bytes) (w : Sink) : Sink × Except WriteErr Nat :=
  match VarInt.tryFromUsize name.length with
  | none => (w, .error .invalidInput)
  | some nl =>
    match w.writeAll (VarInt.encode nl) with
    | (w1, false) => (w1, .error .writeZero)
    | (w1, true) =>
      match VarInt.tryFromUsize value.length with
      | none => (w1, .error .invalidInput)
      | some vl =>
        match w1.writeAll (VarInt.encode vl) with
        | (w2, false) => (w2, .error .writeZero)
        | (w2, true) =>
          match w2.writeAll name with
          | (w3, false) => (w3, .error .writeZero)
          | (w3, true) =>
            match w3.writeAll value with
            | (w4, false) => (w4, .error .writeZero)
            | (w4, true) =>
              (w4, .ok ((VarInt.encode nl).length + (VarInt.encode vl).length + name.length + value.length))

/-- Encoding of one pair into a growable buffer (the specification-side encoder). -/
def enc (p : Bytes × Bytes) : Bytes :=
  VarInt.encode p.1.length ++ VarInt.encode p.2.length ++ p.1 ++ p.2

end Fcgi.NV
