import Fcgi.Model.Async
/-!
# `Token::run` — the connection task, with a scripted handler, transport and peer

`run` is an `async fn`; its suspension points (`select(stop, parse_request)`, `handler(&mut req).await`,
`req.close(status).await`) are the `Phase`s here.  One call of `pollConn` is one poll of the task.
The handler is a small script interpreted identically by the Rust harness (an `async` block) and here.
The environment (`Peer`) releases input segments when enough reply bytes have been written
(closed-loop client); the executor re-polls the task only when it was woken.
-/
namespace Fcgi.Run
open Fcgi Fcgi.Req Fcgi.Str Fcgi.Async

/-- Handler script operations (see `harness/src/runloop.rs` for the Rust interpreter). -/
inductive HOp
  | read (n : Nat)                 -- one `read(&mut buf[..n]).await`
  | readAll                        -- `read` with a 64-byte buffer until it returns 0
  | fill                           -- `fill_buf().await`
  | consume (k : Nat)
  | setStream (t : Nat)
  | writeable                      -- `writeable().await`
  | open_ (t : Nat)                -- `output_stream(t)` → next writer slot
  | dropW (i : Nat)
  | writeAll (i : Nat) (data : Bytes)
  | flush (i : Nat)
  | ret (status : ExitStatus)      -- `return Ok(status)`
  | retErr (e : IoErr)             -- `return Err(kind)`
deriving Repr, DecidableEq

/-- Sub-state of the op being awaited. -/
inductive HSub
  | fresh
  | readAllAcc (acc : Bytes)
  | writeRest (rest : Bytes)
  | writeableStarted
deriving Repr, DecidableEq

structure HState where
  ops : List HOp
  sub : HSub := .fresh
  writers : List (Option Writer) := []
  /-- `true`: an I/O error of an op is returned from the handler at once (`?`); `false`: ignored -/
  propagate : Bool := true
deriving Repr

inductive HRes
  | pending
  | done (r : Except IoErr ExitStatus)
  | panic (s : String)
deriving Repr

/-- When the closed-loop peer releases an input segment. -/
inductive Gate
  | bytes (n : Nat)       -- at least `n` bytes were written to it
  | records (n : Nat)     -- it has received at least `n` complete records
  | endreqs (n : Nat)     -- it has received at least `n` complete EndRequest records
  | endOf (id : Nat)      -- it has received a complete EndRequest record for request `id`
  | hasRec (r : Bytes)    -- it has received exactly this record
  | both (a b : Gate)
deriving Repr, DecidableEq

/-- does the log contain this complete record (at a record boundary)? -/
def hasRecord (fuel : Nat) (log : Bytes) (r : Bytes) : Bool :=
  match fuel with
  | 0 => false
  | fuel + 1 =>
    match log with
    | _ :: _ :: _ :: _ :: l1 :: l0 :: p :: _ :: rest =>
      let n := be16 l1 l0 + p.toNat
      if rest.length < n then false
      else if log.take (8 + n) == r then true
      else hasRecord fuel (rest.drop n) r
    | _ => false

/-- does the log contain a complete EndRequest record with this request id? -/
def hasEndOf (fuel : Nat) (log : Bytes) (id : Nat) : Bool :=
  match fuel with
  | 0 => false
  | fuel + 1 =>
    match log with
    | _ :: t :: i1 :: i0 :: l1 :: l0 :: p :: _ :: rest =>
      let n := be16 l1 l0 + p.toNat
      if rest.length < n then false
      else if t.toNat == RT.endRequest && be16 i1 i0 == id then true
      else hasEndOf fuel (rest.drop n) id
    | _ => false

/-- (complete records, complete EndRequest records) in a byte log -/
def countRecords (fuel : Nat) (log : Bytes) (acc : Nat × Nat) : Nat × Nat :=
  match fuel with
  | 0 => acc
  | fuel + 1 =>
    match log with
    | _ :: t :: _ :: _ :: l1 :: l0 :: p :: _ :: rest =>
      let n := be16 l1 l0 + p.toNat
      if rest.length < n then acc
      else countRecords fuel (rest.drop n) (acc.1 + 1, if t.toNat == RT.endRequest then acc.2 + 1 else acc.2)
    | _ => acc

def Gate.open_ (g : Gate) (wlog : Bytes) : Bool :=
  match g with
  | .hasRec r => hasRecord (wlog.length / 8 + 1) wlog r
  | .both a b => a.open_ wlog && b.open_ wlog
  | .bytes n => decide (wlog.length ≥ n)
  | .records n => decide ((countRecords (wlog.length / 8 + 1) wlog (0, 0)).1 ≥ n)
  | .endreqs n => decide ((countRecords (wlog.length / 8 + 1) wlog (0, 0)).2 ≥ n)
  | .endOf id => hasEndOf (wlog.length / 8 + 1) wlog id

structure Env where
  tr : Transport
  mutex : MutexSt := none
  /-- input segments not yet released -/
  segs : List (Gate × Bytes) := []
deriving Repr

def Env.ev (e : Env) (s : String) : Env := { e with tr := e.tr.ev s }

/-- the peer releases every leading segment whose gate is satisfied -/
def Env.release (e : Env) : Env × Bool :=
  let rec go (fuel : Nat) (e : Env) (any : Bool) : Env × Bool :=
    match fuel, e.segs with
    | fuel + 1, (g, bs) :: rest =>
      if g.open_ e.tr.wlog then go fuel { e with segs := rest, tr := { e.tr with input := e.tr.input ++ bs } } true
      else (e, any)
    | _, _ => (e, any)
  let (e, any) := go (e.segs.length + 1) e false
  -- releasing input wakes a parked read
  let wake := any && e.tr.readWaker
  ({ e with tr := { e.tr with hold := !e.segs.isEmpty, woken := e.tr.woken || wake, readWaker := if any then false else e.tr.readWaker } }, any)

def showIo : IoErr → String
  | .connectionAborted => "aborted" | .invalidData => "invalid" | .other => "other" | .unexpectedEof => "eof"
  | .writeZero => "writezero" | .connectionReset => "reset" | .transportRead => "tread"
  | .transportWrite => "twrite" | .transportFlush => "tflush" | .writersAlive => "writers"
  | .abortRequest => "abort-request"

def showStatus : ExitStatus → String
  | .complete c => s!"complete:{c}" | .overloaded => "overloaded" | .unknownRole => "unknownrole"

/-! ## Cost of a handler script (for the handler fuel) -/

def opCost : HOp → Nat
  | .writeAll _ data => data.length + 1
  | _ => 1

def curCost (sub : HSub) (op : HOp) : Nat :=
  match sub, op with
  | .writeRest rd, .writeAll _ _ => rd.length + 1
  | _, op => opCost op

/-- fuel a script needs besides the bytes it reads: one unit per op, plus one per byte of a `writeAll` -/
def scriptCost (h : HState) : Nat :=
  match h.ops with
  | [] => 0
  | op :: rest => curCost h.sub op + (rest.map opCost).sum

/-- Runs the handler until it suspends or returns (one poll of the handler future). -/
def handlerPoll (fuel : Nat) (r : AReq) (h : HState) (e : Env) : AReq × HState × Env × HRes :=
  match fuel with
  | 0 => (r, h, e, .panic "model: handler fuel exhausted")
  | fuel + 1 =>
    match h.ops with
    | [] => (r, h, e, .done (.ok (.complete 0)))
    | op :: rest =>
      let next (r : AReq) (h : HState) (e : Env) : AReq × HState × Env × HRes :=
        handlerPoll fuel r { h with ops := rest, sub := .fresh } e
      let fail (r : AReq) (h : HState) (e : Env) (err : IoErr) : AReq × HState × Env × HRes :=
        if h.propagate then (r, { h with ops := rest, sub := .fresh }, e, .done (.error err)) else next r h e
      match op with
      | .ret st => (r, h, e, .done (.ok st))
      | .retErr err => (r, h, e, .done (.error err))
      | .read n =>
        match r.pollInput (some n) e.mutex e.tr with
        | (r, m, t, .pending) => (r, h, { e with mutex := m, tr := t }, .pending)
        | (r, m, t, .ready k d) => next r h ({ e with mutex := m, tr := t }.ev s!"r={k}:{hexOrDash d}")
        | (r, m, t, .err x) => fail r h ({ e with mutex := m, tr := t }.ev s!"r!{showIo x}") x
        | (r, m, t, .panic s) => (r, h, { e with mutex := m, tr := t }, .panic s)
      | .readAll =>
        let acc := match h.sub with | .readAllAcc a => a | _ => []
        match r.pollInput (some 64) e.mutex e.tr with
        | (r, m, t, .pending) => (r, { h with sub := .readAllAcc acc }, { e with mutex := m, tr := t }, .pending)
        | (r, m, t, .ready 0 _) => next r h ({ e with mutex := m, tr := t }.ev s!"R={acc.length}:{hexOrDash acc}")
        | (r, m, t, .ready _ d) => handlerPoll fuel r { h with sub := .readAllAcc (acc ++ d) } { e with mutex := m, tr := t }
        | (r, m, t, .err x) => fail r h ({ e with mutex := m, tr := t }.ev s!"R!{showIo x}:{acc.length}:{hexOrDash acc}") x
        | (r, m, t, .panic s) => (r, h, { e with mutex := m, tr := t }, .panic s)
      | .fill =>
        match r.pollInput none e.mutex e.tr with
        | (r, m, t, .pending) => (r, h, { e with mutex := m, tr := t }, .pending)
        | (r, m, t, .ready _ _) => next r h ({ e with mutex := m, tr := t }.ev s!"f={r.sp.parsed.length}:{hexOrDash r.sp.parsed}")
        | (r, m, t, .err x) => fail r h ({ e with mutex := m, tr := t }.ev s!"f!{showIo x}") x
        | (r, m, t, .panic s) => (r, h, { e with mutex := m, tr := t }, .panic s)
      | .consume k => next { r with sp := r.sp.consumeStream k } h e
      | .setStream t =>
        match r.setStream t with
        | some r => next r h (e.ev "s=ok")
        | none => (r, h, e, .panic "async_io:292 streams should follow the order given by Role::input_streams")
      | .writeable =>
        match r.writeablePoll (h.sub == .writeableStarted) e.mutex e.tr with
        | (r, _, m, t, .pending) => (r, { h with sub := .writeableStarted }, { e with mutex := m, tr := t }, .pending)
        | (r, _, m, t, .ready) => next r h ({ e with mutex := m, tr := t }.ev "w=ok")
        | (r, _, m, t, .err x) => fail r h ({ e with mutex := m, tr := t }.ev s!"w!{showIo x}") x
        | (r, _, m, t, .panic s) => (r, h, { e with mutex := m, tr := t }, .panic s)
      | .open_ t =>
        if !(outputStreams r.sp.request.role).contains t || !r.writeable then (r, h, e, .panic "async_io:324 output_stream assertion")
        else next r { h with writers := h.writers ++ [some { rtype := t, id := r.sp.request.id }] } (e.ev s!"o=w{h.writers.length}")
      | .dropW i =>
        match h.writers.getD i none with
        | some w => next r { h with writers := h.writers.set i none } { e with mutex := lockDrop w.lock e.mutex }
        | none => next r h e
      | .writeAll i data =>
        match h.writers.getD i none with
        | none => next r h (e.ev "W!nowriter")
        | some w =>
          let restData := match h.sub with | .writeRest rd => rd | _ => data
          if restData.isEmpty then next r h (e.ev "W=ok")
          else match w.pollWrite i restData e.mutex e.tr with
            | (w, m, t, .pending) => (r, { h with sub := .writeRest restData, writers := h.writers.set i (some w) }, { e with mutex := m, tr := t }, .pending)
            | (w, m, t, .ready 0) => fail r { h with writers := h.writers.set i (some w) } ({ e with mutex := m, tr := t }.ev "W!writezero") .writeZero
            | (w, m, t, .ready n) =>
              handlerPoll fuel r { h with sub := .writeRest (restData.drop n), writers := h.writers.set i (some w) } { e with mutex := m, tr := t }
            | (w, m, t, .err x) => fail r { h with writers := h.writers.set i (some w) } ({ e with mutex := m, tr := t }.ev s!"W!{showIo x}") x
            | (w, m, t, .panic s) => (r, { h with writers := h.writers.set i (some w) }, { e with mutex := m, tr := t }, .panic s)
      | .flush i =>
        match h.writers.getD i none with
        | none => next r h (e.ev "F!nowriter")
        | some w =>
          match w.pollFlush i e.mutex e.tr with
          | (w, m, t, .pending) => (r, { h with writers := h.writers.set i (some w) }, { e with mutex := m, tr := t }, .pending)
          | (w, m, t, .ready _) => next r { h with writers := h.writers.set i (some w) } ({ e with mutex := m, tr := t }.ev "F=ok")
          | (w, m, t, .err x) => fail r { h with writers := h.writers.set i (some w) } ({ e with mutex := m, tr := t }.ev s!"F!{showIo x}") x
          | (w, m, t, .panic s) => (r, { h with writers := h.writers.set i (some w) }, { e with mutex := m, tr := t }, .panic s)

/-- Suspension points of `parse_request`. -/
inductive PRSub
  | start                           -- the initial `parse(0)` on what the previous request left in the buffer
  | reading
  | writing (rest : Bytes) (done : Bool)
deriving Repr, DecidableEq

inductive Phase
  | parseReq (rp : Req.Parser) (sub : PRSub)
  | handler (r : AReq) (h : HState)
  | closing (r : AReq) (cs : CloseSt) (status : ExitStatus) (alive : Nat)
  | finished
deriving Repr

structure Conn where
  phase : Phase
  env : Env
  /-- handler scripts for the requests still to come -/
  scripts : List (List HOp × Bool)
  stop : Bool := false
deriving Repr

def showEnvLine (env : List (Bytes × Bytes)) : String :=
  if env.isEmpty then "-" else
  String.intercalate "," ((env.map (fun e => hexOrDash e.1 ++ ":" ++ hexOrDash e.2)).mergeSort (fun a b => decide (a ≤ b)))

inductive PRes | pending | finished | panic (s : String)
deriving Repr

/-- One poll of the connection task. -/
def pollConn (fuel : Nat) (c : Conn) : Conn × PRes :=
  match fuel with
  | 0 => (c, .panic "model: connection fuel exhausted")
  | fuel + 1 =>
    match c.phase with
    | .finished => (c, .finished)
    | .parseReq rp sub =>
      -- `select(stop_fut, req_fut)`: the stop listener is polled first
      if c.stop then ({ c with phase := .finished, env := c.env }, .finished)
      else
        match sub with
        | .start =>
          match rp.parse [] with
          | (_, none) => (c, .panic "request parser panicked")
          | (rp, some y) => pollConn fuel { c with phase := .parseReq rp (.writing y.output y.done) }
        | .reading =>
          match c.env.tr.read rp.free with
          | (t, .pending) => ({ c with env := { c.env with tr := t } }, .pending)
          | (t, .ready (.error _)) => ({ c with phase := .finished, env := { c.env with tr := t } }, .finished)
          | (t, .ready (.ok [])) => ({ c with phase := .finished, env := { c.env with tr := t } }, .finished)
          | (t, .ready (.ok bs)) =>
            match rp.parse bs with
            | (_, none) => ({ c with env := { c.env with tr := t } }, .panic "request parser panicked")
            | (rp, some y) =>
              pollConn fuel { c with phase := .parseReq rp (.writing y.output y.done), env := { c.env with tr := t } }
        | .writing rest done =>
          match writeAllLoop (rest.length + 1) rest c.env.tr with
          | (rest, t, .pending) => ({ c with phase := .parseReq rp (.writing rest done), env := { c.env with tr := t } }, .pending)
          | (_, t, .err _) => ({ c with phase := .finished, env := { c.env with tr := t } }, .finished)
          | (_, t, .panic s) => ({ c with env := { c.env with tr := t } }, .panic s)
          | (_, t, .ready) =>
            let c := { c with env := { c.env with tr := t } }
            if !done then pollConn fuel { c with phase := .parseReq rp .reading }
            else match rp.intoStreamParser with
              | .error _ => ({ c with phase := .finished, env := c.env }, .finished)
              | .ok sp =>
                let r := AReq.new sp
                let (ops, prop, scripts) := match c.scripts with | [] => ([], true, []) | (o, p) :: s => (o, p, s)
                let rq := sp.request
                let env' := c.env.ev s!"HS({rq.role},{rq.flags.toNat},{showEnvLine rq.env})"
                let hs : HState := { ops := ops, propagate := prop }
                pollConn fuel { c with phase := .handler r hs, scripts := scripts, env := env' }
    | .handler r h =>
      -- model fuel for one poll of the handler: covers what is still to arrive AND what the stream
      -- parser may already hold (`readAll` spends one unit per 64 buffered bytes), AND the cost of what is left of
      -- the handler script (`scriptCost`): the fuel guard is unreachable for every script
      match handlerPoll (1000 + c.env.tr.input.length * 4 + (c.env.segs.map (·.2.length)).sum * 4 + r.sp.cap * 4 + scriptCost h) r h c.env with
      | (r, h, e, .pending) => ({ c with phase := .handler r h, env := e }, .pending)
      | (_, _, e, .panic s) => ({ c with env := e }, .panic s)
      | (r, h, e, .done res) =>
        -- writers still alive when the handler returns keep the `Arc` alive
        let alive := (h.writers.filter Option.isSome).length
        match res with
        | .ok st => pollConn fuel { c with phase := .closing r .start st alive, env := e.ev s!"HE(ok:{showStatus st})" }
        | .error x =>
          if x == .abortRequest then
            pollConn fuel { c with phase := .closing r .start ExitStatus.abort alive, env := e.ev "HE(err:abort-request)" }
          else ({ c with phase := .finished, env := e.ev s!"HE(err:{showIo x})" }, .finished)
    | .closing r cs status alive =>
      match closePoll r cs status alive c.env.mutex c.env.tr with
      | (r, cs, m, t, .pending) => ({ c with phase := .closing r cs status alive, env := { c.env with mutex := m, tr := t } }, .pending)
      | (_, _, m, t, .panic s) => ({ c with env := { c.env with mutex := m, tr := t } }, .panic s)
      | (_, _, m, t, .err x) => ({ c with phase := .finished, env := { c.env with mutex := m, tr := t } }, .finished)
      | (_, _, m, t, .reuse rp) =>
        pollConn fuel { c with phase := .parseReq rp .start, env := { c.env with mutex := m, tr := t } }

/-- bytes buffered in the parser of the phase -/
def Phase.buffered : Phase → Nat
  | .parseReq rp _ => rp.input.length
  | .handler r _ => r.sp.raw.length + r.sp.parsed.length
  | .closing r _ _ _ => r.sp.raw.length + r.sp.parsed.length
  | .finished => 0

/-- model fuel for one poll of the connection task: covers the worst case for the input that is
available in this poll and for what the parser of the phase has buffered (`Props/C12Fuel`:
`7·|input| + 5·|buffered| + 10` transitions suffice) -/
def connFuel (c : Conn) : Nat := 100000 + 7 * c.env.tr.input.length + 5 * c.phase.buffered

/-- The executor: polls the task only when it was woken — by a transient `Pending` of the transport
(which wakes at once) or by the peer releasing input it was waiting for; `stopAt` raises the stop flag
before that poll (which also wakes the task).  Returns the trace. -/
def runTask (fuel : Nat) (c : Conn) (pollNo : Nat) (stopAt : Option Nat) : Conn × String :=
  match fuel with
  | 0 => (c, "FUEL")
  | fuel + 1 =>
    let c := if stopAt == some pollNo then { c with stop := true } else c
    let (env, _) := c.env.release
    let env := { env with tr := { env.tr with woken := false } }
    let c := { c with env := env.ev s!"|{pollNo}" }
    match pollConn (connFuel c) c with
    | (c, .finished) => (c, "RET")
    | (c, .panic _) => (c, "PANIC")
    | (c, .pending) =>
      if c.env.tr.woken then runTask fuel c (pollNo + 1) stopAt
      else
        let (env, _) := c.env.release
        if env.tr.woken then runTask fuel { c with env := env } (pollNo + 1) stopAt
        else
          let c := { c with env := env }
          match stopAt with
          | some k => if k > pollNo && !c.stop then runTask fuel c k stopAt else (c, "STALL")
          | none => (c, "STALL")

/-- `gt=1` runs (C13): the semaphore is saturated (the other `max_conns - 1` permits are held) and after every
poll of the connection task that returned `Pending` a fresh `get_token()` is polled once; one more probe
follows after the task has been dropped.  `Token::run` takes `self`: the `Token`, and with it the permit,
lives until the task is gone — so every probe before the end is `Pending` (`G:P`), the last one `Ready`
(`G:R`).  The trace carries a `|n` marker at the start of every poll; every marker but the first follows
exactly one `Pending` result. -/
def gateTrace (events : List String) (fin : String) : List String :=
  let body := (events.foldl (fun (acc : List String × Bool) e =>
      if e.startsWith "|" then (if acc.2 then (acc.1 ++ [e], false) else (acc.1 ++ ["G:P", e], false))
      else (acc.1 ++ [e], acc.2)) ([], true)).1
  body ++ (if fin.startsWith "STALL" then ["G:P", "G:R"] else ["G:R"])

end Fcgi.Run
