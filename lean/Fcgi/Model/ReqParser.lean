import Fcgi.Model.NV
import Fcgi.Model.Header
import Fcgi.Model.Vars
import Fcgi.Model.Lossy
/-!
# `parser/request.rs` — the request (preamble) parser, modelled literally

Same case splits, early returns and arithmetic guards as the Rust.  `&mut` state becomes returned
values; every place the Rust can panic is an explicit `.panic site` outcome (never hidden by
truncated subtraction).  External: `HashMap<OwnedVarName, SmallBytes>` = association list with
replace-on-equal-key (keys are the normalised names, see `envInsert`).
-/
namespace Fcgi.Req

/-- `parser::Error` -/
inductive PErr
  | paniced
  | stuckOnInput
  | interrupted
  | unknownVersion (v : UInt8)
  | invalidRequestLen (n : Nat)
  | nullRequest
  | abortRequest
  | protocol
deriving Repr, DecidableEq

/-- `parser::Request`: id, role, flags and the environment. Keys are stored as the bytes of
`OwnedVarName::from_compact(lossy name)` = `upper (lossy name)`; two such keys are equal as
`OwnedVarName`s iff these bytes are equal (Props/C19 `owned_eq_iff` + idempotence of `upper`). -/
structure Request where
  id : Nat
  role : Nat
  flags : UInt8
  env : List (Bytes × Bytes)
deriving Repr, DecidableEq

/-- `HashMap::insert`: replace the value of an equal key, else add. -/
def envInsert (env : List (Bytes × Bytes)) (k v : Bytes) : List (Bytes × Bytes) :=
  if env.any (fun e => e.1 == k) then env.map (fun e => if e.1 == k then (k, v) else e)
  else env ++ [(k, v)]

/-- `ParamsStateInner::make_cgivar` -/
def makeCgivar (name : Bytes) : Bytes := upper (lossy name)

/-- `params.extend(pairs.map(|(n, v)| (make_cgivar(n), v)))` -/
def envExtend (env : List (Bytes × Bytes)) (ps : List (Bytes × Bytes)) : List (Bytes × Bytes) :=
  ps.foldl (fun e p => envInsert e (makeCgivar p.1) p.2) env

/-- `ParamsStateInner` -/
structure Inner where
  req : Request
  buffer : Bytes
deriving Repr, DecidableEq

/-- The `T` of `SkipState<T>` / `GetValuesState<T>` (`HeaderState`, `ParamsStateInner`, `Request`). -/
inductive Ctx
  | hdr
  | par (i : Inner)
  | dn (r : Request)
deriving Repr, DecidableEq

inductive State
  | header
  | params (i : Inner) (pay pad : Nat)
  | skip (c : Ctx) (pay pad : Nat)            -- HeaderSkip / ParamsSkip / DoneSkip
  | values (c : Ctx) (vars pay pad : Nat)      -- HeaderValues / ParamsValues
  | done (r : Request)
  | fatal (e : PErr)
deriving Repr, DecidableEq

/-- `StateBuilder::into_state` -/
def Ctx.intoState : Ctx → State
  | .hdr => .header
  | .par i => .params i 0 0
  | .dn r => .done r

/-- `StateBuilder::into_skip` -/
def Ctx.intoSkip (c : Ctx) (pay pad : Nat) : State :=
  if pay == 0 && pad == 0 then c.intoState else .skip c pay pad

/-- Result of one `drive` call of a sub-state. -/
inductive Flow
  | brk (rem : Bytes) (st : State)
  | cont (rem : Bytes) (st : State)
  | panic (site : String)
deriving Repr, DecidableEq

/-- `SkipState::drive` -/
def skipDrive (c : Ctx) (pay pad : Nat) (data : Bytes) : Flow :=
  -- `payload.checked_add(padding)` cannot overflow on 64-bit (`u16 + u8`)
  if data.length < pay then .brk [] (.skip c (pay - data.length) pad)
  else if data.length < pay + pad then
    -- panic-site: request.rs:53 `self.padding_rem -= (data.len() - payload) as u8` (u8 underflow)
    if data.length - pay ≤ pad then .brk [] (.skip c 0 (pad - (data.length - pay)))
    else .panic "request.rs:53 padding_rem underflow"
  else .cont (data.drop (pay + pad)) c.intoState

/-- `GetValuesState::drive`; returns the flow and the bytes appended to `out`. -/
def valuesDrive (c : Ctx) (vars pay pad : Nat) (data : Bytes) (maxConns : Nat) : Flow × Bytes :=
  if pay > 0 then
    let len := min data.length pay
    let (pairs, rest) := NV.all (data.take len)
    let vars' := Vars.extend vars pairs
    if data.length < pay then
      let consumed := len - rest.length
      -- panic-site: request.rs:91 `self.payload_rem -= consumed as u16`
      if consumed ≤ pay then (.brk (data.drop consumed) (.values c vars' (pay - consumed) pad), [])
      else (.panic "request.rs:91 payload_rem underflow", [])
    else
      let data' := data.drop pay
      let out := Vars.responseRecord vars' maxConns
      if data'.length < pad then (.brk [] (.values c vars' 0 (pad - data'.length)), out)
      else (.cont (data'.drop pad) c.intoState, out)
  else
    if data.length < pad then (.brk [] (.values c vars 0 (pad - data.length)), [])
    else (.cont (data.drop pad) c.intoState, [])

/-- Outcome of the `try_head!` macro. -/
inductive HeadRes
  | short                                   -- fewer than 8 bytes: `Break((inp, self.into_state()))`
  | ok (h : RecordHeader)
  | unknownType (out : Bytes) (st : State)  -- reply emitted, `Continue((&mut inp[8..], skip))`
  | fatal (e : PErr)                        -- `Break((inp, Fatal(e)))`, nothing consumed

/-- `try_head!(self, inp, out)`; `ctx` is what `self.into_skip` wraps. -/
def tryHead (ctx : Ctx) (inp : Bytes) : HeadRes :=
  match inp with
  | b0 :: b1 :: b2 :: b3 :: b4 :: b5 :: b6 :: b7 :: _ =>
    match RecordHeader.fromBytes [b0, b1, b2, b3, b4, b5, b6, b7] with
    | some (.ok h) => .ok h
    | some (.error (.unknownRecordType t)) =>
      .unknownType (UnknownType.toRecord t (be16 b2 b3)) (ctx.intoSkip (be16 b4 b5) b6.toNat)
    | some (.error (.unknownVersion v)) => .fatal (.unknownVersion v)
    | _ => .fatal .protocol
  | _ => .short

/-- `Request::new` -/
def Request.new (id : Nat) (b : BeginRequest) : Request := { id, role := b.role, flags := b.flags, env := [] }

/-- `HeaderState::drive` -/
def headerDrive (data : Bytes) : Flow × Bytes :=
  match tryHead .hdr data with
  | .short => (.brk data .header, [])
  | .fatal e => (.brk data (.fatal e), [])
  | .unknownType o st => (.cont (data.drop 8) st, o)
  | .ok head =>
    if head.rtype == RT.beginRequest then
      if head.contentLength ≠ 8 then (.brk data (.fatal (.invalidRequestLen head.contentLength)), [])
      else if data.length < 16 then (.brk data .header, [])
      else
        let data' := data.drop 16
        match BeginRequest.fromBytes ((data.drop 8).take 8) with
        | some (.error (.unknownRole _)) =>
          ((.cont data' (Ctx.hdr.intoSkip 0 head.paddingLength)),
            EndRequest.toRecord { appStatus := 0, protocolStatus := 3 } head.requestId)
        | some (.ok body) =>
          -- note: `fatal!(data, NullRequest)` uses the *shadowed* `data`: the 16 bytes are consumed
          if head.requestId == 0 then (.brk data' (.fatal .nullRequest), [])
          else (.cont data' (.params { req := Request.new head.requestId body, buffer := [] } 0 head.paddingLength), [])
        | _ => (.brk data' (.fatal .protocol), [])
    else if head.rtype == RT.getValues && head.isManagement then
      (.cont (data.drop 8) (.values .hdr 0 head.contentLength head.paddingLength), [])
    else (.cont (data.drop 8) (Ctx.hdr.intoSkip head.contentLength head.paddingLength), [])

/-- Outcome of the `try_fill!` macro inside `parse_buffered`. -/
inductive Fill
  | filled (buffer data : Bytes)     -- continue with these
  | ret (buffer data : Bytes)        -- early `return` with this buffer / remaining data

/-- `try_fill!(vec, inp, len, must_move)` -/
def tryFill (buffer data : Bytes) (len : Nat) (mustMove : Bool) : Fill :=
  if buffer.length < len then
    let needed := len - buffer.length
    if data.length ≥ needed then .filled (buffer ++ data.take needed) (data.drop needed)
    else if mustMove then .ret (buffer ++ data) []
    else .ret buffer data
  else .filled buffer data

/-- Result of `parse_buffered`: updated inner state and the remaining data, or a panic. -/
inductive PB
  | ok (i : Inner) (data : Bytes)
  | panic (site : String)

/-- `ParamsStateInner::parse_buffered` -/
def parseBuffered (i : Inner) (data : Bytes) (recEnd : Bool) : PB :=
  match i.buffer with
  | [] => .panic "request.rs:232 buffer[0] on empty buffer"
  | b0 :: _ =>
    let headLen := 2 + (b0.toNat / 128) * 3
    match tryFill i.buffer data headLen recEnd with
    | .ret bf d => .ok { i with buffer := bf } d
    | .filled bf1 d1 =>
      -- panic-site: request.rs:234 `self.buffer[head_len - 1]` (in bounds after the fill)
      match bf1[headLen - 1]? with
      | none => .panic "request.rs:234 buffer[head_len - 1]"
      | some bx =>
        let headLen2 := headLen + (bx.toNat / 128) * 3
        match tryFill bf1 d1 headLen2 recEnd with
        | .ret bf d => .ok { i with buffer := bf } d
        | .filled bf2 d2 =>
          match VarInt.decode bf2 with
          | none => .panic "request.rs:239 both VarInts should be in the buffer"
          | some (nameLen, c1) =>
            match VarInt.decode c1 with
            | none => .panic "request.rs:241 both VarInts should be in the buffer"
            | some (valLen, cur) =>
              let bodyBuffered := cur.length
              -- panic-site: request.rs:244 debug_assert_eq!(head_len, buffer.len() - body_buffered)
              if headLen2 ≠ bf2.length - bodyBuffered then .panic "request.rs:244 head_len mismatch"
              else
                let hl := bf2.length - bodyBuffered
                let valStart := hl + nameLen
                let bodyLen := nameLen + valLen
                if bodyBuffered + d2.length < bodyLen then
                  if recEnd then .ok { i with buffer := bf2 ++ d2 } []
                  else .ok { i with buffer := bf2 } d2
                else
                  -- name
                  let nameRes : Option (Bytes × Bytes × Bytes) :=   -- (name, buffer, data)
                    if bodyBuffered == 0 then
                      -- panic-site: request.rs:269 `data.split_at_mut(name_len)`
                      if nameLen ≤ d2.length then some (d2.take nameLen, bf2, d2.drop nameLen) else none
                    else
                      match tryFill bf2 d2 valStart recEnd with
                      | .ret _ _ => none   -- unreachable: enough data is present (kept as a guard)
                      | .filled bf3 d3 =>
                        -- panic-site: request.rs:275 `&mut self.buffer[head_len..val_start]`
                        if valStart ≤ bf3.length then some ((bf3.drop hl).take nameLen, bf3, d3) else none
                  match nameRes with
                  | none => .panic "request.rs:269/275 name slice out of bounds"
                  | some (name, bf3, d3) =>
                    let key := makeCgivar name
                    -- `buffer.get(val_start..)` matched against `[_, ..]`
                    let val0 : Bytes := if valStart < bf3.length then bf3.drop valStart else []
                    if val0.length < valLen then
                      let missing := valLen - val0.length
                      -- panic-site: request.rs:291 `data.split_at_mut(missing)`
                      if missing ≤ d3.length then
                        .ok { req := { i.req with env := envInsert i.req.env key (val0 ++ d3.take missing) }, buffer := [] }
                            (d3.drop missing)
                      else .panic "request.rs:291 value split out of bounds"
                    else
                      .ok { req := { i.req with env := envInsert i.req.env key val0 }, buffer := [] } d3

/-- Result of `parse_stream`: updated inner and the consumed count. -/
inductive PS
  | ok (i : Inner) (consumed : Nat)
  | panic (site : String)

/-- `ParamsStateInner::parse_stream` -/
def parseStream (i : Inner) (data : Bytes) (recEnd : Bool) : PS :=
  let len := data.length
  let cont (i : Inner) (data : Bytes) : PS :=
    let (pairs, rest) := NV.all data
    let i' := { i with req := { i.req with env := envExtend i.req.env pairs } }
    if recEnd && !rest.isEmpty then .ok { i' with buffer := i'.buffer ++ rest } len
    else .ok i' (len - rest.length)
  if !i.buffer.isEmpty then
    match parseBuffered i data recEnd with
    | .panic s => .panic s
    | .ok i1 d1 =>
      if !i1.buffer.isEmpty then .ok i1 (len - d1.length)
      else cont i1 d1
  else cont i data

/-- `ParamsState::drive` -/
def paramsDrive (i : Inner) (pay pad : Nat) (data : Bytes) : Flow × Bytes :=
  -- payload phase
  let afterPayload : Except (Flow × Bytes) (Inner × Bytes) :=
    if pay > 0 then
      if data.length < pay then
        match parseStream i data false with
        | .panic s => .error (.panic s, [])
        | .ok i' consumed =>
          -- panic-site: request.rs:391 `self.payload_rem -= consumed as u16`; request.rs:392 `data[consumed..]`
          if consumed ≤ pay ∧ consumed ≤ data.length then
            .error (.brk (data.drop consumed) (.params i' (pay - consumed) pad), [])
          else .error (.panic "request.rs:391 consumed exceeds payload", [])
      else
        match parseStream i (data.take pay) true with
        | .panic s => .error (.panic s, [])
        | .ok i' consumed =>
          -- panic-site: request.rs:398 debug_assert_eq!(consumed, payload_rem)
          if consumed ≠ pay then .error (.panic "request.rs:398 consumed != payload_rem", [])
          else .ok (i', data.drop pay)
    else .ok (i, data)
  match afterPayload with
  | .error r => r
  | .ok (i, data) =>
    -- padding phase (note `<=`)
    let afterPad : Except (Flow × Bytes) Bytes :=
      if pad > 0 then
        if data.length ≤ pad then .error (.brk [] (.params i 0 (pad - data.length)), [])
        else .ok (data.drop pad)
      else .ok data
    match afterPad with
    | .error r => r
    | .ok data =>
      match tryHead (.par i) data with
      | .short => (.brk data (.params i 0 0), [])
      | .fatal e => (.brk data (.fatal e), [])
      | .unknownType o st => (.cont (data.drop 8) st, o)
      | .ok head =>
        let data := data.drop 8
        let reqId := i.req.id
        if head.rtype == RT.params && head.requestId == reqId then
          if head.contentLength == 0 then (.cont data ((Ctx.dn i.req).intoSkip 0 head.paddingLength), [])
          else (.cont data (.params i head.contentLength head.paddingLength), [])
        else if head.rtype == RT.abortRequest && head.requestId == reqId then
          (.cont data (Ctx.hdr.intoSkip head.contentLength head.paddingLength),
            EndRequest.toRecord { appStatus := 0, protocolStatus := 0 } reqId)
        else if head.rtype == RT.beginRequest && head.requestId != reqId then
          (.cont data ((Ctx.par i).intoSkip head.contentLength head.paddingLength),
            EndRequest.toRecord { appStatus := 0, protocolStatus := 1 } head.requestId)
        else if head.rtype == RT.getValues && head.isManagement then
          (.cont data (.values (.par i) 0 head.contentLength head.paddingLength), [])
        else (.cont data ((Ctx.par i).intoSkip head.contentLength head.paddingLength), [])

/-- One iteration of the `State::drive` loop body for a non-final state. -/
def step (st : State) (data : Bytes) (maxConns : Nat) : Flow × Bytes :=
  match st with
  | .done _ | .fatal _ => (.brk data st, [])
  | .header => headerDrive data
  | .skip c pay pad => (skipDrive c pay pad data, [])
  | .values (.dn _) _ _ _ => (.panic "request.rs:488 unimplemented: completed Request wrapped in GetValuesState", [])
  | .values c vars pay pad => valuesDrive c vars pay pad data maxConns
  | .params i pay pad => paramsDrive i pay pad data

def State.isFinal : State → Bool
  | .done _ | .fatal _ => true
  | _ => false

/-- Rank used only for termination: a `values` state may `Continue` without consuming. -/
def rank : State → Nat
  | .values _ _ _ _ => 1
  | _ => 0

/-- Result of `State::drive`. -/
structure Out where
  rem : Bytes
  st : State
  out : Bytes
  panic : Option String := none
deriving Repr, DecidableEq

/-- `State::drive` — the loop.  The recursive call is guarded by the termination measure
(remaining bytes, rank); `Proofs/ReqParser` shows the guard never fails. -/
def run (st : State) (data : Bytes) (maxConns : Nat) : Out :=
  if st.isFinal then { rem := data, st := st, out := [] }
  else
    match step st data maxConns with
    | (.panic s, o) => { rem := data, st := .fatal .paniced, out := o, panic := some s }
    | (.brk r s, o) => { rem := r, st := s, out := o }
    | (.cont r s, o) =>
      if r.isEmpty then { rem := r, st := s, out := o }
      else if r.length < data.length ∨ (r.length = data.length ∧ rank s < rank st) then
        let res := run s r maxConns
        { res with out := o ++ res.out }
      else { rem := r, st := s, out := o, panic := some "model: drive loop made no progress" }
termination_by (data.length, rank st)
decreasing_by
  simp_wf
  rename_i h
  rcases h with h | ⟨h1, h2⟩
  · exact Prod.Lex.left _ _ h
  · rw [h1]; exact Prod.Lex.right _ h2

/-! ## `request::Parser` -/

structure Parser where
  /-- `input.len()` = `aligned_bufsize` -/
  cap : Nat
  /-- `input[..input_len]` -/
  input : Bytes
  state : State
  maxConns : Nat
deriving Repr, DecidableEq

/-- `Parser::new(config)` -/
def Parser.new (bufferSize maxConns : Nat) : Parser :=
  { cap := alignedBufsize bufferSize, input := [], state := .header, maxConns }

/-- `Parser::from_parser` -/
def Parser.fromParser (cap : Nat) (input : Bytes) (maxConns : Nat) : Parser :=
  { cap, input, state := .header, maxConns }

/-- `input_buffer().len()` -/
def Parser.free (p : Parser) : Nat := p.cap - p.input.length

structure Yield where
  done : Bool
  output : Bytes
deriving Repr, DecidableEq

/-- `Parser::parse(new_input)` where the caller wrote `new` into `input_buffer()` first.
`none` = the call panicked (assertion on `new_input`, or a panic inside `drive`, in which case
`replace_with` leaves `Fatal(Paniced)` behind). -/
def Parser.parse (p : Parser) (new : Bytes) : Parser × Option Yield :=
  -- panic-site: request.rs:655 assert!(new_input <= input.len() - input_len)
  if new.length > p.cap - p.input.length ∨ p.input.length > p.cap then (p, none)
  else
    let data := p.input ++ new
    let r := run p.state data p.maxConns
    match r.panic with
    | some _ => ({ p with input := data, state := .fatal .paniced }, none)
    | none =>
      -- panic-site: request.rs:631 `move_input`: rem_len <= input_len
      if r.rem.length > data.length then ({ p with input := data, state := .fatal .paniced }, none)
      else
        let p1 := { p with input := r.rem, state := r.st }
        if !r.st.isFinal && r.rem.length == p.cap then
          ({ p1 with state := .fatal .stuckOnInput }, some { done := true, output := r.out })
        else (p1, some { done := r.st.isFinal, output := r.out })

/-- `Parser::into_request` -/
def Parser.intoRequest (p : Parser) : Except PErr (Request × Bytes) :=
  match p.state with
  | .done r => .ok (r, p.input)
  | .fatal e => .error e
  | _ => .error .interrupted

end Fcgi.Req
