/-!
# Byte-string conventions of the model

Bytes are `UInt8`, byte strings are `List UInt8`.  Rust `str`/`[u8]` values are modelled by
their bytes.  This file is import-free so that the compiled driver links without Mathlib.
-/
namespace Fcgi

abbrev Bytes := List UInt8

/-- Big-endian 16-bit value of two bytes (`u16::from_be_bytes`). -/
def be16 (a b : UInt8) : Nat := a.toNat * 256 + b.toNat

/-- Big-endian 32-bit value of four bytes (`u32::from_be_bytes`). -/
def be32 (a b c d : UInt8) : Nat :=
  a.toNat * 16777216 + b.toNat * 65536 + c.toNat * 256 + d.toNat

/-- `u16::to_be_bytes` (argument assumed `< 65536`; reduced otherwise, like an `as u16` cast). -/
def toBe16 (n : Nat) : Bytes := [UInt8.ofNat (n / 256), UInt8.ofNat n]

/-- `u32::to_be_bytes`. -/
def toBe32 (n : Nat) : Bytes :=
  [UInt8.ofNat (n / 16777216), UInt8.ofNat (n / 65536), UInt8.ofNat (n / 256), UInt8.ofNat n]

/-- `n` zero bytes. -/
def zeros (n : Nat) : Bytes := List.replicate n 0

/-- `u8::to_ascii_uppercase`. -/
def upperByte (b : UInt8) : UInt8 := if 97 ≤ b.toNat ∧ b.toNat ≤ 122 then UInt8.ofNat (b.toNat - 32) else b

/-- `[u8]::make_ascii_uppercase` / `str::make_ascii_uppercase`. -/
def upper (bs : Bytes) : Bytes := bs.map upperByte

/-! ## Hex text for the line protocol -/

def hexDigit (n : Nat) : Char :=
  if n < 10 then Char.ofNat (48 + n) else Char.ofNat (87 + n)

def hexOfBytes (bs : Bytes) : String :=
  String.ofList (bs.flatMap fun b => [hexDigit (b.toNat / 16), hexDigit (b.toNat % 16)])

def hexVal (c : Char) : Option Nat :=
  let n := c.toNat
  if 48 ≤ n ∧ n ≤ 57 then some (n - 48)
  else if 97 ≤ n ∧ n ≤ 102 then some (n - 87)
  else if 65 ≤ n ∧ n ≤ 70 then some (n - 55)
  else none

def bytesOfHexChars : List Char → Option Bytes
  | [] => some []
  | [_] => none
  | a :: b :: r =>
    match hexVal a, hexVal b, bytesOfHexChars r with
    | some x, some y, some t => some (UInt8.ofNat (x * 16 + y) :: t)
    | _, _, _ => none

/-- Parses hex; the single character `-` denotes the empty string. -/
def bytesOfHex (s : String) : Option Bytes :=
  if s == "-" then some [] else bytesOfHexChars s.toList

def hexOrDash (bs : Bytes) : String := if bs.isEmpty then "-" else hexOfBytes bs

end Fcgi
