import Fcgi.Model.NV
import Fcgi.Model.Header
/-!
# `protocol/vars.rs` and `Config::aligned_bufsize` (`lib.rs`)
-/
namespace Fcgi

/-- ASCII decimal rendering of a natural number (`usize::to_compact_string`). -/
def decimal (n : Nat) : Bytes :=
  if h : n < 10 then [UInt8.ofNat (48 + n)]
  else decimal (n / 10) ++ [UInt8.ofNat (48 + n % 10)]
termination_by n
decreasing_by omega

namespace Vars

def nameMaxConns : Bytes := "FCGI_MAX_CONNS".toUTF8.toList
def nameMaxReqs : Bytes := "FCGI_MAX_REQS".toUTF8.toList
def nameMpxsConns : Bytes := "FCGI_MPXS_CONNS".toUTF8.toList

/-- Flags in declaration order (= `iter_names` order): name, bit. -/
def table : List (Bytes × Nat) := [(nameMaxConns, 1), (nameMaxReqs, 2), (nameMpxsConns, 4)]

/-- `ProtocolVariables::parse_name`: exact, case-sensitive match; `none` = `UnknownVariable`. -/
def parseName (name : Bytes) : Option Nat :=
  (table.find? (fun e => e.1 == name)).map (·.2)

/-- `set.contains(bit)` on the `u8` bit set -/
def has (set bit : Nat) : Bool := (set / bit) % 2 == 1

/-- `set | bit` -/
def insert (set bit : Nat) : Nat := if has set bit then set else set + bit

/-- The value written for a variable. -/
def value (bit maxConns : Nat) : Bytes := if bit == 4 then [48] else decimal maxConns

/-- Body of the `GetValuesResult` record: the requested names, declaration order. -/
def body (set maxConns : Nat) : Bytes :=
  (table.filter (fun e => has set e.2)).flatMap (fun e => NV.enc (e.1, value e.2 maxConns))

/-- The record appended by `ProtocolVariables::write_response` (header back-patched, auto padding). -/
def responseRecord (set maxConns : Nat) : Bytes :=
  let b := body set maxConns
  ((RecordHeader.new RT.getValuesResult 0).setLengths b.length).toBytes ++ b ++
    zeros (RecordHeader.autoPadding b.length)

/-- `write_response(out, config)`: new buffer contents and the returned count. -/
def writeResponse (set : Nat) (out : Bytes) (maxConns : Nat) : Bytes × Nat :=
  let r := responseRecord set maxConns
  (out ++ r, r.length)

/-- `parser::parse_nv_var` folded over the pairs of a GetValues body: `vars.extend(filter_map …)`. -/
def extend (set : Nat) (pairs : List (Bytes × Bytes)) : Nat :=
  pairs.foldl (fun s p => match parseName p.1 with | some b => insert s b | none => s) set

end Vars

/-- `Config::aligned_bufsize` for `buffer_size = b` on a 64-bit target. -/
def alignedBufsize (b : Nat) : Nat :=
  if b ≤ 24 then 24
  else if b + 7 < 18446744073709551616 then (b + 7) / 8 * 8
  else 18446744073709551615

end Fcgi
