import Fcgi.Model.ReqParser
/-!
# `parser/stream.rs` — the input-stream parser, modelled literally (semi-abstract geometry)

Buffer layout `[gap0] <parsed> [gap1] <raw> <free>`: the state holds the byte strings `parsed`
(= `buffer[parsed_start..gap_start]`) and `raw` (= `buffer[raw_start..free_start]`) and the two gap
sizes, so `parsed_start ≤ gap_start ≤ raw_start ≤ free_start` holds by construction;
`free_start ≤ cap` is an invariant (`Proofs/StreamParser`).  Abstracted: the garbage in the gaps.
-/
namespace Fcgi.Str
open Fcgi.Req

inductive SState
  | stream
  | skip
  | values (vars : Nat)
deriving Repr, DecidableEq

structure Parser where
  cap : Nat
  g0 : Nat                 -- parsed_start
  parsed : Bytes           -- buffer[parsed_start..gap_start]
  g1 : Nat                 -- raw_start - gap_start
  raw : Bytes              -- buffer[raw_start..free_start]
  output : Bytes           -- output[output_start..]
  request : Request
  stream : Option Nat
  pay : Nat
  pad : Nat
  state : SState
  maxConns : Nat
deriving Repr, DecidableEq

namespace Parser

def freeStart (p : Parser) : Nat := p.g0 + p.parsed.length + p.g1 + p.raw.length
/-- `input_buffer().len()` -/
def free (p : Parser) : Nat := p.cap - p.freeStart

/-- `Parser::from_parser` (also `Parser::new` with `input = []`) -/
def fromParser (cap : Nat) (request : Request) (input : Bytes) (maxConns : Nat) : Parser :=
  { cap, g0 := 0, parsed := [], g1 := 0, raw := input, output := [], request,
    stream := nextInputStream request.role none, pay := 0, pad := 0, state := .skip, maxConns }

/-- `compress` -/
def compress (p : Parser) : Parser := { p with g0 := 0, g1 := 0 }

/-- `discard_stream` -/
def discardStream (p : Parser) : Parser := { p with g0 := 0, parsed := [], g1 := 0 }

/-- `consume_stream(amt)` -/
def consumeStream (p : Parser) (amt : Nat) : Parser :=
  let k := min amt p.parsed.length
  { p with g0 := p.g0 + k, parsed := p.parsed.drop k }

/-- `consume_output(amt)` -/
def consumeOutput (p : Parser) (amt : Nat) : Parser := { p with output := p.output.drop amt }

/-- `is_record_boundary` -/
def isRecordBoundary (p : Parser) : Bool := p.pay == 0 && p.pad == 0

end Parser

/-- `cmp_input_streams`; `none` = a debug assertion fired (`recv`/`exp` not an input stream type). -/
def cmpInputStreams (role recv : Nat) (exp : Option Nat) : Option Ordering :=
  match exp with
  | none => some .lt
  | some e =>
    -- panic-site: stream.rs:66-67 debug_assert!(recv.is_input_stream()), debug_assert!(exp.is_input_stream())
    if !RT.isInputStream recv || !RT.isInputStream e then none
    else if recv == e then some .eq
    else
      let rec go (l : List Nat) (pos : Ordering) : Ordering :=
        match l with
        | [] => .lt
        | s :: r => if s == recv then pos else if s == e then go r .gt else go r pos
      some (go (inputStreams role) .lt)

inductive SetRes
  | ok (p : Parser)
  | rejected           -- `Err(SequenceError)`, parser unchanged
  | panic (site : String)

/-- `set_stream(stream)` -/
def Parser.setStream (p : Parser) (stream : Option Nat) : SetRes :=
  let check : Option Bool :=   -- some true = rejected
    match stream with
    | some s => (cmpInputStreams p.request.role s p.stream).map (· == .lt)
    | none => some false
  match check with
  | none => .panic "stream.rs:66 debug_assert input stream type"
  | some true => .rejected
  | some false =>
    if stream != p.stream then
      let st := if p.state == .stream then SState.skip else p.state
      .ok { (p.discardStream) with state := st, stream := stream }
    else .ok p

/-- `Status` plus the bytes written into `dest` during the call. -/
structure Status where
  stream : Nat
  streamEnd : Bool
  output : Nat
  delivered : Bytes        -- what went into `dest` (empty when `dest = None`)
deriving Repr, DecidableEq

inductive Iter
  | cont (p : Parser) (dest : Option Nat) (res : Status)
  | stop (p : Parser) (res : Status)
  | err (p : Parser) (e : PErr)
  | panic (site : String)

/-- `parse_payload`; `Except` left = break out of the loop. -/
def parsePayload (p : Parser) (dest : Option Nat) (res : Status) : Iter :=
  let rawLen := p.raw.length
  let payloadLen := min p.pay rawLen
  let payload := p.raw.take payloadLen
  -- (consumed, parser with parsed/output/vars updated but raw/pay not yet, dest, res)
  let r : Nat × Parser × Option Nat × Status × Bool :=   -- Bool: moved into <parsed> (g1 unchanged)
    match p.state with
    | .stream =>
      match dest with
      | some c =>
        let read := min payloadLen c
        (read, p, some (c - read), { res with stream := res.stream + read, delivered := res.delivered ++ payload.take read }, false)
      | none =>
        (payloadLen, { p with parsed := p.parsed ++ payload }, none, { res with stream := res.stream + payloadLen }, true)
    | .skip => (payloadLen, p, dest, res, false)
    | .values vars =>
      let (pairs, rest) := NV.all payload
      let vars' := Vars.extend vars pairs
      if rawLen < p.pay then (payloadLen - rest.length, { p with state := .values vars' }, dest, res, false)
      else
        let rec_ := Vars.responseRecord vars' p.maxConns
        (payloadLen, { p with state := .values vars', output := p.output ++ rec_ }, dest,
          { res with output := res.output + rec_.length }, false)
  let (consumed, p1, dest1, res1, moved) := r
  -- panic-site: stream.rs:427 debug_assert!(consumed <= payload_len); :429 `payload_rem -= consumed as u16`
  if consumed > payloadLen ∨ consumed > p.pay then .panic "stream.rs:427 consumed > payload_len"
  else
    let p2 := { p1 with raw := p1.raw.drop consumed, g1 := if moved then p1.g1 else p1.g1 + consumed,
                        pay := p.pay - consumed }
    if p2.pay == 0 && consumed < rawLen then .cont p2 dest1 res1 else .stop p2 res1

/-- `parse_head` (precondition: record boundary) -/
def parseHead (p : Parser) (dest : Option Nat) (res : Status) : Iter :=
  match p.raw with
  | b0 :: b1 :: b2 :: b3 :: b4 :: b5 :: b6 :: b7 :: rest =>
    let consume8 (q : Parser) : Parser := { q with raw := rest, g1 := q.g1 + 8 }
    match RecordHeader.fromBytes [b0, b1, b2, b3, b4, b5, b6, b7] with
    | some (.error (.unknownRecordType t)) =>
      let unk := UnknownType.toRecord t (be16 b2 b3)
      .cont (consume8 { p with pay := be16 b4 b5, pad := b6.toNat, output := p.output ++ unk, state := .skip })
        dest { res with output := res.output + unk.length }
    | some (.error (.unknownVersion v)) => .err p (.unknownVersion v)
    | some (.ok head) =>
      let reqId := p.request.id
      let go (q : Parser) (res : Status) (st : SState) : Iter :=
        .cont (consume8 { q with state := st, pay := head.contentLength, pad := head.paddingLength }) dest res
      if RT.isInputStream head.rtype && head.requestId == reqId then
        match cmpInputStreams p.request.role head.rtype p.stream with
        | none => .panic "stream.rs:66 debug_assert input stream type"
        | some .eq => if head.contentLength != 0 then go p res .stream else .stop p { res with streamEnd := true }
        | some .lt => go p res .skip
        | some .gt => .stop p { res with streamEnd := true }
      else if head.rtype == RT.abortRequest && head.requestId == reqId then .err p .abortRequest
      else if head.rtype == RT.beginRequest && head.requestId != reqId then
        let er := EndRequest.toRecord { appStatus := 0, protocolStatus := 1 } head.requestId
        go { p with output := p.output ++ er } { res with output := res.output + er.length } .skip
      else if head.rtype == RT.getValues && head.isManagement then go p res (.values 0)
      else go p res .skip
    | _ => .err p .protocol
  | _ => .stop p res

/-- One iteration of the `while raw_start < free_start` loop body. -/
def iter (p : Parser) (dest : Option Nat) (res : Status) : Iter :=
  let afterPayload : Iter := if p.pay > 0 then parsePayload p dest res else .cont p dest res
  match afterPayload with
  | .cont p dest res =>
    if p.pad > 0 then
      let rawLen := p.raw.length
      if rawLen ≤ p.pad then .stop { p with raw := [], g1 := p.g1 + rawLen, pad := p.pad - rawLen } res
      else parseHead { p with raw := p.raw.drop p.pad, g1 := p.g1 + p.pad, pad := 0 } dest res
    else parseHead p dest res
  | r => r

inductive ParseRes
  | ok (s : Status)
  | err (e : PErr)
  | panic (site : String)
deriving Repr, DecidableEq

/-- The loop; guarded by the strictly decreasing `raw` length. -/
def loop (p : Parser) (dest : Option Nat) (res : Status) : Parser × ParseRes :=
  if p.raw.isEmpty then (p, .ok res)
  else
    match iter p dest res with
    | .stop p' res' => (p', .ok res')
    | .err p' e => (p', .err e)
    | .panic s => (p, .panic s)
    | .cont p' dest' res' =>
      if p'.raw.length < p.raw.length then loop p' dest' res'
      else (p', .panic "model: parse loop made no progress")
termination_by p.raw.length

/-- `Parser::parse(new_input, dest)`; the caller wrote `new` into `input_buffer()`; `dest` is the
length of the destination slice (`none` = internal buffer). -/
def Parser.parse (p : Parser) (new : Bytes) (dest : Option Nat) : Parser × ParseRes :=
  -- panic-site: stream.rs:335 assert!(dest.is_none() || parsed_start == gap_start)
  if dest.isSome && !p.parsed.isEmpty then (p, .panic "stream.rs:335 stream_buffer must be fully consumed")
  -- panic-site: stream.rs:339 assert!(new_input <= buffer.len() - free_start)
  else if new.length > p.cap - p.freeStart ∨ p.freeStart > p.cap then (p, .panic "stream.rs:339 new_input exceeds input_buffer")
  else
    loop { p with raw := p.raw ++ new } dest
      { stream := 0, streamEnd := p.stream.isNone, output := 0, delivered := [] }

/-- `into_input` -/
def Parser.intoInput (p : Parser) : Except PErr Bytes :=
  if !p.isRecordBoundary then .error .interrupted else .ok p.raw

/-- `into_request_parser`; `none` = the `output.is_empty()` assertion panicked. -/
def Parser.intoRequestParser (p : Parser) : Option (Except PErr Req.Parser) :=
  if !p.isRecordBoundary then some (.error .interrupted)
  -- panic-site: stream.rs:552 assert!(self.output.is_empty())
  else if !p.output.isEmpty then none
  else some (.ok (Req.Parser.fromParser p.cap p.raw p.maxConns))

end Fcgi.Str

namespace Fcgi.Req
/-- `request::Parser::into_stream_parser` -/
def Parser.intoStreamParser (p : Parser) : Except PErr Str.Parser :=
  match p.state with
  | .done r => .ok (Str.Parser.fromParser p.cap r p.input p.maxConns)
  | .fatal e => .error e
  | _ => .error .interrupted
end Fcgi.Req
