import Fcgi.Model.Bytes
/-!
# `CompactString::from_utf8_lossy` (external crate `compact_str` 0.9, modelled; trusted base)

Maximal-subpart replacement: a lead byte followed by as many valid continuation bytes as match is
kept if complete, otherwise the bytes consumed so far become one U+FFFD and decoding resumes at the
first byte that did not match.  Theorems are parametric in this function; it is only executed.
-/
namespace Fcgi

def replacement : Bytes := [0xEF, 0xBF, 0xBD]

def inRange (b : UInt8) (lo hi : Nat) : Bool := decide (lo ≤ b.toNat ∧ b.toNat ≤ hi)

/-- range allowed for the 2nd byte after lead `c` of a 3- or 4-byte sequence -/
def secondRange (c : UInt8) : Nat × Nat :=
  if c.toNat == 0xE0 then (0xA0, 0xBF)
  else if c.toNat == 0xED then (0x80, 0x9F)
  else if c.toNat == 0xF0 then (0x90, 0xBF)
  else if c.toNat == 0xF4 then (0x80, 0x8F)
  else (0x80, 0xBF)

def lossy : Bytes → Bytes
  | [] => []
  | c :: r =>
    if c.toNat ≤ 0x7F then c :: lossy r
    else if inRange c 0xC2 0xDF then
      match r with
      | b1 :: r1 => if inRange b1 0x80 0xBF then c :: b1 :: lossy r1 else replacement ++ lossy (b1 :: r1)
      | [] => replacement
    else if inRange c 0xE0 0xEF then
      match r with
      | b1 :: r1 =>
        if inRange b1 (secondRange c).1 (secondRange c).2 then
          match r1 with
          | b2 :: r2 => if inRange b2 0x80 0xBF then c :: b1 :: b2 :: lossy r2 else replacement ++ lossy (b2 :: r2)
          | [] => replacement
        else replacement ++ lossy (b1 :: r1)
      | [] => replacement
    else if inRange c 0xF0 0xF4 then
      match r with
      | b1 :: r1 =>
        if inRange b1 (secondRange c).1 (secondRange c).2 then
          match r1 with
          | b2 :: r2 =>
            if inRange b2 0x80 0xBF then
              match r2 with
              | b3 :: r3 => if inRange b3 0x80 0xBF then c :: b1 :: b2 :: b3 :: lossy r3 else replacement ++ lossy (b3 :: r3)
              | [] => replacement
            else replacement ++ lossy (b2 :: r2)
          | [] => replacement
        else replacement ++ lossy (b1 :: r1)
      | [] => replacement
    else replacement ++ lossy r
termination_by bs => bs.length
decreasing_by all_goals simp_wf <;> omega

end Fcgi
