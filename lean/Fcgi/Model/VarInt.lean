import Fcgi.Model.Bytes
/-!
# `protocol/varint.rs`

`VarInt::read` on a `&[u8]` reader and `VarInt::write`; `TryFrom<u32>` / `TryFrom<usize>`.
`none` from `decode` is the single error `read_exact` can produce on a slice:
`io::ErrorKind::UnexpectedEof`.
-/
namespace Fcgi.VarInt

/-- `VarInt::MAX` = 2³¹ − 1. -/
def maxVal : Nat := 2147483647

/-- `VarInt::read(&mut &[u8])`: the decoded value and the rest of the slice; `none` = `UnexpectedEof`. -/
def decode : Bytes → Option (Nat × Bytes)
  | [] => none
  | b0 :: r =>
    if b0.toNat < 128 then some (b0.toNat, r)          -- `buf[0] & LONG_BIT == 0`
    else match r with
      | b1 :: b2 :: b3 :: r' =>                         -- `buf[0] &= !LONG_BIT; from_be_bytes`
        some ((b0.toNat - 128) * 16777216 + b1.toNat * 65536 + b2.toNat * 256 + b3.toNat, r')
      | _ => none

/-- `VarInt::write` for a value `≤ MAX`: the bytes handed to `write_all`. -/
def encode (v : Nat) : Bytes :=
  if v < 128 then [UInt8.ofNat v]
  else [UInt8.ofNat (128 + v / 16777216), UInt8.ofNat (v / 65536 % 256),
        UInt8.ofNat (v / 256 % 256), UInt8.ofNat (v % 256)]

/-- `VarInt::try_from(u32)`: `some v` iff accepted. Argument is the `u32` value. -/
def tryFromU32 (x : Nat) : Option Nat := if x > maxVal then none else some x

/-- `VarInt::try_from(usize)` (64-bit): first `u32::try_from`, then the range check. -/
def tryFromUsize (x : Nat) : Option Nat :=
  if x < 4294967296 then tryFromU32 x else none

end Fcgi.VarInt
