import Fcgi.Model.Bytes
/-!
# `protocol/mod.rs`, `protocol/fields.rs`, `protocol/body.rs`

Record header, the field enums (as their discriminants), fixed bodies, whole-record encoders,
`ExitStatus → EndRequest`, `make_request_epilogue`.
-/
namespace Fcgi

/-- `fcgi::Error` variants that header/body decoding can produce. -/
inductive ProtoErr
  | unknownVersion (v : UInt8)
  | unknownRecordType (t : UInt8)
  | unknownRole (r : Nat)
  | unknownStatus (s : UInt8)
deriving Repr, DecidableEq

-- Record types by discriminant (`RecordType`).
namespace RT
def beginRequest : Nat := 1
def abortRequest : Nat := 2
def endRequest : Nat := 3
def params : Nat := 4
def stdin : Nat := 5
def stdout : Nat := 6
def stderr : Nat := 7
def data : Nat := 8
def getValues : Nat := 9
def getValuesResult : Nat := 10
def unknown : Nat := 11
/-- `RecordType::try_from(u8)` succeeds -/
def valid (t : Nat) : Bool := decide (1 ≤ t ∧ t ≤ 11)
def isManagement (t : Nat) : Bool := t == 9 || t == 10 || t == 11
def isInputStream (t : Nat) : Bool := t == 5 || t == 8
def isOutputStream (t : Nat) : Bool := t == 6 || t == 7
end RT

/-- A decoded `RecordHeader` (`version` is always `V1 = 1` for a decoded header). -/
structure RecordHeader where
  rtype : Nat
  requestId : Nat
  contentLength : Nat
  paddingLength : Nat
deriving Repr, DecidableEq

namespace RecordHeader

/-- `RecordHeader::from_bytes` on the first 8 bytes; `none` if fewer than 8 bytes are given.
Version is checked first, then the record type. -/
def fromBytes : Bytes → Option (Except ProtoErr RecordHeader)
  | b0 :: b1 :: b2 :: b3 :: b4 :: b5 :: b6 :: _b7 :: _ =>
    if b0.toNat ≠ 1 then some (.error (.unknownVersion b0))
    else if !RT.valid b1.toNat then some (.error (.unknownRecordType b1))
    else some (.ok { rtype := b1.toNat, requestId := be16 b2 b3, contentLength := be16 b4 b5,
                     paddingLength := b6.toNat })
  | _ => none

/-- `RecordHeader::to_bytes` (version V1, reserved byte 0). -/
def toBytes (h : RecordHeader) : Bytes :=
  [1, UInt8.ofNat h.rtype] ++ toBe16 h.requestId ++ toBe16 h.contentLength ++ [UInt8.ofNat h.paddingLength, 0]

/-- `RecordHeader::new` -/
def new (rtype id : Nat) : RecordHeader := { rtype, requestId := id, contentLength := 0, paddingLength := 0 }

/-- The padding chosen by `RecordHeader::set_lengths`. -/
def autoPadding (c : Nat) : Nat := if c % 8 > 0 then 8 - c % 8 else 0

/-- `RecordHeader::set_lengths` -/
def setLengths (h : RecordHeader) (c : Nat) : RecordHeader :=
  { h with contentLength := c, paddingLength := autoPadding c }

/-- `RecordHeader::is_management` -/
def isManagement (h : RecordHeader) : Bool := RT.isManagement h.rtype && h.requestId == 0

end RecordHeader

/-- `Role::try_from(u16)` succeeds -/
def roleValid (r : Nat) : Bool := decide (1 ≤ r ∧ r ≤ 3)

structure BeginRequest where
  role : Nat
  flags : UInt8
deriving Repr, DecidableEq

namespace BeginRequest
/-- `BeginRequest::from_bytes` (8 bytes): unknown role is the only error; flags are retained as is. -/
def fromBytes : Bytes → Option (Except ProtoErr BeginRequest)
  | d0 :: d1 :: d2 :: _ :: _ :: _ :: _ :: _ :: _ =>
    if !roleValid (be16 d0 d1) then some (.error (.unknownRole (be16 d0 d1)))
    else some (.ok { role := be16 d0 d1, flags := d2 })
  | _ => none
def toBytes (b : BeginRequest) : Bytes := toBe16 b.role ++ [b.flags, 0, 0, 0, 0, 0]
def toRecord (b : BeginRequest) (id : Nat) : Bytes :=
  RecordHeader.toBytes { rtype := RT.beginRequest, requestId := id, contentLength := 8, paddingLength := 0 } ++ b.toBytes
end BeginRequest

structure EndRequest where
  appStatus : Nat
  protocolStatus : Nat
deriving Repr, DecidableEq

namespace EndRequest
def statusValid (s : Nat) : Bool := decide (s ≤ 3)
def fromBytes : Bytes → Option (Except ProtoErr EndRequest)
  | d0 :: d1 :: d2 :: d3 :: d4 :: _ :: _ :: _ :: _ =>
    if !statusValid d4.toNat then some (.error (.unknownStatus d4))
    else some (.ok { appStatus := be32 d0 d1 d2 d3, protocolStatus := d4.toNat })
  | _ => none
def toBytes (e : EndRequest) : Bytes := toBe32 e.appStatus ++ [UInt8.ofNat e.protocolStatus, 0, 0, 0]
def toRecord (e : EndRequest) (id : Nat) : Bytes :=
  RecordHeader.toBytes { rtype := RT.endRequest, requestId := id, contentLength := 8, paddingLength := 0 } ++ e.toBytes
end EndRequest

namespace UnknownType
def fromBytes : Bytes → Option UInt8
  | d0 :: _ :: _ :: _ :: _ :: _ :: _ :: _ :: _ => some d0
  | _ => none
def toBytes (t : UInt8) : Bytes := [t, 0, 0, 0, 0, 0, 0, 0]
def toRecord (t : UInt8) (id : Nat) : Bytes :=
  RecordHeader.toBytes { rtype := RT.unknown, requestId := id, contentLength := 8, paddingLength := 0 } ++ toBytes t
end UnknownType

/-- `crate::ExitStatus` -/
inductive ExitStatus
  | complete (code : Nat)
  | overloaded
  | unknownRole
deriving Repr, DecidableEq

/-- `impl From<ExitStatus> for EndRequest` -/
def ExitStatus.toEndRequest : ExitStatus → EndRequest
  | .complete c => { appStatus := c, protocolStatus := 0 }
  | .overloaded => { appStatus := 0, protocolStatus := 2 }
  | .unknownRole => { appStatus := 0, protocolStatus := 3 }

/-- `ExitStatus::ABORT` = `Complete(u32::from_be_bytes(*b"ABRT"))` -/
def ExitStatus.abort : ExitStatus := .complete 1094865492

/-- `make_request_epilogue` -/
def makeRequestEpilogue (id : Nat) (status : ExitStatus) (streams : List Nat) : Bytes :=
  streams.flatMap (fun s => (RecordHeader.new s id).toBytes) ++ status.toEndRequest.toRecord id

/-! ## Roles and stream order (`Role::{input_streams, next_input_stream, output_streams}`) -/

def inputStreams (role : Nat) : List Nat :=
  if role == 1 then [RT.stdin] else if role == 3 then [RT.stdin, RT.data] else []

def outputStreams (_role : Nat) : List Nat := [RT.stdout, RT.stderr]

def nextInputStream (role : Nat) (cur : Option Nat) : Option Nat :=
  match cur with
  | none => if role == 1 || role == 3 then some RT.stdin else none
  | some c => if role == 3 && c == RT.stdin then some RT.data else none

end Fcgi
