import Fcgi.Model.Sink
/-!
# `cgi/response.rs`
`StatusCode::canonical_reason` is an external (the `http` crate): the reason is a parameter.
-/
namespace Fcgi.Response

def location : Bytes := "Location: ".toUTF8.toList
def customReason : Bytes := "Custom".toUTF8.toList

/-- `simple_redirect(w, loc)` -/
def simpleRedirect (w : Sink) (loc : Bytes) : Sink × Option Nat :=
  match w.writeAlls [location, loc, [10, 10]] with
  | (w', true) => (w', some (location.length + 2 + loc.length))
  | (w', false) => (w', none)

/-- three ASCII digits of a status code in 100..999 (`StatusCode::as_str`) -/
def digits3 (code : Nat) : Bytes :=
  [UInt8.ofNat (48 + code / 100), UInt8.ofNat (48 + code / 10 % 10), UInt8.ofNat (48 + code % 10)]

/-- `"Status: " ++ code ++ " "` (the `sbuf` template with the code copied in) -/
def statusBuf (code : Nat) : Bytes := "Status: ".toUTF8.toList ++ digits3 code ++ [32]

/-- the `write_all` calls for the header lines, in order -/
def headerWrites : List (Bytes × Bytes) → List Bytes
  | [] => []
  | (n, v) :: r => [10] :: n :: [58, 32] :: v :: headerWrites r

def headersCount : List (Bytes × Bytes) → Nat
  | [] => 0
  | (n, v) :: r => n.length + v.length + 3 + headersCount r

/-- `write_headers(w, status, headers)`; `reason` = `canonical_reason()` of the status. -/
def writeHeaders (w : Sink) (code : Nat) (reason : Option Bytes) (headers : List (Bytes × Bytes)) : Sink × Option Nat :=
  let r := reason.getD customReason
  match w.writeAlls ([statusBuf code, r] ++ headerWrites headers ++ [[10, 10]]) with
  | (w', true) => (w', some ((statusBuf code).length + r.length + headersCount headers + 2))
  | (w', false) => (w', none)

end Fcgi.Response
