import Fcgi.Model.Bytes
/-!
# `std::io::Write` targets used by the crate's encoders

Modelled external (trusted base): `Vec<u8>` / `SmallVec` append without bound and never fail;
`&mut [u8]` copies `min(len, remaining)` bytes per `write` and `write_all` fails with
`WriteZero` when not everything fits (the bytes that did fit stay written).
-/
namespace Fcgi

structure Sink where
  /-- remaining capacity; `none` = growable (`Vec<u8>`, `SmallVec`) -/
  cap : Option Nat
  out : Bytes
deriving Repr, DecidableEq

def Sink.vec (pre : Bytes := []) : Sink := { cap := none, out := pre }
def Sink.slice (n : Nat) : Sink := { cap := some n, out := [] }

/-- `Write::write_all`; the flag is `true` on `Ok(())`, `false` on `Err(WriteZero)`. -/
def Sink.writeAll (s : Sink) (d : Bytes) : Sink × Bool :=
  match s.cap with
  | none => ({ s with out := s.out ++ d }, true)
  | some c =>
    if d.length ≤ c then ({ cap := some (c - d.length), out := s.out ++ d }, true)
    else ({ cap := some 0, out := s.out ++ d.take c }, false)

/-- A sequence of `w.write_all(x)?;` statements: stops at the first failure. -/
def Sink.writeAlls (s : Sink) : List Bytes → Sink × Bool
  | [] => (s, true)
  | d :: ds =>
    match s.writeAll d with
    | (s', true) => s'.writeAlls ds
    | (s', false) => (s', false)

end Fcgi
