import Fcgi.Proofs.StrHostile
/-!
# Operation histories against the reference (`ops_ref`), drained states (C03, stream half)

* `Rem E p fut` — the reference on what is still to come (`p.raw ++ fut` from `p`'s control state);
* `ops_ref` — over any legal history without `set_stream`: the available stream bytes, the replies
  queued, the verdict and the unread remainder add up to the reference on everything fed (and to be
  fed); the only slack is `lost`: bytes a call wrote into `dest` before it returned `Err`;
* `err_quiet` — after an `Err` nothing more is delivered or queued;
* `Drained` (a further `parse(0, None)` changes nothing) ↔ `Terminal`; `probe_drained` — what the
  next call reports in a drained state.
-/
namespace Fcgi.Str
open Fcgi Fcgi.Req Fcgi.Spec

/-- The reference on what is still to come: the unconsumed input `p.raw` followed by the bytes `fut`
not yet fed, from `p`'s control state. -/
def Rem (E : Cfg) (p : Parser) (fut : Bytes) : RefOut := ref E p.state p.pay p.pad (p.raw ++ fut)

def isErrRes : ParseRes → Bool
  | .err _ => true
  | _ => false

def firstErrInternalB : Parser → List Op → Bool
  | _, [] => true
  | p, .parse new dest :: t =>
    if isErrRes (p.parse new dest).2 then dest.isNone else firstErrInternalB (p.parse new dest).1 t
  | p, op :: t => firstErrInternalB (applyOp p op) t

/-- The first `parse` call that returns `Err` — if there is one — is a call into the internal
buffer (`dest = None`).  (Later calls all return the same `Err` and deliver nothing.) -/
def FirstErrInternal (p : Parser) (ops : List Op) : Prop := firstErrInternalB p ops = true

instance (p : Parser) (ops : List Op) : Decidable (FirstErrInternal p ops) :=
  inferInstanceAs (Decidable (_ = true))

/-- No `parse` call returns `Err`. -/
def ErrFree : Parser → List Op → Prop
  | _, [] => True
  | p, op :: t =>
    (match op with
     | .parse new dest => ∀ e, (p.parse new dest).2 ≠ .err e
     | _ => True) ∧ ErrFree (applyOp p op) t

/-! Decidability (for `decide +kernel` on concrete histories). -/

theorem notErr_iff (r : ParseRes) : (∀ e, r ≠ .err e) ↔ isErrRes r = false := by
  cases r with
  | ok st => simp [isErrRes]
  | err e => simp [isErrRes]
  | panic s => simp [isErrRes]

instance decNotErr (r : ParseRes) : Decidable (∀ e, r ≠ .err e) :=
  decidable_of_iff _ (notErr_iff r).symm

instance decErrFreeHead (p : Parser) : (op : Op) →
    Decidable (match op with
      | .parse new dest => ∀ e, (p.parse new dest).2 ≠ .err e
      | _ => True)
  | .parse new dest => inferInstanceAs (Decidable (∀ e, (p.parse new dest).2 ≠ .err e))
  | .consumeStream _ => isTrue trivial
  | .compress => isTrue trivial
  | .consumeOutput _ => isTrue trivial
  | .setStream _ => isTrue trivial

instance decErrFree : (p : Parser) → (ops : List Op) → Decidable (ErrFree p ops)
  | _, [] => isTrue trivial
  | p, op :: t => @instDecidableAnd _ _ (decErrFreeHead p op) (decErrFree (applyOp p op) t)

theorem ErrFree.firstErrInternal : ∀ {p : Parser} {ops : List Op}, ErrFree p ops →
    FirstErrInternal p ops := by
  intro p ops
  induction ops generalizing p with
  | nil => intro _; rfl
  | cons op t ih =>
    rintro ⟨h1, h2⟩
    have ih' := ih h2
    unfold FirstErrInternal at ih' ⊢
    cases op with
    | parse new dest =>
      simp only [firstErrInternalB]
      have : isErrRes (p.parse new dest).2 = false := (notErr_iff _).1 h1
      rw [this]
      exact ih'
    | consumeStream amt => exact ih'
    | compress => exact ih'
    | consumeOutput amt => exact ih'
    | setStream s => exact ih'

/-! ## After an `Err`: silence -/

/-- In an error state no operation delivers stream bytes or queues replies. -/
theorem err_quiet {e : PErr} : ∀ {t : List Op} {q : Parser}, C03S.ErrState q e → LegalAll q t →
    availOps q t = [] ∧ C03S.grownAll q t = [] ∧ deliveredOps q t = [] := by
  intro t
  induction t with
  | nil => intro q _ _; exact ⟨rfl, rfl, rfl⟩
  | cons op t ih =>
    intro q h hl
    obtain ⟨a1, a2, a3⟩ := ih (C03S.err_state_op h hl.1) hl.2
    simp only [availOps, C03S.grownAll, deliveredOps, a1, a2, a3, List.append_nil]
    cases op with
    | parse new dest =>
      have hp := (C03S.err_state_parse h new dest hl.1.1 hl.1.2).1
      refine ⟨?_, ?_, ?_⟩
      · cases dest with
        | none => simp only [availOp, hp, Parser.feed, List.drop_length]
        | some n => simp only [availOp, hp]
      · simp only [C03S.outGrowth, hp, Parser.feed, List.drop_length]
      · simp only [deliveredOp, hp]
    | consumeStream amt => exact ⟨rfl, rfl, rfl⟩
    | compress => exact ⟨rfl, rfl, rfl⟩
    | consumeOutput amt => exact ⟨rfl, rfl, rfl⟩
    | setStream s => exact ⟨rfl, rfl, rfl⟩

/-- The reported bytes are a prefix of the available ones (they differ by what calls that returned
`Err` appended to the internal buffer). -/
theorem delivered_le_avail : ∀ {ops : List Op} {p : Parser}, SInv p → LegalAll p ops →
    deliveredOps p ops <+: availOps p ops := by
  intro ops
  induction ops with
  | nil => intro p _ _; exact List.prefix_refl _
  | cons op t ih =>
    intro p hinv hl
    have hinv' := (step_safe hinv hl.1).1
    have ih' := ih hinv' hl.2
    simp only [deliveredOps, availOps]
    cases op with
    | parse new dest =>
      cases hp : p.parse new dest with
      | mk p' pr =>
        cases pr with
        | ok st =>
          have : deliveredOp p (.parse new dest) = availOp p (.parse new dest) := by
            cases dest with
            | none => simp only [deliveredOp, availOp, hp]
            | some n => simp only [deliveredOp, availOp, hp]
          rw [this]
          exact (List.prefix_append_right_inj _).2 ih'
        | err e =>
          have hes := C03S.err_enters hinv hl.1.1 hl.1.2 hp
          have hap : applyOp p (.parse new dest) = p' := by simp [applyOp, hp]
          have hl2 := hl.2
          rw [hap] at hl2 ⊢
          rw [(err_quiet hes hl2).2.2]
          simp only [deliveredOp, hp, List.append_nil]
          exact List.nil_prefix
        | panic s =>
          have := (step_safe hinv hl.1).2
          exact absurd ⟨s, by rw [hp]⟩ this
    | consumeStream amt => simpa [deliveredOp, availOp] using ih'
    | compress => simpa [deliveredOp, availOp] using ih'
    | consumeOutput amt => simpa [deliveredOp, availOp] using ih'
    | setStream s => simpa [deliveredOp, availOp] using ih'

/-- Without an `Err` the two ledgers coincide. -/
theorem delivered_eq_avail : ∀ {ops : List Op} {p : Parser}, SInv p → LegalAll p ops →
    ErrFree p ops → deliveredOps p ops = availOps p ops := by
  intro ops
  induction ops with
  | nil => intro p _ _ _; rfl
  | cons op t ih =>
    intro p hinv hl hef
    have hinv' := (step_safe hinv hl.1).1
    have ih' := ih hinv' hl.2 hef.2
    simp only [deliveredOps, availOps, ih']
    congr 1
    cases op with
    | parse new dest =>
      have hne := hef.1
      simp only at hne
      cases hp : p.parse new dest with
      | mk p' pr =>
        cases pr with
        | ok st =>
          cases dest with
          | none => simp only [deliveredOp, availOp, hp]
          | some n => simp only [deliveredOp, availOp, hp]
        | err e => exact absurd (by rw [hp]) (hne e)
        | panic s =>
          have := (step_safe hinv hl.1).2
          exact absurd ⟨s, by rw [hp]⟩ this
    | consumeStream amt => rfl
    | compress => rfl
    | consumeOutput amt => rfl
    | setStream s => rfl

/-! ## Operation histories -/

/-- Every `set_stream` call of the history names a stream that is not strictly later than the
active one `E.s` (so it is a no-op — the active stream itself — or is rejected with
`SequenceError`): the active stream does not change. -/
def NoSwitch (E : Cfg) (ops : List Op) : Prop :=
  ∀ st, Op.setStream st ∈ ops → ∃ s', st = some s' ∧ ¬ Later E.role (some E.s) s'

theorem noSwitch_of_noSet {E : Cfg} {ops : List Op} (h : NoSet ops) : NoSwitch E ops :=
  fun st hm => absurd hm (h st)

/-- A legal `set_stream(Some(s'))` with `s'` not later than the active stream leaves the parser
as it is. -/
theorem applyOp_setStream_noSwitch {E : Cfg} {p : Parser} (hm : Match E p) {s' : Nat}
    (hl : Legal p (.setStream (some s'))) (hnl : ¬ Later E.role (some E.s) s') :
    applyOp p (.setStream (some s')) = p := by
  have hcur : ∀ e, p.stream = some e → RT.isInputStream e = true := by
    intro e he
    rw [hm.strm] at he; cases he
    exact mem_inputStreams_isInput hm.mem
  simp only [applyOp]
  rw [setStream_some_input p hl hcur, hm.strm, hm.role, if_neg hnl]
  by_cases h : some E.s = some s'
  · rw [if_pos h]
  · rw [if_neg h]

/-- **The reference over a legal operation history** (any interleaving of `parse` with any `dest`
and any new input, `consume_stream`, `compress`, `consume_output`, and `set_stream` calls that do
not change the active stream).  `x` = bytes never fed. -/
theorem ops_refS {E : Cfg} {x : Bytes} : ∀ (ops : List Op) (p : Parser),
    Match E p → SInv p → LegalAll p ops → NoSwitch E ops →
    ∃ lost, Match E (applyOps p ops) ∧ SInv (applyOps p ops) ∧
      availOps p ops ++ lost ++ (Rem E (applyOps p ops) x).content =
        (Rem E p (fedBytes ops ++ x)).content ∧
      C03S.grownAll p ops ++ (Rem E (applyOps p ops) x).out = (Rem E p (fedBytes ops ++ x)).out ∧
      (Rem E (applyOps p ops) x).verdict = (Rem E p (fedBytes ops ++ x)).verdict ∧
      (Rem E (applyOps p ops) x).unread = (Rem E p (fedBytes ops ++ x)).unread ∧
      (FirstErrInternal p ops → lost = []) := by
  intro ops
  induction ops with
  | nil =>
    intro p hm hinv _ _
    exact ⟨[], hm, hinv, by simp [availOps, fedBytes], by simp [C03S.grownAll, fedBytes],
      by simp [fedBytes], by simp [fedBytes], fun _ => rfl⟩
  | cons op t ih =>
    intro p hm hinv hl hns
    obtain ⟨hl1, hl2⟩ := hl
    have hns' : NoSwitch E t := fun s hm => hns s (List.mem_cons_of_mem _ hm)
    have hinv' := (step_safe hinv hl1).1
    have keep : ∀ (op' : Op), op = op' → fedBytes (op' :: t) = fedBytes t →
        availOp p op' = [] → C03S.outGrowth p op' = [] →
        (applyOp p op').request = p.request → (applyOp p op').stream = p.stream →
        (applyOp p op').maxConns = p.maxConns → (applyOp p op').raw = p.raw →
        (applyOp p op').pay = p.pay → (applyOp p op').pad = p.pad →
        (applyOp p op').state = p.state → (match op' with | .parse _ _ => False | _ => True) →
        ∃ lost, Match E (applyOps p (op :: t)) ∧ SInv (applyOps p (op :: t)) ∧
          availOps p (op :: t) ++ lost ++ (Rem E (applyOps p (op :: t)) x).content =
            (Rem E p (fedBytes (op :: t) ++ x)).content ∧
          C03S.grownAll p (op :: t) ++ (Rem E (applyOps p (op :: t)) x).out =
            (Rem E p (fedBytes (op :: t) ++ x)).out ∧
          (Rem E (applyOps p (op :: t)) x).verdict = (Rem E p (fedBytes (op :: t) ++ x)).verdict ∧
          (Rem E (applyOps p (op :: t)) x).unread = (Rem E p (fedBytes (op :: t) ++ x)).unread ∧
          (FirstErrInternal p (op :: t) → lost = []) := by
      intro op' hop hfed hav hgr e1 e2 e3 e4 e5 e6 e7 hnp
      subst hop
      obtain ⟨lost, a1, a2, a3, a4, a5, a6, a7⟩ := ih (applyOp p op) (hm.of_eq e1 e2 e3) hinv' hl2 hns'
      have hrem : Rem E (applyOp p op) (fedBytes t ++ x) = Rem E p (fedBytes (op :: t) ++ x) := by
        simp only [Rem, e4, e5, e6, e7, hfed]
      rw [hrem] at a3 a4 a5 a6
      refine ⟨lost, a1, a2, ?_, ?_, a5, a6, fun h => a7 ?_⟩
      · simp only [availOps, hav, List.nil_append]; exact a3
      · simp only [C03S.grownAll, hgr, List.nil_append]; exact a4
      · cases op <;> first | exact hnp.elim | exact h
    cases op with
    | parse new dest =>
      obtain ⟨lost1, m1, c1, o1, v1, u1, dn1, mt1⟩ :=
        parse_ri (E := E) (fut := fedBytes t ++ x) hm hinv hl1.1 hl1.2
      have hap : applyOp p (.parse new dest) = (p.parse new dest).1 := rfl
      rw [hap] at hl2 hinv'
      obtain ⟨lost2, m2, i2, c2, o2, v2, u2, n2⟩ := ih (p.parse new dest).1 m1 hinv' hl2 hns'
      have hfed : fedBytes (.parse new dest :: t) ++ x = new ++ (fedBytes t ++ x) := by
        simp only [fedBytes, List.append_assoc]
      simp only [applyOps_cons, hap, Rem, hfed] at c2 o2 v2 u2 ⊢
      refine ⟨lost1 ++ lost2, m2, i2, ?_, ?_, v2.trans v1, u2.trans u1, ?_⟩
      · rw [← c1, ← c2]
        by_cases hl0 : lost1 = []
        · subst hl0
          simp only [availOps, hap, List.append_assoc, List.nil_append, List.append_nil]
        · -- the call failed: nothing is delivered afterwards
          have hq : availOps (p.parse new dest).1 t = [] := by
            cases hp : p.parse new dest with
            | mk p' pr =>
              rw [hp] at mt1 hl2
              simp only at mt1 hl2 ⊢
              cases pr with
              | ok st => exact absurd mt1.1 hl0
              | panic s => exact mt1.elim
              | err e =>
                exact (err_quiet (C03S.err_enters hinv hl1.1 hl1.2 hp) hl2).1
          simp only [availOps, hap, hq, List.append_assoc, List.nil_append, List.append_nil]
      · rw [← o1, ← o2]
        simp only [C03S.grownAll, hap, List.append_assoc]
      · intro hn
        unfold FirstErrInternal at hn n2
        simp only [firstErrInternalB] at hn
        cases hp : p.parse new dest with
        | mk p' pr =>
          rw [hp] at mt1 hn n2 c2
          simp only at mt1 hn n2 c2
          cases pr with
          | ok st =>
            simp only [isErrRes, Bool.false_eq_true, if_false] at hn
            rw [mt1.1, n2 hn]; rfl
          | panic s => exact mt1.elim
          | err e =>
            simp only [isErrRes, if_true, Option.isNone_iff_eq_none] at hn
            rw [(dn1 hn).1, List.nil_append]
            obtain ⟨a, b, c⟩ := mt1
            rw [a, b, ref_atStop c] at c2
            simp only [List.append_eq_nil_iff] at c2
            exact c2.1.2
    | consumeStream amt =>
      exact keep _ rfl rfl rfl rfl rfl rfl rfl rfl rfl rfl rfl trivial
    | compress => exact keep _ rfl rfl rfl rfl rfl rfl rfl rfl rfl rfl rfl trivial
    | consumeOutput amt => exact keep _ rfl rfl rfl rfl rfl rfl rfl rfl rfl rfl rfl trivial
    | setStream st =>
      obtain ⟨s', rfl, hnl⟩ := hns st List.mem_cons_self
      have happ := applyOp_setStream_noSwitch hm hl1 hnl
      exact keep _ rfl rfl rfl rfl (by rw [happ]) (by rw [happ]) (by rw [happ]) (by rw [happ])
        (by rw [happ]) (by rw [happ]) (by rw [happ]) trivial

/-- `ops_refS` for histories without `set_stream`. -/
theorem ops_ref {E : Cfg} {x : Bytes} (ops : List Op) (p : Parser)
    (hm : Match E p) (hinv : SInv p) (hl : LegalAll p ops) (hns : NoSet ops) :
    ∃ lost, Match E (applyOps p ops) ∧ SInv (applyOps p ops) ∧
      availOps p ops ++ lost ++ (Rem E (applyOps p ops) x).content =
        (Rem E p (fedBytes ops ++ x)).content ∧
      C03S.grownAll p ops ++ (Rem E (applyOps p ops) x).out = (Rem E p (fedBytes ops ++ x)).out ∧
      (Rem E (applyOps p ops) x).verdict = (Rem E p (fedBytes ops ++ x)).verdict ∧
      (Rem E (applyOps p ops) x).unread = (Rem E p (fedBytes ops ++ x)).unread ∧
      (FirstErrInternal p ops → lost = []) :=
  ops_refS ops p hm hinv hl (noSwitch_of_noSet hns)

/-! ## Drained states -/

/-- A further `parse(0, None)` changes nothing: everything that can be processed without new input
has been processed. -/
def Drained (p : Parser) : Prop := (p.parse [] none).1 = p

instance (p : Parser) : Decidable (Drained p) := inferInstanceAs (Decidable (_ = _))

theorem drained_terminal {E : Cfg} {p : Parser} (hm : Match E p) (hinv : SInv p) (h : Drained p) :
    Terminal E p := by
  obtain ⟨lost, -, -, -, -, -, dn, -⟩ :=
    parse_ri (E := E) (fut := []) (new := []) (dest := none) hm hinv (Or.inl rfl) (by simp)
  have := (dn rfl).2
  rwa [h] at this

/-- After any legal `parse(_, None)` the parser is terminal. -/
theorem parse_none_terminal {E : Cfg} {p : Parser} (hm : Match E p) (hinv : SInv p) (new : Bytes)
    (hfree : new.length ≤ p.free) : Terminal E (p.parse new none).1 := by
  obtain ⟨lost, -, -, -, -, -, dn, -⟩ :=
    parse_ri (E := E) (fut := []) (new := new) (dest := none) hm hinv (Or.inl rfl) hfree
  exact (dn rfl).2

/-- What a `parse` call reports in a drained state with verdict `v`. -/
def verdictRes : Verdict → ParseRes
  | .more => .ok { stream := 0, streamEnd := false, output := 0, delivered := [] }
  | .eos => .ok { stream := 0, streamEnd := true, output := 0, delivered := [] }
  | .err e => .err e

theorem atStop_eos_held {E : Cfg} {p : Parser} (hm : Match E p) (h : AtStopHdr E p.raw .eos) :
    HeldBack p := by
  obtain ⟨b0, b1, b2, b3, b4, b5, b6, b7, rest, hraw, hc⟩ := h
  have := parseHead_hclass hm hraw none (initStatus p)
  rwa [hc] at this

theorem atStop_err_headErr {E : Cfg} {p : Parser} {e : PErr} (hm : Match E p)
    (h : AtStopHdr E p.raw (.err e)) : headErr p.raw p.request.id = some e := by
  obtain ⟨b0, b1, b2, b3, b4, b5, b6, b7, rest, hraw, hc⟩ := h
  have := parseHead_hclass hm hraw none (initStatus p)
  rwa [hc] at this

theorem atStop_ne_more {E : Cfg} {p : Parser} (hm : Match E p) (h : AtStopHdr E p.raw .more) :
    False := by
  obtain ⟨b0, b1, b2, b3, b4, b5, b6, b7, rest, hraw, hc⟩ := h
  have := parseHead_hclass hm hraw none (initStatus p)
  rwa [hc] at this

/-- **The probing call.**  In a drained state whose reference verdict is `v`, `parse(0, None)`
returns exactly `verdictRes v`: the same fatal error again, `stream_end` again, or an empty
`Status`. -/
theorem probe_drained {E : Cfg} {p : Parser} (hm : Match E p) (hinv : SInv p) (hdr : Drained p)
    {v : Verdict} (hv : Terminal.verdictIs E p v) : (p.parse [] none).2 = verdictRes v := by
  rcases hv with ⟨hat, h1, h2⟩ | ⟨rfl, hno⟩
  · cases v with
    | more => exact (atStop_ne_more hm hat).elim
    | eos =>
      have hb : p.isRecordBoundary = true := by simp [Parser.isRecordBoundary, h1, h2]
      rw [held_repeat hb (atStop_eos_held hm hat) none hinv.1 (Or.inl rfl)]
      rfl
    | err e =>
      rw [err_repeat h1 h2 (atStop_err_headErr hm hat) [] none hinv.1 (Or.inl rfl) (by simp)]
      rfl
  · obtain ⟨lost, -, -, -, -, -, -, mt⟩ :=
      parse_ri (E := E) (fut := []) (new := []) (dest := none) hm hinv (Or.inl rfl) (by simp)
    cases hp : p.parse [] none with
    | mk p' pr =>
      have hpp : p' = p := by have := hdr; unfold Drained at this; rw [hp] at this; exact this
      subst hpp
      rw [hp] at mt
      simp only at mt ⊢
      cases pr with
      | panic s => exact mt.elim
      | err e => exact absurd ⟨mt.1, mt.2.1, _, mt.2.2⟩ hno
      | ok st =>
        have hse : st.streamEnd = false := by
          cases hs : st.streamEnd with
          | false => rfl
          | true =>
            obtain ⟨a, b, c⟩ := mt.2 hs
            exact absurd ⟨a, b, _, c⟩ hno
        obtain ⟨⟨o, ho, hol⟩, hn, -, -⟩ := C03S.counts_exact hinv.1 (Or.inl rfl) (by simp) hp
        obtain ⟨d, hd, hdl, hdel⟩ := hn rfl
        have ho0 : o = [] := List.self_eq_append_right.1 ho
        have hd0 : d = [] := List.self_eq_append_right.1 hd
        subst ho0 hd0
        cases st
        simp only [verdictRes] at hse hol hdl hdel ⊢
        simp only [List.length_nil] at hol hdl
        subst hse hol hdl hdel
        rfl


/-! ## `Terminal` states are drained -/

theorem extend_nil (v : Nat) : Vars.extend v [] = v := rfl

/-- Conversely, in a terminal state `parse(0, None)` changes nothing. -/
theorem terminal_drained {E : Cfg} {p : Parser} (hm : Match E p) (hinv : SInv p)
    (h : Terminal E p) : Drained p := by
  unfold Drained
  by_cases hemp : p.raw = []
  · rw [parse_eq_loop p [] none hinv.1 (Or.inl rfl) (by simp), Parser.feed_nil, loop]
    simp [hemp]
  have hne : p.raw.isEmpty = false := by
    cases hr : p.raw with
    | nil => exact absurd hr hemp
    | cons a t => rfl
  rcases h with h | ⟨h1, h2, h3 | ⟨v, hv⟩⟩ | ⟨v, h1, h2, h3⟩
  · exact absurd h hemp
  · rw [parse_eq_loop p [] none hinv.1 (Or.inl rfl) (by simp), Parser.feed_nil, loop]
    have hit : iter p none (initStatus p) = .stop p (initStatus p) := by
      unfold iter
      have a1 : ¬ p.pay > 0 := by omega
      have a2 : ¬ p.pad > 0 := by omega
      simp only [if_neg a1, if_neg a2]
      exact parseHead_short h3 _ _
    simp only [hne, hit]
    rfl
  · cases v with
    | more => exact (atStop_ne_more hm hv).elim
    | eos =>
      have hb : p.isRecordBoundary = true := by simp [Parser.isRecordBoundary, h1, h2]
      rw [held_repeat hb (atStop_eos_held hm hv) none hinv.1 (Or.inl rfl)]
    | err e =>
      rw [err_repeat h1 h2 (atStop_err_headErr hm hv) [] none hinv.1 (Or.inl rfl) (by simp),
        Parser.feed_nil]
  · rw [parse_eq_loop p [] none hinv.1 (Or.inl rfl) (by simp), Parser.feed_nil, loop]
    have hpay : p.pay > 0 := by omega
    have hmin : min p.pay p.raw.length = p.raw.length := by omega
    have hit : iter p none (initStatus p) = .stop p (initStatus p) := by
      unfold iter
      simp only [if_pos hpay]
      have hpp : parsePayload p none (initStatus p) = .stop p (initStatus p) := by
        unfold parsePayload
        simp only [h1, hmin, List.take_length, nvall_stuck h3, extend_nil, if_pos h2, Nat.sub_self]
        have a1 : ¬ (0 > p.raw.length ∨ 0 > p.pay) := by omega
        simp only [if_neg a1, Nat.sub_zero, List.drop_zero, Nat.add_zero]
        have a2 : (p.pay == 0 && decide (0 < p.raw.length)) = false := by
          have : (p.pay == 0) = false := by rw [beq_eq_false_iff_ne]; omega
          rw [this]; rfl
        simp only [a2, Bool.false_eq_true, if_false]
        congr 1
        cases p
        simp only at h1
        subst h1
        rfl
      rw [hpp]
    simp only [hne, hit]
    rfl

/-- **`Drained` = `Terminal`.** -/
theorem drained_iff_terminal {E : Cfg} {p : Parser} (hm : Match E p) (hinv : SInv p) :
    Drained p ↔ Terminal E p :=
  ⟨drained_terminal hm hinv, terminal_drained hm hinv⟩

/-- In particular: after every legal `parse(_, None)` the parser is drained. -/
theorem parse_none_drained {E : Cfg} {p : Parser} (hm : Match E p) (hinv : SInv p) (new : Bytes)
    (hfree : new.length ≤ p.free) : Drained (p.parse new none).1 := by
  obtain ⟨lost, m1, -, -, -, -, dn, -⟩ :=
    parse_ri (E := E) (fut := []) (new := new) (dest := none) hm hinv (Or.inl rfl) hfree
  have hinv' : SInv (p.parse new none).1 :=
    (step_safe hinv (op := .parse new none) ⟨Or.inl rfl, hfree⟩).1
  exact terminal_drained m1 hinv' (dn rfl).2


/-! ## A failed call is never followed by a successful one -/

/-- If some call of the history returned `Err`, the parser is in an error state at the end. -/
theorem errState_of_not_errFree : ∀ {ops : List Op} {p : Parser}, SInv p → LegalAll p ops →
    ¬ ErrFree p ops → ∃ e, C03S.ErrState (applyOps p ops) e := by
  intro ops
  induction ops with
  | nil => intro p _ _ h; exact absurd trivial h
  | cons op t ih =>
    intro p hinv hl hne
    have hinv' := (step_safe hinv hl.1).1
    cases op with
    | parse new dest =>
      cases hp : p.parse new dest with
      | mk p' pr =>
        cases pr with
        | err e =>
          have hes := C03S.err_enters hinv hl.1.1 hl.1.2 hp
          have hap : applyOp p (.parse new dest) = p' := by simp [applyOp, hp]
          have hl2 := hl.2
          rw [hap] at hl2
          exact ⟨e, by rw [applyOps_cons, hap]; exact C03S.err_sticky_trace hes hl2⟩
        | ok st =>
          exact ih hinv' hl.2 (fun hf => hne ⟨by intro e; rw [hp]; simp, hf⟩)
        | panic s =>
          exact ih hinv' hl.2 (fun hf => hne ⟨by intro e; rw [hp]; simp, hf⟩)
    | consumeStream amt => exact ih hinv' hl.2 (fun hf => hne ⟨trivial, hf⟩)
    | compress => exact ih hinv' hl.2 (fun hf => hne ⟨trivial, hf⟩)
    | consumeOutput amt => exact ih hinv' hl.2 (fun hf => hne ⟨trivial, hf⟩)
    | setStream s => exact ih hinv' hl.2 (fun hf => hne ⟨trivial, hf⟩)

/-- A call that does not return `Err` was preceded by calls that did not either. -/
theorem errFree_of_later_ok {ops : List Op} {p : Parser} (hinv : SInv p) (hl : LegalAll p ops)
    {new : Bytes} {dest : Option Nat} (hd : dest = none ∨ (applyOps p ops).parsed = [])
    (hfree : new.length ≤ (applyOps p ops).free)
    (hok : ∀ e, ((applyOps p ops).parse new dest).2 ≠ .err e) : ErrFree p ops := by
  apply Classical.byContradiction
  intro hne
  obtain ⟨e, hes⟩ := errState_of_not_errFree hinv hl hne
  have := (C03S.err_state_parse hes new dest hd hfree).1
  exact hok e (by rw [this])

end Fcgi.Str
