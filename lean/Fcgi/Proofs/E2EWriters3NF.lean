import Fcgi.Proofs.E2EWriters2NF
/-!
# The Filter two-writer engine with `flush` (`Proofs/E2EWriters3`, `E2EWriters4`) without the model-fuel bound (`…NF`)

`WFOK3.hfu : fcost W + 40 ≤ 1000` and the parameters `hfu` of `hwq_poll3` / `hwf_poll3` are gone (`WFOK3N`); cost lemmas and
`write_phase2N` / `write_phase3NF` from `Proofs/E2EWritersNF`, `E2EWriters2NF`.  Copies by text transformation (suffix `NF`).
-/
namespace Fcgi.E2E
open Fcgi Fcgi.Req Fcgi.Str Fcgi.Async Fcgi.Run Fcgi.Spec Fcgi.C09E

/-- `WFOK3` without the model-fuel bound -/
structure WFOK3N (g : Cfg) (W : FList) : Prop where
  wf : WellFormedPreamble g.p g.recs
  role : g.p.role = 3
  pairs : ∀ q ∈ g.p.pairs, (NV.enc q).length ≤ alignedBufsize g.b
  noise : NoiseFits (alignedBufsize g.b) g.recs
  hb : Body g.p.id 5 g.content g.body
  hb2 : Body g.p.id 8 g.content2 g.body2
  hf : NoiseFits (alignedBufsize g.b) g.body
  hf2 : NoiseFits (alignedBufsize g.b) g.body2
  hp : g.pad.length < 256
  hp2 : g.pad2.length < 256
  hX2 : g.X2 = serAll g.body2 ++ g.term2.ser
  hX : g.X = serAll g.body ++ (g.term.ser ++ g.X2)
  hU : g.U = g.term2.ser
  hOt : g.Ot = owedStream g.p.id 5 g.mc g.body ++ owedStream g.p.id 8 g.mc g.body2
  hs : g.hscript = ffscriptW W g.st

/-- **One poll** with the handler in its `write_all`. -/
theorem hwq_poll3NF {g : Cfg} {W : WList} {Q : Transport → Prop} {S0 : Conn → Prop} (hQ : MonoQ Q)
    {c : Conn} (h : HWq3 g W Q c) : RQ03 g W Q S0 3 c := by
  obtain ⟨r, h, O1, hph, hw, hfin, hO, hseen, hb, hstop, hev, hsc⟩ := h
  have hfuel := handlerFuel_ge c.env r
  have hout := write_phase2N (r := r) hw hb (fuel := (handlerFuel c.env r + scriptOf c)) (by rw [scriptOf_handler hph]; omega)
  exact bwrite_outQ3 hQ (r := r) (e0 := c.env) hph rfl hout (.refl _) rfl hfin hO hseen hb hstop hev hsc

/-- **One poll** with the handler in one of its output ops. -/
theorem hwf_poll3NF {g : Cfg} {W : FList} {Q : Transport → Prop} {S0 : Conn → Prop} (hQ : MonoQ Q)
    (hinj : ∀ c, HWf3 g W Q c → S0 c) {c : Conn} (h : HWf3 g W Q c) (hok : FlOk c.env.tr) :
    RF3 g W Q S0 3 c := by
  obtain ⟨r, h, O1, hph, hw, hfin, hO, hseen, hb, hstop, hev, hsc⟩ := h
  have hfuel := handlerFuel_ge c.env r
  have hout := write_phase3NF (r := r) hw hb hok (fuel := (handlerFuel c.env r + scriptOf c)) (by rw [scriptOf_handler hph]; omega)
  exact bwrite_outF3 hQ hinj (r := r) (e0 := c.env) hph rfl hout (.refl _) (List.suffix_refl _) rfl hfin hO hseen hb hstop hev hsc

theorem WFOK3N.fok {g : Cfg} {W : FList} (ok : WFOK3N g W) : FOK g := ⟨ok.wf, ok.pairs, ok.noise⟩

theorem WFOK3N.hid {g : Cfg} {W : FList} (ok : WFOK3N g W) : g.p.id < 65536 := (pid_of_wf ok.wf).2

/-- the facts about the two streams (from `kokF`, applied to the configuration with the canonical Filter script) -/
theorem WFOK3N.kk {g : Cfg} {W : FList} (ok : WFOK3N g W) : g.K.OK ∧ g.K2.OK ∧ Follows g.K g.K2 := by
  have ok' : ({ g with data := [], hscript := fscript [] g.st, revs := [rEvent g.content, rEvent g.content2] } : Cfg).OK :=
    ⟨ok.wf, ok.pairs, ok.noise, .filterU ok.role ok.hb ok.hb2 ok.hf ok.hf2 ok.hp ok.hp2 ok.hX2 ok.hX ok.hU ok.hOt rfl rfl
      (by show wcost ([] : Bytes).length + 24 ≤ 1000; decide)⟩
  have h := @kokF { g with data := [], hscript := fscript [] g.st, revs := [rEvent g.content, rEvent g.content2] } ok'
    ok.role ok.hb ok.hb2 ok.hf ok.hf2 ok.hp ok.hp2 ok.hX2 ok.hX
  exact h

theorem WFOK3N.front {g : Cfg} {W : FList} (ok : WFOK3N g W) {us : List Rec} (hu : LeftOK (alignedBufsize g.b) us) :
    WFOK3N (g.front us) W :=
  ⟨wf_idle ok.wf us hu.1, ok.role, ok.pairs, noiseFits_app hu.2 ok.noise, ok.hb, ok.hb2, ok.hf, ok.hf2, ok.hp, ok.hp2,
    ok.hX2, ok.hX, ok.hU, ok.hOt, ok.hs⟩

/-- the rest of a poll from the second `readAll` on -/
theorem second_pollFNF {g : Cfg} {W : FList} (ok : WFOK3N g W) {c : Conn} {r0 r : AReq} {H0 : HState} {sub : HSub}
    {e : Run.Env} {f : Nat} {dO : Bytes} (hph : c.phase = .handler r0 H0)
    (heq : handlerPoll (handlerFuel c.env r0 + scriptOf c) r0 H0 c.env =
      handlerPoll f r { ops := .readAll :: otailF W g.st, sub := sub, propagate := true } e)
    (hs : RSt g.K2 g.L1 g.K.O r e.mutex e.tr (accOf sub) dO) (hev1 : rEvent g.content ∈ e.tr.events)
    (hts : TStep c.env.tr e.tr) (hfl : e.tr.fl <:+ c.env.tr.fl) (hsg : e.segs = c.env.segs)
    (hf : 2 * ((g.K2.C.length - (accOf sub).length) / 64) + 2 * e.tr.input.length + fcost W + 14 ≤ f)
    (hb : Ben c.env.tr) (hok : FlOk c.env.tr) (hstop : c.stop = false) (hev : Ev1 g c.env.tr) (hsc : c.scripts = g.more) :
    RFf g W 3 c := by
  obtain ⟨hK1, hK2, hfo⟩ := ok.kk
  have hfin2 : g.K2.final = true := by simp [RCtx.final, hfo.e2, nextInputStream, RT.stdin]
  have hbe := hb.step hts
  rcases readAll_runF hK2 (L := g.L1) (P := g.K.O) (otailF W g.st) [] true
      (2 * ((g.K2.C.length - (accOf sub).length) / 64) + 2 * e.tr.input.length + 2) f r sub e dO 1
      (by omega) (by omega) (fun h => by omega) hbe hs with
    ⟨r', acc', e', dO', d1, d3, d5, d6, d8, d9, dfl⟩ |
    ⟨r', e', f', d1, d2, d3, dl, dm, d4, d5, d6, dw, d8, d9, dfl⟩
  · have hstep := C07.handler_step c r0 H0 hph
    rw [heq, d1] at hstep
    have hstep' : stepConn c = .halt ⟨.handler r' { ops := .readAll :: otailF W g.st, sub := .readAllAcc acc', propagate := true },
        e', c.scripts, c.stop⟩ .pending := hstep
    have ht := hts.trans d6
    exact Or.inl (Or.inl (Or.inl ⟨_, (Halts.now hstep').mono (by omega), ⟨ht.w, d5.trans hsg, rfl⟩,
      Or.inl (Or.inr (Or.inr (Or.inl ⟨r', _, rfl, ⟨rfl, rfl, rfl, dO', d3⟩, d6.mem_events hev1, hb.step ht, hstop,
        hev.step ht, hsc⟩))), d8, by show ans e'.tr < ans c.env.tr; have := hts.ans_le; omega⟩))
  · obtain ⟨G1, hi1⟩ := d3.inv
    obtain ⟨O1, hlog1, hlog2⟩ := d3.log
    have hs1 : TStep e.tr (e'.ev (rEvent g.K2.C)).tr := d9.trans (TStep.ev _ (isHS_rEvent _))
    have hfin : REnd g.N r' (e'.ev (rEvent g.K2.C)).tr.input := by
      have := REnd.of_read hi1 (dw hfin2) dl d4 d5 d6
      have hN : g.K2.ectx = g.N := by simp [RCtx.ectx, Cfg.N, Cfg.K2, ok.hU]
      rw [hN] at this; exact this
    have hreq : r'.sp.request = g.p.request := hi1.req
    have hid2 : r'.sp.request.id = g.p.id := by rw [hreq]; rfl
    have hw := open_phase3 (W := W) (st := g.st) (Lb := g.L1 ++ O1) (r := r') (e := e'.ev (rEvent g.K2.C))
      (dw hfin2) dm (by show (e'.tr.ev _).wlog = _; rw [Transport.ev_wlog, hlog1])
      (hbe.step hs1) (hok.suffix (dfl.trans hfl)) (fuel := f') (by have := d9.tle.input_len; omega)
    rw [hid2] at hw
    have hseen : QR2 g (e'.ev (rEvent g.K2.C)).tr := by
      constructor
      · show rEvent g.content ∈ e'.tr.events ++ [rEvent g.K2.C]
        exact List.mem_append_left _ (d9.mem_events hev1)
      · show rEvent g.content2 ∈ e'.tr.events ++ [rEvent g.K2.C]
        simp [Cfg.K2]
    have hO : O1 ++ r'.sp.output = g.Ot := by
      rw [ok.hOt]; exact hlog2
    exact bwrite_outF3 (qr2_mono g) s0f3_inj (r := r') (e0 := e'.ev (rEvent g.K2.C)) (O1 := O1) hph (heq.trans d1) hw
      (hts.trans hs1) (dfl.trans hfl) (d8.trans hsg) hfin hO hseen hb hstop hev hsc

/-- the rest of a poll from the first `readAll` on -/
theorem first_pollFNF {g : Cfg} {W : FList} (ok : WFOK3N g W) {c : Conn} {r : AReq} {sub : HSub} {dO : Bytes}
    (hph : c.phase = .handler r { ops := .readAll :: .setStream 8 :: .readAll :: otailF W g.st, sub := sub, propagate := true })
    (hs : RSt g.K g.L1 [] r c.env.mutex c.env.tr (accOf sub) dO)
    (hb : Ben c.env.tr) (hok : FlOk c.env.tr) (hstop : c.stop = false) (hev : Ev1 g c.env.tr) (hsc : c.scripts = g.more) :
    RFf g W 3 c := by
  obtain ⟨hK1, hK2, hfo⟩ := ok.kk
  obtain ⟨G0, hi0⟩ := hs.inv
  have hrl := hi0.rem_le hK1
  have hcapr : r.sp.cap = g.cap := hi0.capK
  have hcapK : g.K.cap = g.cap := rfl
  have hcost : fcost W + 8 ≤ scriptOf c := by
    rw [scriptOf_handler hph]
    have := otailF_cost W g.st
    simp only [scriptCost, curCost_readAllN, List.map_cons, List.sum_cons, opCost]
    omega
  have hfuel : g.K.cap / 16 + 3 * c.env.tr.input.length + fcost W + 30 ≤ (handlerFuel c.env r + scriptOf c) := by
    have := handlerFuel_ge' c.env r; rw [hcapr] at this; rw [hcapK]; omega
  rcases readAll_runF hK1 (L := g.L1) (P := []) (.setStream 8 :: .readAll :: otailF W g.st) [] true
      (2 * ((g.K.C.length - (accOf sub).length) / 64) + 2 * c.env.tr.input.length + 2) (handlerFuel c.env r + scriptOf c) r sub c.env dO 1
      (by omega) (by omega) (fun h => by omega) hb hs with
    ⟨r', acc', e', dO', d1, d3, d5, d6, d8, d9, dfl⟩ |
    ⟨r', e', f', d1, d2, d3, dl, dm, d4, d5, d6, dw, d8, d9, dfl⟩
  · have hstep := C07.handler_step c r _ hph
    rw [d1] at hstep
    have hstep' : stepConn c = .halt ⟨.handler r'
        ⟨.readAll :: .setStream 8 :: .readAll :: otailF W g.st, .readAllAcc acc', [], true⟩, e', c.scripts, c.stop⟩
        .pending := hstep
    exact Or.inl (Or.inl (Or.inl ⟨_, (Halts.now hstep').mono (by omega), ⟨d6.w, d5, rfl⟩,
      Or.inl (Or.inr (Or.inl ⟨r', _, rfl, ⟨rfl, rfl, rfl, dO', d3⟩, hb.step d6, hstop, hev.step d6, hsc⟩)), d8, d9⟩))
  · obtain ⟨f2, rfl⟩ : ∃ f2, f' = f2 + 1 := ⟨f' - 1, by omega⟩
    obtain ⟨r2, hset, hlk2, hs2⟩ := switch_stream hfo d3 d4 d5 d6
    have hset' : r'.setStream 8 = some r2 := hset
    have heq2 : handlerPoll (handlerFuel c.env r + scriptOf c) r
        { ops := .readAll :: .setStream 8 :: .readAll :: otailF W g.st, sub := sub, propagate := true } c.env =
        handlerPoll f2 r2 { ops := .readAll :: otailF W g.st, sub := .fresh, propagate := true }
          ((e'.ev (rEvent g.K.C)).ev "s=ok") := by
      rw [d1, hp_setStream, hset']
    have hs1 : TStep c.env.tr ((e'.ev (rEvent g.K.C)).ev "s=ok").tr :=
      (d9.trans (TStep.ev _ (isHS_rEvent _))).trans (TStep.ev _ (by decide))
    have hinle := d9.tle.input_len
    obtain ⟨G2, hi2⟩ := hs2.inv
    have hrl2 := hi2.rem_le hK2
    rw [hfo.cap] at hrl2
    refine second_pollFNF ok (sub := .fresh) (dO := []) hph heq2 ?_ ?_ hs1 dfl d8 ?_ hb hok hstop hev hsc
    · have : RSt g.K2 g.L1 ([] ++ g.K.O) r2 e'.mutex e'.tr [] [] := hs2
      rw [List.nil_append] at this
      exact ⟨this.inv, this.lk, this.mx, this.log⟩
    · show rEvent g.content ∈ (e'.tr.events ++ [rEvent g.K.C]) ++ ["s=ok"]
      simp [Cfg.K]
    · show 2 * ((g.K2.C.length - ([] : Bytes).length) / 64) + 2 * e'.tr.input.length + fcost W + 14 ≤ f2
      simp only [List.length_nil] at hrl2 ⊢
      omega

theorem hf1_pollNF {g : Cfg} {W : FList} (ok : WFOK3N g W) {c : Conn} (h : HF1 g W c) (hok : FlOk c.env.tr) : RFf g W 3 c := by
  obtain ⟨r, ⟨ops, sub, ws, pr⟩, hph, ⟨hops, hws, hpr, dO, hs⟩, hb, hstop, hev, hsc⟩ := h
  simp only at hops hws hpr hs
  subst hops hws hpr
  exact first_pollFNF ok hph hs hb hok hstop hev hsc

theorem hf2_pollNF {g : Cfg} {W : FList} (ok : WFOK3N g W) {c : Conn} (h : HF2 g W c) (hok : FlOk c.env.tr) : RFf g W 3 c := by
  obtain ⟨r, ⟨ops, sub, ws, pr⟩, hph, ⟨hops, hws, hpr, dO, hs⟩, hev1, hb, hstop, hev, hsc⟩ := h
  simp only at hops hws hpr hs
  subst hops hws hpr
  obtain ⟨hK1, hK2, hfo⟩ := ok.kk
  obtain ⟨G2, hi2⟩ := hs.inv
  have hrl2 := hi2.rem_le hK2
  have hcapr : r.sp.cap = g.cap := hi2.capK
  have hcapK : g.K2.cap = g.cap := rfl
  have hcost : fcost W + 6 ≤ scriptOf c := by
    rw [scriptOf_handler hph]
    have := otailF_cost W g.st
    simp only [scriptCost, curCost_readAllN]
    omega
  have hge := handlerFuel_ge' c.env r
  refine second_pollFNF ok hph rfl hs hev1 (.refl _) (List.suffix_refl _) rfl ?_ hb hok hstop hev hsc
  rw [hcapr] at hge; rw [hcapK] at hrl2; omega

/-- the first poll of the handler -/
theorem filterF_firstNF {g : Cfg} {W : FList} (ok : WFOK3N g W) (c : Conn) (hc : FirstCfg g c) (hok : FlOk c.env.tr) :
    RFf g W 6 c := by
  obtain ⟨e1, hph, hlen, hwire, hlog, hm, hb, hstop, hev, hsc⟩ := hc
  have hrole : g.p.request.role = 3 := ok.role
  have hstart : C03SI.Start g.K.E (Str.Parser.fromParser g.cap g.p.request e1 g.mc) :=
    C03SI.start_fresh g.cap g.p.request e1 g.mc hlen ok.hid (Or.inr hrole)
  have hrinv : RInv g.K (AReq.new (Str.Parser.fromParser g.cap g.p.request e1 g.mc)) e1 c.env.tr.input [] [] := by
    refine ⟨hstart.mtch, hstart.inv, rfl, rfl, rfl, hwire, fun x => ?_⟩
    have := C03SI.rem_start hstart x
    show refWire g.K.E (e1 ++ x) = (Rem g.K.E (Str.Parser.fromParser g.cap g.p.request e1 g.mc) x).pre [] []
    rw [this]; rfl
  have hrst : RSt g.K g.L1 [] (AReq.new (Str.Parser.fromParser g.cap g.p.request e1 g.mc)) c.env.mutex c.env.tr [] [] :=
    ⟨⟨e1, hrinv⟩, by rw [hm]; exact lockInv_free rfl, Or.inl hm, ⟨[], by rw [hlog, List.append_nil], rfl⟩⟩
  rw [ok.hs] at hph
  exact (first_pollFNF ok (sub := .fresh) hph hrst hb hok hstop hev hsc).mono (by omega)

theorem sf3_pollNF {g : Cfg} {W : FList} (ok : WFOK3N g W) {c : Conn} (h : SF3 g W c) (hap : C12Inv.AllProp c)
    (hok : FlOk c.env.tr) : RFf g W (2 * c.env.tr.input.length + 15) c := by
  have hwc := wcostAll_le W
  rcases h with (h | h | h | h) | h | h
  · rcases fstage_first ok.fok h with ⟨c', hh, hl, hS', hw, ha⟩ | ⟨k, c1, hk, hs, hl, hf⟩
    · exact Or.inl (Or.inl (Or.inl ⟨c', hh.mono (by omega), hl, Or.inl (Or.inl hS'), hw, ha⟩))
    · obtain ⟨hfl1, _⟩ := steps_fl hs hap
      exact (GResF.of_steps hs hl hap (filterF_firstNF ok c1 hf (hok.suffix hfl1))).mono (by omega)
  · exact (hf1_pollNF ok h hok).mono (by omega)
  · exact (hf2_pollNF ok h hok).mono (by omega)
  · exact (hwf_poll3NF (qr2_mono g) s0f3_inj h hok).mono (by omega)
  · exact Or.inl ((hwq_poll3NF (qr2_mono g) h).mono (by omega))
  · exact Or.inl ((tq_poll3 (qr2_mono g) h).mono (by omega))

/-- **The executor** for the Filter. -/
theorem run_filterWFNF {g : Cfg} {W : FList} (ok : WFOK3N g W) {Z : Bytes}
    (hns : NoStuckW g.cap g.mc (g.U ++ Z))
    (hNF : ∀ F x, F ++ x ++ Z = g.U ++ Z → (run .header F g.mc).st.isFinal = false)
    (em : EndMode) (evs0 : List String) (c : Conn) (n0 fuel : Nat) (hst : FStage g c)
    (hem : c.env.tr.endMode = em) (hev0 : ∀ s ∈ evs0, s ∈ c.env.tr.events)
    (hap : C12Inv.AllProp c) (hok : FlOk c.env.tr)
    (hsegs : c.env.segs = []) (hf : mu c.env.tr + 1 ≤ fuel) :
    ∃ c'' fin, runTask fuel c n0 none = (c'', fin) ∧
      (GEnd g.cap g.mc Z g.more (g.hs0 + 1)
          (fun i : Bytes × Bytes => g.p.flags.toNat % 2 = 1 ∧ i.1 ++ i.2 = g.Ot)
          (fun _ => g.U ++ Z) (fun i => g.Lw (writesOf W) i.1 i.2)
          (fun _ => [hsEvent g.p.request, rEvent g.content, rEvent g.content2]) em evs0 (ans c.env.tr) c'' fin ∨
       (fin = "RET" ∧ FQ3 g (writesOf W) (QR2 g) c'' ∧ c''.env.tr.endMode = em ∧ (∀ s ∈ evs0, s ∈ c''.env.tr.events))) :=
  run_stagesF (cap24 g) (fun _ _ => hns) (fun _ _ => hNF)
    (fun _ _ h => SQ3.cong (qr2_mono g) (fun c c' h a b d e f => S0F3.cong c c' h a b d e f) h)
    (fun _ h hap hok => (sf3_pollNF ok h hap hok).imp3 (fun c1 _ h => by
      obtain ⟨O1, O2, hO, q3, haf⟩ := h
      obtain ⟨raw, hph, hw, hraw⟩ := haf.ph
      exact ⟨(O1, O2), ⟨haf.keep, hO⟩,
        Or.inr ⟨raw, hph, by rw [hw], hraw, haf.log, haf.ben, haf.stop⟩,
        ⟨haf.sc, haf.mtx, haf.ev.1, fun s hs => by
          rcases List.mem_cons.1 hs with rfl | hs
          · exact haf.ev.2
          rcases List.mem_cons.1 hs with rfl | hs
          · exact q3.1
          · rw [List.mem_singleton.1 hs]; exact q3.2⟩⟩))
    em evs0 c n0 fuel (Or.inl (Or.inl hst)) hem hev0 hap hok hsegs hf

/-- the request (KEEP_CONN) started from any `StartAt` of a chain: it ends parked behind its Stdin terminator, which
the stream parser never consumed -/
theorem serve_filterWF_coreNF {g : Cfg} {W : FList} (ok : WFOK3N g W) (hk : g.p.flags.toNat % 2 = 1) {left : List Rec}
    (hleft : LeftOK (alignedBufsize g.b) left) {Z : Bytes} (hT : IdleNoise g.term2)
    (hZ : GoodNext g.cap g.mc [g.term2] Z)
    {Lw : Bytes} {evs : List String} {A0 : Nat} {c : Conn} (n0 fuel : Nat)
    (hLw : Lw = g.L0 ++ idleOwed g.mc left)
    (hstart : StartAt g.cap g.mc left Lw ((g.hscript, true) :: g.more) g.hs0 evs A0 g.W c)
    (hap : C12Inv.AllProp c) (hok : FlOk c.env.tr) (hf : A0 + c.env.tr.fl.length + 1 ≤ fuel) :
    ∃ c' O1 O2, runTask fuel c n0 none = (c', "STALL") ∧ O1 ++ O2 = g.Ot ∧ rEvent g.content ∈ c'.env.tr.events ∧ rEvent g.content2 ∈ c'.env.tr.events ∧
      Waiting g.cap g.mc [g.term2] ((g.front left).Lw (writesOf W) O1 O2 ++ idleOwed g.mc [g.term2]) g.more (g.hs0 + 1)
        (hsEvent g.p.request :: evs) A0 c' := by
  have okf := ok.front hleft
  obtain ⟨hst, hsg, hem, hans, hev, hin⟩ := fstage_of_startAt hleft hLw hstart
  have hser : serAll [g.term2] = g.term2.ser := C02.serAll_single _
  have hidle : ∀ e ∈ [g.term2], IdleNoise e := fun e he => by rw [List.mem_singleton.1 he]; exact hT
  have hU : (g.front left).U = g.term2.ser := ok.hU
  obtain ⟨c', fin, hrun, hres⟩ :=
    run_filterWFNF okf (Z := Z) (by rw [hU, ← hser]; exact hZ.1) (by rw [hU, ← hser]; exact hZ.2)
      .pend evs c n0 fuel hst hem hev hap hok hsg (by unfold mu; omega)
  rcases hres with ⟨⟨O1, O2⟩, ⟨hkp0, hO⟩, hkp, hem', hev', hans', hsg', hend⟩ |
      ⟨_, ⟨O1, O2, _, _, hfu⟩, _, _⟩
  · rcases hend with ⟨rfl, hp⟩ | ⟨_, hfn⟩
    · obtain ⟨F, hF, hps, hph, hlg⟩ := hp.pst
      have hFe : F = serAll [g.term2] := by
        rw [hser, ← hU]; exact List.append_cancel_right hF
      subst hFe
      have hnf : (run .header (serAll [g.term2]) g.mc).st.isFinal = false := (run_idle_out g.mc _ hidle).2.2
      have hob : (run .header (serAll [g.term2]) (g.front left).mc).out = idleOwed g.mc [g.term2] :=
        (run_idle_out g.mc _ hidle).1
      refine ⟨c', O1, O2, hrun, hO, hkp.ev _ (List.mem_cons_of_mem _ List.mem_cons_self),
        hkp.ev _ (List.mem_cons_of_mem _ (List.mem_cons_of_mem _ List.mem_cons_self)), ⟨hph, hnf, hps.rem, hp.inp, by rw [hlg, hob],
        ⟨(g.front left).Lw (writesOf W) O1 O2, by
          show _ = _ ++ (run .header (serAll [g.term2]) (g.front left).mc).out
          rw [hob]⟩, hps.stop, hps.ben, hkp.sc, hkp.mx,
        hkp.hs, ?_, hsg', hem', by omega⟩⟩
      intro s hs
      rcases List.mem_cons.1 hs with rfl | hs
      · exact hkp.ev _ List.mem_cons_self
      · exact hev' s hs
    · rw [hfn.em] at hem'; cases hem'
  · have := hfu.nokeep
    have e : (g.front left).p = g.p := rfl
    rw [e] at this
    omega

theorem sf3_pollNNF {g : Cfg} {W : FList} (ok : WFOK3N g W) {c : Conn} (h : SF3 g W c)
    (hok : FlOk c.env.tr) : RFf g W (2 * c.env.tr.input.length + 15) c := by
  have hwc := wcostAll_le W
  rcases h with (h | h | h | h) | h | h
  · rcases fstage_first ok.fok h with ⟨c', hh, hl, hS', hw, ha⟩ | ⟨k, c1, hk, hs, hl, hf⟩
    · exact Or.inl (Or.inl (Or.inl ⟨c', hh.mono (by omega), hl, Or.inl (Or.inl hS'), hw, ha⟩))
    · have hfl1 := steps_fs hs
      exact (GResF.of_stepsN hs hl (filterF_firstNF ok c1 hf (hok.suffix hfl1))).mono (by omega)
  · exact (hf1_pollNF ok h hok).mono (by omega)
  · exact (hf2_pollNF ok h hok).mono (by omega)
  · exact (hwf_poll3NF (qr2_mono g) s0f3_inj h hok).mono (by omega)
  · exact Or.inl ((hwq_poll3NF (qr2_mono g) h).mono (by omega))
  · exact Or.inl ((tq_poll3 (qr2_mono g) h).mono (by omega))

/-- **The executor** for the Filter. -/
theorem run_filterWNNF {g : Cfg} {W : FList} (ok : WFOK3N g W) {Z : Bytes}
    (hns : NoStuckW g.cap g.mc (g.U ++ Z))
    (hNF : ∀ F x, F ++ x ++ Z = g.U ++ Z → (run .header F g.mc).st.isFinal = false)
    (em : EndMode) (evs0 : List String) (c : Conn) (n0 fuel : Nat) (hst : FStage g c)
    (hem : c.env.tr.endMode = em) (hev0 : ∀ s ∈ evs0, s ∈ c.env.tr.events)
    (hok : FlOk c.env.tr)
    (hsegs : c.env.segs = []) (hf : mu c.env.tr + 1 ≤ fuel) :
    ∃ c'' fin, runTask fuel c n0 none = (c'', fin) ∧
      (GEnd g.cap g.mc Z g.more (g.hs0 + 1)
          (fun i : Bytes × Bytes => g.p.flags.toNat % 2 = 1 ∧ i.1 ++ i.2 = g.Ot)
          (fun _ => g.U ++ Z) (fun i => g.Lw (writesOf W) i.1 i.2)
          (fun _ => [hsEvent g.p.request, rEvent g.content, rEvent g.content2]) em evs0 (ans c.env.tr) c'' fin ∨
       (fin = "RET" ∧ FQ3 g (writesOf W) (QR2 g) c'' ∧ c''.env.tr.endMode = em ∧ (∀ s ∈ evs0, s ∈ c''.env.tr.events))) :=
  run_stagesN (cap24 g) (fun _ _ => hns) (fun _ _ => hNF)
    (fun _ _ h => SQ3.cong (qr2_mono g) (fun c c' h a b d e f => S0F3.cong c c' h a b d e f) h)
    (fun _ h hok => (sf3_pollNNF ok h hok).imp3 (fun c1 _ h => by
      obtain ⟨O1, O2, hO, q3, haf⟩ := h
      obtain ⟨raw, hph, hw, hraw⟩ := haf.ph
      exact ⟨(O1, O2), ⟨haf.keep, hO⟩,
        Or.inr ⟨raw, hph, by rw [hw], hraw, haf.log, haf.ben, haf.stop⟩,
        ⟨haf.sc, haf.mtx, haf.ev.1, fun s hs => by
          rcases List.mem_cons.1 hs with rfl | hs
          · exact haf.ev.2
          rcases List.mem_cons.1 hs with rfl | hs
          · exact q3.1
          · rw [List.mem_singleton.1 hs]; exact q3.2⟩⟩))
    em evs0 c n0 fuel (Or.inl (Or.inl hst)) hem hev0 hok hsegs hf

end Fcgi.E2E
