import Fcgi.Proofs.E2EMulti
/-!
# End-to-end composition (C11) — part 1: an aborted preamble is absorbed by `parse_request`

`Absorb cap mc A E`: the request parser, driven over the bytes `A` (in whatever chunks), is idle
again afterwards, has written exactly `E`, and never held back a buffer-full of bytes.  Such a
prefix in front of the wire of a well-formed request changes nothing but the write log
(`PSt.shift`).  `absorb_abort`: a well-formed preamble cut at a record boundary inside its Params
stream, followed by an `AbortRequest` record for its id, is such a prefix; `E` = the replies owed
for the noise among its records ++ `EndRequest(app 0, RequestComplete)`.

`APre`: the connection is inside a `parse_request` whose wire is `A ++ g.W`.  `apre_poll`: one poll
from there stays there (transient `Pending`) or is a poll of the request `g` (`Res g`).
`run_via`: the executor for any family of stages whose polls end like that.
-/
namespace Fcgi.E2E
open Fcgi Fcgi.Req Fcgi.Str Fcgi.Async Fcgi.Run Fcgi.Spec

/-! ## Absorbed prefixes -/

structure Absorb (cap mc : Nat) (A E : Bytes) : Prop where
  whole : Req.run .header A mc = ⟨[], .header, E, none⟩
  small : ∀ F, F <+: A → (Req.run .header F mc).rem.length < cap

theorem Absorb.app {cap mc : Nat} {A E : Bytes} (h : Absorb cap mc A E) (x : Bytes) :
    run .header (A ++ x) mc = pre E (run .header x mc) := by
  by_cases hx : x = []
  · subst hx
    rw [List.append_nil, h.whole, resting_header mc]
    simp [pre]
  · rw [Req.run_split (st := .header) trivial A x mc hx, h.whole]
    simp [pre]

/-- a run that has reached a final state stays there -/
theorem nonfinal_of_append {st : State} (hw : WFState st) {w t : Bytes} {mc : Nat}
    (h : (run st (w ++ t) mc).st.isFinal = false) : (run st w mc).st.isFinal = false := by
  by_cases ht : t = []
  · subst ht; rwa [List.append_nil] at h
  · cases hf : (run st w mc).st.isFinal with
    | false => rfl
    | true =>
      rw [Req.run_split hw w t mc ht, run_final _ _ hf] at h
      simp only at h
      rw [hf] at h
      cases h

theorem Absorb.nonfinal {cap mc : Nat} {A E : Bytes} (h : Absorb cap mc A E) {F : Bytes} (hF : F <+: A) :
    (run .header F mc).st.isFinal = false := by
  obtain ⟨t, ht⟩ := hF
  apply nonfinal_of_append (st := .header) trivial (t := t)
  rw [ht, h.whole]
  rfl

theorem Absorb.ns {cap mc : Nat} {A E W : Bytes} (h : Absorb cap mc A E) (hW : NoStuckW cap mc W) :
    NoStuckW cap mc (A ++ W) := by
  intro F hF
  rcases prefix_append_cases hF with ⟨e, rfl, he⟩ | ⟨t, _, hFt⟩
  · rw [h.app e]
    exact hW e he
  · exact Or.inr (h.small F ⟨t, hFt⟩)

theorem Absorb.track_eq {cap mc : Nat} {A E : Bytes} (h : Absorb cap mc A E) (F : Bytes) :
    track cap mc (A ++ F) = track cap mc F := by
  unfold track
  rw [h.app F]
  rfl

/-- Behind an absorbed prefix, `parse_request` is `parse_request` of the rest of the wire, started
on the log with `E` appended. -/
theorem PSt.shift {cap mc : Nat} {A E W L0 Z : Bytes} {c : Conn} {F : Bytes} (h : Absorb cap mc A E)
    (hst : PSt cap mc (A ++ W) L0 Z c (A ++ F)) (hrd : ∃ q, c.phase = .parseReq q .reading) :
    PSt cap mc W (L0 ++ E) Z c F := by
  obtain ⟨hwire, hstop, hben, hrem, hph⟩ := hst
  have hrun := h.app F
  refine ⟨?_, hstop, hben, by rw [hrun] at hrem; exact hrem, ?_⟩
  · rw [List.append_assoc, List.append_assoc] at hwire
    have := List.append_cancel_left hwire
    rw [← List.append_assoc] at this
    exact this
  · rw [h.track_eq F, hrun] at hph
    simp only [pre] at hph
    rcases hph with ⟨a, b, c'⟩ | ⟨rest, a, b, _⟩
    · exact Or.inl ⟨a, b, by rw [c', List.append_assoc]⟩
    · -- (while a `write_all` is pending, part of `E` may still be unsent: no shift there)
      obtain ⟨q, hq⟩ := hrd
      rw [hq] at a
      cases a

/-! ## The aborted preamble, record by record -/

theorem step_params_abort (i : Inner) (c padb : Bytes) (res : UInt8) (rest : Bytes)
    (mc : Nat) (hc : c.length < 65536) (hp : padb.length < 256) (hid : i.req.id < 65536) :
    step (.params i 0 0) (Rec.ser { rtype := 2, id := i.req.id, content := c, pad := padb,
                                    reserved := res } ++ rest) mc =
      (.cont (c ++ (padb ++ rest)) (Ctx.hdr.intoSkip c.length padb.length),
        EndRequest.toRecord { appStatus := 0, protocolStatus := 0 } i.req.id) := by
  generalize hr : ({ rtype := 2, id := i.req.id, content := c, pad := padb, reserved := res } : Rec) = r
  have hwf : r.WF := by subst hr; exact ⟨hid, hc, hp⟩
  have hv : RT.valid r.rtype.toNat = true := by subst hr; rfl
  simp only [step_params_zero, recPhase, tryHead_ser_valid (.par i) r hwf rest hv, ser_drop8]
  subst hr
  simp [RT.params, RT.abortRequest]

/-- The AbortRequest record cut short: fewer than 16 bytes are held back. -/
theorem params_abort_partial (i : Inner) (hi : InnerOK i) (c padb : Bytes) (res : UInt8)
    {w t : Bytes} (mc : Nat) (hc : c.length < 65536) (hp : padb.length < 256) (hid : i.req.id < 65536)
    (h : w ++ t = Rec.ser { rtype := 2, id := i.req.id, content := c, pad := padb, reserved := res })
    (ht : t ≠ []) (hnf : (run (.params i 0 0) w mc).st.isFinal = false) :
    (run (.params i 0 0) w mc).rem.length < 16 := by
  have hs := step_params_abort i c padb res [] mc hc hp hid
  simp only [List.append_nil] at hs
  rw [← h] at hs
  rcases run_partial (wf_params_zero hi) (params_hbrk hi w mc) hs hnf with hlt | ⟨r', _, hX, hrem, _⟩
  · exact hlt
  · rw [hrem]
    have hl : r'.length < c.length + padb.length := by
      have := length_lt_of_append_ne hX.symm ht
      simpa using this
    rw [run_skip_partial Ctx.hdr mc hl]; simp

/-- The Params phase up to a record boundary before its end. -/
theorem params_prefix_run {id : Nat} (hid : id < 65536) (mc : Nat) :
    ∀ (prs : List Rec) {payload : Bytes} {suf : List Rec}, ParamsRecs id payload (prs ++ suf) → suf ≠ [] →
    ∀ (i : Inner) (C : Bytes), i.req.id = id → ParamsInv [] C i →
      ∃ i' C', i'.req.id = id ∧ ParamsInv [] C' i' ∧ ∀ rest, rest ≠ [] →
        run (.params i 0 0) (serAll prs ++ rest) mc =
          pre (C01.paramsOwed id mc prs) (run (.params i' 0 0) rest mc) := by
  intro prs
  induction prs with
  | nil =>
    intro payload suf _ _ i C hi hinv
    exact ⟨i, C, hi, hinv, fun rest _ => by simp [C01.paramsOwed, pre, serAll]⟩
  | cons r prs ih =>
    intro payload suf h hsuf i C hi hinv
    rw [List.cons_append] at h
    generalize hl : prs ++ suf = l at h
    cases h with
    | done pad res hp =>
      exact absurd (List.append_eq_nil_iff.1 hl).2 hsuf
    | noise r hn t =>
      subst hl
      obtain ⟨i', C', hi', hinv', hrun⟩ := ih t hsuf i C hi hinv
      refine ⟨i', C', hi', hinv', fun rest hrest => ?_⟩
      have hne : serAll prs ++ rest ≠ [] := fun hx => hrest (List.append_eq_nil_iff.1 hx).2
      have hn' : ParamsNoise i.req.id r := by rw [hi]; exact hn
      rw [serAll_cons, List.append_assoc, params_noise i hinv.next_buffer r hn' _ mc (Or.inl hne),
        hrun rest hrest, C01.paramsOwed_cons]
      have hcond : (r.rtype.toNat == RT.params && r.id == id) = false := by
        cases hc : (r.rtype.toNat == RT.params && r.id == id) with
        | false => rfl
        | true =>
          simp only [Bool.and_eq_true, beq_iff_eq] at hc
          exact absurd ⟨hc.2, Or.inl hc.1⟩ hn.2
      simp [hcond, pre, hi]
    | chunk c pad res hc hp t =>
      subst hl
      subst hi
      obtain ⟨i1, k, hps⟩ := parseStream_ok_inv [] C i c true hinv
      obtain ⟨i', C', hi', hinv', hrun⟩ :=
        ih t hsuf i1 (C ++ c) (parseStream_spec [] C i i1 c true k hinv hps).2.2.1.1 (by
          obtain ⟨hk, _, _⟩ := params_chunk i i1 hinv.next_buffer c pad res k [] mc hc hp hid hps
          have := (parseStream_spec [] C i i1 c true k hinv hps).2.1
          rwa [hk, List.take_length] at this)
      refine ⟨i', C', hi', hinv', fun rest hrest => ?_⟩
      obtain ⟨_, _, hrun1⟩ :=
        params_chunk i i1 hinv.next_buffer c pad res k (serAll prs ++ rest) mc hc hp hid hps
      rw [serAll_cons, List.append_assoc, hrun1, hrun rest hrest, C01.paramsOwed_cons]
      simp [RT.params]

/-- A well-formed preamble up to a record boundary inside its Params stream: the parser rests in
`params`, having written what is owed for the noise so far. -/
theorem preamble_prefix_run {p : Preamble} (mc : Nat) :
    ∀ (hd : List Rec) {suf : List Rec}, WellFormedPreamble p (hd ++ suf) → suf ≠ [] →
    (∃ r ∈ hd, ¬ IdleNoise r) →
      ∃ i', InnerOK i' ∧ i'.req.id = p.id ∧ ∀ rest, rest ≠ [] →
        run .header (serAll hd ++ rest) mc = pre (owedPreamble p mc hd) (run (.params i' 0 0) rest mc) := by
  intro hd
  induction hd with
  | nil => intro suf _ _ ⟨r, hr, _⟩; cases hr
  | cons r hd ih =>
    intro suf h hsuf hb
    rw [List.cons_append] at h
    generalize hl : hd ++ suf = l at h
    cases h with
    | noise r hn t =>
      subst hl
      have hb' : ∃ r' ∈ hd, ¬ IdleNoise r' := by
        obtain ⟨r', hr', hni⟩ := hb
        rcases List.mem_cons.1 hr' with rfl | hr'
        · exact absurd hn hni
        · exact ⟨r', hr', hni⟩
      obtain ⟨i', hok, hid', hrun⟩ := ih t hsuf hb'
      refine ⟨i', hok, hid', fun rest hrest => ?_⟩
      have hne : serAll hd ++ rest ≠ [] := fun hx => hrest (List.append_eq_nil_iff.1 hx).2
      rw [serAll_cons, List.append_assoc, header_noise r hn _ mc (Or.inl hne), hrun rest hrest,
        C01.owedPreamble_noise p mc hn hd]
      simp [pre]
    | «begin» pad res body5 hb5 hp hid hrole hlen t =>
      subst hl
      obtain ⟨i', C', hid', hinv', hrun⟩ := params_prefix_run hid.2 mc hd t hsuf
        { req := Request.new p.id { role := p.role, flags := p.flags }, buffer := [] } [] rfl
        (paramsInv_init [] _ rfl rfl)
      refine ⟨i', hinv'.next_buffer, hid', fun rest hrest => ?_⟩
      have hrole' : 1 ≤ p.role ∧ p.role ≤ 3 := by simpa [roleValid] using hrole
      have hbe : be16 (UInt8.ofNat (p.role / 256)) (UInt8.ofNat p.role) = p.role :=
        be16_toBe16 (by omega)
      rw [serAll_cons, List.append_assoc,
        header_begin p.id p.role p.flags body5 pad res _ mc hid hrole hb5 hp, hrun rest hrest]
      simp [owedPreamble, RT.beginRequest, toBe16, hb5, hbe, hrole, C01.paramsOwed]

theorem pid_of_wf {p : Preamble} {rs : List Rec} (h : WellFormedPreamble p rs) : 0 < p.id ∧ p.id < 65536 := by
  induction h with
  | noise r hn t ih => exact ih
  | «begin» pad res body5 hb hp hid hrole hl t => exact hid

/-- an `AbortRequest` record for request `id` -/
def IsAbort (id : Nat) (a : Rec) : Prop :=
  a.rtype = 2 ∧ a.id = id ∧ a.content.length < 65536 ∧ a.pad.length < 256

/-- the reply to an `AbortRequest` during the Params stream -/
def abortReply (id : Nat) : Bytes := EndRequest.toRecord { appStatus := 0, protocolStatus := 0 } id

theorem IsAbort.eq {id : Nat} {a : Rec} (h : IsAbort id a) :
    a = { rtype := 2, id := id, content := a.content, pad := a.pad, reserved := a.reserved } := by
  obtain ⟨h1, h2, _⟩ := h
  cases a
  simp only at h1 h2
  subst h1 h2
  rfl

theorem ser_ne_nil' (r : Rec) : r.ser ≠ [] := C01.ser_ne_nil r

/-- **The aborted preamble.**  A well-formed preamble cut at a record boundary inside its Params
stream, then `AbortRequest(id)`: exactly the replies owed for the noise so far and one
`EndRequest(app 0, RequestComplete)` for the id are generated, and the parser is idle again. -/
theorem abort_params_run {p : Preamble} {hd suf : List Rec} {a : Rec}
    (hwf : WellFormedPreamble p (hd ++ suf)) (hsuf : suf ≠ []) (hb : ∃ r ∈ hd, ¬ IdleNoise r)
    (ha : IsAbort p.id a) (mc : Nat) (x : Bytes) :
    run .header (serAll hd ++ (a.ser ++ x)) mc =
      pre (owedPreamble p mc hd ++ abortReply p.id) (run .header x mc) := by
  obtain ⟨i', hok, hid', hrun⟩ := preamble_prefix_run mc hd hwf hsuf hb
  have hpid := (pid_of_wf hwf).2
  rw [hrun (a.ser ++ x) (fun hx => ser_ne_nil' a (List.append_eq_nil_iff.1 hx).1), ha.eq, ← hid',
    params_abort i' hok a.content a.pad a.reserved x mc ha.2.2.1 ha.2.2.2 (by rw [hid']; exact hpid)]
  simp [pre, abortReply]

theorem serAll_ne_nil {rs : List Rec} (h : rs ≠ []) : serAll rs ≠ [] := by
  cases rs with
  | nil => exact absurd rfl h
  | cons r rs => rw [serAll_cons]; intro hx; exact ser_ne_nil' r (List.append_eq_nil_iff.1 hx).1

theorem serAll_app (a b : List Rec) : serAll (a ++ b) = serAll a ++ serAll b := by simp [serAll]

/-- … and it is an absorbed prefix, for a buffer that fits the request's pairs and noise bodies. -/
theorem absorb_abort {p : Preamble} {hd suf : List Rec} {a : Rec} {b : Nat}
    (hwf : WellFormedPreamble p (hd ++ suf)) (hsuf : suf ≠ []) (hb : ∃ r ∈ hd, ¬ IdleNoise r)
    (ha : IsAbort p.id a) (hpairs : ∀ q ∈ p.pairs, (NV.enc q).length ≤ alignedBufsize b)
    (hnoise : NoiseFits (alignedBufsize b) (hd ++ suf)) (mc : Nat) :
    Absorb (alignedBufsize b) mc (serAll hd ++ a.ser) (owedPreamble p mc hd ++ abortReply p.id) := by
  have h24 := alignedBufsize_ge b
  have hwhole : run .header (serAll hd ++ a.ser) mc =
      ⟨[], .header, owedPreamble p mc hd ++ abortReply p.id, none⟩ := by
    have := abort_params_run hwf hsuf hb ha mc []
    rw [List.append_nil, resting_header mc] at this
    rw [this]; simp [pre]
  refine ⟨hwhole, fun F hF => ?_⟩
  -- prefixes inside the well-formed part
  have inside : ∀ F t, t ≠ [] → F ++ t = serAll (hd ++ suf) → (run .header F mc).rem.length < alignedBufsize b := by
    intro F t ht hFt
    exact remainder_lt hwf (by omega) hpairs hnoise ⟨t, hFt⟩ mc (prefix_not_final hwf hFt ht mc)
  rcases prefix_append_cases hF with ⟨e, rfl, he⟩ | ⟨t, ht, hFt⟩
  · by_cases hen : e = []
    · subst hen
      rw [List.append_nil]
      exact inside _ (serAll suf) (serAll_ne_nil hsuf) (serAll_app hd suf).symm
    · obtain ⟨i', hok, hid', hrun⟩ := preamble_prefix_run mc hd hwf hsuf hb
      have hpid := (pid_of_wf hwf).2
      rw [hrun e hen]
      show (run (.params i' 0 0) e mc).rem.length < _
      obtain ⟨t, ht⟩ := he
      have hfull : run (.params i' 0 0) a.ser mc = ⟨[], .header, abortReply p.id, none⟩ := by
        have := params_abort i' hok a.content a.pad a.reserved [] mc ha.2.2.1 ha.2.2.2 (by rw [hid']; exact hpid)
        rw [List.append_nil, resting_header mc, hid', ← ha.eq] at this
        rw [this]; simp [pre, abortReply]
      by_cases htn : t = []
      · subst htn
        rw [List.append_nil] at ht
        rw [ht, hfull]
        simp only [List.length_nil]; omega
      · have hnf : (run (.params i' 0 0) e mc).st.isFinal = false := by
          apply nonfinal_of_append (wf_params_zero hok) (t := t)
          rw [ht, hfull]; rfl
        have := params_abort_partial i' hok a.content a.pad a.reserved mc ha.2.2.1 ha.2.2.2
          (by rw [hid']; exact hpid) (w := e) (t := t) (by rw [ht, hid', ← ha.eq]) htn hnf
        omega
  · exact inside F (t ++ serAll suf) (fun hx => ht (List.append_eq_nil_iff.1 hx).1)
      (by rw [← List.append_assoc, hFt, serAll_app])

/-! ## The executor, for any family of stages in front of the stages of a request -/

/-- how `runTask` ends when it serves the request `g` to its end (the conclusion of `run_from_stage`) -/
def RunEnd (g : Cfg) (fuel : Nat) (c : Conn) (n : Nat) : Prop :=
  ∃ c', (c'.env.tr.endMode = c.env.tr.endMode ∧ ans c'.env.tr ≤ ans c.env.tr ∧ c'.env.segs = [] ∧
      ∀ s, s ∈ c.env.tr.events → s ∈ c'.env.tr.events) ∧
    ∃ O1 O2, O1 ++ O2 = g.Ot ∧
    ((runTask fuel c n none = (c', "RET") ∧ Fin g O1 O2 c') ∨
     (runTask fuel c n none = (c', "STALL") ∧ Parked g O1 O2 c'))

/-- a poll from a stage in `S` ends on a transient `Pending` in `S`, or is a poll of the request `g` -/
def SRes (S : Conn → Prop) (g : Cfg) (N : Nat) (c : Conn) : Prop :=
  (∃ c', Halts N c c' .pending ∧ Link c c' ∧ S c' ∧ c'.env.tr.woken = true ∧
      ans c'.env.tr < ans c.env.tr) ∨ Res g N c

theorem SRes.of_steps {S : Conn → Prop} {g : Cfg} {k N : Nat} {c c1 : Conn} (hs : Steps k c c1)
    (hl : Link c c1) (h : SRes S g N c1) : SRes S g (k + N) c := by
  rcases h with ⟨c', hh, hl2, hS, hw, ha⟩ | h
  · exact Or.inl ⟨c', hh.of_steps hs, hl.trans hl2, hS, hw, by have := hl.ts.ans_le; omega⟩
  · exact Or.inr (Res.of_steps hs hl h)

theorem SRes.mono {S : Conn → Prop} {g : Cfg} {N M : Nat} {c : Conn} (h : SRes S g N c) (hm : N ≤ M) :
    SRes S g M c := by
  rcases h with ⟨c', hh, r⟩ | h
  · exact Or.inl ⟨c', hh.mono hm, r⟩
  · exact Or.inr (h.mono hm)

/-- the executor, when its first poll ends in one of the ways of `Out g`; what is in the trace at the
end of that poll stays there -/
theorem run_from_out {g : Cfg} (ok : g.OK) (c : Conn) (n f N : Nat) (hsegs : c.env.segs = [])
    {c' : Conn} {r : PRes} (hh : Halts N (prePoll c n none) c' r) (hl : Link (prePoll c n none) c')
    (ho : Out g (prePoll c n none) c' r) (hN : N ≤ 100000) (hf : ans c.env.tr ≤ f)
    (hlen : 4 * c.env.tr.input.length + 17 ≤ 100000) :
    ∃ c'', ((c''.env.tr.endMode = c.env.tr.endMode ∧ ans c''.env.tr ≤ ans c.env.tr ∧ c''.env.segs = [] ∧
        ∀ s, s ∈ c.env.tr.events → s ∈ c''.env.tr.events) ∧
      ∃ O1 O2, O1 ++ O2 = g.Ot ∧
      ((runTask (f + 1) c n none = (c'', "RET") ∧ Fin g O1 O2 c'') ∨
       (runTask (f + 1) c n none = (c'', "STALL") ∧ Parked g O1 O2 c''))) ∧
      ∀ s, s ∈ c'.env.tr.events → s ∈ c''.env.tr.events := by
  obtain ⟨hsame, hph, hsc, hstop, hmx, hsg, hwk⟩ := prePoll_same c n hsegs
  have hpoll := hh.pollT hN
  have hans0 : ans (prePoll c n none).env.tr = ans c.env.tr := by unfold ans; rw [hsame.rd, hsame.wr]
  have hsg' : c'.env.segs = [] := hl.segs.trans hsg
  have hlen' : 4 * c'.env.tr.input.length + 17 ≤ 100000 := by
    have := hl.ts.inp
    rw [hsame.input] at this
    omega
  have hem : c'.env.tr.endMode = c.env.tr.endMode ∧ ans c'.env.tr ≤ ans c.env.tr ∧ c'.env.segs = [] ∧
      ∀ s, s ∈ c.env.tr.events → s ∈ c'.env.tr.events :=
    ⟨hl.ts.em.trans hsame.em, by have := hl.ts.ans_le; omega, hsg', fun s hs => hl.ts.evm s (hsame.mem hs)⟩
  rw [runTask_succ, hpoll]
  have again : ∀ (hs' : Stage g c'), ans c'.env.tr < ans (prePoll c n none).env.tr →
      ∃ c2, ((c2.env.tr.endMode = c.env.tr.endMode ∧ ans c2.env.tr ≤ ans c.env.tr ∧ c2.env.segs = [] ∧
          ∀ s, s ∈ c.env.tr.events → s ∈ c2.env.tr.events) ∧
        ∃ O1 O2, O1 ++ O2 = g.Ot ∧
        ((runTask f c' (n + 1) none = (c2, "RET") ∧ Fin g O1 O2 c2) ∨
         (runTask f c' (n + 1) none = (c2, "STALL") ∧ Parked g O1 O2 c2))) ∧
        ∀ s, s ∈ c'.env.tr.events → s ∈ c2.env.tr.events := by
    intro hs' ha
    obtain ⟨c2, ⟨h1, h1', h1'', h1e⟩, h2⟩ :=
      run_from_stage ok (ans c'.env.tr) c' (n + 1) f hs' hsg' (Nat.le_refl _) (by omega) hlen'
    exact ⟨c2, ⟨⟨h1.trans hem.1, by have := hem.2.1; omega, h1'', fun s hs => h1e s (hem.2.2.2 s hs)⟩, h2⟩, h1e⟩
  cases ho with
  | @fin O1 O2 hO hfin => exact ⟨c', ⟨hem, O1, O2, hO, Or.inl ⟨rfl, hfin⟩⟩, fun _ hs => hs⟩
  | pend hs' hw ha =>
    simp only [hw, if_true]
    exact again hs' ha
  | @park O1 O2 hs' hO hp =>
    rcases hl.ts.wk with hw | ⟨hw, ha⟩
    · rw [hwk] at hw
      simp only [hw, Bool.false_eq_true, if_false]
      rw [release_nil _ hsg']
      simp only [hw, Bool.false_eq_true, if_false]
      refine ⟨_, ⟨?_, O1, O2, hO,
        Or.inr ⟨rfl, hp.cong rfl rfl rfl rfl ⟨rfl, rfl, rfl, rfl, rfl, rfl, [], by simp, Quiet.nil⟩⟩⟩, fun _ hs => hs⟩
      exact hem
    · simp only [hw, if_true]
      exact again hs' ha

/-- the executor, when its first poll is a poll of the request `g` -/
theorem run_from_res {g : Cfg} (ok : g.OK) (c : Conn) (n f N : Nat) (hsegs : c.env.segs = [])
    (hres : Res g N (prePoll c n none)) (hN : N ≤ 100000) (hf : ans c.env.tr ≤ f)
    (hlen : 4 * c.env.tr.input.length + 17 ≤ 100000) : RunEnd g (f + 1) c n := by
  obtain ⟨c', r, hh, hl, ho⟩ := hres
  obtain ⟨c'', h, _⟩ := run_from_out ok c n f N hsegs hh hl ho hN hf hlen
  exact ⟨c'', h⟩

/-- **The executor** for stages `S` in front of the request `g`. -/
theorem run_via {g : Cfg} (ok : g.OK) (S : Conn → Prop)
    (hcong : ∀ c c', S c → c'.phase = c.phase → c'.scripts = c.scripts → c'.stop = c.stop →
      c'.env.mutex = c.env.mutex → TrSame c.env.tr c'.env.tr → S c')
    (hpoll : ∀ c, S c → SRes S g (6 * c.env.tr.input.length + 20) c) :
    ∀ (A : Nat) (c : Conn) (n fuel : Nat), S c → c.env.segs = [] → ans c.env.tr ≤ A → A + 1 ≤ fuel →
      6 * c.env.tr.input.length + 20 ≤ 100000 → RunEnd g fuel c n := by
  intro A
  induction A with
  | zero =>
    intro c n fuel hS hsegs hA hf hlen
    obtain ⟨f, rfl⟩ : ∃ f, fuel = f + 1 := ⟨fuel - 1, by omega⟩
    obtain ⟨hsame, hph, hsc, hstop, hmx, hsg, hwk⟩ := prePoll_same c n hsegs
    have hans0 : ans (prePoll c n none).env.tr = ans c.env.tr := by unfold ans; rw [hsame.rd, hsame.wr]
    rcases hpoll _ (hcong _ _ hS hph hsc hstop hmx hsame) with ⟨c', hh, hl, hS', hw, ha⟩ | hres
    · omega
    · exact run_from_res ok c n f _ hsegs hres (by rw [hsame.input]; exact hlen) (by omega) (by omega)
  | succ A ih =>
    intro c n fuel hS hsegs hA hf hlen
    obtain ⟨f, rfl⟩ : ∃ f, fuel = f + 1 := ⟨fuel - 1, by omega⟩
    obtain ⟨hsame, hph, hsc, hstop, hmx, hsg, hwk⟩ := prePoll_same c n hsegs
    have hans0 : ans (prePoll c n none).env.tr = ans c.env.tr := by unfold ans; rw [hsame.rd, hsame.wr]
    rcases hpoll _ (hcong _ _ hS hph hsc hstop hmx hsame) with ⟨c', hh, hl, hS', hw, ha⟩ | hres
    · have hpoll' := hh.pollT (by rw [hsame.input]; exact hlen)
      have hsg' : c'.env.segs = [] := hl.segs.trans hsg
      have hlen' : 6 * c'.env.tr.input.length + 20 ≤ 100000 := by
        have := hl.ts.inp
        rw [hsame.input] at this
        omega
      obtain ⟨c2, ⟨h1, h1', h1'', h1e⟩, h2⟩ := ih c' (n + 1) f hS' hsg' (by omega) (by omega) hlen'
      unfold RunEnd
      rw [runTask_succ, hpoll']
      simp only [hw, if_true]
      exact ⟨c2, ⟨h1.trans (hl.ts.em.trans hsame.em), by have := hl.ts.ans_le; omega, h1'',
        fun s hs => h1e s (hl.ts.evm s (hsame.mem hs))⟩, h2⟩
    · exact run_from_res ok c n f _ hsegs hres (by rw [hsame.input]; exact hlen) (by omega) (by omega)

/-! ## `parse_request` on `A ++ g.W` -/

/-- The connection is inside (or at the start of) a `parse_request` whose wire is the absorbed prefix
`A` followed by the wire of the request `g`; `L` = the log when it started. -/
structure APre (A L : Bytes) (g : Cfg) (c : Conn) : Prop where
  st : (∃ F, PSt g.cap g.mc (A ++ g.W) L [] c F) ∨
       (∃ raw, c.phase = .parseReq ⟨g.cap, raw, .header, g.mc⟩ .start ∧
          raw ++ c.env.tr.input = A ++ g.W ∧ raw.length ≤ g.cap ∧ c.env.tr.wlog = L ∧ Ben c.env.tr ∧
          c.stop = false)
  sc : c.scripts = (g.hscript, true) :: g.more
  mx : c.env.mutex = none
  ev : hsCount c.env.tr.events = g.hs0

theorem APre.cong {A L : Bytes} {g : Cfg} {c c' : Conn} (h : APre A L g c) (hph : c'.phase = c.phase)
    (hsc : c'.scripts = c.scripts) (hstop : c'.stop = c.stop) (hm : c'.env.mutex = c.env.mutex)
    (hs : TrSame c.env.tr c'.env.tr) : APre A L g c' := by
  refine ⟨?_, hsc.trans h.sc, hm.trans h.mx, hs.hs.trans h.ev⟩
  rcases h.st with ⟨F, hst⟩ | ⟨raw, a, b, c0, d, e, f⟩
  · exact Or.inl ⟨F, hst.cong hph hstop hs⟩
  · exact Or.inr ⟨raw, hph.trans a, by rw [hs.input]; exact b, c0, hs.wlog.trans d, hs.ben e, hstop.trans f⟩

theorem apre_pst {A E L : Bytes} {g : Cfg} (ok : g.OK) (hab : Absorb g.cap g.mc A E) (hL : g.L0 = L ++ E)
    {c : Conn} {F : Bytes} (hst : PSt g.cap g.mc (A ++ g.W) L [] c F)
    (hsc : c.scripts = (g.hscript, true) :: g.more) (hm : c.env.mutex = none)
    (hev : hsCount c.env.tr.events = g.hs0) :
    SRes (APre A L g) g (6 * c.env.tr.input.length + 19) c := by
  obtain ⟨n, c1, F1, hn, hs, hfr, hout⟩ :=
    parse_loop (cap24 g) (hab.ns (ns ok)) _ c F hst (Nat.le_refl _)
  have hnb : n ≤ 2 * c.env.tr.input.length + 2 := by have := wbit_le c; omega
  have hsc1 : c1.scripts = (g.hscript, true) :: g.more := hfr.scripts.trans hsc
  have hm1 : c1.env.mutex = none := hfr.mutex.trans hm
  have hev1 : hsCount c1.env.tr.events = g.hs0 := hfr.ts.hs.trans hev
  have hin1 := hfr.ts.tle.input_len
  -- behind the prefix: a poll of the request itself
  have behind : ∀ e, PSt g.cap g.mc (A ++ g.W) L [] c1 (A ++ e) → (∃ q, c1.phase = .parseReq q .reading) →
      SRes (APre A L g) g (6 * c.env.tr.input.length + 19) c := by
    intro e h1 hrd
    have h2 : PSt g.cap g.mc g.W g.L0 [] c1 e := by rw [hL]; exact h1.shift hab hrd
    exact Or.inr ((Res.of_steps hs hfr.link (parse_poll ok h2 hsc1 hm1 hev1)).mono (by omega))
  rcases hout with ⟨c2, h1, h2, h3, h4, h5⟩ | ⟨rest, t', hph, hf, hw, hstop1, hben1, hrem1, hwa, hlog, hts', hinp'⟩ |
      ⟨hin, hnf, hph, hst1⟩
  · left
    refine ⟨c2, ⟨n, c1, by omega, hs, h1⟩, hfr.link.trans h3.link,
      ⟨Or.inl ⟨F1, h2⟩, h3.scripts.trans hsc1, h3.mutex.trans hm1, h3.ts.hs.trans hev1⟩, h4,
      by have := hfr.ts.ans_le; omega⟩
  · have hpre : F1 <+: A ++ g.W := ⟨c1.env.tr.input, by simpa using hw⟩
    rcases prefix_append_cases hpre with ⟨e, rfl, _⟩ | ⟨t, _, hFt⟩
    · -- the preamble of `g` is complete; its last `write_all` (which may still carry part of `E`) completes
      have hrun := hab.app e
      have hw' : e ++ c1.env.tr.input ++ [] = g.W := by
        rw [List.append_nil] at hw ⊢
        rw [List.append_assoc] at hw
        exact List.append_cancel_left hw
      have hfp := final_poll ok (F1 := e) (rest := rest) (t' := t')
        (by rw [← hab.track_eq e]; exact hph) (by rw [hrun] at hf; exact hf) hw' hstop1 hben1
        (by rw [hrun] at hrem1; exact hrem1) hwa
        (by rw [hlog, hrun, hL]; simp only [pre, List.append_assoc]) hts' hinp' hsc1 hm1 hev1
      exact Or.inr ((Res.of_steps hs hfr.link hfp).mono (by omega))
    · rw [hab.nonfinal ⟨t, hFt⟩] at hf; cases hf
  · have hF1 : F1 = A ++ g.W := by
      have := hst1.wire
      rwa [hin, List.append_nil, List.append_nil] at this
    subst hF1
    exact behind g.W hst1 ⟨_, hph⟩

/-- **One poll** from inside `parse_request` on `A ++ g.W`. -/
theorem apre_poll {A E L : Bytes} {g : Cfg} (ok : g.OK) (hab : Absorb g.cap g.mc A E) (hL : g.L0 = L ++ E)
    {c : Conn} (h : APre A L g c) : SRes (APre A L g) g (6 * c.env.tr.input.length + 20) c := by
  obtain ⟨hst, hsc, hm, hev⟩ := h
  rcases hst with ⟨F, hst⟩ | ⟨raw, hph, hwire, hraw, hlog, hb, hstop⟩
  · exact (apre_pst ok hab hL hst hsc hm hev).mono (by omega)
  · have hpre : raw <+: A ++ g.W := ⟨c.env.tr.input, hwire⟩
    have hstart := start_track (cap24 g) hraw (hab.ns (ns ok) _ hpre)
    have hstep := step_start c _ hph hstop
    rw [hstart] at hstep
    have hstep' : stepConn c = .next (mkC c (.parseReq (track g.cap g.mc raw)
        (.writing (run .header raw g.mc).out (run .header raw g.mc).st.isFinal)) c.env.tr) := hstep
    have hremle : (run .header raw g.mc).rem.length ≤ g.cap := by
      have := (run_ok raw g.mc (st := .header) trivial).2.2.length_le
      omega
    have hst : PSt g.cap g.mc (A ++ g.W) L [] (mkC c (.parseReq (track g.cap g.mc raw)
        (.writing (run .header raw g.mc).out (run .header raw g.mc).st.isFinal)) c.env.tr) raw :=
      ⟨by show raw ++ c.env.tr.input ++ [] = A ++ g.W
          rw [List.append_nil]; exact hwire,
        hstop, hb, hremle, Or.inr ⟨_, rfl, by show c.env.tr.wlog ++ _ = _; rw [hlog], [], rfl⟩⟩
    have := SRes.of_steps (Steps.one hstep') (mkC_link c _ (.refl _)) (apre_pst ok hab hL hst hsc hm hev)
    exact this.mono (by show 1 + (6 * c.env.tr.input.length + 19) ≤ _; omega)

/-- **The executor** started at a `parse_request` on `A ++ g.W`: the absorbed prefix costs nothing but
its replies `E` in the log; then `g` is served as `run_from_stage` says. -/
theorem run_absorbed {A E L : Bytes} {g : Cfg} (ok : g.OK) (hab : Absorb g.cap g.mc A E) (hL : g.L0 = L ++ E)
    (c : Conn) (n fuel : Nat) (h : APre A L g c) (hsegs : c.env.segs = []) (hf : ans c.env.tr + 1 ≤ fuel)
    (hlen : 6 * c.env.tr.input.length + 20 ≤ 100000) : RunEnd g fuel c n :=
  run_via ok (APre A L g) (fun _ _ h a b c d e => h.cong a b c d e) (fun _ h => apre_poll ok hab hL h)
    (ans c.env.tr) c n fuel h hsegs (Nat.le_refl _) hf hlen

end Fcgi.E2E
