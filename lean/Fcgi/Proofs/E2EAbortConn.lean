import Fcgi.Proofs.E2EAbortStr
import Fcgi.Props.C11
/-!
# End-to-end composition (C11) — part 3: the connection task when the Stdin stream is cut by an
`AbortRequest`

`g : Cfg` is used as the carrier of the aborted request's data (`AbOK g a tail pr rest`: complete
well-formed Responder preamble `g.recs`, the Stdin records `g.body` sent before the abort with
content `g.content`, the `AbortRequest` record `a`, what follows on the wire `tail`, the handler
`.readAll :: rest` with `propagate = pr`, the status `g.st` that `close` is called with).

`BStage`: where the task stands in the life of that request at a poll boundary.  `bstage_poll`: one
poll from a stage ends on a transient `Pending` in a stage, or — `close` done — with the connection
finished (no KEEP_CONN) resp. about to start the next `parse_request` on `a.ser ++ tail` (`After`):
the stream parser never consumed the `AbortRequest` record; the next request parser gets it.
-/
namespace Fcgi.E2E
open Fcgi Fcgi.Req Fcgi.Str Fcgi.Async Fcgi.Run Fcgi.Spec

/-! ## A general executor -/

/-- **The executor** for stages `S`: every poll from a stage ends on a transient `Pending` in a
stage, or has the property `Q` from which the end of the run (`T`) follows. -/
theorem run_gen (S : Conn → Prop) (Q : Conn → Prop) (T : Conn → String → Prop)
    (hcong : ∀ c c', S c → c'.phase = c.phase → c'.scripts = c.scripts → c'.stop = c.stop →
      c'.env.mutex = c.env.mutex → TrSame c.env.tr c'.env.tr → S c')
    (hpoll : ∀ c, S c → (∃ c', Halts (6 * c.env.tr.input.length + 20) c c' .pending ∧ Link c c' ∧ S c' ∧
      c'.env.tr.woken = true ∧ ans c'.env.tr < ans c.env.tr) ∨ Q c)
    (hQ : ∀ (c : Conn) (n f : Nat), c.env.segs = [] → Q (prePoll c n none) →
      6 * c.env.tr.input.length + 20 ≤ 100000 → ∃ c'' fin, runTask (f + 1) c n none = (c'', fin) ∧ T c'' fin) :
    ∀ (A : Nat) (c : Conn) (n fuel : Nat), S c → c.env.segs = [] → ans c.env.tr ≤ A → A + 1 ≤ fuel →
      6 * c.env.tr.input.length + 20 ≤ 100000 → ∃ c'' fin, runTask fuel c n none = (c'', fin) ∧ T c'' fin := by
  intro A
  induction A with
  | zero =>
    intro c n fuel hS hsegs hA hf hlen
    obtain ⟨f, rfl⟩ : ∃ f, fuel = f + 1 := ⟨fuel - 1, by omega⟩
    obtain ⟨hsame, hph, hsc, hstop, hmx, hsg, hwk⟩ := prePoll_same c n hsegs
    have hans0 : ans (prePoll c n none).env.tr = ans c.env.tr := by unfold ans; rw [hsame.rd, hsame.wr]
    rcases hpoll _ (hcong _ _ hS hph hsc hstop hmx hsame) with ⟨c', hh, hl, hS', hw, ha⟩ | hq
    · omega
    · exact hQ c n f hsegs hq hlen
  | succ A ih =>
    intro c n fuel hS hsegs hA hf hlen
    obtain ⟨f, rfl⟩ : ∃ f, fuel = f + 1 := ⟨fuel - 1, by omega⟩
    obtain ⟨hsame, hph, hsc, hstop, hmx, hsg, hwk⟩ := prePoll_same c n hsegs
    have hans0 : ans (prePoll c n none).env.tr = ans c.env.tr := by unfold ans; rw [hsame.rd, hsame.wr]
    rcases hpoll _ (hcong _ _ hS hph hsc hstop hmx hsame) with ⟨c', hh, hl, hS', hw, ha⟩ | hq
    · have hpoll' := hh.poll (F := 100000) (by rw [hsame.input]; exact hlen)
      have hsg' : c'.env.segs = [] := hl.segs.trans hsg
      have hlen' : 6 * c'.env.tr.input.length + 20 ≤ 100000 := by
        have := hl.ts.inp
        rw [hsame.input] at this
        omega
      obtain ⟨c2, fin, h1, h2⟩ := ih c' (n + 1) f hS' hsg' (by omega) (by omega) hlen'
      refine ⟨c2, fin, ?_, h2⟩
      rw [runTask_succ, hpoll']
      simp only [hw, if_true]
      exact h1
    · exact hQ c n f hsegs hq hlen

/-! ## The aborted request -/

/-- the stream context of the aborted Stdin stream -/
def Cfg.KA (g : Cfg) : RCtx :=
  ⟨⟨g.p.id, g.p.role, 5, g.mc⟩, g.p.request, g.cap, g.X, g.content, owedStream g.p.id 5 g.mc g.body, g.U⟩

/-- the log when `close` is done: the replies owed for the preamble, those owed for the noise in the
stream before the abort (`O1` written by the reads, `O2` by `close`), the epilogue -/
def Cfg.LA (g : Cfg) (O1 O2 : Bytes) : Bytes := g.L1 ++ O1 ++ O2 ++ g.epi

/-- how the handler deals with the failing read: it propagates the error (then `close` is called
with `ExitStatus::ABORT`), or ignores it and returns its own status -/
def HMode (g : Cfg) (pr : Bool) (rest : List HOp) : Prop :=
  (pr = true ∧ g.st = ExitStatus.abort) ∨ (pr = false ∧ rest = [.ret g.st])

/-- The hypotheses on an aborted request. -/
structure AbOK (g : Cfg) (a : Rec) (tail : Bytes) (pr : Bool) (rest : List HOp) : Prop where
  wf : WellFormedPreamble g.p g.recs
  role : g.p.role = 1
  pairs : ∀ q ∈ g.p.pairs, (NV.enc q).length ≤ alignedBufsize g.b
  noise : NoiseFits (alignedBufsize g.b) g.recs
  body : Body g.p.id 5 g.content g.body
  bfits : NoiseFits (alignedBufsize g.b) g.body
  ab : IsAbort g.p.id a
  hX : g.X = serAll g.body ++ (a.ser ++ tail)
  hU : g.U = a.ser ++ tail
  hOt : g.Ot = owedStream g.p.id 5 g.mc g.body
  mode : HMode g pr rest
  /-- model fuel: `handlerPoll` gets `1000 + 4·|input|` units per poll -/
  hfu : alignedBufsize g.b / 32 + 12 ≤ 1000

/-- the handler's failed `readAll` is in the trace; it had collected a prefix of the content sent -/
def RaEv (g : Cfg) (t : Transport) : Prop :=
  ∃ acc lost, acc ++ lost = g.content ∧ raEvent acc ∈ t.events

theorem RaEv.step {g : Cfg} {t t' : Transport} (h : RaEv g t) (s : TStep t t') : RaEv g t' := by
  obtain ⟨acc, lost, h1, h2⟩ := h
  exact ⟨acc, lost, h1, s.mem_events h2⟩

/-- handler suspended in (or about to start) its `readAll` -/
structure HReadA (K : RCtx) (rest : List HOp) (pr : Bool) (L : Bytes) (r : AReq) (h : HState) (e : Run.Env) :
    Prop where
  ops : h.ops = .readAll :: rest
  ws : h.writers = []
  pr : h.propagate = pr
  rem : ∃ dO, RSt K L [] r e.mutex e.tr (accOf h.sub) dO

inductive BStage (g : Cfg) (pr : Bool) (rest : List HOp) : Conn → Prop
  | start {c : Conn} {raw : Bytes} (hph : c.phase = .parseReq ⟨g.cap, raw, .header, g.mc⟩ .start)
      (hwire : raw ++ c.env.tr.input = g.W) (hraw : raw.length ≤ g.cap) (hlog : c.env.tr.wlog = g.L0)
      (hb : Ben c.env.tr) (hstop : c.stop = false)
      (hsc : c.scripts = (.readAll :: rest, pr) :: g.more) (hm : c.env.mutex = none)
      (hev : hsCount c.env.tr.events = g.hs0) : BStage g pr rest c
  | parse {c : Conn} {F : Bytes} (hst : PSt g.cap g.mc g.W g.L0 [] c F)
      (hsc : c.scripts = (.readAll :: rest, pr) :: g.more) (hm : c.env.mutex = none)
      (hev : hsCount c.env.tr.events = g.hs0) : BStage g pr rest c
  | hread {c : Conn} {r : AReq} {h : HState} (hph : c.phase = .handler r h)
      (hr : HReadA g.KA rest pr g.L1 r h c.env) (hwr : r.writeable = true) (hb : Ben c.env.tr)
      (hstop : c.stop = false) (hev : Ev1 g c.env.tr) (hsc : c.scripts = g.more) : BStage g pr rest c
  | closeW {c : Conn} {r : AReq} {rest' O1 O2 : Bytes}
      (hph : c.phase = .closing r (.writeOut rest' g.epi) g.st 0) (hO : O1 ++ O2 = g.Ot)
      (hce : CEndW g r c.env.tr.input) (hm : c.env.mutex = none)
      (hlog : c.env.tr.wlog ++ rest' ++ g.epi = g.LA O1 O2)
      (hb : Ben c.env.tr) (hstop : c.stop = false) (hev : Ev1 g c.env.tr)
      (hra : RaEv g c.env.tr) (hsc : c.scripts = g.more) : BStage g pr rest c
  | close {c : Conn} {r : AReq} {rest' O1 O2 : Bytes} (hph : c.phase = .closing r (.writeEnd rest') g.st 0)
      (hO : O1 ++ O2 = g.Ot)
      (hce : CEnd g r c.env.tr.input) (hm : c.env.mutex = none) (hlog : c.env.tr.wlog ++ rest' = g.LA O1 O2)
      (hb : Ben c.env.tr) (hstop : c.stop = false) (hev : Ev1 g c.env.tr)
      (hra : RaEv g c.env.tr) (hsc : c.scripts = g.more) : BStage g pr rest c

/-- `close` is done and the connection is reused: it is about to start the next `parse_request`;
buffer ++ transport hold exactly the `AbortRequest` record and what followed it. -/
structure After (g : Cfg) (O1 O2 : Bytes) (c : Conn) : Prop where
  ph : ∃ raw, c.phase = .parseReq ⟨g.cap, raw, .header, g.mc⟩ .start ∧ raw ++ c.env.tr.input = g.U ∧
    raw.length ≤ g.cap
  log : c.env.tr.wlog = g.LA O1 O2
  ben : Ben c.env.tr
  stop : c.stop = false
  ev : Ev1 g c.env.tr
  ra : RaEv g c.env.tr
  sc : c.scripts = g.more
  mtx : c.env.mutex = none
  keep : g.p.flags.toNat % 2 = 1

/-- `close` is done and the connection is not reused -/
structure FinB (g : Cfg) (O1 O2 : Bytes) (c' : Conn) : Prop where
  ph : c'.phase = .finished
  log : c'.env.tr.wlog = g.LA O1 O2
  ev : Ev1 g c'.env.tr
  ra : RaEv g c'.env.tr
  sc : c'.scripts = g.more
  nokeep : g.p.flags.toNat % 2 = 0

/-- How a poll from a stage of the aborted request goes on. -/
def BRes (g : Cfg) (pr : Bool) (rest : List HOp) (N : Nat) (c : Conn) : Prop :=
  (∃ c', Halts N c c' .pending ∧ Link c c' ∧ BStage g pr rest c' ∧ c'.env.tr.woken = true ∧
      ans c'.env.tr < ans c.env.tr) ∨
  (∃ k c1 O1 O2, k ≤ N ∧ Steps k c c1 ∧ Link c c1 ∧ O1 ++ O2 = g.Ot ∧ After g O1 O2 c1) ∨
  (∃ c' O1 O2, Halts N c c' .finished ∧ Link c c' ∧ O1 ++ O2 = g.Ot ∧ FinB g O1 O2 c')

theorem BRes.of_steps {g : Cfg} {pr : Bool} {rest : List HOp} {k N : Nat} {c c1 : Conn} (hs : Steps k c c1)
    (hl : Link c c1) (h : BRes g pr rest N c1) : BRes g pr rest (k + N) c := by
  rcases h with ⟨c', hh, hl2, hS, hw, ha⟩ | ⟨k2, c2, O1, O2, hk, hs2, hl2, hO, haf⟩ | ⟨c', O1, O2, hh, hl2, hO, hf⟩
  · exact Or.inl ⟨c', hh.of_steps hs, hl.trans hl2, hS, hw, by have := hl.ts.ans_le; omega⟩
  · exact Or.inr (Or.inl ⟨k + k2, c2, O1, O2, by omega, hs.trans hs2, hl.trans hl2, hO, haf⟩)
  · exact Or.inr (Or.inr ⟨c', O1, O2, hh.of_steps hs, hl.trans hl2, hO, hf⟩)

theorem BRes.mono {g : Cfg} {pr : Bool} {rest : List HOp} {N M : Nat} {c : Conn} (h : BRes g pr rest N c)
    (hm : N ≤ M) : BRes g pr rest M c := by
  rcases h with ⟨c', hh, r⟩ | ⟨k2, c2, O1, O2, hk, r⟩ | ⟨c', O1, O2, hh, r⟩
  · exact Or.inl ⟨c', hh.mono hm, r⟩
  · exact Or.inr (Or.inl ⟨k2, c2, O1, O2, by omega, r⟩)
  · exact Or.inr (Or.inr ⟨c', O1, O2, hh.mono hm, r⟩)

/-! ## `close` -/

/-- A poll of `close` that is (back) in its last `write_all`. -/
theorem bclose_core {g : Cfg} {pr : Bool} {hrest : List HOp} {c : Conn} {r r2 : AReq} {cs : CloseSt}
    {rest O1 O2 : Bytes} {t1 : Transport} (hO : O1 ++ O2 = g.Ot)
    (hph : c.phase = .closing r cs g.st 0)
    (heq : closePoll r cs g.st 0 c.env.mutex c.env.tr = closePoll.finishEnd r2 rest c.env.mutex t1)
    (hts1 : TStep c.env.tr t1) (hin1 : t1.input = c.env.tr.input)
    (hce : CEnd g r2 c.env.tr.input) (hm : c.env.mutex = none) (hlog : t1.wlog ++ rest = g.LA O1 O2)
    (hb : Ben c.env.tr) (hstop : c.stop = false) (hev : Ev1 g c.env.tr)
    (hra : RaEv g c.env.tr) (hsc : c.scripts = g.more) :
    BRes g pr hrest 2 c := by
  have hstep := C07.closing_step c r cs g.st 0 hph
  rw [heq] at hstep
  have hb1 := hb.step hts1
  rcases finishEnd_cases r2 rest c.env.mutex hb1 with
    ⟨rest', t', hfe, hts0, hinp0, hwl, hwk, hans⟩ | ⟨t', hts0, hinp0, hwl, hfe⟩
  · have hts := hts1.trans hts0
    have hinp := hinp0.trans hin1
    rw [hfe] at hstep
    have hstep' : stepConn c = .halt (mkC c (.closing r2 (.writeEnd rest') g.st 0) t') .pending := hstep
    refine Or.inl ⟨mkC c (.closing r2 (.writeEnd rest') g.st 0) t', (Halts.now hstep').mono (by omega),
      mkC_link c _ hts, ?_, hwk, by show ans t' < ans c.env.tr; have := hts1.ans_le; omega⟩
    exact .close (r := r2) (rest' := rest') rfl hO (by show CEnd g r2 t'.input; rw [hinp]; exact hce) hm
      (by show t'.wlog ++ rest' = _; rw [hwl, hlog]) (hb.step hts) hstop (hev.step hts) (hra.step hts) hsc
  · have hts := hts1.trans hts0
    have hinp := hinp0.trans hin1
    rw [hfe, hce.req, hce.into] at hstep
    have hlog' : t'.wlog = g.LA O1 O2 := by rw [hwl, hlog]
    by_cases hk : g.p.flags.toNat % 2 = 1
    · have hreq : (g.p.request.flags.toNat % 2 == 1) = true := by simpa [Preamble.request] using hk
      simp only [hreq, if_true] at hstep
      have hstep' : stepConn c = .next (mkC c (.parseReq ⟨g.cap, r2.sp.raw, .header, g.mc⟩ .start) t') := hstep
      refine Or.inr (Or.inl ⟨1, _, O1, O2, by omega, Steps.one hstep', mkC_link c _ hts, hO,
        ⟨⟨r2.sp.raw, rfl, by show r2.sp.raw ++ t'.input = g.U; rw [hinp]; exact hce.wire, hce.rawlen⟩, hlog',
          hb.step hts, hstop, hev.step hts, hra.step hts, hsc, hm, hk⟩⟩)
    · have hreq : (g.p.request.flags.toNat % 2 == 1) = false := by simpa [Preamble.request] using hk
      simp only [hreq, Bool.false_eq_true, if_false] at hstep
      have hstep' : stepConn c = .halt (mkC c .finished t') .finished := hstep
      exact Or.inr (Or.inr ⟨mkC c .finished t', O1, O2, (Halts.now hstep').mono (by omega), mkC_link c _ hts, hO,
        ⟨rfl, hlog', hev.step hts, hra.step hts, hsc, by omega⟩⟩)

/-- A poll of `close` that is (back) in the `write_all` of the replies still queued in the parser. -/
theorem bclose_out {g : Cfg} {pr : Bool} {hrest : List HOp} {c : Conn} {r r2 : AReq} {cs : CloseSt}
    {rest O1 O2 : Bytes}
    (hO : O1 ++ O2 = g.Ot) (hph : c.phase = .closing r cs g.st 0)
    (heq : closePoll r cs g.st 0 c.env.mutex c.env.tr =
      closeP4 r2 c.env.mutex c.env.tr (.writeOut rest g.epi))
    (hce : CEndW g r2 c.env.tr.input) (hm : c.env.mutex = none)
    (hlog : c.env.tr.wlog ++ rest ++ g.epi = g.LA O1 O2)
    (hb : Ben c.env.tr) (hstop : c.stop = false) (hev : Ev1 g c.env.tr)
    (hra : RaEv g c.env.tr) (hsc : c.scripts = g.more) :
    BRes g pr hrest 2 c := by
  rcases hw : writeAllLoop (rest.length + 1) rest c.env.tr with ⟨rest', t', res⟩
  obtain ⟨hts, hinp, ⟨dn, hd, hl⟩, hres⟩ := writeAllLoop_ben _ _ _ hb (Nat.lt_succ_self _) hw
  rcases hres with ⟨rfl, rfl⟩ | ⟨rfl, _, hwk, hans⟩
  · -- the queued replies are out: on to the epilogue
    simp only [List.append_nil] at hd
    subst hd
    have heq' : closePoll r cs g.st 0 c.env.mutex c.env.tr =
        closePoll.finishEnd { r2 with sp := r2.sp.consumeOutput r2.sp.output.length } g.epi c.env.mutex t' := by
      rw [heq]; simp only [closeP4, hw]
    refine bclose_core hO hph heq' hts hinp ?_ hm (by rw [hl, ← hlog]) hb hstop hev hra hsc
    exact ⟨hce.pay, hce.pad, by simp [Str.Parser.consumeOutput], hce.wire, hce.req, hce.cap, hce.mc, hce.rawlen⟩
  · have hstep := C07.closing_step c r cs g.st 0 hph
    rw [heq] at hstep
    simp only [closeP4, hw] at hstep
    have hstep' : stepConn c = .halt (mkC c (.closing r2 (.writeOut rest' g.epi) g.st 0) t') .pending := hstep
    refine Or.inl ⟨_, (Halts.now hstep').mono (by omega), mkC_link c _ hts, ?_, hwk, hans⟩
    exact .closeW (r := r2) (rest' := rest') rfl hO (by show CEndW g r2 t'.input; rw [hinp]; exact hce) hm
      (by show t'.wlog ++ rest' ++ g.epi = _; rw [hl, ← hlog, hd]; simp only [List.append_assoc])
      (hb.step hts) hstop (hev.step hts) (hra.step hts) hsc

end Fcgi.E2E
