import Fcgi.Proofs.E2EAbortStr
import Fcgi.Props.C11
/-!
# End-to-end composition (C11) — part 3: the connection task when the Stdin stream is cut by an
`AbortRequest`

`g : Cfg` is used as the carrier of the aborted request's data (`AbOK g a tail pr rest`: complete
well-formed Responder preamble `g.recs`, the Stdin records `g.body` sent before the abort with
content `g.content`, the `AbortRequest` record `a`, what follows on the wire `tail`, the handler
`.readAll :: rest` with `propagate = pr`, the status `g.st` that `close` is called with).

`BStage`: where the task stands in the life of that request at a poll boundary.  `bstage_poll`: one
poll from a stage ends on a transient `Pending` in a stage, or — `close` done — with the connection
finished (no KEEP_CONN) resp. about to start the next `parse_request` on `a.ser ++ tail` (`After`):
the stream parser never consumed the `AbortRequest` record; the next request parser gets it.
-/
namespace Fcgi.E2E
open Fcgi Fcgi.Req Fcgi.Str Fcgi.Async Fcgi.Run Fcgi.Spec

/-! ## A general executor -/

/-- **The executor** for stages `S`: every poll from a stage ends on a transient `Pending` in a
stage, or has the property `Q` from which the end of the run (`T`) follows. -/
theorem run_gen (S : Conn → Prop) (Q : Conn → Prop) (T : Conn → String → Prop)
    (hcong : ∀ c c', S c → c'.phase = c.phase → c'.scripts = c.scripts → c'.stop = c.stop →
      c'.env.mutex = c.env.mutex → TrSame c.env.tr c'.env.tr → S c')
    (hpoll : ∀ c, S c → (∃ c', Halts (6 * c.env.tr.input.length + 26) c c' .pending ∧ Link c c' ∧ S c' ∧
      c'.env.tr.woken = true ∧ ans c'.env.tr < ans c.env.tr) ∨ Q c)
    (hQ : ∀ (c : Conn) (n f : Nat), S c → c.env.segs = [] → Q (prePoll c n none) → ans c.env.tr ≤ f →
      6 * c.env.tr.input.length + 26 ≤ 100000 → ∃ c'' fin, runTask (f + 1) c n none = (c'', fin) ∧ T c'' fin) :
    ∀ (A : Nat) (c : Conn) (n fuel : Nat), S c → c.env.segs = [] → ans c.env.tr ≤ A → A + 1 ≤ fuel →
      6 * c.env.tr.input.length + 26 ≤ 100000 → ∃ c'' fin, runTask fuel c n none = (c'', fin) ∧ T c'' fin := by
  intro A
  induction A with
  | zero =>
    intro c n fuel hS hsegs hA hf hlen
    obtain ⟨f, rfl⟩ : ∃ f, fuel = f + 1 := ⟨fuel - 1, by omega⟩
    obtain ⟨hsame, hph, hsc, hstop, hmx, hsg, hwk⟩ := prePoll_same c n hsegs
    have hans0 : ans (prePoll c n none).env.tr = ans c.env.tr := by unfold ans; rw [hsame.rd, hsame.wr]
    rcases hpoll _ (hcong _ _ hS hph hsc hstop hmx hsame) with ⟨c', hh, hl, hS', hw, ha⟩ | hq
    · omega
    · exact hQ c n f hS hsegs hq (by omega) hlen
  | succ A ih =>
    intro c n fuel hS hsegs hA hf hlen
    obtain ⟨f, rfl⟩ : ∃ f, fuel = f + 1 := ⟨fuel - 1, by omega⟩
    obtain ⟨hsame, hph, hsc, hstop, hmx, hsg, hwk⟩ := prePoll_same c n hsegs
    have hans0 : ans (prePoll c n none).env.tr = ans c.env.tr := by unfold ans; rw [hsame.rd, hsame.wr]
    rcases hpoll _ (hcong _ _ hS hph hsc hstop hmx hsame) with ⟨c', hh, hl, hS', hw, ha⟩ | hq
    · have hpoll' := hh.pollT (by rw [hsame.input]; exact hlen)
      have hsg' : c'.env.segs = [] := hl.segs.trans hsg
      have hlen' : 6 * c'.env.tr.input.length + 26 ≤ 100000 := by
        have := hl.ts.inp
        rw [hsame.input] at this
        omega
      obtain ⟨c2, fin, h1, h2⟩ := ih c' (n + 1) f hS' hsg' (by omega) (by omega) hlen'
      refine ⟨c2, fin, ?_, h2⟩
      rw [runTask_succ, hpoll']
      simp only [hw, if_true]
      exact h1
    · exact hQ c n f hS hsegs hq (by omega) hlen

/-- **The executor** for stages `S`, no bound on the size of the input: every poll from a stage ends on a transient `Pending` in a
stage, or has the property `Q` from which the end of the run (`T`) follows. -/
theorem run_gen' (S : Conn → Prop) (Q : Conn → Prop) (T : Conn → String → Prop)
    (hcong : ∀ c c', S c → c'.phase = c.phase → c'.scripts = c.scripts → c'.stop = c.stop →
      c'.env.mutex = c.env.mutex → TrSame c.env.tr c'.env.tr → S c')
    (hpoll : ∀ c, S c → (∃ c', Halts (6 * c.env.tr.input.length + 26) c c' .pending ∧ Link c c' ∧ S c' ∧
      c'.env.tr.woken = true ∧ ans c'.env.tr < ans c.env.tr) ∨ Q c)
    (hQ : ∀ (c : Conn) (n f : Nat), S c → c.env.segs = [] → Q (prePoll c n none) → ans c.env.tr ≤ f →
      ∃ c'' fin, runTask (f + 1) c n none = (c'', fin) ∧ T c'' fin) :
    ∀ (A : Nat) (c : Conn) (n fuel : Nat), S c → c.env.segs = [] → ans c.env.tr ≤ A → A + 1 ≤ fuel →
      ∃ c'' fin, runTask fuel c n none = (c'', fin) ∧ T c'' fin := by
  intro A
  induction A with
  | zero =>
    intro c n fuel hS hsegs hA hf
    obtain ⟨f, rfl⟩ : ∃ f, fuel = f + 1 := ⟨fuel - 1, by omega⟩
    obtain ⟨hsame, hph, hsc, hstop, hmx, hsg, hwk⟩ := prePoll_same c n hsegs
    have hans0 : ans (prePoll c n none).env.tr = ans c.env.tr := by unfold ans; rw [hsame.rd, hsame.wr]
    rcases hpoll _ (hcong _ _ hS hph hsc hstop hmx hsame) with ⟨c', hh, hl, hS', hw, ha⟩ | hq
    · omega
    · exact hQ c n f hS hsegs hq (by omega)
  | succ A ih =>
    intro c n fuel hS hsegs hA hf
    obtain ⟨f, rfl⟩ : ∃ f, fuel = f + 1 := ⟨fuel - 1, by omega⟩
    obtain ⟨hsame, hph, hsc, hstop, hmx, hsg, hwk⟩ := prePoll_same c n hsegs
    have hans0 : ans (prePoll c n none).env.tr = ans c.env.tr := by unfold ans; rw [hsame.rd, hsame.wr]
    rcases hpoll _ (hcong _ _ hS hph hsc hstop hmx hsame) with ⟨c', hh, hl, hS', hw, ha⟩ | hq
    · have hpoll' := hh.pollB (Nat.le_refl _)
      have hsg' : c'.env.segs = [] := hl.segs.trans hsg
      obtain ⟨c2, fin, h1, h2⟩ := ih c' (n + 1) f hS' hsg' (by omega) (by omega)
      refine ⟨c2, fin, ?_, h2⟩
      rw [runTask_succ, hpoll']
      simp only [hw, if_true]
      exact h1
    · exact hQ c n f hS hsegs hq (by omega)


/-! ## The aborted request -/

/-- the stream context of the aborted Stdin stream -/
def Cfg.KA (g : Cfg) : RCtx :=
  ⟨⟨g.p.id, g.p.role, 5, g.mc⟩, g.p.request, g.cap, g.X, g.content, owedStream g.p.id 5 g.mc g.body, g.U⟩

/-- the log when `close` is done: the replies owed for the preamble, those owed for the noise in the
stream before the abort (`O1` written by the reads, `O2` by `close`), the epilogue -/
def Cfg.LA (g : Cfg) (O1 O2 : Bytes) : Bytes := g.L1 ++ O1 ++ O2 ++ g.epi

/-- how the handler deals with the failing read: it propagates the error (then `close` is called
with `ExitStatus::ABORT`), or ignores it and returns its own status -/
def HMode (g : Cfg) (pr : Bool) (rest : List HOp) : Prop :=
  (pr = true ∧ g.st = ExitStatus.abort) ∨ (pr = false ∧ rest = [.ret g.st])

/-- The hypotheses on an aborted request. -/
structure AbOK (g : Cfg) (a : Rec) (tail : Bytes) (pr : Bool) (rest : List HOp) : Prop where
  wf : WellFormedPreamble g.p g.recs
  role : g.p.role = 1
  pairs : ∀ q ∈ g.p.pairs, (NV.enc q).length ≤ alignedBufsize g.b
  noise : NoiseFits (alignedBufsize g.b) g.recs
  body : Body g.p.id 5 g.content g.body
  bfits : NoiseFits (alignedBufsize g.b) g.body
  ab : IsAbort g.p.id a
  hX : g.X = serAll g.body ++ (a.ser ++ tail)
  hU : g.U = a.ser ++ tail
  hOt : g.Ot = owedStream g.p.id 5 g.mc g.body
  mode : HMode g pr rest

/-- the handler's failed `readAll` is in the trace; it had collected a prefix of the content sent -/
def RaEv (g : Cfg) (t : Transport) : Prop :=
  ∃ acc lost, acc ++ lost = g.content ∧ raEvent acc ∈ t.events

theorem RaEv.step {g : Cfg} {t t' : Transport} (h : RaEv g t) (s : TStep t t') : RaEv g t' := by
  obtain ⟨acc, lost, h1, h2⟩ := h
  exact ⟨acc, lost, h1, s.mem_events h2⟩

/-- handler suspended in (or about to start) its `readAll` -/
structure HReadA (K : RCtx) (rest : List HOp) (pr : Bool) (L : Bytes) (r : AReq) (h : HState) (e : Run.Env) :
    Prop where
  ops : h.ops = .readAll :: rest
  ws : h.writers = []
  pr : h.propagate = pr
  rem : ∃ dO, RSt K L [] r e.mutex e.tr (accOf h.sub) dO

inductive BStage (g : Cfg) (pr : Bool) (rest : List HOp) : Conn → Prop
  | start {c : Conn} {raw : Bytes} (hph : c.phase = .parseReq ⟨g.cap, raw, .header, g.mc⟩ .start)
      (hwire : raw ++ c.env.tr.input = g.W) (hraw : raw.length ≤ g.cap) (hlog : c.env.tr.wlog = g.L0)
      (hb : Ben c.env.tr) (hstop : c.stop = false)
      (hsc : c.scripts = (.readAll :: rest, pr) :: g.more) (hm : c.env.mutex = none)
      (hev : hsCount c.env.tr.events = g.hs0) : BStage g pr rest c
  | parse {c : Conn} {F : Bytes} (hst : PSt g.cap g.mc g.W g.L0 [] c F)
      (hsc : c.scripts = (.readAll :: rest, pr) :: g.more) (hm : c.env.mutex = none)
      (hev : hsCount c.env.tr.events = g.hs0) : BStage g pr rest c
  | hread {c : Conn} {r : AReq} {h : HState} (hph : c.phase = .handler r h)
      (hr : HReadA g.KA rest pr g.L1 r h c.env) (hwr : r.writeable = true) (hb : Ben c.env.tr)
      (hstop : c.stop = false) (hev : Ev1 g c.env.tr) (hsc : c.scripts = g.more) : BStage g pr rest c
  | closeW {c : Conn} {r : AReq} {rest' O1 O2 : Bytes}
      (hph : c.phase = .closing r (.writeOut rest' g.epi) g.st 0) (hO : O1 ++ O2 = g.Ot)
      (hce : CEndW g r c.env.tr.input) (hm : c.env.mutex = none)
      (hlog : c.env.tr.wlog ++ rest' ++ g.epi = g.LA O1 O2)
      (hb : Ben c.env.tr) (hstop : c.stop = false) (hev : Ev1 g c.env.tr)
      (hra : RaEv g c.env.tr) (hsc : c.scripts = g.more) : BStage g pr rest c
  | close {c : Conn} {r : AReq} {rest' O1 O2 : Bytes} (hph : c.phase = .closing r (.writeEnd rest') g.st 0)
      (hO : O1 ++ O2 = g.Ot)
      (hce : CEnd g r c.env.tr.input) (hm : c.env.mutex = none) (hlog : c.env.tr.wlog ++ rest' = g.LA O1 O2)
      (hb : Ben c.env.tr) (hstop : c.stop = false) (hev : Ev1 g c.env.tr)
      (hra : RaEv g c.env.tr) (hsc : c.scripts = g.more) : BStage g pr rest c

/-- `close` is done and the connection is reused: it is about to start the next `parse_request`;
buffer ++ transport hold exactly the `AbortRequest` record and what followed it. -/
structure After (g : Cfg) (O1 O2 : Bytes) (c : Conn) : Prop where
  ph : ∃ raw, c.phase = .parseReq ⟨g.cap, raw, .header, g.mc⟩ .start ∧ raw ++ c.env.tr.input = g.U ∧
    raw.length ≤ g.cap
  log : c.env.tr.wlog = g.LA O1 O2
  ben : Ben c.env.tr
  stop : c.stop = false
  ev : Ev1 g c.env.tr
  ra : RaEv g c.env.tr
  sc : c.scripts = g.more
  mtx : c.env.mutex = none
  keep : g.p.flags.toNat % 2 = 1

/-- `close` is done and the connection is not reused -/
structure FinB (g : Cfg) (O1 O2 : Bytes) (c' : Conn) : Prop where
  ph : c'.phase = .finished
  log : c'.env.tr.wlog = g.LA O1 O2
  ev : Ev1 g c'.env.tr
  ra : RaEv g c'.env.tr
  sc : c'.scripts = g.more
  nokeep : g.p.flags.toNat % 2 = 0

/-- How a poll from a stage of the aborted request goes on. -/
def BRes (g : Cfg) (pr : Bool) (rest : List HOp) (N : Nat) (c : Conn) : Prop :=
  (∃ c', Halts N c c' .pending ∧ Link c c' ∧ BStage g pr rest c' ∧ c'.env.tr.woken = true ∧
      ans c'.env.tr < ans c.env.tr) ∨
  (∃ k c1 O1 O2, k ≤ N ∧ Steps k c c1 ∧ Link c c1 ∧ O1 ++ O2 = g.Ot ∧ After g O1 O2 c1) ∨
  (∃ c' O1 O2, Halts N c c' .finished ∧ Link c c' ∧ O1 ++ O2 = g.Ot ∧ FinB g O1 O2 c')

theorem BRes.of_steps {g : Cfg} {pr : Bool} {rest : List HOp} {k N : Nat} {c c1 : Conn} (hs : Steps k c c1)
    (hl : Link c c1) (h : BRes g pr rest N c1) : BRes g pr rest (k + N) c := by
  rcases h with ⟨c', hh, hl2, hS, hw, ha⟩ | ⟨k2, c2, O1, O2, hk, hs2, hl2, hO, haf⟩ | ⟨c', O1, O2, hh, hl2, hO, hf⟩
  · exact Or.inl ⟨c', hh.of_steps hs, hl.trans hl2, hS, hw, by have := hl.ts.ans_le; omega⟩
  · exact Or.inr (Or.inl ⟨k + k2, c2, O1, O2, by omega, hs.trans hs2, hl.trans hl2, hO, haf⟩)
  · exact Or.inr (Or.inr ⟨c', O1, O2, hh.of_steps hs, hl.trans hl2, hO, hf⟩)

theorem BRes.mono {g : Cfg} {pr : Bool} {rest : List HOp} {N M : Nat} {c : Conn} (h : BRes g pr rest N c)
    (hm : N ≤ M) : BRes g pr rest M c := by
  rcases h with ⟨c', hh, r⟩ | ⟨k2, c2, O1, O2, hk, r⟩ | ⟨c', O1, O2, hh, r⟩
  · exact Or.inl ⟨c', hh.mono hm, r⟩
  · exact Or.inr (Or.inl ⟨k2, c2, O1, O2, by omega, r⟩)
  · exact Or.inr (Or.inr ⟨c', O1, O2, hh.mono hm, r⟩)

/-! ## `close` -/

/-- A poll of `close` that is (back) in its last `write_all`. -/
theorem bclose_core {g : Cfg} {pr : Bool} {hrest : List HOp} {c : Conn} {r r2 : AReq} {cs : CloseSt}
    {rest O1 O2 : Bytes} {t1 : Transport} (hO : O1 ++ O2 = g.Ot)
    (hph : c.phase = .closing r cs g.st 0)
    (heq : closePoll r cs g.st 0 c.env.mutex c.env.tr = closePoll.finishEnd r2 rest c.env.mutex t1)
    (hts1 : TStep c.env.tr t1) (hin1 : t1.input = c.env.tr.input)
    (hce : CEnd g r2 c.env.tr.input) (hm : c.env.mutex = none) (hlog : t1.wlog ++ rest = g.LA O1 O2)
    (hb : Ben c.env.tr) (hstop : c.stop = false) (hev : Ev1 g c.env.tr)
    (hra : RaEv g c.env.tr) (hsc : c.scripts = g.more) :
    BRes g pr hrest 2 c := by
  have hstep := C07.closing_step c r cs g.st 0 hph
  rw [heq] at hstep
  have hb1 := hb.step hts1
  rcases finishEnd_cases r2 rest c.env.mutex hb1 with
    ⟨rest', t', hfe, hts0, hinp0, hwl, hwk, hans⟩ | ⟨t', hts0, hinp0, hwl, hfe⟩
  · have hts := hts1.trans hts0
    have hinp := hinp0.trans hin1
    rw [hfe] at hstep
    have hstep' : stepConn c = .halt (mkC c (.closing r2 (.writeEnd rest') g.st 0) t') .pending := hstep
    refine Or.inl ⟨mkC c (.closing r2 (.writeEnd rest') g.st 0) t', (Halts.now hstep').mono (by omega),
      mkC_link c _ hts, ?_, hwk, by show ans t' < ans c.env.tr; have := hts1.ans_le; omega⟩
    exact .close (r := r2) (rest' := rest') rfl hO (by show CEnd g r2 t'.input; rw [hinp]; exact hce) hm
      (by show t'.wlog ++ rest' = _; rw [hwl, hlog]) (hb.step hts) hstop (hev.step hts) (hra.step hts) hsc
  · have hts := hts1.trans hts0
    have hinp := hinp0.trans hin1
    rw [hfe, hce.req, hce.into] at hstep
    have hlog' : t'.wlog = g.LA O1 O2 := by rw [hwl, hlog]
    by_cases hk : g.p.flags.toNat % 2 = 1
    · have hreq : (g.p.request.flags.toNat % 2 == 1) = true := by simpa [Preamble.request] using hk
      simp only [hreq, if_true] at hstep
      have hstep' : stepConn c = .next (mkC c (.parseReq ⟨g.cap, r2.sp.raw, .header, g.mc⟩ .start) t') := hstep
      refine Or.inr (Or.inl ⟨1, _, O1, O2, by omega, Steps.one hstep', mkC_link c _ hts, hO,
        ⟨⟨r2.sp.raw, rfl, by show r2.sp.raw ++ t'.input = g.U; rw [hinp]; exact hce.wire, hce.rawlen⟩, hlog',
          hb.step hts, hstop, hev.step hts, hra.step hts, hsc, hm, hk⟩⟩)
    · have hreq : (g.p.request.flags.toNat % 2 == 1) = false := by simpa [Preamble.request] using hk
      simp only [hreq, Bool.false_eq_true, if_false] at hstep
      have hstep' : stepConn c = .halt (mkC c .finished t') .finished := hstep
      exact Or.inr (Or.inr ⟨mkC c .finished t', O1, O2, (Halts.now hstep').mono (by omega), mkC_link c _ hts, hO,
        ⟨rfl, hlog', hev.step hts, hra.step hts, hsc, by omega⟩⟩)

/-- A poll of `close` that is (back) in the `write_all` of the replies still queued in the parser. -/
theorem bclose_out {g : Cfg} {pr : Bool} {hrest : List HOp} {c : Conn} {r r2 : AReq} {cs : CloseSt}
    {rest O1 O2 : Bytes}
    (hO : O1 ++ O2 = g.Ot) (hph : c.phase = .closing r cs g.st 0)
    (heq : closePoll r cs g.st 0 c.env.mutex c.env.tr =
      closeP4 r2 c.env.mutex c.env.tr (.writeOut rest g.epi))
    (hce : CEndW g r2 c.env.tr.input) (hm : c.env.mutex = none)
    (hlog : c.env.tr.wlog ++ rest ++ g.epi = g.LA O1 O2)
    (hb : Ben c.env.tr) (hstop : c.stop = false) (hev : Ev1 g c.env.tr)
    (hra : RaEv g c.env.tr) (hsc : c.scripts = g.more) :
    BRes g pr hrest 2 c := by
  rcases hw : writeAllLoop (rest.length + 1) rest c.env.tr with ⟨rest', t', res⟩
  obtain ⟨hts, hinp, ⟨dn, hd, hl⟩, hres⟩ := writeAllLoop_ben _ _ _ hb (Nat.lt_succ_self _) hw
  rcases hres with ⟨rfl, rfl⟩ | ⟨rfl, _, hwk, hans⟩
  · -- the queued replies are out: on to the epilogue
    simp only [List.append_nil] at hd
    subst hd
    have heq' : closePoll r cs g.st 0 c.env.mutex c.env.tr =
        closePoll.finishEnd { r2 with sp := r2.sp.consumeOutput r2.sp.output.length } g.epi c.env.mutex t' := by
      rw [heq]; simp only [closeP4, hw]
    refine bclose_core hO hph heq' hts hinp ?_ hm (by rw [hl, ← hlog]) hb hstop hev hra hsc
    exact ⟨hce.pay, hce.pad, by simp [Str.Parser.consumeOutput], hce.wire, hce.req, hce.cap, hce.mc, hce.rawlen⟩
  · have hstep := C07.closing_step c r cs g.st 0 hph
    rw [heq] at hstep
    simp only [closeP4, hw] at hstep
    have hstep' : stepConn c = .halt (mkC c (.closing r2 (.writeOut rest' g.epi) g.st 0) t') .pending := hstep
    refine Or.inl ⟨_, (Halts.now hstep').mono (by omega), mkC_link c _ hts, ?_, hwk, hans⟩
    exact .closeW (r := r2) (rest' := rest') rfl hO (by show CEndW g r2 t'.input; rw [hinp]; exact hce) hm
      (by show t'.wlog ++ rest' ++ g.epi = _; rw [hl, ← hlog, hd]; simp only [List.append_assoc])
      (hb.step hts) hstop (hev.step hts) (hra.step hts) hsc

/-! ## The reference on the aborted stream's wire -/

theorem stop_add_abort : ∀ n, Stop.add n (.abort 0) = .abort n := by
  intro n
  induction n with
  | zero => rfl
  | succ n ih => simp only [Stop.add, ih, Stop.succ]

/-- the records of the stream before the abort, the `AbortRequest` record, then ANY bytes: the
reference stops in front of the `AbortRequest` record -/
theorem refWire_abort (E : Str.Cfg) (hs : E.s = 5 ∨ E.s = 8) (hid : E.id < 65536) {content : Bytes}
    {body : List Rec} (hb : Body E.id E.s content body) (a : Rec) (ha : a.WF)
    (hcls : rclass E a = .abort) (tail : Bytes) :
    refWire E (serAll (body ++ [a]) ++ tail) =
      ⟨content, owedStream E.id E.s E.mc body, .err .abortRequest, a.ser ++ tail⟩ := by
  have hwf : ∀ r ∈ body ++ [a], r.WF := by
    intro r hr
    rcases List.mem_append.1 hr with hr | hr
    · exact body_wf hid hb r hr
    · rw [List.mem_singleton.1 hr]; exact ha
  have htl : refRun E [a] = ⟨[], [], .abort 0⟩ := by simp only [refRun, hcls]
  rw [← ref_eq_refWire E .skip, ref_serAll E _ hwf tail .skip, refRun_body_app hs hb, htl]
  simp only [stop_add_abort, glue, List.append_nil, List.drop_left', C02.serAll_single]

theorem isAbort_wf {id : Nat} {a : Rec} (h : IsAbort id a) (hid : id < 65536) : a.WF :=
  ⟨by rw [h.2.1]; exact hid, h.2.2.1, h.2.2.2⟩

theorem kaok {g : Cfg} {a : Rec} {tail : Bytes} {pr : Bool} {rest : List HOp} (ok : AbOK g a tail pr rest) :
    g.KA.Aborted := by
  have hid := (pid_of_wf ok.wf).2
  have hwa := isAbort_wf ok.ab hid
  have hcls : rclass ⟨g.p.id, g.p.role, 5, g.mc⟩ a = .abort := by
    simp [rclass, ok.ab.1, ok.ab.2.1, RT.isInputStream, RT.abortRequest]
  have hXs : g.X = serAll (g.body ++ [a]) ++ tail := by
    rw [ok.hX, C02.serAll_append, C02.serAll_single, List.append_assoc]
  have href := refWire_abort ⟨g.p.id, g.p.role, 5, g.mc⟩ (Or.inl rfl) hid ok.body a hwa hcls tail
  have hwf : ∀ r ∈ g.body ++ [a], r.WF := by
    intro r hr
    rcases List.mem_append.1 hr with hr | hr
    · exact body_wf hid ok.body r hr
    · rw [List.mem_singleton.1 hr]; exact hwa
  have h24 := cap24 g
  refine ⟨?_, ?_, by show 8 ≤ g.cap; omega⟩
  · show refWire ⟨g.p.id, g.p.role, 5, g.mc⟩ g.X = _
    rw [hXs, href]
    simp only [Cfg.KA, ok.hU]
  · intro G hG hv
    have hG' : G <+: serAll (g.body ++ [a]) ++ tail := by rw [← hXs]; exact hG
    have hfull : (refWire ⟨g.p.id, g.p.role, 5, g.mc⟩ (serAll (g.body ++ [a]))).verdict ≠ .more := by
      have := refWire_abort ⟨g.p.id, g.p.role, 5, g.mc⟩ (Or.inl rfl) hid ok.body a hwa hcls []
      rw [List.append_nil] at this
      rw [this]; intro h; cases h
    rcases prefix_append_cases hG' with ⟨e, rfl, _⟩ | ⟨t, _, hFt⟩
    · exfalso
      have := refWire_abort ⟨g.p.id, g.p.role, 5, g.mc⟩ (Or.inl rfl) hid ok.body a hwa hcls e
      have hv' : (refWire ⟨g.p.id, g.p.role, 5, g.mc⟩ (serAll (g.body ++ [a]) ++ e)).verdict = .more := hv
      rw [this] at hv'
      cases hv'
    · refine stream_fits ⟨g.p.id, g.p.role, 5, g.mc⟩ _ hwf hfull
        (by show 8 ≤ alignedBufsize g.b; exact Nat.le_trans (by omega) h24) ?_ G ⟨t, hFt⟩ hv
      intro r hr hg
      rcases List.mem_append.1 hr with hr | hr
      · exact ok.bfits r hr hg
      · rw [List.mem_singleton.1 hr] at hg
        exact absurd hg.1 (by rw [ok.ab.1]; decide)

/-! ## The handler phase -/

theorem AtAbort.congr {K : RCtx} {L P : Bytes} {r : AReq} {t t' : Transport} (h : AtAbort K L P r t)
    (hi : t'.input = t.input) (hw : t'.wlog = t.wlog) : AtAbort K L P r t' :=
  ⟨h.lock, h.pay, h.pad, by rw [hi]; exact h.wire, h.sinv, h.req, h.capK, h.mcK, by rw [hw]; exact h.log⟩

/-- `close` called right after the handler is done with the aborted request -/
theorem bclose_start {g : Cfg} {a : Rec} {tail : Bytes} {pr : Bool} {rest : List HOp}
    (ok : AbOK g a tail pr rest) {c : Conn} {r : AReq} (hph : c.phase = .closing r .start g.st 0)
    (hat : AtAbort g.KA g.L1 [] r c.env.tr) (hwr : r.writeable = true) (hm : c.env.mutex = none)
    (hb : Ben c.env.tr) (hstop : c.stop = false) (hev : Ev1 g c.env.tr) (hra : RaEv g c.env.tr)
    (hsc : c.scripts = g.more) : BRes g pr rest 2 c := by
  have hfin : REnd g.N r c.env.tr.input := by
    refine ⟨hwr, hat.lock, hat.pay, hat.pad, hat.wire, hat.req, hat.capK, hat.mcK, ?_, hat.sinv⟩
    have := hat.sinv.1
    have hc := hat.capK
    simp only [Str.Parser.freeStart] at this
    show r.sp.raw.length ≤ g.cap
    have hc' : r.sp.cap = g.cap := hc
    omega
  obtain ⟨heq, hce⟩ := close_start_eq (g := g) hfin
  obtain ⟨O1, hl1, hl2⟩ := hat.log
  have hO : O1 ++ r.sp.output = g.Ot := by rw [hl2, ok.hOt]; rfl
  exact bclose_out hO hph (by rw [hm]; exact heq) hce hm (by rw [hl1]; rfl) hb hstop hev hra hsc

/-- One poll that starts with the handler in its `readAll`. -/
theorem bread_core {g : Cfg} {a : Rec} {tail : Bytes} {pr : Bool} {rest : List HOp}
    (ok : AbOK g a tail pr rest) {c : Conn} {r : AReq} {h : HState} (hph : c.phase = .handler r h)
    (hr : HReadA g.KA rest pr g.L1 r h c.env) (hwr : r.writeable = true) (hb : Ben c.env.tr)
    (hstop : c.stop = false) (hev : Ev1 g c.env.tr) (hsc : c.scripts = g.more) :
    BRes g pr rest 4 c := by
  obtain ⟨ops, sub, ws, prop⟩ := h
  obtain ⟨hops, hws, hpr, ⟨dO, hs⟩⟩ := hr
  simp only at hops hws hpr hs
  subst hops hws hpr
  have hK := kaok ok
  obtain ⟨G0, hi0⟩ := hs.inv
  have hrl := hi0.rem_leA hK
  have hfuel := handlerFuel_ge' c.env r
  have hcapr : r.sp.cap = g.KA.cap := hi0.capK
  have hcapK : g.KA.cap = alignedBufsize g.b := rfl
  have hstep := C07.handler_step c r _ hph
  rcases readAll_runA hK (L := g.L1) (P := []) rest [] prop
      (2 * ((g.KA.C.length - (accOf sub).length) / 64) + 2 * c.env.tr.input.length + 2) ((handlerFuel c.env r + scriptOf c))
      r sub c.env dO 1 (by omega) (by omega) (fun h => by omega) hb hs with
    ⟨r', acc', e', dO', d1, d3, d5, d6, d8, d9, d10⟩ |
    ⟨r', acc, lost, e', f', d1, d2, d3, d4, d5, d6, d7, d8⟩
  · rw [d1] at hstep
    have hstep' : stepConn c = .halt ⟨.handler r' ⟨.readAll :: rest, .readAllAcc acc', [], prop⟩, e', c.scripts, c.stop⟩
        .pending := hstep
    exact Or.inl ⟨_, Halts.now hstep' |>.mono (by omega), ⟨d6.w, d5, rfl⟩,
      .hread rfl ⟨rfl, rfl, rfl, dO', d3⟩ (d10 hwr) (hb.step d6) hstop (hev.step d6) hsc, d8, d9⟩
  · -- the read failed with `ConnectionAborted`
    have hts1 : TStep c.env.tr (e'.ev (raEvent acc)).tr := d7.trans (TStep.ev _ (isHS_raEvent _))
    have hra1 : RaEv g (e'.ev (raEvent acc)).tr :=
      ⟨acc, lost, d3, by show raEvent acc ∈ e'.tr.events ++ [raEvent acc]; simp⟩
    -- what the connection does once the handler has returned `res` with status `g.st`
    have fin : ∀ (ev : String), isHS ev = false →
        stepConn c = .next ⟨.closing r' .start g.st 0, (e'.ev (raEvent acc)).ev ev, c.scripts, c.stop⟩ →
        BRes g prop rest 4 c := by
      intro ev hq hstep'
      have hts2 : TStep c.env.tr ((e'.ev (raEvent acc)).ev ev).tr := hts1.trans (TStep.ev _ hq)
      have hcore := bclose_start ok
        (c := ⟨.closing r' .start g.st 0, (e'.ev (raEvent acc)).ev ev, c.scripts, c.stop⟩) rfl
        (d4.congr rfl rfl) (d8 hwr) d5 (hb.step hts2) hstop (hev.step hts2)
        (hra1.step (TStep.ev _ hq)) hsc
      exact (BRes.of_steps (Steps.one hstep') ⟨hts2.w, d6, rfl⟩ hcore).mono (by omega)
    rcases ok.mode with ⟨hp, hst⟩ | ⟨hp, hrest⟩
    · subst hp
      simp only [if_true] at d1
      rw [d1] at hstep
      simp only [if_true] at hstep
      refine fin "HE(err:abort-request)" (by decide) ?_
      rw [hst]
      exact hstep
    · subst hp hrest
      simp only [Bool.false_eq_true, if_false] at d1
      obtain ⟨f2, rfl⟩ : ∃ f2, f' = f2 + 1 := ⟨f' - 1, by omega⟩
      rw [hp_ret] at d1
      rw [d1] at hstep
      exact fin s!"HE(ok:{showStatus g.st})" (by simp [isHS, toString_str]) hstep

/-! ## `parse_request` of the aborted request -/

theorem bns {g : Cfg} {a : Rec} {tail : Bytes} {pr : Bool} {rest : List HOp} (ok : AbOK g a tail pr rest) :
    NoStuckW g.cap g.mc g.W := noStuck_of ok.wf g.X g.b g.mc ok.pairs ok.noise

theorem bparse_poll {g : Cfg} {a : Rec} {tail : Bytes} {pr : Bool} {rest : List HOp}
    (ok : AbOK g a tail pr rest) {c : Conn} {F : Bytes}
    (hst : PSt g.cap g.mc g.W g.L0 [] c F) (hsc : c.scripts = (.readAll :: rest, pr) :: g.more)
    (hm : c.env.mutex = none) (hev : hsCount c.env.tr.events = g.hs0) :
    BRes g pr rest (2 * c.env.tr.input.length + 8) c := by
  obtain ⟨n, c1, F1, hn, hs, hfr, hout⟩ := parse_loop (cap24 g) (bns ok) _ c F hst (Nat.le_refl _)
  have hnb : n ≤ 2 * c.env.tr.input.length + 2 := by have := wbit_le c; omega
  rcases hout with ⟨c2, h1, h2, h3, h4, h5⟩ | ⟨wrest, t', hph, hf, hw, hstop1, hben1, hrem1, hwa, hlog, hts', hinp'⟩ |
      ⟨hin, hnf, hph, hst1⟩
  · refine Or.inl ⟨c2, ⟨n, c1, by omega, hs, h1⟩, hfr.link.trans h3.link, ?_, h4,
      by have := hfr.ts.ans_le; omega⟩
    have hts := hfr.ts.trans h3.ts
    exact .parse h2 (h3.scripts.trans (hfr.scripts.trans hsc)) (h3.mutex.trans (hfr.mutex.trans hm))
      (hts.hs.trans hev)
  · -- the preamble is complete and its replies are written: the handler starts
    have hsc1 : c1.scripts = (.readAll :: rest, pr) :: g.more := hfr.scripts.trans hsc
    have hmx1 : c1.env.mutex = none := hfr.mutex.trans hm
    have hw' : F1 ++ c1.env.tr.input = g.W := by simpa using hw
    have hF1 : F1 <+: serAll g.recs ++ g.X := ⟨c1.env.tr.input, by simpa [Cfg.W] using hw'⟩
    rcases C06.run_wire_state ok.wf g.X hF1 g.mc with ⟨e1, hFe, he1, hrun⟩ | ⟨t, _, _, hnf⟩
    · have hd : (track g.cap g.mc F1).state = .done g.p.request := by simp only [track, hrun]
      obtain ⟨r, hrq, hr, hstep⟩ := C07.done_starts_handler c1 (track g.cap g.mc F1) wrest [] t' g.p.request
        hph hstop1 hwa hd
      rw [hsc1] at hstep
      have hcap : (track g.cap g.mc F1).cap = g.cap := rfl
      have hinput : (track g.cap g.mc F1).input = e1 := by simp only [track, hrun]
      have hmc : (track g.cap g.mc F1).maxConns = g.mc := rfl
      rw [hcap, hinput, hmc] at hr
      subst hr
      have hwire : e1 ++ c1.env.tr.input = g.X := by
        have : F1 ++ c1.env.tr.input = serAll g.recs ++ g.X := by simpa [Cfg.W] using hw'
        rw [hFe, List.append_assoc] at this
        exact List.append_cancel_left this
      have he1len : e1.length ≤ g.cap := by
        have := hrem1; rw [hrun] at this; exact this
      have hL1 : t'.wlog = g.L1 := by rw [hlog, hrun]; rfl
      have hstep' : stepConn c1 = .next
          ⟨.handler (AReq.new (Str.Parser.fromParser g.cap g.p.request e1 g.mc))
              { ops := .readAll :: rest, propagate := pr },
            (⟨t', c1.env.mutex, c1.env.segs⟩ : Run.Env).ev (hsEvent g.p.request), g.more, false⟩ := hstep
      have hwsE : WStep c1.env.tr (t'.ev (hsEvent g.p.request)) :=
        hts'.w.trans ⟨List.suffix_refl _, List.suffix_refl _, rfl, rfl, Or.inl rfl, Nat.le_refl _,
          fun s hs => List.mem_append_left _ hs⟩
      have hev1 : Ev1 g (t'.ev (hsEvent g.p.request)) := by
        have h0 : hsCount t'.events = g.hs0 := (hfr.ts.trans hts').hs.trans hev
        constructor
        · show hsCount (t'.events ++ [hsEvent g.p.request]) = g.hs0 + 1
          rw [hsCount_append, h0, hsCount_single_true (isHS_hsEvent _)]
        · show hsEvent g.p.request ∈ t'.events ++ [hsEvent g.p.request]
          simp
      have hben2 : Ben (t'.ev (hsEvent g.p.request)) := hben1.wstep hwsE
      -- the request at the handler start
      have hstart : C03SI.Start g.KA.E (Str.Parser.fromParser g.cap g.p.request e1 g.mc) :=
        C03SI.start_fresh g.cap g.p.request e1 g.mc he1len (pid_of_wf ok.wf).2 (Or.inl ok.role)
      have hrinv : RInv g.KA (AReq.new (Str.Parser.fromParser g.cap g.p.request e1 g.mc)) e1 t'.input [] [] := by
        refine ⟨hstart.mtch, hstart.inv, rfl, rfl, rfl, by rw [hinp']; exact hwire, fun x => ?_⟩
        have := C03SI.rem_start hstart x
        show refWire g.KA.E (e1 ++ x) = (Rem g.KA.E (Str.Parser.fromParser g.cap g.p.request e1 g.mc) x).pre [] []
        rw [this]; rfl
      have hwr : (AReq.new (Str.Parser.fromParser g.cap g.p.request e1 g.mc)).writeable = true := by
        simp [AReq.new, Str.Parser.fromParser, Preamble.request, ok.role, inputStreams]
      have hcore := bread_core ok
        (c := ⟨.handler (AReq.new (Str.Parser.fromParser g.cap g.p.request e1 g.mc))
                { ops := .readAll :: rest, propagate := pr },
            (⟨t', c1.env.mutex, c1.env.segs⟩ : Run.Env).ev (hsEvent g.p.request), g.more, false⟩) rfl
        ⟨rfl, rfl, rfl, [], ⟨⟨e1, hrinv⟩, by
            show LockInv _ c1.env.mutex
            rw [hmx1]; exact lockInv_free rfl, Or.inl hmx1, ⟨[], by
              show t'.wlog = g.L1 ++ []
              rw [hL1, List.append_nil], rfl⟩⟩⟩
        hwr hben2 rfl hev1 rfl
      have hres := BRes.of_steps (hs.trans (Steps.one hstep')) (hfr.link.trans ⟨hwsE, rfl, hstop1.symm ▸ rfl⟩) hcore
      exact hres.mono (by omega)
    · rw [hf] at hnf; cases hnf
  · exfalso
    have hF1 : F1 = g.W := by
      have := hst1.wire
      rwa [hin, List.append_nil, List.append_nil] at this
    rcases C06.run_wire_state ok.wf g.X (F := F1) (by rw [hF1]; exact List.prefix_refl _) g.mc with
      ⟨e1, hFe, he1, hrun⟩ | ⟨t, ht, hFt, _⟩
    · rw [hrun] at hnf; cases hnf
    · rw [hF1, Cfg.W] at hFt
      have := congrArg List.length hFt
      have : 0 < t.length := List.length_pos_iff.mpr ht
      simp only [List.length_append] at *
      omega

/-- **One poll** of the connection task from any stage of the aborted request. -/
theorem bstage_poll {g : Cfg} {a : Rec} {tail : Bytes} {pr : Bool} {rest : List HOp}
    (ok : AbOK g a tail pr rest) {c : Conn} (hst : BStage g pr rest c) :
    BRes g pr rest (2 * c.env.tr.input.length + 9) c := by
  cases hst with
  | @start raw hph hwire hraw hlog hb hstop hsc hm hev =>
    have hpre : raw <+: g.W := ⟨c.env.tr.input, hwire⟩
    have hstart := start_track (cap24 g) hraw (bns ok _ hpre)
    have hstep := step_start c _ hph hstop
    rw [hstart] at hstep
    have hstep' : stepConn c = .next (mkC c (.parseReq (track g.cap g.mc raw)
        (.writing (run .header raw g.mc).out (run .header raw g.mc).st.isFinal)) c.env.tr) := hstep
    have hremle : (run .header raw g.mc).rem.length ≤ g.cap := by
      have := (run_ok raw g.mc (st := .header) trivial).2.2.length_le
      omega
    have hst : PSt g.cap g.mc g.W g.L0 [] (mkC c (.parseReq (track g.cap g.mc raw)
        (.writing (run .header raw g.mc).out (run .header raw g.mc).st.isFinal)) c.env.tr) raw :=
      ⟨by show raw ++ c.env.tr.input ++ [] = g.W
          rw [List.append_nil]; exact hwire,
        hstop, hb, hremle, Or.inr ⟨_, rfl, by show c.env.tr.wlog ++ _ = _; rw [hlog], [], rfl⟩⟩
    have := BRes.of_steps (Steps.one hstep') (mkC_link c _ (.refl _)) (bparse_poll ok hst hsc hm hev)
    exact this.mono (by show 1 + (2 * c.env.tr.input.length + 8) ≤ _; omega)
  | parse hst hsc hm hev => exact (bparse_poll ok hst hsc hm hev).mono (by omega)
  | @hread r h hph hr hwr hb hstop hev hsc => exact (bread_core ok hph hr hwr hb hstop hev hsc).mono (by omega)
  | @closeW r rest' O1 O2 hph hO hce hm hlog hb hstop hev hra hsc =>
    refine (bclose_out (r2 := r) (rest := rest') hO hph ?_ hce hm hlog hb hstop hev hra hsc).mono (by omega)
    rw [closePoll_late _ _ _ _ _ _ rfl]
  | @close r rest' O1 O2 hph hO hce hm hlog hb hstop hev hra hsc =>
    refine (bclose_core (r2 := r) (rest := rest') hO hph ?_ (.refl _) rfl hce hm hlog hb hstop hev hra hsc).mono
      (by omega)
    rw [closePoll_late _ _ _ _ _ _ rfl]
    rfl

theorem TrSame.ra {g : Cfg} {t t' : Transport} (h : TrSame t t') (hr : RaEv g t) : RaEv g t' := by
  obtain ⟨acc, lost, h1, h2⟩ := hr
  exact ⟨acc, lost, h1, h.mem h2⟩

theorem BStage.cong {g : Cfg} {pr : Bool} {rest : List HOp} {c c' : Conn} (h : BStage g pr rest c)
    (hph : c'.phase = c.phase) (hsc : c'.scripts = c.scripts) (hstop : c'.stop = c.stop)
    (hm : c'.env.mutex = c.env.mutex) (hs : TrSame c.env.tr c'.env.tr) : BStage g pr rest c' := by
  cases h with
  | start hph0 hwire hraw hlog hb hstop0 hsc0 hm0 hev =>
    exact .start (hph.trans hph0) (by rw [hs.input]; exact hwire) hraw (hs.wlog.trans hlog) (hs.ben hb)
      (hstop.trans hstop0) (hsc.trans hsc0) (hm.trans hm0) (hs.hs.trans hev)
  | parse hst hsc0 hm0 hev =>
    exact .parse (hst.cong hph hstop hs) (hsc.trans hsc0) (hm.trans hm0) (hs.hs.trans hev)
  | @hread r h hph0 hr hwr hb hstop0 hev hsc0 =>
    refine .hread (hph.trans hph0) ?_ hwr (hs.ben hb) (hstop.trans hstop0) (hs.ev1 hev) (hsc.trans hsc0)
    obtain ⟨dO, h1⟩ := hr.rem
    exact ⟨hr.ops, hr.ws, hr.pr, dO, h1.cong hm hs⟩
  | @closeW r rest' O1 O2 hph0 hO hce hm0 hlog hb hstop0 hev hra hsc0 =>
    exact .closeW (hph.trans hph0) hO (by rw [hs.input]; exact hce) (hm.trans hm0) (by rw [hs.wlog]; exact hlog)
      (hs.ben hb) (hstop.trans hstop0) (hs.ev1 hev) (hs.ra hra) (hsc.trans hsc0)
  | @close r rest' O1 O2 hph0 hO hce hm0 hlog hb hstop0 hev hra hsc0 =>
    exact .close (hph.trans hph0) hO (by rw [hs.input]; exact hce) (hm.trans hm0) (by rw [hs.wlog]; exact hlog)
      (hs.ben hb) (hstop.trans hstop0) (hs.ev1 hev) (hs.ra hra) (hsc.trans hsc0)

/-! ## The executor for the aborted request -/

/-- **Without KEEP_CONN**: `runTask` started in a stage of the aborted request returns (`RET`) with
the connection finished once `close` has written the epilogue. -/
theorem run_abort_nokeep {g : Cfg} {a : Rec} {tail : Bytes} {pr : Bool} {rest : List HOp}
    (ok : AbOK g a tail pr rest) (hnk : g.p.flags.toNat % 2 = 0) (c : Conn) (n fuel : Nat)
    (hst : BStage g pr rest c) (hsegs : c.env.segs = []) (hf : ans c.env.tr + 1 ≤ fuel)
    (hlen : 6 * c.env.tr.input.length + 26 ≤ 100000) :
    ∃ c'' O1 O2, runTask fuel c n none = (c'', "RET") ∧ O1 ++ O2 = g.Ot ∧ FinB g O1 O2 c'' := by
  obtain ⟨c'', fin, hrun, rfl, O1, O2, hO, hfin⟩ := run_gen (BStage g pr rest)
    (fun c0 => ∃ c' O1 O2, Halts (6 * c0.env.tr.input.length + 26) c0 c' .finished ∧ O1 ++ O2 = g.Ot ∧ FinB g O1 O2 c')
    (fun c'' fin => fin = "RET" ∧ ∃ O1 O2, O1 ++ O2 = g.Ot ∧ FinB g O1 O2 c'')
    (fun _ _ h a b c d e => h.cong a b c d e)
    (fun c0 h => by
      rcases bstage_poll ok h with ⟨c', hh, hl, hS, hw, ha⟩ | ⟨k, c1, O1, O2, _, _, _, _, haf⟩ | ⟨c', O1, O2, hh, hl, hO, hf⟩
      · exact Or.inl ⟨c', hh.mono (by omega), hl, hS, hw, ha⟩
      · have := haf.keep; omega
      · exact Or.inr ⟨c', O1, O2, hh.mono (by omega), hO, hf⟩)
    (fun c0 n0 f0 _ hsg ⟨c', O1, O2, hh, hO, hfb⟩ _ hlen0 => by
      obtain ⟨hsame, _⟩ := prePoll_same c0 n0 hsg
      have hpoll := hh.pollT (by rw [hsame.input]; exact hlen0)
      exact ⟨c', "RET", by rw [runTask_succ, hpoll], rfl, O1, O2, hO, hfb⟩)
    (ans c.env.tr) c n fuel hst hsegs (Nat.le_refl _) hf hlen
  exact ⟨c'', O1, O2, hrun, hO, hfin⟩

/-- `g'` is the request the client sends behind the `AbortRequest` record, in the same transport. -/
structure NextOK (g g' : Cfg) : Prop where
  ok : g'.OK
  b : g'.b = g.b
  mc : g'.mc = g.mc
  hs0 : g'.hs0 = g.hs0 + 1
  more : g.more = (g'.hscript, true) :: g'.more
  wire : g.U = g'.W
  keep : g.p.flags.toNat % 2 = 1

theorem After.stage {g g' : Cfg} {O1 O2 : Bytes} {c : Conn} (h : After g O1 O2 c) (hn : NextOK g g') :
    Stage (g'.at (g.LA O1 O2)) c := by
  obtain ⟨raw, hph, hw, hraw⟩ := h.ph
  have hcap : g'.cap = g.cap := by simp only [Cfg.cap, hn.b]
  refine .start (raw := raw) ?_ ?_ ?_ h.log h.ben h.stop (h.sc.trans hn.more) h.mtx (h.ev.1.trans hn.hs0.symm)
  · show c.phase = .parseReq ⟨g'.cap, raw, .header, g'.mc⟩ .start
    rw [hcap, hn.mc]; exact hph
  · show raw ++ c.env.tr.input = g'.W
    rw [← hn.wire]; exact hw
  · show raw.length ≤ g'.cap
    rw [hcap]; exact hraw

/-- **With KEEP_CONN and a request `g'` following in the transport**: `runTask` started in a stage of
the aborted request closes it (log `g.LA O1 O2`), then serves `g'` to its end exactly as
`run_from_stage` says for `g'` started on that log — its preamble parse begins with the
`AbortRequest` record, which the stream parser left unconsumed (it is `g'.recs`' first record). -/
theorem run_abort_next {g g' : Cfg} {a : Rec} {tail : Bytes} {pr : Bool} {rest : List HOp}
    (ok : AbOK g a tail pr rest) (hn : NextOK g g') (em : EndMode) (c : Conn) (n fuel : Nat)
    (hst : BStage g pr rest c) (hem : c.env.tr.endMode = em) (hsegs : c.env.segs = [])
    (hf : ans c.env.tr + 1 ≤ fuel) (hlen : 6 * c.env.tr.input.length + 26 ≤ 100000) :
    ∃ c'' fin O1 O2 P1 P2, runTask fuel c n none = (c'', fin) ∧ O1 ++ O2 = g.Ot ∧ P1 ++ P2 = g'.Ot ∧
      c''.env.tr.endMode = em ∧ RaEv g c''.env.tr ∧ hsEvent g.p.request ∈ c''.env.tr.events ∧
      ((fin = "RET" ∧ Fin (g'.at (g.LA O1 O2)) P1 P2 c'') ∨
       (fin = "STALL" ∧ Parked (g'.at (g.LA O1 O2)) P1 P2 c'')) := by
  obtain ⟨c'', fin, hrun, O1, O2, P1, P2, h1, h2, h3, h4, h5, h6⟩ := run_gen
    (fun c0 => BStage g pr rest c0 ∧ c0.env.tr.endMode = em)
    (fun c0 => ∃ k c1 O1 O2, k ≤ 2 * c0.env.tr.input.length + 9 ∧ Steps k c0 c1 ∧ Link c0 c1 ∧ O1 ++ O2 = g.Ot ∧
      After g O1 O2 c1)
    (fun c'' fin => ∃ O1 O2 P1 P2, O1 ++ O2 = g.Ot ∧ P1 ++ P2 = g'.Ot ∧
      c''.env.tr.endMode = em ∧ RaEv g c''.env.tr ∧ hsEvent g.p.request ∈ c''.env.tr.events ∧
      ((fin = "RET" ∧ Fin (g'.at (g.LA O1 O2)) P1 P2 c'') ∨
       (fin = "STALL" ∧ Parked (g'.at (g.LA O1 O2)) P1 P2 c'')))
    (fun _ _ h a b c d e => ⟨h.1.cong a b c d e, e.em.trans h.2⟩)
    (fun c0 h => by
      rcases bstage_poll ok h.1 with ⟨c', hh, hl, hS, hw, ha⟩ | ⟨k, c1, O1, O2, hk, hs, hl, hO, haf⟩ |
          ⟨c', O1, O2, hh, hl, hO, hf⟩
      · exact Or.inl ⟨c', hh.mono (by omega), hl, ⟨hS, hl.ts.em.trans h.2⟩, hw, ha⟩
      · exact Or.inr ⟨k, c1, O1, O2, hk, hs, hl, hO, haf⟩
      · have := hf.nokeep; have := hn.keep; omega)
    (fun c0 n0 f0 hS0 hsg ⟨k, c1, O1, O2, hk, hs, hl, hO, haf⟩ hf0 hlen0 => by
      obtain ⟨hsame, _⟩ := prePoll_same c0 n0 hsg
      have hres := stage_poll (hn.ok.at (g.LA O1 O2)) (haf.stage hn)
      obtain ⟨c', r, hh, hl2, ho⟩ := hres
      have hin1 := hl.ts.inp
      obtain ⟨c'', ⟨⟨e1, _, _, _⟩, P1, P2, hP, hfin⟩, hevs⟩ :=
        run_from_out (hn.ok.at (g.LA O1 O2)) c0 n0 f0 _ hsg (hh.of_steps hs) (hl.trans hl2) (ho.mono hl)
          (by rw [hsame.input] at hk hin1; omega) hf0 (by omega)
      have hevs1 : ∀ s, s ∈ c1.env.tr.events → s ∈ c''.env.tr.events := fun s hs => hevs s (hl2.ts.evm s hs)
      obtain ⟨acc, lost, hacc, hmem⟩ := haf.ra
      rcases hfin with ⟨hr, hf⟩ | ⟨hr, hp⟩
      · exact ⟨c'', "RET", hr, O1, O2, P1, P2, hO, hP, e1.trans hS0.2, ⟨acc, lost, hacc, hevs1 _ hmem⟩,
          hevs1 _ haf.ev.2, Or.inl ⟨rfl, hf⟩⟩
      · exact ⟨c'', "STALL", hr, O1, O2, P1, P2, hO, hP, e1.trans hS0.2, ⟨acc, lost, hacc, hevs1 _ hmem⟩,
          hevs1 _ haf.ev.2, Or.inr ⟨rfl, hp⟩⟩)
    (ans c.env.tr) c n fuel ⟨hst, hem⟩ hsegs (Nat.le_refl _) hf hlen
  exact ⟨c'', fin, O1, O2, P1, P2, hrun, h1, h2, h3, h4, h5, h6⟩

end Fcgi.E2E
