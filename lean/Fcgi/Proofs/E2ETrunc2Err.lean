import Fcgi.Proofs.E2ETrunc2Cfg

/-!
# C12 end to end, part 7: a transport whose reads FAIL at the end of the input — primitives

`BenE t`: `E2E.Ben t` without the condition on `endMode`: the transport may answer a read at the end
of its input with an error (`endMode = .err`; the error is `t.rdErr`).  Before the end of the input
such a transport behaves like a benign one, so the lemmas of `E2E.lean` / `E2EStr.lean` /
`E2EParse.lean` about reads that find input, about writes, and about `parse_request` up to the
point where the input is exhausted hold verbatim — they are re-proved here for `BenE` (the originals
take `Ben`, which excludes `endMode = .err`); names carry an `E`.
-/
namespace Fcgi.C12E
open Fcgi Fcgi.Req Fcgi.Str Fcgi.Async Fcgi.Run Fcgi.Spec Fcgi.E2E

/-- No error answers in the scripts, no zero-length writes, no peer holding input back; ANY end mode. -/
structure BenE (t : Transport) : Prop where
  rd : ∀ a ∈ t.rd, a ≠ RdAns.err
  wr : ∀ a ∈ t.wr, a ≠ WrAns.err ∧ a ≠ WrAns.zero
  hold : t.hold = false

theorem BenE.step {t t' : Transport} (h : BenE t) (s : TStep t t') : BenE t' :=
  ⟨fun a ha => h.rd a (s.rd.subset ha), fun a ha => h.wr a (s.wr.subset ha), s.hold.trans h.hold⟩

theorem BenE.wstep {t t' : Transport} (h : BenE t) (s : WStep t t') : BenE t' :=
  ⟨fun a ha => h.rd a (s.rd.subset ha), fun a ha => h.wr a (s.wr.subset ha), s.hold.trans h.hold⟩

theorem BenE.same {t t' : Transport} (h : TrSame t t') (hb : BenE t) : BenE t' :=
  ⟨by rw [h.rd]; exact hb.rd, by rw [h.wr]; exact hb.wr, h.hold⟩

theorem Ben.toE {t : Transport} (h : Ben t) : BenE t := ⟨h.rd, h.wr, h.hold⟩

/-! ### `poll_read` -/

theorem read_pendingE {t t' : Transport} {cap : Nat} (hb : BenE t) (h : t.read cap = (t', .pending)) :
    t'.input = t.input ∧
      ((t'.woken = true ∧ ans t' < ans t) ∨
       (t.input = [] ∧ t.endMode = .pend ∧ 0 < cap ∧ t'.woken = t.woken)) := by
  obtain ⟨_, _, hh⟩ := hb
  obtain ⟨input, endMode, rd, wr, fl, wlog, events, hold, woken, readWaker, abortKind⟩ := t
  simp only at hh
  subst hh
  rcases rd with _ | ⟨a, rest⟩
  · unfold Transport.read at h
    revert h; repeat' split
    all_goals (try simp [Transport.ev])
    all_goals (repeat' split)
    all_goals (try simp)
    all_goals (intro h1; subst h1; simp_all [ans] <;> omega)
  · unfold Transport.read at h
    revert h; repeat' split
    all_goals (try simp [Transport.ev])
    all_goals (repeat' split)
    all_goals (try simp)
    all_goals (intro h1; subst h1; simp_all [ans] <;> omega)

/-- A read fails only at the end of the input of a transport in `err` mode, with the transport's
read error; nothing is consumed, nothing is written. -/
theorem read_errorE {t t' : Transport} {cap : Nat} {e : IoErr} (hb : BenE t)
    (h : t.read cap = (t', .ready (.error e))) :
    t.input = [] ∧ t.endMode = .err ∧ e = t'.rdErr ∧ t'.input = [] := by
  obtain ⟨hr, _, hh⟩ := hb
  obtain ⟨input, endMode, rd, wr, fl, wlog, events, hold, woken, readWaker, abortKind⟩ := t
  simp only at hh hr
  subst hh
  rcases rd with _ | ⟨a, rest⟩
  · unfold Transport.read at h
    revert h; repeat' split
    all_goals (try simp [Transport.ev, Transport.rdErr])
    all_goals (repeat' split)
    all_goals (try simp)
    all_goals (try (intro h1 h2; subst h1; subst h2; simp_all))
  · unfold Transport.read at h
    revert h; repeat' split
    all_goals (try simp [Transport.ev, Transport.rdErr])
    all_goals (repeat' split)
    all_goals (try simp)
    all_goals (try (intro h1 h2; subst h1; subst h2; simp_all))

theorem read_ok_benE {t t' : Transport} {cap : Nat} {bs : Bytes} (hb : BenE t)
    (h : t.read cap = (t', .ready (.ok bs))) :
    t.input = bs ++ t'.input ∧ t'.wlog = t.wlog ∧ bs.length ≤ cap ∧
    (bs = [] → cap = 0 ∨ (t.input = [] ∧ t.endMode = .eof)) := by
  obtain ⟨h1, h2, _⟩ := read_ok h
  refine ⟨h1, h2, ?_⟩
  clear h1 h2
  obtain ⟨_, _, hh⟩ := hb
  obtain ⟨input, endMode, rd, wr, fl, wlog, events, hold, woken, readWaker, abortKind⟩ := t
  simp only at hh
  subst hh
  rcases rd with _ | ⟨a, rest⟩
  · unfold Transport.read at h
    revert h; repeat' split
    all_goals (try simp [Transport.ev])
    all_goals (repeat' split)
    all_goals (try simp)
    all_goals (intro h1 h2; subst h1; subst h2; simp_all <;> omega)
  · unfold Transport.read at h
    revert h; repeat' split
    all_goals (try simp [Transport.ev])
    all_goals (repeat' split)
    all_goals (try simp)
    all_goals (intro h1 h2; subst h1; subst h2; simp_all <;> omega)

/-! ### writes -/

/-- the plain write of `write_all` / `poll_output` -/
theorem write_tstepE {t t' : Transport} {buf : Bytes} {res : Poll (Except IoErr Nat)} (hb : BenE t)
    (h : t.write buf = (t', res)) :
    TStep t t' ∧ t'.input = t.input ∧
    (match res with
     | .ready (.ok n) => n ≤ buf.length ∧ t'.wlog = t.wlog ++ buf.take n ∧ (buf ≠ [] → 0 < n)
     | .ready (.error _) => False
     | .pending => t'.wlog = t.wlog ∧ t'.woken = true ∧ ans t' < ans t) := by
  have hle := write_le h
  unfold Transport.write at h
  have h1 := writeV_ben t [buf] "W" hb.wr
  have h2 := writeV_spec t [buf] "W"
  rw [h] at h1 h2
  obtain ⟨a1, a2, a3, a4, a5⟩ := h1
  obtain ⟨b1, b2⟩ := h2
  have hwk : t'.woken = t.woken ∨ (t'.woken = true ∧ ans t' < ans t) := by
    cases res with
    | pending => exact Or.inr a5
    | ready x =>
      cases x with
      | error e => exact a5.elim
      | ok n => exact Or.inl a5.2
  refine ⟨⟨hle, by rw [a2]; exact List.suffix_refl _, a1, a3, a4, hwk⟩, b1, ?_⟩
  cases res with
  | pending => exact ⟨b2, a5⟩
  | ready x =>
    cases x with
    | error e => exact a5
    | ok n =>
      simp only [List.flatten_cons, List.flatten_nil, List.append_nil] at b2 a5
      exact ⟨b2.1, b2.2, a5.1⟩

/-! ### `write_all` -/

/-- One poll of `write_all` on a benign transport: it writes a prefix, never fails; `Ready` means
everything is out, `Pending` is a transient one. -/
theorem writeAllLoop_benE : ∀ (fuel : Nat) (buf : Bytes) (t : Transport) {rest : Bytes} {t' : Transport} {res : ORes},
    BenE t → buf.length < fuel → writeAllLoop fuel buf t = (rest, t', res) →
    TStep t t' ∧ t'.input = t.input ∧ (∃ done, buf = done ++ rest ∧ t'.wlog = t.wlog ++ done) ∧
    ((res = .ready ∧ rest = []) ∨ (res = .pending ∧ rest ≠ [] ∧ t'.woken = true ∧ ans t' < ans t)) := by
  intro fuel
  induction fuel with
  | zero => intro buf t rest t' res _ hf; omega
  | succ k ih =>
    intro buf t rest t' res hb hf h
    simp only [writeAllLoop] at h
    split at h
    · cases h
      exact ⟨.refl _, rfl, ⟨[], by simp⟩, Or.inl ⟨rfl, by simpa using ‹buf.isEmpty = true›⟩⟩
    · rename_i hne
      have hne' : buf ≠ [] := by simpa using hne
      split at h
      · rename_i tw hw
        cases h
        obtain ⟨s1, s2, s3, s4, s5⟩ := write_tstepE hb hw
        exact ⟨s1, s2, ⟨[], by simp [s3]⟩, Or.inr ⟨rfl, hne', s4, s5⟩⟩
      · rename_i tw e hw
        exact (write_tstepE hb hw).2.2.elim
      · rename_i tw hw
        have := (write_tstepE hb hw).2.2.2.2 hne'
        omega
      · rename_i tw n hn0 hw
        obtain ⟨s1, s2, s3, s4, s5⟩ := write_tstepE hb hw
        have hlen : (buf.drop n).length < k := by
          have := s5 hne'
          simp only [List.length_drop]
          have : 0 < buf.length := List.length_pos_iff.mpr hne'
          omega
        obtain ⟨q1, q2, ⟨done, hd, hl⟩, q4⟩ := ih _ _ (hb.step s1) hlen h
        refine ⟨s1.trans q1, q2.trans s2, ⟨buf.take n ++ done, ?_, ?_⟩, ?_⟩
        · rw [List.append_assoc, ← hd, List.take_append_drop]
        · rw [hl, s4, List.append_assoc]
        · rcases q4 with q4 | ⟨a, b, c, d⟩
          · exact Or.inl q4
          · exact Or.inr ⟨a, b, c, by have := s1.ans_le; omega⟩


/-! ### `poll_output` -/

theorem outLoop_benE : ∀ (fuel : Nat) (sp : Str.Parser) (t : Transport) {sp' : Str.Parser} {t' : Transport}
    {res : ORes}, BenE t → sp.output.length < fuel → outLoop fuel sp t = (sp', t', res) →
    TStep t t' ∧ (res = .ready ∨ (res = .pending ∧ t'.woken = true ∧ ans t' < ans t)) := by
  intro fuel
  induction fuel with
  | zero => intro sp t sp' t' res _ hf; omega
  | succ k ih =>
    intro sp t sp' t' res hb hf h
    simp only [outLoop] at h
    split at h
    · cases h; exact ⟨.refl _, Or.inl rfl⟩
    · rename_i hne
      have hne' : sp.output ≠ [] := by simpa using hne
      split at h
      · rename_i tw hw
        cases h
        obtain ⟨s1, _, _, s4, s5⟩ := write_tstepE hb hw
        exact ⟨s1, Or.inr ⟨rfl, s4, s5⟩⟩
      · rename_i tw e hw
        exact (write_tstepE hb hw).2.2.elim
      · rename_i tw hw
        have := (write_tstepE hb hw).2.2.2.2 hne'
        omega
      · rename_i tw n hn0 hw
        obtain ⟨s1, _, _, _, s5⟩ := write_tstepE hb hw
        have hlen : (sp.consumeOutput n).output.length < k := by
          have := s5 hne'
          simp only [Str.Parser.consumeOutput, List.length_drop]
          have : 0 < sp.output.length := List.length_pos_iff.mpr hne'
          omega
        obtain ⟨q1, q2⟩ := ih _ _ (hb.step s1) hlen h
        refine ⟨s1.trans q1, ?_⟩
        rcases q2 with q2 | ⟨a, b, c⟩
        · exact Or.inl q2
        · exact Or.inr ⟨a, b, by have := s1.ans_le; omega⟩

/-- `poll_output` when no `StreamWriter` holds the mutex: never an error; `Pending` only as a
transient `Pending` of the transport. -/
theorem pollOutput_benE {r : AReq} {m : MutexSt} {t : Transport} {r' : AReq} {m' : MutexSt}
    {t' : Transport} {res : ORes} (hl : LockInv r m) (hm : m = none ∨ m = some 0) (hb : BenE t)
    (h : r.pollOutput m t = (r', m', t', res)) :
    TStep t t' ∧ (res = .ready ∨ (res = .pending ∧ t'.woken = true ∧ ans t' < ans t)) := by
  unfold AReq.pollOutput at h
  split at h
  · split at h
    · cases h; exact ⟨.refl _, Or.inr ⟨by
        -- the debug assertion cannot fire under `LockInv`
        rename_i he hlk
        have he' : r.sp.output = [] := by simpa using he
        have := hl.2 he'
        simp [this] at hlk, by
        rename_i he hlk
        have he' : r.sp.output = [] := by simpa using he
        have := hl.2 he'
        simp [this] at hlk, by
        rename_i he hlk
        have he' : r.sp.output = [] := by simpa using he
        have := hl.2 he'
        simp [this] at hlk⟩⟩
    · cases h; exact ⟨.refl _, Or.inl rfl⟩
  · rcases lockPoll_req hl with hq | ⟨_, i, hi⟩
    · simp only [hq, Bool.not_true, Bool.false_eq_true, if_false] at h
      rcases ho : outLoop (r.sp.output.length + 1) r.sp t with ⟨sp1, t1, o⟩
      rw [ho] at h
      obtain ⟨q1, q2⟩ := outLoop_benE _ _ _ hb (Nat.lt_succ_self _) ho
      cases o with
      | ready => cases h; exact ⟨q1, Or.inl rfl⟩
      | pending =>
        cases h
        rcases q2 with q2 | q2
        · cases q2
        · exact ⟨q1, Or.inr q2⟩
      | err e => rcases q2 with q2 | ⟨q2, _⟩ <;> cases q2
      | panic s => rcases q2 with q2 | ⟨q2, _⟩ <;> cases q2
    · rcases hm with hm | hm <;> rw [hm] at hi <;> cases hi


/-! ## `parse_request` -/

/-- The connection is inside `parse_request`; the request parser was handed the bytes `F` of the
wire `W0` so far; `L0` was in the write log when this `parse_request` started. -/
structure PStE (cap mc : Nat) (W0 L0 Z : Bytes) (c : Conn) (F : Bytes) : Prop where
  /-- `Z`: the part of the wire that has not reached the transport (yet) -/
  wire : F ++ c.env.tr.input ++ Z = W0
  stop : c.stop = false
  ben : BenE c.env.tr
  rem : (run .header F mc).rem.length ≤ cap
  ph : (c.phase = .parseReq (track cap mc F) .reading ∧ (run .header F mc).st.isFinal = false ∧
          c.env.tr.wlog = L0 ++ (run .header F mc).out) ∨
       (∃ rest, c.phase = .parseReq (track cap mc F) (.writing rest (run .header F mc).st.isFinal) ∧
          c.env.tr.wlog ++ rest = L0 ++ (run .header F mc).out)


theorem PStE.cong {cap mc : Nat} {W0 L0 Z : Bytes} {c c' : Conn} {F : Bytes} (h : PStE cap mc W0 L0 Z c F)
    (hph : c'.phase = c.phase) (hstop : c'.stop = c.stop) (hs : TrSame c.env.tr c'.env.tr) :
    PStE cap mc W0 L0 Z c' F :=
  ⟨by rw [hs.input]; exact h.wire, hstop.trans h.stop, BenE.same hs h.ben, h.rem, by
    rw [hph, hs.wlog]; exact h.ph⟩

/-- How a poll that is inside `parse_request` goes on. -/
def POutE (cap mc : Nat) (W0 L0 Z : Bytes) (c1 : Conn) (F1 : Bytes) : Prop :=
  (∃ c2, stepConn c1 = .halt c2 .pending ∧ PStE cap mc W0 L0 Z c2 F1 ∧ Frame c1 c2 ∧
      c2.env.tr.woken = true ∧ ans c2.env.tr < ans c1.env.tr) ∨
  (∃ rest t', c1.phase = .parseReq (track cap mc F1) (.writing rest true) ∧
      (run .header F1 mc).st.isFinal = true ∧ F1 ++ c1.env.tr.input ++ Z = W0 ∧ c1.stop = false ∧
      BenE c1.env.tr ∧ (run .header F1 mc).rem.length ≤ cap ∧
      writeAllLoop (rest.length + 1) rest c1.env.tr = ([], t', .ready) ∧
      t'.wlog = L0 ++ (run .header F1 mc).out ∧ TStep c1.env.tr t' ∧ t'.input = c1.env.tr.input) ∨
  (c1.env.tr.input = [] ∧ (run .header F1 mc).st.isFinal = false ∧
      c1.phase = .parseReq (track cap mc F1) .reading ∧ PStE cap mc W0 L0 Z c1 F1)

theorem parse_loopE {cap mc : Nat} {W0 L0 Z : Bytes} (h24 : 24 ≤ cap) (hns : NoStuckW cap mc W0) :
    ∀ (M : Nat) (c : Conn) (F : Bytes), PStE cap mc W0 L0 Z c F → 2 * c.env.tr.input.length + wbit c ≤ M →
      ∃ n c1 F1, n ≤ M + 1 ∧ Steps n c c1 ∧ Frame c c1 ∧ POutE cap mc W0 L0 Z c1 F1 := by
  intro M
  induction M using Nat.strongRecOn with
  | _ M ih =>
    intro c F hst hM
    obtain ⟨hwire, hstop, hben, hrem, hph⟩ := hst
    rcases hph with ⟨hphase, hnf, hlog⟩ | ⟨rest, hphase, hlog⟩
    · -- reading
      by_cases hin : c.env.tr.input = []
      · exact ⟨0, c, F, by omega, .refl _, .refl _,
          Or.inr (Or.inr ⟨hin, hnf, hphase, ⟨hwire, hstop, hben, hrem, Or.inl ⟨hphase, hnf, hlog⟩⟩⟩)⟩
      · have hfreepos : 0 < (track cap mc F).free := by
          have hFpre : F <+: W0 := ⟨c.env.tr.input ++ Z, by rw [← List.append_assoc]; exact hwire⟩
          rcases hns F hFpre with h | h
          · rw [hnf] at h; cases h
          · simp only [track, Req.Parser.free]; omega
        have hstep := step_reading c _ hphase hstop
        rcases hrd : c.env.tr.read (track cap mc F).free with ⟨t, res⟩
        rw [hrd] at hstep
        have hts := read_tstep hrd
        cases res with
        | pending =>
          obtain ⟨hi, hw | hw⟩ := read_pendingE hben hrd
          · refine ⟨0, c, F, by omega, .refl _, .refl _,
              Or.inl ⟨{ c with env := { c.env with tr := t } }, hstep, ?_, ⟨rfl, rfl, rfl, rfl, hts⟩, hw.1, hw.2⟩⟩
            have hwl : t.wlog = c.env.tr.wlog := by have := read_wlog c.env.tr (track cap mc F).free; rwa [hrd] at this
            exact ⟨by simpa [hi] using hwire, hstop, hben.step hts, hrem,
              Or.inl ⟨hphase, hnf, by simpa [hwl] using hlog⟩⟩
          · exact absurd hw.1 hin
        | ready x =>
          cases x with
          | error e => exact absurd (read_errorE hben hrd).1 hin
          | ok bs =>
            obtain ⟨hinp, hwl, hlen, hz⟩ := read_ok_benE hben hrd
            have hbne : bs ≠ [] := by
              intro hx
              rcases hz hx with hz | hz
              · omega
              · exact hin hz.1
            have hpre2 : F ++ bs <+: W0 := by
              refine ⟨t.input ++ Z, ?_⟩
              rw [← hwire, hinp]
              simp only [List.append_assoc]
            obtain ⟨o, hpar, hout⟩ := parse_track h24 hrem hbne hlen (hns _ hpre2)
            have hstep' : stepConn c = .next { c with
                phase := .parseReq (track cap mc (F ++ bs)) (.writing o (run .header (F ++ bs) mc).st.isFinal),
                env := { c.env with tr := t } } := by
              rw [hstep]
              cases bs with
              | nil => exact absurd rfl hbne
              | cons b bs' => simp only [hpar]
            have hrem' : (run .header (F ++ bs) mc).rem.length ≤ cap := by
              have hsplit := Req.run_split (st := .header) trivial F bs mc hbne
              rw [hsplit]
              have hw1 := (run_ok F mc (st := .header) trivial).2.1
              have := (run_ok ((run .header F mc).rem ++ bs) mc hw1).2.2.length_le
              simp only [List.length_append] at this
              simp only [track, Req.Parser.free] at hlen
              show (run (run .header F mc).st ((run .header F mc).rem ++ bs) mc).rem.length ≤ cap
              omega
            have hlt : t.input.length < c.env.tr.input.length := by
              have := congrArg List.length hinp
              have : 0 < bs.length := List.length_pos_iff.mpr hbne
              simp only [List.length_append] at *
              omega
            have hst' : PStE cap mc W0 L0 Z { c with
                phase := .parseReq (track cap mc (F ++ bs)) (.writing o (run .header (F ++ bs) mc).st.isFinal),
                env := { c.env with tr := t } } (F ++ bs) := by
              refine ⟨?_, hstop, hben.step hts, hrem', Or.inr ⟨o, rfl, ?_⟩⟩
              · show (F ++ bs) ++ t.input ++ Z = W0
                rw [List.append_assoc F, ← hinp]; exact hwire
              · show t.wlog ++ o = _
                rw [hwl, hlog, hout, List.append_assoc]
            obtain ⟨n, c1, F1, hn, hs, hfr, hout'⟩ := ih (2 * t.input.length + 1) (by
                have : wbit c = 0 := by simp [wbit, hphase]
                omega) _ _ hst' (by simp [wbit])
            exact ⟨n + 1, c1, F1, by omega, .step hstep' hs,
              Frame.trans (Frame.mk' c _ t hts) hfr, hout'⟩
    · -- in `write_all`
      have hwb : wbit c = 1 := by simp [wbit, hphase]
      rcases hwa : writeAllLoop (rest.length + 1) rest c.env.tr with ⟨rest', t', res⟩
      obtain ⟨hts, hinp, ⟨dn, hd, hl⟩, hres⟩ := writeAllLoop_benE _ _ _ hben (Nat.lt_succ_self _) hwa
      rcases hres with ⟨rfl, rfl⟩ | ⟨rfl, hne, hwk, hans⟩
      · simp only [List.append_nil] at hd
        subst hd
        cases hfin : (run .header F mc).st.isFinal with
        | true =>
          rw [hfin] at hphase
          exact ⟨0, c, F, by omega, .refl _, .refl _, Or.inr (Or.inl ⟨rest, t', hphase, hfin, hwire, hstop, hben, hrem, hwa,
            by rw [hl, hlog], hts, hinp⟩)⟩
        | false =>
          rw [hfin] at hphase
          have hstep := step_writing_more c _ rest [] t' hphase hstop hwa
          have hst' : PStE cap mc W0 L0 Z
              { c with phase := .parseReq (track cap mc F) .reading, env := { c.env with tr := t' } } F :=
            ⟨by simpa [hinp] using hwire, hstop, hben.step hts, hrem,
              Or.inl ⟨rfl, hfin, by show t'.wlog = _; rw [hl, hlog]⟩⟩
          obtain ⟨n, c1, F1, hn, hs, hfr, hout'⟩ := ih (2 * c.env.tr.input.length) (by omega) _ _ hst'
            (by simp [wbit, hinp])
          exact ⟨n + 1, c1, F1, by omega, .step hstep hs, Frame.trans (Frame.mk' c _ t' hts) hfr, hout'⟩
      · have hstep := step_writing_pending c _ rest _ rest' t' hphase hstop hwa
        refine ⟨0, c, F, by omega, .refl _, .refl _, Or.inl
          ⟨{ c with phase := .parseReq (track cap mc F) (.writing rest' (run .header F mc).st.isFinal), env := { c.env with tr := t' } },
            hstep, ?_, ⟨rfl, rfl, rfl, rfl, hts⟩, hwk, hans⟩⟩
        refine ⟨by simpa [hinp] using hwire, hstop, hben.step hts, hrem, Or.inr ⟨rest', rfl, ?_⟩⟩
        show t'.wlog ++ rest' = _
        rw [hl, List.append_assoc, ← hd, hlog]



end Fcgi.C12E
