import Fcgi.Proofs.E2EFilterAbortStr
/-!
# End-to-end composition (C11) — a Filter whose handler never reads, aborted before any Data content

Handler `[.ret st]`, role 3.  `close()`'s `writeable()` (`set_stream(Data)`, `poll_input(None)`) passes
over what precedes the request's `AbortRequest` record (Stdin records, noise; replies written) and
fails with the abort error in front of that record — which `close()` SWALLOWS: it goes on with
`set_stream(None)`, `record_boundary()` (at a boundary: returns at once) and the epilogue.  The request
is NOT writeable at that point, so the epilogue is the bare `EndRequest(id, st)` — with the HANDLER's
status `st`, not `ABORT` — without the empty Stdout / Stderr records.  The `AbortRequest` record and
everything behind it is handed to the next request parser.

`LE`: the last stages of `close` for an arbitrary epilogue `ep` (the stages of `Proofs/E2EUnread` are
tied to the writeable request's epilogue).
-/
namespace Fcgi.E2E
open Fcgi Fcgi.Req Fcgi.Str Fcgi.Async Fcgi.Run Fcgi.Spec Fcgi.C09E

/-! ## `close` in its `write_all`s, any epilogue -/

/-- `close` suspended in one of its two last `write_all`s; `Lf` = the log when it will be done, `ep` =
the epilogue it sends -/
def LE (g : Cfg) (Lf ep : Bytes) (c : Conn) : Prop :=
  (∃ r rest', c.phase = .closing r (.writeOut rest' ep) g.st 0 ∧ CEndW g r c.env.tr.input ∧ c.env.mutex = none ∧
      c.env.tr.wlog ++ rest' ++ ep = Lf ∧ Ben c.env.tr ∧ c.stop = false ∧ Ev1 g c.env.tr ∧ c.scripts = g.more) ∨
  (∃ r rest', c.phase = .closing r (.writeEnd rest') g.st 0 ∧ CEnd g r c.env.tr.input ∧ c.env.mutex = none ∧
      c.env.tr.wlog ++ rest' = Lf ∧ Ben c.env.tr ∧ c.stop = false ∧ Ev1 g c.env.tr ∧ c.scripts = g.more)

/-- `close` is done, the connection is kept -/
structure AfterE (g : Cfg) (Lf : Bytes) (c : Conn) : Prop where
  ph : ∃ raw, c.phase = .parseReq ⟨g.cap, raw, .header, g.mc⟩ .start ∧ raw ++ c.env.tr.input = g.U ∧
    raw.length ≤ g.cap
  log : c.env.tr.wlog = Lf
  ben : Ben c.env.tr
  stop : c.stop = false
  ev : Ev1 g c.env.tr
  sc : c.scripts = g.more
  mtx : c.env.mutex = none
  keep : g.p.flags.toNat % 2 = 1

/-- `close` is done, the connection is not kept: the task has returned -/
structure FinE (g : Cfg) (Lf : Bytes) (c' : Conn) : Prop where
  ph : c'.phase = .finished
  log : c'.env.tr.wlog = Lf
  ev : Ev1 g c'.env.tr
  sc : c'.scripts = g.more
  nokeep : g.p.flags.toNat % 2 = 0

theorem LE.cong {g : Cfg} {Lf ep : Bytes} {c c' : Conn} (h : LE g Lf ep c)
    (hph : c'.phase = c.phase) (hsc : c'.scripts = c.scripts) (hstop : c'.stop = c.stop)
    (hm : c'.env.mutex = c.env.mutex) (hs : TrSame c.env.tr c'.env.tr) : LE g Lf ep c' := by
  rcases h with ⟨r, rest', h1, h2, h3, h4, h5, h6, h7, h8⟩ | ⟨r, rest', h1, h2, h3, h4, h5, h6, h7, h8⟩
  · exact Or.inl ⟨r, rest', hph.trans h1, by rw [hs.input]; exact h2, hm.trans h3, by rw [hs.wlog]; exact h4,
      hs.ben h5, hstop.trans h6, hs.ev1 h7, hsc.trans h8⟩
  · exact Or.inr ⟨r, rest', hph.trans h1, by rw [hs.input]; exact h2, hm.trans h3, by rw [hs.wlog]; exact h4,
      hs.ben h5, hstop.trans h6, hs.ev1 h7, hsc.trans h8⟩

/-- A poll of `close` that is (back) in its last `write_all` (the mutex is free by then). -/
theorem eclose_core {g : Cfg} {Lf ep : Bytes} {c : Conn} {r r2 : AReq} {cs : CloseSt}
    {rest : Bytes} {t1 : Transport}
    (hph : c.phase = .closing r cs g.st 0)
    (heq : closePoll r cs g.st 0 c.env.mutex c.env.tr = closePoll.finishEnd r2 rest none t1)
    (hts1 : TStep c.env.tr t1)
    (hce : CEnd g r2 t1.input) (hlog : t1.wlog ++ rest = Lf)
    (hb : Ben c.env.tr) (hstop : c.stop = false) (hev : Ev1 g c.env.tr)
    (hsc : c.scripts = g.more) :
    GRes3 (LE g Lf ep) (AfterE g Lf) (FinE g Lf) 2 c := by
  have hstep := C07.closing_step c r cs g.st 0 hph
  rw [heq] at hstep
  have hb1 := hb.step hts1
  rcases finishEnd_cases r2 rest none hb1 with
    ⟨rest', t', hfe, hts0, hinp, hwl, hwk, hans⟩ | ⟨t', hts0, hinp, hwl, hfe⟩
  · have hts := hts1.trans hts0
    rw [hfe] at hstep
    have hstep' : stepConn c = .halt (mkC0 c (.closing r2 (.writeEnd rest') g.st 0) t') .pending := hstep
    refine Or.inl (Or.inl ⟨mkC0 c (.closing r2 (.writeEnd rest') g.st 0) t', (Halts.now hstep').mono (by omega),
      mkC0_link c _ hts, ?_, hwk, by show ans t' < ans c.env.tr; have := hts1.ans_le; omega⟩)
    exact Or.inr ⟨r2, rest', rfl, by show CEnd g r2 t'.input; rw [hinp]; exact hce, rfl,
      by show t'.wlog ++ rest' = _; rw [hwl, hlog], hb.step hts, hstop, hev.step hts, hsc⟩
  · have hts := hts1.trans hts0
    rw [hfe, hce.req, hce.into] at hstep
    have hlog' : t'.wlog = Lf := by rw [hwl, hlog]
    by_cases hk : g.p.flags.toNat % 2 = 1
    · have hreq : (g.p.request.flags.toNat % 2 == 1) = true := by simpa [Preamble.request] using hk
      simp only [hreq, if_true] at hstep
      have hstep' : stepConn c = .next (mkC0 c (.parseReq ⟨g.cap, r2.sp.raw, .header, g.mc⟩ .start) t') := hstep
      exact Or.inl (Or.inr ⟨1, _, by omega, Steps.one hstep', mkC0_link c _ hts,
        ⟨⟨r2.sp.raw, rfl, by show r2.sp.raw ++ t'.input = g.U; rw [hinp]; exact hce.wire, hce.rawlen⟩, hlog',
          hb.step hts, hstop, hev.step hts, hsc, rfl, hk⟩⟩)
    · have hreq : (g.p.request.flags.toNat % 2 == 1) = false := by simpa [Preamble.request] using hk
      simp only [hreq, Bool.false_eq_true, if_false] at hstep
      have hstep' : stepConn c = .halt (mkC0 c .finished t') .finished := hstep
      exact Or.inr ⟨mkC0 c .finished t', (Halts.now hstep').mono (by omega), mkC0_link c _ hts,
        ⟨rfl, hlog', hev.step hts, hsc, by omega⟩⟩

/-- A poll of `close` that is (back) in the `write_all` of the replies still queued in the parser. -/
theorem eclose_out {g : Cfg} {Lf ep : Bytes} {c : Conn} {r r2 : AReq} {cs : CloseSt}
    {rest : Bytes} {t1 : Transport}
    (hph : c.phase = .closing r cs g.st 0)
    (heq : closePoll r cs g.st 0 c.env.mutex c.env.tr = closeP4 r2 none t1 (.writeOut rest ep))
    (hts1 : TStep c.env.tr t1)
    (hce : CEndW g r2 t1.input)
    (hlog : t1.wlog ++ rest ++ ep = Lf)
    (hb : Ben c.env.tr) (hstop : c.stop = false) (hev : Ev1 g c.env.tr)
    (hsc : c.scripts = g.more) :
    GRes3 (LE g Lf ep) (AfterE g Lf) (FinE g Lf) 2 c := by
  have hb1 := hb.step hts1
  rcases hw : writeAllLoop (rest.length + 1) rest t1 with ⟨rest', t', res⟩
  obtain ⟨hts, hinp, ⟨dn, hd, hl⟩, hres⟩ := writeAllLoop_ben _ _ _ hb1 (Nat.lt_succ_self _) hw
  rcases hres with ⟨rfl, rfl⟩ | ⟨rfl, _, hwk, hans⟩
  · simp only [List.append_nil] at hd
    subst hd
    have heq' : closePoll r cs g.st 0 c.env.mutex c.env.tr =
        closePoll.finishEnd { r2 with sp := r2.sp.consumeOutput r2.sp.output.length } ep none t' := by
      rw [heq]; simp only [closeP4, hw]
    refine eclose_core hph heq' (hts1.trans hts) ?_ (by rw [hl, ← hlog]) hb hstop hev hsc
    rw [hinp]
    exact ⟨hce.pay, hce.pad, by simp [Str.Parser.consumeOutput], hce.wire, hce.req, hce.cap, hce.mc, hce.rawlen⟩
  · have hstep := C07.closing_step c r cs g.st 0 hph
    rw [heq] at hstep
    simp only [closeP4, hw] at hstep
    have hstep' : stepConn c = .halt (mkC0 c (.closing r2 (.writeOut rest' ep) g.st 0) t') .pending := hstep
    refine Or.inl (Or.inl ⟨_, (Halts.now hstep').mono (by omega), mkC0_link c _ (hts1.trans hts), ?_, hwk,
      by show ans t' < ans c.env.tr; have := hts1.ans_le; omega⟩)
    exact Or.inl ⟨r2, rest', rfl, by show CEndW g r2 t'.input; rw [hinp]; exact hce, rfl,
      by show t'.wlog ++ rest' ++ ep = _; rw [hl, ← hlog, hd]; simp only [List.append_assoc],
      hb.step (hts1.trans hts), hstop, hev.step (hts1.trans hts), hsc⟩

theorem le_poll {g : Cfg} {Lf ep : Bytes} {c : Conn} (h : LE g Lf ep c) :
    GRes3 (LE g Lf ep) (AfterE g Lf) (FinE g Lf) 2 c := by
  rcases h with ⟨r, rest', hph, hce, hm, hlog, hb, hstop, hev, hsc⟩ | ⟨r, rest', hph, hce, hm, hlog, hb, hstop, hev, hsc⟩
  · refine eclose_out (r2 := r) (rest := rest') hph ?_ (.refl _) hce hlog hb hstop hev hsc
    rw [closePoll_late _ _ _ _ _ _ rfl, hm]
  · refine eclose_core (r2 := r) (rest := rest') hph ?_ (.refl _) hce hlog hb hstop hev hsc
    rw [closePoll_late _ _ _ _ _ _ rfl, hm]
    rfl

/-- `AfterE` as a `ZTailAt` (index `Unit`) -/
theorem AfterE.ztail {g : Cfg} {Lf Z : Bytes} {evs : List String} {c1 : Conn} (haf : AfterE g Lf c1)
    (hev : ∀ s ∈ evs, s ∈ c1.env.tr.events) :
    ZTailAt g.cap g.mc Z g.more (g.hs0 + 1) (fun _ : Unit => g.p.flags.toNat % 2 = 1) (fun _ => g.U ++ Z) (fun _ => Lf)
      (fun _ => hsEvent g.p.request :: evs) c1 := by
  obtain ⟨raw, hph, hw, hraw⟩ := haf.ph
  exact ⟨(), haf.keep, Or.inr ⟨raw, hph, by rw [hw], hraw, haf.log, haf.ben, haf.stop⟩,
    ⟨haf.sc, haf.mtx, haf.ev.1, fun s hs => by
      rcases List.mem_cons.1 hs with rfl | hs
      · exact haf.ev.2
      · exact hev s hs⟩⟩

/-! ## The request -/

/-- The hypotheses: a Filter; `g.body` = the records between the preamble and the request's
`AbortRequest` record `a` (own Stdin records, noise — NO Data content), `g.body2` = the records behind
it; the handler is `[.ret st]`. -/
structure FAOK (g : Cfg) (a : Rec) : Prop where
  wf : WellFormedPreamble g.p g.recs
  role : g.p.role = 3
  pairs : ∀ q ∈ g.p.pairs, (NV.enc q).length ≤ alignedBufsize g.b
  noise : NoiseFits (alignedBufsize g.b) g.recs
  pre : ∀ r ∈ g.body, StdinRec g.p.id r
  hf : NoiseFits (alignedBufsize g.b) g.body
  ab : IsAbort g.p.id a
  hX : g.X = serAll (g.body ++ [a]) ++ serAll g.body2
  hU : g.U = a.ser ++ serAll g.body2
  hs : g.hscript = [.ret g.st]

theorem FAOK.fok {g : Cfg} {a : Rec} (ok : FAOK g a) : FOK g := ⟨ok.wf, ok.pairs, ok.noise⟩
theorem FAOK.hid {g : Cfg} {a : Rec} (ok : FAOK g a) : g.p.id < 65536 := (pid_of_wf ok.wf).2

theorem FAOK.front {g : Cfg} {a : Rec} (ok : FAOK g a) {us : List Rec} (hu : LeftOK (alignedBufsize g.b) us) :
    FAOK (g.front us) a :=
  ⟨wf_idle ok.wf us hu.1, ok.role, ok.pairs, noiseFits_app hu.2 ok.noise, ok.pre, ok.hf, ok.ab, ok.hX, ok.hU, ok.hs⟩

/-- the Data stream as `writeable()` sees it from the start of Stdin: aborted before any content -/
def Cfg.KFA (g : Cfg) (a : Rec) : RCtx :=
  ⟨⟨g.p.id, 3, 8, g.mc⟩, g.p.request, g.cap, g.X, [], owedI g.p.id g.mc g.body, a.ser ++ serAll g.body2⟩

theorem FAOK.kaok {g : Cfg} {a : Rec} (ok : FAOK g a) : (g.KFA a).Aborted := by
  have hid := ok.hid
  have hwa := isAbort_wf ok.ab hid
  have hcls : rclass ⟨g.p.id, 3, 8, g.mc⟩ a = .abort := by
    simp [rclass, ok.ab.1, ok.ab.2.1, RT.isInputStream, RT.abortRequest]
  have hwfp : ∀ r ∈ g.body, r.WF := fun r hr => (ok.pre r hr).1
  have hwf : ∀ r ∈ g.body ++ [a], r.WF := by
    intro r hr
    rcases List.mem_append.1 hr with hr | hr
    · exact hwfp r hr
    · rw [List.mem_singleton.1 hr]; exact hwa
  have href : ∀ tail, refWire ⟨g.p.id, 3, 8, g.mc⟩ (serAll (g.body ++ [a]) ++ tail) =
      ⟨[], owedI g.p.id g.mc g.body, .err .abortRequest, a.ser ++ tail⟩ := by
    intro tail
    have htl : refRun ⟨g.p.id, 3, 8, g.mc⟩ [a] = ⟨[], [], .abort 0⟩ := by simp only [refRun, hcls]
    rw [← ref_eq_refWire _ .skip, ref_serAll _ _ hwf tail .skip, refRun_view g.p.id g.mc g.body ok.pre [a], htl]
    simp only [stop_add_abort, glue, List.append_nil, List.drop_left', C02.serAll_single]
  refine ⟨?_, ?_, by have := cap24 g; show 8 ≤ g.cap; omega⟩
  · show refWire ⟨g.p.id, 3, 8, g.mc⟩ g.X = _
    rw [ok.hX, href]
    rfl
  · intro G hG hv
    have hG' : G <+: serAll (g.body ++ [a]) ++ serAll g.body2 := by rw [← ok.hX]; exact hG
    have hfull : (refWire ⟨g.p.id, 3, 8, g.mc⟩ (serAll (g.body ++ [a]))).verdict ≠ .more := by
      have := href []
      rw [List.append_nil] at this
      rw [this]; intro h; cases h
    rcases prefix_append_cases hG' with ⟨e, rfl, _⟩ | ⟨t, _, hFt⟩
    · exfalso
      have hv' : (refWire ⟨g.p.id, 3, 8, g.mc⟩ (serAll (g.body ++ [a]) ++ e)).verdict = .more := hv
      rw [href e] at hv'
      cases hv'
    · refine stream_fits ⟨g.p.id, 3, 8, g.mc⟩ _ hwf hfull
        (by show 8 ≤ alignedBufsize g.b; exact Nat.le_trans (by omega) (cap24 g)) ?_ G ⟨t, hFt⟩ hv
      intro r hr hg
      rcases List.mem_append.1 hr with hr | hr
      · exact ok.hf r hr hg
      · rw [List.mem_singleton.1 hr] at hg
        exact absurd hg.1 (by rw [ok.ab.1]; decide)

/-- the epilogue of a request that is not writeable: the bare `EndRequest` -/
def Cfg.epN (g : Cfg) : Bytes := makeRequestEpilogue g.p.id g.st []

/-- the log when `close` is done -/
def Cfg.LfA (g : Cfg) : Bytes := g.L1 ++ owedI g.p.id g.mc g.body ++ g.epN

/-! ## Stages -/

/-- `close`, suspended in `writeable()`; the request is not writeable -/
def WA (g : Cfg) (a : Rec) (c : Conn) : Prop :=
  ∃ r dO, c.phase = .closing r .inWriteable g.st 0 ∧ RSt (g.KFA a) g.L1 [] r c.env.mutex c.env.tr [] dO ∧
    r.writeable = false ∧ Ben c.env.tr ∧ c.stop = false ∧ Ev1 g c.env.tr ∧ c.scripts = g.more

def SFA (g : Cfg) (a : Rec) (c : Conn) : Prop := FStage g c ∨ WA g a c ∨ LE g g.LfA g.epN c

theorem SFA.cong {g : Cfg} {a : Rec} {c c' : Conn} (h : SFA g a c)
    (hph : c'.phase = c.phase) (hsc : c'.scripts = c.scripts) (hstop : c'.stop = c.stop)
    (hm : c'.env.mutex = c.env.mutex) (hs : TrSame c.env.tr c'.env.tr) : SFA g a c' := by
  rcases h with h | ⟨r, dO, h1, h2, h3, h4, h5, h6, h7⟩ | h
  · exact Or.inl (h.cong hph hsc hstop hm hs)
  · exact Or.inr (Or.inl ⟨r, dO, hph.trans h1, h2.cong hm hs, h3, hs.ben h4, hstop.trans h5, hs.ev1 h6, hsc.trans h7⟩)
  · exact Or.inr (Or.inr (h.cong hph hsc hstop hm hs))

/-- **One poll of `close` inside `writeable()`**: suspended, or the abort record is reached — `close`
swallows the error and finishes with the bare `EndRequest(id, st)`. -/
theorem fa_wpoll {g : Cfg} {a : Rec} (ok : FAOK g a) {c : Conn} {r r1 : AReq} {cs : CloseSt}
    {dO : Bytes} (hph : c.phase = .closing r cs g.st 0)
    (hp1 : closeP1 r cs c.env.mutex c.env.tr = wTail (r1.pollInput none c.env.mutex c.env.tr))
    (hs : RSt (g.KFA a) g.L1 [] r1 c.env.mutex c.env.tr [] dO) (hnw : r1.writeable = false)
    (hb : Ben c.env.tr) (hstop : c.stop = false) (hev : Ev1 g c.env.tr) (hsc : c.scripts = g.more) :
    GRes3 (SFA g a) (AfterE g g.LfA) (FinE g g.LfA) 2 c := by
  have hK := ok.kaok
  rcases hpi : r1.pollInput none c.env.mutex c.env.tr with ⟨r', m', t', res⟩
  obtain ⟨hts, hpost⟩ := pollInput_simA0 hK rfl hb hs hpi
  rw [hnw] at hpost
  rw [hpi] at hp1
  cases res with
  | pending =>
    obtain ⟨⟨dO', hs'⟩, hwk, hans, hw'⟩ := hpost
    have heq : closePoll r cs g.st 0 c.env.mutex c.env.tr = (r', .inWriteable, m', t', .pending) := by
      rw [closePoll_eq', hp1]; rfl
    have hstep := C07.closing_step c r cs g.st 0 hph
    rw [heq] at hstep
    have hstep' : stepConn c = .halt ⟨.closing r' .inWriteable g.st 0, ⟨t', m', c.env.segs⟩, c.scripts, c.stop⟩ .pending :=
      hstep
    exact Or.inl (Or.inl ⟨_, (Halts.now hstep').mono (by omega), ⟨hts.w, rfl, rfl⟩,
      Or.inr (Or.inl ⟨r', dO', rfl, hs', hw', hb.step hts, hstop, hev.step hts, hsc⟩), hwk, hans⟩)
  | ready k d => exact hpost.elim
  | err e =>
    obtain ⟨rfl, rfl, hat, hw'⟩ := hpost
    have hp1' : closeP1 r cs c.env.mutex c.env.tr = .ok (r', none, t', .start) := hp1
    have heq0 := closePoll_w_tail g.st hp1'
    have hrb : (spIgnore r'.sp).isRecordBoundary = true := by
      simp [Str.Parser.isRecordBoundary, spIgnore_pay, spIgnore_pad, hat.pay, hat.pad]
    have hcb : closeBoundary (spIgnore r'.sp) false t' = (spIgnore r'.sp, t', .ready) := by
      simp [closeBoundary, hrb]
    rw [hcb] at heq0
    have hreq : r'.sp.request = g.p.request := hat.req
    have hepi : epilogueOf { r' with sp := spIgnore r'.sp } g.st = g.epN := by
      simp only [epilogueOf, hw', Bool.false_eq_true, if_false, Cfg.epN]
      show makeRequestEpilogue (spIgnore r'.sp).request.id g.st [] = _
      rw [spIgnore_request, hreq]
      rfl
    have heq : closePoll r cs g.st 0 c.env.mutex c.env.tr =
        closeP4 { sp := spIgnore r'.sp, lock := .none, writeable := r'.writeable } none t'
          (.writeOut (spIgnore r'.sp).output g.epN) := by
      rw [heq0, ← hepi]
      simp only [closeTail, closeP2Tail, closeP3_start, Nat.lt_irrefl, gt_iff_lt, if_false, hat.lock, lockDrop]
    have hrawlen : r'.sp.raw.length ≤ g.cap := by
      have := hat.sinv.1
      rw [hat.capK] at this
      simp only [Str.Parser.freeStart] at this
      have e : (g.KFA a).cap = g.cap := rfl
      omega
    have hce : CEndW g { sp := spIgnore r'.sp, lock := .none, writeable := r'.writeable } t'.input :=
      ⟨by show (spIgnore r'.sp).pay = 0; rw [spIgnore_pay]; exact hat.pay,
        by show (spIgnore r'.sp).pad = 0; rw [spIgnore_pad]; exact hat.pad,
        by show (spIgnore r'.sp).raw ++ t'.input = g.U
           rw [spIgnore_raw, ok.hU]; exact hat.wire,
        by show (spIgnore r'.sp).request = _; rw [spIgnore_request]; exact hreq,
        by show (spIgnore r'.sp).cap = _; rw [spIgnore_cap]; exact hat.capK,
        by show (spIgnore r'.sp).maxConns = _; rw [spIgnore_mc]; exact hat.mcK,
        by show (spIgnore r'.sp).raw.length ≤ _; rw [spIgnore_raw]; exact hrawlen⟩
    obtain ⟨O1, hl1, hl2⟩ := hat.log
    have hlog : t'.wlog ++ (spIgnore r'.sp).output ++ g.epN = g.LfA := by
      rw [spIgnore_output, hl1, List.append_assoc g.L1, hl2]
      rfl
    exact (eclose_out (g := g) (Lf := g.LfA) (ep := g.epN) hph heq hts hce hlog hb hstop hev hsc).imp
      (fun _ _ h => Or.inr (Or.inr h)) (fun _ _ h => h) (fun _ _ h => h)
  | panic s => exact hpost.elim

/-- the first poll of the handler `[.ret st]`: it returns, `close` starts `writeable()` -/
theorem filterA_first {g : Cfg} {a : Rec} (ok : FAOK g a) (c : Conn) (hc : FirstCfg g c) :
    GRes3 (SFA g a) (AfterE g g.LfA) (FinE g g.LfA) 6 c := by
  obtain ⟨e1, hph, hlen, hwire, hlog, hm, hb, hstop, hev, hsc⟩ := hc
  have hrole : g.p.request.role = 3 := ok.role
  have hstep := C07.handler_step c _ _ hph
  obtain ⟨f, hf⟩ : ∃ f, (handlerFuel c.env (AReq.new (Str.Parser.fromParser g.cap g.p.request e1 g.mc)) + scriptOf c) = f + 1 :=
    ⟨(handlerFuel c.env (AReq.new (Str.Parser.fromParser g.cap g.p.request e1 g.mc)) + scriptOf c) - 1, by have := handlerFuel_ge c.env (AReq.new (Str.Parser.fromParser g.cap g.p.request e1 g.mc)); omega⟩
  rw [ok.hs, hf, hp_ret] at hstep
  have hts2 : TStep c.env.tr (c.env.tr.ev s!"HE(ok:{showStatus g.st})") := TStep.ev _ (by simp [isHS, toString_str])
  have hstep' : stepConn c = .next ⟨.closing (AReq.new (Str.Parser.fromParser g.cap g.p.request e1 g.mc)) .start g.st 0,
      c.env.ev s!"HE(ok:{showStatus g.st})", c.scripts, c.stop⟩ := hstep
  have hwr : (AReq.new (Str.Parser.fromParser g.cap g.p.request e1 g.mc)).writeable = false := by
    simp [AReq.new, Str.Parser.fromParser, hrole, inputStreams]
  have hstrm : (Str.Parser.fromParser g.cap g.p.request e1 g.mc).stream = some 5 := by
    simp [Str.Parser.fromParser, hrole, nextInputStream, RT.stdin]
  have hset : (Str.Parser.fromParser g.cap g.p.request e1 g.mc).setStream
      (inputStreams (Str.Parser.fromParser g.cap g.p.request e1 g.mc).request.role).getLast? =
      .ok ((Str.Parser.fromParser g.cap g.p.request e1 g.mc).switchTo (some 8)) := by
    have e : (inputStreams (Str.Parser.fromParser g.cap g.p.request e1 g.mc).request.role).getLast? = some 8 := by
      show (inputStreams g.p.request.role).getLast? = some 8
      rw [hrole]; rfl
    rw [e, setStream_some_input _ (by decide) (by intro e he; rw [hstrm] at he; cases he; decide), hstrm]
    have hl : Later (Str.Parser.fromParser g.cap g.p.request e1 g.mc).request.role (some 5) 8 := by
      show Later g.p.request.role (some 5) 8
      rw [hrole]; exact later358
    simp [hl]
  have hsinv0 := Str.SInv_fromParser g.cap g.p.request e1 g.mc hlen ok.hid
  have hri : RInv (g.KFA a)
      ({ AReq.new (Str.Parser.fromParser g.cap g.p.request e1 g.mc) with
        sp := (Str.Parser.fromParser g.cap g.p.request e1 g.mc).switchTo (some 8) } : AReq)
      e1 c.env.tr.input [] [] := by
    refine ⟨⟨rfl, hrole, rfl, rfl, by show 8 ∈ inputStreams 3; decide⟩,
      SInv_switchTo hsinv0 (Or.inr ⟨8, rfl, by show 8 ∈ inputStreams g.p.request.role; rw [hrole]; decide⟩),
      rfl, rfl, rfl, hwire, fun x => ?_⟩
    rw [RefOut.pre_nil]
    exact (ref_eq_refWire _ _ _).symm
  have hcore := fa_wpoll ok
    (c := ⟨.closing (AReq.new (Str.Parser.fromParser g.cap g.p.request e1 g.mc)) .start g.st 0,
      c.env.ev s!"HE(ok:{showStatus g.st})", c.scripts, c.stop⟩) (dO := []) rfl
    (closeP1_first _ _ _ hwr hset)
    ⟨⟨e1, hri⟩, by show LockInv _ c.env.mutex; rw [hm]; exact lockInv_free rfl, Or.inl hm,
      ⟨[], by show c.env.tr.wlog = _; rw [hlog, List.append_nil], rfl⟩⟩ hwr
    (hb.step hts2) hstop (hev.step hts2) hsc
  exact (GRes3.of_steps (Steps.one hstep') ⟨hts2.w, rfl, rfl⟩ hcore).mono (by omega)


theorem sfa_poll {g : Cfg} {a : Rec} (ok : FAOK g a) {c : Conn} (h : SFA g a c) :
    GRes3 (SFA g a) (AfterE g g.LfA) (FinE g g.LfA) (2 * c.env.tr.input.length + 15) c := by
  rcases h with h | ⟨r, dO, h1, h2, h3, h4, h5, h6, h7⟩ | h
  · exact fstage_poll3 ok.fok (fun _ h => Or.inl h) (filterA_first ok) h
  · exact (fa_wpoll ok h1 (closeP1_resume _ _ _) h2 h3 h4 h5 h6 h7).mono (by omega)
  · exact ((le_poll h).imp (fun _ _ h => Or.inr (Or.inr h)) (fun _ _ h => h) (fun _ _ h => h)).mono (by omega)

/-- **The executor** for a Filter request whose handler never reads and whose `AbortRequest` record
comes before any Data content.  With KEEP_CONN: parked behind the abort record and what followed it
(swallowed by the next `parse_request`), or returned at end-of-file; without: returned after the bare
`EndRequest`. -/
theorem run_filterA {g : Cfg} {a : Rec} (ok : FAOK g a) {Z : Bytes}
    (hns : NoStuckW g.cap g.mc (g.U ++ Z))
    (hNF : ∀ F x, F ++ x ++ Z = g.U ++ Z → (run .header F g.mc).st.isFinal = false)
    (em : EndMode) (evs0 : List String) (c : Conn) (n0 fuel : Nat) (hst : FStage g c)
    (hem : c.env.tr.endMode = em) (hev0 : ∀ s ∈ evs0, s ∈ c.env.tr.events)
    (hsegs : c.env.segs = []) (hf : ans c.env.tr + 1 ≤ fuel) (hlen : 6 * c.env.tr.input.length + 26 ≤ 100000) :
    ∃ c'' fin, runTask fuel c n0 none = (c'', fin) ∧
      (GEnd g.cap g.mc Z g.more (g.hs0 + 1) (fun _ : Unit => g.p.flags.toNat % 2 = 1) (fun _ => g.U ++ Z)
          (fun _ => g.LfA) (fun _ => [hsEvent g.p.request]) em evs0 (ans c.env.tr) c'' fin ∨
       (fin = "RET" ∧ FinE g g.LfA c'' ∧ c''.env.tr.endMode = em ∧ (∀ s ∈ evs0, s ∈ c''.env.tr.events))) :=
  run_stages3 (cap24 g) (fun _ _ => hns) (fun _ _ => hNF) (fun _ _ h => h.cong)
    (fun _ h => (sfa_poll ok h).imp (fun _ _ h => h)
      (fun _ _ h => h.ztail (evs := []) (fun _ hs => nomatch hs)) (fun _ _ h => h))
    em evs0 c n0 fuel (Or.inl hst) hem hev0 hsegs hf hlen

/-- the request (KEEP_CONN) started from any `StartAt` of a chain: it ends parked behind its abort
record and what followed it -/
theorem serve_filterA_core {g : Cfg} {a : Rec} (ok : FAOK g a) (hk : g.p.flags.toNat % 2 = 1)
    {left : List Rec} (hleft : LeftOK (alignedBufsize g.b) left) {Z : Bytes}
    (hR : ∀ e ∈ a :: g.body2, IdleNoise e) (hZ : GoodNext g.cap g.mc (a :: g.body2) Z)
    {Lw : Bytes} {evs : List String} {A0 : Nat} {c : Conn} (n0 fuel : Nat)
    (hLw : Lw = g.L0 ++ idleOwed g.mc left)
    (hstart : StartAt g.cap g.mc left Lw ((g.hscript, true) :: g.more) g.hs0 evs A0 g.W c)
    (hf : A0 + 1 ≤ fuel) (hsize : 6 * g.W.length + 26 ≤ 100000) :
    ∃ c', runTask fuel c n0 none = (c', "STALL") ∧
      Waiting g.cap g.mc (a :: g.body2) ((g.front left).LfA ++ idleOwed g.mc (a :: g.body2)) g.more
        (g.hs0 + 1) (hsEvent g.p.request :: evs) A0 c' := by
  have okf := ok.front hleft
  obtain ⟨hst, hsg, hem, hans, hev, hin⟩ := fstage_of_startAt hleft hLw hstart
  have hser : serAll (a :: g.body2) = g.U := by rw [ok.hU, serAll_cons]
  obtain ⟨c', fin, hrun, hres⟩ :=
    run_filterA okf (Z := Z) (by show NoStuckW g.cap g.mc (g.U ++ Z); rw [← hser]; exact hZ.1)
      (by show ∀ F x, F ++ x ++ Z = g.U ++ Z → _; rw [← hser]; exact hZ.2) .pend evs c n0 fuel hst hem hev hsg
      (by omega) (by rw [hin]; exact hsize)
  rcases hres with ⟨_, _, hkp, hem', hev', hans', hsg', hend⟩ | ⟨_, hfu, _, _⟩
  · rcases hend with ⟨rfl, hp⟩ | ⟨_, hfn⟩
    · obtain ⟨F, hF, hps, hph, hlg⟩ := hp.pst
      have hFe : F = serAll (a :: g.body2) := by
        have : F ++ Z = g.U ++ Z := hF
        rw [hser]; exact List.append_cancel_right this
      subst hFe
      have hnf : (run .header (serAll (a :: g.body2)) g.mc).st.isFinal = false := (run_idle_out g.mc _ hR).2.2
      have hob : (run .header (serAll (a :: g.body2)) (g.front left).mc).out = idleOwed g.mc (a :: g.body2) :=
        (run_idle_out g.mc _ hR).1
      refine ⟨c', hrun, ⟨hph, hnf, hps.rem, hp.inp, by rw [hlg, hob], ⟨(g.front left).LfA, by
        show _ = _ ++ (run .header (serAll (a :: g.body2)) (g.front left).mc).out
        rw [hob]⟩, hps.stop, hps.ben, hkp.sc, hkp.mx,
        hkp.hs, ?_, hsg', hem', by omega⟩⟩
      intro s hs
      rcases List.mem_cons.1 hs with rfl | hs
      · exact hkp.ev _ List.mem_cons_self
      · exact hev' s hs
    · rw [hfn.em] at hem'; cases hem'
  · have := hfu.nokeep
    have e : (g.front left).p = g.p := rfl
    rw [e] at this
    omega

end Fcgi.E2E
