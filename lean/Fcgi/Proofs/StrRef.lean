import Fcgi.Proofs.StrSim
/-!
# A big-step reference for the input-stream parser on ARBITRARY bytes (C03, stream half)

`ref E st pay pad w` says what a parser in control state `(st, pay, pad)` — `pay` payload bytes
and `pad` padding bytes of the current record still to come — makes of the byte string `w` when
all of `w` is available and it is run until it cannot go on:

* `content` — the bytes of the active stream `E.s` of request `E.id` carried by `w` up to the first
  stop;
* `out` — the replies generated up to there;
* `verdict` — why it stops: the input ran out (`more`), a header that ends the stream is held back
  (`eos`), or a fatal header (`err`: own-id `AbortRequest`, version byte ≠ 1);
* `unread` — the bytes from the first unprocessed one.

It is defined over record headers only (`hclass`), takes whole payloads at once and knows nothing
of buffers, chunks, `dest` or call boundaries.  `Proofs/StrDecomp.lean` connects it with the
record-level semantics `refRun` over `List Rec`; `Proofs/StrHostile.lean` shows that the model of
`stream.rs` follows it for every legal call history.

This file: the definition, its unfolding equations, and the micro-step equations
(`ref_adv`, `ref_adv_pad`, `ref_values_more`, `ref_values_done`) matching the parser's steps.
-/
namespace Fcgi.Str
open Fcgi Fcgi.Req Fcgi.Spec

/-- The fixed data: request id, role, active stream, `max_conns`. -/
structure Cfg where
  id : Nat
  role : Nat
  s : Nat
  mc : Nat
deriving Repr, DecidableEq

/-- Why the parser cannot go on. -/
inductive Verdict
  | more                 -- the input ran out
  | eos                  -- end of the active stream (header held back)
  | err (e : PErr)       -- fatal header
deriving DecidableEq, Repr

/-- What a record header makes the parser do: stop in front of it, or consume it, enter `st` for
the record's body and queue the reply `o`. -/
inductive HClass
  | stop (v : Verdict)
  | pass (st : SState) (o : Bytes)
deriving DecidableEq, Repr

/-- Classification of the header bytes version, type, id (2), content length (2). -/
def hclass (E : Cfg) (b0 b1 b2 b3 b4 b5 : UInt8) : HClass :=
  if b0.toNat ≠ 1 then .stop (.err (.unknownVersion b0))
  else if RT.valid b1.toNat = false then .pass .skip (UnknownType.toRecord b1 (be16 b2 b3))
  else if RT.isInputStream b1.toNat = true ∧ be16 b2 b3 = E.id then
    if b1.toNat = E.s then (if be16 b4 b5 = 0 then .stop .eos else .pass .stream [])
    else if Later E.role (some E.s) b1.toNat then .stop .eos
    else .pass .skip []
  else if b1.toNat = RT.abortRequest ∧ be16 b2 b3 = E.id then .stop (.err .abortRequest)
  else if b1.toNat = RT.beginRequest ∧ be16 b2 b3 ≠ E.id then
    .pass .skip (EndRequest.toRecord { appStatus := 0, protocolStatus := 1 } (be16 b2 b3))
  else if b1.toNat = RT.getValues ∧ be16 b2 b3 = 0 then .pass (.values 0) []
  else .pass .skip []

structure RefOut where
  content : Bytes
  out : Bytes
  verdict : Verdict
  unread : Bytes
deriving DecidableEq, Repr

/-- Put `d` in front of the content and `o` in front of the replies. -/
def RefOut.pre (d o : Bytes) (R : RefOut) : RefOut :=
  { R with content := d ++ R.content, out := o ++ R.out }

@[simp] theorem RefOut.pre_content (d o : Bytes) (R : RefOut) : (R.pre d o).content = d ++ R.content := rfl
@[simp] theorem RefOut.pre_out (d o : Bytes) (R : RefOut) : (R.pre d o).out = o ++ R.out := rfl
@[simp] theorem RefOut.pre_verdict (d o : Bytes) (R : RefOut) : (R.pre d o).verdict = R.verdict := rfl
@[simp] theorem RefOut.pre_unread (d o : Bytes) (R : RefOut) : (R.pre d o).unread = R.unread := rfl

theorem RefOut.pre_nil (R : RefOut) : R.pre [] [] = R := rfl

theorem RefOut.pre_pre (d d' o o' : Bytes) (R : RefOut) :
    (R.pre d' o').pre d o = R.pre (d ++ d') (o ++ o') := by
  simp [RefOut.pre, List.append_assoc]

/-- What stays unread of an incomplete payload: for a GetValues body the incomplete name-value
pair at its end; nothing otherwise. -/
def partialRest : SState → Bytes → Bytes
  | .values _, w => (NV.all w).2
  | _, _ => []

/-- **The reference.** -/
def ref (E : Cfg) (st : SState) (pay pad : Nat) (w : Bytes) : RefOut :=
  if _h1 : 0 < pay then
    if _h2 : w.length < pay then ⟨stateC st w, [], .more, partialRest st w⟩
    else (ref E st 0 pad (w.drop pay)).pre (stateC st (w.take pay)) (stateO E.mc st (w.take pay))
  else if _h3 : 0 < pad then
    if _h4 : w.length < pad then ⟨[], [], .more, []⟩
    else ref E st 0 0 (w.drop pad)
  else
    match w with
    | b0 :: b1 :: b2 :: b3 :: b4 :: b5 :: b6 :: _ :: rest =>
      match hclass E b0 b1 b2 b3 b4 b5 with
      | .stop v => ⟨[], [], v, w⟩
      | .pass st' o => (ref E st' (be16 b4 b5) b6.toNat rest).pre [] o
    | _ => ⟨[], [], .more, w⟩
termination_by w.length
decreasing_by
  all_goals simp only [List.length_drop, List.length_cons]
  all_goals omega

/-! ## Unfolding equations -/

theorem ref_pay_short (E : Cfg) (st : SState) {pay : Nat} (pad : Nat) {w : Bytes} (h1 : 0 < pay)
    (h2 : w.length < pay) : ref E st pay pad w = ⟨stateC st w, [], .more, partialRest st w⟩ := by
  rw [ref.eq_def]; simp only [h1, h2, dite_true]

theorem ref_pay_full (E : Cfg) (st : SState) {pay : Nat} (pad : Nat) {w : Bytes} (h1 : 0 < pay)
    (h2 : pay ≤ w.length) :
    ref E st pay pad w =
      (ref E st 0 pad (w.drop pay)).pre (stateC st (w.take pay)) (stateO E.mc st (w.take pay)) := by
  rw [ref.eq_def]
  have : ¬ w.length < pay := by omega
  simp only [h1, this, dite_true, dite_false]

theorem ref_pad_short (E : Cfg) (st : SState) {pad : Nat} {w : Bytes} (h1 : 0 < pad)
    (h2 : w.length < pad) : ref E st 0 pad w = ⟨[], [], .more, []⟩ := by
  rw [ref.eq_def]; simp only [Nat.lt_irrefl, h1, h2, dite_true, dite_false]

theorem ref_pad_full (E : Cfg) (st : SState) {pad : Nat} {w : Bytes} (h1 : 0 < pad)
    (h2 : pad ≤ w.length) : ref E st 0 pad w = ref E st 0 0 (w.drop pad) := by
  rw [ref.eq_def]
  have : ¬ w.length < pad := by omega
  simp only [Nat.lt_irrefl, h1, this, dite_true, dite_false]

theorem ref_hdr (E : Cfg) (st : SState) (b0 b1 b2 b3 b4 b5 b6 b7 : UInt8) (rest : Bytes) :
    ref E st 0 0 (b0 :: b1 :: b2 :: b3 :: b4 :: b5 :: b6 :: b7 :: rest) =
      match hclass E b0 b1 b2 b3 b4 b5 with
      | .stop v => ⟨[], [], v, b0 :: b1 :: b2 :: b3 :: b4 :: b5 :: b6 :: b7 :: rest⟩
      | .pass st' o => (ref E st' (be16 b4 b5) b6.toNat rest).pre [] o := by
  rw [ref.eq_def]; simp only [Nat.lt_irrefl, dite_false]

theorem ref_short (E : Cfg) (st : SState) {w : Bytes} (h : w.length < 8) :
    ref E st 0 0 w = ⟨[], [], .more, w⟩ := by
  rw [ref.eq_def]
  simp only [Nat.lt_irrefl, dite_false]
  split
  · simp only [List.length_cons] at h; omega
  · rfl

/-- At a record boundary the state is irrelevant. -/
theorem ref_bdry_irrel (E : Cfg) (st st' : SState) (w : Bytes) : ref E st 0 0 w = ref E st' 0 0 w := by
  by_cases h : w.length < 8
  · rw [ref_short E st h, ref_short E st' h]
  · match w, h with
    | b0 :: b1 :: b2 :: b3 :: b4 :: b5 :: b6 :: b7 :: rest, _ => rw [ref_hdr, ref_hdr]
    | [], h | [_], h | [_, _], h | [_, _, _], h | [_, _, _, _], h | [_, _, _, _, _], h
    | [_, _, _, _, _, _], h | [_, _, _, _, _, _, _], h => simp at h

/-- Once the payload is exhausted the state is irrelevant. -/
theorem ref_pay0_irrel (E : Cfg) (st st' : SState) (pad : Nat) (w : Bytes) :
    ref E st 0 pad w = ref E st' 0 pad w := by
  by_cases hp : 0 < pad
  · by_cases h : w.length < pad
    · rw [ref_pad_short E st hp h, ref_pad_short E st' hp h]
    · rw [ref_pad_full E st hp (by omega), ref_pad_full E st' hp (by omega)]
      exact ref_bdry_irrel E st st' _
  · have : pad = 0 := by omega
    subst this
    exact ref_bdry_irrel E st st' _

/-! ## Micro-steps -/

theorem stateC_append_nv {st : SState} (hst : ∀ v, st ≠ .values v) (a b : Bytes) :
    stateC st (a ++ b) = stateC st a ++ stateC st b := by
  cases st with
  | stream => rfl
  | skip => rfl
  | values v => exact absurd rfl (hst v)

theorem stateO_nv {st : SState} (hst : ∀ v, st ≠ .values v) (mc : Nat) (c : Bytes) :
    stateO mc st c = [] := by
  cases st with
  | stream => rfl
  | skip => rfl
  | values v => exact absurd rfl (hst v)

theorem partialRest_nv {st : SState} (hst : ∀ v, st ≠ .values v) (w : Bytes) :
    partialRest st w = [] := by
  cases st with
  | stream => rfl
  | skip => rfl
  | values v => exact absurd rfl (hst v)

/-- **Payload bytes in state `Stream` / `Skip`**: taking `k` of them off the front contributes
`stateC st` of them (the bytes themselves, resp. nothing). -/
theorem ref_adv (E : Cfg) {st : SState} (hst : ∀ v, st ≠ .values v) {pay : Nat} (pad : Nat)
    {w : Bytes} {k : Nat} (hk1 : k ≤ pay) (hk2 : k ≤ w.length) :
    ref E st pay pad w = (ref E st (pay - k) pad (w.drop k)).pre (stateC st (w.take k)) [] := by
  by_cases hk0 : k = 0
  · subst hk0
    simp only [Nat.sub_zero, List.drop_zero, List.take_zero]
    rw [show stateC st [] = [] from stateC_nil st]
    rfl
  have hpay : 0 < pay := by omega
  by_cases hs : w.length < pay
  · -- the input ends inside the payload
    have hpk : 0 < pay - k := by omega
    rw [ref_pay_short E st pad hpay hs,
      ref_pay_short E st pad hpk (by simp only [List.length_drop]; omega)]
    simp only [RefOut.pre, partialRest_nv hst, List.append_nil]
    rw [← stateC_append_nv hst, List.take_append_drop]
  · have hs' : pay ≤ w.length := by omega
    rw [ref_pay_full E st pad hpay hs', stateO_nv hst]
    by_cases hpk : 0 < pay - k
    · rw [ref_pay_full E st pad hpk (by simp only [List.length_drop]; omega), stateO_nv hst,
        RefOut.pre_pre, List.drop_drop, ← stateC_append_nv hst]
      have h1 : k + (pay - k) = pay := by omega
      have h2 : w.take k ++ (w.drop k).take (pay - k) = w.take pay := by
        rw [← h1, List.take_add]
        simp [h1]
      rw [h1, h2]
      rfl
    · have hkp : k = pay := by omega
      subst hkp
      simp only [Nat.sub_self]

/-- **Padding bytes** carry nothing; the state does not matter. -/
theorem ref_adv_pad (E : Cfg) (st st' : SState) {pad : Nat} {w : Bytes} {k : Nat} (hk1 : k ≤ pad)
    (hk2 : k ≤ w.length) : ref E st 0 pad w = ref E st' 0 (pad - k) (w.drop k) := by
  by_cases hk0 : k = 0
  · subst hk0
    simp only [Nat.sub_zero, List.drop_zero]
    exact ref_pay0_irrel E st st' pad w
  have hpad : 0 < pad := by omega
  by_cases hs : w.length < pad
  · rw [ref_pad_short E st hpad hs,
      ref_pad_short E st' (show 0 < pad - k by omega) (by simp only [List.length_drop]; omega)]
  · rw [ref_pad_full E st hpad (by omega)]
    by_cases hpk : 0 < pad - k
    · rw [ref_pad_full E st' hpk (by simp only [List.length_drop]; omega), List.drop_drop]
      have h1 : k + (pad - k) = pad := by omega
      rw [h1]
      exact ref_bdry_irrel E st st' _
    · have hkp : k = pad := by omega
      subst hkp
      simp only [Nat.sub_self]
      exact ref_bdry_irrel E st st' _

theorem nvall_stuck {bs : Bytes} (h : NV.next bs = none) : NV.all bs = ([], bs) := C16.all_none h

/-- **An incomplete GetValues body**: the whole pairs in `raw` are consumed, the incomplete one
stays in front of what follows. -/
theorem ref_values_more (E : Cfg) (v : Nat) {pay : Nat} (pad : Nat) (raw fut : Bytes)
    (hlt : raw.length < pay) :
    ref E (.values v) pay pad (raw ++ fut) =
      ref E (.values (Vars.extend v (NV.all raw).1)) (pay - (raw.length - (NV.all raw).2.length)) pad
        ((NV.all raw).2 ++ fut) := by
  obtain ⟨a0, ha0⟩ := C16.rest_suffix raw
  have hl : raw.length = a0.length + (NV.all raw).2.length := by
    have := congrArg List.length ha0
    simpa only [List.length_append] using this
  have hpay : 0 < pay := by omega
  have hpay' : 0 < pay - (raw.length - (NV.all raw).2.length) := by omega
  have hall := C16.all_append raw
  by_cases hs : (raw ++ fut).length < pay
  · rw [ref_pay_short E _ pad hpay hs,
      ref_pay_short E _ pad hpay' (by simp only [List.length_append] at hs ⊢; omega)]
    simp only [stateC, partialRest]
    rw [hall fut]
  · simp only [List.length_append] at hs
    rw [ref_pay_full E _ pad hpay (by simp only [List.length_append]; omega),
      ref_pay_full E _ pad hpay' (by simp only [List.length_append]; omega)]
    have ht : (raw ++ fut).take pay = raw ++ fut.take (pay - raw.length) := by
      rw [List.take_append]
      rw [List.take_of_length_le (by omega)]
    have ht' : ((NV.all raw).2 ++ fut).take (pay - (raw.length - (NV.all raw).2.length)) =
        (NV.all raw).2 ++ fut.take (pay - raw.length) := by
      rw [List.take_append]
      rw [List.take_of_length_le (by omega)]
      congr 2
      omega
    have hd : (raw ++ fut).drop pay = fut.drop (pay - raw.length) := by
      rw [List.drop_append]
      rw [List.drop_eq_nil_of_le (by omega), List.nil_append]
    have hd' : ((NV.all raw).2 ++ fut).drop (pay - (raw.length - (NV.all raw).2.length)) =
        fut.drop (pay - raw.length) := by
      rw [List.drop_append]
      rw [List.drop_eq_nil_of_le (by omega), List.nil_append]
      congr 1
      omega
    rw [ht, ht', hd, hd']
    have hbne : 0 < (fut.take (pay - raw.length)).length := by
      simp only [List.length_take]; omega
    generalize fut.take (pay - raw.length) = b at hbne
    have hne1 : (raw ++ b).isEmpty = false := by
      cases b with
      | nil => simp at hbne
      | cons x t => cases raw <;> rfl
    have hne2 : ((NV.all raw).2 ++ b).isEmpty = false := by
      cases b with
      | nil => simp at hbne
      | cons x t => cases (NV.all raw).2 <;> rfl
    simp only [stateC, stateO, hne1, hne2]
    rw [hall b, extend_append]
    rw [ref_pay0_irrel E (.values v) (.values (Vars.extend v (NV.all raw).1))]

/-- **A complete GetValues body**: the reply is generated. -/
theorem ref_values_done (E : Cfg) (v : Nat) (st' : SState) {pay : Nat} (pad : Nat) {w : Bytes}
    (hpos : 0 < pay) (hle : pay ≤ w.length) :
    ref E (.values v) pay pad w =
      (ref E st' 0 pad (w.drop pay)).pre []
        (Vars.responseRecord (Vars.extend v (NV.all (w.take pay)).1) E.mc) := by
  rw [ref_pay_full E _ pad hpos hle, ref_pay0_irrel E (.values v) st']
  have hne : (w.take pay).isEmpty = false := by
    cases w with
    | nil => simp at hle; omega
    | cons x t =>
      cases pay with
      | zero => omega
      | succ n => rfl
  simp only [stateC, stateO, hne]
  rfl

/-- The reference on no input at all. -/
theorem ref_nil (E : Cfg) (st : SState) (pay pad : Nat) : ref E st pay pad [] = ⟨[], [], .more, []⟩ := by
  by_cases h1 : 0 < pay
  · rw [ref_pay_short E st pad h1 (by simpa using h1), stateC_nil]
    cases st with
    | stream => rfl
    | skip => rfl
    | values v =>
      simp only [partialRest]
      rw [nvall_stuck (by decide)]
      done
  · have : pay = 0 := by omega
    subst this
    by_cases h2 : 0 < pad
    · rw [ref_pad_short E st h2 (by simpa using h2)]
    · have : pad = 0 := by omega
      subst this
      exact ref_short E st (by simp)

end Fcgi.Str
