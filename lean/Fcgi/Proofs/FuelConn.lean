import Fcgi.Proofs.FuelHandler
import Fcgi.Proofs.ReqSplit
/-!
# The connection task: a measure that every phase transition within one poll decreases

`pollConn fuel c` iterates `stepConn`; this file shows that `mu c` strictly decreases along every
`.next` (`stepConn_mu`), hence `pollConn` with more than `mu c` fuel never reaches its fuel guard.

`mu c = 7·|transport input| + 5·beff(phase) + rank(phase)`, `beff` = bytes buffered in the parser of
the phase (+ 1 token while a request is in progress).  Why it decreases:
* `reading → writing` takes `k ≥ 1` bytes off the transport and adds at most `k` to the buffer;
* `start → writing`, `writing → reading`, `writing → handler`, `handler → closing` lower the rank and
  never enlarge `input + buffer` (`handlerPoll_pool`, the parser's remainder is a suffix);
* `closing → start` (keep-alive reuse) gives the token back: a request that completed consumed at
  least one byte of `input + buffer` (`run_done_lt`) — so every further request served within the
  same poll is paid for by bytes.
-/
namespace Fcgi.Run
open Fcgi Fcgi.Req Fcgi.Str Fcgi.Async

/-! ## `close`: the pool on reuse -/

def spool (sp : Str.Parser) (t : Transport) : Nat := t.input.length + sp.raw.length + sp.parsed.length

theorem pool_eq_spool (r : AReq) (t : Transport) : pool r t = spool r.sp t := rfl

theorem parse_spool (sp : Str.Parser) (new : Bytes) (dest : Option Nat) (t : Transport) :
    spool (sp.parse new dest).1 t ≤ spool sp t + new.length := by
  have := parse_pool sp new dest
  simp only [spool]; omega

theorem boundaryCont_pool {n : Nat}
    (ih : ∀ (sp : Str.Parser) (new : Bytes) (t : Transport) {sp' : Str.Parser} {t' : Transport} {res : ORes},
      boundaryLoop n sp new t = (sp', t', res) → spool sp' t' ≤ spool sp t + new.length)
    {sp : Str.Parser} {t : Transport} {sp' : Str.Parser} {t' : Transport} {res : ORes}
    (h : boundaryLoop.cont sp t n = (sp', t', res)) : spool sp' t' ≤ spool sp t := by
  simp only [boundaryLoop.cont] at h
  repeat' (split at h)
  all_goals first
    | (cases h; exact Nat.le_refl _)
    | (cases h
       have := read_pool ‹_›
       simp only [spool, rdLen, Str.Parser.compress] at this ⊢; omega)
    | (have h1 := ih _ _ _ h
       have := read_pool ‹_›
       simp only [spool, rdLen, Str.Parser.compress] at this h1 ⊢; omega)

theorem boundaryLoop_pool : ∀ (fuel : Nat) (sp : Str.Parser) (new : Bytes) (t : Transport)
    {sp' : Str.Parser} {t' : Transport} {res : ORes},
    boundaryLoop fuel sp new t = (sp', t', res) → spool sp' t' ≤ spool sp t + new.length := by
  intro fuel
  induction fuel with
  | zero => intro sp new t sp' t' res h; simp only [boundaryLoop] at h; cases h; omega
  | succ n ih =>
    intro sp new t sp' t' res h
    simp only [boundaryLoop] at h
    have hp := parse_spool sp new none t
    repeat' (split at h)
    all_goals first
      | (cases h; exact hp)
      | exact Nat.le_trans (boundaryCont_pool ih h) hp

theorem closeBoundary_pool {sp : Str.Parser} {resume : Bool} {t : Transport}
    {sp' : Str.Parser} {t' : Transport} {res : ORes}
    (h : closeBoundary sp resume t = (sp', t', res)) : spool sp' t' ≤ spool sp t := by
  simp only [closeBoundary] at h
  repeat' (split at h)
  all_goals first
    | (cases h; exact Nat.le_refl _)
    | (cases h
       have := read_pool ‹_›
       simp only [spool, rdLen] at this ⊢; omega)
    | (have h1 := boundaryLoop_pool _ _ _ _ h
       have := read_pool ‹_›
       simp only [spool, rdLen] at this h1 ⊢; omega)
    | (have h1 := boundaryLoop_pool _ _ _ _ h
       simpa using h1)

theorem closeP1_pool {r : AReq} {st : CloseSt} {m : MutexSt} {t : Transport} {r' : AReq} {m' : MutexSt}
    {t' : Transport} {st' : CloseSt} (h : closeP1 r st m t = .ok (r', m', t', st')) :
    pool r' t' ≤ pool r t := by
  simp only [closeP1] at h
  repeat' (split at h)
  all_goals (cases h <;> first | exact Nat.le_refl _ | exact writeablePoll_pool ‹_›)

theorem spRes_pool {r : AReq} {c : Bool} {sp1 : Str.Parser} {resume : Bool} (t : Transport)
    (h : (if c = true then (Except.ok (r.sp, true) : Except String (Str.Parser × Bool))
      else match r.sp.setStream none with
        | .ok sp => .ok (sp, false)
        | _ => .error "async_io:437 ignoring stream data should always be allowed") = .ok (sp1, resume)) :
    spool sp1 t ≤ pool r t := by
  split at h
  · cases h; exact Nat.le_refl _
  · split at h
    · cases h
      obtain ⟨a, b⟩ := setStream_pool ‹_›
      simp only [pool, spool, a]; omega
    · cases h

theorem closeP2_pool {r : AReq} {st : CloseSt} {m : MutexSt} {t : Transport} {r' : AReq} {m' : MutexSt}
    {t' : Transport} {st' : CloseSt} (h : closeP2 r m t st = .ok (r', m', t', st')) :
    pool r' t' ≤ pool r t := by
  simp only [closeP2] at h
  repeat' (split at h)
  all_goals first
    | (cases h; exact Nat.le_refl _)
    | (cases h; done)
    | (cases h; exact Nat.le_trans (closeBoundary_pool ‹_›) (spRes_pool _ ‹_›))

theorem closeP3_pool {r : AReq} {st : CloseSt} {m : MutexSt} {t : Transport} {status : ExitStatus}
    {alive : Nat} {r' : AReq} {m' : MutexSt} {t' : Transport} {st' : CloseSt}
    (h : closeP3 r m t st status alive = .ok (r', m', t', st')) : pool r' t' = pool r t := by
  simp only [closeP3] at h
  repeat' (split at h)
  all_goals (cases h <;> rfl)

theorem finishEnd_reuse {r : AReq} {rest : Bytes} {m : MutexSt} {t : Transport}
    {r' : AReq} {cs' : CloseSt} {m' : MutexSt} {t' : Transport} {rp : Req.Parser}
    (h : closePoll.finishEnd r rest m t = (r', cs', m', t', .reuse rp)) :
    t'.input.length + rp.input.length ≤ pool r t ∧ rp.state = .header := by
  simp only [closePoll.finishEnd] at h
  repeat' (split at h)
  all_goals first
    | (cases h; done)
    | (cases h
       have hle := (writeAllLoop_le _ _ _ ‹_›).input_len
       rename_i hirp
       simp only [Str.Parser.intoRequestParser] at hirp
       repeat' (split at hirp)
       all_goals first
         | (cases hirp; done)
         | (cases hirp
            exact ⟨by simp only [pool, Req.Parser.fromParser]; omega, rfl⟩))

theorem closeP4_reuse {r : AReq} {st : CloseSt} {m : MutexSt} {t : Transport}
    {r' : AReq} {cs' : CloseSt} {m' : MutexSt} {t' : Transport} {rp : Req.Parser}
    (h : closeP4 r m t st = (r', cs', m', t', .reuse rp)) :
    t'.input.length + rp.input.length ≤ pool r t ∧ rp.state = .header := by
  simp only [closeP4] at h
  repeat' (split at h)
  all_goals first
    | (cases h; done)
    | exact finishEnd_reuse h
    | (obtain ⟨h1, h2⟩ := finishEnd_reuse h
       have hle := (writeAllLoop_le _ _ _ ‹_›).input_len
       refine ⟨?_, h2⟩
       simp only [pool, Str.Parser.consumeOutput] at h1 ⊢; omega)

/-- **`close` → reuse**: the request parser handed back for the next request holds, together with
the transport, at most what the `Request` and the transport held. -/
theorem closePoll_reuse {r : AReq} {st : CloseSt} {status : ExitStatus} {alive : Nat} {m : MutexSt}
    {t : Transport} {r' : AReq} {cs' : CloseSt} {m' : MutexSt} {t' : Transport} {rp : Req.Parser}
    (h : closePoll r st status alive m t = (r', cs', m', t', .reuse rp)) :
    t'.input.length + rp.input.length ≤ pool r t ∧ rp.state = .header := by
  rw [closePoll_eq] at h
  split at h
  · rename_i x h1
    subst h
    simp only [closeP1] at h1
    repeat' (split at h1)
    all_goals (cases h1)
  · rename_i r1 m1 t1 st1 h1
    have p1 := closeP1_pool h1
    split at h
    · rename_i x h2
      subst h
      simp only [closeP2] at h2
      repeat' (split at h2)
      all_goals (cases h2)
    · rename_i r2 m2 t2 st2 h2
      have p2 := closeP2_pool h2
      split at h
      · rename_i x h3
        subst h
        simp only [closeP3] at h3
        repeat' (split at h3)
        all_goals (cases h3)
      · rename_i r3 m3 t3 st3 h3
        have p3 := closeP3_pool h3
        obtain ⟨a, b⟩ := closeP4_reuse h
        exact ⟨by omega, b⟩


/-! ## The request parser: a completed request consumed input -/

def State.isDone : Req.State → Bool
  | .done _ => true
  | _ => false

theorem step_brk_not_done {st s : Req.State} {d r o : Bytes} {mc : Nat} (hw : WFState st)
    (hf : st.isFinal = false) (h : step st d mc = (.brk r s, o)) : State.isDone s = false := by
  unfold step at h
  split at h
  · simp [State.isFinal] at hf
  · simp [State.isFinal] at hf
  · rcases (headerDrive_brk h).2.2.2 with rfl | ⟨e, rfl⟩ <;> rfl
  · simp only [Prod.mk.injEq] at h
    unfold skipDrive at h
    repeat' (split at h)
    all_goals first | (cases h.1; rfl) | (cases h.1)
  · cases h
  · rename_i c vars pay pad _
    by_cases hp : 0 < pay
    · by_cases hl : d.length < pay
      · rw [valuesDrive_lt hp hl] at h; cases h; rfl
      · rw [valuesDrive_ge hp (by omega)] at h
        split at h <;> (cases h; try rfl)
    · have hp0 : pay = 0 := by omega
      subst hp0
      rw [valuesDrive_zero] at h
      split at h <;> (cases h; try rfl)
  · obtain ⟨h1, h2, hi⟩ := hw
    rename_i i pay pad
    rcases paramsDrive_cases i pay pad d with ⟨x, hp, he⟩ | ⟨i', d1, hp, ⟨x, hq, he⟩ | ⟨d', hq, he⟩⟩
    · obtain ⟨i', n, _, hok, _, _, _, hr⟩ := payloadPhase_error hp
      rw [he, hr] at h; cases h; rfl
    · obtain ⟨_, _, hr⟩ := padPhase_error hq
      rw [he, hr] at h; cases h; rfl
    · obtain ⟨hok, _⟩ := payloadPhase_ok_inner hi hp
      rw [he] at h
      rcases (recPhase_brk hok h).2.2.2 with ⟨rfl, _⟩ | ⟨e, rfl⟩ <;> rfl

/-- From a non-final well-formed state, a run that ends in `done` has consumed at least one byte. -/
theorem run_done_lt : ∀ (m : Nat) (st : Req.State) (d : Bytes) (mc : Nat), 2 * d.length + rank st = m →
    WFState st → st.isFinal = false → State.isDone (run st d mc).st = true →
    (run st d mc).rem.length < d.length := by
  intro m
  induction m using Nat.strongRecOn with
  | _ m ih =>
    intro st d mc hm hw hf hdone
    cases h : step st d mc with
    | mk f o =>
      cases f with
      | panic s => exact (step_no_panic hw h).elim
      | brk r s =>
        rw [run_brk hf h] at hdone
        rw [step_brk_not_done hw hf h] at hdone
        cases hdone
      | cont r s =>
        obtain ⟨hws, hsuf, hg⟩ := step_cont hw h
        have hle := hsuf.length_le
        by_cases hr : r = []
        · subst hr
          rw [run_cont_empty h]
          simp only [List.length_nil]
          rcases hg with hg | ⟨hg1, hg2⟩
          · exact hg
          · -- no byte consumed and nothing left: the state reached is not final
            rw [run_cont_empty h] at hdone
            exfalso
            have hrk := rank_le_one st
            have : rank st = 1 := by omega
            cases st with
            | values c vars pay pad =>
              obtain ⟨_, _, _, hdn, _⟩ := hw
              rw [step_values hdn] at h
              obtain ⟨_, _, _, hs, _⟩ := valuesDrive_cont ⟨by assumption, by assumption, by assumption, hdn, by assumption⟩ h
              rw [hs] at hdone
              cases c with
              | dn q => exact hdn q rfl
              | hdr => cases hdone
              | par i => cases hdone
            | _ => simp [rank] at this
        · rw [run_cont hw h hr] at hdone ⊢
          simp only at hdone ⊢
          cases hfs : s.isFinal with
          | true =>
            rw [run_final r mc hfs]
            simp only
            rcases hg with hg | ⟨hg1, hg2⟩
            · exact hg
            · exfalso
              have hrk := rank_le_one st
              have : rank st = 1 := by omega
              cases st with
              | values c vars pay pad =>
                obtain ⟨_, _, _, hdn, _⟩ := hw
                rw [step_values hdn] at h
                obtain ⟨_, _, _, hs, _⟩ := valuesDrive_cont ⟨by assumption, by assumption, by assumption, hdn, by assumption⟩ h
                rw [hs] at hfs
                cases c with
                | dn q => exact hdn q rfl
                | hdr => cases hfs
                | par i => cases hfs
              | _ => simp [rank] at this
          | false =>
            have hrs := rank_le_one s
            have hrst := rank_le_one st
            have := ih (2 * r.length + rank s) (by omega) s r mc rfl hws hfs hdone
            omega

/-- the token of the measure: 1 while the parser holds a completed request -/
def tok (rp : Req.Parser) : Nat := if State.isDone rp.state then 1 else 0

/-- **`request::Parser::parse`**: unread input afterwards, plus the token if the request just
completed, is bounded by the unread input before plus the new bytes (plus the token). -/
theorem reqParse_tok {rp rp' : Req.Parser} {bs : Bytes} {y : Yield} (hw : WFState rp.state)
    (h : rp.parse bs = (rp', some y)) :
    rp'.input.length + tok rp' ≤ rp.input.length + bs.length + tok rp ∧ WFState rp'.state := by
  unfold Req.Parser.parse at h
  split at h
  · cases h
  · simp only [] at h
    obtain ⟨hpan, hwf, hsuf⟩ := run_ok (rp.input ++ bs) rp.maxConns hw
    have hle := hsuf.length_le
    simp only [List.length_append] at hle
    split at h
    · cases h
    · split at h
      · cases h
      · split at h
        · -- StuckOnInput
          cases h
          exact ⟨by simp only [tok, State.isDone, Bool.false_eq_true, if_false]; omega, trivial⟩
        · cases h
          refine ⟨?_, hwf⟩
          simp only [tok]
          by_cases hd : State.isDone (run rp.state (rp.input ++ bs) rp.maxConns).st = true
          · rw [if_pos hd]
            cases hf : rp.state.isFinal with
            | true =>
              rw [run_final _ _ hf] at hd ⊢
              simp only at hd ⊢
              rw [if_pos hd]
              simp only [List.length_append]; omega
            | false =>
              have := run_done_lt _ rp.state (rp.input ++ bs) rp.maxConns rfl hw hf hd
              simp only [List.length_append] at this
              split <;> omega
          · rw [if_neg hd]
            split <;> omega


/-! ## Panics of the handler interpreter, whatever the fuel -/

theorem handlerPoll_panic_cases : ∀ (fuel : Nat) (r : AReq) (h : HState) (e : Env)
    {r' : AReq} {h' : HState} {e' : Env} {s : String},
    handlerPoll fuel r h e = (r', h', e', .panic s) →
    s = "model: handler fuel exhausted" ∨ RealSite s := by
  intro fuel
  induction fuel with
  | zero => intro r h e r' h' e' s hh; simp only [handlerPoll] at hh; cases hh; exact Or.inl rfl
  | succ n ih =>
    intro r h e r' h' e' s hh
    simp only [handlerPoll] at hh
    repeat' (split at hh)
    all_goals first
      | (cases hh; done)
      | (cases hh; exact Or.inr (.of_async (by decide)))
      | (cases hh; exact Or.inr ((pollInput_spec ‹_›).2 _ rfl))
      | (cases hh; exact Or.inr ((writeablePoll_spec ‹_›).2 _ rfl))
      | (cases hh; exact Or.inr (pollWrite_panic ‹_›))
      | (cases hh; exact Or.inr (pollFlush_panic ‹_›))
      | exact ih _ _ _ hh

/-! ## The measure -/

/-- bytes buffered in the parser of the phase, plus one token while a request is in progress -/
def beff : Phase → Nat
  | .parseReq rp _ => rp.input.length + tok rp
  | .handler r _ => r.sp.raw.length + r.sp.parsed.length + 1
  | .closing r _ _ _ => r.sp.raw.length + r.sp.parsed.length + 1
  | .finished => 0

def prank : Phase → Nat
  | .parseReq _ .start => 5
  | .parseReq _ (.writing _ _) => 4
  | .parseReq _ .reading => 3
  | .handler _ _ => 2
  | .closing _ _ _ _ => 1
  | .finished => 0

/-- **The measure of a connection state**: an upper bound on the number of phase transitions the
rest of the current poll can make. -/
def mu (c : Conn) : Nat := 7 * c.env.tr.input.length + 5 * beff c.phase + prank c.phase

/-- the request parser of a `parse_request` phase is in a well-formed state (true initially —
`Header` — and preserved by every poll) -/
def ConnWF (c : Conn) : Prop :=
  match c.phase with
  | .parseReq rp _ => WFState rp.state
  | _ => True

def connFuelMsg : String := "model: connection fuel exhausted"

theorem realSite_ne_connFuel {s : String} (h : RealSite s) : s ≠ connFuelMsg := by
  intro hs
  exact h.not_fuel (by rw [hs]; decide)

/-- what one phase transition does to the measure -/
def StepMu (c : Conn) : Step → Prop
  | .next c1 => mu c1 < mu c ∧ ConnWF c1
  | .halt _ r => r ≠ .panic connFuelMsg

theorem intoStreamParser_ok {rp : Req.Parser} {sp : Str.Parser} (h : rp.intoStreamParser = .ok sp) :
    sp.raw = rp.input ∧ sp.parsed = [] ∧ tok rp = 1 := by
  unfold Req.Parser.intoStreamParser at h
  split at h
  · rename_i q hq
    cases h
    exact ⟨rfl, rfl, by simp [tok, State.isDone, hq]⟩
  · cases h
  · cases h

/-- **Every phase transition within a poll decreases the measure**; a transition that ends the
poll never reports the connection fuel guard. -/
theorem stepConn_mu (c : Conn) (hwf : ConnWF c) : StepMu c (stepConn c) := by
  obtain ⟨phase, env, scripts, stop⟩ := c
  cases phase with
  | finished => simp [stepConn, StepMu]
  | parseReq rp sub =>
    have hw : WFState rp.state := hwf
    cases stop with
    | true => simp [stepConn, StepMu]
    | false =>
      cases sub with
      | start =>
        simp only [stepConn, Bool.false_eq_true, if_false]
        split
        · simp only [StepMu]; exact fun h => absurd (PRes.panic.inj h) (by decide)
        · rename_i rp' y hp
          obtain ⟨h1, h2⟩ := reqParse_tok hw hp
          simp only [List.length_nil] at h1
          refine ⟨?_, h2⟩
          simp only [mu, beff, prank]; omega
      | reading =>
        simp only [stepConn, Bool.false_eq_true, if_false]
        split
        · simp [StepMu]
        · simp [StepMu]
        · simp [StepMu]
        · rename_i t bs hne hrd
          have hrp := read_pool hrd
          simp only [rdLen] at hrp
          have hpos : 0 < bs.length := by
            cases bs with
            | nil => exact (hne rfl).elim
            | cons a l => simp
          split
          · simp only [StepMu]; exact fun h => absurd (PRes.panic.inj h) (by decide)
          · rename_i rp' y hp
            obtain ⟨h1, h2⟩ := reqParse_tok hw hp
            refine ⟨?_, h2⟩
            simp only [mu, beff, prank]; omega
      | writing rest done =>
        simp only [stepConn, Bool.false_eq_true, if_false]
        split
        · simp [StepMu]
        · simp [StepMu]
        · rename_i rest' t s hwl
          have := C12.writeAllLoop_terminates rest env.tr s
          rw [hwl] at this
          exact absurd rfl this
        · rename_i rest' t hwl
          have hle := (writeAllLoop_le _ _ _ hwl).input_len
          cases done with
          | false =>
            simp only [Bool.not_false, if_true]
            refine ⟨?_, hw⟩
            simp only [mu, beff, prank]; omega
          | true =>
            simp only [Bool.not_true, Bool.false_eq_true, if_false]
            split
            · simp [StepMu]
            · rename_i sp hsp
              obtain ⟨a, b, c⟩ := intoStreamParser_ok hsp
              refine ⟨?_, trivial⟩
              simp only [mu, beff, prank, AReq.new, a, b, c, List.length_nil, Env.ev, Transport.ev]
              omega
  | handler r h =>
    simp only [stepConn]
    split
    · simp [StepMu]
    · rename_i e s hh
      simp only [StepMu]
      intro hs
      cases hs
      rcases handlerPoll_panic_cases _ _ _ _ hh with h1 | h1
      · exact absurd h1 (by decide)
      · exact realSite_ne_connFuel h1 rfl
    · rename_i r' h' e res hh
      have hp := handlerPoll_pool _ _ _ _ hh
      have hle := (handlerPoll_le _ _ _ _ hh).input_len
      simp only [pool] at hp
      split
      · refine ⟨?_, trivial⟩
        simp only [mu, beff, prank, Env.ev, Transport.ev]; omega
      · split
        · refine ⟨?_, trivial⟩
          simp only [mu, beff, prank, Env.ev, Transport.ev]; omega
        · simp [StepMu]
  | closing r cs status alive =>
    simp only [stepConn]
    split
    · simp [StepMu]
    · rename_i m t s hc
      simp only [StepMu]
      intro hs
      cases hs
      exact realSite_ne_connFuel (closePoll_panic hc) rfl
    · simp [StepMu]
    · rename_i r' cs' m t rp hc
      obtain ⟨h1, h2⟩ := closePoll_reuse hc
      have hle := (closePoll_le hc).input_len
      refine ⟨?_, by simp only [ConnWF, h2]; trivial⟩
      simp only [pool] at h1
      simp only [mu, beff, prank, tok, State.isDone, h2, Bool.false_eq_true, if_false]
      omega

/-- **`pollConn` never reaches its fuel guard** when it gets more fuel than the measure. -/
theorem pollConn_mu : ∀ (f : Nat) (c : Conn), ConnWF c → mu c < f →
    (pollConn f c).2 ≠ .panic connFuelMsg := by
  intro f
  induction f with
  | zero => intro c _ h; omega
  | succ n ih =>
    intro c hwf hlt
    rw [pollConn_succ]
    have hs := stepConn_mu c hwf
    cases hst : stepConn c with
    | next c1 =>
      rw [hst] at hs
      exact ih c1 hs.2 (by have := hs.1; omega)
    | halt c1 r =>
      rw [hst] at hs
      exact hs

end Fcgi.Run
