import Fcgi.Proofs.E2EPrefixStr
/-!
# End-to-end composition (C07/C05) — the handler reads a strict prefix of Stdin

A Responder handler `[.read n, .ret st]`: one `read` (up to `n` bytes of the Stdin content), then it
returns.  `close`: `writeable()` is ready, `set_stream(None)`, and `record_boundary()` runs the
stream parser in "ignore" mode over what is buffered / arrives until it stands at a record boundary.

`PStage`: the stages of the request; `pstage_poll`: one poll from any stage; `run_prefix`: the
executor.  The outcome is existential in a split `g.R = s₁ ++ s₂` of the stream's RECORD LIST: the
request consumed exactly the records `s₁` (their replies are written before the epilogue), the bytes
`serAll s₂` are what the next request parser is handed (buffer ++ transport).
-/
namespace Fcgi.E2E
open Fcgi Fcgi.Req Fcgi.Str Fcgi.Async Fcgi.Run Fcgi.Spec

/-- all records of the Stdin stream -/
def Cfg.R (g : Cfg) : List Rec := g.body ++ [g.term]

/-- The hypotheses: a Responder, `g.body` the Stdin records before the terminator, the handler is
`[.read n, .ret st]`. -/
structure POK (g : Cfg) (n : Nat) : Prop where
  wf : WellFormedPreamble g.p g.recs
  role : g.p.role = 1
  pairs : ∀ q ∈ g.p.pairs, (NV.enc q).length ≤ alignedBufsize g.b
  noise : NoiseFits (alignedBufsize g.b) g.recs
  hb : Body g.p.id 5 g.content g.body
  hf : NoiseFits (alignedBufsize g.b) g.body
  hp : g.pad.length < 256
  hX2 : g.X2 = []
  hX : g.X = serAll g.body ++ g.term.ser
  str : ∀ r ∈ g.R, StdinRec g.p.id r
  hs : g.hscript = [.read n, .ret g.st]
  hn : 0 < n

theorem POK.hid {g : Cfg} {n : Nat} (ok : POK g n) : g.p.id < 65536 := (pid_of_wf ok.wf).2

theorem POK.XR {g : Cfg} {n : Nat} (ok : POK g n) : g.X = serAll g.R := by
  rw [ok.hX, Cfg.R, C02.serAll_append, C02.serAll_single]

theorem POK.term_wf {g : Cfg} {n : Nat} (ok : POK g n) : g.term.WF :=
  ⟨ok.hid, by simp [Cfg.term], ok.hp⟩

theorem POK.ctx {g : Cfg} {n : Nat} (ok : POK g n) : R2Ctx g.p.id g.mc g.cap g.R := by
  refine ⟨ok.str, ok.hid, ?_, by have := cap24 g; omega⟩
  intro r hr hg
  rcases List.mem_append.1 hr with hr | hr
  · exact ok.hf r hr hg
  · rw [List.mem_singleton.1 hr] at hg
    exact absurd hg.1 (by simp [Cfg.term, RT.getValues])

/-- the reference on the Stdin stream's wire, and the buffer condition -/
theorem POK.kok {g : Cfg} {n : Nat} (ok : POK g n) : g.K.OK := by
  have hid := ok.hid
  have hXs : g.X = serAll (g.body ++ g.term :: []) := ok.XR
  have hcls : rclass ⟨g.p.id, g.p.role, 5, g.mc⟩ g.term = .endStream := by simp [rclass, Cfg.term, RT.isInputStream]
  have href := refWire_stream ⟨g.p.id, g.p.role, 5, g.mc⟩ (Or.inl rfl) hid ok.hb g.term ok.term_wf hcls []
    (fun _ h => nomatch h)
  have hwf : ∀ r ∈ g.body ++ g.term :: [], r.WF := fun r hr => (ok.str r hr).1
  refine ⟨?_, ?_, by have := cap24 g; show 8 ≤ g.cap; omega⟩
  · show refWire ⟨g.p.id, g.p.role, 5, g.mc⟩ g.X = _
    rw [hXs, href]
    simp only [Cfg.K, ok.hX2, C02.serAll_single, List.append_nil]
  · intro G hG hv
    have hG' : G <+: g.X := hG
    rw [hXs] at hG'
    refine stream_fits ⟨g.p.id, g.p.role, 5, g.mc⟩ _ hwf (by rw [href]; intro h; cases h)
      (by have := cap24 g; show 8 ≤ alignedBufsize g.b; exact Nat.le_trans (by omega) this) ?_ G hG' hv
    exact ok.ctx.fits

theorem POK.ns {g : Cfg} {n : Nat} (ok : POK g n) : NoStuckW g.cap g.mc g.W :=
  noStuck_of ok.wf g.X g.b g.mc ok.pairs ok.noise

theorem owedI_eq_owedStream (id mc : Nat) (rs : List Rec) : owedI id mc rs = owedStream id 5 mc rs := by
  induction rs with
  | nil => rfl
  | cons r rs ih =>
    simp only [owedI, owedStream, List.flatMap_cons] at ih ⊢
    rw [ih]
    congr 1
    split
    · rename_i h
      simp only [Bool.and_eq_true, beq_iff_eq] at h
      exact owed_own5 mc (UInt8.toNat_inj.1 (by rw [h.1]; rfl))
    · rfl

/-! ## The carrier of the `close` phase -/

/-- the request as `close` sees it once `record_boundary()` is done: the records `s₁` are consumed
(their replies `owedI s₁` all generated), `serAll s₂` is left -/
def gC (g : Cfg) (s1 s2 : List Rec) : Cfg :=
  { g with recs := [], L0 := g.L1 ++ owedI g.p.id g.mc s1, data := [], U := serAll s2 }

theorem gC_LU (g : Cfg) (s1 s2 : List Rec) : (gC g s1 s2).LU = g.L1 ++ owedI g.p.id g.mc s1 ++ g.epi := by
  simp only [Cfg.LU, Cfg.L1, gC, owedPreamble, streamRecords_nil, List.append_nil]
  rfl

/-! ## `close`, with the transport advanced before the last `write_all`s -/

/-- `URes` with the fact that a suspended `close` is still `close` -/
def URes2 (g : Cfg) (N : Nat) (c : Conn) : Prop :=
  (∃ c', Halts N c c' .pending ∧ Link c c' ∧ (UStage g c' ∧ ∃ r cs, c'.phase = .closing r cs g.st 0) ∧
      c'.env.tr.woken = true ∧ ans c'.env.tr < ans c.env.tr) ∨
  (∃ k c1, k ≤ N ∧ Steps k c c1 ∧ Link c c1 ∧ AfterU g c1) ∨
  (∃ c', Halts N c c' .finished ∧ Link c c' ∧ FinU g c')

theorem uclose_core' {g : Cfg} {c : Conn} {r r2 : AReq} {cs : CloseSt}
    {rest : Bytes} {t1 : Transport}
    (hph : c.phase = .closing r cs g.st 0)
    (heq : closePoll r cs g.st 0 c.env.mutex c.env.tr = closePoll.finishEnd r2 rest c.env.mutex t1)
    (hts1 : TStep c.env.tr t1)
    (hce : CEnd g r2 t1.input) (hm : c.env.mutex = none) (hlog : t1.wlog ++ rest = g.LU)
    (hb : Ben c.env.tr) (hstop : c.stop = false) (hev : Ev1 g c.env.tr)
    (hsc : c.scripts = g.more) :
    URes2 g 2 c := by
  have hstep := C07.closing_step c r cs g.st 0 hph
  rw [heq] at hstep
  have hb1 := hb.step hts1
  rcases finishEnd_cases r2 rest c.env.mutex hb1 with
    ⟨rest', t', hfe, hts0, hinp, hwl, hwk, hans⟩ | ⟨t', hts0, hinp, hwl, hfe⟩
  · have hts := hts1.trans hts0
    rw [hfe] at hstep
    have hstep' : stepConn c = .halt (mkC c (.closing r2 (.writeEnd rest') g.st 0) t') .pending := hstep
    refine Or.inl ⟨mkC c (.closing r2 (.writeEnd rest') g.st 0) t', (Halts.now hstep').mono (by omega),
      mkC_link c _ hts, ?_, hwk, by show ans t' < ans c.env.tr; have := hts1.ans_le; omega⟩
    exact ⟨.close (r := r2) (rest' := rest') rfl (by show CEnd g r2 t'.input; rw [hinp]; exact hce) hm
      (by show t'.wlog ++ rest' = _; rw [hwl, hlog]) (hb.step hts) hstop (hev.step hts) hsc, _, _, rfl⟩
  · have hts := hts1.trans hts0
    rw [hfe, hce.req, hce.into] at hstep
    have hlog' : t'.wlog = g.LU := by rw [hwl, hlog]
    by_cases hk : g.p.flags.toNat % 2 = 1
    · have hreq : (g.p.request.flags.toNat % 2 == 1) = true := by simpa [Preamble.request] using hk
      simp only [hreq, if_true] at hstep
      have hstep' : stepConn c = .next (mkC c (.parseReq ⟨g.cap, r2.sp.raw, .header, g.mc⟩ .start) t') := hstep
      refine Or.inr (Or.inl ⟨1, _, by omega, Steps.one hstep', mkC_link c _ hts,
        ⟨⟨r2.sp.raw, rfl, by show r2.sp.raw ++ t'.input = g.U; rw [hinp]; exact hce.wire, hce.rawlen⟩, hlog',
          hb.step hts, hstop, hev.step hts, hsc, hm, hk⟩⟩)
    · have hreq : (g.p.request.flags.toNat % 2 == 1) = false := by simpa [Preamble.request] using hk
      simp only [hreq, Bool.false_eq_true, if_false] at hstep
      have hstep' : stepConn c = .halt (mkC c .finished t') .finished := hstep
      exact Or.inr (Or.inr ⟨mkC c .finished t', (Halts.now hstep').mono (by omega), mkC_link c _ hts,
        ⟨rfl, hlog', hev.step hts, hsc, by omega⟩⟩)

theorem uclose_out' {g : Cfg} {c : Conn} {r r2 : AReq} {cs : CloseSt}
    {rest : Bytes} {t1 : Transport}
    (hph : c.phase = .closing r cs g.st 0)
    (heq : closePoll r cs g.st 0 c.env.mutex c.env.tr =
      closeP4 r2 c.env.mutex t1 (.writeOut rest g.epi))
    (hts1 : TStep c.env.tr t1)
    (hce : CEndW g r2 t1.input) (hm : c.env.mutex = none)
    (hlog : t1.wlog ++ rest ++ g.epi = g.LU)
    (hb : Ben c.env.tr) (hstop : c.stop = false) (hev : Ev1 g c.env.tr)
    (hsc : c.scripts = g.more) :
    URes2 g 2 c := by
  have hb1 := hb.step hts1
  rcases hw : writeAllLoop (rest.length + 1) rest t1 with ⟨rest', t', res⟩
  obtain ⟨hts, hinp, ⟨dn, hd, hl⟩, hres⟩ := writeAllLoop_ben _ _ _ hb1 (Nat.lt_succ_self _) hw
  rcases hres with ⟨rfl, rfl⟩ | ⟨rfl, _, hwk, hans⟩
  · simp only [List.append_nil] at hd
    subst hd
    have heq' : closePoll r cs g.st 0 c.env.mutex c.env.tr =
        closePoll.finishEnd { r2 with sp := r2.sp.consumeOutput r2.sp.output.length } g.epi c.env.mutex t' := by
      rw [heq]; simp only [closeP4, hw]
    refine uclose_core' hph heq' (hts1.trans hts) ?_ hm (by rw [hl, ← hlog]) hb hstop hev hsc
    rw [hinp]
    exact ⟨hce.pay, hce.pad, by simp [Str.Parser.consumeOutput], hce.wire, hce.req, hce.cap, hce.mc, hce.rawlen⟩
  · have hstep := C07.closing_step c r cs g.st 0 hph
    rw [heq] at hstep
    simp only [closeP4, hw] at hstep
    have hstep' : stepConn c = .halt (mkC c (.closing r2 (.writeOut rest' g.epi) g.st 0) t') .pending := hstep
    refine Or.inl ⟨_, (Halts.now hstep').mono (by omega), mkC_link c _ (hts1.trans hts), ?_, hwk,
      by show ans t' < ans c.env.tr; have := hts1.ans_le; omega⟩
    exact ⟨.closeW (r := r2) (rest' := rest') rfl (by show CEndW g r2 t'.input; rw [hinp]; exact hce) hm
      (by show t'.wlog ++ rest' ++ g.epi = _; rw [hl, ← hlog, hd]; simp only [List.append_assoc])
      (hb.step (hts1.trans hts)) hstop (hev.step (hts1.trans hts)) hsc, _, _, rfl⟩

/-! ## Stages and results -/

/-- the trace event of the handler's `read` -/
def rdEvent (d : Bytes) : String := s!"r={d.length}:{hexOrDash d}"

/-- the handler's `read` has returned `d`: a prefix of the Stdin content, empty only if the content is -/
def RdEv (g : Cfg) (t : Transport) : Prop :=
  ∃ d, d <+: g.content ∧ (d = [] → g.content = []) ∧ rdEvent d ∈ t.events

theorem RdEv.wstep {g : Cfg} {t t' : Transport} (h : RdEv g t) (s : WStep t t') : RdEv g t' := by
  obtain ⟨d, h1, h2, h3⟩ := h
  exact ⟨d, h1, h2, s.evm _ h3⟩

theorem RdEv.step {g : Cfg} {t t' : Transport} (h : RdEv g t) (s : TStep t t') : RdEv g t' := h.wstep s.w

theorem RdEv.same {g : Cfg} {t t' : Transport} (h : RdEv g t) (s : TrSame t t') : RdEv g t' := by
  obtain ⟨d, h1, h2, h3⟩ := h
  exact ⟨d, h1, h2, s.mem h3⟩

inductive PStage (g : Cfg) (n : Nat) : Conn → Prop
  | start {c : Conn} {raw : Bytes} (hph : c.phase = .parseReq ⟨g.cap, raw, .header, g.mc⟩ .start)
      (hwire : raw ++ c.env.tr.input = g.W) (hraw : raw.length ≤ g.cap) (hlog : c.env.tr.wlog = g.L0)
      (hb : Ben c.env.tr) (hstop : c.stop = false)
      (hsc : c.scripts = (g.hscript, true) :: g.more) (hm : c.env.mutex = none)
      (hev : hsCount c.env.tr.events = g.hs0) : PStage g n c
  | parse {c : Conn} {F : Bytes} (hst : PSt g.cap g.mc g.W g.L0 [] c F)
      (hsc : c.scripts = (g.hscript, true) :: g.more) (hm : c.env.mutex = none)
      (hev : hsCount c.env.tr.events = g.hs0) : PStage g n c
  /-- the handler, suspended in (or about to start) its `read` -/
  | hread {c : Conn} {r : AReq} {h : HState} {dO : Bytes} (hph : c.phase = .handler r h)
      (hops : h.ops = [.read n, .ret g.st]) (hws : h.writers = []) (hpr : h.propagate = true)
      (hs : RSt g.K g.L1 [] r c.env.mutex c.env.tr [] dO)
      (hpos : Pos g.R r.sp.raw r.sp.pay r.sp.pad c.env.tr.input)
      (hb : Ben c.env.tr) (hstop : c.stop = false) (hev : Ev1 g c.env.tr) (hsc : c.scripts = g.more) : PStage g n c
  /-- `close`, suspended in the transport read of `record_boundary()` -/
  | bound {c : Conn} {r : AReq} {dO : Bytes} (hph : c.phase = .closing r .inBoundary g.st 0)
      (hr2 : ∃ G, R2 g.p.id g.mc g.cap g.R r.sp G c.env.tr.input dO)
      (hreq : r.sp.request = g.p.request) (hmc : r.sp.maxConns = g.mc)
      (hlk : r.lock = .none) (hwr : r.writeable = true) (hm : c.env.mutex = none)
      (hlog : ∃ O1, c.env.tr.wlog = g.L1 ++ O1 ∧ O1 ++ r.sp.output = dO)
      (hnb : r.sp.isRecordBoundary = false) (hraw : r.sp.raw.length < g.cap) (hg0 : r.sp.g0 = 0)
      (hg1 : r.sp.g1 = 0) (hin : c.env.tr.input ≠ []) (hrd : RdEv g c.env.tr)
      (hb : Ben c.env.tr) (hstop : c.stop = false) (hev : Ev1 g c.env.tr) (hsc : c.scripts = g.more) : PStage g n c
  /-- `close`, in its `write_all`s; the split of the stream's records is fixed -/
  | late {c : Conn} {s1 s2 : List Rec} (hsp : g.R = s1 ++ s2) (hu : UStage (gC g s1 s2) c)
      (hcl : ∃ r cs, c.phase = .closing r cs g.st 0) (hrd : RdEv g c.env.tr) : PStage g n c

/-- the result of a poll: suspended in a stage; or `close` is done (`AfterU` / `FinU` for a split) -/
def PRes (g : Cfg) (n : Nat) (N : Nat) (c : Conn) : Prop :=
  (∃ c', Halts N c c' .pending ∧ Link c c' ∧ PStage g n c' ∧ c'.env.tr.woken = true ∧
      ans c'.env.tr < ans c.env.tr) ∨
  (∃ k c1 s1 s2, k ≤ N ∧ Steps k c c1 ∧ Link c c1 ∧ g.R = s1 ++ s2 ∧ AfterU (gC g s1 s2) c1 ∧ RdEv g c1.env.tr) ∨
  (∃ c' s1 s2, Halts N c c' .finished ∧ Link c c' ∧ g.R = s1 ++ s2 ∧ FinU (gC g s1 s2) c' ∧ RdEv g c'.env.tr)

theorem PRes.of_steps {g : Cfg} {n k N : Nat} {c c1 : Conn} (hs : Steps k c c1)
    (hl : Link c c1) (h : PRes g n N c1) : PRes g n (k + N) c := by
  rcases h with ⟨c', hh, hl2, hS, hw, ha⟩ | ⟨k2, c2, s1, s2, hk, hs2, hl2, haf⟩ | ⟨c', s1, s2, hh, hl2, hf⟩
  · exact Or.inl ⟨c', hh.of_steps hs, hl.trans hl2, hS, hw, by have := hl.ts.ans_le; omega⟩
  · exact Or.inr (Or.inl ⟨k + k2, c2, s1, s2, by omega, hs.trans hs2, hl.trans hl2, haf⟩)
  · exact Or.inr (Or.inr ⟨c', s1, s2, hh.of_steps hs, hl.trans hl2, hf⟩)

theorem PRes.mono {g : Cfg} {n N M : Nat} {c : Conn} (h : PRes g n N c) (hm : N ≤ M) : PRes g n M c := by
  rcases h with ⟨c', hh, r⟩ | ⟨k2, c2, s1, s2, hk, r⟩ | ⟨c', s1, s2, hh, r⟩
  · exact Or.inl ⟨c', hh.mono hm, r⟩
  · exact Or.inr (Or.inl ⟨k2, c2, s1, s2, by omega, r⟩)
  · exact Or.inr (Or.inr ⟨c', s1, s2, hh.mono hm, r⟩)

theorem PRes.of_ures {g : Cfg} {n N : Nat} {c : Conn} {s1 s2 : List Rec} (hsp : g.R = s1 ++ s2)
    (h : URes2 (gC g s1 s2) N c) (hrd : RdEv g c.env.tr) : PRes g n N c := by
  rcases h with ⟨c', hh, hl, ⟨hS, hcl⟩, hw, ha⟩ | ⟨k, c1, hk, hs, hl, haf⟩ | ⟨c', hh, hl, hf⟩
  · exact Or.inl ⟨c', hh, hl, .late hsp hS hcl (hrd.wstep hl.ts), hw, ha⟩
  · exact Or.inr (Or.inl ⟨k, c1, s1, s2, hk, hs, hl, hsp, haf, hrd.wstep hl.ts⟩)
  · exact Or.inr (Or.inr ⟨c', s1, s2, hh, hl, hsp, hf, hrd.wstep hl.ts⟩)

/-! ## `close`: `record_boundary()` -/

/-- phases 2–4 of `close` after `record_boundary()` returned `x` -/
def closeTail (r : AReq) (m : MutexSt) (st : ExitStatus) (x : Str.Parser × Transport × ORes) : CloseOut :=
  match closeP2Tail r m x with
  | .error y => y
  | .ok (r, m, t, cs) =>
    match closeP3 r m t cs st 0 with
    | .error y => y
    | .ok (r, m, t, cs) => closeP4 r m t cs

theorem closePoll_start_tail (r : AReq) (m : MutexSt) (t : Transport) (st : ExitStatus) (hwr : r.writeable = true) :
    closePoll r .start st 0 m t = closeTail r m st (closeBoundary (spIgnore r.sp) false t) := by
  have h1 : closeP1 r .start m t = .ok (r, m, t, .start) := by
    simp [closeP1, AReq.writeablePoll, hwr]
  rw [closePoll_eq', h1]
  simp only [closeFrom2]
  rw [closeP2_start]
  rfl

theorem closePoll_bound_tail (r : AReq) (m : MutexSt) (t : Transport) (st : ExitStatus) :
    closePoll r .inBoundary st 0 m t = closeTail r m st (closeBoundary r.sp true t) := by
  have h1 : closeP1 r .inBoundary m t = .ok (r, m, t, .inBoundary) := rfl
  rw [closePoll_eq', h1]
  simp only [closeFrom2]
  rw [closeP2_inBoundary]
  rfl

/-- **`record_boundary()` returned** (`.ready`: at a record boundary of the record list; `.pending`:
suspended in a transport read): the rest of that poll of `close`. -/
theorem pboundary_out {g : Cfg} {n : Nat} (ok : POK g n) {c : Conn} {r : AReq} {cs : CloseSt} {sp0 sp' : Str.Parser}
    {t' : Transport} {res : ORes} {dO : Bytes}
    (hph : c.phase = .closing r cs g.st 0)
    (heq : closePoll r cs g.st 0 c.env.mutex c.env.tr = closeTail r c.env.mutex g.st (sp', t', res))
    (hts : TStep c.env.tr t') (hwl : t'.wlog = c.env.tr.wlog)
    (hend : BEnd g.p.id g.mc g.cap g.R sp0 sp' dO t')
    (hreq : sp0.request = g.p.request) (hmc : sp0.maxConns = g.mc)
    (hres : (res = .ready ∧ sp'.isRecordBoundary = true) ∨
       (res = .pending ∧ t'.woken = true ∧ ans t' < ans c.env.tr ∧ sp'.isRecordBoundary = false ∧
          sp'.raw.length < g.cap ∧ sp'.g0 = 0 ∧ sp'.g1 = 0 ∧ t'.input ≠ []))
    (hlk : r.lock = .none) (hwr : r.writeable = true) (hm : c.env.mutex = none)
    (hlog : ∃ O1, c.env.tr.wlog = g.L1 ++ O1 ∧ O1 ++ sp0.output = dO) (hrd : RdEv g c.env.tr)
    (hb : Ben c.env.tr) (hstop : c.stop = false) (hev : Ev1 g c.env.tr) (hsc : c.scripts = g.more) :
    PRes g n 2 c := by
  obtain ⟨⟨o, G', ho, hr2⟩, hreq', hmc'⟩ := hend
  obtain ⟨O1, hl1, hl2⟩ := hlog
  have hlog' : ∃ O1, t'.wlog = g.L1 ++ O1 ∧ O1 ++ sp'.output = dO ++ o :=
    ⟨O1, hwl.trans hl1, by rw [ho, ← List.append_assoc, hl2]⟩
  rcases hres with ⟨rfl, hbd⟩ | ⟨rfl, hwk, hans, hnb, hraw, hg0, hg1, hin⟩
  · -- at a record boundary: the split
    have hpay : sp'.pay = 0 ∧ sp'.pad = 0 := by
      simpa [Str.Parser.isRecordBoundary] using hbd
    obtain ⟨cc, pd, s2, hcc, hpd, hw, ⟨s1, hsuf⟩⟩ := hr2.ign.pos
    rw [hpay.1] at hcc
    rw [hpay.2] at hpd
    have hcc' : cc = [] := List.length_eq_zero_iff.1 hcc
    have hpd' : pd = [] := List.length_eq_zero_iff.1 hpd
    rw [hcc', hpd', List.nil_append, List.nil_append] at hw
    have hsp : g.R = s1 ++ s2 := hsuf.symm
    -- all replies for `s1` are generated
    have hctx := ok.ctx
    obtain ⟨_, hout, _⟩ := hr2.now hctx
    have hrem : Rem (Ev g.p.id g.mc) (view sp') t'.input = refWire (Ev g.p.id g.mc) (serAll s2) := by
      have hst : (view sp').state = .skip ∨ True := Or.inr trivial
      show ref (Ev g.p.id g.mc) (view sp').state (view sp').pay (view sp').pad ((view sp').raw ++ t'.input) = _
      have e1 : (view sp').pay = 0 := hpay.1
      have e2 : (view sp').pad = 0 := hpay.2
      have e3 : (view sp').raw = sp'.raw := rfl
      rw [e1, e2, e3, hw]
      exact ref_eq_refWire (Ev g.p.id g.mc) _ _
    have hs2 : ∀ r ∈ s2, StdinRec g.p.id r := fun r hr => ok.str r (by rw [hsp]; exact List.mem_append_right _ hr)
    rw [hrem, refWire_view g.p.id g.mc hs2] at hout
    have hdO : dO ++ o = owedI g.p.id g.mc s1 := by
      have : owedI g.p.id g.mc g.R = owedI g.p.id g.mc s1 ++ owedI g.p.id g.mc s2 := by
        rw [hsp]; simp [owedI, List.flatMap_append]
      rw [this] at hout
      exact List.append_cancel_right hout
    obtain ⟨O1', hl1', hl2'⟩ := hlog'
    have hepi : epilogueOf { r with sp := sp' } g.st = (gC g s1 s2).epi := by
      simp only [epilogueOf, hwr, if_true, Cfg.epi, outputStreams]
      show makeRequestEpilogue sp'.request.id g.st _ = _
      rw [hreq', hreq]; rfl
    have heq' : closePoll r cs (gC g s1 s2).st 0 c.env.mutex c.env.tr =
        closeP4 { sp := sp', lock := .none, writeable := r.writeable } c.env.mutex t'
          (.writeOut sp'.output (gC g s1 s2).epi) := by
      show closePoll r cs g.st 0 c.env.mutex c.env.tr = _
      rw [heq, ← hepi]
      simp only [closeTail, closeP2Tail, closeP3_start, Nat.lt_irrefl, gt_iff_lt, if_false, hlk, lockDrop]
    have hrawlen : sp'.raw.length ≤ g.cap := by
      have := hr2.sinv.1
      have e : (view sp').freeStart = sp'.freeStart := rfl
      have e2 : (view sp').cap = sp'.cap := rfl
      rw [e, e2, hr2.capK] at this
      simp only [Str.Parser.freeStart] at this
      omega
    have hce : CEndW (gC g s1 s2) { sp := sp', lock := .none, writeable := r.writeable } t'.input :=
      ⟨hpay.1, hpay.2, hw, hreq'.trans hreq, hr2.capK, hmc'.trans hmc, hrawlen⟩
    have hU := uclose_out' (g := gC g s1 s2) hph heq' hts hce hm
      (by rw [gC_LU, hl1', ← hdO, ← hl2']; simp only [List.append_assoc]; rfl) hb hstop hev hsc
    exact PRes.of_ures hsp hU hrd
  · -- suspended in the read
    have hstep := C07.closing_step c r cs g.st 0 hph
    rw [heq] at hstep
    have hstep' : stepConn c = .halt (mkC c (.closing { r with sp := sp' } .inBoundary g.st 0) t') .pending := hstep
    refine Or.inl ⟨_, (Halts.now hstep').mono (by omega), mkC_link c _ hts, ?_, hwk, hans⟩
    exact .bound (r := { r with sp := sp' }) (dO := dO ++ o) rfl ⟨G', hr2⟩ (hreq'.trans hreq) (hmc'.trans hmc)
      hlk hwr hm hlog' hnb hraw hg0 hg1 hin (hrd.step hts) (hb.step hts) hstop (hev.step hts) hsc

/-- **`close` called** after the handler's `read`: `writeable()` is ready, `set_stream(None)`,
`record_boundary()`. -/
theorem pclose_start {g : Cfg} {n : Nat} (ok : POK g n) {c : Conn} {r : AReq} {G dC dO : Bytes}
    (hph : c.phase = .closing r .start g.st 0)
    (hi : RInv g.K r G c.env.tr.input dC dO) (hpos : Pos g.R r.sp.raw r.sp.pay r.sp.pad c.env.tr.input)
    (hlk : r.lock = .none) (hwr : r.writeable = true) (hm : c.env.mutex = none)
    (hlog : ∃ O1, c.env.tr.wlog = g.L1 ++ O1 ∧ O1 ++ r.sp.output = dO) (hrd : RdEv g c.env.tr)
    (hb : Ben c.env.tr) (hstop : c.stop = false) (hev : Ev1 g c.env.tr) (hsc : c.scripts = g.more) :
    PRes g n 2 c := by
  have hctx := ok.ctx
  have hE : g.K.E = ⟨g.p.id, 1, 5, g.mc⟩ := by show (⟨g.p.id, g.p.role, 5, g.mc⟩ : Str.Cfg) = _; rw [ok.role]
  have hr2 : R2 g.p.id g.mc g.cap g.R (r.sp.switchTo none) G c.env.tr.input dO :=
    r2_of_switch hctx hE ok.XR rfl hi hpos
  have hstrm : r.sp.stream = some 5 := hi.mt.strm
  have hign : spIgnore r.sp = r.sp.switchTo none := by simp [spIgnore, hstrm]
  have heq0 := closePoll_start_tail r c.env.mutex c.env.tr g.st hwr
  rw [hign] at heq0
  have hreq : (r.sp.switchTo none).request = g.p.request := hi.req
  have hmc : (r.sp.switchTo none).maxConns = g.mc := hi.mt.mc
  have hout : (r.sp.switchTo none).output = r.sp.output := rfl
  by_cases hbd : (r.sp.switchTo none).isRecordBoundary = true
  · have hcb : closeBoundary (r.sp.switchTo none) false c.env.tr = (r.sp.switchTo none, c.env.tr, .ready) := by
      simp [closeBoundary, hbd]
    rw [hcb] at heq0
    exact pboundary_out ok (sp0 := r.sp.switchTo none) (dO := dO) hph heq0 (.refl _) rfl
      ⟨⟨[], G, (List.append_nil _).symm, by rw [List.append_nil]; exact hr2⟩, rfl, rfl⟩ hreq hmc (Or.inl ⟨rfl, hbd⟩)
      hlk hwr hm (by rw [hout]; exact hlog) hrd hb hstop hev hsc
  · have hbd' : (r.sp.switchTo none).isRecordBoundary = false := by simpa using hbd
    rcases hbl : boundaryLoop (c.env.tr.input.length + 2) (r.sp.switchTo none) [] c.env.tr with ⟨sp', t', res⟩
    have hcb : closeBoundary (r.sp.switchTo none) false c.env.tr = (sp', t', res) := by
      simp [closeBoundary, hbd', hbl]
    rw [hcb] at heq0
    obtain ⟨q1, q2, q3, q4⟩ := bloop_sim hctx _ _ [] c.env.tr hb (by rw [List.nil_append]; exact hr2)
      (Nat.zero_le _) (Nat.le_refl _) hbl
    exact pboundary_out ok (sp0 := r.sp.switchTo none) (dO := dO) hph heq0 q1 q2 q3 hreq hmc q4
      hlk hwr hm (by rw [hout]; exact hlog) hrd hb hstop hev hsc

/-- a poll that resumes `close` inside `record_boundary()` -/
theorem pbound_poll {g : Cfg} {n : Nat} (ok : POK g n) {c : Conn} {r : AReq} {dO : Bytes}
    (hph : c.phase = .closing r .inBoundary g.st 0)
    (hr2 : ∃ G, R2 g.p.id g.mc g.cap g.R r.sp G c.env.tr.input dO)
    (hreq : r.sp.request = g.p.request) (hmc : r.sp.maxConns = g.mc)
    (hlk : r.lock = .none) (hwr : r.writeable = true) (hm : c.env.mutex = none)
    (hlog : ∃ O1, c.env.tr.wlog = g.L1 ++ O1 ∧ O1 ++ r.sp.output = dO)
    (hnb : r.sp.isRecordBoundary = false) (hraw : r.sp.raw.length < g.cap) (hg0 : r.sp.g0 = 0)
    (hg1 : r.sp.g1 = 0) (hin : c.env.tr.input ≠ []) (hre : RdEv g c.env.tr)
    (hb : Ben c.env.tr) (hstop : c.stop = false) (hev : Ev1 g c.env.tr) (hsc : c.scripts = g.more) :
    PRes g n 2 c := by
  have hctx := ok.ctx
  obtain ⟨G, hr2⟩ := hr2
  have heq0 := closePoll_bound_tail r c.env.mutex c.env.tr g.st
  have hfree : r.sp.free = g.cap - r.sp.raw.length := by
    simp [Str.Parser.free, Str.Parser.freeStart, hr2.par, hr2.capK, hg0, hg1]
  have hfp : 0 < r.sp.free := by rw [hfree]; omega
  have hend0 : BEnd g.p.id g.mc g.cap g.R r.sp r.sp dO c.env.tr :=
    ⟨⟨[], G, (List.append_nil _).symm, by rw [List.append_nil]; exact hr2⟩, rfl, rfl⟩
  rcases hrd : c.env.tr.read r.sp.free with ⟨t1, x⟩
  cases x with
  | pending =>
    have hwl : t1.wlog = c.env.tr.wlog := by have := read_wlog c.env.tr r.sp.free; rwa [hrd] at this
    obtain ⟨hinp, hw | hw⟩ := read_pending hb hrd
    · have hcb : closeBoundary r.sp true c.env.tr = (r.sp, t1, .pending) := by simp [closeBoundary, hrd]
      rw [hcb] at heq0
      exact pboundary_out ok (sp0 := r.sp) (dO := dO) hph heq0 (read_tstep hrd) hwl
        ⟨⟨[], G, (List.append_nil _).symm, by rw [List.append_nil]; exact hr2.input hinp⟩, rfl, rfl⟩ hreq hmc
        (Or.inr ⟨rfl, hw.1, hw.2, hnb, hraw, hg0, hg1, by rw [hinp]; exact hin⟩) hlk hwr hm hlog hre hb hstop hev hsc
    · exact absurd hw.1 hin
  | ready y =>
    cases y with
    | error e => exact (read_error hb hrd).elim
    | ok bs =>
      obtain ⟨hinp, hwl, hlen, hz⟩ := read_ok_ben hb hrd
      by_cases hbs : bs = []
      · rcases hz hbs with hz | hz
        · omega
        · exact absurd hz.1 hin
      · have hs1 := read_tstep hrd
        rcases hbl : boundaryLoop (t1.input.length + 2) r.sp bs t1 with ⟨sp', t', res⟩
        have hcb : closeBoundary r.sp true c.env.tr = (sp', t', res) := by
          cases bs with
          | nil => exact absurd rfl hbs
          | cons b0 bs' => simp [closeBoundary, hrd, hbl]
        rw [hcb] at heq0
        obtain ⟨q1, q2, q3, q4⟩ := bloop_sim hctx _ _ bs t1 (hb.step hs1) (hr2.input (by rw [← hinp]))
          hlen (Nat.le_refl _) hbl
        refine pboundary_out ok (sp0 := r.sp) (dO := dO) hph heq0 (hs1.trans q1) (q2.trans hwl) q3 hreq hmc ?_
          hlk hwr hm hlog hre hb hstop hev hsc
        rcases q4 with q4 | ⟨a, b, c1, d⟩
        · exact Or.inl q4
        · exact Or.inr ⟨a, b, by have := hs1.ans_le; omega, d⟩

/-! ## The handler -/

theorem hp_read (fuel : Nat) (r : AReq) (n : Nat) (rest : List HOp) (sub : HSub)
    (ws : List (Option Writer)) (pr : Bool) (e : Run.Env) :
    handlerPoll (fuel + 1) r { ops := .read n :: rest, sub := sub, writers := ws, propagate := pr } e =
      match r.pollInput (some n) e.mutex e.tr with
        | (r', m, t, .pending) =>
          (r', { ops := .read n :: rest, sub := sub, writers := ws, propagate := pr }, { e with mutex := m, tr := t }, .pending)
        | (r', m, t, .ready k d) =>
          handlerPoll fuel r' { ops := rest, sub := .fresh, writers := ws, propagate := pr }
            ({ e with mutex := m, tr := t }.ev s!"r={k}:{hexOrDash d}")
        | (r', m, t, .err x) =>
          if pr then (r', { ops := rest, sub := .fresh, writers := ws, propagate := pr },
              ({ e with mutex := m, tr := t }.ev s!"r!{showIo x}"), .done (.error x))
          else handlerPoll fuel r' { ops := rest, sub := .fresh, writers := ws, propagate := pr }
              ({ e with mutex := m, tr := t }.ev s!"r!{showIo x}")
        | (r', m, t, .panic s) =>
          (r', { ops := .read n :: rest, sub := sub, writers := ws, propagate := pr }, { e with mutex := m, tr := t }, .panic s) := rfl

/-- One poll that starts inside the handler (before or in its `read`). -/
theorem phread_poll {g : Cfg} {n : Nat} (ok : POK g n) {c : Conn} {r : AReq} {h : HState} {dO : Bytes}
    (hph : c.phase = .handler r h)
    (hops : h.ops = [.read n, .ret g.st]) (hws : h.writers = []) (hpr : h.propagate = true)
    (hs : RSt g.K g.L1 [] r c.env.mutex c.env.tr [] dO)
    (hpos : Pos g.R r.sp.raw r.sp.pay r.sp.pad c.env.tr.input)
    (hb : Ben c.env.tr) (hstop : c.stop = false) (hev : Ev1 g c.env.tr) (hsc : c.scripts = g.more) :
    PRes g n 4 c := by
  have hK := ok.kok
  have hstep := C07.handler_step c r h hph
  obtain ⟨f, hf⟩ : ∃ f, (handlerFuel c.env r + scriptOf c) = f + 2 := ⟨(handlerFuel c.env r + scriptOf c) - 2, by have := handlerFuel_ge c.env r; omega⟩
  obtain ⟨ops, sub, ws, pr⟩ := h
  simp only at hops hws hpr
  subst hops hws hpr
  rw [hf, hp_read] at hstep
  rcases hpi : r.pollInput (some n) c.env.mutex c.env.tr with ⟨r', m', t', res⟩
  rw [hpi] at hstep
  obtain ⟨hts, hpost, _⟩ := pollInput_sim hK ok.hn hb hs hpi
  obtain ⟨n', rfl⟩ : ∃ n', n = n' + 1 := ⟨n - 1, by have := ok.hn; omega⟩
  obtain ⟨⟨G0, hi0⟩, hlk0, hmx0, _⟩ := hs
  have hwfR : ∀ r ∈ g.R, r.WF := fun r hr => (ok.str r hr).1
  have hpos' : (∀ s, res ≠ .panic s) → Pos g.R r'.sp.raw r'.sp.pay r'.sp.pad t'.input :=
    pollInput_pos hwfR hb hlk0 hmx0 hi0.par hpos hpi
  cases res with
  | pending =>
    obtain ⟨⟨dO', hs'⟩, hwk, hans⟩ := hpost
    have hstep' : stepConn c = .halt ⟨.handler r' { ops := [.read (n' + 1), .ret g.st], sub := sub, writers := [], propagate := true },
        { c.env with mutex := m', tr := t' }, c.scripts, c.stop⟩ .pending := hstep
    exact Or.inl ⟨_, (Halts.now hstep').mono (by omega), ⟨hts.w, rfl, rfl⟩,
      .hread (dO := dO') rfl rfl rfl rfl hs' (hpos' (fun s hx => nomatch hx)) (hb.step hts) hstop (hev.step hts) hsc,
      hwk, hans⟩
  | ready k d =>
    obtain ⟨hk, dO', hs', hlk', hm', hpos0, _, hfin⟩ := hpost
    simp only [hp_ret, List.filter_nil, List.length_nil] at hstep
    have hts2 : TStep c.env.tr ((t'.ev s!"r={k}:{hexOrDash d}").ev s!"HE(ok:{showStatus g.st})") :=
      (hts.trans (TStep.ev _ (by simp [isHS, toString_str]))).trans (TStep.ev _ (by simp [isHS, toString_str]))
    have hstep' : stepConn c =
        .next ⟨.closing r' .start g.st 0,
          (({ c.env with mutex := m', tr := t' } : Run.Env).ev s!"r={k}:{hexOrDash d}").ev s!"HE(ok:{showStatus g.st})",
          c.scripts, c.stop⟩ := hstep
    obtain ⟨⟨G1, hi1⟩, _, _, hlog1⟩ := hs'
    have hwr : r'.writeable = true := hfin (by show (nextInputStream g.p.role (some 5)).isNone = true; rw [ok.role]; rfl)
    have hrdev : RdEv g ((t'.ev s!"r={k}:{hexOrDash d}").ev s!"HE(ok:{showStatus g.st})") := by
      have hnow := (hi1.now hK).1
      have hC : g.content = d ++ (Rem g.K.E r'.sp t'.input).content := by
        have : g.K.C = g.content := rfl
        rw [← this, hnow]; rfl
      refine ⟨d, ⟨_, hC.symm⟩, ?_, ?_⟩
      · intro hd
        subst hd
        rcases hpos0 with hp | hp
        · simp at hk; omega
        · exact hp.1.symm
      · subst hk
        show rdEvent d ∈ (t'.events ++ [_]) ++ [_]
        simp [rdEvent]
    have hcore := pclose_start ok
      (c := ⟨.closing r' .start g.st 0,
          (({ c.env with mutex := m', tr := t' } : Run.Env).ev s!"r={k}:{hexOrDash d}").ev s!"HE(ok:{showStatus g.st})",
          c.scripts, c.stop⟩) (G := G1) (dC := [] ++ d) (dO := dO') rfl hi1 (hpos' (fun s hx => nomatch hx)) hlk' hwr hm'
      (by obtain ⟨O1, h1, h2⟩ := hlog1; exact ⟨O1, h1, by rw [h2]; rfl⟩)
      hrdev (hb.step hts2) hstop (hev.step hts2) hsc
    exact (PRes.of_steps (Steps.one hstep') ⟨hts2.w, rfl, rfl⟩ hcore).mono (by omega)
  | err e => exact hpost.elim
  | panic s => exact hpost.elim

/-- the first poll of the handler -/
theorem pfirst_poll {g : Cfg} {n : Nat} (ok : POK g n) {c : Conn} {e1 : Bytes}
    (hph : c.phase = .handler (AReq.new (Str.Parser.fromParser g.cap g.p.request e1 g.mc))
      { ops := g.hscript, propagate := true })
    (hlen : e1.length ≤ g.cap) (hwire : e1 ++ c.env.tr.input = g.X) (hlog : c.env.tr.wlog = g.L1)
    (hm : c.env.mutex = none) (hb : Ben c.env.tr) (hstop : c.stop = false) (hev : Ev1 g c.env.tr)
    (hsc : c.scripts = g.more) : PRes g n 4 c := by
  have hstart : C03SI.Start g.K.E (Str.Parser.fromParser g.cap g.p.request e1 g.mc) :=
    C03SI.start_fresh g.cap g.p.request e1 g.mc hlen ok.hid (Or.inl ok.role)
  have hri : RInv g.K (AReq.new (Str.Parser.fromParser g.cap g.p.request e1 g.mc)) e1 c.env.tr.input [] [] := by
    refine ⟨hstart.mtch, hstart.inv, rfl, rfl, rfl, hwire, fun x => ?_⟩
    have := C03SI.rem_start hstart x
    show refWire g.K.E (e1 ++ x) = (Rem g.K.E (Str.Parser.fromParser g.cap g.p.request e1 g.mc) x).pre [] []
    rw [this]; rfl
  refine phread_poll ok (dO := []) hph ok.hs rfl rfl
    ⟨⟨e1, hri⟩, by rw [hm]; exact lockInv_free rfl, Or.inl hm, ⟨[], by rw [hlog, List.append_nil], rfl⟩⟩ ?_
    hb hstop hev hsc
  exact ⟨[], [], g.R, rfl, rfl, by show e1 ++ c.env.tr.input = _; rw [hwire, ok.XR]; rfl, List.suffix_refl _⟩

/-! ## `parse_request`, one poll from any stage -/

theorem pparse_poll {g : Cfg} {n0 : Nat} (ok : POK g n0) {c : Conn} {F : Bytes}
    (hst : PSt g.cap g.mc g.W g.L0 [] c F) (hsc : c.scripts = (g.hscript, true) :: g.more)
    (hm : c.env.mutex = none) (hev : hsCount c.env.tr.events = g.hs0) :
    PRes g n0 (2 * c.env.tr.input.length + 8) c := by
  obtain ⟨n, c1, F1, hn, hs, hfr, hout⟩ := parse_loop (cap24 g) ok.ns _ c F hst (Nat.le_refl _)
  have hnb : n ≤ 2 * c.env.tr.input.length + 2 := by have := wbit_le c; omega
  rcases hout with ⟨c2, h1, h2, h3, h4, h5⟩ | ⟨wrest, t', hph, hf, hw, hstop1, hben1, hrem1, hwa, hlog, hts', hinp'⟩ |
      ⟨hin, hnf, hph, hst1⟩
  · refine Or.inl ⟨c2, ⟨n, c1, by omega, hs, h1⟩, hfr.link.trans h3.link, ?_, h4,
      by have := hfr.ts.ans_le; omega⟩
    have hts := hfr.ts.trans h3.ts
    exact .parse h2 (h3.scripts.trans (hfr.scripts.trans hsc)) (h3.mutex.trans (hfr.mutex.trans hm))
      (hts.hs.trans hev)
  · -- the preamble is complete and its replies are written: the handler starts
    have hsc1 : c1.scripts = (g.hscript, true) :: g.more := hfr.scripts.trans hsc
    have hmx1 : c1.env.mutex = none := hfr.mutex.trans hm
    have hw' : F1 ++ c1.env.tr.input = g.W := by simpa using hw
    have hF1 : F1 <+: serAll g.recs ++ g.X := ⟨c1.env.tr.input, by simpa [Cfg.W] using hw'⟩
    rcases C06.run_wire_state ok.wf g.X hF1 g.mc with ⟨e1, hFe, he1, hrun⟩ | ⟨t, _, _, hnf⟩
    · have hd : (track g.cap g.mc F1).state = .done g.p.request := by simp only [track, hrun]
      obtain ⟨r, hrq, hr, hstep⟩ := C07.done_starts_handler c1 (track g.cap g.mc F1) wrest [] t' g.p.request
        hph hstop1 hwa hd
      rw [hsc1] at hstep
      have hcap : (track g.cap g.mc F1).cap = g.cap := rfl
      have hinput : (track g.cap g.mc F1).input = e1 := by simp only [track, hrun]
      have hmc : (track g.cap g.mc F1).maxConns = g.mc := rfl
      rw [hcap, hinput, hmc] at hr
      subst hr
      have hwire : e1 ++ c1.env.tr.input = g.X := by
        have : F1 ++ c1.env.tr.input = serAll g.recs ++ g.X := by simpa [Cfg.W] using hw'
        rw [hFe, List.append_assoc] at this
        exact List.append_cancel_left this
      have he1len : e1.length ≤ g.cap := by
        have := hrem1; rw [hrun] at this; exact this
      have hL1 : t'.wlog = g.L1 := by rw [hlog, hrun]; rfl
      have hstep' : stepConn c1 = .next
          ⟨.handler (AReq.new (Str.Parser.fromParser g.cap g.p.request e1 g.mc))
              { ops := g.hscript, propagate := true },
            (⟨t', c1.env.mutex, c1.env.segs⟩ : Run.Env).ev (hsEvent g.p.request), g.more, false⟩ := hstep
      have hwsE : WStep c1.env.tr (t'.ev (hsEvent g.p.request)) :=
        hts'.w.trans ⟨List.suffix_refl _, List.suffix_refl _, rfl, rfl, Or.inl rfl, Nat.le_refl _,
          fun s hs => List.mem_append_left _ hs⟩
      have hev1 : Ev1 g (t'.ev (hsEvent g.p.request)) := by
        have h0 : hsCount t'.events = g.hs0 := (hfr.ts.trans hts').hs.trans hev
        constructor
        · show hsCount (t'.events ++ [hsEvent g.p.request]) = g.hs0 + 1
          rw [hsCount_append, h0, hsCount_single_true (isHS_hsEvent _)]
        · show hsEvent g.p.request ∈ t'.events ++ [hsEvent g.p.request]
          simp
      have hben2 : Ben (t'.ev (hsEvent g.p.request)) := hben1.wstep hwsE
      have hcore := pfirst_poll ok
        (c := ⟨.handler (AReq.new (Str.Parser.fromParser g.cap g.p.request e1 g.mc))
                { ops := g.hscript, propagate := true },
            (⟨t', c1.env.mutex, c1.env.segs⟩ : Run.Env).ev (hsEvent g.p.request), g.more, false⟩) rfl he1len
        (by show e1 ++ t'.input = g.X; rw [hinp']; exact hwire) hL1 hmx1 hben2 rfl hev1 rfl
      have hres := PRes.of_steps (hs.trans (Steps.one hstep')) (hfr.link.trans ⟨hwsE, rfl, hstop1.symm ▸ rfl⟩) hcore
      exact hres.mono (by omega)
    · rw [hf] at hnf; cases hnf
  · exfalso
    have hF1 : F1 = g.W := by
      have := hst1.wire
      rwa [hin, List.append_nil, List.append_nil] at this
    rcases C06.run_wire_state ok.wf g.X (F := F1) (by rw [hF1]; exact List.prefix_refl _) g.mc with
      ⟨e1, hFe, he1, hrun⟩ | ⟨t, ht, hFt, _⟩
    · rw [hrun] at hnf; cases hnf
    · rw [hF1, Cfg.W] at hFt
      have := congrArg List.length hFt
      have : 0 < t.length := List.length_pos_iff.mpr ht
      simp only [List.length_append] at *
      omega


/-- **One poll** of the connection task from any stage of the request. -/
theorem pstage_poll {g : Cfg} {n : Nat} (ok : POK g n) {c : Conn} (hst : PStage g n c) :
    PRes g n (2 * c.env.tr.input.length + 9) c := by
  cases hst with
  | @start raw hph hwire hraw hlog hb hstop hsc hm hev =>
    have hpre : raw <+: g.W := ⟨c.env.tr.input, hwire⟩
    have hstart := start_track (cap24 g) hraw (ok.ns _ hpre)
    have hstep := step_start c _ hph hstop
    rw [hstart] at hstep
    have hstep' : stepConn c = .next (mkC c (.parseReq (track g.cap g.mc raw)
        (.writing (run .header raw g.mc).out (run .header raw g.mc).st.isFinal)) c.env.tr) := hstep
    have hremle : (run .header raw g.mc).rem.length ≤ g.cap := by
      have := (run_ok raw g.mc (st := .header) trivial).2.2.length_le
      omega
    have hst : PSt g.cap g.mc g.W g.L0 [] (mkC c (.parseReq (track g.cap g.mc raw)
        (.writing (run .header raw g.mc).out (run .header raw g.mc).st.isFinal)) c.env.tr) raw :=
      ⟨by show raw ++ c.env.tr.input ++ [] = g.W
          rw [List.append_nil]; exact hwire,
        hstop, hb, hremle, Or.inr ⟨_, rfl, by show c.env.tr.wlog ++ _ = _; rw [hlog], [], rfl⟩⟩
    have := PRes.of_steps (Steps.one hstep') (mkC_link c _ (.refl _)) (pparse_poll ok hst hsc hm hev)
    exact this.mono (by show 1 + (2 * c.env.tr.input.length + 8) ≤ _; omega)
  | parse hst hsc hm hev => exact (pparse_poll ok hst hsc hm hev).mono (by omega)
  | @hread r h dO hph hops hws hpr hs hpos hb hstop hev hsc =>
    exact (phread_poll ok hph hops hws hpr hs hpos hb hstop hev hsc).mono (by omega)
  | @bound r dO hph hr2 hreq hmc hlk hwr hm hlog hnb hraw hg0 hg1 hin hrd hb hstop hev hsc =>
    exact (pbound_poll ok hph hr2 hreq hmc hlk hwr hm hlog hnb hraw hg0 hg1 hin hrd hb hstop hev hsc).mono (by omega)
  | @late s1 s2 hsp hu hcl hrd =>
    obtain ⟨r0, cs0, hph0⟩ := hcl
    cases hu with
    | start hph => rw [hph0] at hph; cases hph
    | parse hst =>
      exfalso
      rcases hst.5 with ⟨h, _, _⟩ | ⟨_, h, _⟩ <;> (rw [hph0] at h; cases h)
    | hwrite hph => rw [hph0] at hph; cases hph
    | @closeW r rest' hph hce hm hlog hb hstop hev hsc =>
      refine (PRes.of_ures hsp (uclose_out' (g := gC g s1 s2) (r2 := r) (rest := rest') hph ?_ (.refl _) hce hm hlog hb
        hstop hev hsc) hrd).mono (by omega)
      rw [closePoll_late _ _ _ _ _ _ rfl]
    | @close r rest' hph hce hm hlog hb hstop hev hsc =>
      refine (PRes.of_ures hsp (uclose_core' (g := gC g s1 s2) (r2 := r) (rest := rest') hph ?_ (.refl _) hce hm hlog hb
        hstop hev hsc) hrd).mono (by omega)
      rw [closePoll_late _ _ _ _ _ _ rfl]
      rfl

theorem PStage.cong {g : Cfg} {n : Nat} {c c' : Conn} (h : PStage g n c)
    (hph : c'.phase = c.phase) (hsc : c'.scripts = c.scripts) (hstop : c'.stop = c.stop)
    (hm : c'.env.mutex = c.env.mutex) (hs : TrSame c.env.tr c'.env.tr) : PStage g n c' := by
  cases h with
  | start hph0 hwire hraw hlog hb hstop0 hsc0 hm0 hev =>
    exact .start (hph.trans hph0) (by rw [hs.input]; exact hwire) hraw (hs.wlog.trans hlog) (hs.ben hb)
      (hstop.trans hstop0) (hsc.trans hsc0) (hm.trans hm0) (hs.hs.trans hev)
  | parse hst hsc0 hm0 hev =>
    exact .parse (hst.cong hph hstop hs) (hsc.trans hsc0) (hm.trans hm0) (hs.hs.trans hev)
  | @hread r h dO hph0 hops hws hpr hs0 hpos hb hstop0 hev hsc0 =>
    exact .hread (hph.trans hph0) hops hws hpr (hs0.cong hm hs) (by rw [hs.input]; exact hpos) (hs.ben hb)
      (hstop.trans hstop0) (hs.ev1 hev) (hsc.trans hsc0)
  | @bound r dO hph0 hr2 hreq hmc hlk hwr hm0 hlog hnb hraw hg0 hg1 hin hrd hb hstop0 hev hsc0 =>
    exact .bound (hph.trans hph0) (by rw [hs.input]; exact hr2) hreq hmc hlk hwr (hm.trans hm0)
      (by rw [hs.wlog]; exact hlog) hnb hraw hg0 hg1 (by rw [hs.input]; exact hin) (hrd.same hs) (hs.ben hb)
      (hstop.trans hstop0) (hs.ev1 hev) (hsc.trans hsc0)
  | @late s1 s2 hsp hu hcl hrd =>
    obtain ⟨r0, cs0, hph0⟩ := hcl
    exact .late hsp (hu.cong hph hsc hstop hm hs) ⟨r0, cs0, hph.trans hph0⟩ (hrd.same hs)

/-! ## The executor -/

/-- how the run ends: for a split `g.R = s₁ ++ s₂` of the stream's records — `s₁` consumed by the
request, the bytes of `s₂` left to the next request parser — parked behind the leftover (its records
swallowed, their replies written), or returned at end-of-file; `d` = what the handler's `read` got. -/
def PEnd (g : Cfg) (Z : Bytes) (em : EndMode) (evs0 : List String) (A0 : Nat) (c' : Conn) (fin : String) : Prop :=
  ∃ s1 s2 d, g.R = s1 ++ s2 ∧ d <+: g.content ∧ (d = [] → g.content = []) ∧
  PKeep g.more (g.hs0 + 1) [hsEvent g.p.request, rdEvent d] c' ∧ c'.env.tr.endMode = em ∧
  (∀ s ∈ evs0, s ∈ c'.env.tr.events) ∧ ans c'.env.tr ≤ A0 ∧ c'.env.segs = [] ∧
  ((fin = "STALL" ∧ ZParked g.cap g.mc (serAll s2 ++ Z) (gC g s1 s2).LU Z c') ∨
   (fin = "RET" ∧ ZFin g.mc (serAll s2 ++ Z) (gC g s1 s2).LU Z c'))

/-- **The executor** for a Responder request with KEEP_CONN whose handler is `[.read n, .ret st]`.
`Z`: what the client will send next (not arrived yet); whatever record suffix `s₂` of the stream is
left over, `serAll s₂ ++ Z` never fills the buffer and is not final before `Z`. -/
theorem run_prefix {g : Cfg} {n : Nat} (ok : POK g n) (hk : g.p.flags.toNat % 2 = 1) {Z : Bytes}
    (hns : ∀ s1 s2, g.R = s1 ++ s2 → NoStuckW g.cap g.mc (serAll s2 ++ Z))
    (hNF : ∀ s1 s2, g.R = s1 ++ s2 → ∀ F x, F ++ x ++ Z = serAll s2 ++ Z → (run .header F g.mc).st.isFinal = false)
    (em : EndMode) (evs0 : List String) (c : Conn) (n0 fuel : Nat) (hst : PStage g n c)
    (hem : c.env.tr.endMode = em) (hev0 : ∀ s ∈ evs0, s ∈ c.env.tr.events)
    (hsegs : c.env.segs = []) (hf : ans c.env.tr + 1 ≤ fuel) (hlen : 6 * c.env.tr.input.length + 26 ≤ 100000) :
    ∃ c'' fin, runTask fuel c n0 none = (c'', fin) ∧ PEnd g Z em evs0 (ans c.env.tr) c'' fin := by
  have h24 := cap24 g
  refine run_gen
    (fun c0 => ((PStage g n c0) ∨
      (∃ s1 s2 d, g.R = s1 ++ s2 ∧ d <+: g.content ∧ (d = [] → g.content = []) ∧
        ZT g.cap g.mc (serAll s2 ++ Z) (gC g s1 s2).LU Z c0 ∧
        PKeep g.more (g.hs0 + 1) [hsEvent g.p.request, rdEvent d] c0)) ∧
      c0.env.tr.endMode = em ∧ (∀ s ∈ evs0, s ∈ c0.env.tr.events) ∧ ans c0.env.tr ≤ ans c.env.tr)
    (fun c0 => ∃ s1 s2 d, g.R = s1 ++ s2 ∧ d <+: g.content ∧ (d = [] → g.content = []) ∧
      ((∃ c', Halts (4 * c0.env.tr.input.length + 16) c0 c' .pending ∧ Link c0 c' ∧ c'.env.tr.woken = c0.env.tr.woken ∧
        ZT g.cap g.mc (serAll s2 ++ Z) (gC g s1 s2).LU Z c' ∧ PKeep g.more (g.hs0 + 1) [hsEvent g.p.request, rdEvent d] c' ∧
        ZParked g.cap g.mc (serAll s2 ++ Z) (gC g s1 s2).LU Z c') ∨
      (∃ c', Halts (4 * c0.env.tr.input.length + 16) c0 c' .finished ∧ Link c0 c' ∧
        PKeep g.more (g.hs0 + 1) [hsEvent g.p.request, rdEvent d] c' ∧ ZFin g.mc (serAll s2 ++ Z) (gC g s1 s2).LU Z c')))
    (fun c'' fin => PEnd g Z em evs0 (ans c.env.tr) c'' fin)
    (fun c0 c1 h a b c d e => by
      refine ⟨?_, e.em.trans h.2.1, fun s hs => e.mem (h.2.2.1 s hs), by
        have := h.2.2.2; unfold ans at this ⊢; rw [e.rd, e.wr]; exact this⟩
      rcases h.1 with h1 | ⟨s1, s2, dd, hsp, hd1, hd2, h1, h2⟩
      · exact Or.inl (h1.cong a b c d e)
      · exact Or.inr ⟨s1, s2, dd, hsp, hd1, hd2, h1.cong a c e, h2.same b d e⟩)
    (fun c0 h => ?_)
    (fun c0 n1 f0 hS0 hsg hq _ hlen0 => ?_)
    (ans c.env.tr) c n0 fuel ⟨Or.inl hst, hem, hev0, Nat.le_refl _⟩ hsegs (Nat.le_refl _) hf hlen
  · -- one poll
    have keep : ∀ {c' : Conn}, Link c0 c' → c'.env.tr.endMode = em ∧ (∀ s ∈ evs0, s ∈ c'.env.tr.events) ∧
        ans c'.env.tr ≤ ans c.env.tr :=
      fun hl => ⟨hl.ts.em.trans h.2.1, fun s hs => hl.ts.evm s (h.2.2.1 s hs),
        Nat.le_trans hl.ts.ans_le h.2.2.2⟩
    rcases h.1 with h1 | ⟨s1, s2, dd, hsp, hd1, hd2, h1, h2⟩
    · rcases pstage_poll ok h1 with ⟨c', hh, hl, hS, hw, ha⟩ | ⟨k, c1, s1, s2, hk1, hs, hl, hsp, haf, dd, hd1, hd2, hd3⟩ |
          ⟨c', s1, s2, hh, hl, hsp, hf, _⟩
      · exact Or.inl ⟨c', hh.mono (by omega), hl, ⟨Or.inl hS, keep hl⟩, hw, ha⟩
      · obtain ⟨raw, hph, hw, hraw⟩ := haf.ph
        have hzt : ZT g.cap g.mc (serAll s2 ++ Z) (gC g s1 s2).LU Z c1 :=
          Or.inr ⟨raw, hph, by rw [hw]; rfl, hraw, haf.log, haf.ben, haf.stop⟩
        have hkp : PKeep g.more (g.hs0 + 1) [hsEvent g.p.request, rdEvent dd] c1 :=
          ⟨haf.sc, haf.mtx, haf.ev.1, fun s hs => by
            rcases List.mem_cons.1 hs with rfl | hs
            · exact haf.ev.2
            · rw [List.mem_singleton.1 hs]; exact hd3⟩
        have hin1 := hl.ts.inp
        rcases ZRes.of_steps hs hl (ztail_poll h24 (hns s1 s2 hsp) (hNF s1 s2 hsp) hzt hkp) with
          ⟨c', hh, hl', hS, hw, ha⟩ | ⟨c', hh, r⟩ | ⟨c', hh, r⟩
        · exact Or.inl ⟨c', hh.mono (by omega), hl', ⟨Or.inr ⟨s1, s2, dd, hsp, hd1, hd2, hS⟩, keep hl'⟩, hw, ha⟩
        · exact Or.inr ⟨s1, s2, dd, hsp, hd1, hd2, Or.inl ⟨c', hh.mono (by omega), r⟩⟩
        · exact Or.inr ⟨s1, s2, dd, hsp, hd1, hd2, Or.inr ⟨c', hh.mono (by omega), r⟩⟩
      · have := hf.nokeep
        have e : (gC g s1 s2).p = g.p := rfl
        rw [e] at this
        omega
    · rcases ztail_poll h24 (hns s1 s2 hsp) (hNF s1 s2 hsp) h1 h2 with ⟨c', hh, hl', hS, hw, ha⟩ | ⟨c', hh, r⟩ |
          ⟨c', hh, r⟩
      · exact Or.inl ⟨c', hh.mono (by omega), hl', ⟨Or.inr ⟨s1, s2, dd, hsp, hd1, hd2, hS⟩, keep hl'⟩, hw, ha⟩
      · exact Or.inr ⟨s1, s2, dd, hsp, hd1, hd2, Or.inl ⟨c', hh.mono (by omega), r⟩⟩
      · exact Or.inr ⟨s1, s2, dd, hsp, hd1, hd2, Or.inr ⟨c', hh.mono (by omega), r⟩⟩
  · -- from the last poll to the end of `runTask`
    obtain ⟨hsame, hph, hsc, hstop, hmx, hsg', hwk⟩ := prePoll_same c0 n1 hsg
    have hN : 4 * (prePoll c0 n1 none).env.tr.input.length + 16 ≤ 100000 := by rw [hsame.input]; omega
    have hans0 : ans (prePoll c0 n1 none).env.tr = ans c0.env.tr := by unfold ans; rw [hsame.rd, hsame.wr]
    have keep : ∀ {c' : Conn}, Link (prePoll c0 n1 none) c' → c'.env.tr.endMode = em ∧
        (∀ s ∈ evs0, s ∈ c'.env.tr.events) ∧ ans c'.env.tr ≤ ans c.env.tr ∧ c'.env.segs = [] :=
      fun hl => ⟨(hl.ts.em.trans hsame.em).trans hS0.2.1, fun s hs => hl.ts.evm s (hsame.mem (hS0.2.2.1 s hs)),
        by have := hl.ts.ans_le; have := hS0.2.2.2; omega, hl.segs.trans hsg'⟩
    obtain ⟨s1, s2, dd, hsp, hd1, hd2, hq⟩ := hq
    rcases hq with ⟨c', hh, hl, hw, hzt, hkp, hpk⟩ | ⟨c', hh, hl, hkp, hfin⟩
    · have hpoll := hh.pollT hN
      have hw' : c'.env.tr.woken = false := hw.trans hwk
      obtain ⟨k1, k2, k3, k4⟩ := keep hl
      rw [runTask_succ, hpoll]
      simp only [hw', Bool.false_eq_true, if_false]
      rw [release_nil _ k4]
      simp only [hw', Bool.false_eq_true, if_false]
      refine ⟨_, "STALL", rfl, s1, s2, dd, hsp, hd1, hd2, ?_⟩
      obtain ⟨F, hF, hps, hph', hlg⟩ := hpk.pst
      exact ⟨hkp.same rfl rfl ⟨rfl, rfl, rfl, rfl, rfl, rfl, [], by simp, Quiet.nil⟩, k1, k2, k3, k4,
        Or.inl ⟨rfl, ⟨F, hF, hps.cong rfl rfl ⟨rfl, rfl, rfl, rfl, rfl, rfl, [], by simp, Quiet.nil⟩, hph', hlg⟩,
          hpk.inp, hpk.em⟩⟩
    · have hpoll := hh.pollT hN
      obtain ⟨k1, k2, k3, k4⟩ := keep hl
      exact ⟨c', "RET", by rw [runTask_succ, hpoll], s1, s2, dd, hsp, hd1, hd2, hkp, k1, k2, k3, k4, Or.inr ⟨rfl, hfin⟩⟩


/-- **The executor** for a Responder request with KEEP_CONN whose handler is `[.read n, .ret st]`.
`Z`: what the client will send next (not arrived yet); whatever record suffix `s₂` of the stream is
left over, `serAll s₂ ++ Z` never fills the buffer and is not final before `Z`. -/
theorem run_prefix' {g : Cfg} {n : Nat} (ok : POK g n) (hk : g.p.flags.toNat % 2 = 1) {Z : Bytes}
    (hns : ∀ s1 s2, g.R = s1 ++ s2 → NoStuckW g.cap g.mc (serAll s2 ++ Z))
    (hNF : ∀ s1 s2, g.R = s1 ++ s2 → ∀ F x, F ++ x ++ Z = serAll s2 ++ Z → (run .header F g.mc).st.isFinal = false)
    (em : EndMode) (evs0 : List String) (c : Conn) (n0 fuel : Nat) (hst : PStage g n c)
    (hem : c.env.tr.endMode = em) (hev0 : ∀ s ∈ evs0, s ∈ c.env.tr.events)
    (hsegs : c.env.segs = []) (hf : ans c.env.tr + 1 ≤ fuel) :
    ∃ c'' fin, runTask fuel c n0 none = (c'', fin) ∧ PEnd g Z em evs0 (ans c.env.tr) c'' fin := by
  have h24 := cap24 g
  refine run_gen'
    (fun c0 => ((PStage g n c0) ∨
      (∃ s1 s2 d, g.R = s1 ++ s2 ∧ d <+: g.content ∧ (d = [] → g.content = []) ∧
        ZT g.cap g.mc (serAll s2 ++ Z) (gC g s1 s2).LU Z c0 ∧
        PKeep g.more (g.hs0 + 1) [hsEvent g.p.request, rdEvent d] c0)) ∧
      c0.env.tr.endMode = em ∧ (∀ s ∈ evs0, s ∈ c0.env.tr.events) ∧ ans c0.env.tr ≤ ans c.env.tr)
    (fun c0 => ∃ s1 s2 d, g.R = s1 ++ s2 ∧ d <+: g.content ∧ (d = [] → g.content = []) ∧
      ((∃ c', Halts (4 * c0.env.tr.input.length + 16) c0 c' .pending ∧ Link c0 c' ∧ c'.env.tr.woken = c0.env.tr.woken ∧
        ZT g.cap g.mc (serAll s2 ++ Z) (gC g s1 s2).LU Z c' ∧ PKeep g.more (g.hs0 + 1) [hsEvent g.p.request, rdEvent d] c' ∧
        ZParked g.cap g.mc (serAll s2 ++ Z) (gC g s1 s2).LU Z c') ∨
      (∃ c', Halts (4 * c0.env.tr.input.length + 16) c0 c' .finished ∧ Link c0 c' ∧
        PKeep g.more (g.hs0 + 1) [hsEvent g.p.request, rdEvent d] c' ∧ ZFin g.mc (serAll s2 ++ Z) (gC g s1 s2).LU Z c')))
    (fun c'' fin => PEnd g Z em evs0 (ans c.env.tr) c'' fin)
    (fun c0 c1 h a b c d e => by
      refine ⟨?_, e.em.trans h.2.1, fun s hs => e.mem (h.2.2.1 s hs), by
        have := h.2.2.2; unfold ans at this ⊢; rw [e.rd, e.wr]; exact this⟩
      rcases h.1 with h1 | ⟨s1, s2, dd, hsp, hd1, hd2, h1, h2⟩
      · exact Or.inl (h1.cong a b c d e)
      · exact Or.inr ⟨s1, s2, dd, hsp, hd1, hd2, h1.cong a c e, h2.same b d e⟩)
    (fun c0 h => ?_)
    (fun c0 n1 f0 hS0 hsg hq _ => ?_)
    (ans c.env.tr) c n0 fuel ⟨Or.inl hst, hem, hev0, Nat.le_refl _⟩ hsegs (Nat.le_refl _) hf
  · -- one poll
    have keep : ∀ {c' : Conn}, Link c0 c' → c'.env.tr.endMode = em ∧ (∀ s ∈ evs0, s ∈ c'.env.tr.events) ∧
        ans c'.env.tr ≤ ans c.env.tr :=
      fun hl => ⟨hl.ts.em.trans h.2.1, fun s hs => hl.ts.evm s (h.2.2.1 s hs),
        Nat.le_trans hl.ts.ans_le h.2.2.2⟩
    rcases h.1 with h1 | ⟨s1, s2, dd, hsp, hd1, hd2, h1, h2⟩
    · rcases pstage_poll ok h1 with ⟨c', hh, hl, hS, hw, ha⟩ | ⟨k, c1, s1, s2, hk1, hs, hl, hsp, haf, dd, hd1, hd2, hd3⟩ |
          ⟨c', s1, s2, hh, hl, hsp, hf, _⟩
      · exact Or.inl ⟨c', hh.mono (by omega), hl, ⟨Or.inl hS, keep hl⟩, hw, ha⟩
      · obtain ⟨raw, hph, hw, hraw⟩ := haf.ph
        have hzt : ZT g.cap g.mc (serAll s2 ++ Z) (gC g s1 s2).LU Z c1 :=
          Or.inr ⟨raw, hph, by rw [hw]; rfl, hraw, haf.log, haf.ben, haf.stop⟩
        have hkp : PKeep g.more (g.hs0 + 1) [hsEvent g.p.request, rdEvent dd] c1 :=
          ⟨haf.sc, haf.mtx, haf.ev.1, fun s hs => by
            rcases List.mem_cons.1 hs with rfl | hs
            · exact haf.ev.2
            · rw [List.mem_singleton.1 hs]; exact hd3⟩
        have hin1 := hl.ts.inp
        rcases ZRes.of_steps hs hl (ztail_poll h24 (hns s1 s2 hsp) (hNF s1 s2 hsp) hzt hkp) with
          ⟨c', hh, hl', hS, hw, ha⟩ | ⟨c', hh, r⟩ | ⟨c', hh, r⟩
        · exact Or.inl ⟨c', hh.mono (by omega), hl', ⟨Or.inr ⟨s1, s2, dd, hsp, hd1, hd2, hS⟩, keep hl'⟩, hw, ha⟩
        · exact Or.inr ⟨s1, s2, dd, hsp, hd1, hd2, Or.inl ⟨c', hh.mono (by omega), r⟩⟩
        · exact Or.inr ⟨s1, s2, dd, hsp, hd1, hd2, Or.inr ⟨c', hh.mono (by omega), r⟩⟩
      · have := hf.nokeep
        have e : (gC g s1 s2).p = g.p := rfl
        rw [e] at this
        omega
    · rcases ztail_poll h24 (hns s1 s2 hsp) (hNF s1 s2 hsp) h1 h2 with ⟨c', hh, hl', hS, hw, ha⟩ | ⟨c', hh, r⟩ |
          ⟨c', hh, r⟩
      · exact Or.inl ⟨c', hh.mono (by omega), hl', ⟨Or.inr ⟨s1, s2, dd, hsp, hd1, hd2, hS⟩, keep hl'⟩, hw, ha⟩
      · exact Or.inr ⟨s1, s2, dd, hsp, hd1, hd2, Or.inl ⟨c', hh.mono (by omega), r⟩⟩
      · exact Or.inr ⟨s1, s2, dd, hsp, hd1, hd2, Or.inr ⟨c', hh.mono (by omega), r⟩⟩
  · -- from the last poll to the end of `runTask`
    obtain ⟨hsame, hph, hsc, hstop, hmx, hsg', hwk⟩ := prePoll_same c0 n1 hsg
    have hN : 4 * (prePoll c0 n1 none).env.tr.input.length + 16 ≤ 6 * (prePoll c0 n1 none).env.tr.input.length + 26 := by omega
    have hans0 : ans (prePoll c0 n1 none).env.tr = ans c0.env.tr := by unfold ans; rw [hsame.rd, hsame.wr]
    have keep : ∀ {c' : Conn}, Link (prePoll c0 n1 none) c' → c'.env.tr.endMode = em ∧
        (∀ s ∈ evs0, s ∈ c'.env.tr.events) ∧ ans c'.env.tr ≤ ans c.env.tr ∧ c'.env.segs = [] :=
      fun hl => ⟨(hl.ts.em.trans hsame.em).trans hS0.2.1, fun s hs => hl.ts.evm s (hsame.mem (hS0.2.2.1 s hs)),
        by have := hl.ts.ans_le; have := hS0.2.2.2; omega, hl.segs.trans hsg'⟩
    obtain ⟨s1, s2, dd, hsp, hd1, hd2, hq⟩ := hq
    rcases hq with ⟨c', hh, hl, hw, hzt, hkp, hpk⟩ | ⟨c', hh, hl, hkp, hfin⟩
    · have hpoll := hh.pollB hN
      have hw' : c'.env.tr.woken = false := hw.trans hwk
      obtain ⟨k1, k2, k3, k4⟩ := keep hl
      rw [runTask_succ, hpoll]
      simp only [hw', Bool.false_eq_true, if_false]
      rw [release_nil _ k4]
      simp only [hw', Bool.false_eq_true, if_false]
      refine ⟨_, "STALL", rfl, s1, s2, dd, hsp, hd1, hd2, ?_⟩
      obtain ⟨F, hF, hps, hph', hlg⟩ := hpk.pst
      exact ⟨hkp.same rfl rfl ⟨rfl, rfl, rfl, rfl, rfl, rfl, [], by simp, Quiet.nil⟩, k1, k2, k3, k4,
        Or.inl ⟨rfl, ⟨F, hF, hps.cong rfl rfl ⟨rfl, rfl, rfl, rfl, rfl, rfl, [], by simp, Quiet.nil⟩, hph', hlg⟩,
          hpk.inp, hpk.em⟩⟩
    · have hpoll := hh.pollB hN
      obtain ⟨k1, k2, k3, k4⟩ := keep hl
      exact ⟨c', "RET", by rw [runTask_succ, hpoll], s1, s2, dd, hsp, hd1, hd2, hkp, k1, k2, k3, k4, Or.inr ⟨rfl, hfin⟩⟩

/-! ## In a chain -/

theorem POK.front {g : Cfg} {n : Nat} (ok : POK g n) {us : List Rec} (hu : LeftOK (alignedBufsize g.b) us) :
    POK (g.front us) n :=
  ⟨wf_idle ok.wf us hu.1, ok.role, ok.pairs, noiseFits_app hu.2 ok.noise, ok.hb, ok.hf, ok.hp, ok.hX2, ok.hX,
    ok.str, ok.hs, ok.hn⟩

/-- the request (configuration `g`, KEEP_CONN, handler `[.read n, .ret st]`) started from any
`StartAt`: it ends parked behind a record suffix `s₂` of its Stdin stream -/
theorem serve_prefix_core {g : Cfg} {n : Nat} (ok : POK g n) (hk : g.p.flags.toNat % 2 = 1) {left : List Rec}
    (hleft : LeftOK (alignedBufsize g.b) left) {Z : Bytes} (hR : ∀ e ∈ g.R, IdleNoise e)
    (hZ : ∀ s1 s2, g.R = s1 ++ s2 → GoodNext g.cap g.mc s2 Z)
    {Lw : Bytes} {evs : List String} {A0 : Nat} {c : Conn} (n0 fuel : Nat)
    (hLw : Lw = g.L0 ++ idleOwed g.mc left)
    (hstart : StartAt g.cap g.mc left Lw ((g.hscript, true) :: g.more) g.hs0 evs A0 g.W c)
    (hf : A0 + 1 ≤ fuel) (hsize : 6 * g.W.length + 26 ≤ 100000) :
    ∃ c' s1 s2 d, runTask fuel c n0 none = (c', "STALL") ∧ g.R = s1 ++ s2 ∧
      d <+: g.content ∧ (d = [] → g.content = []) ∧ rdEvent d ∈ c'.env.tr.events ∧
      Waiting g.cap g.mc s2 ((gC (g.front left) s1 s2).LU ++ idleOwed g.mc s2) g.more (g.hs0 + 1)
        (hsEvent g.p.request :: evs) A0 c' := by
  have okf := ok.front hleft
  have hout := (run_idle_out g.mc left hleft.1).1
  have hst : PStage (g.front left) n c ∧ c.env.segs = [] ∧ c.env.tr.endMode = .pend ∧ ans c.env.tr ≤ A0 ∧
      (∀ s ∈ evs, s ∈ c.env.tr.events) ∧ c.env.tr.input = g.W := by
    rcases hstart with ⟨c0, w, rfl⟩ | ⟨hl, hph, hin, hlog, hb, hstop, hsc, hm, hhs, hev, hsg, hem, hans⟩
    · obtain ⟨L, hL, hpst⟩ := w.pst g.W
      have hLe : L = g.L0 := by
        rw [hLw, hout] at hL
        exact (List.append_cancel_right hL).symm
      subst hLe
      refine ⟨.parse (F := serAll left) (by rw [Cfg.front_W]; exact hpst) w.sc w.mtx w.hs, w.segs, w.em, w.ans, w.ev, rfl⟩
    · subst hl
      refine ⟨.start (raw := []) hph (by rw [Cfg.front_W, hin]; rfl) (Nat.zero_le _) ?_ hb hstop hsc hm hhs,
        hsg, hem, hans, hev, hin⟩
      rw [hlog, hLw]; simp [idleOwed]; rfl
  obtain ⟨hst, hsg, hem, hans, hev, hin⟩ := hst
  obtain ⟨c', fin, hrun, s1, s2, dd, hsp, hd1, hd2, hkp, hem', hev', hans', hsg', hend⟩ :=
    run_prefix okf hk (Z := Z) (fun s1 s2 h => (hZ s1 s2 h).1) (fun s1 s2 h => (hZ s1 s2 h).2) .pend evs c n0 fuel hst hem hev hsg
      (by omega) (by rw [hin]; exact hsize)
  have hs2 : ∀ e ∈ s2, IdleNoise e := fun e he => hR e (by
    have : g.R = s1 ++ s2 := hsp
    rw [this]; exact List.mem_append_right _ he)
  rcases hend with ⟨rfl, hp⟩ | ⟨_, hfn⟩
  · obtain ⟨F, hF, hps, hph, hlg⟩ := hp.pst
    have hFe : F = serAll s2 := List.append_cancel_right hF
    subst hFe
    have hnf : (run .header (serAll s2) g.mc).st.isFinal = false := (run_idle_out g.mc s2 hs2).2.2
    have hob : (run .header (serAll s2) (g.front left).mc).out = idleOwed g.mc s2 :=
      (run_idle_out g.mc s2 hs2).1
    refine ⟨c', s1, s2, dd, hrun, hsp, hd1, hd2, hkp.ev _ (by simp), ⟨hph, hnf, hps.rem, hp.inp, by rw [hlg, hob], ⟨(gC (g.front left) s1 s2).LU, by
      show _ = _ ++ (run .header (serAll s2) (g.front left).mc).out
      rw [hob]⟩, hps.stop, hps.ben, hkp.sc, hkp.mx,
      hkp.hs, ?_, hsg', hem', by omega⟩⟩
    intro s hs
    rcases List.mem_cons.1 hs with rfl | hs
    · exact hkp.ev _ List.mem_cons_self
    · exact hev' s hs
  · rw [hfn.em] at hem'; cases hem'

end Fcgi.E2E
