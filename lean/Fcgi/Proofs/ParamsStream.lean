import Fcgi.Model.ReqParser
import Fcgi.Props.C15
import Fcgi.Props.C16
import Fcgi.Proofs.NV
/-!
# Functional specification of the cross-record reassembly of the Params stream

`parseBuffered` / `parseStream` (`ParamsStateInner::{parse_buffered, parse_stream}`) against the
name-value codec `NV.next` / `NV.all`.

Method: the pair (side buffer, available data) is viewed as a *cursor* `n` into the single byte
string `X = buffer ++ data` (`buffer = X.take n`, `data = X.drop n`).  `try_fill!` only moves the
cursor.  `parseBuffered_cursor` computes `parseBuffered` exactly (`pbSpec`), `parseStream_eq`
computes `parseStream` exactly (`psSpec`); the wanted specification, panic-freedom, maximal
consumption and resumption (chunk invariance) are corollaries.
-/
namespace Fcgi.Req
open Fcgi Fcgi.VarInt

/-! ## 0. Lists -/

theorem take_add_drop (X : Bytes) (n m : Nat) : X.take n ++ (X.drop n).take m = X.take (n + m) := by
  rw [List.take_add]

theorem take_max_split (X : Bytes) (n len : Nat) (h : n < len) :
    X.take n ++ (X.drop n).take (len - n) = X.take len := by
  rw [take_add_drop]; congr 1; omega

/-! ## 1. `try_fill!` only moves the cursor -/

/-- `try_fill!` on the cursor view: if `X` has `len` bytes the cursor advances to `max n len`;
otherwise early return — everything is moved (`must_move`) or nothing. -/
theorem tryFill_cursor (X : Bytes) (n len : Nat) (e : Bool) (hn : n ≤ X.length) :
    tryFill (X.take n) (X.drop n) len e =
      if len ≤ X.length then .filled (X.take (max n len)) (X.drop (max n len))
      else if e then .ret X [] else .ret (X.take n) (X.drop n) := by
  unfold tryFill
  simp only [List.length_take, List.length_drop, Nat.min_eq_left hn]
  by_cases h : n < len
  · simp only [h, if_true]
    by_cases h2 : len ≤ X.length
    · have : X.length - n ≥ len - n := by omega
      simp only [this, h2, if_true, take_max_split X n len h, List.drop_drop]
      have e1 : max n len = len := by omega
      have e2 : n + (len - n) = len := by omega
      rw [e1, e2]
    · have : ¬ (X.length - n ≥ len - n) := by omega
      simp only [this, h2, if_false, List.take_append_drop]
  · have h2 : len ≤ X.length := by omega
    have e1 : max n len = n := by omega
    simp only [h, h2, if_true, if_false, e1]

/-- `try_fill!` in terms of buffer and data. -/
theorem tryFill_filled_ps {buffer data bf d : Bytes} {len : Nat} {e : Bool}
    (h : tryFill buffer data len e = .filled bf d) :
    ∃ k, k ≤ data.length ∧ bf = buffer ++ data.take k ∧ d = data.drop k ∧ len ≤ bf.length ∧
      (buffer.length < len → bf.length = len) := by
  simp only [tryFill] at h
  by_cases h1 : buffer.length < len
  · by_cases h2 : data.length ≥ len - buffer.length
    · simp only [h1, h2, if_true] at h
      cases h
      refine ⟨len - buffer.length, by omega, rfl, rfl, ?_, ?_⟩ <;>
        simp only [List.length_append, List.length_take] <;> omega
    · cases e <;> simp [h1, h2] at h
  · simp only [h1, if_false] at h
    cases h
    exact ⟨0, by omega, by simp, by simp, by omega, by omega⟩

theorem tryFill_ret_ps {buffer data bf d : Bytes} {len : Nat} {e : Bool}
    (h : tryFill buffer data len e = .ret bf d) :
    buffer.length + data.length < len ∧
      (if e then bf = buffer ++ data ∧ d = [] else bf = buffer ∧ d = data) := by
  simp only [tryFill] at h
  by_cases h1 : buffer.length < len
  · by_cases h2 : data.length ≥ len - buffer.length
    · simp [h1, h2] at h
    · refine ⟨by omega, ?_⟩
      cases e <;> simp [h1, h2] at h <;> simp [h]
  · simp [h1] at h

/-! ## 2. The length header (two VarInts) as seen by `parse_buffered` -/

/-- `head_len` after looking at the first buffered byte: 2 or 5. -/
def head1 (b0 : UInt8) : Nat := 2 + (b0.toNat / 128) * 3
/-- `head_len` after looking at the first byte of the second length: 2, 5 or 8. -/
def head2 (b0 bx : UInt8) : Nat := head1 b0 + (bx.toNat / 128) * 3

theorem head1_lt {b : UInt8} (h : b.toNat < 128) : head1 b = 2 := by
  unfold head1; omega
theorem head1_ge {b : UInt8} (h : 128 ≤ b.toNat) : head1 b = 5 := by
  have := b.toNat_lt; unfold head1; omega
theorem head2_lt {b0 b : UInt8} (h : b.toNat < 128) : head2 b0 b = head1 b0 := by
  unfold head2; omega
theorem head2_ge {b0 b : UInt8} (h : 128 ≤ b.toNat) : head2 b0 b = head1 b0 + 3 := by
  have := b.toNat_lt; unfold head2; omega
theorem head1_pos (b : UInt8) : 2 ≤ head1 b := by unfold head1; omega
theorem head1_le_head2 (b0 b : UInt8) : head1 b0 ≤ head2 b0 b := by unfold head2; omega

/-- The number of header bytes the parser can *know* it needs, given the bytes `X` seen so far:
0 if not even `head1` bytes are there, `head1` if the second length prefix is long and incomplete,
else the full header length `head2`. -/
def headNeed (X : Bytes) : Nat :=
  match X[0]? with
  | none => 0
  | some b0 =>
    if X.length < head1 b0 then 0
    else match X[head1 b0 - 1]? with
      | none => 0
      | some bx => if X.length < head2 b0 bx then head1 b0 else head2 b0 bx

theorem hdr_short1_ps {X : Bytes} {b0 : UInt8} (h0 : X[0]? = some b0) (hl : X.length < head1 b0) :
    NV.next X = none := by
  rcases X with _ | ⟨a0, t⟩
  · simp at h0
  · simp at h0; subst h0
    by_cases hb : a0.toNat < 128
    · rw [head1_lt hb] at hl
      have : t = [] := by cases t <;> simp_all <;> omega
      subst this
      simp [NV.next, decode, hb]
    · rw [head1_ge (by omega)] at hl
      rcases t with _ | ⟨a1, _ | ⟨a2, _ | ⟨a3, _ | ⟨a4, t⟩⟩⟩⟩
      · simp [NV.next, decode, hb]
      · simp [NV.next, decode, hb]
      · simp [NV.next, decode, hb]
      · simp [NV.next, decode, hb]
      · simp at hl; omega

theorem next_second_none {X r : Bytes} {nl : Nat} (h1 : decode X = some (nl, r))
    (h2 : decode r = none) : NV.next X = none := by
  simp [NV.next, h1, h2]

theorem hdr_short2 {X : Bytes} {b0 bx : UInt8} (h0 : X[0]? = some b0)
    (hx : X[head1 b0 - 1]? = some bx) (hl : X.length < head2 b0 bx) : NV.next X = none := by
  by_cases hb : b0.toNat < 128
  · rw [head1_lt hb] at hx
    rcases X with _ | ⟨a0, _ | ⟨a1, t⟩⟩
    · simp at h0
    · simp at hx
    · simp at h0 hx; subst h0; subst hx
      by_cases hb1 : a1.toNat < 128
      · rw [head2_lt hb1, head1_lt hb] at hl; simp at hl; omega
      · rw [head2_ge (by omega), head1_lt hb] at hl
        have h2 : decode (a1 :: t) = none := by
          rw [C15.decode_none_iff]; exact Or.inr ⟨a1, t, rfl, by omega, by simp at hl; omega⟩
        exact next_second_none (by simp [decode, hb]; rfl) h2
  · rw [head1_ge (by omega)] at hx
    rcases X with _ | ⟨a0, _ | ⟨a1, _ | ⟨a2, _ | ⟨a3, _ | ⟨a4, t⟩⟩⟩⟩⟩ <;> try (simp at hx; done)
    · simp at h0 hx; subst h0; subst hx
      by_cases hb1 : a4.toNat < 128
      · rw [head2_lt hb1, head1_ge (by omega)] at hl; simp at hl; omega
      · rw [head2_ge (by omega), head1_ge (by omega)] at hl
        have h2 : decode (a4 :: t) = none := by
          rw [C15.decode_none_iff]; exact Or.inr ⟨a4, t, rfl, by omega, by simp at hl; omega⟩
        exact next_second_none (C15.decode_any_four a0 a1 a2 a3 _ (by omega)) h2

/-- Once `head2` bytes are present both length prefixes decode, consuming exactly those bytes,
whatever follows. -/
theorem hdr_full {X : Bytes} {b0 bx : UInt8} (h0 : X[0]? = some b0)
    (hx : X[head1 b0 - 1]? = some bx) (hl : head2 b0 bx ≤ X.length) :
    ∃ nl vl, ∀ Z, ∃ c1, decode (X.take (head2 b0 bx) ++ Z) = some (nl, c1) ∧
      decode c1 = some (vl, Z) := by
  by_cases hb : b0.toNat < 128
  · rw [head1_lt hb] at hx
    rcases X with _ | ⟨a0, _ | ⟨a1, t⟩⟩
    · simp at h0
    · simp at hx
    · simp at h0 hx; subst h0; subst hx
      by_cases hb1 : a1.toNat < 128
      · rw [head2_lt hb1, head1_lt hb]
        exact ⟨a0.toNat, a1.toNat, fun Z => ⟨a1 :: Z, by simp [decode, hb], by simp [decode, hb1]⟩⟩
      · rw [head2_ge (by omega), head1_lt hb] at hl ⊢
        rcases t with _ | ⟨a2, _ | ⟨a3, _ | ⟨a4, t⟩⟩⟩ <;> try (simp at hl <;> omega)
        exact ⟨a0.toNat, _, fun Z => ⟨a1 :: a2 :: a3 :: a4 :: Z, by simp [decode, hb],
          C15.decode_any_four a1 a2 a3 a4 Z (by omega)⟩⟩
  · rw [head1_ge (by omega)] at hx
    rcases X with _ | ⟨a0, _ | ⟨a1, _ | ⟨a2, _ | ⟨a3, _ | ⟨a4, t⟩⟩⟩⟩⟩ <;> try (simp at hx; done)
    · simp at h0 hx; subst h0; subst hx
      by_cases hb1 : a4.toNat < 128
      · rw [head2_lt hb1, head1_ge (by omega)]
        exact ⟨_, a4.toNat, fun Z => ⟨a4 :: Z, C15.decode_any_four a0 a1 a2 a3 _ (by omega),
          by simp [decode, hb1]⟩⟩
      · rw [head2_ge (by omega), head1_ge (by omega)] at hl ⊢
        rcases t with _ | ⟨a5, _ | ⟨a6, _ | ⟨a7, t⟩⟩⟩ <;> try (simp at hl <;> omega)
        exact ⟨_, _, fun Z => ⟨a4 :: a5 :: a6 :: a7 :: Z,
          C15.decode_any_four a0 a1 a2 a3 _ (by omega),
          C15.decode_any_four a4 a5 a6 a7 Z (by omega)⟩⟩

/-! ## 3. `parse_buffered` cut into its phases

The definitions below are the consecutive blocks of `parseBuffered`, verbatim; `parseBuffered_unfold`
shows (by `rfl`) that the model is their composition, so each early-return branch gets its own lemma. -/

/-- Block 4: name and value extraction (after the "enough data" test). -/
def pbExtract (i : Inner) (bf2 d2 : Bytes) (hl nameLen valLen bodyBuffered : Nat) (recEnd : Bool) : PB :=
  let valStart := hl + nameLen
  let nameRes : Option (Bytes × Bytes × Bytes) :=
    if bodyBuffered == 0 then
      if nameLen ≤ d2.length then some (d2.take nameLen, bf2, d2.drop nameLen) else none
    else
      match tryFill bf2 d2 valStart recEnd with
      | .ret _ _ => none
      | .filled bf3 d3 =>
        if valStart ≤ bf3.length then some ((bf3.drop hl).take nameLen, bf3, d3) else none
  match nameRes with
  | none => .panic "request.rs:269/275 name slice out of bounds"
  | some (name, bf3, d3) =>
    let key := makeCgivar name
    let val0 : Bytes := if valStart < bf3.length then bf3.drop valStart else []
    if val0.length < valLen then
      let missing := valLen - val0.length
      if missing ≤ d3.length then
        .ok { req := { i.req with env := envInsert i.req.env key (val0 ++ d3.take missing) }, buffer := [] }
            (d3.drop missing)
      else .panic "request.rs:291 value split out of bounds"
    else
      .ok { req := { i.req with env := envInsert i.req.env key val0 }, buffer := [] } d3

/-- Block 3: decode both lengths from the buffer, "enough data" test. -/
def pbDecoded (i : Inner) (bf2 d2 : Bytes) (headLen2 : Nat) (recEnd : Bool) : PB :=
  match VarInt.decode bf2 with
  | none => .panic "request.rs:239 both VarInts should be in the buffer"
  | some (nameLen, c1) =>
    match VarInt.decode c1 with
    | none => .panic "request.rs:241 both VarInts should be in the buffer"
    | some (valLen, cur) =>
      let bodyBuffered := cur.length
      if headLen2 ≠ bf2.length - bodyBuffered then .panic "request.rs:244 head_len mismatch"
      else
        let hl := bf2.length - bodyBuffered
        let bodyLen := nameLen + valLen
        if bodyBuffered + d2.length < bodyLen then
          if recEnd then .ok { i with buffer := bf2 ++ d2 } []
          else .ok { i with buffer := bf2 } d2
        else pbExtract i bf2 d2 hl nameLen valLen bodyBuffered recEnd

/-- Block 2: second look at the header, second `try_fill!`. -/
def pbHead2 (i : Inner) (bf1 d1 : Bytes) (headLen : Nat) (recEnd : Bool) : PB :=
  match bf1[headLen - 1]? with
  | none => .panic "request.rs:234 buffer[head_len - 1]"
  | some bx =>
    let headLen2 := headLen + (bx.toNat / 128) * 3
    match tryFill bf1 d1 headLen2 recEnd with
    | .ret bf d => .ok { i with buffer := bf } d
    | .filled bf2 d2 => pbDecoded i bf2 d2 headLen2 recEnd

theorem parseBuffered_unfold (i : Inner) (data : Bytes) (recEnd : Bool) :
    parseBuffered i data recEnd =
      match i.buffer with
      | [] => .panic "request.rs:232 buffer[0] on empty buffer"
      | b0 :: _ =>
        match tryFill i.buffer data (head1 b0) recEnd with
        | .ret bf d => .ok { i with buffer := bf } d
        | .filled bf1 d1 => pbHead2 i bf1 d1 (head1 b0) recEnd := by
  unfold parseBuffered
  rfl

/-- Block 4 on the cursor view: with the header of length `h2` (announcing `nl`, `vl`) inside the
buffer `X.take n2`, the buffer not beyond the end of the pair and the whole pair present in `X`,
the name and value extracted are the slices of `X`, and what is handed back is what follows. -/
theorem pbExtract_cursor (i : Inner) (X : Bytes) (h2 nl vl n2 : Nat) (e : Bool)
    (hh : h2 ≤ n2) (hn : n2 ≤ h2 + nl + vl) (hX : h2 + nl + vl ≤ X.length) :
    pbExtract i (X.take n2) (X.drop n2) h2 nl vl (n2 - h2) e =
      .ok { req := { i.req with env := envInsert i.req.env (makeCgivar ((X.drop h2).take nl))
                                          ((X.drop (h2 + nl)).take vl) }, buffer := [] }
          (X.drop (h2 + nl + vl)) := by
  unfold pbExtract
  by_cases hb : n2 = h2
  · subst hb
    have l1 : nl ≤ (X.drop n2).length := by simp only [List.length_drop]; omega
    have l2 : ¬ (n2 + nl < (X.take n2).length) := by simp only [List.length_take]; omega
    simp only [Nat.sub_self, beq_self_eq_true, if_true, l1, l2, if_false, List.length_nil,
      List.drop_drop, List.nil_append, Nat.sub_zero]
    by_cases hv : 0 < vl
    · have l3 : vl ≤ (X.drop (n2 + nl)).length := by simp only [List.length_drop]; omega
      simp only [hv, l3, if_true]
    · have : vl = 0 := by omega
      subst this
      simp
  · have hb' : (n2 - h2 == 0) = false := by simp; omega
    have hn2 : n2 ≤ X.length := by omega
    have hlen : h2 + nl ≤ X.length := by omega
    simp only [hb', Bool.false_eq_true, if_false, tryFill_cursor X n2 (h2 + nl) e hn2, hlen, if_true]
    generalize hn3 : max n2 (h2 + nl) = n3
    have b1 : n2 ≤ n3 := by omega
    have b2 : h2 + nl ≤ n3 := by omega
    have b3 : n3 ≤ h2 + nl + vl := by omega
    have l1 : h2 + nl ≤ (X.take n3).length := by simp only [List.length_take]; omega
    have ename : ((X.take n3).drop h2).take nl = (X.drop h2).take nl := by
      rw [List.drop_take, List.take_take, Nat.min_eq_left (by omega)]
    have eval : (if h2 + nl < (X.take n3).length then (X.take n3).drop (h2 + nl) else [])
        = (X.drop (h2 + nl)).take (n3 - (h2 + nl)) := by
      rw [List.drop_take]
      split
      · rfl
      · rename_i hlt
        simp only [List.length_take] at hlt
        have : n3 - (h2 + nl) = 0 := by omega
        rw [this]; rfl
    simp only [l1, if_true, ename, eval]
    have lv : ((X.drop (h2 + nl)).take (n3 - (h2 + nl))).length = n3 - (h2 + nl) := by
      simp only [List.length_take, List.length_drop]; omega
    simp only [lv]
    by_cases hv : n3 - (h2 + nl) < vl
    · have l3 : vl - (n3 - (h2 + nl)) ≤ (X.drop n3).length := by
        simp only [List.length_drop]; omega
      have e1 : X.drop n3 = (X.drop (h2 + nl)).drop (n3 - (h2 + nl)) := by
        rw [List.drop_drop]; congr 1; omega
      have e2 : (X.drop (h2 + nl)).take (n3 - (h2 + nl)) ++ (X.drop n3).take (vl - (n3 - (h2 + nl)))
          = (X.drop (h2 + nl)).take vl := by
        rw [e1, take_add_drop]; congr 1; omega
      have e3 : (X.drop n3).drop (vl - (n3 - (h2 + nl))) = X.drop (h2 + nl + vl) := by
        rw [List.drop_drop]; congr 1; omega
      simp only [hv, l3, if_true, e2, e3]
    · have : n3 = h2 + nl + vl := by omega
      have e1 : n3 - (h2 + nl) = vl := by omega
      subst this
      simp only [e1, Nat.lt_irrefl, if_false]

/-- `X` carries a complete length header of `h2` bytes announcing name length `nl` and value
length `vl` (and this stays so whatever follows the header). -/
def HasHeader (X : Bytes) (h2 nl vl : Nat) : Prop :=
  h2 ≤ X.length ∧ ∀ Z, ∃ c1, decode (X.take h2 ++ Z) = some (nl, c1) ∧ decode c1 = some (vl, Z)

theorem HasHeader.next_append {X : Bytes} {h2 nl vl : Nat} (h : HasHeader X h2 nl vl) (Z : Bytes) :
    NV.next (X.take h2 ++ Z) =
      if nl + vl ≤ Z.length then some ((Z.take nl, (Z.drop nl).take vl), Z.drop (nl + vl))
      else none := by
  obtain ⟨c1, d1, d2⟩ := h.2 Z
  simp [NV.next, d1, d2]

theorem HasHeader.next {X : Bytes} {h2 nl vl : Nat} (h : HasHeader X h2 nl vl) :
    NV.next X =
      if h2 + nl + vl ≤ X.length then
        some (((X.drop h2).take nl, (X.drop (h2 + nl)).take vl), X.drop (h2 + nl + vl))
      else none := by
  have := h.next_append (X.drop h2)
  rw [List.take_append_drop] at this
  rw [this]
  have h1 := h.1
  simp only [List.length_drop, List.drop_drop, Nat.add_assoc]
  by_cases c : h2 + (nl + vl) ≤ X.length
  · rw [if_pos c, if_pos (by omega)]
  · rw [if_neg c, if_neg (by omega)]

/-- The header is a property of the first `h2` bytes only. -/
theorem HasHeader.take {X : Bytes} {h2 nl vl : Nat} (h : HasHeader X h2 nl vl) (n : Nat)
    (hn : h2 ≤ n) : HasHeader (X.take n) h2 nl vl := by
  refine ⟨by simp only [List.length_take]; have := h.1; omega, ?_⟩
  rw [List.take_take, Nat.min_eq_left hn]
  exact h.2

/-- Block 3 on the cursor view. -/
theorem pbDecoded_cursor (i : Inner) (X : Bytes) (h2 nl vl n2 : Nat) (e : Bool)
    (hdr : HasHeader X h2 nl vl) (hh : h2 ≤ n2) (hn : n2 ≤ X.length)
    (hpre : n2 ≤ h2 + nl + vl) :
    pbDecoded i (X.take n2) (X.drop n2) h2 e =
      if h2 + nl + vl ≤ X.length then
        .ok { req := { i.req with env := envInsert i.req.env (makeCgivar ((X.drop h2).take nl))
                                          ((X.drop (h2 + nl)).take vl) }, buffer := [] }
          (X.drop (h2 + nl + vl))
      else if e then .ok { i with buffer := X } []
      else .ok { i with buffer := X.take n2 } (X.drop n2) := by
  obtain ⟨c1, d1, d2⟩ := hdr.2 ((X.take n2).drop h2)
  have esplit : X.take h2 ++ (X.take n2).drop h2 = X.take n2 := by
    have := List.take_append_drop h2 (X.take n2)
    rwa [List.take_take, Nat.min_eq_left hh] at this
  rw [esplit] at d1
  have lz : ((X.take n2).drop h2).length = n2 - h2 := by
    simp only [List.length_drop, List.length_take]; omega
  have lb : (X.take n2).length = n2 := by simp only [List.length_take]; omega
  have e1 : n2 - (n2 - h2) = h2 := by omega
  unfold pbDecoded
  simp only [d1, d2, lz, lb, e1, ne_eq, not_true_eq_false, if_false, List.length_drop]
  by_cases c : h2 + nl + vl ≤ X.length
  · rw [if_neg (by omega), if_pos c]
    exact pbExtract_cursor i X h2 nl vl n2 e hh hpre c
  · rw [if_pos (by omega), if_neg c, List.take_append_drop]

/-! ## 4. `parse_buffered` computed exactly -/

/-- What `parse_buffered` does, as a function of all bytes seen `X = buffer ++ data` and the cursor
`n = buffer.len()`: if `X` starts with a complete pair, that pair is inserted, the buffer cleared
and what follows the pair handed back; otherwise everything is buffered at a record end, and
without a record end only the knowable part of the length header is moved. -/
def pbSpec (i : Inner) (X : Bytes) (n : Nat) (e : Bool) : PB :=
  match NV.next X with
  | some (p, r) =>
    .ok { req := { i.req with env := envInsert i.req.env (makeCgivar p.1) p.2 }, buffer := [] } r
  | none =>
    if e then .ok { i with buffer := X } []
    else .ok { i with buffer := X.take (max n (headNeed X)) } (X.drop (max n (headNeed X)))

theorem parseBuffered_cons (i : Inner) (data : Bytes) (e : Bool) (b0 : UInt8) (t : Bytes)
    (h : i.buffer = b0 :: t) :
    parseBuffered i data e =
      match tryFill i.buffer data (head1 b0) e with
      | .ret bf d => .ok { i with buffer := bf } d
      | .filled bf1 d1 => pbHead2 i bf1 d1 (head1 b0) e := by
  rw [parseBuffered_unfold, h]

theorem headNeed_short1 {X : Bytes} {b0 : UInt8} (h0 : X[0]? = some b0) (hl : X.length < head1 b0) :
    headNeed X = 0 := by
  simp [headNeed, h0, hl]

theorem headNeed_short2 {X : Bytes} {b0 bx : UInt8} (h0 : X[0]? = some b0)
    (hx : X[head1 b0 - 1]? = some bx) (hl1 : head1 b0 ≤ X.length) (hl : X.length < head2 b0 bx) :
    headNeed X = head1 b0 := by
  simp [headNeed, h0, hx, hl, Nat.not_lt.mpr hl1]

theorem headNeed_full {X : Bytes} {b0 bx : UInt8} (h0 : X[0]? = some b0)
    (hx : X[head1 b0 - 1]? = some bx) (hl : head2 b0 bx ≤ X.length) :
    headNeed X = head2 b0 bx := by
  have := head1_le_head2 b0 bx
  simp [headNeed, h0, hx, Nat.not_lt.mpr hl, Nat.not_lt.mpr (Nat.le_trans this hl)]

/-- **`parse_buffered`, exactly.**  Cursor form: the buffer is `X.take n`, the data `X.drop n`. -/
theorem parseBuffered_cursor (i : Inner) (X : Bytes) (n : Nat) (e : Bool) (hn0 : 0 < n)
    (hn : n ≤ X.length) (hb : i.buffer = X.take n) (hnone : NV.next (X.take n) = none) :
    parseBuffered i (X.drop n) e = pbSpec i X n e := by
  obtain ⟨a0, t, rfl⟩ : ∃ a0 t, X = a0 :: t := by
    cases X with
    | nil => simp at hn; omega
    | cons a0 t => exact ⟨a0, t, rfl⟩
  generalize hX : a0 :: t = X at *
  have h0 : X[0]? = some a0 := by subst hX; rfl
  have hb' : i.buffer = a0 :: t.take (n - 1) := by
    rw [hb, ← hX]
    obtain ⟨m, rfl⟩ : ∃ m, n = m + 1 := ⟨n - 1, by omega⟩
    rfl
  rw [parseBuffered_cons i _ e a0 _ hb', hb, tryFill_cursor X n (head1 a0) e hn]
  by_cases c1 : head1 a0 ≤ X.length
  · rw [if_pos c1]
    generalize hn1 : max n (head1 a0) = n1
    have hn1l : n1 ≤ X.length := by omega
    have hp := head1_pos a0
    obtain ⟨bx, hx⟩ : ∃ bx, X[head1 a0 - 1]? = some bx :=
      ⟨X[head1 a0 - 1]'(by omega), List.getElem?_eq_getElem (by omega)⟩
    have hx' : (X.take n1)[head1 a0 - 1]? = some bx := by
      rw [List.getElem?_take, if_pos (by omega), hx]
    have e2 : head1 a0 + bx.toNat / 128 * 3 = head2 a0 bx := rfl
    simp only [pbHead2, hx', e2]
    rw [tryFill_cursor X n1 (head2 a0 bx) e hn1l]
    have h12 := head1_le_head2 a0 bx
    by_cases c2 : head2 a0 bx ≤ X.length
    · rw [if_pos c2]
      obtain ⟨nl, vl, hd⟩ := hdr_full h0 hx c2
      have hdr : HasHeader X (head2 a0 bx) nl vl := ⟨c2, hd⟩
      generalize hn2 : max n1 (head2 a0 bx) = n2
      have hpre : n2 ≤ head2 a0 bx + nl + vl := by
        by_cases c : n ≤ head2 a0 bx
        · omega
        · have := (hdr.take n (by omega)).next
          rw [hnone] at this
          simp only [List.length_take] at this
          split at this
          · cases this
          · omega
      simp only []
      rw [pbDecoded_cursor i X _ nl vl n2 e hdr (by omega) (by omega) hpre]
      simp only [pbSpec, hdr.next, headNeed_full h0 hx c2]
      have : max n (head2 a0 bx) = n2 := by omega
      rw [this]
      by_cases c3 : head2 a0 bx + nl + vl ≤ X.length
      · simp only [c3, if_true]
      · simp only [c3, if_false]
    · rw [if_neg c2]
      have hnx := hdr_short2 h0 hx (by omega)
      simp only [pbSpec, hnx, headNeed_short2 h0 hx c1 (by omega), hn1]
      cases e <;> rfl
  · rw [if_neg c1]
    have hnx := hdr_short1_ps h0 (by omega)
    simp only [pbSpec, hnx, headNeed_short1 h0 (by omega), Nat.max_zero]
    cases e <;> rfl

/-- Buffer/data form. -/
theorem parseBuffered_eq (i : Inner) (data : Bytes) (e : Bool) (hne : i.buffer ≠ [])
    (hnone : NV.next i.buffer = none) :
    parseBuffered i data e = pbSpec i (i.buffer ++ data) i.buffer.length e := by
  have h := parseBuffered_cursor i (i.buffer ++ data) i.buffer.length e
    (List.length_pos_iff.mpr hne) (by simp) (by simp) (by simpa using hnone)
  simpa using h

/-! ## 5. Facts about `NV.next` needed to read `pbSpec` -/

theorem decode_replace {bs r : Bytes} {v : Nat} (h : decode bs = some (v, r)) :
    ∃ hd, bs = hd ++ r ∧ ∀ x, decode (hd ++ x) = some (v, x) := by
  obtain ⟨_, h' | h'⟩ := C15.decode_some bs r v h
  · obtain ⟨b0, rfl, hb, rfl⟩ := h'
    exact ⟨[b0], rfl, fun x => by simp [decode, hb]⟩
  · obtain ⟨b0, b1, b2, b3, rfl, hb, rfl⟩ := h'
    exact ⟨[b0, b1, b2, b3], rfl, fun x => C15.decode_any_four b0 b1 b2 b3 x hb⟩

/-- A yielded pair is determined by a prefix of the input which, alone, is exactly that pair. -/
theorem next_pre {W r : Bytes} {p : Bytes × Bytes} (h : NV.next W = some (p, r)) :
    ∃ pre, W = pre ++ r ∧ NV.next pre = some (p, []) := by
  obtain ⟨n, v⟩ := p
  obtain ⟨nl, r1, vl, r2, h1, h2, hle, rfl, rfl, rfl⟩ := NV.next_some h
  obtain ⟨hd1, rfl, k1⟩ := decode_replace h1
  obtain ⟨hd2, rfl, k2⟩ := decode_replace h2
  refine ⟨hd1 ++ (hd2 ++ r2.take (nl + vl)), ?_, ?_⟩
  · simp only [List.append_assoc, List.take_append_drop]
  · have hl : nl + vl ≤ (r2.take (nl + vl)).length := by simp only [List.length_take]; omega
    rw [NV.next_of (k1 _) (k2 _) hl]
    have e1 : (r2.take (nl + vl)).take nl = r2.take nl := by
      rw [List.take_take, Nat.min_eq_left (by omega)]
    have e2 : ((r2.take (nl + vl)).drop nl).take vl = (r2.drop nl).take vl := by
      rw [List.drop_take, List.take_take, Nat.min_eq_left (by omega)]
    have e3 : (r2.take (nl + vl)).drop (nl + vl) = [] := by
      rw [List.drop_take, Nat.sub_self]; rfl
    rw [e1, e2, e3]

theorem next_none_of_append {a b : Bytes} (h : NV.next (a ++ b) = none) : NV.next a = none := by
  cases ha : NV.next a with
  | none => rfl
  | some x =>
    obtain ⟨p, r⟩ := x
    rw [C16.next_append b ha] at h; cases h

/-- If the buffer alone is not a complete pair but buffer ++ data starts with one, the pair ends
strictly inside the data. -/
theorem next_completes {B D r : Bytes} {p : Bytes × Bytes} (hB : NV.next B = none)
    (h : NV.next (B ++ D) = some (p, r)) :
    ∃ k, 0 < k ∧ k ≤ D.length ∧ r = D.drop k ∧ NV.next (B ++ D.take k) = some (p, []) := by
  obtain ⟨pre, hW, hp⟩ := next_pre h
  have hlen : B.length + D.length = pre.length + r.length := by
    have := congrArg List.length hW; simpa using this
  have e1 : pre = (B ++ D).take pre.length := by rw [hW]; simp
  have e2 : r = (B ++ D).drop pre.length := by rw [hW]; simp
  by_cases c : pre.length ≤ B.length
  · exfalso
    rw [List.take_append_of_le_length c] at e1
    have : B = pre ++ B.drop pre.length := by
      conv => lhs; rw [← List.take_append_drop pre.length B]
      rw [← e1]
    rw [this, C16.next_append _ hp] at hB
    cases hB
  · refine ⟨pre.length - B.length, by omega, by omega, ?_, ?_⟩
    · rw [e2, List.drop_append, List.drop_of_length_le (by omega)]; rfl
    · rw [List.take_append, List.take_of_length_le (by omega)] at e1
      rw [← e1]; exact hp

/-! ## 6. `headNeed` -/

theorem headNeed_le (X : Bytes) : headNeed X ≤ X.length := by
  unfold headNeed
  split
  · omega
  · split
    · omega
    · split
      · omega
      · split <;> omega

theorem getElem?_append_some {X b : Bytes} {k : Nat} {x : UInt8} (h : X[k]? = some x) :
    (X ++ b)[k]? = some x := by
  have hk : k < X.length := by
    rcases Nat.lt_or_ge k X.length with c | c
    · exact c
    · rw [List.getElem?_eq_none c] at h; cases h
  rw [List.getElem?_append_left hk, h]

/-- More bytes never lower the knowable header length. -/
theorem headNeed_mono (X b : Bytes) : headNeed X ≤ headNeed (X ++ b) := by
  cases h0 : X[0]? with
  | none => simp [headNeed, h0]
  | some b0 =>
    have h0' := getElem?_append_some (b := b) h0
    by_cases c1 : X.length < head1 b0
    · rw [headNeed_short1 h0 c1]; omega
    · have hp := head1_pos b0
      obtain ⟨bx, hx⟩ : ∃ bx, X[head1 b0 - 1]? = some bx :=
        ⟨X[head1 b0 - 1]'(by omega), List.getElem?_eq_getElem (by omega)⟩
      have hx' := getElem?_append_some (b := b) hx
      have h12 := head1_le_head2 b0 bx
      have hlen : (X ++ b).length = X.length + b.length := by simp
      by_cases c2 : X.length < head2 b0 bx
      · rw [headNeed_short2 h0 hx (by omega) c2]
        by_cases c3 : (X ++ b).length < head2 b0 bx
        · rw [headNeed_short2 h0' hx' (by omega) c3]; omega
        · rw [headNeed_full h0' hx' (by omega)]; omega
      · rw [headNeed_full h0 hx (by omega), headNeed_full h0' hx' (by omega)]; omega

/-! ## 7. Item 2: the specification of `parse_buffered` -/

/-- **`parse_buffered` specification.**  Started with a non-empty buffer that is not yet a complete
pair, a successful return consumed a prefix `m = data.take k` of the data, and

* either the pair was completed: `buffer ++ m` is *exactly* one pair `p` (nothing left over),
  which is also the first pair of `buffer ++ data`; it was inserted, the buffer cleared, `k > 0`;
* or it is still incomplete: `buffer ++ m` is not a complete pair and — maximality — not even
  `buffer ++ data` (all available data) is; the moved bytes were appended to the buffer, the
  environment is untouched, and at a record end everything was moved.

`id`, `role`, `flags` never change. -/
theorem parseBuffered_spec (i i' : Inner) (data rest : Bytes) (e : Bool) (hne : i.buffer ≠ [])
    (hnone : NV.next i.buffer = none) (h : parseBuffered i data e = .ok i' rest) :
    ∃ k, k ≤ data.length ∧ rest = data.drop k ∧
      i'.req.id = i.req.id ∧ i'.req.role = i.req.role ∧ i'.req.flags = i.req.flags ∧
      ((∃ p, NV.next (i.buffer ++ data.take k) = some (p, []) ∧
             NV.next (i.buffer ++ data) = some (p, rest) ∧ 0 < k ∧
             i'.buffer = [] ∧ i'.req.env = envInsert i.req.env (makeCgivar p.1) p.2) ∨
       (NV.next (i.buffer ++ data.take k) = none ∧ NV.next (i.buffer ++ data) = none ∧
          i'.buffer = i.buffer ++ data.take k ∧ i'.req.env = i.req.env ∧
          (e = true → k = data.length))) := by
  rw [parseBuffered_eq i data e hne hnone] at h
  unfold pbSpec at h
  rcases Option.eq_none_or_eq_some (NV.next (i.buffer ++ data)) with hx | ⟨⟨p, r⟩, hx⟩
  · simp only [hx] at h
    cases e with
    | true =>
      simp only [if_true] at h
      cases h
      refine ⟨data.length, Nat.le_refl _, by simp, rfl, rfl, rfl, Or.inr ?_⟩
      rw [List.take_length]
      exact ⟨hx, hx, rfl, rfl, fun _ => rfl⟩
    | false =>
      simp only [Bool.false_eq_true, if_false] at h
      cases h
      generalize ht : max i.buffer.length (headNeed (i.buffer ++ data)) = t
      have hle := headNeed_le (i.buffer ++ data)
      simp only [List.length_append] at hle
      have e1 : (i.buffer ++ data).take t = i.buffer ++ data.take (t - i.buffer.length) := by
        rw [List.take_append, List.take_of_length_le (by omega)]
      have e2 : (i.buffer ++ data).drop t = data.drop (t - i.buffer.length) := by
        rw [List.drop_append, List.drop_of_length_le (by omega)]; rfl
      refine ⟨t - i.buffer.length, by omega, e2, rfl, rfl, rfl, Or.inr ⟨?_, hx, e1, rfl, ?_⟩⟩
      · rw [← e1]
        apply next_none_of_append (b := (i.buffer ++ data).drop t)
        rw [List.take_append_drop]; exact hx
      · intro hc; cases hc
  · simp only [hx] at h
    cases h
    obtain ⟨k, k0, kl, rfl, hk⟩ := next_completes hnone hx
    exact ⟨k, kl, rfl, rfl, rfl, rfl, Or.inl ⟨p, hk, hx, k0, rfl, rfl⟩⟩

/-- **`parse_buffered` never panics** under its calling precondition. -/
theorem parseBuffered_no_panic (i : Inner) (data : Bytes) (e : Bool) (hne : i.buffer ≠ [])
    (hnone : NV.next i.buffer = none) : ∀ s, parseBuffered i data e ≠ .panic s := by
  intro s
  rw [parseBuffered_eq i data e hne hnone]
  unfold pbSpec
  split
  · intro h; cases h
  · split <;> (intro h; cases h)

/-! ## 8. `parse_stream` computed exactly -/

theorem envExtend_nil (env : List (Bytes × Bytes)) : envExtend env [] = env := rfl

theorem envExtend_cons (env : List (Bytes × Bytes)) (p : Bytes × Bytes) (ps : List (Bytes × Bytes)) :
    envExtend env (p :: ps) = envExtend (envInsert env (makeCgivar p.1) p.2) ps := rfl

theorem envExtend_append (env : List (Bytes × Bytes)) (xs ys : List (Bytes × Bytes)) :
    envExtend env (xs ++ ys) = envExtend (envExtend env xs) ys := by
  simp [envExtend, List.foldl_append]

/-- The `NVIter` part of `parse_stream` (the closure `cont` of the model, verbatim). -/
def psCont (len : Nat) (recEnd : Bool) (i : Inner) (data : Bytes) : PS :=
  let (pairs, rest) := NV.all data
  let i' := { i with req := { i.req with env := envExtend i.req.env pairs } }
  if recEnd && !rest.isEmpty then .ok { i' with buffer := i'.buffer ++ rest } len
  else .ok i' (len - rest.length)

theorem parseStream_unfold (i : Inner) (data : Bytes) (e : Bool) :
    parseStream i data e =
      if !i.buffer.isEmpty then
        match parseBuffered i data e with
        | .panic s => .panic s
        | .ok i1 d1 =>
          if !i1.buffer.isEmpty then .ok i1 (data.length - d1.length)
          else psCont data.length e i1 d1
      else psCont data.length e i data := by
  unfold parseStream; rfl

theorem psCont_eq (len : Nat) (e : Bool) (i : Inner) (d : Bytes) :
    psCont len e i d =
      if e then .ok { req := { i.req with env := envExtend i.req.env (NV.all d).1 },
                      buffer := i.buffer ++ (NV.all d).2 } len
      else .ok { req := { i.req with env := envExtend i.req.env (NV.all d).1 },
                 buffer := i.buffer } (len - (NV.all d).2.length) := by
  unfold psCont
  cases e with
  | false => simp
  | true =>
    cases hr : (NV.all d).2 with
    | nil => simp [hr]
    | cons a t => simp [hr]

/-- Cursor position after a `parse_stream` call that could not complete a pair and is not at a
record end: nothing moves if the buffer was empty (the data is simply left unconsumed), otherwise
the knowable part of the header is moved. -/
def stall (n : Nat) (W : Bytes) : Nat := if n = 0 then 0 else max n (headNeed W)

/-- What `parse_stream` does, as a function of `W = buffer ++ data`. -/
def psSpec (i : Inner) (data : Bytes) (e : Bool) : PS :=
  if e then
    .ok { req := { i.req with env := envExtend i.req.env (NV.all (i.buffer ++ data)).1 },
          buffer := (NV.all (i.buffer ++ data)).2 } data.length
  else if NV.next (i.buffer ++ data) = none then
    .ok { i with buffer := (i.buffer ++ data).take (stall i.buffer.length (i.buffer ++ data)) }
        (stall i.buffer.length (i.buffer ++ data) - i.buffer.length)
  else
    .ok { req := { i.req with env := envExtend i.req.env (NV.all (i.buffer ++ data)).1 },
          buffer := [] } (data.length - (NV.all (i.buffer ++ data)).2.length)

/-- **`parse_stream`, exactly**, whenever the side buffer is not a complete pair. -/
theorem parseStream_eq (i : Inner) (data : Bytes) (e : Bool) (hnone : NV.next i.buffer = none) :
    parseStream i data e = psSpec i data e := by
  rw [parseStream_unfold]
  by_cases hb : i.buffer = []
  · obtain ⟨req, buffer⟩ := i
    simp only at hb; subst hb
    simp only [List.isEmpty_nil, Bool.not_true, Bool.false_eq_true, if_false, psCont_eq, psSpec,
      List.nil_append, List.length_nil, stall, if_true, List.take_zero, Nat.sub_self]
    cases e with
    | true => rfl
    | false =>
      simp only [Bool.false_eq_true, if_false]
      by_cases hx : NV.next data = none
      · rw [if_pos hx, C16.all_none hx]; simp [envExtend_nil]
      · rw [if_neg hx]
  · have hbe : i.buffer.isEmpty = false := by
      cases hbb : i.buffer with
      | nil => exact absurd hbb hb
      | cons a t => rfl
    have hpos : 0 < i.buffer.length := List.length_pos_iff.mpr hb
    simp only [hbe, Bool.not_false, if_true, parseBuffered_eq i data e hb hnone, pbSpec]
    rcases Option.eq_none_or_eq_some (NV.next (i.buffer ++ data)) with hx | ⟨⟨p, r⟩, hx⟩
    · simp only [hx, psSpec, if_true, C16.all_none hx, envExtend_nil]
      cases e with
      | true =>
        have hne : (i.buffer ++ data).isEmpty = false := by
          cases hbb : i.buffer with
          | nil => exact absurd hbb hb
          | cons a t => rfl
        simp [hne]
      | false =>
        simp only [Bool.false_eq_true, if_false, stall, Nat.ne_of_gt hpos]
        generalize ht : max i.buffer.length (headNeed (i.buffer ++ data)) = t
        have hle := headNeed_le (i.buffer ++ data)
        simp only [List.length_append] at hle
        have hne : ((i.buffer ++ data).take t).isEmpty = false := by
          have : 0 < ((i.buffer ++ data).take t).length := by
            simp only [List.length_take, List.length_append]; omega
          cases hbb : (i.buffer ++ data).take t with
          | nil => rw [hbb] at this; simp at this
          | cons a t => rfl
        simp only [hne, Bool.not_false, if_true, List.length_drop, List.length_append]
        congr 1; omega
    · simp only [hx, psSpec, if_false, C16.all_some hx, envExtend_cons, List.isEmpty_nil,
        Bool.not_true, Bool.false_eq_true, psCont_eq, List.nil_append, reduceCtorEq]

/-! ## 9. More on `NV.all` -/

theorem all_nil : NV.all [] = ([], []) := C16.all_none (by decide)

theorem all_rest_length_le (W : Bytes) : (NV.all W).2.length ≤ W.length := by
  obtain ⟨c, hc⟩ := C16.rest_suffix W
  have := congrArg List.length hc
  simp only [List.length_append] at this; omega

theorem all_rest_eq_drop (W : Bytes) : (NV.all W).2 = W.drop (W.length - (NV.all W).2.length) := by
  obtain ⟨c, hc⟩ := C16.rest_suffix W
  generalize (NV.all W).2 = t at hc ⊢
  subst hc
  rw [List.drop_left' (by simp)]

/-- The consumed part of the input (everything but the undecoded rest) decodes to the same pairs
and leaves nothing. -/
theorem all_take_consumed (W : Bytes) :
    NV.all (W.take (W.length - (NV.all W).2.length)) = ((NV.all W).1, []) := by
  induction W using C16.all_ind with
  | hnone W h => rw [C16.all_none h]; simp [all_nil]
  | hsome W p r h ih =>
    obtain ⟨pre, rfl, hp⟩ := next_pre h
    rw [C16.all_some h]
    have hle := all_rest_length_le r
    simp only at ih ⊢
    have e1 : (pre ++ r).take ((pre ++ r).length - (NV.all r).2.length)
        = pre ++ r.take (r.length - (NV.all r).2.length) := by
      rw [List.take_append, List.take_of_length_le (by simp only [List.length_append]; omega)]
      congr 2; simp only [List.length_append]; omega
    rw [e1]
    have := C16.next_append (r.take (r.length - (NV.all r).2.length)) hp
    rw [List.nil_append] at this
    rw [C16.all_some this, ih]

/-- When the side buffer is incomplete but `buffer ++ data` yields a pair, the undecoded rest lies
within the data. -/
theorem all_rest_within {B D : Bytes} (hB : NV.next B = none) (h : NV.next (B ++ D) ≠ none) :
    (NV.all (B ++ D)).2.length ≤ D.length := by
  rcases Option.eq_none_or_eq_some (NV.next (B ++ D)) with hx | ⟨⟨p, r⟩, hx⟩
  · exact absurd hx h
  · obtain ⟨k, _, kl, rfl, _⟩ := next_completes hB hx
    rw [C16.all_some hx]
    have := all_rest_length_le (D.drop k)
    simp only [List.length_drop] at this ⊢
    omega

theorem stall_bounds (B D : Bytes) :
    B.length ≤ stall B.length (B ++ D) ∧ stall B.length (B ++ D) ≤ (B ++ D).length := by
  unfold stall
  have := headNeed_le (B ++ D)
  simp only [List.length_append] at this ⊢
  split <;> omega

theorem take_append_ge (B D : Bytes) (s : Nat) (h : B.length ≤ s) :
    (B ++ D).take s = B ++ D.take (s - B.length) := by
  rw [List.take_append, List.take_of_length_le h]

theorem drop_append_ge (B D : Bytes) (s : Nat) (h : B.length ≤ s) :
    (B ++ D).drop s = D.drop (s - B.length) := by
  rw [List.drop_append, List.drop_of_length_le h]; rfl

/-! ## 10. Item 3: the invariant and the specification of `parse_stream` -/

/-- After the parser has consumed the Params payload bytes `C` (concatenated over all records so
far), the environment is the fold of the complete pairs of `C` over the initial environment, and
the side buffer is exactly the undecoded tail of `C`. -/
def ParamsInv (env0 : List (Bytes × Bytes)) (C : Bytes) (i : Inner) : Prop :=
  i.req.env = envExtend env0 (NV.all C).1 ∧ i.buffer = (NV.all C).2

/-- `id`, `role`, `flags` of the request under construction. -/
def SameReqHead (i i' : Inner) : Prop :=
  i'.req.id = i.req.id ∧ i'.req.role = i.req.role ∧ i'.req.flags = i.req.flags

theorem ParamsInv.next_buffer {env0 : List (Bytes × Bytes)} {C : Bytes} {i : Inner}
    (h : ParamsInv env0 C i) : NV.next i.buffer = none := by
  rw [h.2]; exact C16.stops_for_good C

theorem paramsInv_init (env0 : List (Bytes × Bytes)) (i : Inner) (he : i.req.env = env0)
    (hb : i.buffer = []) : ParamsInv env0 [] i := by
  simp [ParamsInv, all_nil, envExtend_nil, he, hb]

/-- Extending the consumed bytes: the invariant for `C ++ m` in terms of `buffer ++ m`. -/
theorem paramsInv_extend {env0 : List (Bytes × Bytes)} {C : Bytes} {i i' : Inner} (m : Bytes)
    (h : ParamsInv env0 C i)
    (he : i'.req.env = envExtend i.req.env (NV.all (i.buffer ++ m)).1)
    (hb : i'.buffer = (NV.all (i.buffer ++ m)).2) : ParamsInv env0 (C ++ m) i' := by
  unfold ParamsInv
  rw [C16.all_append C m, ← h.2]
  exact ⟨by rw [he, h.1, envExtend_append], hb⟩

/-- **`parse_stream` specification.**  From a state satisfying the invariant for `C`, a successful
call consumed `k ≤ data.len()` bytes and re-establishes the invariant for `C ++ data[..k]`; at a
record end everything is consumed; without a record end consumption is maximal: what stays
unconsumed, together with the side buffer, is not a complete pair. -/
theorem parseStream_spec (env0 : List (Bytes × Bytes)) (C : Bytes) (i i' : Inner) (data : Bytes)
    (e : Bool) (k : Nat) (hinv : ParamsInv env0 C i) (h : parseStream i data e = .ok i' k) :
    k ≤ data.length ∧ ParamsInv env0 (C ++ data.take k) i' ∧ SameReqHead i i' ∧
      (e = true → k = data.length) ∧
      (e = false → NV.next (i'.buffer ++ data.drop k) = none) := by
  have hnone := hinv.next_buffer
  rw [parseStream_eq i data e hnone] at h
  unfold psSpec at h
  cases e with
  | true =>
    simp only [if_true] at h
    cases h
    refine ⟨Nat.le_refl _, ?_, ⟨rfl, rfl, rfl⟩, fun _ => rfl, fun hc => by cases hc⟩
    rw [List.take_length]
    exact paramsInv_extend data hinv rfl rfl
  | false =>
    simp only [Bool.false_eq_true, if_false] at h
    by_cases hx : NV.next (i.buffer ++ data) = none
    · rw [if_pos hx] at h
      cases h
      obtain ⟨s1, s2⟩ := stall_bounds i.buffer data
      generalize stall i.buffer.length (i.buffer ++ data) = s at *
      simp only [List.length_append] at s2
      have e1 := take_append_ge i.buffer data s s1
      have e2 := drop_append_ge i.buffer data s s1
      have hx' : NV.next (i.buffer ++ data.take (s - i.buffer.length)) = none := by
        rw [← e1]
        apply next_none_of_append (b := (i.buffer ++ data).drop s)
        rw [List.take_append_drop]; exact hx
      refine ⟨by omega, ?_, ⟨rfl, rfl, rfl⟩, fun hc => (by cases hc), fun _ => ?_⟩
      · apply paramsInv_extend _ hinv
        · rw [C16.all_none hx']; rfl
        · rw [C16.all_none hx']; exact e1
      · simp only []
        rw [← e2, List.take_append_drop]; exact hx
    · rw [if_neg hx] at h
      cases h
      have hw := all_rest_within hnone hx
      have hw2 := all_rest_length_le (i.buffer ++ data)
      have hc := all_take_consumed (i.buffer ++ data)
      have e0 : (i.buffer ++ data).length - (NV.all (i.buffer ++ data)).2.length
          = i.buffer.length + (data.length - (NV.all (i.buffer ++ data)).2.length) := by
        simp only [List.length_append]; omega
      have e1 := take_append_ge i.buffer data
        (i.buffer.length + (data.length - (NV.all (i.buffer ++ data)).2.length)) (by omega)
      rw [e0, e1, Nat.add_sub_cancel_left] at hc
      refine ⟨by omega, ?_, ⟨rfl, rfl, rfl⟩, fun hc => (by cases hc), fun _ => ?_⟩
      · apply paramsInv_extend _ hinv
        · rw [hc]
        · rw [hc]
      · simp only [List.nil_append]
        have e2 := drop_append_ge i.buffer data
          (i.buffer.length + (data.length - (NV.all (i.buffer ++ data)).2.length)) (by omega)
        rw [Nat.add_sub_cancel_left] at e2
        rw [← e2, ← e0, ← all_rest_eq_drop]
        exact C16.stops_for_good _

/-- **`parse_stream` never panics** from a state satisfying the invariant. -/
theorem parseStream_no_panic (env0 : List (Bytes × Bytes)) (C : Bytes) (i : Inner) (data : Bytes)
    (e : Bool) (hinv : ParamsInv env0 C i) : ∀ s, parseStream i data e ≠ .panic s := by
  intro s
  rw [parseStream_eq i data e hinv.next_buffer]
  unfold psSpec
  split
  · intro h; cases h
  · split <;> (intro h; cases h)

/-- Hence every call from a good state succeeds. -/
theorem parseStream_ok_inv (env0 : List (Bytes × Bytes)) (C : Bytes) (i : Inner) (data : Bytes)
    (e : Bool) (hinv : ParamsInv env0 C i) : ∃ i' k, parseStream i data e = .ok i' k := by
  cases h : parseStream i data e with
  | ok i' k => exact ⟨i', k, rfl⟩
  | panic s => exact absurd h (parseStream_no_panic env0 C i data e hinv s)

/-! ## 11. Item 4: resumption (chunk invariance) -/

theorem suffix_drop {B a c t : Bytes} (h : B ++ a = c ++ t) (hl : t.length ≤ a.length) :
    a.drop (a.length - t.length) = t := by
  have hlen := congrArg List.length h
  simp only [List.length_append] at hlen
  have e2 := drop_append_ge B a (B.length + (a.length - t.length)) (by omega)
  rw [Nat.add_sub_cancel_left] at e2
  rw [← e2, h, List.drop_left' (by omega)]

theorem stall_resume (B a b : Bytes) :
    stall (stall B.length (B ++ a)) (B ++ a ++ b) = stall B.length (B ++ a ++ b) := by
  have hm := headNeed_mono (B ++ a) b
  unfold stall
  by_cases hB : B.length = 0
  · simp [hB]
  · have : max B.length (headNeed (B ++ a)) ≠ 0 := by omega
    simp only [hB, this, if_false]
    omega

/-- **Resumption.**  Feeding `a` (not at a record end) and then what was left of `a` followed by `b`
gives the same final state and the same total consumption as feeding `a ++ b` at once. -/
theorem parseStream_resume' (i i1 i2 : Inner) (a b : Bytes) (e : Bool) (k1 k2 : Nat)
    (hnone : NV.next i.buffer = none)
    (h1 : parseStream i a false = .ok i1 k1)
    (h2 : parseStream i1 (a.drop k1 ++ b) e = .ok i2 k2) :
    parseStream i (a ++ b) e = .ok i2 (k1 + k2) := by
  rw [parseStream_eq i a false hnone] at h1
  rw [parseStream_eq i (a ++ b) e hnone]
  unfold psSpec at h1
  simp only [Bool.false_eq_true, if_false] at h1
  by_cases hx : NV.next (i.buffer ++ a) = none
  · -- the first call could not complete a pair
    rw [if_pos hx] at h1
    cases h1
    obtain ⟨s1, s2⟩ := stall_bounds i.buffer a
    have hsr := stall_resume i.buffer a b
    generalize hs : stall i.buffer.length (i.buffer ++ a) = s at *
    simp only [List.length_append] at s2
    have e1 := take_append_ge i.buffer a s s1
    have hx' : NV.next ((i.buffer ++ a).take s) = none := by
      apply next_none_of_append (b := (i.buffer ++ a).drop s)
      rw [List.take_append_drop]; exact hx
    have hW : (i.buffer ++ a).take s ++ (a.drop (s - i.buffer.length) ++ b) = i.buffer ++ (a ++ b) := by
      rw [e1]; simp only [List.append_assoc]
      rw [← List.append_assoc (a.take _), List.take_append_drop]
    have hlen : ((i.buffer ++ a).take s).length = s := by
      simp only [List.length_take, List.length_append]; omega
    rw [parseStream_eq _ _ e hx'] at h2
    unfold psSpec at h2 ⊢
    simp only [hW, hlen] at h2
    have hl2 : (a.drop (s - i.buffer.length) ++ b).length + (s - i.buffer.length) = (a ++ b).length := by
      simp only [List.length_append, List.length_drop]; omega
    cases e with
    | true =>
      simp only [if_true] at h2 ⊢
      cases h2
      congr 1; omega
    | false =>
      simp only [Bool.false_eq_true, if_false] at h2 ⊢
      by_cases hy : NV.next (i.buffer ++ (a ++ b)) = none
      · rw [if_pos hy] at h2 ⊢
        cases h2
        rw [← List.append_assoc] at *
        rw [hsr]
        obtain ⟨t1, _⟩ := stall_bounds i.buffer (a ++ b)
        rw [← List.append_assoc] at t1
        have : s ≤ stall i.buffer.length (i.buffer ++ a ++ b) := by
          rw [← hsr]; unfold stall; split <;> omega
        congr 1; omega
      · rw [if_neg hy] at h2 ⊢
        cases h2
        have hw : (NV.all (i.buffer ++ (a ++ b))).2.length ≤ (a.drop (s - i.buffer.length) ++ b).length := by
          have := all_rest_within (D := a.drop (s - i.buffer.length) ++ b) hx' (by rw [hW]; exact hy)
          rwa [hW] at this
        congr 1; omega
  · -- the first call decoded at least one pair and left `rest1` unconsumed
    rw [if_neg hx] at h1
    cases h1
    have hw := all_rest_within hnone hx
    have hdrop : a.drop (a.length - (NV.all (i.buffer ++ a)).2.length) = (NV.all (i.buffer ++ a)).2 := by
      obtain ⟨c, hc⟩ := C16.rest_suffix (i.buffer ++ a)
      exact suffix_drop hc hw
    have hy : NV.next (i.buffer ++ (a ++ b)) ≠ none := by
      intro hc; rw [← List.append_assoc] at hc; exact hx (next_none_of_append hc)
    have hall := C16.all_append (i.buffer ++ a) b
    rw [List.append_assoc] at hall
    rw [hdrop] at h2
    rw [parseStream_eq _ _ e (by show NV.next [] = none; decide)] at h2
    unfold psSpec at h2 ⊢
    simp only [List.nil_append, List.length_nil, Nat.sub_zero] at h2
    generalize hr1 : (NV.all (i.buffer ++ a)).2 = rest1 at *
    generalize hp1 : (NV.all (i.buffer ++ a)).1 = pairs1 at *
    have hl2 : (rest1 ++ b).length + (a.length - rest1.length) = (a ++ b).length := by
      simp only [List.length_append]; omega
    cases e with
    | true =>
      simp only [if_true] at h2 ⊢
      cases h2
      rw [hall, envExtend_append]
      congr 1; omega
    | false =>
      simp only [Bool.false_eq_true, if_false] at h2 ⊢
      rw [if_neg hy, hall]
      by_cases hz : NV.next (rest1 ++ b) = none
      · rw [if_pos hz] at h2
        cases h2
        simp only [C16.all_none hz, stall, if_true, List.take_zero, List.append_nil]
        congr 1
        simp only [List.length_append]; omega
      · rw [if_neg hz] at h2
        cases h2
        have := all_rest_length_le (rest1 ++ b)
        rw [envExtend_append]
        simp only []
        congr 1; omega

theorem parseStream_resume (env0 : List (Bytes × Bytes)) (C : Bytes) (i i1 i2 : Inner)
    (a b : Bytes) (e : Bool) (k1 k2 : Nat) (hinv : ParamsInv env0 C i)
    (h1 : parseStream i a false = .ok i1 k1)
    (h2 : parseStream i1 (a.drop k1 ++ b) e = .ok i2 k2) :
    parseStream i (a ++ b) e = .ok i2 (k1 + k2) :=
  parseStream_resume' i i1 i2 a b e k1 k2 hinv.next_buffer h1 h2

/-! ## 12. Item 5: a whole Params stream, record by record -/

/-- Feed the payloads of consecutive Params records (each call sees a whole payload, so
`rec_end = true`); `none` iff some call panicked. -/
def feedRecords (i : Inner) : List Bytes → Option Inner
  | [] => some i
  | c :: cs =>
    match parseStream i c true with
    | .ok i' _ => feedRecords i' cs
    | .panic _ => none

theorem SameReqHead.refl (i : Inner) : SameReqHead i i := ⟨rfl, rfl, rfl⟩

theorem SameReqHead.trans {i j k : Inner} (h1 : SameReqHead i j) (h2 : SameReqHead j k) :
    SameReqHead i k :=
  ⟨h2.1.trans h1.1, h2.2.1.trans h1.2.1, h2.2.2.trans h1.2.2⟩

theorem params_payload_inv (env0 : List (Bytes × Bytes)) (cs : List Bytes) :
    ∀ (C : Bytes) (i : Inner), ParamsInv env0 C i →
      ∃ i', feedRecords i cs = some i' ∧ ParamsInv env0 (C ++ cs.flatten) i' ∧ SameReqHead i i' := by
  induction cs with
  | nil => intro C i h; exact ⟨i, rfl, by simpa using h, SameReqHead.refl i⟩
  | cons c cs ih =>
    intro C i h
    obtain ⟨i1, k, hk⟩ := parseStream_ok_inv env0 C i c true h
    obtain ⟨_, hinv1, hs1, hfull, _⟩ := parseStream_spec env0 C i i1 c true k h hk
    rw [hfull rfl, List.take_length] at hinv1
    obtain ⟨i', hf, hinv', hs'⟩ := ih (C ++ c) i1 hinv1
    refine ⟨i', ?_, ?_, hs1.trans hs'⟩
    · simp only [feedRecords, hk]; exact hf
    · simpa [List.append_assoc] using hinv'

/-- **Whole-stream specification.**  Starting from a fresh inner state (environment `env0`, empty
side buffer), feeding the record payloads `cs` never panics and ends in the state described by
the invariant for the concatenated payload — however the stream was cut into records. -/
theorem params_payload_spec (env0 : List (Bytes × Bytes)) (i0 : Inner) (cs : List Bytes)
    (he : i0.req.env = env0) (hb : i0.buffer = []) :
    ∃ i', feedRecords i0 cs = some i' ∧ ParamsInv env0 cs.flatten i' ∧ SameReqHead i0 i' := by
  simpa using params_payload_inv env0 cs [] i0 (paramsInv_init env0 i0 he hb)

/-- In particular a stream that is the encoding of the pairs `ps` yields exactly `ps` folded into
the environment and an empty side buffer. -/
theorem params_payload_roundtrip (env0 : List (Bytes × Bytes)) (i0 : Inner) (cs : List Bytes)
    (ps : List (Bytes × Bytes)) (he : i0.req.env = env0) (hb : i0.buffer = [])
    (hps : ∀ p ∈ ps, p.1.length ≤ maxVal ∧ p.2.length ≤ maxVal)
    (hcs : cs.flatten = ps.flatMap NV.enc) :
    ∃ i', feedRecords i0 cs = some i' ∧ i'.req.env = envExtend env0 ps ∧ i'.buffer = [] ∧
      SameReqHead i0 i' := by
  obtain ⟨i', hf, hinv, hs⟩ := params_payload_spec env0 i0 cs he hb
  rw [hcs] at hinv
  obtain ⟨h1, h2⟩ := hinv
  rw [C16.roundtrip_nil ps hps] at h1 h2
  exact ⟨i', hf, h1, h2, hs⟩

/-- Chunk invariance of the whole stream: the final state depends only on the concatenation. -/
theorem params_payload_chunk_invariant (i0 : Inner) (cs cs' : List Bytes) (hb : i0.buffer = [])
    (h : cs.flatten = cs'.flatten) : feedRecords i0 cs = feedRecords i0 cs' := by
  obtain ⟨i1, hf1, ⟨e1, b1⟩, s1⟩ := params_payload_spec i0.req.env i0 cs rfl hb
  obtain ⟨i2, hf2, ⟨e2, b2⟩, s2⟩ := params_payload_spec i0.req.env i0 cs' rfl hb
  rw [hf1, hf2]
  rw [h] at e1 b1
  obtain ⟨⟨id1, r1, f1, env1⟩, buf1⟩ := i1
  obtain ⟨⟨id2, r2, f2, env2⟩, buf2⟩ := i2
  obtain ⟨a1, a2, a3⟩ := s1
  obtain ⟨c1, c2, c3⟩ := s2
  simp only at e1 b1 e2 b2 a1 a2 a3 c1 c2 c3
  subst e1 b1 e2 b2 a1 a2 a3 c1 c2 c3
  rfl

/-! ## 13. Non-vacuity: concrete streams exercising the four-byte length arms -/
namespace Examples

def name130 : Bytes := List.replicate 130 0x61
/-- One pair with a 130-byte name (four-byte length prefix) and a 3-byte value whose length is
given in the (non-canonical, but accepted) four-byte form; then the pair `("x", "y")`. 145 bytes. -/
def wire : Bytes := [0x80, 0, 0, 130, 0x80, 0, 0, 3] ++ name130 ++ [1, 2, 3] ++ [1, 1, 0x78, 0x79]
def i0 : Inner := { req := { id := 1, role := 1, flags := 0, env := [] }, buffer := [] }

/-- Observable part of a `parseBuffered` result that does not involve the environment. -/
def pbView : PB → Option (Bytes × Bytes)
  | .ok i d => some (i.buffer, d)
  | .panic _ => none

set_option maxRecDepth 20000 in
theorem next_wire : NV.next wire = some ((name130, [1, 2, 3]), [1, 1, 0x78, 0x79]) := by decide

theorem next_tail : NV.next [1, 1, 0x78, 0x79] = some (([0x78], [0x79]), []) := by decide

theorem all_wire : NV.all wire = ([(name130, [1, 2, 3]), ([0x78], [0x79])], []) := by
  rw [C16.all_some next_wire, C16.all_some next_tail, all_nil]

set_option maxRecDepth 20000 in
/-- Cuts inside the first length prefix (2), inside the second (6), inside the name (50) and
inside the value (139): the first part alone is not a complete pair. -/
theorem cuts_incomplete : ∀ c ∈ [2, 6, 50, 139], NV.next (wire.take c) = none := by decide

/-- `parseBuffered_spec`/`parseBuffered_eq` are applicable at each of the four cuts (non-empty,
incomplete buffer) and the completed-pair branch is taken: the pair is inserted, the buffer
cleared, and exactly the bytes of the following pair are handed back. -/
example : ∀ c ∈ [2, 6, 50, 139], ∀ e,
    parseBuffered { i0 with buffer := wire.take c } (wire.drop c) e =
      .ok { req := { i0.req with env := envInsert [] (makeCgivar name130) [1, 2, 3] }, buffer := [] }
        [1, 1, 0x78, 0x79] := by
  intro c hc e
  have hne : wire.take c ≠ [] := by
    intro h; have := cuts_incomplete c hc; rw [h] at this
    simp only [List.mem_cons, List.not_mem_nil, or_false] at hc
    rcases hc with rfl | rfl | rfl | rfl <;> exact absurd h (by decide)
  rw [parseBuffered_eq _ _ _ hne (cuts_incomplete c hc)]
  simp only [pbSpec, List.take_append_drop, next_wire]
  rfl

set_option maxRecDepth 20000 in
/-- The same, by direct evaluation of the model (cut inside the second four-byte prefix / inside
the name / inside the value), without any theorem. -/
example : pbView (parseBuffered { i0 with buffer := wire.take 6 } (wire.drop 6) false)
    = some ([], [1, 1, 0x78, 0x79]) := by decide
set_option maxRecDepth 20000 in
example : pbView (parseBuffered { i0 with buffer := wire.take 50 } (wire.drop 50) true)
    = some ([], [1, 1, 0x78, 0x79]) := by decide
set_option maxRecDepth 20000 in
example : pbView (parseBuffered { i0 with buffer := wire.take 139 } (wire.drop 139) false)
    = some ([], [1, 1, 0x78, 0x79]) := by decide

/-- Still-incomplete branch, no record end: only the knowable part of the header moves.  One byte
`0x80` buffered; five more bytes arrive: the first prefix is completed (4 bytes moved), the second
prefix is long and incomplete, so its single available byte is *not* consumed. -/
example : pbView (parseBuffered { i0 with buffer := [0x80] } [0, 0, 130, 0x80, 0] false)
    = some ([0x80, 0, 0, 130, 0x80], [0]) := by decide
/-- … nothing moves while even the first prefix is incomplete … -/
example : pbView (parseBuffered { i0 with buffer := [0x80] } [0, 0] false)
    = some ([0x80], [0, 0]) := by decide
/-- … and at a record end everything is buffered. -/
example : pbView (parseBuffered { i0 with buffer := [0x80] } [0, 0] true)
    = some ([0x80, 0, 0], []) := by decide

/-- A state satisfying the invariant with a non-empty side buffer. -/
def iA : Inner := { i0 with buffer := [0x80] }
theorem invA : ParamsInv [] [0x80] iA := by
  have : NV.all [0x80] = ([], [0x80]) := C16.all_none (by decide)
  simp [ParamsInv, this, iA, i0, envExtend_nil]

/-- `parse_stream` from `iA`, no record end: consumes 4 of 5 bytes. -/
theorem stepA : parseStream iA [0, 0, 130, 0x80, 0] false =
    .ok { iA with buffer := [0x80, 0, 0, 130, 0x80] } 4 := by
  rw [parseStream_eq _ _ _ invA.next_buffer]
  have h : NV.next (iA.buffer ++ [0, 0, 130, 0x80, 0]) = none := by decide
  have s : stall iA.buffer.length (iA.buffer ++ [0, 0, 130, 0x80, 0]) = 5 := by decide
  simp only [psSpec, h, s, Bool.false_eq_true, if_false, if_true]
  rfl

/-- `parseStream_spec` instantiated: invariant for the 5 bytes consumed so far, and the one byte
left behind does not complete the pair. -/
example : ParamsInv [] ([0x80] ++ [0, 0, 130, 0x80]) { iA with buffer := [0x80, 0, 0, 130, 0x80] } ∧
    NV.next ([0x80, 0, 0, 130, 0x80] ++ [0]) = none :=
  have h := parseStream_spec [] [0x80] iA _ _ false 4 invA stepA
  ⟨h.2.1, h.2.2.2.2 rfl⟩

/-- `parseStream_resume` instantiated: whatever follows (`b`, any record-end flag), resuming after
`stepA` equals the one-shot call. -/
example (b : Bytes) (e : Bool) (i2 : Inner) (k2 : Nat)
    (h2 : parseStream { iA with buffer := [0x80, 0, 0, 130, 0x80] } (0 :: b) e = .ok i2 k2) :
    parseStream iA ([0, 0, 130, 0x80, 0] ++ b) e = .ok i2 (4 + k2) :=
  parseStream_resume [] [0x80] iA _ i2 _ b e 4 k2 invA stepA h2

/-- Whole stream, cut into two records at each of the four places (and uncut): same result, the
two pairs in order and an empty side buffer. -/
example : ∀ c ∈ [2, 6, 50, 139], ∃ i', feedRecords i0 [wire.take c, wire.drop c] = some i' ∧
    i'.req.env = envExtend [] [(name130, [1, 2, 3]), ([0x78], [0x79])] ∧ i'.buffer = [] ∧
    feedRecords i0 [wire] = some i' := by
  intro c _
  obtain ⟨i', hf, hinv, _⟩ := params_payload_spec [] i0 [wire.take c, wire.drop c] rfl rfl
  have hfl : [wire.take c, wire.drop c].flatten = wire := by simp
  rw [hfl, ParamsInv, all_wire] at hinv
  refine ⟨i', hf, hinv.1, hinv.2, ?_⟩
  rw [← hf]
  exact params_payload_chunk_invariant i0 _ _ rfl (by simp)

theorem take_drop_chain (w : Bytes) (a b : Nat) : (w.drop a).take b ++ w.drop (a + b) = w.drop a := by
  rw [← List.drop_drop, List.take_append_drop]

theorem chunks5 (w : Bytes) :
    [w.take 2, (w.drop 2).take 4, (w.drop 6).take 44, (w.drop 50).take 150, w.drop 200].flatten = w := by
  have h1 := take_drop_chain w 50 150
  have h2 := take_drop_chain w 6 44
  have h3 := take_drop_chain w 2 4
  simp only [Nat.reduceAdd] at h1 h2 h3
  simp only [List.flatten_cons, List.flatten_nil, List.append_nil]
  rw [h1, h2, h3, List.take_append_drop]

def val200 : Bytes := List.replicate 200 7

/-- `params_payload_roundtrip` instantiated with a canonical encoding: 130-byte name and 200-byte
value (both length prefixes four bytes), cut inside the first prefix (2), inside the second prefix
(6), inside the name (50) and inside the value (200) — five records. -/
example : ∃ i', feedRecords i0
      (let w := NV.enc (name130, val200) ++ NV.enc ([0x78], [0x79])
       [w.take 2, (w.drop 2).take 4, (w.drop 6).take 44, (w.drop 50).take 150, w.drop 200]) = some i' ∧
    i'.req.env = envExtend [] [(name130, val200), ([0x78], [0x79])] ∧ i'.buffer = [] := by
  obtain ⟨i', hf, he, hb, _⟩ := params_payload_roundtrip [] i0 _
    [(name130, val200), ([0x78], [0x79])] rfl rfl
    (by
      intro p hp
      simp only [List.mem_cons, List.not_mem_nil, or_false] at hp
      rcases hp with rfl | rfl <;>
        simp only [name130, val200, List.length_replicate, maxVal, List.length_cons,
          List.length_nil] <;> omega)
    (by rw [chunks5])
  exact ⟨i', hf, he, hb⟩

end Examples

end Fcgi.Req
