import Fcgi.Model.Async
/-!
# Helper lemmas about the poll-level `StreamWriter` model (used by `Props/C10.lean`)

* what `Transport.writeV` / `write` / `flush` do to the byte log,
* the loop invariant `LoopInv` of the vectored write loop and `writeLoop_spec`,
* frame lemmas (what `writeLoop` / `pollWrite` / `pollFlush` / `pollOutput` never touch),
* the mutex-consistency lemmas used for the exclusion theorem.
-/
namespace Fcgi.Async
open Fcgi

/-! ## The transport -/

@[simp] theorem Transport.ev_wlog (t : Transport) (s : String) : (t.ev s).wlog = t.wlog := rfl

/-- A vectored write that reports `k` accepted bytes appended exactly the first `k` offered bytes
(and `k` never exceeds what was offered). -/
theorem writeV_ok {t t' : Transport} {slices : List Bytes} {tag : String} {k : Nat}
    (h : t.writeV slices tag = (t', .ready (.ok k))) :
    k ≤ slices.flatten.length ∧ t'.wlog = t.wlog ++ slices.flatten.take k := by
  unfold Transport.writeV at h
  simp only at h
  generalize slices.flatten = data at h ⊢
  split at h
  · cases h; simp
  · split at h <;> simp at h
    · obtain ⟨h1, h2⟩ := h; subst h1 h2; simp
    · obtain ⟨h1, h2⟩ := h; subst h1 h2; simp
    · obtain ⟨h1, h2⟩ := h; subst h1 h2
      simp
      omega

/-- A vectored write that does not report a byte count leaves the byte log alone. -/
theorem writeV_other {t t' : Transport} {slices : List Bytes} {tag : String}
    {r : Poll (Except IoErr Nat)} (h : t.writeV slices tag = (t', r))
    (hr : r = .pending ∨ ∃ e, r = .ready (.error e)) : t'.wlog = t.wlog := by
  unfold Transport.writeV at h
  simp only at h
  split at h
  · cases h; rcases hr with hr | ⟨e, hr⟩ <;> cases hr
  · split at h <;> simp at h <;> obtain ⟨h1, h2⟩ := h <;> subst h1 h2 <;> first
      | rfl
      | (rcases hr with hr | ⟨e, hr⟩ <;> cases hr)

theorem flush_wlog (t : Transport) : t.flush.1.wlog = t.wlog := by
  unfold Transport.flush
  simp only
  split <;> rfl

/-! ## The record a completed write must have produced, and the loop invariant -/

/-- The record a completed write of `payload` on stream `rtype` of request `id` must have produced:
header with the payload length and the padding chosen by `set_lengths`, the payload, zero padding. -/
def recordOf (rtype id : Nat) (payload : Bytes) : Bytes :=
  RecordHeader.toBytes ⟨rtype, id, payload.length, RecordHeader.autoPadding payload.length⟩
    ++ payload ++ zeros (RecordHeader.autoPadding payload.length)

/-- The header as encoded when the record was started (before any length was counted down). -/
def origHead (w : Writer) (p : Bytes) : Bytes :=
  RecordHeader.toBytes ⟨w.rtype, w.id, p.length, RecordHeader.autoPadding p.length⟩

/-- What is still to be written, as the three slices of the vectored write (with the *original*
header). -/
def remaining (w : Writer) (p : Bytes) : Bytes :=
  (origHead w p).drop w.headIdx ++ p.drop (p.length - w.contentLen) ++ zeros w.padLen

theorem origHead_length (w : Writer) (p : Bytes) : (origHead w p).length = 8 := by
  simp [origHead, RecordHeader.toBytes, toBe16]

theorem headBytes_length (w : Writer) : w.headBytes.length = 8 := by
  simp [Writer.headBytes, RecordHeader.toBytes, toBe16]

/-- Invariant of the write loop for payload `p` (the truncated buffer) after `sent` was accepted. -/
structure LoopInv (w : Writer) (p sent : Bytes) : Prop where
  pos : 0 < p.length
  hidx : w.headIdx ≤ 8
  clen : w.contentLen ≤ p.length
  plen : w.padLen ≤ RecordHeader.autoPadding p.length
  /-- the lengths in `head` are only counted down once the header is out completely -/
  early : w.headIdx < 8 → w.contentLen = p.length ∧ w.padLen = RecordHeader.autoPadding p.length
  split : recordOf w.rtype w.id p = sent ++ remaining w p

/-- **The key subtlety.** `poll_write` re-encodes `head` on every poll from the *current*
(counted-down) lengths.  That is harmless: the lengths differ from the original ones only once
`headIdx = 8`, and then nothing of the header is offered any more. -/
theorem head_harmless {w : Writer} {p sent : Bytes} (h : LoopInv w p sent) :
    w.headBytes.drop w.headIdx = (origHead w p).drop w.headIdx := by
  by_cases h8 : w.headIdx < 8
  · obtain ⟨hc, hp⟩ := h.early h8
    simp [Writer.headBytes, origHead, hc, hp]
  · rw [List.drop_of_length_le, List.drop_of_length_le]
    · rw [origHead_length]; omega
    · rw [headBytes_length]; omega

theorem remaining_length (w : Writer) (p : Bytes) (h : w.contentLen ≤ p.length) :
    (remaining w p).length = (8 - w.headIdx) + w.contentLen + w.padLen := by
  simp [remaining, origHead_length, zeros]
  omega

/-- A writer that is no longer writing has nothing left to send. -/
theorem remaining_nil {w : Writer} {p sent : Bytes} (h : LoopInv w p sent)
    (hw : w.isWriting = false) : remaining w p = [] := by
  have hc : w.contentLen = 0 ∧ w.padLen = 0 := by
    simpa [Writer.isWriting] using hw
  have h8 : w.headIdx = 8 := by
    by_cases h8 : w.headIdx < 8
    · have := (h.early h8).1; have := h.pos; omega
    · have := h.hidx; omega
  simp [remaining, hc.1, hc.2, h8, zeros, origHead_length]

/-- What `writeLoop` never touches. -/
def SameStream (w w' : Writer) : Prop :=
  w'.rtype = w.rtype ∧ w'.id = w.id ∧ w'.lock = w.lock ∧ w'.origLen = w.origLen

theorem SameStream.refl (w : Writer) : SameStream w w := ⟨rfl, rfl, rfl, rfl⟩

theorem SameStream.trans {a b c : Writer} (h1 : SameStream a b) (h2 : SameStream b c) :
    SameStream a c := by
  obtain ⟨a1, a2, a3, a4⟩ := h1
  obtain ⟨b1, b2, b3, b4⟩ := h2
  exact ⟨b1.trans a1, b2.trans a2, b3.trans a3, b4.trans a4⟩

/-- One iteration of the accounting after the transport accepted `written` of the offered bytes:
the three slices are consumed strictly in order, the invariant is re-established for the accepted
bytes, nothing is left over (`debug_assert_eq!(written, 0)` cannot fire), and the amount still to
be written went down by exactly `written`. -/
theorem loop_step {w : Writer} {p sent head : Bytes} (h : LoopInv w p sent)
    (hh : head.drop w.headIdx = (origHead w p).drop w.headIdx) (written : Nat)
    (hle : written ≤ ([head.drop w.headIdx, p.drop (p.length - w.contentLen), zeros w.padLen]).flatten.length) :
    let s0 := head.drop w.headIdx
    let s1 := p.drop (p.length - w.contentLen)
    let s2 := zeros w.padLen
    let w0 := min written s0.length
    let w1 := min (written - w0) s1.length
    let w2 := min (written - w0 - w1) s2.length
    let w' : Writer := { w with headIdx := w.headIdx + w0, contentLen := w.contentLen - w1, padLen := w.padLen - w2 }
    written - w0 - w1 - w2 = 0 ∧
    LoopInv w' p (sent ++ ([s0, s1, s2]).flatten.take written) ∧
    head.drop w'.headIdx = (origHead w' p).drop w'.headIdx ∧
    (8 - w'.headIdx) + w'.contentLen + w'.padLen + written = (8 - w.headIdx) + w.contentLen + w.padLen := by
  intro s0 s1 s2 w0 w1 w2 w'
  have hs0 : s0.length = 8 - w.headIdx := by
    show (head.drop w.headIdx).length = _
    rw [hh, List.length_drop, origHead_length]
  have hs1 : s1.length = w.contentLen := by
    show (p.drop _).length = _
    rw [List.length_drop]; have := h.clen; omega
  have hs2 : s2.length = w.padLen := by simp [s2, zeros]
  have hle' : written ≤ s0.length + s1.length + s2.length := by
    have : ([head.drop w.headIdx, p.drop (p.length - w.contentLen), zeros w.padLen]).flatten.length
        = s0.length + s1.length + s2.length := by
      show ([s0, s1, s2]).flatten.length = _
      simp [Nat.add_assoc]
    omega
  have hidx := h.hidx
  have hclen := h.clen
  refine ⟨by omega, ?_, ?_, ?_⟩
  · -- the invariant
    have hrem : remaining w' p = ([s0, s1, s2]).flatten.drop written := by
      have e0 : (origHead w p).drop (w.headIdx + w0) = s0.drop written := by
        show _ = (head.drop w.headIdx).drop written
        rw [hh, List.drop_drop]
        by_cases hc : written ≤ s0.length
        · have : w0 = written := by omega
          rw [this]
        · rw [List.drop_of_length_le, List.drop_of_length_le]
          · rw [origHead_length]; omega
          · rw [origHead_length]; omega
      have e1 : p.drop (p.length - (w.contentLen - w1)) = s1.drop (written - s0.length) := by
        show _ = (p.drop _).drop _
        rw [List.drop_drop]
        by_cases hc : written - s0.length ≤ s1.length
        · have : p.length - (w.contentLen - w1) = p.length - w.contentLen + (written - s0.length) := by
            omega
          rw [this]
        · rw [List.drop_of_length_le, List.drop_of_length_le] <;> omega
      have e2 : zeros (w.padLen - w2) = s2.drop (written - s0.length - s1.length) := by
        show _ = (zeros w.padLen).drop _
        unfold zeros
        rw [List.drop_replicate]
        congr 1
        omega
      show (origHead w' p).drop (w.headIdx + w0) ++ p.drop (p.length - (w.contentLen - w1)) ++
        zeros (w.padLen - w2) = _
      have : origHead w' p = origHead w p := rfl
      rw [this, e0, e1, e2]
      simp [List.drop_append, Nat.sub_sub]
    refine ⟨h.pos, ?_, ?_, ?_, ?_, ?_⟩
    · show w.headIdx + w0 ≤ 8; omega
    · show w.contentLen - w1 ≤ p.length; omega
    · show w.padLen - w2 ≤ _; have := h.plen; omega
    · intro h8
      have h8' : w.headIdx + w0 < 8 := h8
      have hlt : w.headIdx < 8 := by omega
      obtain ⟨e1, e2⟩ := h.early hlt
      have : w1 = 0 := by omega
      have : w2 = 0 := by omega
      show w.contentLen - w1 = _ ∧ w.padLen - w2 = _
      omega
    · show recordOf w.rtype w.id p = _
      rw [h.split, hrem, List.append_assoc]
      congr 1
      have : remaining w p = ([s0, s1, s2]).flatten := by
        simp [remaining, s0, s1, s2, hh]
      rw [this, List.take_append_drop]
  · show head.drop (w.headIdx + w0) = (origHead w p).drop (w.headIdx + w0)
    rw [← List.drop_drop, ← List.drop_drop, hh]
  · show 8 - (w.headIdx + w0) + (w.contentLen - w1) + (w.padLen - w2) + written = _
    omega

/-- Post-condition of `writeLoop`: it appended `delta`, re-established the invariant for
`sent ++ delta`, reports `Ready` only when everything is out, never panics. -/
def LoopPost (w : Writer) (p : Bytes) (t : Transport) (sent : Bytes)
    (w' : Writer) (t' : Transport) (res : WRes) : Prop :=
  ∃ delta, t'.wlog = t.wlog ++ delta ∧ LoopInv w' p (sent ++ delta) ∧ SameStream w w' ∧
    (∀ k, res = .ready k → k = p.length ∧ w'.isWriting = false) ∧
    (res = .pending ∨ (∃ e, res = .err e) → w'.isWriting = true) ∧
    (∀ s, res ≠ .panic s)

/-- `writeLoop` from a state satisfying the invariant, with enough fuel. -/
theorem writeLoop_spec (fuel : Nat) : ∀ (w : Writer) (head p : Bytes) (t : Transport) (sent : Bytes),
    LoopInv w p sent → head.drop w.headIdx = (origHead w p).drop w.headIdx →
    (8 - w.headIdx) + w.contentLen + w.padLen < fuel →
    ∀ w' t' res, writeLoop fuel w head p t = (w', t', res) →
    LoopPost w p t sent w' t' res := by
  induction fuel with
  | zero => intro w head p t sent _ _ hf; omega
  | succ fuel ih =>
    intro w head p t sent hinv hh hf w' t' res hrun
    rw [writeLoop] at hrun
    by_cases hw : w.isWriting = true
    · simp only [hw, Bool.not_true, Bool.false_eq_true, if_false] at hrun
      have hcl : ¬ w.contentLen > p.length := by have := hinv.clen; omega
      simp only [hcl, if_false] at hrun
      rcases hv : t.writeV [head.drop w.headIdx, p.drop (p.length - w.contentLen), zeros w.padLen] "V"
        with ⟨t1, r⟩
      rw [hv] at hrun
      have stay : ∀ r', (r = .pending ∨ ∃ e, r = .ready (.error e)) → (w, t1, r') = (w', t', res) →
          (r' = .pending ∨ ∃ e, r' = .err e) → LoopPost w p t sent w' t' res := by
        intro r' hr heq hr'
        have hlog := writeV_other hv hr
        cases heq
        refine ⟨[], by simp [hlog], by simpa using hinv, SameStream.refl _, ?_, fun _ => hw, ?_⟩
        · intro k hk; rcases hr' with hk' | ⟨e, hk'⟩ <;> rw [hk'] at hk <;> cases hk
        · intro s hs; rcases hr' with hk' | ⟨e, hk'⟩ <;> rw [hk'] at hs <;> cases hs
      cases r with
      | pending => exact stay _ (Or.inl rfl) hrun (Or.inl rfl)
      | ready x =>
        cases x with
        | error e => exact stay _ (Or.inr ⟨e, rfl⟩) hrun (Or.inr ⟨e, rfl⟩)
        | ok k =>
          obtain ⟨hk, hlog⟩ := writeV_ok hv
          cases k with
          | zero =>
            simp only at hrun
            cases hrun
            refine ⟨[], by simpa using hlog, by simpa using hinv, SameStream.refl _, ?_, fun _ => hw, ?_⟩
            · intro k hk; cases hk
            · intro s hs; cases hs
          | succ k =>
            obtain ⟨hz, hinv', hh', hm⟩ := loop_step hinv hh (k + 1) hk
            simp only at hrun
            simp only [ne_eq, hz, not_true_eq_false, if_false] at hrun
            obtain ⟨d2, hl2, hi2, hs2, hr2, hp2, hq2⟩ :=
              ih _ head p t1 _ hinv' hh' (by omega) w' t' res hrun
            refine ⟨([head.drop w.headIdx, p.drop (p.length - w.contentLen), zeros w.padLen]).flatten.take (k + 1) ++ d2,
              ?_, ?_, ?_, hr2, hp2, hq2⟩
            · rw [hl2, hlog, List.append_assoc]
            · rw [← List.append_assoc]; exact hi2
            · exact SameStream.trans ⟨rfl, rfl, rfl, rfl⟩ hs2
    · have hw' : w.isWriting = false := by simpa using hw
      simp [hw'] at hrun
      obtain ⟨h1, h2, h3⟩ := hrun
      subst h1 h2 h3
      refine ⟨[], by simp, by simpa using hinv, SameStream.refl _, ?_, ?_, ?_⟩
      · intro k hk; cases hk; exact ⟨rfl, hw'⟩
      · intro hk; rcases hk with hk | ⟨e, hk⟩ <;> cases hk
      · intro s hs; cases hs

/-- Unconditionally (any state, any fuel, any transport): `writeLoop` only appends to the byte log
and never touches the stream type, the request id, the lock or `orig_len`. -/
theorem writeLoop_frame (fuel : Nat) : ∀ (w : Writer) (head p : Bytes) (t : Transport) w' t' res,
    writeLoop fuel w head p t = (w', t', res) →
    SameStream w w' ∧ ∃ delta, t'.wlog = t.wlog ++ delta := by
  induction fuel with
  | zero =>
    intro w head p t w' t' res h
    rw [writeLoop] at h; cases h
    exact ⟨SameStream.refl _, [], by simp⟩
  | succ fuel ih =>
    intro w head p t w' t' res h
    rw [writeLoop] at h
    split at h
    · cases h; exact ⟨SameStream.refl _, [], by simp⟩
    · split at h
      · cases h; exact ⟨SameStream.refl _, [], by simp⟩
      · rcases hv : t.writeV [head.drop w.headIdx, p.drop (p.length - w.contentLen), zeros w.padLen] "V"
          with ⟨t1, r⟩
        simp only at h
        rw [hv] at h
        cases r with
        | pending =>
          cases h
          exact ⟨SameStream.refl _, [], by simp [writeV_other hv (Or.inl rfl)]⟩
        | ready x =>
          cases x with
          | error e =>
            cases h
            exact ⟨SameStream.refl _, [], by simp [writeV_other hv (Or.inr ⟨e, rfl⟩)]⟩
          | ok k =>
            obtain ⟨_, hlog⟩ := writeV_ok hv
            cases k with
            | zero =>
              cases h
              exact ⟨SameStream.refl _, [], by simpa using hlog⟩
            | succ k =>
              simp only at h
              split at h
              · cases h
                exact ⟨SameStream.refl _, _, hlog⟩
              · obtain ⟨hs, d, hd⟩ := ih _ _ _ _ _ _ _ h
                refine ⟨SameStream.trans ⟨rfl, rfl, rfl, rfl⟩ hs, ?_⟩
                rw [hd, hlog, List.append_assoc]
                exact ⟨_, rfl⟩

/-! ## `poll_write`, case by case -/

/-- The writer state `get_or_insert_with` sets up for a new record. -/
def fresh (w : Writer) (buf : Bytes) : Writer :=
  { w with contentLen := min buf.length 65535, padLen := RecordHeader.autoPadding (min buf.length 65535),
           headIdx := 0, origLen := min buf.length 65535, lock := .polling }

theorem fresh_isWriting (w : Writer) {buf : Bytes} (hb : buf ≠ []) : (fresh w buf).isWriting = true := by
  have : 0 < buf.length := List.length_pos_iff.mpr hb
  have h1 : min buf.length 65535 ≠ 0 := by omega
  simp [fresh, Writer.isWriting, h1]

/-- Starting a record is the same as continuing from the freshly set-up state. -/
theorem pollWrite_idle (w : Writer) (me : Nat) {buf : Bytes} (m : MutexSt) (t : Transport) (hb : buf ≠ [])
    (hl : w.lock = .none) (hw : w.isWriting = false) :
    w.pollWrite me buf m t = (fresh w buf).pollWrite me buf m t := by
  have hb' : buf.isEmpty = false := by cases buf <;> simp_all
  simp [Writer.pollWrite, hb', hl, hw, fresh]

/-- The assertion "lock was dropped mid-write". -/
theorem pollWrite_broken (w : Writer) (me : Nat) {buf : Bytes} (m : MutexSt) (t : Transport) (hb : buf ≠ [])
    (hl : w.lock = .none) (hw : w.isWriting = true) :
    w.pollWrite me buf m t = (w, m, t, .panic "async_io:71 lock was dropped mid-write") := by
  have hb' : buf.isEmpty = false := by cases buf <;> simp_all
  simp [Writer.pollWrite, hb', hl, hw]

/-- The two assertions that can fire with a lock future present. -/
theorem pollWrite_misuse (w : Writer) (me : Nat) {buf : Bytes} (m : MutexSt) (t : Transport) (hb : buf ≠ [])
    (hl : w.lock ≠ .none) (hbad : w.isWriting = false ∨ buf.length < w.origLen) :
    ∃ s, w.pollWrite me buf m t = (w, m, t, .panic s) := by
  have hb' : buf.isEmpty = false := by cases buf <;> simp_all
  by_cases hw : w.isWriting = true
  · have : buf.length < w.origLen := by rcases hbad with h | h; simp [hw] at h; exact h
    exact ⟨"async_io:79 buf shrunk between calls to poll_write",
      by simp [Writer.pollWrite, hb', hl, hw, this]⟩
  · have hw' : w.isWriting = false := by simpa using hw
    exact ⟨"async_io:77 poll_write called while poll_flush is pending",
      by simp [Writer.pollWrite, hb', hl, hw']⟩

/-- The regular path of `poll_write` once a lock future exists. -/
theorem pollWrite_started (w : Writer) (me : Nat) {buf : Bytes} (m : MutexSt) (t : Transport) (hb : buf ≠ [])
    (hl : w.lock ≠ .none) (hw : w.isWriting = true) (ho : w.origLen ≤ buf.length) :
    w.pollWrite me buf m t =
      if (lockPoll w.lock m (me + 1)).2.2 = false then
        ({ w with lock := (lockPoll w.lock m (me + 1)).1 }, (lockPoll w.lock m (me + 1)).2.1, t, .pending)
      else
        match writeLoop (8 + w.contentLen + w.padLen + 1) { w with lock := (lockPoll w.lock m (me + 1)).1 }
            w.headBytes (buf.take w.origLen) t with
        | (w', t', .ready n) => ({ w' with lock := .none }, Option.none, t', .ready n)
        | (w', t', r) => (w', (lockPoll w.lock m (me + 1)).2.1, t', r) := by
  have hb' : buf.isEmpty = false := by cases buf <;> simp_all
  have ho' : ¬ buf.length < w.origLen := by omega
  simp [Writer.pollWrite, hb', hl, hw, ho']
  rfl

end Fcgi.Async
