import Fcgi.Model.Async
/-!
# Helper lemmas about the poll-level `StreamWriter` model (used by `Props/C10.lean`)

* what `Transport.writeV` / `write` / `flush` do to the byte log,
* the loop invariant `LoopInv` of the vectored write loop and `writeLoop_spec`,
* frame lemmas (what `writeLoop` / `pollWrite` / `pollFlush` / `pollOutput` never touch),
* the mutex-consistency lemmas used for the exclusion theorem.
-/
namespace Fcgi.Async
open Fcgi

/-! ## The transport -/

@[simp] theorem Transport.ev_wlog (t : Transport) (s : String) : (t.ev s).wlog = t.wlog := rfl

/-- A vectored write that reports `k` accepted bytes appended exactly the first `k` offered bytes
(and `k` never exceeds what was offered). -/
theorem writeV_ok {t t' : Transport} {slices : List Bytes} {tag : String} {k : Nat}
    (h : t.writeV slices tag = (t', .ready (.ok k))) :
    k ≤ slices.flatten.length ∧ t'.wlog = t.wlog ++ slices.flatten.take k := by
  unfold Transport.writeV at h
  simp only at h
  generalize slices.flatten = data at h ⊢
  split at h
  · cases h; simp
  · split at h <;> simp at h
    · obtain ⟨h1, h2⟩ := h; subst h1 h2; simp
    · obtain ⟨h1, h2⟩ := h; subst h1 h2; simp
    · obtain ⟨h1, h2⟩ := h; subst h1 h2
      simp
      omega

/-- A vectored write that does not report a byte count leaves the byte log alone. -/
theorem writeV_other {t t' : Transport} {slices : List Bytes} {tag : String}
    {r : Poll (Except IoErr Nat)} (h : t.writeV slices tag = (t', r))
    (hr : r = .pending ∨ ∃ e, r = .ready (.error e)) : t'.wlog = t.wlog := by
  unfold Transport.writeV at h
  simp only at h
  split at h
  · cases h; rcases hr with hr | ⟨e, hr⟩ <;> cases hr
  · split at h <;> simp at h <;> obtain ⟨h1, h2⟩ := h <;> subst h1 h2 <;> first
      | rfl
      | (rcases hr with hr | ⟨e, hr⟩ <;> cases hr)

theorem flush_wlog (t : Transport) : t.flush.1.wlog = t.wlog := by
  unfold Transport.flush
  simp only
  split <;> rfl

/-! ## The record a completed write must have produced, and the loop invariant -/

/-- The record a completed write of `payload` on stream `rtype` of request `id` must have produced:
header with the payload length and the padding chosen by `set_lengths`, the payload, zero padding. -/
def recordOf (rtype id : Nat) (payload : Bytes) : Bytes :=
  RecordHeader.toBytes ⟨rtype, id, payload.length, RecordHeader.autoPadding payload.length⟩
    ++ payload ++ zeros (RecordHeader.autoPadding payload.length)

/-- The header as encoded when the record was started (before any length was counted down). -/
def origHead (w : Writer) (p : Bytes) : Bytes :=
  RecordHeader.toBytes ⟨w.rtype, w.id, p.length, RecordHeader.autoPadding p.length⟩

/-- What is still to be written, as the three slices of the vectored write (with the *original*
header). -/
def remaining (w : Writer) (p : Bytes) : Bytes :=
  (origHead w p).drop w.headIdx ++ p.drop (p.length - w.contentLen) ++ zeros w.padLen

theorem origHead_length (w : Writer) (p : Bytes) : (origHead w p).length = 8 := by
  simp [origHead, RecordHeader.toBytes, toBe16]

theorem headBytes_length (w : Writer) : w.headBytes.length = 8 := by
  simp [Writer.headBytes, RecordHeader.toBytes, toBe16]

/-- Invariant of the write loop for payload `p` (the truncated buffer) after `sent` was accepted. -/
structure LoopInv (w : Writer) (p sent : Bytes) : Prop where
  pos : 0 < p.length
  hidx : w.headIdx ≤ 8
  clen : w.contentLen ≤ p.length
  plen : w.padLen ≤ RecordHeader.autoPadding p.length
  /-- the lengths in `head` are only counted down once the header is out completely -/
  early : w.headIdx < 8 → w.contentLen = p.length ∧ w.padLen = RecordHeader.autoPadding p.length
  split : recordOf w.rtype w.id p = sent ++ remaining w p

/-- **The key subtlety.** `poll_write` re-encodes `head` on every poll from the *current*
(counted-down) lengths.  That is harmless: the lengths differ from the original ones only once
`headIdx = 8`, and then nothing of the header is offered any more. -/
theorem head_harmless {w : Writer} {p sent : Bytes} (h : LoopInv w p sent) :
    w.headBytes.drop w.headIdx = (origHead w p).drop w.headIdx := by
  by_cases h8 : w.headIdx < 8
  · obtain ⟨hc, hp⟩ := h.early h8
    simp [Writer.headBytes, origHead, hc, hp]
  · rw [List.drop_of_length_le, List.drop_of_length_le]
    · rw [origHead_length]; omega
    · rw [headBytes_length]; omega

theorem remaining_length (w : Writer) (p : Bytes) (h : w.contentLen ≤ p.length) :
    (remaining w p).length = (8 - w.headIdx) + w.contentLen + w.padLen := by
  simp [remaining, origHead_length, zeros]
  omega

/-- A writer that is no longer writing has nothing left to send. -/
theorem remaining_nil {w : Writer} {p sent : Bytes} (h : LoopInv w p sent)
    (hw : w.isWriting = false) : remaining w p = [] := by
  have hc : w.contentLen = 0 ∧ w.padLen = 0 := by
    simpa [Writer.isWriting] using hw
  have h8 : w.headIdx = 8 := by
    by_cases h8 : w.headIdx < 8
    · have := (h.early h8).1; have := h.pos; omega
    · have := h.hidx; omega
  simp [remaining, hc.1, hc.2, h8, zeros, origHead_length]

/-- What `writeLoop` never touches. -/
def SameStream (w w' : Writer) : Prop :=
  w'.rtype = w.rtype ∧ w'.id = w.id ∧ w'.lock = w.lock ∧ w'.origLen = w.origLen

theorem SameStream.refl (w : Writer) : SameStream w w := ⟨rfl, rfl, rfl, rfl⟩

theorem SameStream.trans {a b c : Writer} (h1 : SameStream a b) (h2 : SameStream b c) :
    SameStream a c := by
  obtain ⟨a1, a2, a3, a4⟩ := h1
  obtain ⟨b1, b2, b3, b4⟩ := h2
  exact ⟨b1.trans a1, b2.trans a2, b3.trans a3, b4.trans a4⟩

/-- One iteration of the accounting after the transport accepted `written` of the offered bytes:
the three slices are consumed strictly in order, the invariant is re-established for the accepted
bytes, nothing is left over (`debug_assert_eq!(written, 0)` cannot fire), and the amount still to
be written went down by exactly `written`. -/
theorem loop_step {w : Writer} {p sent head : Bytes} (h : LoopInv w p sent)
    (hh : head.drop w.headIdx = (origHead w p).drop w.headIdx) (written : Nat)
    (hle : written ≤ ([head.drop w.headIdx, p.drop (p.length - w.contentLen), zeros w.padLen]).flatten.length) :
    let s0 := head.drop w.headIdx
    let s1 := p.drop (p.length - w.contentLen)
    let s2 := zeros w.padLen
    let w0 := min written s0.length
    let w1 := min (written - w0) s1.length
    let w2 := min (written - w0 - w1) s2.length
    let w' : Writer := { w with headIdx := w.headIdx + w0, contentLen := w.contentLen - w1, padLen := w.padLen - w2 }
    written - w0 - w1 - w2 = 0 ∧
    LoopInv w' p (sent ++ ([s0, s1, s2]).flatten.take written) ∧
    head.drop w'.headIdx = (origHead w' p).drop w'.headIdx ∧
    (8 - w'.headIdx) + w'.contentLen + w'.padLen + written = (8 - w.headIdx) + w.contentLen + w.padLen := by
  intro s0 s1 s2 w0 w1 w2 w'
  have hs0 : s0.length = 8 - w.headIdx := by
    show (head.drop w.headIdx).length = _
    rw [hh, List.length_drop, origHead_length]
  have hs1 : s1.length = w.contentLen := by
    show (p.drop _).length = _
    rw [List.length_drop]; have := h.clen; omega
  have hs2 : s2.length = w.padLen := by simp [s2, zeros]
  have hle' : written ≤ s0.length + s1.length + s2.length := by
    have : ([head.drop w.headIdx, p.drop (p.length - w.contentLen), zeros w.padLen]).flatten.length
        = s0.length + s1.length + s2.length := by
      show ([s0, s1, s2]).flatten.length = _
      simp [Nat.add_assoc]
    omega
  have hidx := h.hidx
  have hclen := h.clen
  refine ⟨by omega, ?_, ?_, ?_⟩
  · -- the invariant
    have hrem : remaining w' p = ([s0, s1, s2]).flatten.drop written := by
      have e0 : (origHead w p).drop (w.headIdx + w0) = s0.drop written := by
        show _ = (head.drop w.headIdx).drop written
        rw [hh, List.drop_drop]
        by_cases hc : written ≤ s0.length
        · have : w0 = written := by omega
          rw [this]
        · rw [List.drop_of_length_le, List.drop_of_length_le]
          · rw [origHead_length]; omega
          · rw [origHead_length]; omega
      have e1 : p.drop (p.length - (w.contentLen - w1)) = s1.drop (written - s0.length) := by
        show _ = (p.drop _).drop _
        rw [List.drop_drop]
        by_cases hc : written - s0.length ≤ s1.length
        · have : p.length - (w.contentLen - w1) = p.length - w.contentLen + (written - s0.length) := by
            omega
          rw [this]
        · rw [List.drop_of_length_le, List.drop_of_length_le] <;> omega
      have e2 : zeros (w.padLen - w2) = s2.drop (written - s0.length - s1.length) := by
        show _ = (zeros w.padLen).drop _
        unfold zeros
        rw [List.drop_replicate]
        congr 1
        omega
      show (origHead w' p).drop (w.headIdx + w0) ++ p.drop (p.length - (w.contentLen - w1)) ++
        zeros (w.padLen - w2) = _
      have : origHead w' p = origHead w p := rfl
      rw [this, e0, e1, e2]
      simp [List.drop_append, Nat.sub_sub]
    refine ⟨h.pos, ?_, ?_, ?_, ?_, ?_⟩
    · show w.headIdx + w0 ≤ 8; omega
    · show w.contentLen - w1 ≤ p.length; omega
    · show w.padLen - w2 ≤ _; have := h.plen; omega
    · intro h8
      have h8' : w.headIdx + w0 < 8 := h8
      have hlt : w.headIdx < 8 := by omega
      obtain ⟨e1, e2⟩ := h.early hlt
      have : w1 = 0 := by omega
      have : w2 = 0 := by omega
      show w.contentLen - w1 = _ ∧ w.padLen - w2 = _
      omega
    · show recordOf w.rtype w.id p = _
      rw [h.split, hrem, List.append_assoc]
      congr 1
      have : remaining w p = ([s0, s1, s2]).flatten := by
        simp [remaining, s0, s1, s2, hh]
      rw [this, List.take_append_drop]
  · show head.drop (w.headIdx + w0) = (origHead w p).drop (w.headIdx + w0)
    rw [← List.drop_drop, ← List.drop_drop, hh]
  · show 8 - (w.headIdx + w0) + (w.contentLen - w1) + (w.padLen - w2) + written = _
    omega

/-- Post-condition of `writeLoop`: it appended `delta`, re-established the invariant for
`sent ++ delta`, reports `Ready` only when everything is out, never panics. -/
def LoopPost (w : Writer) (p : Bytes) (t : Transport) (sent : Bytes)
    (w' : Writer) (t' : Transport) (res : WRes) : Prop :=
  ∃ delta, t'.wlog = t.wlog ++ delta ∧ LoopInv w' p (sent ++ delta) ∧ SameStream w w' ∧
    (∀ k, res = .ready k → k = p.length ∧ w'.isWriting = false) ∧
    (res = .pending ∨ (∃ e, res = .err e) → w'.isWriting = true) ∧
    (∀ s, res ≠ .panic s)

/-- `writeLoop` from a state satisfying the invariant, with enough fuel. -/
theorem writeLoop_spec (fuel : Nat) : ∀ (w : Writer) (head p : Bytes) (t : Transport) (sent : Bytes),
    LoopInv w p sent → head.drop w.headIdx = (origHead w p).drop w.headIdx →
    (8 - w.headIdx) + w.contentLen + w.padLen < fuel →
    ∀ w' t' res, writeLoop fuel w head p t = (w', t', res) →
    LoopPost w p t sent w' t' res := by
  induction fuel with
  | zero => intro w head p t sent _ _ hf; omega
  | succ fuel ih =>
    intro w head p t sent hinv hh hf w' t' res hrun
    rw [writeLoop] at hrun
    by_cases hw : w.isWriting = true
    · simp only [hw, Bool.not_true, Bool.false_eq_true, if_false] at hrun
      have hcl : ¬ w.contentLen > p.length := by have := hinv.clen; omega
      simp only [hcl, if_false] at hrun
      rcases hv : t.writeV [head.drop w.headIdx, p.drop (p.length - w.contentLen), zeros w.padLen] "V"
        with ⟨t1, r⟩
      rw [hv] at hrun
      have stay : ∀ r', (r = .pending ∨ ∃ e, r = .ready (.error e)) → (w, t1, r') = (w', t', res) →
          (r' = .pending ∨ ∃ e, r' = .err e) → LoopPost w p t sent w' t' res := by
        intro r' hr heq hr'
        have hlog := writeV_other hv hr
        cases heq
        refine ⟨[], by simp [hlog], by simpa using hinv, SameStream.refl _, ?_, fun _ => hw, ?_⟩
        · intro k hk; rcases hr' with hk' | ⟨e, hk'⟩ <;> rw [hk'] at hk <;> cases hk
        · intro s hs; rcases hr' with hk' | ⟨e, hk'⟩ <;> rw [hk'] at hs <;> cases hs
      cases r with
      | pending => exact stay _ (Or.inl rfl) hrun (Or.inl rfl)
      | ready x =>
        cases x with
        | error e => exact stay _ (Or.inr ⟨e, rfl⟩) hrun (Or.inr ⟨e, rfl⟩)
        | ok k =>
          obtain ⟨hk, hlog⟩ := writeV_ok hv
          cases k with
          | zero =>
            simp only at hrun
            cases hrun
            refine ⟨[], by simpa using hlog, by simpa using hinv, SameStream.refl _, ?_, fun _ => hw, ?_⟩
            · intro k hk; cases hk
            · intro s hs; cases hs
          | succ k =>
            obtain ⟨hz, hinv', hh', hm⟩ := loop_step hinv hh (k + 1) hk
            simp only at hrun
            simp only [ne_eq, hz, not_true_eq_false, if_false] at hrun
            obtain ⟨d2, hl2, hi2, hs2, hr2, hp2, hq2⟩ :=
              ih _ head p t1 _ hinv' hh' (by omega) w' t' res hrun
            refine ⟨([head.drop w.headIdx, p.drop (p.length - w.contentLen), zeros w.padLen]).flatten.take (k + 1) ++ d2,
              ?_, ?_, ?_, hr2, hp2, hq2⟩
            · rw [hl2, hlog, List.append_assoc]
            · rw [← List.append_assoc]; exact hi2
            · exact SameStream.trans ⟨rfl, rfl, rfl, rfl⟩ hs2
    · have hw' : w.isWriting = false := by simpa using hw
      simp [hw'] at hrun
      obtain ⟨h1, h2, h3⟩ := hrun
      subst h1 h2 h3
      refine ⟨[], by simp, by simpa using hinv, SameStream.refl _, ?_, ?_, ?_⟩
      · intro k hk; cases hk; exact ⟨rfl, hw'⟩
      · intro hk; rcases hk with hk | ⟨e, hk⟩ <;> cases hk
      · intro s hs; cases hs

/-- Unconditionally (any state, any fuel, any transport): `writeLoop` only appends to the byte log
and never touches the stream type, the request id, the lock or `orig_len`. -/
theorem writeLoop_frame (fuel : Nat) : ∀ (w : Writer) (head p : Bytes) (t : Transport) w' t' res,
    writeLoop fuel w head p t = (w', t', res) →
    SameStream w w' ∧ ∃ delta, t'.wlog = t.wlog ++ delta := by
  induction fuel with
  | zero =>
    intro w head p t w' t' res h
    rw [writeLoop] at h; cases h
    exact ⟨SameStream.refl _, [], by simp⟩
  | succ fuel ih =>
    intro w head p t w' t' res h
    rw [writeLoop] at h
    split at h
    · cases h; exact ⟨SameStream.refl _, [], by simp⟩
    · split at h
      · cases h; exact ⟨SameStream.refl _, [], by simp⟩
      · rcases hv : t.writeV [head.drop w.headIdx, p.drop (p.length - w.contentLen), zeros w.padLen] "V"
          with ⟨t1, r⟩
        simp only at h
        rw [hv] at h
        cases r with
        | pending =>
          cases h
          exact ⟨SameStream.refl _, [], by simp [writeV_other hv (Or.inl rfl)]⟩
        | ready x =>
          cases x with
          | error e =>
            cases h
            exact ⟨SameStream.refl _, [], by simp [writeV_other hv (Or.inr ⟨e, rfl⟩)]⟩
          | ok k =>
            obtain ⟨_, hlog⟩ := writeV_ok hv
            cases k with
            | zero =>
              cases h
              exact ⟨SameStream.refl _, [], by simpa using hlog⟩
            | succ k =>
              simp only at h
              split at h
              · cases h
                exact ⟨SameStream.refl _, _, hlog⟩
              · obtain ⟨hs, d, hd⟩ := ih _ _ _ _ _ _ _ h
                refine ⟨SameStream.trans ⟨rfl, rfl, rfl, rfl⟩ hs, ?_⟩
                rw [hd, hlog, List.append_assoc]
                exact ⟨_, rfl⟩

/-! ## `poll_write`, case by case -/

/-- The writer state `get_or_insert_with` sets up for a new record. -/
def fresh (w : Writer) (buf : Bytes) : Writer :=
  { w with contentLen := min buf.length 65535, padLen := RecordHeader.autoPadding (min buf.length 65535),
           headIdx := 0, origLen := min buf.length 65535, lock := .polling }

theorem fresh_isWriting (w : Writer) {buf : Bytes} (hb : buf ≠ []) : (fresh w buf).isWriting = true := by
  have : 0 < buf.length := List.length_pos_iff.mpr hb
  have h1 : min buf.length 65535 ≠ 0 := by omega
  simp [fresh, Writer.isWriting, h1]

/-- Starting a record is the same as continuing from the freshly set-up state. -/
theorem pollWrite_idle (w : Writer) (me : Nat) {buf : Bytes} (m : MutexSt) (t : Transport) (hb : buf ≠ [])
    (hl : w.lock = .none) (hw : w.isWriting = false) :
    w.pollWrite me buf m t = (fresh w buf).pollWrite me buf m t := by
  have hb' : buf.isEmpty = false := by cases buf <;> simp_all
  simp [Writer.pollWrite, hb', hl, hw, fresh]

/-- The assertion "lock was dropped mid-write". -/
theorem pollWrite_broken (w : Writer) (me : Nat) {buf : Bytes} (m : MutexSt) (t : Transport) (hb : buf ≠ [])
    (hl : w.lock = .none) (hw : w.isWriting = true) :
    w.pollWrite me buf m t = (w, m, t, .panic "async_io:71 lock was dropped mid-write") := by
  have hb' : buf.isEmpty = false := by cases buf <;> simp_all
  simp [Writer.pollWrite, hb', hl, hw]

/-- The two assertions that can fire with a lock future present. -/
theorem pollWrite_misuse (w : Writer) (me : Nat) {buf : Bytes} (m : MutexSt) (t : Transport) (hb : buf ≠ [])
    (hl : w.lock ≠ .none) (hbad : w.isWriting = false ∨ buf.length < w.origLen) :
    ∃ s, w.pollWrite me buf m t = (w, m, t, .panic s) := by
  have hb' : buf.isEmpty = false := by cases buf <;> simp_all
  by_cases hw : w.isWriting = true
  · have : buf.length < w.origLen := by rcases hbad with h | h; simp [hw] at h; exact h
    exact ⟨"async_io:79 buf shrunk between calls to poll_write",
      by simp [Writer.pollWrite, hb', hl, hw, this]⟩
  · have hw' : w.isWriting = false := by simpa using hw
    exact ⟨"async_io:77 poll_write called while poll_flush is pending",
      by simp [Writer.pollWrite, hb', hl, hw']⟩

/-- The regular path of `poll_write` once a lock future exists. -/
theorem pollWrite_started (w : Writer) (me : Nat) {buf : Bytes} (m : MutexSt) (t : Transport) (hb : buf ≠ [])
    (hl : w.lock ≠ .none) (hw : w.isWriting = true) (ho : w.origLen ≤ buf.length) :
    w.pollWrite me buf m t =
      if (lockPoll w.lock m (me + 1)).2.2 = false then
        ({ w with lock := (lockPoll w.lock m (me + 1)).1 }, (lockPoll w.lock m (me + 1)).2.1, t, .pending)
      else
        match writeLoop (8 + w.contentLen + w.padLen + 1) { w with lock := (lockPoll w.lock m (me + 1)).1 }
            w.headBytes (buf.take w.origLen) t with
        | (w', t', .ready n) => ({ w' with lock := .none }, Option.none, t', .ready n)
        | (w', t', r) => (w', (lockPoll w.lock m (me + 1)).2.1, t', r) := by
  have hb' : buf.isEmpty = false := by cases buf <;> simp_all
  have ho' : ¬ buf.length < w.origLen := by omega
  simp [Writer.pollWrite, hb', hl, hw, ho']
  rfl

/-! ## Mutex consistency (ownership) -/

/-- A party's lock future is in state `held` exactly when the mutex names that party as owner. -/
def Consistent (owner : Nat) (l : LockSt) (m : MutexSt) : Prop := l = .held ↔ m = some owner

/-- No *other* party owned the mutex before or after the step. -/
def Touched (owner : Nat) (m m' : MutexSt) : Prop :=
  (m = none ∨ m = some owner) ∧ (m' = none ∨ m' = some owner)

theorem lockPoll_spec (l : LockSt) (m : MutexSt) (me : Nat) (hc : Consistent me l m) :
    Consistent me (lockPoll l m me).1 (lockPoll l m me).2.1 ∧
    ((lockPoll l m me).2.2 = true →
      (lockPoll l m me).1 = .held ∧ (lockPoll l m me).2.1 = some me ∧ (m = none ∨ m = some me)) ∧
    ((lockPoll l m me).2.2 = false →
      (lockPoll l m me).1 = .polling ∧ (lockPoll l m me).2.1 = m ∧ l ≠ .held ∧ m ≠ none) := by
  unfold Consistent at *
  cases l <;> cases m <;> simp [lockPoll] at hc ⊢ <;> simp_all

/-- What one `poll_write` does to the shared state, for any writer state and any buffer. -/
def OwnPost (owner : Nat) (m : MutexSt) (t : Transport) (l' : LockSt) (m' : MutexSt) (t' : Transport)
    (done : Prop) : Prop :=
  Consistent owner l' m' ∧ (m' = m ∨ Touched owner m m') ∧
  ∃ delta, t'.wlog = t.wlog ++ delta ∧
    (delta ≠ [] → (m = none ∨ m = some owner) ∧ (m' = some owner ∨ (m' = none ∧ done)))

theorem OwnPost.unchanged {owner : Nat} {m : MutexSt} {t : Transport} {l : LockSt} {done : Prop}
    (hc : Consistent owner l m) : OwnPost owner m t l m t done :=
  ⟨hc, Or.inl rfl, [], by simp, fun h => absurd rfl h⟩

theorem pollWrite_own_started (w : Writer) (me : Nat) (buf : Bytes) (m : MutexSt) (t : Transport)
    (hb : buf ≠ []) (hl : w.lock ≠ .none) (hc : Consistent (me + 1) w.lock m)
    {w' : Writer} {m' : MutexSt} {t' : Transport} {res : WRes}
    (h : w.pollWrite me buf m t = (w', m', t', res)) :
    OwnPost (me + 1) m t w'.lock m' t' (∃ k, res = .ready k) ∧ w'.rtype = w.rtype ∧ w'.id = w.id := by
  by_cases hbad : w.isWriting = false ∨ buf.length < w.origLen
  · obtain ⟨s, hs⟩ := pollWrite_misuse w me m t hb hl hbad
    rw [hs] at h; cases h
    exact ⟨OwnPost.unchanged hc, rfl, rfl⟩
  · have hw : w.isWriting = true := by
      cases hw : w.isWriting
      · exact absurd (Or.inl hw) hbad
      · rfl
    have ho : w.origLen ≤ buf.length := by
      have : ¬ buf.length < w.origLen := fun h => hbad (Or.inr h)
      omega
    rw [pollWrite_started w me m t hb hl hw ho] at h
    obtain ⟨hc', hgot, hnot⟩ := lockPoll_spec w.lock m (me + 1) hc
    split at h
    · rename_i hg
      obtain ⟨h1, h2, _, _⟩ := hnot hg
      cases h
      refine ⟨⟨hc', Or.inl h2, [], by simp, fun h => absurd rfl h⟩, rfl, rfl⟩
    · rename_i hg
      have hg' : (lockPoll w.lock m (me + 1)).2.2 = true := by simpa using hg
      obtain ⟨h1, h2, h3⟩ := hgot hg'
      rcases hl' : writeLoop (8 + w.contentLen + w.padLen + 1)
          { w with lock := (lockPoll w.lock m (me + 1)).1 } w.headBytes (buf.take w.origLen) t
        with ⟨w3, t3, r⟩
      rw [hl'] at h
      obtain ⟨⟨f1, f2, f3, f4⟩, d, hd⟩ := writeLoop_frame _ _ _ _ _ _ _ _ hl'
      have hcases : (∃ n, r = .ready n) ∨ ∀ n, r ≠ .ready n := by
        cases r
        · exact Or.inl ⟨_, rfl⟩
        all_goals exact Or.inr (fun n hn => by cases hn)
      rcases hcases with ⟨n, rfl⟩ | hnr
      · cases h
        refine ⟨⟨by simp [Consistent], Or.inr ⟨h3, Or.inl rfl⟩, d, hd, fun _ => ⟨h3, Or.inr ⟨rfl, n, rfl⟩⟩⟩, f1, f2⟩
      · have : (w', m', t', res) = (w3, (lockPoll w.lock m (me + 1)).2.1, t3, r) := by
          rw [← h]
          cases r
          · exact absurd rfl (hnr _)
          all_goals rfl
        cases this
        refine ⟨⟨?_, Or.inr ⟨h3, Or.inr h2⟩, d, hd, fun _ => ⟨h3, Or.inl h2⟩⟩, f1, f2⟩
        rw [f3]; exact hc'

/-- **Ownership lemma for `poll_write`** (any writer state, any buffer, any transport). -/
theorem pollWrite_own (w : Writer) (me : Nat) (buf : Bytes) (m : MutexSt) (t : Transport)
    (hc : Consistent (me + 1) w.lock m)
    {w' : Writer} {m' : MutexSt} {t' : Transport} {res : WRes}
    (h : w.pollWrite me buf m t = (w', m', t', res)) :
    OwnPost (me + 1) m t w'.lock m' t' (∃ k, res = .ready k) ∧ w'.rtype = w.rtype ∧ w'.id = w.id := by
  by_cases hb : buf = []
  · subst hb
    simp [Writer.pollWrite] at h
    obtain ⟨rfl, rfl, rfl, rfl⟩ := h
    exact ⟨OwnPost.unchanged hc, rfl, rfl⟩
  · by_cases hl : w.lock = .none
    · by_cases hw : w.isWriting = true
      · rw [pollWrite_broken w me m t hb hl hw] at h; cases h
        exact ⟨OwnPost.unchanged hc, rfl, rfl⟩
      · have hw' : w.isWriting = false := by simpa using hw
        rw [pollWrite_idle w me m t hb hl hw'] at h
        have hc1 : Consistent (me + 1) (fresh w buf).lock m := by
          unfold Consistent at *
          simp [fresh]
          intro hm
          have := hc.mpr hm
          rw [hl] at this; cases this
        exact pollWrite_own_started (fresh w buf) me buf m t hb (by simp [fresh]) hc1 h
    · exact pollWrite_own_started w me buf m t hb hl hc h

/-! ## `poll_flush` -/

theorem pollFlush_writing (w : Writer) (me : Nat) (m : MutexSt) (t : Transport) (hw : w.isWriting = true) :
    w.pollFlush me m t = (w, m, t, .panic "async_io:122 poll_flush called while poll_write is pending") := by
  simp [Writer.pollFlush, hw]

/-- The mutex is owned by somebody else: the transport is not touched at all. -/
theorem pollFlush_blocked (w : Writer) (me : Nat) (m : MutexSt) (t : Transport) (hw : w.isWriting = false)
    (hl : w.lock ≠ .held) (hm : m ≠ none) :
    w.pollFlush me m t = ({ w with lock := .polling }, m, t, .pending) := by
  obtain ⟨j, rfl⟩ := Option.ne_none_iff_exists'.mp hm
  cases hl' : w.lock <;> simp_all [Writer.pollFlush, lockPoll]

/-- The mutex is free or already ours: flush under the lock; release it iff the flush is `Ready`. -/
theorem pollFlush_locked (w : Writer) (me : Nat) (m : MutexSt) (t : Transport) (hw : w.isWriting = false)
    (hc : Consistent (me + 1) w.lock m) (hl : w.lock = .held ∨ m = none) :
    w.pollFlush me m t =
      match t.flush with
      | (t', .pending) => ({ w with lock := .held }, some (me + 1), t', .pending)
      | (t', .ready (.ok ())) => ({ w with lock := .none }, none, t', .ready 0)
      | (t', .ready (.error e)) => ({ w with lock := .none }, none, t', .err e) := by
  have hm : (lockPoll (if w.lock == .none then LockSt.polling else w.lock) m (me + 1))
      = (.held, some (me + 1), true) := by
    rcases hl with hl | hl
    · have := hc.mp hl
      simp [hl, lockPoll, this]
    · subst hl
      cases hl' : w.lock <;> simp [lockPoll]
      have := hc.mp hl'
      cases this
  simp only [Writer.pollFlush, hw, hm]
  rcases t.flush with ⟨t1, r⟩
  cases r with
  | pending => simp
  | ready x => cases x <;> simp

theorem pollFlush_own (w : Writer) (me : Nat) (m : MutexSt) (t : Transport)
    (hc : Consistent (me + 1) w.lock m)
    {w' : Writer} {m' : MutexSt} {t' : Transport} {res : WRes}
    (h : w.pollFlush me m t = (w', m', t', res)) :
    OwnPost (me + 1) m t w'.lock m' t' True ∧ w'.rtype = w.rtype ∧ w'.id = w.id ∧
      t'.wlog = t.wlog ∧ w'.isWriting = w.isWriting := by
  by_cases hw : w.isWriting = true
  · rw [pollFlush_writing w me m t hw] at h; cases h
    exact ⟨OwnPost.unchanged hc, rfl, rfl, rfl, rfl⟩
  · have hw' : w.isWriting = false := by simpa using hw
    by_cases hl : w.lock = .held ∨ m = none
    · rw [pollFlush_locked w me m t hw' hc hl] at h
      have hfl := flush_wlog t
      have hm0 : m = none ∨ m = some (me + 1) := by
        rcases hl with hl | hl
        · exact Or.inr (hc.mp hl)
        · exact Or.inl hl
      rcases hf : t.flush with ⟨t1, r⟩
      rw [hf] at h hfl
      simp only at hfl
      cases r with
      | pending =>
        cases h
        exact ⟨⟨by simp [Consistent], Or.inr ⟨hm0, Or.inr rfl⟩, [], by simp [hfl], fun h => absurd rfl h⟩,
          rfl, rfl, hfl, rfl⟩
      | ready x =>
        cases x with
        | ok u =>
          cases h
          exact ⟨⟨by simp [Consistent], Or.inr ⟨hm0, Or.inl rfl⟩, [], by simp [hfl], fun h => absurd rfl h⟩,
            rfl, rfl, hfl, rfl⟩
        | error e =>
          cases h
          exact ⟨⟨by simp [Consistent], Or.inr ⟨hm0, Or.inl rfl⟩, [], by simp [hfl], fun h => absurd rfl h⟩,
            rfl, rfl, hfl, rfl⟩
    · have h1 : w.lock ≠ .held := fun h => hl (Or.inl h)
      have h2 : m ≠ none := fun h => hl (Or.inr h)
      rw [pollFlush_blocked w me m t hw' h1 h2] at h; cases h
      refine ⟨⟨?_, Or.inl rfl, [], by simp, fun h => absurd rfl h⟩, rfl, rfl, rfl, rfl⟩
      unfold Consistent at *
      simp
      intro hm
      exact h1 (hc.mpr hm)

/-! ## `poll_output` (the request's own management replies) -/

/-- `outLoop` writes a prefix of the parser's output buffer, consumes exactly what was accepted,
and reports `Ready` only when the buffer is empty. -/
theorem outLoop_spec (fuel : Nat) : ∀ (sp : Str.Parser) (t : Transport) sp' t' o,
    outLoop fuel sp t = (sp', t', o) →
    ∃ delta, t'.wlog = t.wlog ++ delta ∧ sp.output = delta ++ sp'.output ∧
      sp' = { sp with output := sp'.output } ∧ (o = .ready → sp'.output = []) ∧
      (sp.output.length < fuel → ∀ s, o ≠ .panic s) := by
  induction fuel with
  | zero =>
    intro sp t sp' t' o h
    rw [outLoop] at h; cases h
    exact ⟨[], by simp, by simp, rfl, (fun h => by cases h), (fun h => by omega)⟩
  | succ fuel ih =>
    intro sp t sp' t' o h
    rw [outLoop] at h
    split at h
    · rename_i he
      cases h
      exact ⟨[], by simp, by simp, rfl, (fun _ => by simpa using he), (fun _ s hs => by cases hs)⟩
    · rename_i he
      rcases hv : t.write sp.output with ⟨t1, r⟩
      rw [hv] at h
      unfold Transport.write at hv
      cases r with
      | pending =>
        cases h
        exact ⟨[], by simp [writeV_other hv (Or.inl rfl)], by simp, rfl, (fun h => by cases h),
          (fun _ s hs => by cases hs)⟩
      | ready x =>
        cases x with
        | error e =>
          cases h
          exact ⟨[], by simp [writeV_other hv (Or.inr ⟨e, rfl⟩)], by simp, rfl, (fun h => by cases h),
            (fun _ s hs => by cases hs)⟩
        | ok k =>
          obtain ⟨hk, hlog⟩ := writeV_ok hv
          simp only [List.flatten_cons, List.flatten_nil, List.append_nil] at hk hlog
          cases k with
          | zero =>
            cases h
            exact ⟨[], by simpa using hlog, by simp, rfl, (fun h => by cases h), (fun _ s hs => by cases hs)⟩
          | succ k =>
            simp only at h
            obtain ⟨d, hd, ho, hs, hr, hp⟩ := ih _ _ _ _ _ h
            refine ⟨sp.output.take (k + 1) ++ d, ?_, ?_, ?_, hr, ?_⟩
            · rw [hd, hlog, List.append_assoc]
            · simp only [Str.Parser.consumeOutput] at ho
              rw [List.append_assoc, ← ho, List.take_append_drop]
            · rw [hs]; rfl
            · intro hf
              apply hp
              simp only [Str.Parser.consumeOutput, List.length_drop]
              omega

/-- The lock state `get_or_insert_with` leaves behind. -/
def lock0 (l : LockSt) : LockSt := if l == .none then .polling else l

theorem pollOutput_nonempty (r : AReq) (m : MutexSt) (t : Transport) (hne : r.sp.output ≠ []) :
    r.pollOutput m t =
      if (lockPoll (lock0 r.lock) m 0).2.2 = false then
        ({ r with lock := (lockPoll (lock0 r.lock) m 0).1 }, (lockPoll (lock0 r.lock) m 0).2.1, t, .pending)
      else
        match outLoop (r.sp.output.length + 1) r.sp t with
        | (sp, t', .ready) => ({ r with sp := sp, lock := .none }, Option.none, t', .ready)
        | (sp, t', o) => ({ r with sp := sp, lock := (lockPoll (lock0 r.lock) m 0).1 },
            (lockPoll (lock0 r.lock) m 0).2.1, t', o) := by
  have he : r.sp.output.isEmpty = false := by cases h : r.sp.output <;> simp_all
  simp [AReq.pollOutput, he, lock0]
  rfl

theorem pollOutput_own (r : AReq) (m : MutexSt) (t : Transport) (hc : Consistent 0 r.lock m)
    {r' : AReq} {m' : MutexSt} {t' : Transport} {o : ORes}
    (h : r.pollOutput m t = (r', m', t', o)) :
    OwnPost 0 m t r'.lock m' t' (o = .ready) ∧
      ∃ delta, t'.wlog = t.wlog ++ delta ∧ r.sp.output = delta ++ r'.sp.output ∧
        (o = .ready → r'.sp.output = [] ∧ r'.lock = .none) ∧
        ((o = .pending ∨ ∃ e, o = .err e) → r.sp.output ≠ []) := by
  by_cases hne : r.sp.output = []
  · have he : r.sp.output.isEmpty = true := by simp [hne]
    unfold AReq.pollOutput at h
    simp only [he, if_true] at h
    split at h <;> cases h
    · exact ⟨OwnPost.unchanged hc, [], by simp, by simp, (fun h => by cases h),
        (fun h => by rcases h with h | ⟨e, h⟩ <;> cases h)⟩
    · rename_i hl
      exact ⟨OwnPost.unchanged hc, [], by simp, by simp, (fun _ => ⟨hne, by simpa using hl⟩),
        (fun h => by rcases h with h | ⟨e, h⟩ <;> cases h)⟩
  · rw [pollOutput_nonempty r m t hne] at h
    have hc0 : Consistent 0 (lock0 r.lock) m := by
      unfold Consistent lock0 at *
      cases hl : r.lock <;> simp_all
    obtain ⟨hc', hgot, hnot⟩ := lockPoll_spec _ m 0 hc0
    generalize lock0 r.lock = l0 at *
    split at h
    · rename_i hg
      obtain ⟨h1, h2, _, _⟩ := hnot hg
      cases h
      exact ⟨⟨hc', Or.inl h2, [], by simp, fun h => absurd rfl h⟩, [], by simp, by simp,
        (fun h => by cases h), (fun _ => hne)⟩
    · rename_i hg
      have hg' : (lockPoll l0 m 0).2.2 = true := by simpa using hg
      obtain ⟨h1, h2, h3⟩ := hgot hg'
      rcases hl' : outLoop (r.sp.output.length + 1) r.sp t with ⟨sp3, t3, o3⟩
      rw [hl'] at h
      obtain ⟨d, hd, hout, _, hrdy, _⟩ := outLoop_spec _ _ _ _ _ _ hl'
      have hcases : o3 = .ready ∨ o3 ≠ .ready := by
        cases o3
        · exact Or.inl rfl
        all_goals exact Or.inr (fun hn => by cases hn)
      rcases hcases with rfl | hnr
      · cases h
        exact ⟨⟨by simp [Consistent], Or.inr ⟨h3, Or.inl rfl⟩, d, hd, fun _ => ⟨h3, Or.inr ⟨rfl, rfl⟩⟩⟩,
          d, hd, hout, (fun _ => ⟨hrdy rfl, rfl⟩), (fun _ => hne)⟩
      · have : (r', m', t', o) = ({ r with sp := sp3, lock := (lockPoll l0 m 0).1 },
            (lockPoll l0 m 0).2.1, t3, o3) := by
          rw [← h]
          cases o3
          · exact absurd rfl hnr
          all_goals rfl
        cases this
        exact ⟨⟨hc', Or.inr ⟨h3, Or.inr h2⟩, d, hd, fun _ => ⟨h3, Or.inl h2⟩⟩,
          d, hd, hout, (fun h => absurd h hnr), (fun _ => hne)⟩

/-! ## The writer invariant and the functional specification of one `poll_write` -/

/-- Invariant of writer `w` while a write of `buf` is in progress and `sent` has reached the
transport: the lock is held (or still being acquired, and then nothing was sent), `orig_len` is the
capped buffer length, and the loop invariant holds for the truncated buffer. -/
structure WInv (w : Writer) (buf sent : Bytes) : Prop where
  lock : w.lock = .held ∨ (w.lock = .polling ∧ sent = [])
  orig : w.origLen = min buf.length 65535
  writing : w.isWriting = true
  loop : LoopInv w (buf.take (min buf.length 65535)) sent

theorem LoopInv.withLock {w : Writer} {p sent : Bytes} (h : LoopInv w p sent) (l : LockSt) :
    LoopInv { w with lock := l } p sent :=
  ⟨h.pos, h.hidx, h.clen, h.plen, h.early, h.split⟩

theorem fresh_WInv (w : Writer) {buf : Bytes} (hb : buf ≠ []) : WInv (fresh w buf) buf [] := by
  have hpos : 0 < buf.length := List.length_pos_iff.mpr hb
  have hlen : (buf.take (min buf.length 65535)).length = min buf.length 65535 := by
    rw [List.length_take]; omega
  refine ⟨Or.inr ⟨rfl, rfl⟩, rfl, fresh_isWriting w hb, ?_⟩
  refine ⟨by omega, by simp [fresh], ?_, ?_, ?_, ?_⟩
  · show min buf.length 65535 ≤ _; omega
  · show RecordHeader.autoPadding (min buf.length 65535) ≤ _; rw [hlen]; exact Nat.le_refl _
  · intro _; rw [hlen]; exact ⟨rfl, rfl⟩
  · show recordOf w.rtype w.id _ = [] ++ remaining (fresh w buf) _
    simp only [remaining, recordOf, origHead, List.nil_append]
    show _ = List.drop 0 _ ++ List.drop (_ - min buf.length 65535) _ ++ zeros (RecordHeader.autoPadding (min buf.length 65535))
    rw [hlen, Nat.sub_self]
    rfl

/-- What one `poll_write` of a write in progress does. -/
def WritePost (me : Nat) (w : Writer) (buf sent : Bytes) (t : Transport)
    (w' : Writer) (m' : MutexSt) (t' : Transport) (res : WRes) : Prop :=
  w'.rtype = w.rtype ∧ w'.id = w.id ∧
  ∃ delta, t'.wlog = t.wlog ++ delta ∧
    (∀ k, res = .ready k →
      k = min buf.length 65535 ∧ sent ++ delta = recordOf w.rtype w.id (buf.take k) ∧
      m' = none ∧ w'.lock = .none ∧ w'.isWriting = false) ∧
    ((res = .pending ∨ ∃ e, res = .err e) →
      WInv w' buf (sent ++ delta) ∧ Consistent (me + 1) w'.lock m') ∧
    (∀ e, res = .err e → m' = some (me + 1) ∧ w'.lock = .held) ∧
    (∀ s, res ≠ .panic s)

theorem pollWrite_spec (w : Writer) (me : Nat) (buf : Bytes) (m : MutexSt) (t : Transport) (sent : Bytes)
    (hb : buf ≠ []) (hinv : WInv w buf sent) (hc : Consistent (me + 1) w.lock m)
    {w' : Writer} {m' : MutexSt} {t' : Transport} {res : WRes}
    (h : w.pollWrite me buf m t = (w', m', t', res)) :
    WritePost me w buf sent t w' m' t' res := by
  have hl : w.lock ≠ .none := by
    rcases hinv.lock with h | ⟨h, _⟩ <;> rw [h] <;> simp
  have ho : w.origLen ≤ buf.length := by rw [hinv.orig]; omega
  have hplen : (buf.take (min buf.length 65535)).length = min buf.length 65535 := by
    rw [List.length_take]; omega
  rw [pollWrite_started w me m t hb hl hinv.writing ho] at h
  obtain ⟨hc', hgot, hnot⟩ := lockPoll_spec w.lock m (me + 1) hc
  split at h
  · rename_i hg
    obtain ⟨h1, h2, h3, _⟩ := hnot hg
    cases h
    have hs : sent = [] := by
      rcases hinv.lock with h | ⟨_, h⟩
      · exact absurd h h3
      · exact h
    refine ⟨rfl, rfl, [], by simp, (fun k hk => by cases hk), (fun _ => ⟨⟨?_, hinv.orig, hinv.writing, ?_⟩, hc'⟩),
      (fun e he => by cases he), (fun s hs => by cases hs)⟩
    · exact Or.inr ⟨h1, by simp [hs]⟩
    · simpa using hinv.loop.withLock _
  · rename_i hg
    have hg' : (lockPoll w.lock m (me + 1)).2.2 = true := by simpa using hg
    obtain ⟨h1, h2, h3⟩ := hgot hg'
    rcases hl' : writeLoop (8 + w.contentLen + w.padLen + 1)
        { w with lock := (lockPoll w.lock m (me + 1)).1 } w.headBytes (buf.take w.origLen) t
      with ⟨w3, t3, r⟩
    rw [hl'] at h
    have hp : buf.take w.origLen = buf.take (min buf.length 65535) := by rw [hinv.orig]
    rw [hp] at hl'
    have hinv2 : LoopInv { w with lock := (lockPoll w.lock m (me + 1)).1 }
        (buf.take (min buf.length 65535)) sent := hinv.loop.withLock _
    obtain ⟨d, hd, hi3, ⟨f1, f2, f3, f4⟩, hrdy, hpend, hpanic⟩ :=
      writeLoop_spec _ _ _ _ t _ hinv2 (head_harmless hinv2)
        (by show 8 - w.headIdx + w.contentLen + w.padLen < 8 + w.contentLen + w.padLen + 1; omega)
        _ _ _ hl'
    have hcases : (∃ n, r = .ready n) ∨ ∀ n, r ≠ .ready n := by
      cases r
      · exact Or.inl ⟨_, rfl⟩
      all_goals exact Or.inr (fun n hn => by cases hn)
    rcases hcases with ⟨n, rfl⟩ | hnr
    · cases h
      obtain ⟨hn, hw3⟩ := hrdy n rfl
      rw [hplen] at hn
      refine ⟨f1, f2, d, hd, ?_, (fun h => by rcases h with h | ⟨e, h⟩ <;> cases h),
        (fun e he => by cases he), (fun s hs => by cases hs)⟩
      intro k hk
      cases hk
      refine ⟨hn, ?_, rfl, rfl, hw3⟩
      have := hi3.split
      rw [remaining_nil hi3 hw3, List.append_nil, f1, f2] at this
      rw [hn]; exact this.symm
    · have : (w', m', t', res) = (w3, (lockPoll w.lock m (me + 1)).2.1, t3, r) := by
        rw [← h]
        cases r
        · exact absurd rfl (hnr _)
        all_goals rfl
      cases this
      have hheld : w'.lock = .held := by rw [f3]; exact h1
      refine ⟨f1, f2, d, hd, (fun k hk => absurd hk (hnr k)), ?_, (fun e _ => ⟨h2, hheld⟩), hpanic⟩
      intro hp
      refine ⟨⟨Or.inl hheld, by rw [f4]; exact hinv.orig, hpend hp, hi3⟩, ?_⟩
      unfold Consistent
      rw [hheld, h2]
      simp

/-- Same, for the poll that starts the write (idle writer). -/
theorem pollWrite_spec_idle (w : Writer) (me : Nat) (buf : Bytes) (m : MutexSt) (t : Transport)
    (hb : buf ≠ []) (hl : w.lock = .none) (hw : w.isWriting = false) (hm : m ≠ some (me + 1))
    {w' : Writer} {m' : MutexSt} {t' : Transport} {res : WRes}
    (h : w.pollWrite me buf m t = (w', m', t', res)) :
    WritePost me w buf [] t w' m' t' res := by
  rw [pollWrite_idle w me m t hb hl hw] at h
  have hc : Consistent (me + 1) (fresh w buf).lock m := by
    unfold Consistent; simp [fresh]; exact hm
  exact pollWrite_spec (fresh w buf) me buf m t [] hb (fresh_WInv w hb) hc h

end Fcgi.Async
