import Fcgi.Model.StreamParser
import Fcgi.Props.C16
import Fcgi.Props.C17
import Fcgi.Proofs.Header
/-!
# Foundation layer for the stream parser (`Model/StreamParser.lean`)

* `SInv` — the invariant (`free_start ≤ cap`, field widths, active stream ∈ role's input streams);
* `Rel` — what one or more loop iterations may change (a preorder on `(parser, dest, status)`);
* `iter_good`, `loop_good`, `parse_good` — every iteration / the loop / `parse` keeps `Rel`,
  keeps `SInv`, never panics from a state satisfying `SInv`, and an `Err` leaves the offending
  header at the head of `raw` at a record boundary (`headErr`);
* the other operations (`consumeStream`, `compress`, `consumeOutput`, `discardStream`, `setStream`);
* `cmpInputStreams` characterised through `rankOf`.
-/
namespace Fcgi.Str
open Fcgi.Req

/-! ## The invariant -/

def SInv (p : Parser) : Prop :=
  p.freeStart ≤ p.cap ∧ p.pay < 65536 ∧ p.pad < 256 ∧
  (match p.state with | .values v => v < 8 | _ => True) ∧
  (p.stream = none ∨ ∃ s, p.stream = some s ∧ s ∈ inputStreams p.request.role) ∧
  p.request.id < 65536

theorem mem_inputStreams_isInput {role s : Nat} (h : s ∈ inputStreams role) :
    RT.isInputStream s = true := by
  unfold inputStreams at h
  split at h
  · simp [RT.stdin] at h; subst h; rfl
  · split at h
    · simp [RT.stdin, RT.data] at h; rcases h with h | h <;> subst h <;> rfl
    · simp at h

theorem nextInputStream_none_mem (role : Nat) :
    nextInputStream role none = none ∨
      ∃ s, nextInputStream role none = some s ∧ s ∈ inputStreams role := by
  unfold nextInputStream inputStreams
  by_cases h1 : role = 1
  · subst h1; simp
  · by_cases h3 : role = 3
    · subst h3; simp
    · simp [h1, h3]

theorem SInv_fromParser (cap : Nat) (req : Request) (input : Bytes) (mc : Nat)
    (hlen : input.length ≤ cap) (hid : req.id < 65536) :
    SInv (Parser.fromParser cap req input mc) := by
  refine ⟨?_, ?_, ?_, ?_, ?_, ?_⟩ <;> simp [Parser.fromParser, Parser.freeStart] <;> try assumption
  simpa using nextInputStream_none_mem req.role

/-! ## Small facts used by the iteration lemmas -/

theorem fromBytes8 (b0 b1 b2 b3 b4 b5 b6 b7 : UInt8) :
    RecordHeader.fromBytes [b0, b1, b2, b3, b4, b5, b6, b7] =
      if b0.toNat ≠ 1 then some (.error (.unknownVersion b0))
      else if !RT.valid b1.toNat then some (.error (.unknownRecordType b1))
      else some (.ok { rtype := b1.toNat, requestId := be16 b2 b3, contentLength := be16 b4 b5,
                       paddingLength := b6.toNat }) := rfl

theorem fromBytes8_ok {b0 b1 b2 b3 b4 b5 b6 b7 : UInt8} {h : RecordHeader}
    (e : RecordHeader.fromBytes [b0, b1, b2, b3, b4, b5, b6, b7] = some (.ok h)) :
    h.rtype = b1.toNat ∧ h.requestId = be16 b2 b3 ∧ h.contentLength = be16 b4 b5 ∧
      h.paddingLength = b6.toNat ∧ h.contentLength < 65536 ∧ h.paddingLength < 256 := by
  rw [fromBytes8] at e
  split at e
  · cases e
  · split at e
    · cases e
    · cases e
      refine ⟨rfl, rfl, rfl, rfl, Proofs.Header.be16_lt _ _, ?_⟩
      exact UInt8.toNat_lt _

/-- `from_bytes` on 8 bytes never yields the catch-all (`Error::Protocol`) arm. -/
theorem fromBytes8_cases (b0 b1 b2 b3 b4 b5 b6 b7 : UInt8) :
    (∃ v, RecordHeader.fromBytes [b0, b1, b2, b3, b4, b5, b6, b7] = some (.error (.unknownVersion v))) ∨
    (∃ t, RecordHeader.fromBytes [b0, b1, b2, b3, b4, b5, b6, b7] = some (.error (.unknownRecordType t))) ∨
    (∃ h, RecordHeader.fromBytes [b0, b1, b2, b3, b4, b5, b6, b7] = some (.ok h)) := by
  rw [fromBytes8]
  split
  · exact Or.inl ⟨_, rfl⟩
  · split
    · exact Or.inr (Or.inl ⟨_, rfl⟩)
    · exact Or.inr (Or.inr ⟨_, rfl⟩)

theorem insert_lt8 {s b : Nat} (hs : s < 8) (hb : b = 1 ∨ b = 2 ∨ b = 4) : Vars.insert s b < 8 := by
  unfold Vars.insert Vars.has
  rcases hb with rfl | rfl | rfl <;> split <;> simp at * <;> omega

theorem parseName_bit {n : Bytes} {b : Nat} (h : Vars.parseName n = some b) :
    b = 1 ∨ b = 2 ∨ b = 4 := by
  unfold Vars.parseName Vars.table at h
  simp only [List.find?] at h
  split at h
  · simp at h; omega
  · split at h
    · simp at h; omega
    · split at h
      · simp at h; omega
      · simp at h

theorem extend_lt8 (pairs : List (Bytes × Bytes)) : ∀ {s : Nat}, s < 8 → Vars.extend s pairs < 8 := by
  unfold Vars.extend
  induction pairs with
  | nil => intro s hs; simpa using hs
  | cons a t ih =>
    intro s hs
    simp only [List.foldl_cons]
    apply ih
    split
    · rename_i b hb; exact insert_lt8 hs (parseName_bit hb)
    · exact hs

theorem nvall_rest_le (bs : Bytes) : (NV.all bs).2.length ≤ bs.length := by
  obtain ⟨c, hc⟩ := C16.rest_suffix bs
  have := congrArg List.length hc
  simp at this; omega

/-! ## `Rel`: what iterations of the parse loop may change -/

/-- `(p, dest, res)` evolves into `(p', dest', res')`.  All fields are transitive facts. -/
structure Rel (p : Parser) (dest : Option Nat) (res : Status)
    (p' : Parser) (dest' : Option Nat) (res' : Status) : Prop where
  cap : p'.cap = p.cap
  fs : p'.freeStart = p.freeStart
  req : p'.request = p.request
  strm : p'.stream = p.stream
  mc : p'.maxConns = p.maxConns
  g0 : p'.g0 = p.g0
  out_pre : p.output <+: p'.output
  out_len : res'.output + p.output.length = res.output + p'.output.length
  raw_suf : p'.raw <:+ p.raw
  par_pre : p.parsed <+: p'.parsed
  del_pre : res.delivered <+: res'.delivered
  cnt : res'.stream + res.delivered.length + p.parsed.length =
          res.stream + res'.delivered.length + p'.parsed.length
  dsome : dest'.isSome = dest.isSome
  dcap : dest'.getD 0 + res'.delivered.length = dest.getD 0 + res.delivered.length
  dnone : dest = none → res'.delivered = res.delivered
  dpar : dest.isSome = true → p'.parsed = p.parsed
  se : res.streamEnd = true → res'.streamEnd = true

theorem Rel.refl (p : Parser) (dest : Option Nat) (res : Status) : Rel p dest res p dest res := by
  constructor <;> simp

theorem Rel.trans {p₁ p₂ p₃ : Parser} {d₁ d₂ d₃ : Option Nat} {r₁ r₂ r₃ : Status}
    (a : Rel p₁ d₁ r₁ p₂ d₂ r₂) (b : Rel p₂ d₂ r₂ p₃ d₃ r₃) : Rel p₁ d₁ r₁ p₃ d₃ r₃ where
  cap := b.cap.trans a.cap
  fs := b.fs.trans a.fs
  req := b.req.trans a.req
  strm := b.strm.trans a.strm
  mc := b.mc.trans a.mc
  g0 := b.g0.trans a.g0
  out_pre := a.out_pre.trans b.out_pre
  out_len := by have := a.out_len; have := b.out_len; omega
  raw_suf := b.raw_suf.trans a.raw_suf
  par_pre := a.par_pre.trans b.par_pre
  del_pre := a.del_pre.trans b.del_pre
  cnt := by have := a.cnt; have := b.cnt; omega
  dsome := b.dsome.trans a.dsome
  dcap := by have := a.dcap; have := b.dcap; omega
  dnone := fun h => by
    have h2 : d₂ = none := by have := a.dsome; rw [h] at this; simpa using this
    rw [b.dnone h2, a.dnone h]
  dpar := fun h => by
    have h2 : d₂.isSome = true := by rw [a.dsome]; exact h
    rw [b.dpar h2, a.dpar h]
  se := fun h => b.se (a.se h)

/-- Changing only `state`, `pay`, `pad` is invisible to `Rel`. -/
theorem Rel.of_ctl (p : Parser) (dest : Option Nat) (res : Status) (st : SState) (pay pad : Nat) :
    Rel p dest res { p with state := st, pay := pay, pad := pad } dest res := by
  constructor <;> simp [Parser.freeStart]

/-- Dropping `k ≤ raw.length` bytes from the front of `raw` into the gap. -/
theorem Rel.of_drop (p : Parser) (dest : Option Nat) (res : Status) (k : Nat)
    (hk : k ≤ p.raw.length) :
    Rel p dest res { p with raw := p.raw.drop k, g1 := p.g1 + k } dest res := by
  constructor <;> simp [Parser.freeStart, List.drop_suffix] <;> omega

/-- Appending a reply record to `output`. -/
theorem Rel.of_out (p : Parser) (dest : Option Nat) (res : Status) (o : Bytes) :
    Rel p dest res { p with output := p.output ++ o } dest { res with output := res.output + o.length } := by
  constructor <;> simp [Parser.freeStart] <;> omega

theorem Rel.of_se (p : Parser) (dest : Option Nat) (res : Status) :
    Rel p dest res p dest { res with streamEnd := true } := by
  constructor <;> simp

/-! ## `parseHead` -/

/-- The fatal error (if any) that the header at the front of `raw` produces in `parseHead`. -/
def headErr (raw : Bytes) (id : Nat) : Option PErr :=
  match raw with
  | b0 :: b1 :: b2 :: b3 :: b4 :: b5 :: b6 :: b7 :: _ =>
    match RecordHeader.fromBytes [b0, b1, b2, b3, b4, b5, b6, b7] with
    | some (.error (.unknownRecordType _)) => none
    | some (.error (.unknownVersion v)) => some (.unknownVersion v)
    | some (.ok head) =>
      if RT.isInputStream head.rtype && head.requestId == id then none
      else if head.rtype == RT.abortRequest && head.requestId == id then some .abortRequest
      else none
    | _ => some .protocol
  | _ => none

def HeadGood (p : Parser) (dest : Option Nat) (res : Status) : Iter → Prop
  | .cont p' d' r' => Rel p dest res p' d' r' ∧ p'.raw.length < p.raw.length ∧ (SInv p → SInv p')
  | .stop p' r' => Rel p dest res p' dest r' ∧ (SInv p → SInv p')
  | .err p' e => p' = p ∧ headErr p.raw p.request.id = some e
  | .panic _ => ¬ SInv p

theorem cmp_some_of_inv {p : Parser} (h : SInv p) {t : Nat} (ht : RT.isInputStream t = true) :
    cmpInputStreams p.request.role t p.stream ≠ none := by
  obtain ⟨_, _, _, _, hs, _⟩ := h
  unfold cmpInputStreams
  rcases hs with hs | ⟨s, hs, hm⟩
  · rw [hs]; simp
  · rw [hs]; simp [ht, mem_inputStreams_isInput hm]
    split <;> simp

theorem parseHead_good (p : Parser) (dest : Option Nat) (res : Status) :
    HeadGood p dest res (parseHead p dest res) := by
  unfold parseHead
  split
  · rename_i b0 b1 b2 b3 b4 b5 b6 b7 rest hraw
    have hs : rest <:+ p.raw := by rw [hraw]; exact ⟨[b0, b1, b2, b3, b4, b5, b6, b7], rfl⟩
    have hl : p.raw.length = rest.length + 8 := by rw [hraw]; simp
    have hb6 : b6.toNat < 256 := UInt8.toNat_lt _
    have hb45 := Proofs.Header.be16_lt b4 b5
    split
    · -- unknown record type
      simp only [HeadGood]
      refine ⟨?_, by omega, ?_⟩
      · constructor <;> simp [Parser.freeStart, hs] <;> omega
      · rintro ⟨h1, h2, h3, h4, h5, h6⟩
        refine ⟨?_, ?_, ?_, ?_, ?_, ?_⟩ <;> simp [Parser.freeStart] at * <;> first | assumption | omega
    · -- unknown version
      rename_i v hv
      simp only [HeadGood, headErr, hraw, hv, true_and]
    · -- decoded header
      rename_i head hh
      obtain ⟨-, -, -, -, hc, hp⟩ := fromBytes8_ok hh
      have hgo : ∀ (o : Bytes) (st : SState), (∀ v, st = .values v → v < 8) →
          HeadGood p dest res (.cont
            { p with raw := rest, g1 := p.g1 + 8, output := p.output ++ o, state := st,
                     pay := head.contentLength, pad := head.paddingLength }
            dest { res with output := res.output + o.length }) := by
        intro o st hst
        simp only [HeadGood]
        refine ⟨?_, by omega, ?_⟩
        · constructor <;> simp [Parser.freeStart, hs] <;> omega
        · rintro ⟨h1, h2, h3, h4, h5, h6⟩
          refine ⟨?_, ?_, ?_, ?_, ?_, ?_⟩ <;> simp [Parser.freeStart] at * <;>
            first | assumption | omega | skip
          cases st <;> simp
          exact hst _ rfl
      have hgo0 : ∀ (st : SState), (∀ v, st = .values v → v < 8) →
          HeadGood p dest res (.cont
            { p with raw := rest, g1 := p.g1 + 8, state := st,
                     pay := head.contentLength, pad := head.paddingLength } dest res) := by
        intro st hst
        have := hgo [] st hst
        simpa using this
      have hstop : HeadGood p dest res (.stop p { res with streamEnd := true }) :=
        ⟨Rel.of_se p dest res, id⟩
      by_cases hin : (RT.isInputStream head.rtype && head.requestId == p.request.id) = true
      · rw [if_pos hin]
        simp only [Bool.and_eq_true] at hin
        split
        · rename_i hcmp
          simp only [HeadGood]
          exact fun h => cmp_some_of_inv h hin.1 hcmp
        · split
          · exact hgo0 _ (by simp)
          · exact hstop
        · exact hgo0 _ (by simp)
        · exact hstop
      · rw [if_neg hin]
        by_cases hab : (head.rtype == RT.abortRequest && head.requestId == p.request.id) = true
        · rw [if_pos hab]
          simp only [HeadGood, headErr, hraw, hh, true_and]
          rw [if_neg hin, if_pos hab]
        · rw [if_neg hab]
          split
          · exact hgo _ _ (by simp)
          · split
            · exact hgo0 _ (by simp)
            · exact hgo0 _ (by simp)
    · -- unreachable catch-all
      rename_i hne1 hne2 hne3
      exfalso
      rcases fromBytes8_cases b0 b1 b2 b3 b4 b5 b6 b7 with ⟨v, hv⟩ | ⟨t, ht⟩ | ⟨h, hh⟩
      · exact hne2 v hv
      · exact hne1 t ht
      · exact hne3 h hh
  · exact ⟨Rel.refl _ _ _, id⟩

/-! ## `parsePayload` -/

def PayGood (p : Parser) (dest : Option Nat) (res : Status) : Iter → Prop
  | .cont p' d' r' => Rel p dest res p' d' r' ∧ (SInv p → SInv p') ∧ p'.pay = 0 ∧ p'.pad = p.pad
  | .stop p' r' => (∃ d', Rel p dest res p' d' r') ∧ (SInv p → SInv p')
  | .err _ _ => False
  | .panic _ => False

theorem parsePayload_good (p : Parser) (dest : Option Nat) (res : Status) :
    PayGood p dest res (parsePayload p dest res) := by
  unfold parsePayload
  cases hst : p.state with
  | stream =>
    cases dest with
    | some c =>
      simp only []
      split
      · exfalso; omega
      · split
        · rename_i h
          simp only [PayGood]
          refine ⟨?_, ?_, ?_, ?_⟩
          · constructor <;> simp [Parser.freeStart, List.drop_suffix] <;> omega
          · rintro ⟨h1, h2, h3, h4, h5, h6⟩
            refine ⟨?_, ?_, ?_, ?_, ?_, ?_⟩ <;> simp [Parser.freeStart, hst] at * <;>
              first | assumption | omega
          · simp at h; omega
          · trivial
        · simp only [PayGood]
          refine ⟨⟨some (c - min (min p.pay p.raw.length) c), ?_⟩, ?_⟩
          · constructor <;> simp [Parser.freeStart, List.drop_suffix] <;> omega
          · rintro ⟨h1, h2, h3, h4, h5, h6⟩
            refine ⟨?_, ?_, ?_, ?_, ?_, ?_⟩ <;> simp [Parser.freeStart, hst] at * <;>
              first | assumption | omega
    | none =>
      simp only []
      split
      · exfalso; omega
      · split
        · rename_i h
          simp only [PayGood]
          refine ⟨?_, ?_, ?_, ?_⟩
          · constructor <;> simp [Parser.freeStart, List.drop_suffix] <;> omega
          · rintro ⟨h1, h2, h3, h4, h5, h6⟩
            refine ⟨?_, ?_, ?_, ?_, ?_, ?_⟩ <;> simp [Parser.freeStart, hst] at * <;>
              first | assumption | omega
          · simp at h; omega
          · trivial
        · simp only [PayGood]
          refine ⟨⟨none, ?_⟩, ?_⟩
          · constructor <;> simp [Parser.freeStart, List.drop_suffix] <;> omega
          · rintro ⟨h1, h2, h3, h4, h5, h6⟩
            refine ⟨?_, ?_, ?_, ?_, ?_, ?_⟩ <;> simp [Parser.freeStart, hst] at * <;>
              first | assumption | omega
  | skip =>
    simp only []
    split
    · exfalso; omega
    · split
      · rename_i h
        simp only [PayGood]
        refine ⟨?_, ?_, ?_, ?_⟩
        · constructor <;> simp [Parser.freeStart, List.drop_suffix] <;> omega
        · rintro ⟨h1, h2, h3, h4, h5, h6⟩
          refine ⟨?_, ?_, ?_, ?_, ?_, ?_⟩ <;> simp [Parser.freeStart, hst] at * <;>
            first | assumption | omega
        · simp at h; omega
        · trivial
      · simp only [PayGood]
        refine ⟨⟨dest, ?_⟩, ?_⟩
        · constructor <;> simp [Parser.freeStart, List.drop_suffix] <;> omega
        · rintro ⟨h1, h2, h3, h4, h5, h6⟩
          refine ⟨?_, ?_, ?_, ?_, ?_, ?_⟩ <;> simp [Parser.freeStart, hst] at * <;>
            first | assumption | omega
  | values v =>
    have hrest := nvall_rest_le (List.take (min p.pay p.raw.length) p.raw)
    have hext : v < 8 →
        Vars.extend v (NV.all (List.take (min p.pay p.raw.length) p.raw)).fst < 8 := extend_lt8 _
    simp only [List.length_take] at hrest
    by_cases hlt : p.raw.length < p.pay
    · simp only [hlt, if_true]
      split
      · exfalso; omega
      · split
        · rename_i h
          exfalso; simp at h; omega
        · simp only [PayGood]
          refine ⟨⟨dest, ?_⟩, ?_⟩
          · constructor <;> simp [Parser.freeStart, List.drop_suffix] <;> omega
          · rintro ⟨h1, h2, h3, h4, h5, h6⟩
            refine ⟨?_, ?_, ?_, ?_, ?_, ?_⟩ <;> simp [Parser.freeStart, hst] at * <;>
              first | assumption | omega | exact hext h4
    · simp only [hlt, if_false]
      split
      · exfalso; omega
      · split
        · rename_i h
          simp only [PayGood]
          refine ⟨?_, ?_, ?_, ?_⟩
          · constructor <;> simp [Parser.freeStart, List.drop_suffix] <;> omega
          · rintro ⟨h1, h2, h3, h4, h5, h6⟩
            refine ⟨?_, ?_, ?_, ?_, ?_, ?_⟩ <;> simp [Parser.freeStart, hst] at * <;>
              first | assumption | omega | exact hext h4
          · simp at h; omega
          · trivial
        · simp only [PayGood]
          refine ⟨⟨dest, ?_⟩, ?_⟩
          · constructor <;> simp [Parser.freeStart, List.drop_suffix] <;> omega
          · rintro ⟨h1, h2, h3, h4, h5, h6⟩
            refine ⟨?_, ?_, ?_, ?_, ?_, ?_⟩ <;> simp [Parser.freeStart, hst] at * <;>
              first | assumption | omega | exact hext h4

/-! ## One loop iteration -/

def IterGood (p : Parser) (dest : Option Nat) (res : Status) : Iter → Prop
  | .cont p' d' r' => Rel p dest res p' d' r' ∧ p'.raw.length < p.raw.length ∧ (SInv p → SInv p')
  | .stop p' r' => (∃ d', Rel p dest res p' d' r') ∧ (SInv p → SInv p')
  | .err p' e => (∃ d' r', Rel p dest res p' d' r') ∧ (SInv p → SInv p') ∧
      p'.pay = 0 ∧ p'.pad = 0 ∧ headErr p'.raw p'.request.id = some e
  | .panic _ => ¬ SInv p

theorem IterGood.of_head {q : Parser} {d : Option Nat} {r : Status} {it : Iter}
    (h : HeadGood q d r it) (hpay : q.pay = 0) (hpad : q.pad = 0) : IterGood q d r it := by
  cases it with
  | cont p' d' r' => exact h
  | stop p' r' => exact ⟨⟨d, h.1⟩, h.2⟩
  | err p' e =>
    obtain ⟨rfl, he⟩ := h
    exact ⟨⟨d, r, Rel.refl _ _ _⟩, id, hpay, hpad, he⟩
  | panic s => exact h

theorem IterGood.trans {p q : Parser} {dest d : Option Nat} {res r : Status} {it : Iter}
    (hrel : Rel p dest res q d r) (hinv : SInv p → SInv q) (h : IterGood q d r it) :
    IterGood p dest res it := by
  have hlen : q.raw.length ≤ p.raw.length := by
    obtain ⟨c, hc⟩ := hrel.raw_suf
    rw [← hc]; simp
  cases it with
  | cont p' d' r' => exact ⟨hrel.trans h.1, by have := h.2.1; omega, fun hp => h.2.2 (hinv hp)⟩
  | stop p' r' =>
    obtain ⟨⟨d', h1⟩, h2⟩ := h
    exact ⟨⟨d', hrel.trans h1⟩, fun hp => h2 (hinv hp)⟩
  | err p' e =>
    obtain ⟨⟨d', r', h1⟩, h2, h3⟩ := h
    exact ⟨⟨d', r', hrel.trans h1⟩, fun hp => h2 (hinv hp), h3⟩
  | panic s => exact fun hp => h (hinv hp)

/-- The padding step followed by `parseHead`, for a parser whose payload is exhausted. -/
theorem padHead_good (q : Parser) (d : Option Nat) (r : Status) (hpay : q.pay = 0) :
    IterGood q d r
      (if q.pad > 0 then
        if q.raw.length ≤ q.pad then
          .stop { q with raw := [], g1 := q.g1 + q.raw.length, pad := q.pad - q.raw.length } r
        else parseHead { q with raw := q.raw.drop q.pad, g1 := q.g1 + q.pad, pad := 0 } d r
      else parseHead q d r) := by
  split
  · split
    · rename_i hle
      refine ⟨⟨d, ?_⟩, ?_⟩
      · constructor <;> simp [Parser.freeStart] <;> omega
      · rintro ⟨h1, h2, h3, h4, h5, h6⟩
        refine ⟨?_, ?_, ?_, ?_, ?_, ?_⟩ <;> simp [Parser.freeStart] at * <;>
          first | assumption | omega
    · rename_i hgt
      refine IterGood.trans (q := { q with raw := q.raw.drop q.pad, g1 := q.g1 + q.pad, pad := 0 })
        ?_ ?_ (IterGood.of_head (parseHead_good _ _ _) hpay rfl)
      · constructor <;> simp [Parser.freeStart, List.drop_suffix] <;> omega
      · rintro ⟨h1, h2, h3, h4, h5, h6⟩
        refine ⟨?_, ?_, ?_, ?_, ?_, ?_⟩ <;> simp [Parser.freeStart] at * <;>
          first | assumption | omega
  · rename_i hpad
    exact IterGood.of_head (parseHead_good _ _ _) hpay (by omega)

theorem iter_good (p : Parser) (dest : Option Nat) (res : Status) :
    IterGood p dest res (iter p dest res) := by
  unfold iter
  by_cases hpay : p.pay > 0
  · simp only [hpay, if_true]
    have hp := parsePayload_good p dest res
    cases hpp : parsePayload p dest res with
    | cont q d r =>
      rw [hpp] at hp
      obtain ⟨h1, h2, h3, -⟩ := hp
      exact IterGood.trans h1 h2 (padHead_good q d r h3)
    | stop q r => rw [hpp] at hp; exact hp
    | err q e => rw [hpp] at hp; exact hp.elim
    | panic s => rw [hpp] at hp; exact hp.elim
  · simp only [hpay, if_false]
    exact padHead_good p dest res (by omega)

/-! ## The loop and `parse` -/

def LoopGood (p : Parser) (dest : Option Nat) (res : Status) : Parser × ParseRes → Prop
  | (p', .ok st) => (∃ d', Rel p dest res p' d' st) ∧ (SInv p → SInv p')
  | (p', .err e) => (∃ d' r', Rel p dest res p' d' r') ∧ (SInv p → SInv p') ∧
      p'.pay = 0 ∧ p'.pad = 0 ∧ headErr p'.raw p'.request.id = some e
  | (p', .panic _) => (∃ d' r', Rel p dest res p' d' r') ∧ ¬ SInv p

theorem LoopGood.trans {p q : Parser} {dest d : Option Nat} {res r : Status}
    {out : Parser × ParseRes}
    (hrel : Rel p dest res q d r) (hinv : SInv p → SInv q) (h : LoopGood q d r out) :
    LoopGood p dest res out := by
  obtain ⟨p', pr⟩ := out
  cases pr with
  | ok st =>
    obtain ⟨⟨d', h1⟩, h2⟩ := h
    exact ⟨⟨d', hrel.trans h1⟩, fun hp => h2 (hinv hp)⟩
  | err e =>
    obtain ⟨⟨d', r', h1⟩, h2, h3⟩ := h
    exact ⟨⟨d', r', hrel.trans h1⟩, fun hp => h2 (hinv hp), h3⟩
  | panic s =>
    obtain ⟨⟨d', r', h1⟩, h2⟩ := h
    exact ⟨⟨d', r', hrel.trans h1⟩, fun hp => h2 (hinv hp)⟩

theorem loop_good (p : Parser) (dest : Option Nat) (res : Status) :
    LoopGood p dest res (loop p dest res) := by
  generalize hn : p.raw.length = n
  induction n using Nat.strongRecOn generalizing p dest res with
  | _ n ih =>
    rw [loop]
    split
    · exact ⟨⟨dest, Rel.refl _ _ _⟩, id⟩
    · have hi := iter_good p dest res
      cases hit : iter p dest res with
      | cont p' d' r' =>
        rw [hit] at hi
        obtain ⟨h1, h2, h3⟩ := hi
        simp only [if_pos h2]
        exact LoopGood.trans h1 h3 (ih _ (by omega) p' d' r' rfl)
      | stop p' r' => rw [hit] at hi; exact hi
      | err p' e => rw [hit] at hi; exact hi
      | panic s => rw [hit] at hi; exact ⟨⟨dest, res, Rel.refl _ _ _⟩, hi⟩

/-- The parser after the caller's `new` bytes were accounted (`free_start += new_input`). -/
def Parser.feed (p : Parser) (new : Bytes) : Parser := { p with raw := p.raw ++ new }

/-- The `Status` a `parse` call starts from. -/
def initStatus (p : Parser) : Status :=
  { stream := 0, streamEnd := p.stream.isNone, output := 0, delivered := [] }

@[simp] theorem Parser.feed_nil (p : Parser) : p.feed [] = p := by
  cases p; simp [Parser.feed]

/-- The two assertions at the top of `parse` pass for a legal call. -/
theorem parse_eq_loop (p : Parser) (new : Bytes) (dest : Option Nat) (hcap : p.freeStart ≤ p.cap)
    (hd : dest = none ∨ p.parsed = []) (hfree : new.length ≤ p.free) :
    p.parse new dest = loop (p.feed new) dest (initStatus p) := by
  unfold Parser.parse
  have h1 : (dest.isSome && !p.parsed.isEmpty) = false := by
    rcases hd with rfl | h
    · rfl
    · simp [h]
  have h2 : ¬ (new.length > p.cap - p.freeStart ∨ p.freeStart > p.cap) := by
    unfold Parser.free at hfree; omega
  simp only [h1, if_neg h2, Parser.feed, initStatus]
  rfl

theorem SInv_feed {p : Parser} {new : Bytes} (h : SInv p) (hfree : new.length ≤ p.free) :
    SInv (p.feed new) := by
  obtain ⟨h1, h2, h3, h4, h5, h6⟩ := h
  unfold Parser.free at hfree
  refine ⟨?_, h2, h3, h4, h5, h6⟩
  simp [Parser.feed, Parser.freeStart] at *; omega

theorem parse_good (p : Parser) (new : Bytes) (dest : Option Nat) (hcap : p.freeStart ≤ p.cap)
    (hd : dest = none ∨ p.parsed = []) (hfree : new.length ≤ p.free) :
    LoopGood (p.feed new) dest (initStatus p) (p.parse new dest) := by
  rw [parse_eq_loop p new dest hcap hd hfree]; exact loop_good _ _ _

/-- Facts about `parse` that hold for every call, legal or not (also when it panics). -/
theorem parse_frame (p : Parser) (new : Bytes) (dest : Option Nat) :
    (p.parse new dest).1.stream = p.stream ∧ (p.parse new dest).1.request = p.request ∧
    (p.parse new dest).1.cap = p.cap ∧ (p.parse new dest).1.maxConns = p.maxConns ∧
    (p.parse new dest).1.g0 = p.g0 ∧ p.output <+: (p.parse new dest).1.output ∧
    p.parsed <+: (p.parse new dest).1.parsed := by
  unfold Parser.parse
  split
  · simp
  · split
    · simp
    · have h := loop_good { p with raw := p.raw ++ new } dest
        { stream := 0, streamEnd := p.stream.isNone, output := 0, delivered := [] }
      have key : ∃ d' r', Rel { p with raw := p.raw ++ new } dest
          { stream := 0, streamEnd := p.stream.isNone, output := 0, delivered := [] }
          (loop { p with raw := p.raw ++ new } dest
            { stream := 0, streamEnd := p.stream.isNone, output := 0, delivered := [] }).1 d' r' := by
        revert h
        generalize loop { p with raw := p.raw ++ new } dest
          { stream := 0, streamEnd := p.stream.isNone, output := 0, delivered := [] } = out
        obtain ⟨p', pr⟩ := out
        cases pr with
        | ok st => exact fun h => ⟨_, _, h.1.choose_spec⟩
        | err e => exact fun h => h.1
        | panic s => exact fun h => h.1
      obtain ⟨d', r', hr⟩ := key
      exact ⟨hr.strm, hr.req, hr.cap, hr.mc, hr.g0, hr.out_pre, hr.par_pre⟩

/-! ## Errors are sticky; held-back headers stay held back -/

theorem headErr_append {raw : Bytes} {id : Nat} {e : PErr} (more : Bytes)
    (h : headErr raw id = some e) : headErr (raw ++ more) id = some e := by
  unfold headErr at h
  split at h
  · simp only [List.cons_append, headErr]; exact h
  · cases h

theorem parseHead_of_headErr {p : Parser} {e : PErr} (d : Option Nat) (r : Status)
    (h : headErr p.raw p.request.id = some e) : parseHead p d r = .err p e := by
  unfold headErr at h
  split at h
  · rename_i b0 b1 b2 b3 b4 b5 b6 b7 rest hraw
    simp only [parseHead, hraw]
    split at h
    · cases h
    · rename_i v hv; cases h; simp only [hv]
    · rename_i head hh
      simp only [hh]
      split at h
      · cases h
      · rename_i h1
        split at h
        · rename_i h2; cases h; rw [if_neg h1, if_pos h2]
        · cases h
    · rename_i hne1 hne2 hne3
      exfalso
      rcases fromBytes8_cases b0 b1 b2 b3 b4 b5 b6 b7 with ⟨v, hv⟩ | ⟨t, ht⟩ | ⟨h, hh⟩
      · exact hne2 v hv
      · exact hne1 t ht
      · exact hne3 h hh
  · cases h

/-- What `headErr … = some e` means on the wire: a header with a foreign version byte, or an
`AbortRequest` header for this request; `Error::Protocol` is unreachable. -/
theorem headErr_some {raw : Bytes} {id : Nat} {e : PErr} (h : headErr raw id = some e) :
    ∃ b0 b1 b2 b3 b4 b5 b6 b7 rest, raw = b0 :: b1 :: b2 :: b3 :: b4 :: b5 :: b6 :: b7 :: rest ∧
      ((b0.toNat ≠ 1 ∧ e = .unknownVersion b0) ∨
       (b0.toNat = 1 ∧ b1.toNat = RT.abortRequest ∧ be16 b2 b3 = id ∧ e = .abortRequest)) := by
  unfold headErr at h
  split at h
  · rename_i b0 b1 b2 b3 b4 b5 b6 b7 rest
    refine ⟨b0, b1, b2, b3, b4, b5, b6, b7, rest, rfl, ?_⟩
    rw [fromBytes8] at h
    by_cases hv : b0.toNat ≠ 1
    · rw [if_pos hv] at h; simp only [Option.some.injEq] at h; exact Or.inl ⟨hv, h.symm⟩
    · rw [if_neg hv] at h
      by_cases ht : (!RT.valid b1.toNat) = true
      · rw [if_pos ht] at h; cases h
      · rw [if_neg ht] at h
        simp only at h
        split at h
        · cases h
        · split at h
          · rename_i hab
            simp only [Bool.and_eq_true, beq_iff_eq] at hab
            cases h
            exact Or.inr ⟨by omega, hab.1, hab.2, rfl⟩
          · cases h
  · cases h

/-- Once the offending header is at the head of `raw` at a record boundary, every later legal
`parse` call fails with the same error and only accounts the new input. -/
theorem err_repeat {q : Parser} {e : PErr} (hpay : q.pay = 0) (hpad : q.pad = 0)
    (he : headErr q.raw q.request.id = some e) (new : Bytes) (dest : Option Nat)
    (hcap : q.freeStart ≤ q.cap) (hd : dest = none ∨ q.parsed = []) (hfree : new.length ≤ q.free) :
    q.parse new dest = (q.feed new, .err e) := by
  rw [parse_eq_loop q new dest hcap hd hfree, loop]
  have he' : headErr (q.feed new).raw (q.feed new).request.id = some e := headErr_append new he
  have hne : (q.feed new).raw.isEmpty = false := by
    obtain ⟨b0, b1, b2, b3, b4, b5, b6, b7, rest, hr, -⟩ := headErr_some he'
    rw [hr]; rfl
  have hit : iter (q.feed new) dest (initStatus q) = .err (q.feed new) e := by
    unfold iter
    have h1 : ¬ (q.feed new).pay > 0 := by simp [Parser.feed, hpay]
    have h2 : ¬ (q.feed new).pad > 0 := by simp [Parser.feed, hpad]
    simp only [if_neg h1, if_neg h2]
    exact parseHead_of_headErr _ _ he'
  simp only [hne, hit]
  rfl

/-! ## `cmpInputStreams` through positions in the role's stream list -/

/-- Position of the active stream in the role's input-stream list; `none` ranks after all. -/
def rankOf (role : Nat) : Option Nat → Nat
  | none => (inputStreams role).length
  | some s => (inputStreams role).idxOf s

/-- `s` is in the role's list, strictly after `cur` (`cur = none` is after everything). -/
def Later (role : Nat) (cur : Option Nat) (s : Nat) : Prop :=
  rankOf role cur < rankOf role (some s) ∧ rankOf role (some s) < rankOf role none

instance (role : Nat) (cur : Option Nat) (s : Nat) : Decidable (Later role cur s) :=
  inferInstanceAs (Decidable (_ ∧ _))

theorem rankOf_le_none (role : Nat) (cur : Option Nat) : rankOf role cur ≤ rankOf role none := by
  cases cur with
  | none => exact Nat.le_refl _
  | some s => exact List.idxOf_le_length

theorem go_gt (recv e : Nat) (l : List Nat) :
    cmpInputStreams.go recv e l .gt = if recv ∈ l then .gt else .lt := by
  induction l with
  | nil => simp [cmpInputStreams.go]
  | cons s r ih =>
    simp only [cmpInputStreams.go]
    by_cases h : s = recv
    · simp [h]
    · have h' : ¬ recv = s := fun x => h x.symm
      simp [h, h', ih]

theorem go_lt (recv e : Nat) (hne : recv ≠ e) (l : List Nat) :
    cmpInputStreams.go recv e l .lt =
      if l.idxOf e < l.idxOf recv ∧ l.idxOf recv < l.length then .gt else .lt := by
  induction l with
  | nil => simp [cmpInputStreams.go]
  | cons s r ih =>
    simp only [cmpInputStreams.go, List.idxOf_cons, List.length_cons]
    by_cases h : s = recv
    · simp [h]
    · by_cases h2 : s = e
      · have hse : ¬ e = recv := fun x => hne x.symm
        subst h2
        have hb : (s == recv) = false := by simp [h]
        simp only [if_true, BEq.rfl, cond_true, go_gt, hb, cond_false,
          ← List.idxOf_lt_length_iff (a := recv)]
        simp
      · have hb : (s == recv) = false := by simp [h]
        have hb2 : (s == e) = false := by simp [h2]
        simp only [ih, hb, hb2, cond_false]
        simp

theorem cmp_none (role recv : Nat) : cmpInputStreams role recv none = some .lt := rfl

/-- `cmp_input_streams` for two input-stream types, in terms of positions. -/
theorem cmp_some (role : Nat) {recv e : Nat} (hr : RT.isInputStream recv = true)
    (he : RT.isInputStream e = true) :
    cmpInputStreams role recv (some e) =
      some (if recv = e then .eq else if Later role (some e) recv then .gt else .lt) := by
  unfold cmpInputStreams
  simp only [hr, he, Bool.not_true, Bool.or_self, Bool.false_eq_true, if_false]
  by_cases h : recv = e
  · simp [h]
  · simp only [beq_iff_eq, h, if_false, go_lt recv e h]
    by_cases hl : Later role (some e) recv
    · rw [if_pos hl]; exact congrArg some (if_pos hl)
    · rw [if_neg hl]; exact congrArg some (if_neg hl)

theorem cmp_eq_iff (role : Nat) {recv e : Nat} (hr : RT.isInputStream recv = true)
    (he : RT.isInputStream e = true) :
    cmpInputStreams role recv (some e) = some .eq ↔ recv = e := by
  rw [cmp_some role hr he]
  by_cases h : recv = e
  · simp [h]
  · simp only [h, if_false]; split <;> simp

theorem Later_ne {role : Nat} {e recv : Nat} (h : Later role (some e) recv) : recv ≠ e := by
  rintro rfl; exact Nat.lt_irrefl _ h.1

theorem cmp_gt_iff (role : Nat) {recv e : Nat} (hr : RT.isInputStream recv = true)
    (he : RT.isInputStream e = true) :
    cmpInputStreams role recv (some e) = some .gt ↔ Later role (some e) recv := by
  rw [cmp_some role hr he]
  by_cases h : recv = e
  · subst h; simp only [if_true]
    constructor
    · intro x; cases x
    · intro x; exact absurd rfl (Later_ne x)
  · simp only [h, if_false]; split <;> simp [*]

theorem cmp_lt_iff (role : Nat) {recv e : Nat} (hr : RT.isInputStream recv = true)
    (he : RT.isInputStream e = true) :
    cmpInputStreams role recv (some e) = some .lt ↔ recv ≠ e ∧ ¬ Later role (some e) recv := by
  rw [cmp_some role hr he]
  by_cases h : recv = e
  · simp [h]
  · simp only [h, if_false]; split <;> simp [*]

/-- The debug assertions fire exactly when one of the two types is not an input-stream type. -/
theorem cmp_panic_iff (role recv e : Nat) :
    cmpInputStreams role recv (some e) = none ↔
      (RT.isInputStream recv = false ∨ RT.isInputStream e = false) := by
  unfold cmpInputStreams
  cases h1 : RT.isInputStream recv <;> cases h2 : RT.isInputStream e <;> simp <;> split <;> simp <;> assumption

/-! ## The other operations keep the invariant -/

theorem SInv_consumeStream {p : Parser} (h : SInv p) (amt : Nat) : SInv (p.consumeStream amt) := by
  obtain ⟨h1, h2, h3, h4, h5, h6⟩ := h
  refine ⟨?_, h2, h3, h4, h5, h6⟩
  simp [Parser.consumeStream, Parser.freeStart] at *; omega

theorem SInv_compress {p : Parser} (h : SInv p) : SInv p.compress := by
  obtain ⟨h1, h2, h3, h4, h5, h6⟩ := h
  refine ⟨?_, h2, h3, h4, h5, h6⟩
  simp [Parser.compress, Parser.freeStart] at *; omega

theorem SInv_consumeOutput {p : Parser} (h : SInv p) (amt : Nat) : SInv (p.consumeOutput amt) := h

theorem SInv_discardStream {p : Parser} (h : SInv p) : SInv p.discardStream := by
  obtain ⟨h1, h2, h3, h4, h5, h6⟩ := h
  refine ⟨?_, h2, h3, h4, h5, h6⟩
  simp [Parser.discardStream, Parser.freeStart] at *; omega

theorem consumeStream_parsed (p : Parser) (amt : Nat) :
    (p.consumeStream amt).parsed = p.parsed.drop amt := by
  simp only [Parser.consumeStream]
  by_cases h : amt ≤ p.parsed.length
  · rw [Nat.min_eq_left h]
  · rw [Nat.min_eq_right (by omega), List.drop_length, List.drop_eq_nil_of_le (by omega)]

/-! ## `setStream` -/

/-- The parser `set_stream` leaves behind when the active stream actually changes. -/
def Parser.switchTo (p : Parser) (s : Option Nat) : Parser :=
  { p.discardStream with state := if p.state == .stream then SState.skip else p.state, stream := s }

theorem setStream_none (p : Parser) :
    p.setStream none = .ok (if p.stream = none then p else p.switchTo none) := by
  unfold Parser.setStream Parser.switchTo
  cases h : p.stream <;> simp

/-- `set_stream(Some(s))` for an input-stream type `s`, the active stream being `None` or an
input-stream type: accepted iff `s` is the active stream or comes strictly later in the role's
order; otherwise `Err(SequenceError)`.  Never a panic. -/
theorem setStream_some_input (p : Parser) {s : Nat} (hs : RT.isInputStream s = true)
    (hcur : ∀ e, p.stream = some e → RT.isInputStream e = true) :
    p.setStream (some s) =
      if p.stream = some s then .ok p
      else if Later p.request.role p.stream s then .ok (p.switchTo (some s))
      else .rejected := by
  unfold Parser.setStream
  cases hst : p.stream with
  | none =>
    have hl : ¬ Later p.request.role none s := by unfold Later; omega
    simp [cmp_none, hl]
  | some e =>
    have he := hcur e hst
    simp only [cmp_some p.request.role hs he]
    by_cases h : s = e
    · subst h; simp
    · have h' : ¬ e = s := fun x => h x.symm
      simp only [h, if_false, Option.some.injEq, h']
      by_cases hl : Later p.request.role (some e) s
      · simp [hl, h, Parser.switchTo]
      · simp [hl]

/-- A non-input-stream type trips the debug assertion unless the active stream is `None`. -/
theorem setStream_some_nonInput (p : Parser) {s : Nat} (hs : RT.isInputStream s = false) :
    p.setStream (some s) =
      if p.stream = none then .rejected
      else .panic "stream.rs:66 debug_assert input stream type" := by
  unfold Parser.setStream
  cases hst : p.stream with
  | none => simp [cmp_none]
  | some e =>
    have : cmpInputStreams p.request.role s (some e) = none :=
      (cmp_panic_iff _ _ _).2 (Or.inl hs)
    simp [this]

/-- Every way `set_stream` can succeed. -/
theorem setStream_ok_cases {p p' : Parser} {st : Option Nat} (h : p.setStream st = .ok p') :
    (st = p.stream ∧ p' = p) ∨
    (st ≠ p.stream ∧ p' = p.switchTo st ∧
      (st = none ∨ ∃ s, st = some s ∧ Later p.request.role p.stream s)) := by
  cases st with
  | none =>
    rw [setStream_none] at h
    split at h
    · rename_i hn; cases h; exact Or.inl ⟨hn.symm, rfl⟩
    · rename_i hn; cases h; exact Or.inr ⟨fun x => hn x.symm, rfl, Or.inl rfl⟩
  | some s =>
    cases hs : RT.isInputStream s with
    | false =>
      rw [setStream_some_nonInput p hs] at h
      split at h <;> cases h
    | true =>
      by_cases hcur : ∀ e, p.stream = some e → RT.isInputStream e = true
      · rw [setStream_some_input p hs hcur] at h
        split at h
        · rename_i he; cases h; exact Or.inl ⟨he.symm, rfl⟩
        · rename_i he
          split at h
          · rename_i hl; cases h
            exact Or.inr ⟨fun x => he x.symm, rfl, Or.inr ⟨s, rfl, hl⟩⟩
          · cases h
      · exfalso
        have hcur' : ∃ e, p.stream = some e ∧ RT.isInputStream e = false := by
          apply Classical.byContradiction
          intro hno
          apply hcur
          intro e he
          cases hie : RT.isInputStream e with
          | true => rfl
          | false => exact absurd ⟨e, he, hie⟩ hno
        obtain ⟨e, he, hne⟩ := hcur'
        have : cmpInputStreams p.request.role s (some e) = none :=
          (cmp_panic_iff _ _ _).2 (Or.inr (by simpa using hne))
        unfold Parser.setStream at h
        simp [he, this] at h

theorem mem_of_Later {role : Nat} {cur : Option Nat} {s : Nat} (h : Later role cur s) :
    s ∈ inputStreams role := List.idxOf_lt_length_iff.1 h.2

theorem SInv_switchTo {p : Parser} (h : SInv p) {st : Option Nat}
    (hst : st = none ∨ ∃ s, st = some s ∧ s ∈ inputStreams p.request.role) :
    SInv (p.switchTo st) := by
  obtain ⟨h1, h2, h3, h4, h5, h6⟩ := h
  refine ⟨?_, h2, h3, ?_, hst, h6⟩
  · simp [Parser.switchTo, Parser.discardStream, Parser.freeStart] at *; omega
  · simp only [Parser.switchTo]
    cases hs : p.state with
    | stream => simp
    | skip => simp
    | values v => rw [hs] at h4; simpa using h4

theorem SInv_setStream {p p' : Parser} {st : Option Nat} (hinv : SInv p)
    (h : p.setStream st = .ok p') : SInv p' := by
  rcases setStream_ok_cases h with ⟨-, rfl⟩ | ⟨-, rfl, hc⟩
  · exact hinv
  · refine SInv_switchTo hinv ?_
    rcases hc with hc | ⟨s, hs, hl⟩
    · exact Or.inl hc
    · exact Or.inr ⟨s, hs, mem_of_Later hl⟩

/-! ## Held-back headers (end of the active stream) -/

/-- The header at the front of `raw` is one `parseHead` refuses to consume: it belongs to this
request and is either an empty record of the active stream or a record of a later stream. -/
def HeldBack (p : Parser) : Prop :=
  ∃ b0 b1 b2 b3 b4 b5 b6 b7 rest head,
    p.raw = b0 :: b1 :: b2 :: b3 :: b4 :: b5 :: b6 :: b7 :: rest ∧
    RecordHeader.fromBytes [b0, b1, b2, b3, b4, b5, b6, b7] = some (.ok head) ∧
    RT.isInputStream head.rtype = true ∧ head.requestId = p.request.id ∧
    ((cmpInputStreams p.request.role head.rtype p.stream = some .eq ∧ head.contentLength = 0) ∨
      cmpInputStreams p.request.role head.rtype p.stream = some .gt)

theorem parseHead_held {p : Parser} (h : HeldBack p) (d : Option Nat) (r : Status) :
    parseHead p d r = .stop p { r with streamEnd := true } := by
  obtain ⟨b0, b1, b2, b3, b4, b5, b6, b7, rest, head, hraw, hh, hin, hid, hc⟩ := h
  have hcond : (RT.isInputStream head.rtype && head.requestId == p.request.id) = true := by
    simp [hin, hid]
  simp only [parseHead, hraw, hh, hcond, if_true]
  rcases hc with ⟨hc, hz⟩ | hc
  · simp [hc, hz]
  · simp [hc]

theorem parseHead_stop_se {p p' : Parser} {dest : Option Nat} {res res' : Status}
    (h : parseHead p dest res = .stop p' res') (h1 : res'.streamEnd = true)
    (h0 : res.streamEnd = false) :
    p' = p ∧ res' = { res with streamEnd := true } ∧ HeldBack p := by
  unfold parseHead at h
  split at h
  · rename_i b0 b1 b2 b3 b4 b5 b6 b7 rest hraw
    split at h
    · cases h
    · cases h
    · rename_i head hh
      by_cases hin : (RT.isInputStream head.rtype && head.requestId == p.request.id) = true
      · rw [if_pos hin] at h
        simp only [Bool.and_eq_true, beq_iff_eq] at hin
        split at h
        · cases h
        · rename_i hc
          split at h
          · cases h
          · rename_i hz
            cases h
            refine ⟨rfl, rfl, b0, b1, b2, b3, b4, b5, b6, b7, rest, head, hraw, hh, hin.1, hin.2,
              Or.inl ⟨hc, ?_⟩⟩
            simpa using hz
        · cases h
        · rename_i hc
          cases h
          exact ⟨rfl, rfl, b0, b1, b2, b3, b4, b5, b6, b7, rest, head, hraw, hh, hin.1, hin.2,
            Or.inr hc⟩
      · rw [if_neg hin] at h
        split at h
        · cases h
        · split at h
          · cases h
          · split at h <;> cases h
    · cases h
  · cases h
    rw [h0] at h1; cases h1

/-- In terms of positions: the active stream is some `e`, and the held-back header is an empty
record of `e` or a record of a stream strictly later in the role's order. -/
theorem HeldBack.stream {p : Parser} (hinv : SInv p) (h : HeldBack p) :
    ∃ b0 b1 b2 b3 b4 b5 b6 b7 rest head e,
      p.raw = b0 :: b1 :: b2 :: b3 :: b4 :: b5 :: b6 :: b7 :: rest ∧
      RecordHeader.fromBytes [b0, b1, b2, b3, b4, b5, b6, b7] = some (.ok head) ∧
      head.requestId = p.request.id ∧ p.stream = some e ∧
      ((head.rtype = e ∧ head.contentLength = 0) ∨ Later p.request.role (some e) head.rtype) := by
  obtain ⟨b0, b1, b2, b3, b4, b5, b6, b7, rest, head, hraw, hh, hin, hid, hc⟩ := h
  obtain ⟨-, -, -, -, hs, -⟩ := hinv
  rcases hs with hs | ⟨e, hs, hm⟩
  · rw [hs, cmp_none] at hc
    rcases hc with ⟨hc, -⟩ | hc <;> cases hc
  · refine ⟨b0, b1, b2, b3, b4, b5, b6, b7, rest, head, e, hraw, hh, hid, hs, ?_⟩
    rw [hs] at hc
    have he := mem_inputStreams_isInput hm
    rcases hc with ⟨hc, hz⟩ | hc
    · exact Or.inl ⟨(cmp_eq_iff _ hin he).1 hc, hz⟩
    · exact Or.inr ((cmp_gt_iff _ hin he).1 hc)

/-- At a record boundary with a held-back header, a `parse` call without new input reports
`stream_end` again, delivers nothing and leaves the parser untouched. -/
theorem held_repeat {p : Parser} (hb : p.isRecordBoundary = true) (h : HeldBack p)
    (dest : Option Nat) (hcap : p.freeStart ≤ p.cap) (hd : dest = none ∨ p.parsed = []) :
    p.parse [] dest = (p, .ok { stream := 0, streamEnd := true, output := 0, delivered := [] }) := by
  rw [parse_eq_loop p [] dest hcap hd (by simp), Parser.feed_nil, loop]
  have hne : p.raw.isEmpty = false := by
    obtain ⟨b0, b1, b2, b3, b4, b5, b6, b7, rest, head, hraw, -⟩ := h
    rw [hraw]; rfl
  simp only [Parser.isRecordBoundary, Bool.and_eq_true, beq_iff_eq] at hb
  have hit : iter p dest (initStatus p) = .stop p { initStatus p with streamEnd := true } := by
    unfold iter
    have h1 : ¬ p.pay > 0 := by omega
    have h2 : ¬ p.pad > 0 := by omega
    simp only [if_neg h1, if_neg h2]
    exact parseHead_held h _ _
  simp only [hne, hit]
  rfl

/-! ## Traces of caller operations -/

/-- The caller-visible operations of `stream::Parser`. -/
inductive Op
  | parse (new : Bytes) (dest : Option Nat)
  | consumeStream (amt : Nat)
  | compress
  | consumeOutput (amt : Nat)
  | setStream (s : Option Nat)
deriving Repr, DecidableEq

/-- The parser after one operation (`set_stream` returning `Err` leaves it unchanged). -/
def applyOp (p : Parser) : Op → Parser
  | .parse new dest => (p.parse new dest).1
  | .consumeStream amt => p.consumeStream amt
  | .compress => p.compress
  | .consumeOutput amt => p.consumeOutput amt
  | .setStream s => match p.setStream s with | .ok p' => p' | _ => p

def applyOps (p : Parser) (ops : List Op) : Parser := ops.foldl applyOp p

@[simp] theorem applyOps_nil (p : Parser) : applyOps p [] = p := rfl
@[simp] theorem applyOps_cons (p : Parser) (op : Op) (t : List Op) :
    applyOps p (op :: t) = applyOps (applyOp p op) t := rfl

/-- The documented preconditions of each call. -/
def Legal (p : Parser) : Op → Prop
  | .parse new dest => (dest = none ∨ p.parsed = []) ∧ new.length ≤ p.free
  | .setStream (some s) => RT.isInputStream s = true
  | _ => True

/-- The operation panics (an assertion of the Rust code, or of the model's loop guard, fires). -/
def Panics (p : Parser) : Op → Prop
  | .parse new dest => ∃ s, (p.parse new dest).2 = .panic s
  | .setStream st => ∃ s, p.setStream st = .panic s
  | _ => False

/-- Every call of the trace is legal in the state it is made in. -/
def LegalAll : Parser → List Op → Prop
  | _, [] => True
  | p, op :: t => Legal p op ∧ LegalAll (applyOp p op) t

/-- Some call of the trace panics. -/
def PanicsAny : Parser → List Op → Prop
  | _, [] => False
  | p, op :: t => Panics p op ∨ PanicsAny (applyOp p op) t

theorem step_safe {p : Parser} (hinv : SInv p) {op : Op} (hl : Legal p op) :
    SInv (applyOp p op) ∧ ¬ Panics p op := by
  cases op with
  | parse new dest =>
    obtain ⟨hd, hfree⟩ := hl
    have hg := parse_good p new dest hinv.1 hd hfree
    have hf := SInv_feed hinv hfree
    simp only [applyOp, Panics]
    revert hg
    generalize p.parse new dest = out
    obtain ⟨p', pr⟩ := out
    cases pr with
    | ok st => exact fun hg => ⟨hg.2 hf, by simp⟩
    | err e => exact fun hg => ⟨hg.2.1 hf, by simp⟩
    | panic s => exact fun hg => absurd hf hg.2
  | consumeStream amt => exact ⟨SInv_consumeStream hinv amt, id⟩
  | compress => exact ⟨SInv_compress hinv, id⟩
  | consumeOutput amt => exact ⟨SInv_consumeOutput hinv amt, id⟩
  | setStream st =>
    simp only [applyOp, Panics]
    cases hr : p.setStream st with
    | ok p' => exact ⟨SInv_setStream hinv hr, by simp⟩
    | rejected => exact ⟨hinv, by simp⟩
    | panic s =>
      exfalso
      cases st with
      | none => rw [setStream_none] at hr; cases hr
      | some s' =>
        have hcur : ∀ e, p.stream = some e → RT.isInputStream e = true := by
          intro e he
          obtain ⟨-, -, -, -, hs, -⟩ := hinv
          rcases hs with hs | ⟨x, hs, hm⟩
          · rw [hs] at he; cases he
          · rw [hs] at he; cases he; exact mem_inputStreams_isInput hm
        rw [setStream_some_input p hl hcur] at hr
        split at hr
        · cases hr
        · split at hr <;> cases hr

/-- From a state satisfying the invariant, no legal trace panics, and the invariant is kept. -/
theorem trace_safe {p : Parser} (hinv : SInv p) {ops : List Op} (hl : LegalAll p ops) :
    SInv (applyOps p ops) ∧ ¬ PanicsAny p ops := by
  induction ops generalizing p with
  | nil => exact ⟨hinv, id⟩
  | cons op t ih =>
    obtain ⟨h1, h2⟩ := hl
    obtain ⟨hs, hp⟩ := step_safe hinv h1
    obtain ⟨hs', hp'⟩ := ih hs h2
    exact ⟨hs', fun h => h.elim hp hp'⟩

end Fcgi.Str
