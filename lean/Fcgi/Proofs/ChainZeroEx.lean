import Fcgi.Proofs.ChainZero
import Fcgi.Proofs.ChainReads
/-!
# C05 at the sync level — computing `turn0` on concrete parsers

`turnLegal0_of_present`: the converse of `turn0_eq`'s legality clause; `turn0_one`: a turn that
starts with `parse(0)` on a parser whose buffer already holds the whole preamble (or receives it in
one chunk), computed from one `run`.
-/
namespace Fcgi.C05C
open Fcgi Fcgi.Req Fcgi.Str Fcgi.Spec

theorem turnLegal0_of_present {rp : Req.Parser} (hp : PInv rp) (hst : rp.state = .header) (t : Turn)
    (h : TurnLegal (present rp t).1 (present rp t).2) : TurnLegal0 rp t := by
  have hf := feed0_eq hp hst t
  have hops : (present rp t).2.ops = t.ops := by unfold present; split <;> rfl
  obtain ⟨h1, h2, h3⟩ := h
  refine ⟨?_, by rw [hf]; exact h2, by rw [hf, ← hops]; exact h3⟩
  unfold present at h1
  by_cases hin : rp.input = []
  · rw [if_pos hin] at h1
    rw [parse_nil_empty hp hst hin]; exact h1
  · rw [if_neg hin] at h1
    rcases h1 with h1 | ⟨-, -, h1⟩
    · have : ({ rp with input := [] } : Req.Parser).state.isFinal = false := by
        show rp.state.isFinal = false; rw [hst]; rfl
      rw [this] at h1; cases h1
    · rw [parse_present hp] at h1; exact h1

/-- **A `parse(0)`-first turn whose preamble is in `inp ++ new`** (`new` = the one chunk fed, or
nothing: then `inp` must be non-empty). -/
theorem turn0_one {cap mc : Nat} (hcap : 24 ≤ cap) {inp rest o : Bytes} {r : Request} (cs : List Bytes)
    (hcs : cs = [] ∨ ∃ new, cs = [new] ∧ new ≠ [] ∧ inp = [])
    (hne : inp ++ cs.flatten ≠ []) (hlen : (inp ++ cs.flatten).length ≤ cap)
    (hrun : run .header (inp ++ cs.flatten) mc = ⟨rest, .done r, o, none⟩) (ops : List Op) {rp' : Req.Parser}
    (hrp : (applyOps (Str.Parser.fromParser cap r rest mc) ops).intoRequestParser = some (.ok rp')) :
    turn0 (Req.Parser.fromParser cap inp mc) ⟨cs, ops⟩ =
      some (⟨r, o, Str.Parser.fromParser cap r rest mc, applyOps (Str.Parser.fromParser cap r rest mc) ops⟩, rp') ∧
    (LegalAll (Str.Parser.fromParser cap r rest mc) ops →
      TurnLegal0 (Req.Parser.fromParser cap inp mc) ⟨cs, ops⟩) := by
  have hl1 : inp.length ≤ cap := by simp only [List.length_append] at hlen; omega
  have hp := C03.fromParser_inv (input := inp) mc hl1 hcap
  obtain ⟨e1, -⟩ := turn0_eq hp rfl ⟨cs, ops⟩
  have key : ∃ new, new ≠ [] ∧ new = inp ++ cs.flatten ∧
      present (Req.Parser.fromParser cap inp mc) ⟨cs, ops⟩ = (Req.Parser.fromParser cap [] mc, ⟨[new], ops⟩) := by
    rcases hcs with rfl | ⟨new, rfl, hn, rfl⟩
    · have hi : inp ≠ [] := by simpa using hne
      refine ⟨inp, hi, by simp, ?_⟩
      unfold present
      rw [if_neg (show (Req.Parser.fromParser cap inp mc).input ≠ [] from hi)]
      rfl
    · refine ⟨new, hn, by simp, ?_⟩
      unfold present
      rw [if_pos (show (Req.Parser.fromParser cap [] mc).input = [] from rfl)]
  obtain ⟨new, hn, hnew, hpres⟩ := key
  have h := turn_one (cap := cap) (mc := mc) (inp := []) (new := new) hcap hn
    (by rw [List.nil_append, hnew]; exact hlen) (by rw [List.nil_append, hnew]; exact hrun) ops hrp
  rw [hpres] at e1
  refine ⟨e1.trans h.1, fun hl => turnLegal0_of_present hp rfl _ (by rw [hpres]; exact h.2 hl)⟩

end Fcgi.C05C
