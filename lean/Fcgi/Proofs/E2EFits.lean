import Fcgi.Proofs.E2EStr
import Fcgi.Props.C03StrInv
/-!
# End-to-end composition (C07) — part 2b: a sufficient buffer for the stream parser

The stream-parser analogue of C06's sufficiency bound.  For a well-formed stream (data records,
noise, terminating record) the reference `refWire` of any *prefix* of the wire either stops (`eos`)
or wants more input with an unread rest that is: an incomplete record header (< 8 bytes), nothing,
or — inside a management `GetValues` body — the undecodable tail of the part of the body that is
there.  Under `NoiseFits M body` (the condition of C06 for the preamble's noise) that rest is shorter
than `M`.  Via the invariant of `E2EStr` (`RInv.hist`) this is exactly what a stalled `parse` call
leaves in the buffer: the next `poll_read` always has room.
-/
namespace Fcgi.E2E
open Fcgi Fcgi.Req Fcgi.Str Fcgi.Spec

theorem prefix_serAll : ∀ (rs : List Rec) (G : Bytes), G <+: serAll rs →
    G = serAll rs ∨ ∃ pre r post tail, rs = pre ++ r :: post ∧ G = serAll pre ++ tail ∧
      tail <+: r.ser ∧ tail.length < r.ser.length := by
  intro rs
  induction rs with
  | nil =>
    intro G hG
    left
    simpa [serAll] using hG
  | cons r rs ih =>
    intro G hG
    rw [serAll_cons] at hG
    rcases prefix_append_cases hG with ⟨w', rfl, hw'⟩ | ⟨t, ht, hGt⟩
    · rcases ih w' hw' with rfl | ⟨pre, r', post, tail, h1, h2, h3, h4⟩
      · left; rw [serAll_cons]
      · right
        refine ⟨r :: pre, r', post, tail, by rw [h1]; rfl, ?_, h3, h4⟩
        rw [h2, serAll_cons, List.append_assoc]
    · right
      refine ⟨[], r, rs, G, rfl, by simp [serAll], ⟨t, hGt⟩, ?_⟩
      have := congrArg List.length hGt
      have : 0 < t.length := List.length_pos_iff.mpr ht
      simp only [List.length_append] at *
      omega

/-- a proper prefix of a record, at least 8 bytes long, is the record's header and a proper prefix of
its body -/
theorem tail_hdr {r : Rec} {tail : Bytes} (ht : tail <+: r.ser) (hl : tail.length < r.ser.length)
    (h8 : ¬ tail.length < 8) :
    ∃ rest, tail = hdr r ++ rest ∧ rest <+: r.content ++ r.pad ∧
      rest.length < r.content.length + r.pad.length := by
  obtain ⟨z, hz⟩ := ht
  have hser : r.ser = hdr r ++ (r.content ++ r.pad) := by
    have := ser_eq_hdr r []
    simpa using this
  rw [hser] at hz
  have hlen : (hdr r).length = 8 := by simp [hdr]
  rcases List.append_eq_append_iff.1 hz with ⟨a', ha, hb⟩ | ⟨c', hw, hb⟩
  · have hl' := congrArg List.length ha
    simp only [List.length_append] at hl'
    have ha0 : a' = [] := List.length_eq_zero_iff.1 (by omega)
    subst ha0
    rw [List.append_nil] at ha
    rw [ser_length] at hl
    refine ⟨[], by rw [List.append_nil, ha], List.nil_prefix, ?_⟩
    simp only [List.length_nil]
    omega
  · refine ⟨c', hw, ⟨z, hb.symm⟩, ?_⟩
    rw [ser_length] at hl
    have := congrArg List.length hw
    simp only [List.length_append] at this
    omega

theorem tail_nextRec {r : Rec} (hr : r.WF) {tail : Bytes} (ht : tail <+: r.ser)
    (hl : tail.length < r.ser.length) : nextRec tail = none := by
  by_cases h8 : tail.length < 8
  · exact nextRec_short h8
  · obtain ⟨rest, rfl, _, hrl⟩ := tail_hdr ht hl h8
    rw [nextRec_none_iff]
    right
    refine ⟨_, _, _, _, _, _, _, _, rest, rfl, Or.inr ?_⟩
    rw [be16_toBe16 hr.2.1, toNat_ofNat_lt hr.2.2]
    exact hrl

theorem refTail_short (E : Str.Cfg) {tail : Bytes} (h : tail.length < 8) :
    refTail E tail = ⟨[], [], .more, tail⟩ := by
  unfold refTail
  split
  · simp only [List.length_cons] at h; omega
  · rfl

/-- **Sufficiency.**  On every prefix of the wire of well-formed records on which the reference does
not run out of input, the reference either stops or leaves fewer than `M` bytes unread, provided the
management `GetValues` bodies among the records fit (`NoiseFits M`). -/
theorem stream_fits (E : Str.Cfg) (rs : List Rec) (hwf : ∀ r ∈ rs, r.WF)
    (hfull : (refWire E (serAll rs)).verdict ≠ .more) {M : Nat} (h8 : 8 ≤ M) (hfit : NoiseFits M rs) :
    ∀ G, G <+: serAll rs → (refWire E G).verdict = .more → (refWire E G).unread.length < M := by
  intro G hG hv
  rcases prefix_serAll _ G hG with rfl | ⟨pre, r, post, tail, hrs, rfl, ht, hl⟩
  · exact absurd hv hfull
  · have hrmem : r ∈ rs := by rw [hrs]; simp
    have hrwf := hwf r hrmem
    have hprewf : ∀ x ∈ pre, x.WF := fun x hx => hwf x (by rw [hrs]; simp [hx])
    have hnr := tail_nextRec hrwf ht hl
    rw [refWire_of_presentation E hprewf hnr] at hv ⊢
    unfold glue at hv ⊢
    cases hstop : (refRun E pre).stop with
    | endOfStream k => rw [hstop] at hv; cases hv
    | abort k => rw [hstop] at hv; cases hv
    | ranOut =>
      rw [hstop] at hv
      simp only [RefOut.pre_verdict] at hv
      simp only [RefOut.pre_unread]
      by_cases hshort : tail.length < 8
      · rw [refTail_short E hshort]; simp only; omega
      · obtain ⟨rest, rfl, hrest, hrl⟩ := tail_hdr ht hl hshort
        have hcl := be16_toBe16 hrwf.2.1
        have hcls := hclass_rec E r hrwf
        simp only [hdr, List.cons_append, List.nil_append, refTail] at hv ⊢
        rw [hcls] at hv ⊢
        cases hrc : rclass E r with
        | endStream => simp only [hrc] at hv; cases hv
        | abort => simp only [hrc] at hv; cases hv
        | data =>
          simp only [hcl]
          split <;> simp [partialRest] <;> omega
        | noise =>
          simp only [hcl]
          split
          · rename_i hlt
            simp only
            cases hns : noiseState r with
            | stream => simp [partialRest]; omega
            | skip => simp [partialRest]; omega
            | values v =>
              simp only [partialRest]
              have hgv : IsMgmtGetValues r := by
                unfold noiseState at hns
                split at hns
                · rename_i hc
                  simp only [Bool.and_eq_true, beq_iff_eq] at hc
                  exact ⟨hc.1.2, hc.2⟩
                · cases hns
              have hpre : rest <+: r.content := by
                obtain ⟨z, hz⟩ := hrest
                rcases List.append_eq_append_iff.1 hz with ⟨a', ha, _⟩ | ⟨c', hw, _⟩
                · exact ⟨a', ha.symm⟩
                · exfalso
                  have := congrArg List.length hw
                  simp only [List.length_append] at this
                  omega
              exact hfit r hrmem hgv rest hpre hlt
          · simp; omega

/-! ## The reference on a well-formed stream followed by further records -/

def Stop.add : Nat → Stop → Stop
  | 0, s => s
  | n + 1, s => (Stop.add n s).succ

theorem body_wf {id s : Nat} (hid : id < 65536) {c : Bytes} {b : List Rec} (hb : Body id s c b) :
    ∀ r ∈ b, r.WF := by
  induction hb with
  | nil => intro r hr; cases hr
  | noise r hn t ih =>
    intro r' hr'
    rcases List.mem_cons.1 hr' with rfl | hr'
    · exact hn.1
    · exact ih r' hr'
  | chunk c pad res hc hp t ih =>
    intro r' hr'
    rcases List.mem_cons.1 hr' with rfl | hr'
    · exact ⟨hid, hc.2, hp⟩
    · exact ih r' hr'

/-- `refRun` over the data records + noise of a stream, followed by anything. -/
theorem refRun_body_app {E : Str.Cfg} (hs : E.s = 5 ∨ E.s = 8) {content : Bytes} {body : List Rec}
    (hb : Body E.id E.s content body) (tl : List Rec) :
    refRun E (body ++ tl) =
      ⟨content ++ (refRun E tl).content, owedStream E.id E.s E.mc body ++ (refRun E tl).out,
        Stop.add body.length (refRun E tl).stop⟩ := by
  have hsn : (UInt8.ofNat E.s).toNat = E.s := toNat_ofNat_lt (by omega)
  induction hb with
  | nil => simp [owedStream, Stop.add]
  | noise r hn t ih =>
    simp only [List.cons_append, refRun, rclass_noise hn, ih, owedStream_cons, List.length_cons, Stop.add]
    rw [if_neg]
    · simp only [List.append_assoc]
    · intro hh
      simp only [Bool.and_eq_true, beq_iff_eq] at hh
      exact hn.2 ⟨hh.2, by simp only [RT.stdin, RT.data]; omega⟩
  | chunk c pad res hc hp t ih =>
    have hcl : rclass E { rtype := UInt8.ofNat E.s, id := E.id, content := c, pad := pad,
                          reserved := res } = .data := by
      have hne : c ≠ [] := fun h => by rw [h] at hc; simp at hc
      have hi : RT.isInputStream E.s = true := by rcases hs with h | h <;> rw [h] <;> rfl
      simp [rclass, hsn, hi, hne]
    simp only [List.cons_append, refRun, hcl, ih, owedStream_cons, hsn, List.length_cons, Stop.add]
    simp

/-- **The reference on a well-formed stream**: data records and noise, then a record `e` that ends
the stream (its empty record, or a record of a later stream), then any well-formed records. -/
theorem refWire_stream (E : Str.Cfg) (hs : E.s = 5 ∨ E.s = 8) (hid : E.id < 65536) {content : Bytes}
    {body : List Rec} (hb : Body E.id E.s content body) (e : Rec) (he : e.WF)
    (hcls : rclass E e = .endStream) (rest : List Rec) (hrest : ∀ r ∈ rest, r.WF) :
    refWire E (serAll (body ++ e :: rest)) =
      ⟨content, owedStream E.id E.s E.mc body, .eos, serAll (e :: rest)⟩ := by
  have hwf : ∀ r ∈ body ++ e :: rest, r.WF := by
    intro r hr
    rcases List.mem_append.1 hr with hr | hr
    · exact body_wf hid hb r hr
    · rcases List.mem_cons.1 hr with rfl | hr
      · exact he
      · exact hrest r hr
  have := refWire_of_presentation E hwf (tail := []) (nextRec_short (by simp))
  rw [List.append_nil] at this
  rw [this, refRun_body_app hs hb]
  have htl : refRun E (e :: rest) = ⟨[], [], .endOfStream 0⟩ := by simp only [refRun, hcls]
  rw [htl]
  have hadd : ∀ n, Stop.add n (.endOfStream 0) = .endOfStream n := by
    intro n
    induction n with
    | zero => rfl
    | succ n ih => simp only [Stop.add, ih, Stop.succ]
  simp only [hadd, glue, List.append_nil, List.drop_left']

/-- … behind a record the stream parser passes over silently (for the Data stream of a Filter: the
terminating record of its Stdin stream, which the parser never consumed) -/
theorem refWire_stream' (E : Str.Cfg) (hs : E.s = 5 ∨ E.s = 8) (hid : E.id < 65536) (pre : Rec) (hpre : pre.WF)
    (hpc : rclass E pre = .noise) (hpo : owed (some E.id) E.mc pre = []) {content : Bytes}
    {body : List Rec} (hb : Body E.id E.s content body) (e : Rec) (he : e.WF)
    (hcls : rclass E e = .endStream) (rest : List Rec) (hrest : ∀ r ∈ rest, r.WF) :
    refWire E (serAll (pre :: (body ++ e :: rest))) =
      ⟨content, owedStream E.id E.s E.mc body, .eos, serAll (e :: rest)⟩ := by
  have hwf : ∀ r ∈ pre :: (body ++ e :: rest), r.WF := by
    intro r hr
    rcases List.mem_cons.1 hr with rfl | hr
    · exact hpre
    rcases List.mem_append.1 hr with hr | hr
    · exact body_wf hid hb r hr
    · rcases List.mem_cons.1 hr with rfl | hr
      · exact he
      · exact hrest r hr
  have := refWire_of_presentation E hwf (tail := []) (nextRec_short (by simp))
  rw [List.append_nil] at this
  have htl : refRun E (e :: rest) = ⟨[], [], .endOfStream 0⟩ := by simp only [refRun, hcls]
  have hadd : ∀ n, Stop.add n (.endOfStream 0) = .endOfStream n := by
    intro n
    induction n with
    | zero => rfl
    | succ n ih => simp only [Stop.add, ih, Stop.succ]
  have hrun : refRun E (pre :: (body ++ e :: rest)) =
      ⟨content, owedStream E.id E.s E.mc body, .endOfStream (body.length + 1)⟩ := by
    have h1 : refRun E (pre :: (body ++ e :: rest)) =
        ⟨(refRun E (body ++ e :: rest)).content, owed (some E.id) E.mc pre ++ (refRun E (body ++ e :: rest)).out,
          (refRun E (body ++ e :: rest)).stop.succ⟩ := by
      simp only [refRun, hpc]
    rw [h1, hpo, refRun_body_app hs hb, htl]
    simp only [hadd, List.append_nil, List.nil_append, Stop.succ]
  rw [this, hrun]
  simp only [glue, List.append_nil, List.drop_succ_cons, List.drop_left']

end Fcgi.E2E
