import Fcgi.Proofs.ReqRecords
import Fcgi.Proofs.StrDecomp
import Fcgi.Props.C04
/-!
# The request parser on ARBITRARY input against a record-level phase automaton (C04 / C03)

* `Phase`, `phaseOf`, `obs` — what is observable of a `State::drive` result: the reply bytes, the
  phase (idle / Params stream of request `id` / finishing / done / fatal `e`), the unconsumed input.
* per-record lemmas in observable form for EVERY well-formed record in the two resting states
  (`obs_idle_*`, `obs_params_*`), completing `Proofs/ReqRecords.lean` by the fatal cases;
* `reqRun` — **the phase automaton** over a record list; `run_records` — the loop follows it.
-/
namespace Fcgi.Req
open Fcgi Fcgi.Spec

/-! ## Observables -/

inductive Phase
  | idle                    -- no request in progress
  | params (id : Nat)       -- the Params stream of request `id` is being read
  | finishing (id : Nat)    -- the empty Params record was seen; its padding is being skipped
  | done (id : Nat)         -- request `id` complete
  | fatal (e : PErr)
deriving DecidableEq, Repr

def Phase.isFinal : Phase → Bool
  | .done _ | .fatal _ => true
  | _ => false

def ctxPhase : Ctx → Phase
  | .hdr => .idle
  | .par i => .params i.req.id
  | .dn r => .finishing r.id

def phaseOf : State → Phase
  | .header => .idle
  | .params i _ _ => .params i.req.id
  | .skip c _ _ => ctxPhase c
  | .values c _ _ _ => ctxPhase c
  | .done r => .done r.id
  | .fatal e => .fatal e

structure Obs where
  out : Bytes
  phase : Phase
  rem : Bytes
  panic : Option String
deriving DecidableEq, Repr

def obs (o : Out) : Obs := ⟨o.out, phaseOf o.st, o.rem, o.panic⟩

def Obs.pre (b : Bytes) (x : Obs) : Obs := { x with out := b ++ x.out }

theorem obs_pre (b : Bytes) (o : Out) : obs (pre b o) = (obs o).pre b := rfl
@[simp] theorem Obs.pre_nil (x : Obs) : x.pre [] = x := rfl
theorem Obs.pre_pre (a b : Bytes) (x : Obs) : (x.pre b).pre a = x.pre (a ++ b) := by
  simp [Obs.pre, List.append_assoc]

theorem phaseOf_intoState (c : Ctx) : phaseOf c.intoState = (match c with
    | .hdr => Phase.idle | .par i => .params i.req.id | .dn r => .done r.id) := by
  cases c <;> rfl

/-! ## `parse_stream` keeps the request's id -/

def PB.idIs (id : Nat) : PB → Prop
  | .ok i' _ => i'.req.id = id
  | .panic _ => True

theorem parseBuffered_idIs (i : Inner) (data : Bytes) (e : Bool) :
    (parseBuffered i data e).idIs i.req.id := by
  unfold parseBuffered
  simp only []
  repeat' split
  all_goals first
    | trivial
    | rfl

theorem parseBuffered_id {i i' : Inner} {data d' : Bytes} {e : Bool}
    (h : parseBuffered i data e = .ok i' d') : i'.req.id = i.req.id := by
  have := parseBuffered_idIs i data e
  rw [h] at this
  exact this

theorem parseStream_id {i i' : Inner} {data : Bytes} {e : Bool} {n : Nat}
    (h : parseStream i data e = .ok i' n) : i'.req.id = i.req.id := by
  unfold parseStream at h
  simp only [] at h
  split at h
  · split at h
    · cases h
    · rename_i i1 d1 hpb
      have h1 := parseBuffered_id hpb
      split at h
      · cases h; exact h1
      · split at h <;> (cases h; exact h1)
  · split at h <;> (cases h; rfl)

/-! ## Every well-formed record, while idle -/

theorem rtype_eq {r : Rec} {n : UInt8} (h : r.rtype.toNat = n.toNat) : r.rtype = n :=
  UInt8.toNat_inj.mp h

/-- Idle, noise (`IdleNoise`: anything but a BeginRequest of length 8 with a known role, or of
another length): exactly `owed none`, still idle. -/
theorem obs_idle_noise (r : Rec) (h : IdleNoise r) (rest : Bytes) (mc : Nat) :
    obs (run .header (r.ser ++ rest) mc) = (obs (run .header rest mc)).pre (owed none mc r) := by
  by_cases hl : rest ≠ [] ∨ ¬ EmptyGetValues r
  · rw [header_noise r h rest mc hl, obs_pre]
  · have h1 : rest = [] := Classical.byContradiction fun hh => hl (Or.inl hh)
    have h2 : EmptyGetValues r := Classical.byContradiction fun hh => hl (Or.inr hh)
    subst h1
    rw [List.append_nil, header_emptyGetValues_last r h.1 h2 mc, resting_header mc,
      C04.owed_getValues_empty none mc r h2.1 h2.2.1 h2.2.2.1]
    rfl

/-- Idle, BeginRequest whose content length is not 8: fatal `InvalidRequestLen`, nothing
consumed, nothing emitted. -/
theorem run_idle_badlen (r : Rec) (hwf : r.WF) (ht : r.rtype.toNat = RT.beginRequest)
    (hlen : r.content.length ≠ 8) (rest : Bytes) (mc : Nat) :
    run .header (r.ser ++ rest) mc =
      ⟨r.ser ++ rest, .fatal (.invalidRequestLen r.content.length), [], none⟩ := by
  have hv : RT.valid r.rtype.toNat = true := by rw [ht]; rfl
  have hs : step .header (r.ser ++ rest) mc =
      (.brk (r.ser ++ rest) (.fatal (.invalidRequestLen r.content.length)), []) := by
    simp only [step_header, headerDrive, tryHead_ser_valid .hdr r hwf rest hv]
    simp [ht, hlen]
  exact run_brk (st := .header) rfl hs

theorem content8 {c : Bytes} (h : c.length = 8) :
    ∃ c0 c1 c2 c3 c4 c5 c6 c7, c = [c0, c1, c2, c3, c4, c5, c6, c7] := by
  match c, h with
  | [c0, c1, c2, c3, c4, c5, c6, c7], _ => exact ⟨_, _, _, _, _, _, _, _, rfl⟩

/-- Idle, BeginRequest of length 8 with a known role and id 0: fatal `NullRequest`; header and
body (16 bytes) are consumed, the padding is not. -/
theorem run_idle_null (r : Rec) (hwf : r.WF) (ht : r.rtype.toNat = RT.beginRequest)
    {c0 c1 c2 c3 c4 c5 c6 c7 : UInt8} (hc : r.content = [c0, c1, c2, c3, c4, c5, c6, c7])
    (hrole : roleValid (be16 c0 c1) = true) (hid : r.id = 0) (rest : Bytes) (mc : Nat) :
    run .header (r.ser ++ rest) mc = ⟨r.pad ++ rest, .fatal .nullRequest, [], none⟩ := by
  have hv : RT.valid r.rtype.toNat = true := by rw [ht]; rfl
  have hd16 : (r.ser ++ rest).drop 16 = r.pad ++ rest := by
    rw [show 16 = 8 + 8 from rfl, ← List.drop_drop, ser_drop8, hc]; rfl
  have hs : step .header (r.ser ++ rest) mc = (.brk (r.pad ++ rest) (.fatal .nullRequest), []) := by
    simp only [step_header, headerDrive, tryHead_ser_valid .hdr r hwf rest hv, ser_drop8, hd16]
    simp [ht, hc, ser_length, BeginRequest.fromBytes, hrole, hid]
    omega
  exact run_brk (st := .header) rfl hs

/-- Idle, BeginRequest of length 8 with a known role and a non-null id: the request starts. -/
theorem run_idle_begin (r : Rec) (hwf : r.WF) (ht : r.rtype.toNat = RT.beginRequest)
    {c0 c1 c2 c3 c4 c5 c6 c7 : UInt8} (hc : r.content = [c0, c1, c2, c3, c4, c5, c6, c7])
    (hrole : roleValid (be16 c0 c1) = true) (hid : r.id ≠ 0) (rest : Bytes) (mc : Nat) :
    run .header (r.ser ++ rest) mc =
      run (.params { req := Request.new r.id { role := be16 c0 c1, flags := c2 }, buffer := [] } 0 0)
        rest mc := by
  have h := header_begin r.id (be16 c0 c1) c2 [c3, c4, c5, c6, c7] r.pad r.reserved rest mc
    ⟨by omega, hwf.1⟩ hrole rfl hwf.2.2
  have hr : ({ rtype := 1, id := r.id, content := toBe16 (be16 c0 c1) ++ [c2] ++ [c3, c4, c5, c6, c7],
               pad := r.pad, reserved := r.reserved } : Rec) = r := by
    have h1 : r.rtype = 1 := rtype_eq (n := 1) ht
    rw [Proofs.Header.toBe16_be16]
    cases r
    simp only at h1 hc
    subst h1 hc
    rfl
  rw [hr] at h
  exact h

/-! ## Every well-formed record, during the Params stream -/

theorem obs_params_noise (i : Inner) (hi : InnerOK i) (r : Rec) (h : ParamsNoise i.req.id r)
    (rest : Bytes) (mc : Nat) :
    obs (run (.params i 0 0) (r.ser ++ rest) mc) =
      (obs (run (.params i 0 0) rest mc)).pre (owed (some i.req.id) mc r) := by
  by_cases hl : rest ≠ [] ∨ ¬ EmptyGetValues r
  · rw [params_noise i hi r h rest mc hl, obs_pre]
  · have h1 : rest = [] := Classical.byContradiction fun hh => hl (Or.inl hh)
    have h2 : EmptyGetValues r := Classical.byContradiction fun hh => hl (Or.inr hh)
    subst h1
    rw [List.append_nil, params_emptyGetValues_last i r h.1 h2 mc, resting_params i mc,
      C04.owed_getValues_empty (some i.req.id) mc r h2.1 h2.2.1 h2.2.2.1]
    rfl

theorem rec_eta (r : Rec) :
    ({ rtype := r.rtype, id := r.id, content := r.content, pad := r.pad, reserved := r.reserved } : Rec) = r := by
  cases r; rfl

/-- A non-empty Params record of the request: no output; some `i'` for the same request. -/
theorem run_params_chunk (i : Inner) (hi : InnerOK i) (r : Rec) (hwf : r.WF)
    (ht : r.rtype.toNat = RT.params) (hid : r.id = i.req.id) (hne : r.content ≠ [])
    (rest : Bytes) (mc : Nat) :
    ∃ i', InnerOK i' ∧ i'.req.id = i.req.id ∧
      run (.params i 0 0) (r.ser ++ rest) mc = run (.params i' 0 0) rest mc := by
  obtain ⟨i', k, hps, -, -, -⟩ := parseStream_ok i r.content true
  have hpos : 0 < r.content.length := List.length_pos_iff.mpr hne
  obtain ⟨-, hok, hrun⟩ := params_chunk i i' hi r.content r.pad r.reserved k rest mc
    ⟨hpos, hwf.2.1⟩ hwf.2.2 (hid ▸ hwf.1) hps
  have h1 : r.rtype = 4 := rtype_eq (n := 4) ht
  rw [← hid, ← h1, rec_eta r] at hrun
  exact ⟨i', hok, parseStream_id hps, hrun⟩

/-- The empty Params record of the request: done; padding consumed. -/
theorem run_params_done (i : Inner) (hi : InnerOK i) (r : Rec) (hwf : r.WF)
    (ht : r.rtype.toNat = RT.params) (hid : r.id = i.req.id) (he : r.content = [])
    (rest : Bytes) (mc : Nat) :
    run (.params i 0 0) (r.ser ++ rest) mc = ⟨rest, .done i.req, [], none⟩ := by
  have h := params_done i hi r.pad r.reserved rest mc hwf.2.2 (hid ▸ hwf.1)
  have h1 : r.rtype = 4 := rtype_eq (n := 4) ht
  have hr : ({ rtype := 4, id := i.req.id, content := [], pad := r.pad, reserved := r.reserved } : Rec) = r := by
    rw [← hid, ← h1, ← he, rec_eta r]
  rw [hr] at h
  exact h

/-- An AbortRequest of the request: one `EndRequest(RequestComplete)`, idle again. -/
theorem run_params_abort (i : Inner) (hi : InnerOK i) (r : Rec) (hwf : r.WF)
    (ht : r.rtype.toNat = RT.abortRequest) (hid : r.id = i.req.id) (rest : Bytes) (mc : Nat) :
    run (.params i 0 0) (r.ser ++ rest) mc =
      pre (EndRequest.toRecord { appStatus := 0, protocolStatus := 0 } i.req.id)
        (run .header rest mc) := by
  have h := params_abort i hi r.content r.pad r.reserved rest mc hwf.2.1 hwf.2.2 (hid ▸ hwf.1)
  have h1 : r.rtype = 2 := rtype_eq (n := 2) ht
  rw [← hid, ← h1, rec_eta r] at h
  rw [← hid]
  exact h


/-! ## The phase automaton over records -/

/-- Result of the automaton: replies, phase reached, `k` = index of the first record not
(completely) consumed, `skip` = bytes of that record consumed nevertheless (16 for `NullRequest`). -/
structure QRes where
  out : Bytes
  phase : Phase
  k : Nat
  skip : Nat
deriving DecidableEq, Repr

def QRes.pre (b : Bytes) (q : QRes) : QRes := { q with out := b ++ q.out }
def QRes.shift (q : QRes) : QRes := { q with k := q.k + 1 }

/-- **The phase automaton.**  Checks in the order of `HeaderState::drive` / `ParamsState::drive`:

idle: (1) type byte not in 1..11 → `UnknownType` reply (via `owed none`); (2) BeginRequest whose
content length ≠ 8 → fatal `InvalidRequestLen`, the record is NOT consumed; (3) BeginRequest with an
unknown role → `EndRequest(UnknownRole)` to its id (also for id 0), stay idle; (4) BeginRequest with
id 0 → fatal `NullRequest`, header + body consumed; (5) otherwise the request starts; any other
record: `owed none` (GetValues id 0 with non-empty body → `GetValuesResult`), stay idle.

Params stream of `id`: own Params record → empty: done (padding consumed), non-empty: fed to the
name-value stream, no reply; own AbortRequest → `EndRequest(RequestComplete, 0)`, idle again; any
other record: `owed (some id)` (unknown type → `UnknownType`; BeginRequest of another id →
`EndRequest(CantMpxConn)`; GetValues id 0 non-empty → `GetValuesResult`; else nothing). -/
def reqRun (mc : Nat) : Phase → List Rec → QRes
  | ph, [] => ⟨[], ph, 0, 0⟩
  | .idle, r :: rs =>
    if r.rtype.toNat = RT.beginRequest then
      match r.content with
      | [c0, c1, _, _, _, _, _, _] =>
        if roleValid (be16 c0 c1) = false then ((reqRun mc .idle rs).shift).pre (owed none mc r)
        else if r.id = 0 then ⟨[], .fatal .nullRequest, 0, 16⟩
        else (reqRun mc (.params r.id) rs).shift
      | _ => ⟨[], .fatal (.invalidRequestLen r.content.length), 0, 0⟩
    else ((reqRun mc .idle rs).shift).pre (owed none mc r)
  | .params id, r :: rs =>
    if r.id = id ∧ r.rtype.toNat = RT.params then
      if r.content = [] then ⟨[], .done id, 1, 0⟩ else (reqRun mc (.params id) rs).shift
    else if r.id = id ∧ r.rtype.toNat = RT.abortRequest then
      ((reqRun mc .idle rs).shift).pre (EndRequest.toRecord { appStatus := 0, protocolStatus := 0 } id)
    else ((reqRun mc (.params id) rs).shift).pre (owed (some id) mc r)
  | .finishing id, _ :: _ => ⟨[], .finishing id, 0, 0⟩
  | .done id, _ :: _ => ⟨[], .done id, 0, 0⟩
  | .fatal e, _ :: _ => ⟨[], .fatal e, 0, 0⟩

/-! Equations of `reqRun`. -/

theorem reqRun_idle_other (mc : Nat) {r : Rec} (rs : List Rec) (hb : ¬ r.rtype.toNat = RT.beginRequest) :
    reqRun mc .idle (r :: rs) = ((reqRun mc .idle rs).shift).pre (owed none mc r) := by
  simp only [reqRun, if_neg hb]

theorem reqRun_idle_badlen (mc : Nat) {r : Rec} (rs : List Rec) (hb : r.rtype.toNat = RT.beginRequest)
    (hlen : r.content.length ≠ 8) :
    reqRun mc .idle (r :: rs) = ⟨[], .fatal (.invalidRequestLen r.content.length), 0, 0⟩ := by
  simp only [reqRun, if_pos hb]
  split
  · rename_i hc; rw [hc] at hlen; simp at hlen
  · rfl

theorem reqRun_idle_unkrole (mc : Nat) {r : Rec} (rs : List Rec) (hb : r.rtype.toNat = RT.beginRequest)
    {c0 c1 c2 c3 c4 c5 c6 c7 : UInt8} (hc : r.content = [c0, c1, c2, c3, c4, c5, c6, c7])
    (hrole : roleValid (be16 c0 c1) = false) :
    reqRun mc .idle (r :: rs) = ((reqRun mc .idle rs).shift).pre (owed none mc r) := by
  simp only [reqRun, if_pos hb, hc, hrole, if_true]

theorem reqRun_idle_null (mc : Nat) {r : Rec} (rs : List Rec) (hb : r.rtype.toNat = RT.beginRequest)
    {c0 c1 c2 c3 c4 c5 c6 c7 : UInt8} (hc : r.content = [c0, c1, c2, c3, c4, c5, c6, c7])
    (hrole : roleValid (be16 c0 c1) = true) (hid : r.id = 0) :
    reqRun mc .idle (r :: rs) = ⟨[], .fatal .nullRequest, 0, 16⟩ := by
  simp only [reqRun, if_pos hb, hc, hrole, Bool.true_eq_false, if_false, hid, if_true]

theorem reqRun_idle_begin (mc : Nat) {r : Rec} (rs : List Rec) (hb : r.rtype.toNat = RT.beginRequest)
    {c0 c1 c2 c3 c4 c5 c6 c7 : UInt8} (hc : r.content = [c0, c1, c2, c3, c4, c5, c6, c7])
    (hrole : roleValid (be16 c0 c1) = true) (hid : r.id ≠ 0) :
    reqRun mc .idle (r :: rs) = (reqRun mc (.params r.id) rs).shift := by
  simp only [reqRun, if_pos hb, hc, hrole, Bool.true_eq_false, if_false, if_neg hid]

theorem reqRun_params_done (mc : Nat) {id : Nat} {r : Rec} (rs : List Rec)
    (hp : r.id = id ∧ r.rtype.toNat = RT.params) (he : r.content = []) :
    reqRun mc (.params id) (r :: rs) = ⟨[], .done id, 1, 0⟩ := by
  simp only [reqRun, if_pos hp, if_pos he]

theorem reqRun_params_chunk (mc : Nat) {id : Nat} {r : Rec} (rs : List Rec)
    (hp : r.id = id ∧ r.rtype.toNat = RT.params) (he : r.content ≠ []) :
    reqRun mc (.params id) (r :: rs) = (reqRun mc (.params id) rs).shift := by
  simp only [reqRun, if_pos hp, if_neg he]

theorem reqRun_params_abort (mc : Nat) {id : Nat} {r : Rec} (rs : List Rec)
    (hp : ¬ (r.id = id ∧ r.rtype.toNat = RT.params))
    (ha : r.id = id ∧ r.rtype.toNat = RT.abortRequest) :
    reqRun mc (.params id) (r :: rs) = ((reqRun mc .idle rs).shift).pre
      (EndRequest.toRecord { appStatus := 0, protocolStatus := 0 } id) := by
  simp only [reqRun, if_neg hp, if_pos ha]

theorem reqRun_params_noise (mc : Nat) {id : Nat} {r : Rec} (rs : List Rec)
    (hp : ¬ (r.id = id ∧ r.rtype.toNat = RT.params))
    (ha : ¬ (r.id = id ∧ r.rtype.toNat = RT.abortRequest)) :
    reqRun mc (.params id) (r :: rs) = ((reqRun mc (.params id) rs).shift).pre (owed (some id) mc r) := by
  simp only [reqRun, if_neg hp, if_neg ha]

/-- The loop rests in `st` between records, in phase `ph`. -/
def Rests (st : State) (ph : Phase) : Prop :=
  (st = .header ∧ ph = .idle) ∨ ∃ i, st = .params i 0 0 ∧ InnerOK i ∧ ph = .params i.req.id

theorem Rests.wf {st : State} {ph : Phase} (h : Rests st ph) : WFState st := by
  rcases h with ⟨rfl, -⟩ | ⟨i, rfl, hi, -⟩
  · trivial
  · exact wf_params_zero hi

theorem Rests.phase {st : State} {ph : Phase} (h : Rests st ph) : phaseOf st = ph := by
  rcases h with ⟨rfl, rfl⟩ | ⟨i, rfl, -, rfl⟩ <;> rfl

/-- What `run_records` says for an automaton result `Q`. -/
def Goal (mc : Nat) (Q : QRes) (rs : List Rec) (st : State) (tail : Bytes) : Prop :=
  if Q.phase.isFinal = true then
    obs (run st (serAll rs ++ tail) mc) =
      ⟨Q.out, Q.phase, (serAll (rs.drop Q.k) ++ tail).drop Q.skip, none⟩
  else ∃ st', Rests st' Q.phase ∧
    obs (run st (serAll rs ++ tail) mc) = (obs (run st' tail mc)).pre Q.out

theorem step_combine {mc : Nat} {r : Rec} {rs : List Rec} {tail : Bytes} {st st1 : State}
    {Q : QRes} {b : Bytes}
    (hstep : obs (run st (r.ser ++ (serAll rs ++ tail)) mc) =
      (obs (run st1 (serAll rs ++ tail) mc)).pre b)
    (ih : Goal mc Q rs st1 tail) : Goal mc ((Q.shift).pre b) (r :: rs) st tail := by
  unfold Goal at ih ⊢
  rw [serAll_cons, List.append_assoc, hstep]
  by_cases hf : Q.phase.isFinal = true
  · rw [if_pos hf] at ih
    rw [if_pos (by exact hf), ih]
    simp [Obs.pre, QRes.pre, QRes.shift]
  · rw [if_neg hf] at ih
    rw [if_neg (by exact hf)]
    obtain ⟨st', h1, h2⟩ := ih
    exact ⟨st', h1, by rw [h2, Obs.pre_pre]; rfl⟩

theorem goal_final {mc : Nat} {Q : QRes} {rs : List Rec} {st : State} {tail : Bytes}
    (hf : Q.phase.isFinal = true)
    (h : obs (run st (serAll rs ++ tail) mc) =
      ⟨Q.out, Q.phase, (serAll (rs.drop Q.k) ++ tail).drop Q.skip, none⟩) :
    Goal mc Q rs st tail := by
  unfold Goal; rw [if_pos hf]; exact h

/-- **The loop follows the automaton** over any list of well-formed records, from either resting
state, whatever follows (`tail`): if the automaton ends in `done` / `fatal e` so does the loop, with
exactly the automaton's replies and the unconsumed input it says; otherwise the loop has emitted
exactly the automaton's replies and goes on, resting in the automaton's phase, on `tail`. -/
theorem run_records (mc : Nat) : ∀ (rs : List Rec), (∀ r ∈ rs, r.WF) → ∀ (st : State) (ph : Phase),
    Rests st ph → ∀ tail, Goal mc (reqRun mc ph rs) rs st tail := by
  intro rs
  induction rs with
  | nil =>
    intro _ st ph hr tail
    have hnf : ph.isFinal = false := by
      rcases hr with ⟨-, rfl⟩ | ⟨i, -, -, rfl⟩ <;> rfl
    unfold Goal
    simp only [reqRun, hnf, Bool.false_eq_true, if_false]
    exact ⟨st, hr, by simp [serAll_nil]⟩
  | cons r rs ih =>
    intro hwf st ph hr tail
    have hr_wf := hwf r List.mem_cons_self
    have ih' := ih (fun r' h' => hwf r' (List.mem_cons_of_mem _ h'))
    have happ : serAll (r :: rs) ++ tail = r.ser ++ (serAll rs ++ tail) := by
      rw [serAll_cons, List.append_assoc]
    rcases hr with ⟨rfl, rfl⟩ | ⟨i, rfl, hi, rfl⟩
    · -- idle
      by_cases hb : r.rtype.toNat = RT.beginRequest
      · by_cases hlen : r.content.length = 8
        · obtain ⟨c0, c1, c2, c3, c4, c5, c6, c7, hc⟩ := content8 hlen
          by_cases hrole : roleValid (be16 c0 c1) = false
          · have hn : IdleNoise r := ⟨hr_wf, fun _ => ⟨c0, c1, c2, c3, c4, c5, c6, c7, hc, hrole⟩⟩
            rw [reqRun_idle_unkrole mc rs hb hc hrole]
            exact step_combine (obs_idle_noise r hn (serAll rs ++ tail) mc)
              (ih' .header .idle (Or.inl ⟨rfl, rfl⟩) tail)
          · have hrole' : roleValid (be16 c0 c1) = true := by simpa using hrole
            by_cases hid : r.id = 0
            · rw [reqRun_idle_null mc rs hb hc hrole' hid]
              refine goal_final rfl ?_
              have hd16 : (r.ser ++ (serAll rs ++ tail)).drop 16 = r.pad ++ (serAll rs ++ tail) := by
                rw [show 16 = 8 + 8 from rfl, ← List.drop_drop, ser_drop8, hc]; rfl
              rw [happ, run_idle_null r hr_wf hb hc hrole' hid]
              simp only [List.drop_zero, happ, hd16]
              rfl
            · have hst := run_idle_begin r hr_wf hb hc hrole' hid (serAll rs ++ tail) mc
              rw [reqRun_idle_begin mc rs hb hc hrole' hid]
              have := step_combine (b := []) (by rw [hst]; rfl)
                (ih' _ (.params r.id) (Or.inr ⟨_, rfl, innerOK_nil _, rfl⟩) tail)
              simpa only [QRes.pre, List.nil_append] using this
        · rw [reqRun_idle_badlen mc rs hb hlen]
          refine goal_final rfl ?_
          rw [happ, run_idle_badlen r hr_wf hb hlen]
          simp only [List.drop_zero, happ]
          rfl
      · have hn : IdleNoise r := ⟨hr_wf, fun h => absurd h hb⟩
        rw [reqRun_idle_other mc rs hb]
        exact step_combine (obs_idle_noise r hn (serAll rs ++ tail) mc)
          (ih' .header .idle (Or.inl ⟨rfl, rfl⟩) tail)
    · -- Params stream of `i.req.id`
      by_cases hp : r.id = i.req.id ∧ r.rtype.toNat = RT.params
      · by_cases he : r.content = []
        · rw [reqRun_params_done mc rs hp he]
          refine goal_final rfl ?_
          rw [happ, run_params_done i hi r hr_wf hp.2 hp.1 he]
          simp only [List.drop_zero, List.drop_succ_cons]
          rfl
        · obtain ⟨i', hi', hid', hrun⟩ :=
            run_params_chunk i hi r hr_wf hp.2 hp.1 he (serAll rs ++ tail) mc
          rw [reqRun_params_chunk mc rs hp he]
          have := step_combine (b := []) (by rw [hrun]; rfl)
            (ih' _ _ (Or.inr ⟨i', rfl, hi', rfl⟩) tail)
          rw [hid'] at this
          simpa only [QRes.pre, List.nil_append] using this
      · by_cases ha : r.id = i.req.id ∧ r.rtype.toNat = RT.abortRequest
        · have hrun := run_params_abort i hi r hr_wf ha.2 ha.1 (serAll rs ++ tail) mc
          rw [reqRun_params_abort mc rs hp ha]
          exact step_combine (by rw [hrun, obs_pre])
            (ih' .header .idle (Or.inl ⟨rfl, rfl⟩) tail)
        · have hn : ParamsNoise i.req.id r := ⟨hr_wf, fun h => by
            rcases h with ⟨h1, h2 | h2⟩
            · exact hp ⟨h1, h2⟩
            · exact ha ⟨h1, h2⟩⟩
          rw [reqRun_params_noise mc rs hp ha]
          exact step_combine (obs_params_noise i hi r hn (serAll rs ++ tail) mc)
            (ih' _ _ (Or.inr ⟨i, rfl, hi, rfl⟩) tail)

end Fcgi.Req
