import Fcgi.Props.C08Inv
import Fcgi.Props.C04Hostile
import Fcgi.Proofs.AsyncRead
import Fcgi.Props.C07
/-!
# The reply ledger: what the write log holds, relative to the bytes consumed

`Props/C08Inv.lean` shows that a parked task has empty reply buffers and nothing left to parse
(`OwesNothing`, `Processed`).  This file ties that to the WRITE LOG.

§1 `parse_request`: `PRLed L0 raw0 D c` — the connection is inside the `parse_request` that started with
the write log `L0` and the leftover `raw0` in the request parser's buffer, and has since taken the bytes
`D` from the transport (ANY transport: errors, short reads, partial writes): the parser is where one run
of the loop over `raw0 ++ D` ends (or `StuckOnInput`), and log ++ (what `write_all` still holds) =
`L0 ++` that run's output.  Kept by every transition (`prled_step`); §2 lifts it to polls and to
`runTask` for the first `parse_request` of a connection.
-/
namespace Fcgi.C08R
open Fcgi Fcgi.Req Fcgi.Str Fcgi.Async Fcgi.Run

/-- the request parser stands where the loop over `F` ends, or reported `StuckOnInput` there -/
def Core (rp : Req.Parser) (F : Bytes) : Prop :=
  PInv rp ∧ rp.input = (run .header F rp.maxConns).rem ∧
    (rp.state = (run .header F rp.maxConns).st ∨
      (rp.state = .fatal .stuckOnInput ∧ (run .header F rp.maxConns).st.isFinal = false))

/-- the ledger of one `parse_request` -/
def PRLed (mc : Nat) (L0 raw0 D : Bytes) (c : Conn) : Prop :=
  match c.phase with
  | .parseReq rp .start =>
    rp.maxConns = mc ∧ PInv rp ∧ rp.state = .header ∧ rp.input = raw0 ∧ D = [] ∧ c.env.tr.wlog = L0
  | .parseReq rp .reading =>
    rp.maxConns = mc ∧ Core rp (raw0 ++ D) ∧ rp.state.isFinal = false ∧
      c.env.tr.wlog = L0 ++ (run .header (raw0 ++ D) rp.maxConns).out
  | .parseReq rp (.writing rest d) =>
    rp.maxConns = mc ∧ Core rp (raw0 ++ D) ∧ d = rp.state.isFinal ∧
      c.env.tr.wlog ++ rest = L0 ++ (run .header (raw0 ++ D) rp.maxConns).out
  | _ => False

/-- what one legal `parse` call does to `Core` -/
theorem core_parse {rp : Req.Parser} {F bs : Bytes} (hp : PInv rp)
    (hcs : bs ≠ [] → rp.input = (run .header F rp.maxConns).rem ∧ rp.state = (run .header F rp.maxConns).st)
    (hn : bs.length ≤ rp.free) (hF : bs = [] → F = rp.input ∧ rp.state = .header) :
    ∃ rp' y, rp.parse bs = (rp', some y) ∧ rp'.maxConns = rp.maxConns ∧ Core rp' (F ++ bs) ∧
      y.done = rp'.state.isFinal ∧
      (run .header (F ++ bs) rp.maxConns).out =
        (if bs = [] then [] else (run .header F rp.maxConns).out) ++ y.output := by
  have hrun : run rp.state (rp.input ++ bs) rp.maxConns =
      { run .header (F ++ bs) rp.maxConns with
        out := (run rp.state (rp.input ++ bs) rp.maxConns).out } ∧
      (run .header (F ++ bs) rp.maxConns).out =
        (if bs = [] then [] else (run .header F rp.maxConns).out) ++
          (run rp.state (rp.input ++ bs) rp.maxConns).out := by
    by_cases hb : bs = []
    · obtain ⟨h1, h2⟩ := hF hb
      subst hb
      rw [h2, List.append_nil, List.append_nil, h1]
      simp
    · have hs := Req.run_split (st := .header) trivial F bs rp.maxConns hb
      obtain ⟨hin, hst⟩ := hcs hb
      rw [hst, hin, hs]
      simp [hb]
  obtain ⟨y, hy, hinv⟩ := C03.parse_total hp hn
  have hpe := parse_eq hp hn
  refine ⟨(rp.parse bs).1, y, by rw [← hy], ?_, ?_, ?_, ?_⟩
  · rw [hpe]; split <;> rfl
  · refine ⟨hinv, ?_, ?_⟩
    · rw [hpe]
      split
      · show (run rp.state (rp.input ++ bs) rp.maxConns).rem = _
        rw [hrun.1]
      · show (run rp.state (rp.input ++ bs) rp.maxConns).rem = _
        rw [hrun.1]
    · rw [hpe]
      split
      · rename_i hc
        right
        refine ⟨rfl, ?_⟩
        show (run .header (F ++ bs) rp.maxConns).st.isFinal = false
        have : (run .header (F ++ bs) rp.maxConns).st = (run rp.state (rp.input ++ bs) rp.maxConns).st := by
          rw [hrun.1]
        rw [this]
        simp only [Bool.and_eq_true, Bool.not_eq_eq_eq_not, Bool.not_true] at hc
        exact hc.1
      · left
        show (run rp.state (rp.input ++ bs) rp.maxConns).st = _
        rw [hrun.1]
  · rw [hpe] at hy ⊢
    split at hy <;> rename_i hc
    · rw [if_pos hc]; cases hy; rfl
    · rw [if_neg hc]; cases hy; rfl
  · rw [hrun.2]
    congr 1
    rw [hpe] at hy
    split at hy <;> (cases hy; rfl)

theorem step_start' (c : Conn) (rp : Req.Parser) (hp : c.phase = .parseReq rp .start) (hs : c.stop = false) :
    stepConn c =
      match rp.parse [] with
      | (_, none) => .halt c (.panic "request parser panicked")
      | (rp, some y) => .next { c with phase := .parseReq rp (.writing y.output y.done) } := by
  obtain ⟨phase, env, scripts, stop⟩ := c
  simp only at hp hs; subst hp; subst hs
  rfl

theorem step_reading' (c : Conn) (rp : Req.Parser) (hp : c.phase = .parseReq rp .reading) (hs : c.stop = false) :
    stepConn c =
      match c.env.tr.read rp.free with
      | (t, .pending) => .halt { c with env := { c.env with tr := t } } .pending
      | (t, .ready (.error _)) => .halt { c with phase := .finished, env := { c.env with tr := t } } .finished
      | (t, .ready (.ok [])) => .halt { c with phase := .finished, env := { c.env with tr := t } } .finished
      | (t, .ready (.ok bs)) =>
        match rp.parse bs with
        | (_, none) => .halt { c with env := { c.env with tr := t } } (.panic "request parser panicked")
        | (rp, some y) =>
          .next { c with phase := .parseReq rp (.writing y.output y.done), env := { c.env with tr := t } } := by
  obtain ⟨phase, env, scripts, stop⟩ := c
  simp only at hp hs; subst hp; subst hs
  rfl

theorem step_stop' (c : Conn) (rp : Req.Parser) (sub : PRSub) (hp : c.phase = .parseReq rp sub) (hs : c.stop = true) :
    stepConn c = .halt { c with phase := .finished } .finished := by
  obtain ⟨phase, env, scripts, stop⟩ := c
  simp only at hp hs; subst hp; subst hs
  rfl

/-- **One transition inside `parse_request`** keeps the ledger (with the bytes `bs` just taken from the
transport), or leaves `parse_request`: finished, or into the handler. -/
theorem prled_step {mc : Nat} {L0 raw0 D : Bytes} {c : Conn} (h : PRLed mc L0 raw0 D c) :
    (stepConn c).conn.phase.isHandler = true ∨ (stepConn c).conn.phase = .finished ∨
    ∃ bs, PRLed mc L0 raw0 (D ++ bs) (stepConn c).conn ∧ c.env.tr.input = bs ++ (stepConn c).conn.env.tr.input ∧
      (stepConn c).conn.env.segs = c.env.segs := by
  cases hph : c.phase with
  | finished => simp [PRLed, hph] at h
  | handler r hs => simp [PRLed, hph] at h
  | closing r cs st al => simp [PRLed, hph] at h
  | parseReq rp sub =>
    cases hstop : c.stop with
    | true => rw [step_stop' c rp sub hph hstop]; exact Or.inr (Or.inl rfl)
    | false =>
    cases sub with
    | start =>
      simp only [PRLed, hph] at h
      obtain ⟨hmc0, hp, hst, hin, hD, hlog⟩ := h
      subst hD
      obtain ⟨rp', y, hpar, hmc, hcore, hdone, hout⟩ :=
        core_parse (F := raw0) (bs := []) hp (fun hx => absurd rfl hx) (Nat.zero_le _)
          (fun _ => ⟨hin.symm, hst⟩)
      rw [step_start' c rp hph hstop, hpar]
      refine Or.inr (Or.inr ⟨[], ?_, rfl, rfl⟩)
      simp only [Step.conn, PRLed]
      rw [List.append_nil] at hcore hout
      simp only [List.append_nil]
      rw [hmc]
      refine ⟨hmc0, hcore, hdone, ?_⟩
      rw [hlog, hout]; simp
    | reading =>
      simp only [PRLed, hph] at h
      obtain ⟨hmc0, ⟨hp, hin, hst⟩, hnf, hlog⟩ := h
      have hst' : rp.state = (run .header (raw0 ++ D) rp.maxConns).st := by
        rcases hst with h1 | ⟨h1, _⟩
        · exact h1
        · rw [h1] at hnf; cases hnf
      rw [step_reading' c rp hph hstop]
      rcases hrd : c.env.tr.read rp.free with ⟨t, res⟩
      obtain ⟨hwl, hok, hpe⟩ := tread_spec hrd
      rcases res with (_ | bs) | _
      · exact Or.inr (Or.inl rfl)
      · cases bs with
        | nil => exact Or.inr (Or.inl rfl)
        | cons x xs =>
          obtain ⟨hlen, hsplit, _⟩ := hok (x :: xs) rfl
          obtain ⟨rp', y, hpar, hmc, hcore, hdone, hout⟩ :=
            core_parse (F := raw0 ++ D) (bs := x :: xs) hp (fun _ => ⟨hin, hst'⟩) hlen
              (fun hx => by cases hx)
          simp only [hpar]
          refine Or.inr (Or.inr ⟨x :: xs, ?_, hsplit, rfl⟩)
          simp only [Step.conn, PRLed]
          rw [← List.append_assoc, hmc]
          refine ⟨hmc0, hcore, hdone, ?_⟩
          show t.wlog ++ y.output = _
          rw [hwl, hlog, hout, if_neg (by simp), List.append_assoc]
      · refine Or.inr (Or.inr ⟨[], ?_, ?_, rfl⟩)
        · simp only [Step.conn, PRLed, hph, List.append_nil]
          exact ⟨hmc0, ⟨hp, hin, hst⟩, hnf, by show t.wlog = _; rw [hwl, hlog]⟩
        · show c.env.tr.input = [] ++ t.input
          rw [hpe (Or.inl rfl)]; rfl
    | writing rest d =>
      simp only [PRLed, hph] at h
      obtain ⟨hmc0, ⟨hp, hin, hst⟩, hd, hlog⟩ := h
      obtain ⟨phase, env, scripts, stop⟩ := c
      simp only at hph hstop hlog; subst hph; subst hstop
      simp only [stepConn, Bool.false_eq_true, if_false]
      rcases hwa : writeAllLoop (rest.length + 1) rest env.tr with ⟨rest', t', res⟩
      obtain ⟨⟨dn, hdn, hwl⟩, hinp, hready, hnop⟩ := writeAllLoop_spec _ _ _ hwa
      cases res with
      | pending =>
        refine Or.inr (Or.inr ⟨[], ?_, by simp [Step.conn, hinp], rfl⟩)
        simp only [Step.conn, PRLed, List.append_nil]
        refine ⟨hmc0, ⟨hp, hin, hst⟩, hd, ?_⟩
        show t'.wlog ++ rest' = _
        rw [hwl, List.append_assoc, ← hdn, hlog]
      | err e => exact Or.inr (Or.inl rfl)
      | panic s => exact absurd rfl (hnop (Nat.lt_succ_self _) s)
      | ready =>
        have hr := hready rfl
        subst hr
        rw [List.append_nil] at hdn
        simp only []
        cases d with
        | false =>
          simp only [Bool.not_false, if_true]
          have hnf : rp.state.isFinal = false := hd.symm
          refine Or.inr (Or.inr ⟨[], ?_, by simp [Step.conn, hinp], rfl⟩)
          simp only [Step.conn, PRLed, List.append_nil]
          refine ⟨hmc0, ⟨hp, hin, hst⟩, hnf, ?_⟩
          show t'.wlog = _
          rw [hwl, ← hdn, hlog]
        | true =>
          simp only [Bool.not_true, Bool.false_eq_true, if_false]
          split
          · exact Or.inr (Or.inl rfl)
          · exact Or.inl rfl

/-! ## 2. Polls and runs: the first `parse_request` of a connection -/

/-- everything the peer has sent or will send that the task has not taken yet -/
def wireOf (e : Run.Env) : Bytes := e.tr.input ++ (e.segs.map (·.2)).flatten

/-- As long as no handler has been started (`hsCount` still `hs0`), the connection is finished or inside
its first `parse_request` with the ledger, and the bytes taken so far plus what is still to come are the
wire `W0`. -/
def FirstPR (mc hs0 : Nat) (L0 W0 : Bytes) (c : Conn) : Prop :=
  hs0 ≤ hsCount c.env.tr.events ∧
  (hsCount c.env.tr.events = hs0 →
    c.phase = .finished ∨ ∃ D, PRLed mc L0 [] D c ∧ D ++ wireOf c.env = W0)

theorem prled_isParse {mc : Nat} {L0 raw0 D : Bytes} {c : Conn} (h : PRLed mc L0 raw0 D c) :
    c.phase.isParse = true := by
  cases hph : c.phase <;> simp [PRLed, hph] at h <;> rfl

theorem step_finished (c : Conn) (h : c.phase = .finished) : (stepConn c).conn = c := by
  obtain ⟨phase, env, scripts, stop⟩ := c
  simp only at h; subst h; rfl

theorem firstPR_step {mc hs0 : Nat} {L0 W0 : Bytes} {c : Conn} (h : FirstPR mc hs0 L0 W0 c) :
    FirstPR mc hs0 L0 W0 (stepConn c).conn := by
  obtain ⟨new, he, hn⟩ := C07.one_handler_per_done c
  obtain ⟨h1, h2⟩ := h
  have hc : hsCount (stepConn c).conn.env.tr.events = hsCount c.env.tr.events + hsCount new := by
    rw [he, hsCount_append]
  refine ⟨by omega, fun heq => ?_⟩
  have h0 : hsCount c.env.tr.events = hs0 := by omega
  have hn0 : hsCount new = 0 := by omega
  rcases h2 h0 with hf | ⟨D, hl, hw⟩
  · rw [step_finished c hf]; exact Or.inl hf
  · rcases prled_step hl with hh | hf | ⟨bs, hl', hin, hsg⟩
    · rw [prled_isParse hl, hh] at hn
      simp at hn; omega
    · exact Or.inl hf
    · refine Or.inr ⟨D ++ bs, hl', ?_⟩
      rw [← hw]
      simp only [wireOf, hsg, hin, List.append_assoc]

theorem firstPR_poll {mc hs0 : Nat} {L0 W0 : Bytes} : ∀ (fuel : Nat) (c : Conn), FirstPR mc hs0 L0 W0 c →
    FirstPR mc hs0 L0 W0 (pollConn fuel c).1
  | 0, _, h => h
  | fuel + 1, c, h => by
    rw [pollConn_succ]
    have hs := firstPR_step h
    cases hst : stepConn c with
    | next c' => rw [hst] at hs; exact firstPR_poll fuel c' hs
    | halt c' r => rw [hst] at hs; exact hs

/-- `FirstPR` only looks at the phase, the write log, the handler-start count and the wire -/
theorem firstPR_congr {mc hs0 : Nat} {L0 W0 : Bytes} {c c' : Conn} (h : FirstPR mc hs0 L0 W0 c)
    (hp : c'.phase = c.phase) (hl : c'.env.tr.wlog = c.env.tr.wlog)
    (he : hsCount c'.env.tr.events = hsCount c.env.tr.events) (hw : wireOf c'.env = wireOf c.env) :
    FirstPR mc hs0 L0 W0 c' := by
  obtain ⟨h1, h2⟩ := h
  refine ⟨by omega, fun heq => ?_⟩
  rcases h2 (by omega) with hf | ⟨D, hd, hwd⟩
  · exact Or.inl (hp.trans hf)
  · refine Or.inr ⟨D, ?_, by rw [hw]; exact hwd⟩
    unfold PRLed at hd ⊢
    rw [hp, hl]; exact hd

theorem release_go_frame : ∀ (fuel : Nat) (e : Run.Env) (any : Bool),
    (Env.release.go fuel e any).1.tr.wlog = e.tr.wlog ∧
    (Env.release.go fuel e any).1.tr.events = e.tr.events ∧
    wireOf (Env.release.go fuel e any).1 = wireOf e := by
  intro fuel
  induction fuel with
  | zero => intro e any; simp [Env.release.go]
  | succ n ih =>
    intro e any
    rcases hs : e.segs with _ | ⟨⟨g, bs⟩, rest⟩
    · unfold Env.release.go; rw [hs]; exact ⟨rfl, rfl, rfl⟩
    · unfold Env.release.go; rw [hs]; simp only []
      split
      · obtain ⟨a, b, c⟩ := ih { e with segs := rest, tr := { e.tr with input := e.tr.input ++ bs } } true
        refine ⟨a, b, ?_⟩
        rw [c]
        simp [wireOf, hs]
      · exact ⟨rfl, rfl, rfl⟩

theorem release_frame (e : Run.Env) :
    e.release.1.tr.wlog = e.tr.wlog ∧ e.release.1.tr.events = e.tr.events ∧ wireOf e.release.1 = wireOf e := by
  unfold Env.release
  have := release_go_frame (e.segs.length + 1) e false
  generalize Env.release.go (e.segs.length + 1) e false = x at this
  obtain ⟨e', any⟩ := x
  exact this

theorem firstPR_release {mc hs0 : Nat} {L0 W0 : Bytes} {c : Conn} (h : FirstPR mc hs0 L0 W0 c) :
    FirstPR mc hs0 L0 W0 { c with env := c.env.release.1 } := by
  obtain ⟨a, b, d⟩ := release_frame c.env
  exact firstPR_congr h rfl a (by show hsCount c.env.release.1.tr.events = _; rw [b]) d

theorem firstPR_prePoll {mc hs0 : Nat} {L0 W0 : Bytes} {c : Conn} (n : Nat) (sa : Option Nat)
    (h : FirstPR mc hs0 L0 W0 c) : FirstPR mc hs0 L0 W0 (prePoll c n sa) := by
  have key : ∀ c0 : Conn, c0.phase = c.phase → c0.env = c.env →
      FirstPR mc hs0 L0 W0 ({ c0 with env := ({ c0.env.release.1 with
        tr := { c0.env.release.1.tr with woken := false } } : Run.Env).ev s!"|{n}" }) := by
    intro c0 hp he
    obtain ⟨a, b, d⟩ := release_frame c0.env
    refine firstPR_congr h hp ?_ ?_ ?_
    · show c0.env.release.1.tr.wlog = _
      rw [a, he]
    · show hsCount (c0.env.release.1.tr.events ++ [s!"|{n}"]) = _
      rw [hsCount_append, b, he, hsCount_single_false (by simp [isHS, toString_str])]; rfl
    · show wireOf _ = _
      rw [← he, ← d]; rfl
  unfold prePoll
  split
  · exact key _ rfl rfl
  · exact key _ rfl rfl

/-- The executor keeps `FirstPR`. -/
theorem firstPR_run {mc hs0 : Nat} {L0 W0 : Bytes} : ∀ (fuel : Nat) (c : Conn) (n : Nat) (sa : Option Nat),
    FirstPR mc hs0 L0 W0 c → FirstPR mc hs0 L0 W0 (runTask fuel c n sa).1
  | 0, _, _, _, h => h
  | fuel + 1, c, n, sa, h => by
    rw [runTask_succ]
    have hp := firstPR_poll (connFuel (prePoll c n sa)) _ (firstPR_prePoll n sa h)
    generalize pollConn (connFuel (prePoll c n sa)) (prePoll c n sa) = x at hp
    obtain ⟨c1, res⟩ := x
    cases res with
    | finished => exact hp
    | panic s => exact hp
    | pending =>
      simp only []
      split
      · exact firstPR_run fuel _ _ _ hp
      · split
        · exact firstPR_run fuel _ _ _ (firstPR_release hp)
        · split
          · split
            · exact firstPR_run fuel _ _ _ (firstPR_release hp)
            · exact firstPR_release hp
          · exact firstPR_release hp

/-! ## 3. The stream parser's ledger while a handler (or `close`) owns the request

`GLed sp0 ops sp wl0 wl`: since the stream parser was `sp0` (e.g. `from_parser` at the handler start) the
operations `ops` were applied to it, and the bytes removed from its reply buffer (`sentAll`) went, in
order, into the part of the write log behind `wl0` — possibly interleaved with other writes (the
handler's own output: `List.Sublist`).  `C03S.output_ledger` then says: everything the parser generated
= what was sent ++ what is still in `sp.output`. -/

structure GLed (sp0 : Str.Parser) (ops : List Op) (sp : Str.Parser) (wl0 wl : Bytes) : Prop where
  sp_eq : sp = applyOps sp0 ops
  sent : ∃ mix, wl = wl0 ++ mix ∧ List.Sublist (C03S.sentAll sp0 ops) mix

theorem GLed.nil (sp0 : Str.Parser) (wl0 : Bytes) : GLed sp0 [] sp0 wl0 wl0 :=
  ⟨rfl, [], by simp, by simp [C03S.sentAll]⟩

/-- any other write to the transport (a `StreamWriter`'s record, the epilogue) keeps it -/
theorem GLed.other {sp0 sp : Str.Parser} {ops : List Op} {wl0 wl : Bytes} (h : GLed sp0 ops sp wl0 wl)
    (x : Bytes) : GLed sp0 ops sp wl0 (wl ++ x) := by
  obtain ⟨mix, hm, hs⟩ := h.sent
  exact ⟨h.sp_eq, mix ++ x, by rw [hm, List.append_assoc], hs.trans (List.sublist_append_left _ _)⟩

/-- a stretch described by `Async.Tr` (every `poll_input`, `AsyncRead.pollInput_spec`) extends it -/
theorem GLed.tr {sp0 sp sp' : Str.Parser} {ops ops' : List Op} {wl0 wl wl' inp inp' : Bytes}
    (h : GLed sp0 ops sp wl0 wl) (ht : Tr sp inp wl ops' sp' inp' wl') :
    GLed sp0 (ops ++ ops') sp' wl0 wl' := by
  obtain ⟨mix, hm, hs⟩ := h.sent
  refine ⟨by rw [ht.sp, h.sp_eq, Str.applyOps_append], mix ++ C03S.sentAll sp ops', ?_, ?_⟩
  · rw [ht.sent, hm, List.append_assoc]
  · rw [sentAll_append, ← h.sp_eq]
    exact hs.append (List.Sublist.refl _)

/-- operations that neither touch the reply buffer nor the log (`consume`, `set_stream`, `compress`,
`parse`) -/
theorem GLed.quiet {sp0 sp : Str.Parser} {ops : List Op} {wl0 wl : Bytes} (h : GLed sp0 ops sp wl0 wl)
    (op : Op) (hop : C03S.outSent sp op = []) : GLed sp0 (ops ++ [op]) (applyOp sp op) wl0 wl := by
  obtain ⟨mix, hm, hs⟩ := h.sent
  refine ⟨by rw [h.sp_eq, Str.applyOps_append]; rfl, mix, hm, ?_⟩
  rw [sentAll_append, ← h.sp_eq]
  simpa [C03S.sentAll, hop] using hs

/-- **What is in the log and what is not**: all replies generated = the ones sent (a sublist of the log
behind `wl0`, in order) followed by EXACTLY the bytes still in the parser's reply buffer. -/
theorem GLed.split {sp0 sp : Str.Parser} {ops : List Op} {wl0 wl : Bytes} (h : GLed sp0 ops sp wl0 wl) :
    ∃ sent mix, wl = wl0 ++ mix ∧ List.Sublist sent mix ∧
      sent ++ sp.output = sp0.output ++ C03S.grownAll sp0 ops := by
  obtain ⟨mix, hm, hs⟩ := h.sent
  exact ⟨_, mix, hm, hs, by rw [h.sp_eq]; exact C03S.output_ledger sp0 ops⟩

theorem fedBytes_c05 (ops : List Op) : C05.fedBytes ops = Str.fedBytes ops := by
  induction ops with
  | nil => rfl
  | cons op t ih => cases op <;> simp [C05.fedBytes, Str.fedBytes, ih]

/-- **(b) Parked in a handler read.**  The stream parser started at a record boundary with an empty reply
buffer (`from_parser`), no `set_stream` since, every call legal; now its reply buffer is empty and it has
nothing left to process (`C08Inv.OwesNothing`, `Processed`).  Then EVERY reply the reference semantics
prescribes for the bytes it was given — `refWire E (raw₀ ++ fed)`, i.e. `C04H.streamReplies` — is in the
log behind `wl0`, in order. -/
theorem handler_read_ledger {E : Str.Cfg} {sp0 sp : Str.Parser} {ops : List Op} {wl0 wl : Bytes}
    (h0 : C03SI.Start E sp0) (ho0 : sp0.output = []) (h : GLed sp0 ops sp wl0 wl)
    (hl : LegalAll sp0 ops) (hns : NoSet ops)
    (hq : C08Inv.Quiescent sp) (ho : sp.output = []) :
    ∃ mix, wl = wl0 ++ mix ∧
      List.Sublist (C04H.streamReplies E (sp0.raw ++ Str.fedBytes ops)) mix := by
  obtain ⟨sent, mix, hm, hs, hled⟩ := h.split
  rw [ho, ho0, List.append_nil, List.nil_append] at hled
  have hdr : Str.Drained (applyOps sp0 ops) := by
    rw [← h.sp_eq]
    show (sp.parse [] none).1 = sp
    rw [hq.parse_nil none]
  have hout := congrArg C03SI.Outcome.out (C03SI.drained_outcome h0 ops hl hns hdr).1
  simp only [C03SI.outcome, C03SI.refOutcome] at hout
  refine ⟨mix, hm, ?_⟩
  rw [← C04H.stream_replies_hostile, ← hout, ← hled]
  exact hs

/-- one `poll_input` in terms of the ledger (`AsyncRead.pollInput_spec`) -/
theorem GLed.pollInput {sp0 : Str.Parser} {ops : List Op} {wl0 : Bytes} {r r' : AReq} {dest : Option Nat}
    {m m' : MutexSt} {t t' : Transport} {res : IRes} (h : GLed sp0 ops r.sp wl0 t.wlog)
    (hl : LegalAll sp0 ops) (hns : NoSet ops)
    (hinv : AInv r) (hlk : LockInv r m) (hp : r.pollInput dest m t = (r', m', t', res)) :
    ∃ ops', GLed sp0 (ops ++ ops') r'.sp wl0 t'.wlog ∧ LegalAll sp0 (ops ++ ops') ∧ NoSet (ops ++ ops') ∧
      t.input = Str.fedBytes ops' ++ t'.input ∧ AInv r' ∧ LockInv r' m' := by
  obtain ⟨⟨ops', htr, _, _⟩, hpo, _⟩ := pollInput_spec hinv hlk hp
  obtain ⟨hsi, hcap, _, _⟩ := htr.inv hinv.1
  refine ⟨ops', h.tr htr, legalAll_append.2 ⟨hl, by rw [← h.sp_eq]; exact htr.legal⟩, ?_, ?_,
    ⟨hsi, by rw [hcap]; exact hinv.2⟩, hpo.linv⟩
  · intro s hm
    rcases List.mem_append.1 hm with hx | hx
    · exact hns s hx
    · exact htr.noset s hx
  · rw [← fedBytes_c05]; exact htr.fed

/-! ## 4. `record_boundary()`: reads and parses, never flushes -/

/-- The loop of `record_boundary()` is a history of `parse(new, None)` / `compress` operations on the
stream parser: nothing leaves the reply buffer, nothing is written; what it generated sits in
`sp'.output` behind what was there. -/
theorem boundaryLoop_ops : ∀ (fuel : Nat) (sp : Str.Parser) (new : Bytes) (t : Transport)
    {sp' : Str.Parser} {t' : Transport} {res : ORes}, boundaryLoop fuel sp new t = (sp', t', res) →
    ∃ ops, sp' = applyOps sp ops ∧ C03S.sentAll sp ops = [] ∧ t'.wlog = t.wlog ∧
      sp'.output = sp.output ++ C03S.grownAll sp ops ∧
      ((∀ s, res ≠ .panic s) → new ++ t.input = Str.fedBytes ops ++ t'.input) := by
  intro fuel
  induction fuel with
  | zero =>
    intro sp new t sp' t' res h
    simp only [boundaryLoop] at h
    cases h
    exact ⟨[], rfl, rfl, rfl, by simp [C03S.grownAll], fun hp => absurd rfl (hp _)⟩
  | succ n ih =>
    intro sp new t sp' t' res h
    -- the tail of one iteration, after `parse`
    have hcont : ∀ (q : Str.Parser), boundaryLoop.cont q t n = (sp', t', res) →
        ∃ ops, sp' = applyOps q ops ∧ C03S.sentAll q ops = [] ∧ t'.wlog = t.wlog ∧
          sp'.output = q.output ++ C03S.grownAll q ops ∧
          ((∀ s, res ≠ .panic s) → t.input = Str.fedBytes ops ++ t'.input) := by
      intro q hq
      simp only [boundaryLoop.cont] at hq
      split at hq
      · cases hq; exact ⟨[], rfl, rfl, rfl, by simp [C03S.grownAll], fun _ => rfl⟩
      · split at hq
        · cases hq; exact ⟨[], rfl, rfl, rfl, by simp [C03S.grownAll], fun _ => rfl⟩
        · rcases hrd : t.read q.compress.free with ⟨t1, rr⟩
          rw [hrd] at hq
          obtain ⟨hwl, hok, hpe⟩ := tread_spec hrd
          have hc0 : C03S.sentAll q [.compress] = [] := by simp [C03S.sentAll, C03S.outSent]
          have hg0 : (applyOp q .compress).output = q.output ++ C03S.grownAll q [.compress] := by
            have := C03S.output_ledger q [.compress]
            rw [hc0] at this
            simpa [applyOps] using this
          rcases rr with (_ | bs) | _
          · simp only at hq; cases hq
            exact ⟨[.compress], rfl, hc0, hwl, hg0, fun _ => by
              rw [hpe (Or.inr ⟨_, rfl⟩)]; rfl⟩
          · cases bs with
            | nil =>
              simp only at hq; cases hq
              obtain ⟨_, hsp, _⟩ := hok [] rfl
              exact ⟨[.compress], rfl, hc0, hwl, hg0, fun _ => by rw [hsp]; rfl⟩
            | cons x xs =>
              simp only at hq
              obtain ⟨_, hsp, _⟩ := hok (x :: xs) rfl
              obtain ⟨ops, h1, h2, h3, h4, h5⟩ := ih _ _ _ hq
              refine ⟨.compress :: ops, h1, ?_, h3.trans hwl, ?_, fun hp => ?_⟩
              · simp only [C03S.sentAll, C03S.outSent, List.nil_append]; exact h2
              · have := C03S.output_ledger q (.compress :: ops)
                rw [show C03S.sentAll q (.compress :: ops) = [] by
                  simp only [C03S.sentAll, C03S.outSent, List.nil_append]; exact h2] at this
                rw [h1]
                have e : applyOp q .compress = q.compress := rfl
                rw [← e]; simpa using this
              · rw [hsp]; exact h5 hp
          · simp only at hq; cases hq
            exact ⟨[.compress], rfl, hc0, hwl, hg0, fun _ => by rw [hpe (Or.inl rfl)]; rfl⟩
    simp only [boundaryLoop] at h
    rcases hpar : sp.parse new none with ⟨q, pr⟩
    rw [hpar] at h
    have hq : q = applyOp sp (.parse new none) := by simp [applyOp, hpar]
    have wrap : ∀ {ops}, sp' = applyOps q ops → C03S.sentAll q ops = [] → t'.wlog = t.wlog →
        ((∀ s, res ≠ .panic s) → t.input = Str.fedBytes ops ++ t'.input) →
        ∃ ops, sp' = applyOps sp ops ∧ C03S.sentAll sp ops = [] ∧ t'.wlog = t.wlog ∧
          sp'.output = sp.output ++ C03S.grownAll sp ops ∧
          ((∀ s, res ≠ .panic s) → new ++ t.input = Str.fedBytes ops ++ t'.input) := by
      intro ops h1 h2 h3 h5
      have hs : C03S.sentAll sp (.parse new none :: ops) = [] := by
        simp only [C03S.sentAll, C03S.outSent, List.nil_append, ← hq]; exact h2
      refine ⟨.parse new none :: ops, by rw [h1, hq]; rfl, hs, h3, ?_, fun hp => ?_⟩
      · have := C03S.output_ledger sp (.parse new none :: ops)
        rw [hs] at this
        rw [h1, hq]; simpa using this
      · simp only [Str.fedBytes, List.append_assoc]; rw [h5 hp]
    cases pr with
    | panic s =>
      simp only at h; cases h
      exact wrap (ops := []) rfl rfl rfl (fun _ => rfl)
    | err e =>
      simp only at h
      split at h
      · obtain ⟨ops, h1, h2, h3, _, h5⟩ := hcont q h
        exact wrap h1 h2 h3 h5
      · cases h
        exact wrap (ops := []) rfl rfl rfl (fun _ => rfl)
    | ok st =>
      simp only at h
      obtain ⟨ops, h1, h2, h3, _, h5⟩ := hcont q h
      exact wrap h1 h2 h3 h5

end Fcgi.C08R
