import Fcgi.Proofs.E2EFilterConn
/-!
# End-to-end composition (C07/C05) — the handler reads a prefix of Stdin, then writes to Stdout

Handler `[.read n, .open_ 6, .writeAll 0 data, .dropW 0, .ret st]` (Responder, KEEP_CONN).  The write
phase of `Proofs/E2EHandler.lean` (`open_phase`, `write_phase`) is stated for a request that has read
its input to the end (`REnd`); but the `StreamWriter` never touches the `Request` — the replies queued
in the stream parser stay queued — so it is redone here for ANY request (`open_phaseG`,
`write_phaseG`).  `close()` then is that of `Proofs/E2EPrefixConn.lean`, with the Stdout records in the
log: preamble replies, `O₁`, Stdout records, `O₂`, epilogue, where `O₁ ++ O₂` are the replies owed for
the consumed Stdin records `s₁`.
-/
namespace Fcgi.E2E
open Fcgi Fcgi.Req Fcgi.Str Fcgi.Async Fcgi.Run Fcgi.Spec

/-! ## The write phase, for any request -/

/-- handler suspended in (or about to start) `writeAll`; `Lb` = the log when the writer was opened -/
structure HWriteG (id : Nat) (data : Bytes) (st : ExitStatus) (Lb : Bytes) (h : HState) (e : Run.Env) : Prop where
  ops : h.ops = wscript data st
  pr : h.propagate = true
  wr : ∃ w L sent, h.writers = [some w] ∧ WSt id w e.mutex (restOf h.sub data) sent ∧
      e.tr.wlog = L ++ sent ∧
      L ++ streamRecords 6 id (restOf h.sub data) = Lb ++ streamRecords 6 id data
  len : (restOf h.sub data).length ≤ data.length

/-- result of one poll of the write phase: the request is untouched, nothing is read -/
def WOutG (id : Nat) (data : Bytes) (st : ExitStatus) (Lb : Bytes) (r : AReq) (e : Run.Env)
    (out : AReq × HState × Run.Env × HRes) : Prop :=
  out.1 = r ∧ TStep e.tr out.2.2.1.tr ∧ out.2.2.1.tr.input = e.tr.input ∧ out.2.2.1.segs = e.segs ∧
  ((out.2.2.2 = .pending ∧ out.2.2.1.tr.woken = true ∧ ans out.2.2.1.tr < ans e.tr ∧
      HWriteG id data st Lb out.2.1 out.2.2.1) ∨
   (out.2.2.2 = .done (.ok st) ∧ out.2.1.writers = [none] ∧ out.2.2.1.mutex = none ∧
      out.2.2.1.tr.wlog = Lb ++ streamRecords 6 id data))

theorem write_phaseG {id : Nat} {data : Bytes} {st : ExitStatus} {Lb : Bytes}
    {r : AReq} {h : HState} {e : Run.Env} (hw : HWriteG id data st Lb h e) (hb : Ben e.tr)
    {fuel : Nat} (hf : wcost data.length + 3 ≤ fuel) :
    WOutG id data st Lb r e (handlerPoll fuel r h e) := by
  obtain ⟨ops, sub, ws, pr⟩ := h
  obtain ⟨hops, hpr, ⟨w, L, sent, hws, hst, hlog, hL⟩, hlen⟩ := hw
  simp only at hops hpr hws hst hL hlen
  subst hops hpr hws
  have hfu : wcost (restOf sub data).length + 3 ≤ fuel := by
    unfold wcost at hf ⊢
    omega
  rcases writeAll_run (id := id) r data [.dropW 0, .ret st] true (restOf sub data).length fuel sub w e
      L sent (Nat.le_refl _) (by omega) hb hst hlog with
    ⟨w', e', rd', L', sent', d1, d2, d3, d4, d5, d6, d7, d8, d9, d10, d11⟩ |
    ⟨w', e', f', d1, d2, d3, d4, d5, d6, d7, d8, d9⟩
  · show WOutG id data st Lb r e (handlerPoll fuel r
      { ops := wscript data st, sub := sub, writers := [some w], propagate := true } e)
    rw [show wscript data st = .writeAll 0 data :: [.dropW 0, .ret st] from rfl, d1]
    refine ⟨rfl, d7, d8, d9, Or.inl ⟨rfl, d10, d11, rfl, rfl, ⟨w', L', sent', rfl, d5, d3, ?_⟩, ?_⟩⟩
    · show L' ++ streamRecords 6 id rd' = _
      rw [d4, hL]
    · show rd'.length ≤ data.length
      omega
  · show WOutG id data st Lb r e (handlerPoll fuel r
      { ops := wscript data st, sub := sub, writers := [some w], propagate := true } e)
    rw [show wscript data st = .writeAll 0 data :: [.dropW 0, .ret st] from rfl, d1]
    obtain ⟨f2, rfl⟩ : ∃ f2, f' = f2 + 2 := ⟨f' - 2, by omega⟩
    rw [hp_dropW]
    simp only [List.getD_cons_zero, List.set_cons_zero]
    rw [hp_ret]
    have hs2 : TStep e.tr (e'.tr.ev "W=ok") := d7.trans (TStep.ev _ (by decide))
    refine ⟨rfl, hs2, d8, d9, Or.inr ⟨rfl, rfl, ?_, ?_⟩⟩
    · show lockDrop w'.lock (e'.ev "W=ok").mutex = none
      rw [d5]; exact d6
    · show (e'.tr.ev "W=ok").wlog = _
      rw [Transport.ev_wlog, d3, hL]

theorem open_phaseG {data : Bytes} {st : ExitStatus} {Lb : Bytes} {r : AReq} {e : Run.Env}
    (hwr : r.writeable = true) (hrole : r.sp.request.role = 1) (hm : e.mutex = none) (hlog : e.tr.wlog = Lb)
    (hb : Ben e.tr) {fuel : Nat} (hf : wcost data.length + 4 ≤ fuel) :
    WOutG r.sp.request.id data st Lb r e (handlerPoll fuel r { ops := oscript data st, propagate := true } e) := by
  obtain ⟨f2, rfl⟩ : ∃ f2, fuel = f2 + 1 := ⟨fuel - 1, by omega⟩
  show WOutG _ data st Lb r e (handlerPoll (f2 + 1) r
    { ops := .open_ 6 :: [.writeAll 0 data, .dropW 0, .ret st], sub := .fresh, writers := [],
      propagate := true } e)
  rw [hp_open]
  rw [if_neg (by simp [hwr, hrole, outputStreams, RT.stdout, RT.stderr])]
  have hstr : (s!"o=w{([] : List (Option Writer)).length}" : String) = "o=w0" := by decide
  rw [hstr]
  show WOutG _ data st Lb r e (handlerPoll f2 r
      { ops := wscript data st, sub := .fresh,
        writers := [] ++ [some { rtype := 6, id := r.sp.request.id }], propagate := true }
      (e.ev "o=w0"))
  have hs1 : TStep e.tr (e.ev "o=w0").tr := TStep.ev _ (by decide)
  have hw : HWriteG r.sp.request.id data st Lb
      { ops := wscript data st, sub := .fresh,
        writers := [] ++ [some { rtype := 6, id := r.sp.request.id }], propagate := true }
      (e.ev "o=w0") := by
    refine ⟨rfl, rfl, ⟨{ rtype := 6, id := r.sp.request.id }, Lb, [], rfl,
      ⟨rfl, rfl, Or.inl ⟨rfl, rfl, hm, rfl⟩⟩, ?_, rfl⟩, Nat.le_refl _⟩
    show e.tr.wlog = Lb ++ []
    rw [hlog, List.append_nil]
  have hb2 : Ben (e.ev "o=w0").tr := hb.step hs1
  obtain ⟨q0, q1, q2, q3, q4⟩ := write_phaseG (r := r) hw hb2 (fuel := f2) (by omega)
  refine ⟨q0, hs1.trans q1, q2, q3, ?_⟩
  rcases q4 with ⟨a1, a2, a3, a4⟩ | a
  · exact Or.inl ⟨a1, a2, by have := hs1.ans_le; omega, a4⟩
  · exact Or.inr a

/-! ## The request -/

/-- the handler's Stdout records -/
def Cfg.D (g : Cfg) : Bytes := streamRecords 6 g.p.id g.data

/-- The hypotheses: as `POK`, the handler is `.read n` followed by the canonical write-only script. -/
structure PWOK (g : Cfg) (n : Nat) : Prop where
  wf : WellFormedPreamble g.p g.recs
  role : g.p.role = 1
  pairs : ∀ q ∈ g.p.pairs, (NV.enc q).length ≤ alignedBufsize g.b
  noise : NoiseFits (alignedBufsize g.b) g.recs
  hb : Body g.p.id 5 g.content g.body
  hf : NoiseFits (alignedBufsize g.b) g.body
  hp : g.pad.length < 256
  hX2 : g.X2 = []
  hX : g.X = serAll g.body ++ g.term.ser
  str : ∀ r ∈ g.R, StdinRec g.p.id r
  hs : g.hscript = .read n :: oscript g.data g.st
  hn : 0 < n
  hfu : wcost g.data.length + 6 ≤ 1000

/-- the same request with the handler `[.read n, .ret st]` -/
theorem PWOK.pok {g : Cfg} {n : Nat} (ok : PWOK g n) : POK { g with hscript := [.read n, .ret g.st] } n :=
  ⟨ok.wf, ok.role, ok.pairs, ok.noise, ok.hb, ok.hf, ok.hp, ok.hX2, ok.hX, ok.str, rfl, ok.hn⟩

theorem PWOK.fok {g : Cfg} {n : Nat} (ok : PWOK g n) : FOK g := ⟨ok.wf, ok.pairs, ok.noise⟩
theorem PWOK.hid {g : Cfg} {n : Nat} (ok : PWOK g n) : g.p.id < 65536 := (pid_of_wf ok.wf).2
theorem PWOK.XR {g : Cfg} {n : Nat} (ok : PWOK g n) : g.X = serAll g.R := ok.pok.XR
theorem PWOK.ctx {g : Cfg} {n : Nat} (ok : PWOK g n) : R2Ctx g.p.id g.mc g.cap g.R := ok.pok.ctx
theorem PWOK.kok {g : Cfg} {n : Nat} (ok : PWOK g n) : g.K.OK := ok.pok.kok

theorem PWOK.front {g : Cfg} {n : Nat} (ok : PWOK g n) {us : List Rec} (hu : LeftOK (alignedBufsize g.b) us) :
    PWOK (g.front us) n :=
  ⟨wf_idle ok.wf us hu.1, ok.role, ok.pairs, noiseFits_app hu.2 ok.noise, ok.hb, ok.hf, ok.hp, ok.hX2, ok.hX,
    ok.str, ok.hs, ok.hn, ok.hfu⟩

/-- the request as `close` sees it once `record_boundary()` is done; `Lp` = the whole log before the
epilogue -/
def gD (g : Cfg) (s2 : List Rec) (Lp : Bytes) : Cfg :=
  { g with recs := [], L0 := Lp, data := [], U := serAll s2 }

theorem gD_LU (g : Cfg) (s2 : List Rec) (Lp : Bytes) : (gD g s2 Lp).LU = Lp ++ g.epi := by
  simp only [Cfg.LU, Cfg.L1, gD, owedPreamble, streamRecords_nil, List.append_nil]
  rfl

/-! ## Stages -/

/-- the handler, suspended in (or about to start) its `read` -/
def HRW (g : Cfg) (n : Nat) (c : Conn) : Prop :=
  ∃ r h dO, c.phase = .handler r h ∧ h.ops = .read n :: oscript g.data g.st ∧ h.writers = [] ∧ h.propagate = true ∧
    RSt g.K g.L1 [] r c.env.mutex c.env.tr [] dO ∧ Pos g.R r.sp.raw r.sp.pay r.sp.pad c.env.tr.input ∧
    Ben c.env.tr ∧ c.stop = false ∧ Ev1 g c.env.tr ∧ c.scripts = g.more

/-- the handler, suspended in its `write_all`; the request stands where the `read` left it -/
def HWW (g : Cfg) (c : Conn) : Prop :=
  ∃ r h O1 G dC dO, c.phase = .handler r h ∧ HWriteG g.p.id g.data g.st (g.L1 ++ O1) h c.env ∧
    RInv g.K r G c.env.tr.input dC dO ∧ Pos g.R r.sp.raw r.sp.pay r.sp.pad c.env.tr.input ∧
    r.lock = .none ∧ r.writeable = true ∧ O1 ++ r.sp.output = dO ∧ RdEv g c.env.tr ∧
    Ben c.env.tr ∧ c.stop = false ∧ Ev1 g c.env.tr ∧ c.scripts = g.more

/-- `close`, suspended in the transport read of `record_boundary()` -/
def BWW (g : Cfg) (c : Conn) : Prop :=
  ∃ r dO O1, c.phase = .closing r .inBoundary g.st 0 ∧
    (∃ G, R2 g.p.id g.mc g.cap g.R r.sp G c.env.tr.input dO) ∧
    r.sp.request = g.p.request ∧ r.sp.maxConns = g.mc ∧ r.lock = .none ∧ r.writeable = true ∧
    c.env.mutex = none ∧ c.env.tr.wlog = (g.L1 ++ O1) ++ g.D ∧ O1 ++ r.sp.output = dO ∧
    r.sp.isRecordBoundary = false ∧ r.sp.raw.length < g.cap ∧ r.sp.g0 = 0 ∧ r.sp.g1 = 0 ∧
    c.env.tr.input ≠ [] ∧ RdEv g c.env.tr ∧ Ben c.env.tr ∧ c.stop = false ∧ Ev1 g c.env.tr ∧ c.scripts = g.more

/-- `close`, in its `write_all`s: the split and the replies around the Stdout records are fixed -/
def LWW (g : Cfg) (c : Conn) : Prop :=
  ∃ s1 s2 O1 O2, g.R = s1 ++ s2 ∧ O1 ++ O2 = owedI g.p.id g.mc s1 ∧ RdEv g c.env.tr ∧
    LStage (gD g s2 ((g.L1 ++ O1) ++ g.D ++ O2)) c

def SW (g : Cfg) (n : Nat) (c : Conn) : Prop := FStage g c ∨ HRW g n c ∨ HWW g c ∨ BWW g c ∨ LWW g c

/-- `close` is done -/
def AW (g : Cfg) (c : Conn) : Prop :=
  ∃ s1 s2 O1 O2, g.R = s1 ++ s2 ∧ O1 ++ O2 = owedI g.p.id g.mc s1 ∧ RdEv g c.env.tr ∧
    AfterU (gD g s2 ((g.L1 ++ O1) ++ g.D ++ O2)) c

/-! ## `close` -/

theorem wboundary_out {g : Cfg} {n : Nat} (ok : PWOK g n) (hk : g.p.flags.toNat % 2 = 1) {c : Conn} {r : AReq}
    {cs : CloseSt} {sp0 sp' : Str.Parser} {t' : Transport} {res : ORes} {dO : Bytes}
    (hph : c.phase = .closing r cs g.st 0)
    (heq : closePoll r cs g.st 0 c.env.mutex c.env.tr = closeTail r c.env.mutex g.st (sp', t', res))
    (hts : TStep c.env.tr t') (hwl : t'.wlog = c.env.tr.wlog)
    (hend : BEnd g.p.id g.mc g.cap g.R sp0 sp' dO t')
    (hreq : sp0.request = g.p.request) (hmc : sp0.maxConns = g.mc)
    (hres : (res = .ready ∧ sp'.isRecordBoundary = true) ∨
       (res = .pending ∧ t'.woken = true ∧ ans t' < ans c.env.tr ∧ sp'.isRecordBoundary = false ∧
          sp'.raw.length < g.cap ∧ sp'.g0 = 0 ∧ sp'.g1 = 0 ∧ t'.input ≠ []))
    (hlk : r.lock = .none) (hwr : r.writeable = true) (hm : c.env.mutex = none)
    (hlog : ∃ O1, c.env.tr.wlog = (g.L1 ++ O1) ++ g.D ∧ O1 ++ sp0.output = dO) (hrd : RdEv g c.env.tr)
    (hb : Ben c.env.tr) (hstop : c.stop = false) (hev : Ev1 g c.env.tr) (hsc : c.scripts = g.more) :
    GRes (SW g n) (AW g) 2 c := by
  obtain ⟨⟨o, G', ho, hr2⟩, hreq', hmc'⟩ := hend
  obtain ⟨O1, hl1, hl2⟩ := hlog
  have hl1' : t'.wlog = (g.L1 ++ O1) ++ g.D := hwl.trans hl1
  have hl2' : O1 ++ sp'.output = dO ++ o := by rw [ho, ← List.append_assoc, hl2]
  rcases hres with ⟨rfl, hbd⟩ | ⟨rfl, hwk, hans, hnb, hraw, hg0, hg1, hin⟩
  · have hpay : sp'.pay = 0 ∧ sp'.pad = 0 := by
      simpa [Str.Parser.isRecordBoundary] using hbd
    obtain ⟨cc, pd, s2, hcc, hpd, hw, ⟨s1, hsuf⟩⟩ := hr2.ign.pos
    rw [hpay.1] at hcc
    rw [hpay.2] at hpd
    have hcc' : cc = [] := List.length_eq_zero_iff.1 hcc
    have hpd' : pd = [] := List.length_eq_zero_iff.1 hpd
    rw [hcc', hpd', List.nil_append, List.nil_append] at hw
    have hsp : g.R = s1 ++ s2 := hsuf.symm
    have hctx := ok.ctx
    obtain ⟨_, hout, _⟩ := hr2.now hctx
    have hrem : Rem (Ev g.p.id g.mc) (view sp') t'.input = refWire (Ev g.p.id g.mc) (serAll s2) := by
      show ref (Ev g.p.id g.mc) (view sp').state (view sp').pay (view sp').pad ((view sp').raw ++ t'.input) = _
      have e1 : (view sp').pay = 0 := hpay.1
      have e2 : (view sp').pad = 0 := hpay.2
      have e3 : (view sp').raw = sp'.raw := rfl
      rw [e1, e2, e3, hw]
      exact ref_eq_refWire (Ev g.p.id g.mc) _ _
    have hs2 : ∀ r ∈ s2, StdinRec g.p.id r := fun r hr => ok.str r (by rw [hsp]; exact List.mem_append_right _ hr)
    rw [hrem, refWire_view g.p.id g.mc hs2] at hout
    have hdO : dO ++ o = owedI g.p.id g.mc s1 := by
      have : owedI g.p.id g.mc g.R = owedI g.p.id g.mc s1 ++ owedI g.p.id g.mc s2 := by
        rw [hsp]; simp [owedI, List.flatMap_append]
      rw [this] at hout
      exact List.append_cancel_right hout
    have hepi : epilogueOf { r with sp := sp' } g.st = (gD g s2 ((g.L1 ++ O1) ++ g.D ++ sp'.output)).epi := by
      simp only [epilogueOf, hwr, if_true, Cfg.epi, outputStreams]
      show makeRequestEpilogue sp'.request.id g.st _ = _
      rw [hreq', hreq]; rfl
    have heq' : closePoll r cs (gD g s2 ((g.L1 ++ O1) ++ g.D ++ sp'.output)).st 0 c.env.mutex c.env.tr =
        closeP4 { sp := sp', lock := .none, writeable := r.writeable } c.env.mutex t'
          (.writeOut sp'.output (gD g s2 ((g.L1 ++ O1) ++ g.D ++ sp'.output)).epi) := by
      show closePoll r cs g.st 0 c.env.mutex c.env.tr = _
      rw [heq, ← hepi]
      simp only [closeTail, closeP2Tail, closeP3_start, Nat.lt_irrefl, gt_iff_lt, if_false, hlk, lockDrop]
    have hrawlen : sp'.raw.length ≤ g.cap := by
      have := hr2.sinv.1
      have e : (view sp').freeStart = sp'.freeStart := rfl
      have e2 : (view sp').cap = sp'.cap := rfl
      rw [e, e2, hr2.capK] at this
      simp only [Str.Parser.freeStart] at this
      omega
    have hce : CEndW (gD g s2 ((g.L1 ++ O1) ++ g.D ++ sp'.output))
        { sp := sp', lock := .none, writeable := r.writeable } t'.input :=
      ⟨hpay.1, hpay.2, hw, hreq'.trans hreq, hr2.capK, hmc'.trans hmc, hrawlen⟩
    have hU := uclose_out' (g := gD g s2 ((g.L1 ++ O1) ++ g.D ++ sp'.output)) hph heq' hts hce hm
      (by rw [gD_LU, hl1']; rfl) hb hstop hev hsc
    have hO : O1 ++ sp'.output = owedI g.p.id g.mc s1 := hl2'.trans hdO
    exact (URes2.toG (g := gD g s2 ((g.L1 ++ O1) ++ g.D ++ sp'.output)) hk hU).imp
      (fun _ hl h => Or.inr (Or.inr (Or.inr (Or.inr ⟨s1, s2, O1, sp'.output, hsp, hO, hrd.wstep hl.ts, h⟩))))
      (fun _ hl h => ⟨s1, s2, O1, sp'.output, hsp, hO, hrd.wstep hl.ts, h⟩)
  · have hstep := C07.closing_step c r cs g.st 0 hph
    rw [heq] at hstep
    have hstep' : stepConn c = .halt (mkC c (.closing { r with sp := sp' } .inBoundary g.st 0) t') .pending := hstep
    refine Or.inl ⟨_, (Halts.now hstep').mono (by omega), mkC_link c _ hts, ?_, hwk, hans⟩
    exact Or.inr (Or.inr (Or.inr (Or.inl ⟨{ r with sp := sp' }, dO ++ o, O1, rfl, ⟨G', hr2⟩, hreq'.trans hreq,
      hmc'.trans hmc, hlk, hwr, hm, hl1', hl2', hnb, hraw, hg0, hg1, hin, hrd.step hts, hb.step hts, hstop,
      hev.step hts, hsc⟩)))

theorem wclose_start {g : Cfg} {n : Nat} (ok : PWOK g n) (hk : g.p.flags.toNat % 2 = 1) {c : Conn} {r : AReq} {G dC dO : Bytes}
    (hph : c.phase = .closing r .start g.st 0)
    (hi : RInv g.K r G c.env.tr.input dC dO) (hpos : Pos g.R r.sp.raw r.sp.pay r.sp.pad c.env.tr.input)
    (hlk : r.lock = .none) (hwr : r.writeable = true) (hm : c.env.mutex = none)
    (hlog : ∃ O1, c.env.tr.wlog = (g.L1 ++ O1) ++ g.D ∧ O1 ++ r.sp.output = dO) (hrd : RdEv g c.env.tr)
    (hb : Ben c.env.tr) (hstop : c.stop = false) (hev : Ev1 g c.env.tr) (hsc : c.scripts = g.more) :
    GRes (SW g n) (AW g) 2 c := by
  have hctx := ok.ctx
  have hE : g.K.E = ⟨g.p.id, 1, 5, g.mc⟩ := by show (⟨g.p.id, g.p.role, 5, g.mc⟩ : Str.Cfg) = _; rw [ok.role]
  have hr2 : R2 g.p.id g.mc g.cap g.R (r.sp.switchTo none) G c.env.tr.input dO :=
    r2_of_switch hctx hE ok.XR rfl hi hpos
  have hstrm : r.sp.stream = some 5 := hi.mt.strm
  have hign : spIgnore r.sp = r.sp.switchTo none := by simp [spIgnore, hstrm]
  have heq0 := closePoll_start_tail r c.env.mutex c.env.tr g.st hwr
  rw [hign] at heq0
  have hreq : (r.sp.switchTo none).request = g.p.request := hi.req
  have hmc : (r.sp.switchTo none).maxConns = g.mc := hi.mt.mc
  have hout : (r.sp.switchTo none).output = r.sp.output := rfl
  by_cases hbd : (r.sp.switchTo none).isRecordBoundary = true
  · have hcb : closeBoundary (r.sp.switchTo none) false c.env.tr = (r.sp.switchTo none, c.env.tr, .ready) := by
      simp [closeBoundary, hbd]
    rw [hcb] at heq0
    exact wboundary_out ok hk (sp0 := r.sp.switchTo none) (dO := dO) hph heq0 (.refl _) rfl
      ⟨⟨[], G, (List.append_nil _).symm, by rw [List.append_nil]; exact hr2⟩, rfl, rfl⟩ hreq hmc (Or.inl ⟨rfl, hbd⟩)
      hlk hwr hm (by rw [hout]; exact hlog) hrd hb hstop hev hsc
  · have hbd' : (r.sp.switchTo none).isRecordBoundary = false := by simpa using hbd
    rcases hbl : boundaryLoop (c.env.tr.input.length + 2) (r.sp.switchTo none) [] c.env.tr with ⟨sp', t', res⟩
    have hcb : closeBoundary (r.sp.switchTo none) false c.env.tr = (sp', t', res) := by
      simp [closeBoundary, hbd', hbl]
    rw [hcb] at heq0
    obtain ⟨q1, q2, q3, q4⟩ := bloop_sim hctx _ _ [] c.env.tr hb (by rw [List.nil_append]; exact hr2)
      (Nat.zero_le _) (Nat.le_refl _) hbl
    exact wboundary_out ok hk (sp0 := r.sp.switchTo none) (dO := dO) hph heq0 q1 q2 q3 hreq hmc q4
      hlk hwr hm (by rw [hout]; exact hlog) hrd hb hstop hev hsc


theorem wbound_poll {g : Cfg} {n : Nat} (ok : PWOK g n) (hk : g.p.flags.toNat % 2 = 1) {c : Conn} {r : AReq} {dO : Bytes}
    (hph : c.phase = .closing r .inBoundary g.st 0)
    (hr2 : ∃ G, R2 g.p.id g.mc g.cap g.R r.sp G c.env.tr.input dO)
    (hreq : r.sp.request = g.p.request) (hmc : r.sp.maxConns = g.mc)
    (hlk : r.lock = .none) (hwr : r.writeable = true) (hm : c.env.mutex = none)
    (hlog : ∃ O1, c.env.tr.wlog = (g.L1 ++ O1) ++ g.D ∧ O1 ++ r.sp.output = dO)
    (hnb : r.sp.isRecordBoundary = false) (hraw : r.sp.raw.length < g.cap) (hg0 : r.sp.g0 = 0)
    (hg1 : r.sp.g1 = 0) (hin : c.env.tr.input ≠ []) (hre : RdEv g c.env.tr)
    (hb : Ben c.env.tr) (hstop : c.stop = false) (hev : Ev1 g c.env.tr) (hsc : c.scripts = g.more) :
    GRes (SW g n) (AW g) 2 c := by
  have hctx := ok.ctx
  obtain ⟨G, hr2⟩ := hr2
  have heq0 := closePoll_bound_tail r c.env.mutex c.env.tr g.st
  have hfree : r.sp.free = g.cap - r.sp.raw.length := by
    simp [Str.Parser.free, Str.Parser.freeStart, hr2.par, hr2.capK, hg0, hg1]
  have hfp : 0 < r.sp.free := by rw [hfree]; omega
  have hend0 : BEnd g.p.id g.mc g.cap g.R r.sp r.sp dO c.env.tr :=
    ⟨⟨[], G, (List.append_nil _).symm, by rw [List.append_nil]; exact hr2⟩, rfl, rfl⟩
  rcases hrd : c.env.tr.read r.sp.free with ⟨t1, x⟩
  cases x with
  | pending =>
    have hwl : t1.wlog = c.env.tr.wlog := by have := read_wlog c.env.tr r.sp.free; rwa [hrd] at this
    obtain ⟨hinp, hw | hw⟩ := read_pending hb hrd
    · have hcb : closeBoundary r.sp true c.env.tr = (r.sp, t1, .pending) := by simp [closeBoundary, hrd]
      rw [hcb] at heq0
      exact wboundary_out ok hk (sp0 := r.sp) (dO := dO) hph heq0 (read_tstep hrd) hwl
        ⟨⟨[], G, (List.append_nil _).symm, by rw [List.append_nil]; exact hr2.input hinp⟩, rfl, rfl⟩ hreq hmc
        (Or.inr ⟨rfl, hw.1, hw.2, hnb, hraw, hg0, hg1, by rw [hinp]; exact hin⟩) hlk hwr hm hlog hre hb hstop hev hsc
    · exact absurd hw.1 hin
  | ready y =>
    cases y with
    | error e => exact (read_error hb hrd).elim
    | ok bs =>
      obtain ⟨hinp, hwl, hlen, hz⟩ := read_ok_ben hb hrd
      by_cases hbs : bs = []
      · rcases hz hbs with hz | hz
        · omega
        · exact absurd hz.1 hin
      · have hs1 := read_tstep hrd
        rcases hbl : boundaryLoop (t1.input.length + 2) r.sp bs t1 with ⟨sp', t', res⟩
        have hcb : closeBoundary r.sp true c.env.tr = (sp', t', res) := by
          cases bs with
          | nil => exact absurd rfl hbs
          | cons b0 bs' => simp [closeBoundary, hrd, hbl]
        rw [hcb] at heq0
        obtain ⟨q1, q2, q3, q4⟩ := bloop_sim hctx _ _ bs t1 (hb.step hs1) (hr2.input (by rw [← hinp]))
          hlen (Nat.le_refl _) hbl
        refine wboundary_out ok hk (sp0 := r.sp) (dO := dO) hph heq0 (hs1.trans q1) (q2.trans hwl) q3 hreq hmc ?_
          hlk hwr hm hlog hre hb hstop hev hsc
        rcases q4 with q4 | ⟨a, b, c1, d⟩
        · exact Or.inl q4
        · exact Or.inr ⟨a, b, by have := hs1.ans_le; omega, d⟩


/-! ## The handler -/

/-- the rest of a poll whose handler part ended in the write phase -/
theorem wout_finish {g : Cfg} {n : Nat} (ok : PWOK g n) (hk : g.p.flags.toNat % 2 = 1) {c : Conn} {r0 r' : AReq}
    {h0 : HState} {e2 : Run.Env} {O1 G dC dO : Bytes} (hph : c.phase = .handler r0 h0)
    (hw : WOutG g.p.id g.data g.st (g.L1 ++ O1) r' e2 (handlerPoll ((handlerFuel c.env r0 + scriptOf c)) r0 h0 c.env))
    (hts0 : TStep c.env.tr e2.tr) (hsg : e2.segs = c.env.segs)
    (hi : RInv g.K r' G e2.tr.input dC dO) (hpos : Pos g.R r'.sp.raw r'.sp.pay r'.sp.pad e2.tr.input)
    (hlk : r'.lock = .none) (hwr : r'.writeable = true) (hout : O1 ++ r'.sp.output = dO) (hrd : RdEv g e2.tr)
    (hb : Ben c.env.tr) (hstop : c.stop = false) (hev : Ev1 g c.env.tr) (hsc : c.scripts = g.more) :
    GRes (SW g n) (AW g) 3 c := by
  have hstep := C07.handler_step c r0 h0 hph
  rcases hhp : handlerPoll ((handlerFuel c.env r0 + scriptOf c)) r0 h0 c.env with ⟨r2, h2, e3, res⟩
  rw [hhp] at hstep hw
  obtain ⟨hr2, q1, q2, q3, q4⟩ := hw
  simp only at hr2 q1 q2 q3 q4
  subst hr2
  have hts := hts0.trans q1
  rcases q4 with ⟨rfl, hwk, hans, hwg⟩ | ⟨rfl, hws, hmx, hlg⟩
  · have hstep' : stepConn c = .halt ⟨.handler r2 h2, e3, c.scripts, c.stop⟩ .pending := hstep
    refine Or.inl ⟨_, (Halts.now hstep').mono (by omega), ⟨hts.w, q3.trans hsg, rfl⟩, ?_, hwk,
      by show ans e3.tr < ans c.env.tr; have := hts0.ans_le; omega⟩
    exact Or.inr (Or.inr (Or.inl ⟨r2, h2, O1, G, dC, dO, rfl, hwg, by rw [q2]; exact hi, by rw [q2]; exact hpos,
      hlk, hwr, hout, hrd.step q1, hb.step hts, hstop, hev.step hts, hsc⟩))
  · have halive : (h2.writers.filter Option.isSome).length = 0 := by rw [hws]; rfl
    simp only [halive] at hstep
    have hstep' : stepConn c =
        .next ⟨.closing r2 .start g.st 0, e3.ev s!"HE(ok:{showStatus g.st})", c.scripts, c.stop⟩ := hstep
    have hts2 : TStep c.env.tr (e3.tr.ev s!"HE(ok:{showStatus g.st})") :=
      hts.trans (TStep.ev _ (by simp [isHS, toString_str]))
    have hcore := wclose_start ok hk
      (c := ⟨.closing r2 .start g.st 0, e3.ev s!"HE(ok:{showStatus g.st})", c.scripts, c.stop⟩) (G := G) (dC := dC)
      (dO := dO) rfl (by show RInv g.K r2 G e3.tr.input dC dO; rw [q2]; exact hi)
      (by show Pos g.R r2.sp.raw r2.sp.pay r2.sp.pad e3.tr.input; rw [q2]; exact hpos) hlk hwr hmx
      ⟨O1, by show (e3.tr.ev _).wlog = _; rw [Transport.ev_wlog, hlg]; rfl, hout⟩
      ((hrd.step q1).step (TStep.ev _ (by simp [isHS, toString_str]))) (hb.step hts2) hstop (hev.step hts2) hsc
    exact (GRes.of_steps (Steps.one hstep') ⟨hts2.w, q3.trans hsg, rfl⟩ hcore).mono (by omega)

/-- One poll that starts inside the handler's `write_all`. -/
theorem hww_poll {g : Cfg} {n : Nat} (ok : PWOK g n) (hk : g.p.flags.toNat % 2 = 1) {c : Conn} {r : AReq} {h : HState}
    {O1 G dC dO : Bytes} (hph : c.phase = .handler r h)
    (hwg : HWriteG g.p.id g.data g.st (g.L1 ++ O1) h c.env)
    (hi : RInv g.K r G c.env.tr.input dC dO) (hpos : Pos g.R r.sp.raw r.sp.pay r.sp.pad c.env.tr.input)
    (hlk : r.lock = .none) (hwr : r.writeable = true) (hout : O1 ++ r.sp.output = dO) (hrd : RdEv g c.env.tr)
    (hb : Ben c.env.tr) (hstop : c.stop = false) (hev : Ev1 g c.env.tr) (hsc : c.scripts = g.more) :
    GRes (SW g n) (AW g) 3 c := by
  refine wout_finish ok hk hph (write_phaseG hwg hb ?_) (.refl _) rfl hi hpos hlk hwr hout hrd hb hstop hev hsc
  have := handlerFuel_ge c.env r
  have := ok.hfu
  omega

/-- One poll that starts inside the handler's `read` (or before it). -/
theorem hrw_poll {g : Cfg} {n : Nat} (ok : PWOK g n) (hk : g.p.flags.toNat % 2 = 1) {c : Conn} {r : AReq} {h : HState}
    {dO : Bytes} (hph : c.phase = .handler r h)
    (hops : h.ops = .read n :: oscript g.data g.st) (hws : h.writers = []) (hpr : h.propagate = true)
    (hs : RSt g.K g.L1 [] r c.env.mutex c.env.tr [] dO)
    (hpos : Pos g.R r.sp.raw r.sp.pay r.sp.pad c.env.tr.input)
    (hb : Ben c.env.tr) (hstop : c.stop = false) (hev : Ev1 g c.env.tr) (hsc : c.scripts = g.more) :
    GRes (SW g n) (AW g) 4 c := by
  have hK := ok.kok
  obtain ⟨f, hf⟩ : ∃ f, (handlerFuel c.env r + scriptOf c) = f + 2 := ⟨(handlerFuel c.env r + scriptOf c) - 2, by have := handlerFuel_ge c.env r; omega⟩
  obtain ⟨ops, sub, ws, pr⟩ := h
  simp only at hops hws hpr
  subst hops hws hpr
  rcases hpi : r.pollInput (some n) c.env.mutex c.env.tr with ⟨r', m', t', res⟩
  obtain ⟨hts, hpost, _⟩ := pollInput_sim hK ok.hn hb hs hpi
  obtain ⟨n', rfl⟩ : ∃ n', n = n' + 1 := ⟨n - 1, by have := ok.hn; omega⟩
  obtain ⟨⟨G0, hi0⟩, hlk0, hmx0, _⟩ := hs
  have hwfR : ∀ r ∈ g.R, r.WF := fun r hr => (ok.str r hr).1
  have hpos' : (∀ s, res ≠ .panic s) → Pos g.R r'.sp.raw r'.sp.pay r'.sp.pad t'.input :=
    pollInput_pos hwfR hb hlk0 hmx0 hi0.par hpos hpi
  cases res with
  | pending =>
    have hstep := C07.handler_step c r _ hph
    rw [hf, hp_read, hpi] at hstep
    obtain ⟨⟨dO', hs'⟩, hwk, hans⟩ := hpost
    have hstep' : stepConn c = .halt ⟨.handler r' ⟨.read (n' + 1) :: oscript g.data g.st, sub, [], true⟩,
        { c.env with mutex := m', tr := t' }, c.scripts, c.stop⟩ .pending := hstep
    exact Or.inl ⟨_, (Halts.now hstep').mono (by omega), ⟨hts.w, rfl, rfl⟩,
      Or.inr (Or.inl ⟨r', _, dO', rfl, rfl, rfl, rfl, hs', hpos' (fun s hx => nomatch hx), hb.step hts, hstop,
        hev.step hts, hsc⟩), hwk, hans⟩
  | ready k d =>
    obtain ⟨hk', dO', hs', hlk', hm', hpos0, _, hfin⟩ := hpost
    obtain ⟨⟨G1, hi1⟩, _, _, ⟨O1, hlog1, hlog2⟩⟩ := hs'
    have hwr : r'.writeable = true := hfin (by show (nextInputStream g.p.role (some 5)).isNone = true; rw [ok.role]; rfl)
    have hreq : r'.sp.request = g.p.request := hi1.req
    have hid' : r'.sp.request.id = g.p.id := by rw [hreq]; rfl
    have hrole' : r'.sp.request.role = 1 := by rw [hreq]; exact ok.role
    -- the handler goes on: `open`, `write_all`
    have heqX : handlerPoll ((handlerFuel c.env r + scriptOf c)) r
          { ops := .read (n' + 1) :: oscript g.data g.st, sub := sub, writers := [], propagate := true } c.env =
        handlerPoll (f + 1) r' { ops := oscript g.data g.st, propagate := true }
          (({ c.env with mutex := m', tr := t' } : Run.Env).ev s!"r={k}:{hexOrDash d}") := by
      rw [hf, hp_read, hpi]
    have hts1 : TStep c.env.tr (t'.ev s!"r={k}:{hexOrDash d}") := hts.trans (TStep.ev _ (by simp [isHS, toString_str]))
    have hrdev : RdEv g (t'.ev s!"r={k}:{hexOrDash d}") := by
      have hnow := (hi1.now hK).1
      have hC : g.content = d ++ (Rem g.K.E r'.sp t'.input).content := by
        have : g.K.C = g.content := rfl
        rw [← this, hnow]; rfl
      refine ⟨d, ⟨_, hC.symm⟩, ?_, ?_⟩
      · intro hd
        subst hd
        rcases hpos0 with hp | hp
        · simp at hk'; omega
        · exact hp.1.symm
      · subst hk'
        show rdEvent d ∈ t'.events ++ [_]
        simp [rdEvent]
    have hfu := ok.hfu
    have hfge := handlerFuel_ge c.env r
    have hw := open_phaseG (data := g.data) (st := g.st) (Lb := g.L1 ++ O1) (r := r')
      (e := ({ c.env with mutex := m', tr := t' } : Run.Env).ev s!"r={k}:{hexOrDash d}") hwr hrole' hm'
      (by show (t'.ev _).wlog = _; rw [Transport.ev_wlog, hlog1]) (hb.step hts1) (fuel := f + 1) (by omega)
    rw [hid', ← heqX] at hw
    exact (wout_finish ok hk hph hw hts1 rfl (G := G1) (dC := [] ++ d) (dO := dO')
      (by show RInv g.K r' G1 t'.input _ _; exact hi1) (by show Pos g.R _ _ _ t'.input; exact hpos' (fun s hx => nomatch hx))
      hlk' hwr (by rw [hlog2]; rfl) hrdev hb hstop hev hsc).mono (by omega)
  | err e => exact hpost.elim
  | panic s => exact hpost.elim

/-- the first poll of the handler -/
theorem prefixW_first {g : Cfg} {n : Nat} (ok : PWOK g n) (hk : g.p.flags.toNat % 2 = 1) :
    FirstPoll g (SW g n) (AW g) := by
  intro c e1 hph hlen hwire hlog hm hb hstop hev hsc
  have hstart : C03SI.Start g.K.E (Str.Parser.fromParser g.cap g.p.request e1 g.mc) :=
    C03SI.start_fresh g.cap g.p.request e1 g.mc hlen ok.hid (Or.inl ok.role)
  have hri : RInv g.K (AReq.new (Str.Parser.fromParser g.cap g.p.request e1 g.mc)) e1 c.env.tr.input [] [] := by
    refine ⟨hstart.mtch, hstart.inv, rfl, rfl, rfl, hwire, fun x => ?_⟩
    have := C03SI.rem_start hstart x
    show refWire g.K.E (e1 ++ x) = (Rem g.K.E (Str.Parser.fromParser g.cap g.p.request e1 g.mc) x).pre [] []
    rw [this]; rfl
  rw [ok.hs] at hph
  refine hrw_poll ok hk (dO := []) hph rfl rfl rfl
    ⟨⟨e1, hri⟩, by rw [hm]; exact lockInv_free rfl, Or.inl hm, ⟨[], by rw [hlog, List.append_nil], rfl⟩⟩ ?_
    hb hstop hev hsc
  exact ⟨[], [], g.R, rfl, rfl, by show e1 ++ c.env.tr.input = _; rw [hwire, ok.XR]; rfl, List.suffix_refl _⟩

theorem SW.cong {g : Cfg} {n : Nat} {c c' : Conn} (h : SW g n c)
    (hph : c'.phase = c.phase) (hsc : c'.scripts = c.scripts) (hstop : c'.stop = c.stop)
    (hm : c'.env.mutex = c.env.mutex) (hs : TrSame c.env.tr c'.env.tr) : SW g n c' := by
  rcases h with h | ⟨r, h, dO, h1, h2, h3, h4, h5, h6, h7, h8, h9, h10⟩ |
    ⟨r, h, O1, G, dC, dO, h1, h2, h3, h4, h5, h6, h7, h8, h9, h10, h11, h12⟩ |
    ⟨r, dO, O1, h1, h2, h3, h4, h5, h6, h7, h8, h9, h10, h11, h12, h13, h14, h15, h16, h17, h18, h19⟩ |
    ⟨s1, s2, O1, O2, h1, h2, h3, h4⟩
  · exact Or.inl (h.cong hph hsc hstop hm hs)
  · exact Or.inr (Or.inl ⟨r, h, dO, hph.trans h1, h2, h3, h4, h5.cong hm hs, by rw [hs.input]; exact h6, hs.ben h7,
      hstop.trans h8, hs.ev1 h9, hsc.trans h10⟩)
  · refine Or.inr (Or.inr (Or.inl ⟨r, h, O1, G, dC, dO, hph.trans h1, ?_, by rw [hs.input]; exact h3,
      by rw [hs.input]; exact h4, h5, h6, h7, h8.same hs, hs.ben h9, hstop.trans h10, hs.ev1 h11, hsc.trans h12⟩))
    obtain ⟨w, L, sent, a1, a2, a3, a4⟩ := h2.wr
    exact ⟨h2.ops, h2.pr, ⟨w, L, sent, a1, by rw [hm]; exact a2, hs.wlog.trans a3, a4⟩, h2.len⟩
  · exact Or.inr (Or.inr (Or.inr (Or.inl ⟨r, dO, O1, hph.trans h1, by rw [hs.input]; exact h2, h3, h4, h5, h6,
      hm.trans h7, hs.wlog.trans h8, h9, h10, h11, h12, h13, by rw [hs.input]; exact h14, h15.same hs, hs.ben h16,
      hstop.trans h17, hs.ev1 h18, hsc.trans h19⟩)))
  · exact Or.inr (Or.inr (Or.inr (Or.inr ⟨s1, s2, O1, O2, h1, h2, h3.same hs, h4.cong hph hsc hstop hm hs⟩)))

theorem sw_poll {g : Cfg} {n : Nat} (ok : PWOK g n) (hk : g.p.flags.toNat % 2 = 1) {c : Conn} (h : SW g n c) :
    GRes (SW g n) (AW g) (2 * c.env.tr.input.length + 9) c := by
  rcases h with h | ⟨r, h, dO, h1, h2, h3, h4, h5, h6, h7, h8, h9, h10⟩ |
    ⟨r, h, O1, G, dC, dO, h1, h2, h3, h4, h5, h6, h7, h8, h9, h10, h11, h12⟩ |
    ⟨r, dO, O1, h1, h2, h3, h4, h5, h6, h7, h8, h9, h10, h11, h12, h13, h14, h15, h16, h17, h18, h19⟩ |
    ⟨s1, s2, O1, O2, h1, h2, h3, h4⟩
  · exact fstage_poll ok.fok (fun _ h => Or.inl h) (prefixW_first ok hk) h
  · exact (hrw_poll ok hk h1 h2 h3 h4 h5 h6 h7 h8 h9 h10).mono (by omega)
  · exact (hww_poll ok hk h1 h2 h3 h4 h5 h6 h7 h8 h9 h10 h11 h12).mono (by omega)
  · exact (wbound_poll ok hk h1 h2 h3 h4 h5 h6 h7 ⟨O1, h8, h9⟩ h10 h11 h12 h13 h14 h15 h16 h17 h18 h19).mono (by omega)
  · exact ((lstage_poll (g := gD g s2 ((g.L1 ++ O1) ++ g.D ++ O2)) hk h4).imp
      (fun _ hl h => Or.inr (Or.inr (Or.inr (Or.inr ⟨s1, s2, O1, O2, h1, h2, h3.wstep hl.ts, h⟩))))
      (fun _ hl h => ⟨s1, s2, O1, O2, h1, h2, h3.wstep hl.ts, h⟩)).mono (by omega)

/-- the index of the outcome: the split, the replies before / after the Stdout records, what the
`read` returned -/
structure WIdx where
  s1 : List Rec
  s2 : List Rec
  O1 : Bytes
  O2 : Bytes
  d : Bytes

def WIdx.OK (g : Cfg) (i : WIdx) : Prop :=
  g.R = i.s1 ++ i.s2 ∧ i.O1 ++ i.O2 = owedI g.p.id g.mc i.s1 ∧ i.d <+: g.content ∧ (i.d = [] → g.content = [])

/-- **The executor** for a Responder request with KEEP_CONN whose handler is
`[.read n, .open_ 6, .writeAll 0 data, .dropW 0, .ret st]`. -/
theorem run_prefixW {g : Cfg} {n : Nat} (ok : PWOK g n) (hk : g.p.flags.toNat % 2 = 1) {Z : Bytes}
    (hns : ∀ s1 s2, g.R = s1 ++ s2 → NoStuckW g.cap g.mc (serAll s2 ++ Z))
    (hNF : ∀ s1 s2, g.R = s1 ++ s2 → ∀ F x, F ++ x ++ Z = serAll s2 ++ Z → (run .header F g.mc).st.isFinal = false)
    (em : EndMode) (evs0 : List String) (c : Conn) (n0 fuel : Nat) (hst : FStage g c)
    (hem : c.env.tr.endMode = em) (hev0 : ∀ s ∈ evs0, s ∈ c.env.tr.events)
    (hsegs : c.env.segs = []) (hf : ans c.env.tr + 1 ≤ fuel) (hlen : 6 * c.env.tr.input.length + 26 ≤ 100000) :
    ∃ c'' fin, runTask fuel c n0 none = (c'', fin) ∧
      GEnd g.cap g.mc Z g.more (g.hs0 + 1) (WIdx.OK g) (fun i => serAll i.s2 ++ Z)
        (fun i => (g.L1 ++ i.O1) ++ g.D ++ i.O2 ++ g.epi)
        (fun i => [hsEvent g.p.request, rdEvent i.d]) em evs0 (ans c.env.tr) c'' fin :=
  run_stages (cap24 g) (fun i hi => hns i.s1 i.s2 hi.1) (fun i hi => hNF i.s1 i.s2 hi.1) (fun _ _ h => h.cong)
    (fun _ h => (sw_poll ok hk h).imp (fun _ _ h => h) (fun c1 _ h => by
      obtain ⟨s1, s2, O1, O2, hsp, hO, ⟨d, hd1, hd2, hd3⟩, haf⟩ := h
      obtain ⟨raw, hph, hw, hraw⟩ := haf.ph
      refine ⟨⟨s1, s2, O1, O2, d⟩, ⟨hsp, hO, hd1, hd2⟩, Or.inr ⟨raw, hph, by rw [hw]; rfl, hraw, ?_, haf.ben, haf.stop⟩,
        ⟨haf.sc, haf.mtx, haf.ev.1, fun s hs => ?_⟩⟩
      · rw [haf.log, gD_LU]
      · rcases List.mem_cons.1 hs with rfl | hs
        · exact haf.ev.2
        · rw [List.mem_singleton.1 hs]; exact hd3))
    em evs0 c n0 fuel (Or.inl hst) hem hev0 hsegs hf hlen

/-- the request started from any `StartAt` of a chain -/
theorem serve_prefixW_core {g : Cfg} {n : Nat} (ok : PWOK g n) (hk : g.p.flags.toNat % 2 = 1) {left : List Rec}
    (hleft : LeftOK (alignedBufsize g.b) left) {Z : Bytes} (hR : ∀ e ∈ g.R, IdleNoise e)
    (hZ : ∀ s1 s2, g.R = s1 ++ s2 → GoodNext g.cap g.mc s2 Z)
    {Lw : Bytes} {evs : List String} {A0 : Nat} {c : Conn} (n0 fuel : Nat)
    (hLw : Lw = g.L0 ++ idleOwed g.mc left)
    (hstart : StartAt g.cap g.mc left Lw ((g.hscript, true) :: g.more) g.hs0 evs A0 g.W c)
    (hf : A0 + 1 ≤ fuel) (hsize : 6 * g.W.length + 26 ≤ 100000) :
    ∃ c' i, runTask fuel c n0 none = (c', "STALL") ∧ WIdx.OK g i ∧ rdEvent i.d ∈ c'.env.tr.events ∧
      Waiting g.cap g.mc i.s2 (((g.front left).L1 ++ i.O1) ++ g.D ++ i.O2 ++ g.epi ++ idleOwed g.mc i.s2) g.more
        (g.hs0 + 1) (hsEvent g.p.request :: evs) A0 c' := by
  have okf := ok.front hleft
  obtain ⟨hst, hsg, hem, hans, hev, hin⟩ := fstage_of_startAt hleft hLw hstart
  obtain ⟨c', fin, hrun, i, hi, hkp, hem', hev', hans', hsg', hend⟩ :=
    run_prefixW okf hk (Z := Z) (fun s1 s2 h => (hZ s1 s2 h).1) (fun s1 s2 h => (hZ s1 s2 h).2) .pend evs c n0 fuel hst hem hev hsg
      (by omega) (by rw [hin]; exact hsize)
  have hi' : WIdx.OK g i := hi
  have hs2 : ∀ e ∈ i.s2, IdleNoise e := fun e he => hR e (by rw [hi'.1]; exact List.mem_append_right _ he)
  rcases hend with ⟨rfl, hp⟩ | ⟨_, hfn⟩
  · obtain ⟨F, hF, hps, hph, hlg⟩ := hp.pst
    have hFe : F = serAll i.s2 := List.append_cancel_right hF
    subst hFe
    have hnf : (run .header (serAll i.s2) g.mc).st.isFinal = false := (run_idle_out g.mc i.s2 hs2).2.2
    have hob : (run .header (serAll i.s2) (g.front left).mc).out = idleOwed g.mc i.s2 :=
      (run_idle_out g.mc i.s2 hs2).1
    refine ⟨c', i, hrun, hi', hkp.ev _ (by simp), ⟨hph, hnf, hps.rem, hp.inp, by rw [hlg, hob]; rfl,
      ⟨((g.front left).L1 ++ i.O1) ++ g.D ++ i.O2 ++ g.epi, by
        show _ = _ ++ (run .header (serAll i.s2) (g.front left).mc).out
        rw [hob]⟩, hps.stop, hps.ben, hkp.sc, hkp.mx,
      hkp.hs, ?_, hsg', hem', by omega⟩⟩
    intro s hs
    rcases List.mem_cons.1 hs with rfl | hs
    · exact hkp.ev _ List.mem_cons_self
    · exact hev' s hs
  · rw [hfn.em] at hem'; cases hem'

end Fcgi.E2E
