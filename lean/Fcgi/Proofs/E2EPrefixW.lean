import Fcgi.Proofs.E2EFilterConn
/-!
# End-to-end composition (C07/C05) — the handler reads a prefix of Stdin, then writes to Stdout

Handler `[.read n, .open_ 6, .writeAll 0 data, .dropW 0, .ret st]` (Responder, KEEP_CONN).  The write
phase of `Proofs/E2EHandler.lean` (`open_phase`, `write_phase`) is stated for a request that has read
its input to the end (`REnd`); but the `StreamWriter` never touches the `Request` — the replies queued
in the stream parser stay queued — so it is redone here for ANY request (`open_phaseG`,
`write_phaseG`).  `close()` then is that of `Proofs/E2EPrefixConn.lean`, with the Stdout records in the
log: preamble replies, `O₁`, Stdout records, `O₂`, epilogue, where `O₁ ++ O₂` are the replies owed for
the consumed Stdin records `s₁`.
-/
namespace Fcgi.E2E
open Fcgi Fcgi.Req Fcgi.Str Fcgi.Async Fcgi.Run Fcgi.Spec

/-! ## The write phase, for any request -/

/-- handler suspended in (or about to start) `writeAll`; `Lb` = the log when the writer was opened -/
structure HWriteG (id : Nat) (data : Bytes) (st : ExitStatus) (Lb : Bytes) (h : HState) (e : Run.Env) : Prop where
  ops : h.ops = wscript data st
  pr : h.propagate = true
  wr : ∃ w L sent, h.writers = [some w] ∧ WSt id w e.mutex (restOf h.sub data) sent ∧
      e.tr.wlog = L ++ sent ∧
      L ++ streamRecords 6 id (restOf h.sub data) = Lb ++ streamRecords 6 id data
  len : (restOf h.sub data).length ≤ data.length

/-- result of one poll of the write phase: the request is untouched, nothing is read -/
def WOutG (id : Nat) (data : Bytes) (st : ExitStatus) (Lb : Bytes) (r : AReq) (e : Run.Env)
    (out : AReq × HState × Run.Env × HRes) : Prop :=
  out.1 = r ∧ TStep e.tr out.2.2.1.tr ∧ out.2.2.1.tr.input = e.tr.input ∧ out.2.2.1.segs = e.segs ∧
  ((out.2.2.2 = .pending ∧ out.2.2.1.tr.woken = true ∧ ans out.2.2.1.tr < ans e.tr ∧
      HWriteG id data st Lb out.2.1 out.2.2.1) ∨
   (out.2.2.2 = .done (.ok st) ∧ out.2.1.writers = [none] ∧ out.2.2.1.mutex = none ∧
      out.2.2.1.tr.wlog = Lb ++ streamRecords 6 id data))

theorem write_phaseG {id : Nat} {data : Bytes} {st : ExitStatus} {Lb : Bytes}
    {r : AReq} {h : HState} {e : Run.Env} (hw : HWriteG id data st Lb h e) (hb : Ben e.tr)
    {fuel : Nat} (hf : wcost data.length + 3 ≤ fuel) :
    WOutG id data st Lb r e (handlerPoll fuel r h e) := by
  obtain ⟨ops, sub, ws, pr⟩ := h
  obtain ⟨hops, hpr, ⟨w, L, sent, hws, hst, hlog, hL⟩, hlen⟩ := hw
  simp only at hops hpr hws hst hL hlen
  subst hops hpr hws
  have hfu : wcost (restOf sub data).length + 3 ≤ fuel := by
    unfold wcost at hf ⊢
    omega
  rcases writeAll_run (id := id) r data [.dropW 0, .ret st] true (restOf sub data).length fuel sub w e
      L sent (Nat.le_refl _) (by omega) hb hst hlog with
    ⟨w', e', rd', L', sent', d1, d2, d3, d4, d5, d6, d7, d8, d9, d10, d11⟩ |
    ⟨w', e', f', d1, d2, d3, d4, d5, d6, d7, d8, d9⟩
  · show WOutG id data st Lb r e (handlerPoll fuel r
      { ops := wscript data st, sub := sub, writers := [some w], propagate := true } e)
    rw [show wscript data st = .writeAll 0 data :: [.dropW 0, .ret st] from rfl, d1]
    refine ⟨rfl, d7, d8, d9, Or.inl ⟨rfl, d10, d11, rfl, rfl, ⟨w', L', sent', rfl, d5, d3, ?_⟩, ?_⟩⟩
    · show L' ++ streamRecords 6 id rd' = _
      rw [d4, hL]
    · show rd'.length ≤ data.length
      omega
  · show WOutG id data st Lb r e (handlerPoll fuel r
      { ops := wscript data st, sub := sub, writers := [some w], propagate := true } e)
    rw [show wscript data st = .writeAll 0 data :: [.dropW 0, .ret st] from rfl, d1]
    obtain ⟨f2, rfl⟩ : ∃ f2, f' = f2 + 2 := ⟨f' - 2, by omega⟩
    rw [hp_dropW]
    simp only [List.getD_cons_zero, List.set_cons_zero]
    rw [hp_ret]
    have hs2 : TStep e.tr (e'.tr.ev "W=ok") := d7.trans (TStep.ev _ (by decide))
    refine ⟨rfl, hs2, d8, d9, Or.inr ⟨rfl, rfl, ?_, ?_⟩⟩
    · show lockDrop w'.lock (e'.ev "W=ok").mutex = none
      rw [d5]; exact d6
    · show (e'.tr.ev "W=ok").wlog = _
      rw [Transport.ev_wlog, d3, hL]

theorem open_phaseG {data : Bytes} {st : ExitStatus} {Lb : Bytes} {r : AReq} {e : Run.Env}
    (hwr : r.writeable = true) (hrole : r.sp.request.role = 1) (hm : e.mutex = none) (hlog : e.tr.wlog = Lb)
    (hb : Ben e.tr) {fuel : Nat} (hf : wcost data.length + 4 ≤ fuel) :
    WOutG r.sp.request.id data st Lb r e (handlerPoll fuel r { ops := oscript data st, propagate := true } e) := by
  obtain ⟨f2, rfl⟩ : ∃ f2, fuel = f2 + 1 := ⟨fuel - 1, by omega⟩
  show WOutG _ data st Lb r e (handlerPoll (f2 + 1) r
    { ops := .open_ 6 :: [.writeAll 0 data, .dropW 0, .ret st], sub := .fresh, writers := [],
      propagate := true } e)
  rw [hp_open]
  rw [if_neg (by simp [hwr, hrole, outputStreams, RT.stdout, RT.stderr])]
  have hstr : (s!"o=w{([] : List (Option Writer)).length}" : String) = "o=w0" := by decide
  rw [hstr]
  show WOutG _ data st Lb r e (handlerPoll f2 r
      { ops := wscript data st, sub := .fresh,
        writers := [] ++ [some { rtype := 6, id := r.sp.request.id }], propagate := true }
      (e.ev "o=w0"))
  have hs1 : TStep e.tr (e.ev "o=w0").tr := TStep.ev _ (by decide)
  have hw : HWriteG r.sp.request.id data st Lb
      { ops := wscript data st, sub := .fresh,
        writers := [] ++ [some { rtype := 6, id := r.sp.request.id }], propagate := true }
      (e.ev "o=w0") := by
    refine ⟨rfl, rfl, ⟨{ rtype := 6, id := r.sp.request.id }, Lb, [], rfl,
      ⟨rfl, rfl, Or.inl ⟨rfl, rfl, hm, rfl⟩⟩, ?_, rfl⟩, Nat.le_refl _⟩
    show e.tr.wlog = Lb ++ []
    rw [hlog, List.append_nil]
  have hb2 : Ben (e.ev "o=w0").tr := hb.step hs1
  obtain ⟨q0, q1, q2, q3, q4⟩ := write_phaseG (r := r) hw hb2 (fuel := f2) (by omega)
  refine ⟨q0, hs1.trans q1, q2, q3, ?_⟩
  rcases q4 with ⟨a1, a2, a3, a4⟩ | a
  · exact Or.inl ⟨a1, a2, by have := hs1.ans_le; omega, a4⟩
  · exact Or.inr a

/-! ## The request -/

/-- the handler's Stdout records -/
def Cfg.D (g : Cfg) : Bytes := streamRecords 6 g.p.id g.data

/-- The hypotheses: as `POK`, the handler is `.read n` followed by the canonical write-only script. -/
structure PWOK (g : Cfg) (n : Nat) : Prop where
  wf : WellFormedPreamble g.p g.recs
  role : g.p.role = 1
  pairs : ∀ q ∈ g.p.pairs, (NV.enc q).length ≤ alignedBufsize g.b
  noise : NoiseFits (alignedBufsize g.b) g.recs
  hb : Body g.p.id 5 g.content g.body
  hf : NoiseFits (alignedBufsize g.b) g.body
  hp : g.pad.length < 256
  hX2 : g.X2 = []
  hX : g.X = serAll g.body ++ g.term.ser
  str : ∀ r ∈ g.R, StdinRec g.p.id r
  hs : g.hscript = .read n :: oscript g.data g.st
  hn : 0 < n
  hfu : wcost g.data.length + 6 ≤ 1000

/-- the same request with the handler `[.read n, .ret st]` -/
theorem PWOK.pok {g : Cfg} {n : Nat} (ok : PWOK g n) : POK { g with hscript := [.read n, .ret g.st] } n :=
  ⟨ok.wf, ok.role, ok.pairs, ok.noise, ok.hb, ok.hf, ok.hp, ok.hX2, ok.hX, ok.str, rfl, ok.hn⟩

theorem PWOK.fok {g : Cfg} {n : Nat} (ok : PWOK g n) : FOK g := ⟨ok.wf, ok.pairs, ok.noise⟩
theorem PWOK.hid {g : Cfg} {n : Nat} (ok : PWOK g n) : g.p.id < 65536 := (pid_of_wf ok.wf).2
theorem PWOK.XR {g : Cfg} {n : Nat} (ok : PWOK g n) : g.X = serAll g.R := ok.pok.XR
theorem PWOK.ctx {g : Cfg} {n : Nat} (ok : PWOK g n) : R2Ctx g.p.id g.mc g.cap g.R := ok.pok.ctx
theorem PWOK.kok {g : Cfg} {n : Nat} (ok : PWOK g n) : g.K.OK := ok.pok.kok

theorem PWOK.front {g : Cfg} {n : Nat} (ok : PWOK g n) {us : List Rec} (hu : LeftOK (alignedBufsize g.b) us) :
    PWOK (g.front us) n :=
  ⟨wf_idle ok.wf us hu.1, ok.role, ok.pairs, noiseFits_app hu.2 ok.noise, ok.hb, ok.hf, ok.hp, ok.hX2, ok.hX,
    ok.str, ok.hs, ok.hn, ok.hfu⟩

/-- the request as `close` sees it once `record_boundary()` is done; `Lp` = the whole log before the
epilogue -/
def gD (g : Cfg) (s2 : List Rec) (Lp : Bytes) : Cfg :=
  { g with recs := [], L0 := Lp, data := [], U := serAll s2 }

theorem gD_LU (g : Cfg) (s2 : List Rec) (Lp : Bytes) : (gD g s2 Lp).LU = Lp ++ g.epi := by
  simp only [Cfg.LU, Cfg.L1, gD, owedPreamble, streamRecords_nil, List.append_nil]
  rfl

/-! ## Stages -/

/-- the handler, suspended in (or about to start) its `read` -/
def HRW (g : Cfg) (n : Nat) (c : Conn) : Prop :=
  ∃ r h dO, c.phase = .handler r h ∧ h.ops = .read n :: oscript g.data g.st ∧ h.writers = [] ∧ h.propagate = true ∧
    RSt g.K g.L1 [] r c.env.mutex c.env.tr [] dO ∧ Pos g.R r.sp.raw r.sp.pay r.sp.pad c.env.tr.input ∧
    Ben c.env.tr ∧ c.stop = false ∧ Ev1 g c.env.tr ∧ c.scripts = g.more

/-- the handler, suspended in its `write_all`; the request stands where the `read` left it -/
def HWW (g : Cfg) (c : Conn) : Prop :=
  ∃ r h O1 G dC dO, c.phase = .handler r h ∧ HWriteG g.p.id g.data g.st (g.L1 ++ O1) h c.env ∧
    RInv g.K r G c.env.tr.input dC dO ∧ Pos g.R r.sp.raw r.sp.pay r.sp.pad c.env.tr.input ∧
    r.lock = .none ∧ r.writeable = true ∧ O1 ++ r.sp.output = dO ∧ RdEv g c.env.tr ∧
    Ben c.env.tr ∧ c.stop = false ∧ Ev1 g c.env.tr ∧ c.scripts = g.more

/-- `close`, suspended in the transport read of `record_boundary()` -/
def BWW (g : Cfg) (c : Conn) : Prop :=
  ∃ r dO O1, c.phase = .closing r .inBoundary g.st 0 ∧
    (∃ G, R2 g.p.id g.mc g.cap g.R r.sp G c.env.tr.input dO) ∧
    r.sp.request = g.p.request ∧ r.sp.maxConns = g.mc ∧ r.lock = .none ∧ r.writeable = true ∧
    c.env.mutex = none ∧ c.env.tr.wlog = (g.L1 ++ O1) ++ g.D ∧ O1 ++ r.sp.output = dO ∧
    r.sp.isRecordBoundary = false ∧ r.sp.raw.length < g.cap ∧ r.sp.g0 = 0 ∧ r.sp.g1 = 0 ∧
    c.env.tr.input ≠ [] ∧ RdEv g c.env.tr ∧ Ben c.env.tr ∧ c.stop = false ∧ Ev1 g c.env.tr ∧ c.scripts = g.more

/-- `close`, in its `write_all`s: the split and the replies around the Stdout records are fixed -/
def LWW (g : Cfg) (c : Conn) : Prop :=
  ∃ s1 s2 O1 O2, g.R = s1 ++ s2 ∧ O1 ++ O2 = owedI g.p.id g.mc s1 ∧ RdEv g c.env.tr ∧
    LStage (gD g s2 ((g.L1 ++ O1) ++ g.D ++ O2)) c

def SW (g : Cfg) (n : Nat) (c : Conn) : Prop := FStage g c ∨ HRW g n c ∨ HWW g c ∨ BWW g c ∨ LWW g c

/-- `close` is done -/
def AW (g : Cfg) (c : Conn) : Prop :=
  ∃ s1 s2 O1 O2, g.R = s1 ++ s2 ∧ O1 ++ O2 = owedI g.p.id g.mc s1 ∧ RdEv g c.env.tr ∧
    AfterU (gD g s2 ((g.L1 ++ O1) ++ g.D ++ O2)) c

/-! ## `close` -/

theorem wboundary_out {g : Cfg} {n : Nat} (ok : PWOK g n) (hk : g.p.flags.toNat % 2 = 1) {c : Conn} {r : AReq}
    {cs : CloseSt} {sp0 sp' : Str.Parser} {t' : Transport} {res : ORes} {dO : Bytes}
    (hph : c.phase = .closing r cs g.st 0)
    (heq : closePoll r cs g.st 0 c.env.mutex c.env.tr = closeTail r c.env.mutex g.st (sp', t', res))
    (hts : TStep c.env.tr t') (hwl : t'.wlog = c.env.tr.wlog)
    (hend : BEnd g.p.id g.mc g.cap g.R sp0 sp' dO t')
    (hreq : sp0.request = g.p.request) (hmc : sp0.maxConns = g.mc)
    (hres : (res = .ready ∧ sp'.isRecordBoundary = true) ∨
       (res = .pending ∧ t'.woken = true ∧ ans t' < ans c.env.tr ∧ sp'.isRecordBoundary = false ∧
          sp'.raw.length < g.cap ∧ sp'.g0 = 0 ∧ sp'.g1 = 0 ∧ t'.input ≠ []))
    (hlk : r.lock = .none) (hwr : r.writeable = true) (hm : c.env.mutex = none)
    (hlog : ∃ O1, c.env.tr.wlog = (g.L1 ++ O1) ++ g.D ∧ O1 ++ sp0.output = dO) (hrd : RdEv g c.env.tr)
    (hb : Ben c.env.tr) (hstop : c.stop = false) (hev : Ev1 g c.env.tr) (hsc : c.scripts = g.more) :
    GRes (SW g n) (AW g) 2 c := by
  obtain ⟨⟨o, G', ho, hr2⟩, hreq', hmc'⟩ := hend
  obtain ⟨O1, hl1, hl2⟩ := hlog
  have hl1' : t'.wlog = (g.L1 ++ O1) ++ g.D := hwl.trans hl1
  have hl2' : O1 ++ sp'.output = dO ++ o := by rw [ho, ← List.append_assoc, hl2]
  rcases hres with ⟨rfl, hbd⟩ | ⟨rfl, hwk, hans, hnb, hraw, hg0, hg1, hin⟩
  · have hpay : sp'.pay = 0 ∧ sp'.pad = 0 := by
      simpa [Str.Parser.isRecordBoundary] using hbd
    obtain ⟨cc, pd, s2, hcc, hpd, hw, ⟨s1, hsuf⟩⟩ := hr2.ign.pos
    rw [hpay.1] at hcc
    rw [hpay.2] at hpd
    have hcc' : cc = [] := List.length_eq_zero_iff.1 hcc
    have hpd' : pd = [] := List.length_eq_zero_iff.1 hpd
    rw [hcc', hpd', List.nil_append, List.nil_append] at hw
    have hsp : g.R = s1 ++ s2 := hsuf.symm
    have hctx := ok.ctx
    obtain ⟨_, hout, _⟩ := hr2.now hctx
    have hrem : Rem (Ev g.p.id g.mc) (view sp') t'.input = refWire (Ev g.p.id g.mc) (serAll s2) := by
      show ref (Ev g.p.id g.mc) (view sp').state (view sp').pay (view sp').pad ((view sp').raw ++ t'.input) = _
      have e1 : (view sp').pay = 0 := hpay.1
      have e2 : (view sp').pad = 0 := hpay.2
      have e3 : (view sp').raw = sp'.raw := rfl
      rw [e1, e2, e3, hw]
      exact ref_eq_refWire (Ev g.p.id g.mc) _ _
    have hs2 : ∀ r ∈ s2, StdinRec g.p.id r := fun r hr => ok.str r (by rw [hsp]; exact List.mem_append_right _ hr)
    rw [hrem, refWire_view g.p.id g.mc hs2] at hout
    have hdO : dO ++ o = owedI g.p.id g.mc s1 := by
      have : owedI g.p.id g.mc g.R = owedI g.p.id g.mc s1 ++ owedI g.p.id g.mc s2 := by
        rw [hsp]; simp [owedI, List.flatMap_append]
      rw [this] at hout
      exact List.append_cancel_right hout
    have hepi : epilogueOf { r with sp := sp' } g.st = (gD g s2 ((g.L1 ++ O1) ++ g.D ++ sp'.output)).epi := by
      simp only [epilogueOf, hwr, if_true, Cfg.epi, outputStreams]
      show makeRequestEpilogue sp'.request.id g.st _ = _
      rw [hreq', hreq]; rfl
    have heq' : closePoll r cs (gD g s2 ((g.L1 ++ O1) ++ g.D ++ sp'.output)).st 0 c.env.mutex c.env.tr =
        closeP4 { sp := sp', lock := .none, writeable := r.writeable } c.env.mutex t'
          (.writeOut sp'.output (gD g s2 ((g.L1 ++ O1) ++ g.D ++ sp'.output)).epi) := by
      show closePoll r cs g.st 0 c.env.mutex c.env.tr = _
      rw [heq, ← hepi]
      simp only [closeTail, closeP2Tail, closeP3_start, Nat.lt_irrefl, gt_iff_lt, if_false, hlk, lockDrop]
    have hrawlen : sp'.raw.length ≤ g.cap := by
      have := hr2.sinv.1
      have e : (view sp').freeStart = sp'.freeStart := rfl
      have e2 : (view sp').cap = sp'.cap := rfl
      rw [e, e2, hr2.capK] at this
      simp only [Str.Parser.freeStart] at this
      omega
    have hce : CEndW (gD g s2 ((g.L1 ++ O1) ++ g.D ++ sp'.output))
        { sp := sp', lock := .none, writeable := r.writeable } t'.input :=
      ⟨hpay.1, hpay.2, hw, hreq'.trans hreq, hr2.capK, hmc'.trans hmc, hrawlen⟩
    have hU := uclose_out' (g := gD g s2 ((g.L1 ++ O1) ++ g.D ++ sp'.output)) hph heq' hts hce hm
      (by rw [gD_LU, hl1']; rfl) hb hstop hev hsc
    have hO : O1 ++ sp'.output = owedI g.p.id g.mc s1 := hl2'.trans hdO
    exact (URes2.toG (g := gD g s2 ((g.L1 ++ O1) ++ g.D ++ sp'.output)) hk hU).imp
      (fun _ hl h => Or.inr (Or.inr (Or.inr (Or.inr ⟨s1, s2, O1, sp'.output, hsp, hO, hrd.wstep hl.ts, h⟩))))
      (fun _ hl h => ⟨s1, s2, O1, sp'.output, hsp, hO, hrd.wstep hl.ts, h⟩)
  · have hstep := C07.closing_step c r cs g.st 0 hph
    rw [heq] at hstep
    have hstep' : stepConn c = .halt (mkC c (.closing { r with sp := sp' } .inBoundary g.st 0) t') .pending := hstep
    refine Or.inl ⟨_, (Halts.now hstep').mono (by omega), mkC_link c _ hts, ?_, hwk, hans⟩
    exact Or.inr (Or.inr (Or.inr (Or.inl ⟨{ r with sp := sp' }, dO ++ o, O1, rfl, ⟨G', hr2⟩, hreq'.trans hreq,
      hmc'.trans hmc, hlk, hwr, hm, hl1', hl2', hnb, hraw, hg0, hg1, hin, hrd.step hts, hb.step hts, hstop,
      hev.step hts, hsc⟩)))

theorem wclose_start {g : Cfg} {n : Nat} (ok : PWOK g n) (hk : g.p.flags.toNat % 2 = 1) {c : Conn} {r : AReq} {G dC dO : Bytes}
    (hph : c.phase = .closing r .start g.st 0)
    (hi : RInv g.K r G c.env.tr.input dC dO) (hpos : Pos g.R r.sp.raw r.sp.pay r.sp.pad c.env.tr.input)
    (hlk : r.lock = .none) (hwr : r.writeable = true) (hm : c.env.mutex = none)
    (hlog : ∃ O1, c.env.tr.wlog = (g.L1 ++ O1) ++ g.D ∧ O1 ++ r.sp.output = dO) (hrd : RdEv g c.env.tr)
    (hb : Ben c.env.tr) (hstop : c.stop = false) (hev : Ev1 g c.env.tr) (hsc : c.scripts = g.more) :
    GRes (SW g n) (AW g) 2 c := by
  have hctx := ok.ctx
  have hE : g.K.E = ⟨g.p.id, 1, 5, g.mc⟩ := by show (⟨g.p.id, g.p.role, 5, g.mc⟩ : Str.Cfg) = _; rw [ok.role]
  have hr2 : R2 g.p.id g.mc g.cap g.R (r.sp.switchTo none) G c.env.tr.input dO :=
    r2_of_switch hctx hE ok.XR rfl hi hpos
  have hstrm : r.sp.stream = some 5 := hi.mt.strm
  have hign : spIgnore r.sp = r.sp.switchTo none := by simp [spIgnore, hstrm]
  have heq0 := closePoll_start_tail r c.env.mutex c.env.tr g.st hwr
  rw [hign] at heq0
  have hreq : (r.sp.switchTo none).request = g.p.request := hi.req
  have hmc : (r.sp.switchTo none).maxConns = g.mc := hi.mt.mc
  have hout : (r.sp.switchTo none).output = r.sp.output := rfl
  by_cases hbd : (r.sp.switchTo none).isRecordBoundary = true
  · have hcb : closeBoundary (r.sp.switchTo none) false c.env.tr = (r.sp.switchTo none, c.env.tr, .ready) := by
      simp [closeBoundary, hbd]
    rw [hcb] at heq0
    exact wboundary_out ok hk (sp0 := r.sp.switchTo none) (dO := dO) hph heq0 (.refl _) rfl
      ⟨⟨[], G, (List.append_nil _).symm, by rw [List.append_nil]; exact hr2⟩, rfl, rfl⟩ hreq hmc (Or.inl ⟨rfl, hbd⟩)
      hlk hwr hm (by rw [hout]; exact hlog) hrd hb hstop hev hsc
  · have hbd' : (r.sp.switchTo none).isRecordBoundary = false := by simpa using hbd
    rcases hbl : boundaryLoop (c.env.tr.input.length + 2) (r.sp.switchTo none) [] c.env.tr with ⟨sp', t', res⟩
    have hcb : closeBoundary (r.sp.switchTo none) false c.env.tr = (sp', t', res) := by
      simp [closeBoundary, hbd', hbl]
    rw [hcb] at heq0
    obtain ⟨q1, q2, q3, q4⟩ := bloop_sim hctx _ _ [] c.env.tr hb (by rw [List.nil_append]; exact hr2)
      (Nat.zero_le _) (Nat.le_refl _) hbl
    exact wboundary_out ok hk (sp0 := r.sp.switchTo none) (dO := dO) hph heq0 q1 q2 q3 hreq hmc q4
      hlk hwr hm (by rw [hout]; exact hlog) hrd hb hstop hev hsc


theorem wbound_poll {g : Cfg} {n : Nat} (ok : PWOK g n) (hk : g.p.flags.toNat % 2 = 1) {c : Conn} {r : AReq} {dO : Bytes}
    (hph : c.phase = .closing r .inBoundary g.st 0)
    (hr2 : ∃ G, R2 g.p.id g.mc g.cap g.R r.sp G c.env.tr.input dO)
    (hreq : r.sp.request = g.p.request) (hmc : r.sp.maxConns = g.mc)
    (hlk : r.lock = .none) (hwr : r.writeable = true) (hm : c.env.mutex = none)
    (hlog : ∃ O1, c.env.tr.wlog = (g.L1 ++ O1) ++ g.D ∧ O1 ++ r.sp.output = dO)
    (hnb : r.sp.isRecordBoundary = false) (hraw : r.sp.raw.length < g.cap) (hg0 : r.sp.g0 = 0)
    (hg1 : r.sp.g1 = 0) (hin : c.env.tr.input ≠ []) (hre : RdEv g c.env.tr)
    (hb : Ben c.env.tr) (hstop : c.stop = false) (hev : Ev1 g c.env.tr) (hsc : c.scripts = g.more) :
    GRes (SW g n) (AW g) 2 c := by
  have hctx := ok.ctx
  obtain ⟨G, hr2⟩ := hr2
  have heq0 := closePoll_bound_tail r c.env.mutex c.env.tr g.st
  have hfree : r.sp.free = g.cap - r.sp.raw.length := by
    simp [Str.Parser.free, Str.Parser.freeStart, hr2.par, hr2.capK, hg0, hg1]
  have hfp : 0 < r.sp.free := by rw [hfree]; omega
  have hend0 : BEnd g.p.id g.mc g.cap g.R r.sp r.sp dO c.env.tr :=
    ⟨⟨[], G, (List.append_nil _).symm, by rw [List.append_nil]; exact hr2⟩, rfl, rfl⟩
  rcases hrd : c.env.tr.read r.sp.free with ⟨t1, x⟩
  cases x with
  | pending =>
    have hwl : t1.wlog = c.env.tr.wlog := by have := read_wlog c.env.tr r.sp.free; rwa [hrd] at this
    obtain ⟨hinp, hw | hw⟩ := read_pending hb hrd
    · have hcb : closeBoundary r.sp true c.env.tr = (r.sp, t1, .pending) := by simp [closeBoundary, hrd]
      rw [hcb] at heq0
      exact wboundary_out ok hk (sp0 := r.sp) (dO := dO) hph heq0 (read_tstep hrd) hwl
        ⟨⟨[], G, (List.append_nil _).symm, by rw [List.append_nil]; exact hr2.input hinp⟩, rfl, rfl⟩ hreq hmc
        (Or.inr ⟨rfl, hw.1, hw.2, hnb, hraw, hg0, hg1, by rw [hinp]; exact hin⟩) hlk hwr hm hlog hre hb hstop hev hsc
    · exact absurd hw.1 hin
  | ready y =>
    cases y with
    | error e => exact (read_error hb hrd).elim
    | ok bs =>
      obtain ⟨hinp, hwl, hlen, hz⟩ := read_ok_ben hb hrd
      by_cases hbs : bs = []
      · rcases hz hbs with hz | hz
        · omega
        · exact absurd hz.1 hin
      · have hs1 := read_tstep hrd
        rcases hbl : boundaryLoop (t1.input.length + 2) r.sp bs t1 with ⟨sp', t', res⟩
        have hcb : closeBoundary r.sp true c.env.tr = (sp', t', res) := by
          cases bs with
          | nil => exact absurd rfl hbs
          | cons b0 bs' => simp [closeBoundary, hrd, hbl]
        rw [hcb] at heq0
        obtain ⟨q1, q2, q3, q4⟩ := bloop_sim hctx _ _ bs t1 (hb.step hs1) (hr2.input (by rw [← hinp]))
          hlen (Nat.le_refl _) hbl
        refine wboundary_out ok hk (sp0 := r.sp) (dO := dO) hph heq0 (hs1.trans q1) (q2.trans hwl) q3 hreq hmc ?_
          hlk hwr hm hlog hre hb hstop hev hsc
        rcases q4 with q4 | ⟨a, b, c1, d⟩
        · exact Or.inl q4
        · exact Or.inr ⟨a, b, by have := hs1.ans_le; omega, d⟩


end Fcgi.E2E
