import Fcgi.Proofs.E2EStuck
import Fcgi.Props.C06Suff
/-!
# `SCtx` for the one-pair family of `Props/C06Suff.lean`

`W = serAll (pairRecs q) ++ extra` = `[BeginRequest(1)] [Params: enc q] [Params: ∅] extra` with
`cap < |enc q|`.  `Wk` = the wire up to the `cap`-th byte of the pair.
-/
namespace Fcgi.C06E
open Fcgi Fcgi.Req Fcgi.Str Fcgi.Async Fcgi.Run Fcgi.Spec Fcgi.E2E Fcgi.C06 Fcgi.VarInt

/-- BeginRequest and the header of the Params record -/
def pairC1 (q : Bytes × Bytes) : Bytes := recBegin.ser ++ pairHdr q

theorem pairC1_length (q : Bytes × Bytes) : (pairC1 q).length = 24 := by
  simp only [pairC1, List.length_append, pairHdr_length, ser_length]; rfl

/-- the wire up to the `cap`-th byte of the pair -/
def pairWk (cap : Nat) (q : Bytes × Bytes) : Bytes := pairC1 q ++ (NV.enc q).take cap

theorem pair_wire (q : Bytes × Bytes) (extra : Bytes) :
    serAll (pairRecs q) ++ extra = pairC1 q ++ (NV.enc q ++ (recEnd.ser ++ extra)) := by
  simp only [pairRecs, serAll_cons, serAll_nil, recPair_ser, List.append_nil, List.append_assoc, pairC1]

theorem run_pair_part (q : Bytes × Bytes) (mc : Nat) (hq : q.1.length ≤ maxVal ∧ q.2.length ≤ maxVal)
    (hlen : (NV.enc q).length < 65536) {d t : Bytes} (h : d ++ t = NV.enc q) (ht : t ≠ []) :
    run .header (pairC1 q ++ d) mc = ⟨d, .params inner0 (NV.enc q).length 0, [], none⟩ := by
  have h1 := run_begin_hdr q mc hlen
  by_cases hd : d = []
  · subst hd; rw [List.append_nil]; exact h1
  · have h2 := run_pair_prefix q mc hq h ht
    have hs := Req.run_split (st := .header) trivial (pairC1 q) d mc hd
    rw [hs]
    simp only [pairC1, h1, List.nil_append, h2]

theorem pair_sctx (cap mc : Nat) (q : Bytes × Bytes) (hq : q.1.length ≤ maxVal ∧ q.2.length ≤ maxVal)
    (h24 : 24 ≤ cap) (h1 : cap < (NV.enc q).length) (h2 : (NV.enc q).length < 65536) (extra : Bytes) :
    SCtx cap mc (pairWk cap q) (serAll (pairRecs q) ++ extra) [] := by
  have hwf := pairRecs_wf q hq h2
  have htl : ((NV.enc q).take cap).length = cap := by simp only [List.length_take]; omega
  have hdrop : (NV.enc q).drop cap ≠ [] := by
    intro hx
    have := congrArg List.length hx
    simp only [List.length_drop, List.length_nil] at this
    omega
  -- a prefix of `Wk` is a strict prefix of `C1`, or `C1` plus a strict prefix of the pair
  have hcases : ∀ F, F <+: pairWk cap q →
      (∃ t, t ≠ [] ∧ F ++ t = pairC1 q) ∨
      (∃ d t, F = pairC1 q ++ d ∧ d ++ t = NV.enc q ∧ t ≠ [] ∧ d.length ≤ cap) := by
    intro F hF
    rcases prefix_append_cases hF with ⟨d, rfl, ⟨z, hz⟩⟩ | ⟨t, ht, hFt⟩
    · refine Or.inr ⟨d, z ++ (NV.enc q).drop cap, rfl, ?_, ?_, ?_⟩
      · rw [← List.append_assoc, hz, List.take_append_drop]
      · intro hx; exact hdrop (List.append_eq_nil_iff.mp hx).2
      · have := congrArg List.length hz
        simp only [List.length_append, htl] at this; omega
    · exact Or.inl ⟨t, ht, hFt⟩
  have hstrict : ∀ F, F <+: pairWk cap q → ∃ t, t ≠ [] ∧ F ++ t = serAll (pairRecs q) := by
    intro F hF
    have hw := pair_wire q []
    rw [List.append_nil, List.append_nil] at hw
    rcases hcases F hF with ⟨t, ht, hFt⟩ | ⟨d, t, rfl, hdt, ht, _⟩
    · refine ⟨t ++ (NV.enc q ++ recEnd.ser), ?_, ?_⟩
      · intro hx; exact ht (List.append_eq_nil_iff.mp hx).1
      · rw [← List.append_assoc, hFt, hw]
    · refine ⟨t ++ recEnd.ser, ?_, ?_⟩
      · intro hx; exact ht (List.append_eq_nil_iff.mp hx).1
      · rw [hw, List.append_assoc, ← List.append_assoc d, hdt]
  have hremF : ∀ F, F <+: pairWk cap q → F.length ≤ 24 + (run .header F mc).rem.length := by
    intro F hF
    rcases hcases F hF with ⟨t, ht, hFt⟩ | ⟨d, t, rfl, hdt, ht, _⟩
    · have := length_lt_of_append_ne hFt ht
      rw [pairC1_length] at this; omega
    · rw [run_pair_part q mc hq h2 hdt ht]
      simp only [List.length_append, pairC1_length]; omega
  refine ⟨h24, ?_, ?_, ?_, ?_, ?_⟩
  · rw [pair_wire]
    exact ⟨(NV.enc q).drop cap ++ (recEnd.ser ++ extra), by
      simp only [pairWk, List.append_assoc]
      rw [← List.append_assoc (List.take _ _), List.take_append_drop]⟩
  · intro F hF
    obtain ⟨t, ht, hFt⟩ := hstrict F hF
    exact prefix_not_final hwf hFt ht mc
  · show cap ≤ (run .header (pairC1 q ++ (NV.enc q).take cap) mc).rem.length
    rw [run_pair_part q mc hq h2 (List.take_append_drop _ _) hdrop]
    simp only [htl]; exact Nat.le_refl _
  · intro F bs hF hle hpre
    have h3 := hremF F hF
    have hWk : pairWk cap q <+: serAll (pairRecs q) ++ extra := by
      rw [pair_wire]
      exact ⟨(NV.enc q).drop cap ++ (recEnd.ser ++ extra), by
        simp only [pairWk, List.append_assoc]
        rw [← List.append_assoc (List.take _ _), List.take_append_drop]⟩
    refine List.prefix_of_prefix_length_le hpre hWk ?_
    simp only [pairWk, List.length_append, pairC1_length, htl]
    omega
  · intro F hF hbig
    rcases hcases F hF with ⟨t, ht, hFt⟩ | ⟨d, t, rfl, hdt, ht, _⟩
    · exfalso
      have h3 := length_lt_of_append_ne hFt ht
      rw [pairC1_length] at h3
      have h4 := (run_ok F mc (st := .header) trivial).2.2.length_le
      omega
    · rw [run_pair_part q mc hq h2 hdt ht]

end Fcgi.C06E
