import Fcgi.Proofs.StrRef
/-!
# Decomposition of arbitrary bytes into records; the record-level reference semantics `refRun`

* `nextRec`, `decomp` — every byte string is `serAll rs ++ tail` with `rs` well-formed version-1
  records and `tail` not starting with a complete version-1 record (`nextRec tail = none`: fewer
  than 8 bytes, or a version byte ≠ 1, or a version-1 header whose payload + padding is
  incomplete); `decomp_spec` (existence), `decomp_unique` (uniqueness).
* `rclass`, `refRun` — the RECORD-LEVEL REFERENCE SEMANTICS: a fold over the records that looks only
  at a record's type, id, emptiness of its content, and `Spec.owed`.
* `refTail` — what the unfinished tail contributes (no recursion).
* `refWire` — both combined; `ref_eq_refWire`: the byte-level reference `ref` (which the model is
  proved against) IS this record-level semantics.
* `refRun_body`, `refRun_streamRecs` — on the well-formed traffic of C02 (`Body`, `StreamRecs`)
  `refRun` yields exactly the stream content and `owedStream`.
-/
namespace Fcgi.Str
open Fcgi Fcgi.Req Fcgi.Spec

/-! ## Decomposition -/

/-- The first record of `w`, if `w` starts with a complete version-1 record. -/
def nextRec (w : Bytes) : Option (Rec × Bytes) :=
  match w with
  | b0 :: b1 :: b2 :: b3 :: b4 :: b5 :: b6 :: b7 :: rest =>
    if b0.toNat = 1 ∧ be16 b4 b5 + b6.toNat ≤ rest.length then
      some ({ rtype := b1, id := be16 b2 b3, content := rest.take (be16 b4 b5),
              pad := (rest.drop (be16 b4 b5)).take b6.toNat, reserved := b7 },
            rest.drop (be16 b4 b5 + b6.toNat))
    else none
  | _ => none

theorem nextRec_short {w : Bytes} (h : w.length < 8) : nextRec w = none := by
  unfold nextRec
  split
  · simp only [List.length_cons] at h; omega
  · rfl

theorem nextRec_cons (b0 b1 b2 b3 b4 b5 b6 b7 : UInt8) (rest : Bytes) :
    nextRec (b0 :: b1 :: b2 :: b3 :: b4 :: b5 :: b6 :: b7 :: rest) =
      if b0.toNat = 1 ∧ be16 b4 b5 + b6.toNat ≤ rest.length then
        some ({ rtype := b1, id := be16 b2 b3, content := rest.take (be16 b4 b5),
                pad := (rest.drop (be16 b4 b5)).take b6.toNat, reserved := b7 },
              rest.drop (be16 b4 b5 + b6.toNat))
      else none := rfl

/-- What `nextRec tail = none` means. -/
theorem nextRec_none_iff (w : Bytes) :
    nextRec w = none ↔ w.length < 8 ∨
      ∃ b0 b1 b2 b3 b4 b5 b6 b7 rest, w = b0 :: b1 :: b2 :: b3 :: b4 :: b5 :: b6 :: b7 :: rest ∧
        (b0.toNat ≠ 1 ∨ rest.length < be16 b4 b5 + b6.toNat) := by
  by_cases hl : w.length < 8
  · simp [nextRec_short hl, hl]
  · match w, hl with
    | b0 :: b1 :: b2 :: b3 :: b4 :: b5 :: b6 :: b7 :: rest, _ =>
      rw [nextRec_cons]
      constructor
      · intro h
        right
        refine ⟨b0, b1, b2, b3, b4, b5, b6, b7, rest, rfl, ?_⟩
        split at h
        · cases h
        · rename_i hc
          by_cases h1 : b0.toNat = 1
          · right
            have : ¬ be16 b4 b5 + b6.toNat ≤ rest.length := fun h2 => hc ⟨h1, h2⟩
            omega
          · exact Or.inl h1
      · rintro (h | ⟨c0, c1, c2, c3, c4, c5, c6, c7, rest', he, hc⟩)
        · simp only [List.length_cons] at h; omega
        · simp only [List.cons.injEq] at he
          obtain ⟨rfl, rfl, rfl, rfl, rfl, rfl, rfl, rfl, rfl⟩ := he
          rw [if_neg]
          rintro ⟨h1, h2⟩
          rcases hc with hc | hc
          · exact hc h1
          · omega
    | [], h | [_], h | [_, _], h | [_, _, _], h | [_, _, _, _], h | [_, _, _, _, _], h
    | [_, _, _, _, _, _], h | [_, _, _, _, _, _, _], h => simp at h

theorem toNat_one_eq {b : UInt8} (h : b.toNat = 1) : b = 1 := UInt8.toNat_inj.mp h

theorem nextRec_some {w : Bytes} {r : Rec} {rest : Bytes} (h : nextRec w = some (r, rest)) :
    w = r.ser ++ rest ∧ r.WF ∧ rest.length < w.length := by
  unfold nextRec at h
  split at h
  · rename_i b0 b1 b2 b3 b4 b5 b6 b7 tl
    split at h
    · rename_i hc
      obtain ⟨h0, hlen⟩ := hc
      simp only [Option.some.injEq, Prod.mk.injEq] at h
      obtain ⟨rfl, rfl⟩ := h
      have hb45 := Proofs.Header.be16_lt b4 b5
      have hb23 := Proofs.Header.be16_lt b2 b3
      have hb6 : b6.toNat < 256 := UInt8.toNat_lt _
      have hcl : (tl.take (be16 b4 b5)).length = be16 b4 b5 := by
        simp only [List.length_take]; omega
      have hpl : ((tl.drop (be16 b4 b5)).take b6.toNat).length = b6.toNat := by
        simp only [List.length_take, List.length_drop]; omega
      refine ⟨?_, ⟨hb23, by rw [hcl]; exact hb45, by rw [hpl]; exact hb6⟩, ?_⟩
      · rw [ser_append]
        simp only [hcl, hpl]
        have e23 := Proofs.Header.toBe16_be16 b2 b3
        have e45 := Proofs.Header.toBe16_be16 b4 b5
        simp only [toBe16, List.cons.injEq, and_true] at e23 e45
        rw [e23.1, e23.2, e45.1, e45.2, toNat_one_eq h0]
        have e6 : UInt8.ofNat b6.toNat = b6 := Proofs.Header.ofNat_eq_of_toNat _ _ (by omega)
        rw [e6]
        congr 8
        rw [← List.drop_drop, List.take_append_drop, List.take_append_drop]
      · simp only [List.length_drop, List.length_cons]; omega
    · cases h
  · cases h

theorem take_left_len {α} (a b : List α) : (a ++ b).take a.length = a := by simp

theorem nextRec_ser (r : Rec) (hr : r.WF) (X : Bytes) : nextRec (r.ser ++ X) = some (r, X) := by
  obtain ⟨h1, h2, h3⟩ := hr
  rw [ser_append, nextRec_cons]
  have hp : (UInt8.ofNat r.pad.length).toNat = r.pad.length := toNat_ofNat_lt h3
  simp only [be16_toBe16 h1, be16_toBe16 h2, hp]
  rw [if_pos ⟨rfl, by simp only [List.length_append]; omega⟩]
  have e1 : (r.content ++ (r.pad ++ X)).take r.content.length = r.content := take_left_len _ _
  have e2 : (r.content ++ (r.pad ++ X)).drop r.content.length = r.pad ++ X := List.drop_left
  have e3 : (r.pad ++ X).take r.pad.length = r.pad := take_left_len _ _
  have e4 : (r.content ++ (r.pad ++ X)).drop (r.content.length + r.pad.length) = X := by
    rw [← List.drop_drop, e2, List.drop_left]
  rw [e1, e2, e3, e4]

/-- **The decomposition**: the maximal list of complete version-1 records at the front of `w`, and
what follows. -/
def decomp (w : Bytes) : List Rec × Bytes :=
  match nextRec w with
  | none => ([], w)
  | some (r, rest) =>
    if rest.length < w.length then ((r :: (decomp rest).1), (decomp rest).2) else ([r], rest)
termination_by w.length

theorem decomp_none {w : Bytes} (h : nextRec w = none) : decomp w = ([], w) := by
  rw [decomp]; simp only [h]

theorem decomp_some {w : Bytes} {r : Rec} {rest : Bytes} (h : nextRec w = some (r, rest)) :
    decomp w = (r :: (decomp rest).1, (decomp rest).2) := by
  rw [decomp]; simp only [h, (nextRec_some h).2.2, if_true]

/-- **Decomposition, existence.**  Every byte string is a sequence of well-formed version-1
records followed by a tail that does not start with a complete version-1 record. -/
theorem decomp_spec (w : Bytes) :
    w = serAll (decomp w).1 ++ (decomp w).2 ∧ (∀ r ∈ (decomp w).1, r.WF) ∧
      nextRec (decomp w).2 = none := by
  generalize hn : w.length = n
  induction n using Nat.strongRecOn generalizing w with
  | _ n ih =>
    cases h : nextRec w with
    | none => rw [decomp_none h]; exact ⟨by simp [serAll], by simp, h⟩
    | some rr =>
      obtain ⟨r, rest⟩ := rr
      obtain ⟨hw, hwf, hlt⟩ := nextRec_some h
      obtain ⟨a1, a2, a3⟩ := ih rest.length (by omega) rest rfl
      rw [decomp_some h]
      refine ⟨?_, ?_, a3⟩
      · simp only [serAll_cons, List.append_assoc]
        rw [← a1]; exact hw
      · intro r' hr'
        simp only [List.mem_cons] at hr'
        rcases hr' with rfl | hr'
        · exact hwf
        · exact a2 r' hr'

/-- `decomp` recovers any presentation of this shape. -/
theorem decomp_serAll (rs : List Rec) (hwf : ∀ r ∈ rs, r.WF) (t : Bytes) (ht : nextRec t = none) :
    decomp (serAll rs ++ t) = (rs, t) := by
  induction rs with
  | nil => simpa [serAll] using decomp_none ht
  | cons r rs ih =>
    rw [serAll_cons, List.append_assoc,
      decomp_some (nextRec_ser r (hwf r List.mem_cons_self) _),
      ih (fun r' hr' => hwf r' (List.mem_cons_of_mem _ hr'))]

/-- **Decomposition, uniqueness.** -/
theorem decomp_unique {rs rs' : List Rec} {t t' : Bytes} (hwf : ∀ r ∈ rs, r.WF)
    (hwf' : ∀ r ∈ rs', r.WF) (ht : nextRec t = none) (ht' : nextRec t' = none)
    (h : serAll rs ++ t = serAll rs' ++ t') : rs = rs' ∧ t = t' := by
  have h1 := decomp_serAll rs hwf t ht
  have h2 := decomp_serAll rs' hwf' t' ht'
  rw [h, h2] at h1
  simp only [Prod.mk.injEq] at h1
  exact ⟨h1.1.symm, h1.2.symm⟩

/-! ## The record-level reference semantics -/

/-- What a well-formed record means to the parser of stream `E.s` of request `E.id`. -/
inductive RClass
  | data        -- non-empty record of the active stream of this request
  | noise       -- anything the parser passes over (possibly replying)
  | endStream   -- this request's empty record of the active stream, or a record of a later stream
  | abort       -- this request's AbortRequest
deriving DecidableEq, Repr

/-- Classification by type, id and emptiness of the content only. -/
def rclass (E : Cfg) (r : Rec) : RClass :=
  if RT.isInputStream r.rtype.toNat = true ∧ r.id = E.id then
    if r.rtype.toNat = E.s then (if r.content = [] then .endStream else .data)
    else if Later E.role (some E.s) r.rtype.toNat then .endStream
    else .noise       -- a record of an EARLIER stream of this request: passed over silently
  else if r.rtype.toNat = RT.abortRequest ∧ r.id = E.id then .abort
  else .noise

/-- Where the record list makes the parser stop. -/
inductive Stop
  | ranOut                     -- no record stops it
  | endOfStream (k : Nat)      -- in front of record `k` (held back): end of the active stream
  | abort (k : Nat)            -- in front of record `k`: `Err(AbortRequest)`
deriving DecidableEq, Repr

def Stop.succ : Stop → Stop
  | .ranOut => .ranOut
  | .endOfStream k => .endOfStream (k + 1)
  | .abort k => .abort (k + 1)

structure RecOut where
  content : Bytes
  out : Bytes
  stop : Stop
deriving DecidableEq, Repr

/-- **The record-level reference semantics.**  Stream content and owed replies up to the first
stopping record. -/
def refRun (E : Cfg) : List Rec → RecOut
  | [] => ⟨[], [], .ranOut⟩
  | r :: rs =>
    match rclass E r with
    | .data => ⟨r.content ++ (refRun E rs).content, (refRun E rs).out, (refRun E rs).stop.succ⟩
    | .noise =>
      ⟨(refRun E rs).content, owed (some E.id) E.mc r ++ (refRun E rs).out, (refRun E rs).stop.succ⟩
    | .endStream => ⟨[], [], .endOfStream 0⟩
    | .abort => ⟨[], [], .abort 0⟩

/-- What the unfinished tail contributes: nothing if it is shorter than a header; a fatal error
for a version byte ≠ 1; for a version-1 header classified like a record's: stop in front of it, or
the part of the payload that is there (stream bytes for the active stream's data record, the reply
triggered by the header, the reply triggered by a complete GetValues body). -/
def refTail (E : Cfg) (tail : Bytes) : RefOut :=
  match tail with
  | b0 :: b1 :: b2 :: b3 :: b4 :: b5 :: _ :: _ :: rest =>
    match hclass E b0 b1 b2 b3 b4 b5 with
    | .stop v => ⟨[], [], v, tail⟩
    | .pass st o =>
      if rest.length < be16 b4 b5 then ⟨stateC st rest, o, .more, partialRest st rest⟩
      else ⟨stateC st (rest.take (be16 b4 b5)), o ++ stateO E.mc st (rest.take (be16 b4 b5)), .more, []⟩
  | _ => ⟨[], [], .more, tail⟩

/-- Records and tail combined. -/
def glue (A : RecOut) (rs : List Rec) (tail : Bytes) (Rt : RefOut) : RefOut :=
  match A.stop with
  | .ranOut => Rt.pre A.content A.out
  | .endOfStream k => ⟨A.content, A.out, .eos, serAll (rs.drop k) ++ tail⟩
  | .abort k => ⟨A.content, A.out, .err .abortRequest, serAll (rs.drop k) ++ tail⟩

/-- **The reference outcome of a byte string**: decompose, fold over the records, add the tail. -/
def refWire (E : Cfg) (w : Bytes) : RefOut :=
  glue (refRun E (decomp w).1) (decomp w).1 (decomp w).2 (refTail E (decomp w).2)

/-! ## `hclass` on the header of a well-formed record -/

theorem valid_of_input {t : Nat} (h : RT.isInputStream t = true) : RT.valid t = true := by
  simp only [RT.isInputStream, Bool.or_eq_true, beq_iff_eq] at h
  rcases h with h | h <;> subst h <;> rfl

theorem hclass_rec (E : Cfg) (r : Rec) (hr : r.WF) :
    hclass E 1 r.rtype (UInt8.ofNat (r.id / 256)) (UInt8.ofNat r.id)
        (UInt8.ofNat (r.content.length / 256)) (UInt8.ofNat r.content.length) =
      match rclass E r with
      | .data => .pass .stream []
      | .noise => .pass (noiseState r) (headOut E.id r)
      | .endStream => .stop .eos
      | .abort => .stop (.err .abortRequest) := by
  obtain ⟨h1, h2, h3⟩ := hr
  have hc0 : r.content = [] ↔ r.content.length = 0 := List.length_eq_zero_iff.symm
  unfold hclass rclass
  simp only [be16_toBe16 h1, be16_toBe16 h2]
  rw [if_neg (by decide)]
  by_cases hval : RT.valid r.rtype.toNat = false
  · have hni : ¬ (RT.isInputStream r.rtype.toNat = true ∧ r.id = E.id) := fun h => by
      rw [valid_of_input h.1] at hval; cases hval
    have hna : ¬ (r.rtype.toNat = RT.abortRequest ∧ r.id = E.id) := fun h => by
      rw [h.1] at hval; cases hval
    simp [hval, hni, hna, noiseState, headOut]
  · have hval' : RT.valid r.rtype.toNat = true := by simpa using hval
    rw [if_neg hval]
    by_cases hin : RT.isInputStream r.rtype.toNat = true ∧ r.id = E.id
    · rw [if_pos hin, if_pos hin]
      have hi := hin.1
      simp only [RT.isInputStream, Bool.or_eq_true, beq_iff_eq] at hi
      by_cases hs : r.rtype.toNat = E.s
      · rw [if_pos hs, if_pos hs]
        by_cases hz : r.content.length = 0
        · rw [if_pos hz, if_pos (hc0.2 hz)]
        · rw [if_neg hz, if_neg (fun h => hz (hc0.1 h))]
      · rw [if_neg hs, if_neg hs]
        by_cases hl : Later E.role (some E.s) r.rtype.toNat
        · rw [if_pos hl, if_pos hl]
        · rw [if_neg hl, if_neg hl]
          have : noiseState r = .skip := by
            unfold noiseState; rw [if_neg]; simp [RT.getValues]; omega
          have h2 : headOut E.id r = [] := by
            unfold headOut; simp [hval', RT.beginRequest]; omega
          simp only [this, h2]
    · rw [if_neg hin, if_neg hin]
      by_cases hab : r.rtype.toNat = RT.abortRequest ∧ r.id = E.id
      · rw [if_pos hab, if_pos hab]
      · rw [if_neg hab, if_neg hab]
        by_cases hbg : r.rtype.toNat = RT.beginRequest ∧ r.id ≠ E.id
        · rw [if_pos hbg]
          have : noiseState r = .skip := by
            unfold noiseState; rw [if_neg]; simp [RT.getValues, hbg.1, RT.beginRequest]
          have h2 : headOut E.id r =
              EndRequest.toRecord { appStatus := 0, protocolStatus := 1 } r.id := by
            unfold headOut; simp [hbg.1, hbg.2, RT.valid, RT.beginRequest]
          simp only [this, h2]
        · rw [if_neg hbg]
          have h2 : headOut E.id r = [] := by
            unfold headOut
            simp only [hval', Bool.not_true, Bool.false_eq_true, if_false]
            rw [if_neg]
            simp only [Bool.and_eq_true, beq_iff_eq, bne_iff_ne, ne_eq]
            exact hbg
          by_cases hgv : r.rtype.toNat = RT.getValues ∧ r.id = 0
          · rw [if_pos hgv]
            have : noiseState r = .values 0 := by
              unfold noiseState; simp [hgv.1, hgv.2, RT.valid, RT.getValues]
            simp only [this, h2]
          · rw [if_neg hgv]
            have : noiseState r = .skip := by
              unfold noiseState; rw [if_neg]
              simp only [Bool.and_eq_true, beq_iff_eq]
              exact fun h => hgv ⟨h.1.2, h.2⟩
            simp only [this, h2]

/-! ## `ref` on serialised records -/

/-- The body of a record whose header was consumed. -/
theorem ref_body (E : Cfg) (st : SState) (c pd X : Bytes) :
    ref E st c.length pd.length (c ++ (pd ++ X)) =
      (ref E .skip 0 0 X).pre (stateC st c) (stateO E.mc st c) := by
  have hpad : ref E st 0 pd.length (pd ++ X) = ref E .skip 0 0 X := by
    by_cases hp : 0 < pd.length
    · rw [ref_pad_full E st hp (by simp), List.drop_left]
      exact ref_bdry_irrel E _ _ _
    · have : pd = [] := List.length_eq_zero_iff.1 (by omega)
      subst this
      exact ref_bdry_irrel E _ _ _
  by_cases hc : 0 < c.length
  · rw [ref_pay_full E st _ hc (by simp), List.drop_left, take_left_len, hpad]
  · have : c = [] := List.length_eq_zero_iff.1 (by omega)
    subst this
    rw [stateC_nil, stateO_nil]
    exact hpad

/-- A well-formed record the parser passes over. -/
theorem ref_record (E : Cfg) (st0 : SState) (r : Rec) (hr : r.WF) (X : Bytes) {st : SState}
    {o : Bytes}
    (hc : hclass E 1 r.rtype (UInt8.ofNat (r.id / 256)) (UInt8.ofNat r.id)
        (UInt8.ofNat (r.content.length / 256)) (UInt8.ofNat r.content.length) = .pass st o) :
    ref E st0 0 0 (r.ser ++ X) =
      (ref E .skip 0 0 X).pre (stateC st r.content) (o ++ stateO E.mc st r.content) := by
  rw [ser_append, ref_hdr, hc]
  simp only [be16_toBe16 hr.2.1, toNat_ofNat_lt hr.2.2]
  rw [ref_body, RefOut.pre_pre]
  rfl

theorem ref_record_stop (E : Cfg) (st0 : SState) (r : Rec) (X : Bytes) {v : Verdict}
    (hc : hclass E 1 r.rtype (UInt8.ofNat (r.id / 256)) (UInt8.ofNat r.id)
        (UInt8.ofNat (r.content.length / 256)) (UInt8.ofNat r.content.length) = .stop v) :
    ref E st0 0 0 (r.ser ++ X) = ⟨[], [], v, r.ser ++ X⟩ := by
  rw [ser_append, ref_hdr, hc]

/-- **The byte-level reference on `serAll rs ++ tail` is the record-level semantics.** -/
theorem ref_serAll (E : Cfg) (rs : List Rec) (hwf : ∀ r ∈ rs, r.WF) (tail : Bytes) (st : SState) :
    ref E st 0 0 (serAll rs ++ tail) = glue (refRun E rs) rs tail (ref E .skip 0 0 tail) := by
  induction rs generalizing st with
  | nil =>
    simp only [serAll_nil, List.nil_append, refRun, glue]
    rw [RefOut.pre_nil]
    exact ref_bdry_irrel E _ _ _
  | cons r rs ih =>
    have hr := hwf r List.mem_cons_self
    have ih' := ih (fun r' hr' => hwf r' (List.mem_cons_of_mem _ hr')) .skip
    have hh := hclass_rec E r hr
    rw [serAll_cons, List.append_assoc]
    simp only [refRun]
    cases hcl : rclass E r with
    | data =>
      rw [hcl] at hh
      simp only at hh ⊢
      rw [ref_record E st r hr _ hh, ih']
      simp only [stateC, stateO, List.append_nil]
      cases hst : (refRun E rs).stop <;> simp [glue, hst, Stop.succ, RefOut.pre]
    | noise =>
      rw [hcl] at hh
      simp only at hh ⊢
      rw [ref_record E st r hr _ hh, ih', stateC_noise, ← owed_noise]
      cases hst : (refRun E rs).stop <;> simp [glue, hst, Stop.succ, RefOut.pre]
    | endStream =>
      rw [hcl] at hh
      simp only at hh ⊢
      rw [ref_record_stop E st r _ hh]
      simp [glue, serAll_cons]
    | abort =>
      rw [hcl] at hh
      simp only at hh ⊢
      rw [ref_record_stop E st r _ hh]
      simp [glue, serAll_cons]

/-- On an unfinished tail `ref` is `refTail`. -/
theorem ref_tail (E : Cfg) (st : SState) {tail : Bytes} (ht : nextRec tail = none) :
    ref E st 0 0 tail = refTail E tail := by
  rcases (nextRec_none_iff tail).1 ht with hl | ⟨b0, b1, b2, b3, b4, b5, b6, b7, rest, rfl, hc⟩
  · rw [ref_short E st hl]
    unfold refTail
    split
    · simp only [List.length_cons] at hl; omega
    · rfl
  · rw [ref_hdr]
    simp only [refTail]
    cases hcl : hclass E b0 b1 b2 b3 b4 b5 with
    | stop v => rfl
    | pass st' o =>
      simp only
      have hv : ¬ b0.toNat ≠ 1 := fun h => by
        simp only [hclass, if_pos h] at hcl; cases hcl
      have htr : rest.length < be16 b4 b5 + b6.toNat := by
        rcases hc with hc | hc
        · exact absurd hc hv
        · exact hc
      by_cases hs : rest.length < be16 b4 b5
      · rw [if_pos hs, ref_pay_short E st' _ (by omega) hs]
        simp [RefOut.pre]
      · rw [if_neg hs]
        have hpad : 0 < b6.toNat := by omega
        have hps : ref E st' 0 b6.toNat (rest.drop (be16 b4 b5)) = ⟨[], [], .more, []⟩ :=
          ref_pad_short E st' hpad (by simp only [List.length_drop]; omega)
        by_cases hc0 : 0 < be16 b4 b5
        · rw [ref_pay_full E st' _ hc0 (by omega), hps]
          simp [RefOut.pre]
        · have hz : be16 b4 b5 = 0 := by omega
          rw [hz] at hps ⊢
          simp only [List.drop_zero] at hps
          rw [hps]
          simp [RefOut.pre, stateC_nil, stateO_nil]

/-- **`ref` is the record-level semantics**: decompose, run `refRun`, add `refTail`. -/
theorem ref_eq_refWire (E : Cfg) (st : SState) (w : Bytes) : ref E st 0 0 w = refWire E w := by
  obtain ⟨h1, h2, h3⟩ := decomp_spec w
  unfold refWire
  rw [← ref_tail E .skip h3, ← ref_serAll E _ h2 _ st, ← h1]

/-- `refWire` through ANY presentation of the bytes as records followed by an unfinished tail. -/
theorem refWire_of_presentation (E : Cfg) {rs : List Rec} {tail : Bytes} (hwf : ∀ r ∈ rs, r.WF)
    (ht : nextRec tail = none) :
    refWire E (serAll rs ++ tail) = glue (refRun E rs) rs tail (refTail E tail) := by
  unfold refWire
  rw [decomp_serAll rs hwf tail ht]

/-! ## Consistency with the specification of well-formed traffic (C02) -/

theorem rclass_noise {E : Cfg} {r : Rec} (h : StreamNoise E.id r) : rclass E r = .noise := by
  obtain ⟨-, hn⟩ := h
  unfold rclass
  rw [if_neg, if_neg]
  · rintro ⟨h1, h2⟩
    exact hn ⟨h2, Or.inr (Or.inr h1)⟩
  · rintro ⟨h1, h2⟩
    simp only [RT.isInputStream, Bool.or_eq_true, beq_iff_eq] at h1
    exact hn ⟨h2, by simp only [RT.stdin, RT.data]; omega⟩

/-- On the data records + noise of a well-formed stream, `refRun` yields the stream content and
exactly `owedStream`, and runs through. -/
theorem refRun_body {E : Cfg} (hs : E.s = 5 ∨ E.s = 8) {content : Bytes} {body : List Rec}
    (hb : Body E.id E.s content body) :
    refRun E body = ⟨content, owedStream E.id E.s E.mc body, .ranOut⟩ := by
  have hsn : (UInt8.ofNat E.s).toNat = E.s := toNat_ofNat_lt (by omega)
  induction hb with
  | nil => rfl
  | noise r hn t ih =>
    simp only [refRun, rclass_noise hn, ih, owedStream_cons, Stop.succ]
    rw [if_neg]
    intro hh
    simp only [Bool.and_eq_true, beq_iff_eq] at hh
    exact hn.2 ⟨hh.2, by simp only [RT.stdin, RT.data]; omega⟩
  | chunk c pad res hc hp t ih =>
    have hcl : rclass E { rtype := UInt8.ofNat E.s, id := E.id, content := c, pad := pad,
                          reserved := res } = .data := by
      have hne : c ≠ [] := fun h => by rw [h] at hc; simp at hc
      have hi : RT.isInputStream E.s = true := by rcases hs with h | h <;> rw [h] <;> rfl
      simp [rclass, hsn, hi, hne]
    simp only [refRun, hcl, ih, owedStream_cons, Stop.succ, hsn]
    simp


/-! ## Reading the reference: where it stops and with what -/

/-- `refWire` by the way the records end. -/
theorem refWire_cases (E : Cfg) (w : Bytes) :
    match (refRun E (decomp w).1).stop with
    | .ranOut => refWire E w =
        (refTail E (decomp w).2).pre (refRun E (decomp w).1).content (refRun E (decomp w).1).out
    | .endOfStream k => refWire E w =
        ⟨(refRun E (decomp w).1).content, (refRun E (decomp w).1).out, .eos,
          serAll ((decomp w).1.drop k) ++ (decomp w).2⟩
    | .abort k => refWire E w =
        ⟨(refRun E (decomp w).1).content, (refRun E (decomp w).1).out, .err .abortRequest,
          serAll ((decomp w).1.drop k) ++ (decomp w).2⟩ := by
  unfold refWire glue
  split <;> rfl

/-- The stop index of `refRun` is the first record classified `endStream` / `abort`; all records
before it are `data` or `noise`. -/
theorem refRun_stop_spec (E : Cfg) (rs : List Rec) :
    match (refRun E rs).stop with
    | .ranOut => ∀ r ∈ rs, rclass E r = .data ∨ rclass E r = .noise
    | .endOfStream k => (∃ r, rs[k]? = some r ∧ rclass E r = .endStream) ∧
        ∀ r ∈ rs.take k, rclass E r = .data ∨ rclass E r = .noise
    | .abort k => (∃ r, rs[k]? = some r ∧ rclass E r = .abort) ∧
        ∀ r ∈ rs.take k, rclass E r = .data ∨ rclass E r = .noise := by
  induction rs with
  | nil => simp [refRun]
  | cons r rs ih =>
    simp only [refRun]
    cases hcl : rclass E r with
    | data =>
      simp only
      cases hst : (refRun E rs).stop with
      | ranOut =>
        rw [hst] at ih
        simp only [Stop.succ, List.mem_cons]
        rintro r' (rfl | hr')
        · exact Or.inl hcl
        · exact ih r' hr'
      | endOfStream k =>
        rw [hst] at ih
        simp only [Stop.succ, List.getElem?_cons_succ, List.take_succ_cons, List.mem_cons]
        refine ⟨ih.1, ?_⟩
        rintro r' (rfl | hr')
        · exact Or.inl hcl
        · exact ih.2 r' hr'
      | abort k =>
        rw [hst] at ih
        simp only [Stop.succ, List.getElem?_cons_succ, List.take_succ_cons, List.mem_cons]
        refine ⟨ih.1, ?_⟩
        rintro r' (rfl | hr')
        · exact Or.inl hcl
        · exact ih.2 r' hr'
    | noise =>
      simp only
      cases hst : (refRun E rs).stop with
      | ranOut =>
        rw [hst] at ih
        simp only [Stop.succ, List.mem_cons]
        rintro r' (rfl | hr')
        · exact Or.inr hcl
        · exact ih r' hr'
      | endOfStream k =>
        rw [hst] at ih
        simp only [Stop.succ, List.getElem?_cons_succ, List.take_succ_cons, List.mem_cons]
        refine ⟨ih.1, ?_⟩
        rintro r' (rfl | hr')
        · exact Or.inr hcl
        · exact ih.2 r' hr'
      | abort k =>
        rw [hst] at ih
        simp only [Stop.succ, List.getElem?_cons_succ, List.take_succ_cons, List.mem_cons]
        refine ⟨ih.1, ?_⟩
        rintro r' (rfl | hr')
        · exact Or.inr hcl
        · exact ih.2 r' hr'
    | endStream => simp [hcl]
    | abort => simp [hcl]

/-- The tail is fatal only through its header: a version byte ≠ 1, or a version-1 `AbortRequest`
header carrying the request's id (a truncated `AbortRequest` record). -/
theorem refTail_err {E : Cfg} {tail : Bytes} {e : PErr} (h : (refTail E tail).verdict = .err e) :
    ∃ b0 b1 b2 b3 b4 b5 b6 b7 rest, tail = b0 :: b1 :: b2 :: b3 :: b4 :: b5 :: b6 :: b7 :: rest ∧
      ((b0.toNat ≠ 1 ∧ e = .unknownVersion b0) ∨
       (b0.toNat = 1 ∧ b1.toNat = RT.abortRequest ∧ be16 b2 b3 = E.id ∧ e = .abortRequest)) := by
  unfold refTail at h
  split at h
  · rename_i b0 b1 b2 b3 b4 b5 b6 b7 rest
    refine ⟨b0, b1, b2, b3, b4, b5, b6, b7, rest, rfl, ?_⟩
    split at h
    · rename_i v hc
      simp only at h
      subst h
      unfold hclass at hc
      repeat' (split at hc)
      all_goals first
        | (cases hc; done)
        | (cases hc; rename_i h0; exact Or.inl ⟨h0, rfl⟩)
        | (cases hc; rename_i h0 _ _ hab; exact Or.inr ⟨by omega, hab.1, hab.2, rfl⟩)
    · split at h <;> cases h
  · cases h


theorem refTail_stop_unread {E : Cfg} {tail : Bytes} (h : (refTail E tail).verdict ≠ .more) :
    (refTail E tail).unread = tail := by
  by_cases hl : tail.length < 8
  · exfalso
    apply h
    unfold refTail
    split
    · simp only [List.length_cons] at hl; omega
    · rfl
  · match tail, hl with
    | b0 :: b1 :: b2 :: b3 :: b4 :: b5 :: b6 :: b7 :: rest, _ =>
      simp only [refTail] at h ⊢
      cases hc : hclass E b0 b1 b2 b3 b4 b5 with
      | stop v => rfl
      | pass st o =>
        rw [hc] at h
        simp only at h
        split at h <;> exact absurd rfl h
    | [], h | [_], h | [_, _], h | [_, _, _], h | [_, _, _, _], h | [_, _, _, _, _], h
    | [_, _, _, _, _, _], h | [_, _, _, _, _, _, _], h => simp at h

/-- **A stopping verdict in terms of records and tail**: either `refRun` stops in front of record
`k` (`eos` for `endOfStream k`, `Err(AbortRequest)` for `abort k`) and the unread remainder starts
with that record; or no record stops the parser and the tail's header does. -/
theorem verdict_in_records (E : Cfg) (w : Bytes) (hne : (refWire E w).verdict ≠ .more) :
    (∃ k, (((refRun E (decomp w).1).stop = .endOfStream k ∧ (refWire E w).verdict = .eos) ∨
           ((refRun E (decomp w).1).stop = .abort k ∧ (refWire E w).verdict = .err .abortRequest)) ∧
        (refWire E w).unread = serAll ((decomp w).1.drop k) ++ (decomp w).2) ∨
    ((refRun E (decomp w).1).stop = .ranOut ∧
      (refTail E (decomp w).2).verdict = (refWire E w).verdict ∧
      (refWire E w).unread = (decomp w).2) := by
  have hc := refWire_cases E w
  cases hst : (refRun E (decomp w).1).stop with
  | ranOut =>
    rw [hst] at hc
    simp only at hc
    right
    rw [hc] at hne ⊢
    exact ⟨rfl, rfl, refTail_stop_unread hne⟩
  | endOfStream k =>
    rw [hst] at hc
    simp only at hc
    left
    rw [hc]
    exact ⟨k, Or.inl ⟨rfl, rfl⟩, rfl⟩
  | abort k =>
    rw [hst] at hc
    simp only at hc
    left
    rw [hc]
    exact ⟨k, Or.inr ⟨rfl, rfl⟩, rfl⟩

end Fcgi.Str
