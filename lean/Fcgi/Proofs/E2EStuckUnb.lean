import Fcgi.Proofs.E2EFatal
import Fcgi.Proofs.E2EStuckPair
/-!
# Executors of the C06 end-to-end family (parser stuck / fatal preamble) without the size hypotheses

Copies of `stuck_run`, `stuck_run_start` (`Proofs/E2EStuck`), `fatal_run`, `fatal_run_start` (`Proofs/E2EFatal`) with
`2·|input| + 6 ≤ 100000` dropped (`Halts.pollB`).  Proofs otherwise verbatim (text transformation).
-/
namespace Fcgi.C06E
open Fcgi Fcgi.Req Fcgi.Str Fcgi.Async Fcgi.Run Fcgi.Spec Fcgi.E2E

/-- `stuck_run` without the size hypothesis. -/
theorem stuck_run' {cap mc : Nat} {Wk W L0 O : Bytes} (K : SCtx cap mc Wk W O) :
    ∀ (A : Nat) (c : Conn) (n fuel : Nat),
      SSt cap mc Wk W L0 O c → c.env.segs = [] → ans c.env.tr ≤ A → A + 1 ≤ fuel →
      ∃ c', runTask fuel c n none = (c', "RET") ∧
        FFin L0 O (hsCount c.env.tr.events) c' ∧ c'.scripts = c.scripts := by
  intro A
  induction A with
  | zero =>
    intro c n fuel hst hsegs hA hf
    obtain ⟨f, rfl⟩ : ∃ f, fuel = f + 1 := ⟨fuel - 1, by omega⟩
    obtain ⟨hsame, hph, hsc, hstop, hmx, hsg, hwk⟩ := prePoll_same c n hsegs
    have hst0 := hst.cong hph hstop hsame
    obtain ⟨c', r, hh, hfr, ho⟩ := stuck_poll K hst0
    have hpoll := hh.pollB (by omega)
    have hans0 : ans (prePoll c n none).env.tr = ans c.env.tr := by unfold ans; rw [hsame.rd, hsame.wr]
    rw [runTask_succ, hpoll]
    rcases ho with ⟨rfl, _, _, ha⟩ | ⟨rfl, h1, h2⟩
    · omega
    · exact ⟨c', rfl, ⟨h1, h2, hfr.ts.hs.trans hsame.hs, hfr.stop.trans (hstop.trans hst.stop)⟩,
        hfr.scripts.trans hsc⟩
  | succ A ih =>
    intro c n fuel hst hsegs hA hf
    obtain ⟨f, rfl⟩ : ∃ f, fuel = f + 1 := ⟨fuel - 1, by omega⟩
    obtain ⟨hsame, hph, hsc, hstop, hmx, hsg, hwk⟩ := prePoll_same c n hsegs
    have hst0 := hst.cong hph hstop hsame
    obtain ⟨c', r, hh, hfr, ho⟩ := stuck_poll K hst0
    have hpoll := hh.pollB (by omega)
    have hans0 : ans (prePoll c n none).env.tr = ans c.env.tr := by unfold ans; rw [hsame.rd, hsame.wr]
    rw [runTask_succ, hpoll]
    rcases ho with ⟨rfl, hst', hw, ha⟩ | ⟨rfl, h1, h2⟩
    · simp only [hw, if_true]
      obtain ⟨c2, h1, h2, h3⟩ := ih c' (n + 1) f hst' (hfr.segs.trans hsg) (by omega) (by omega)
      refine ⟨c2, h1, ?_, h3.trans (hfr.scripts.trans hsc)⟩
      have he : hsCount c'.env.tr.events = hsCount c.env.tr.events := hfr.ts.hs.trans hsame.hs
      rw [← he]; exact h2
    · exact ⟨c', rfl, ⟨h1, h2, hfr.ts.hs.trans hsame.hs, hfr.stop.trans (hstop.trans hst.stop)⟩,
        hfr.scripts.trans hsc⟩

/-- `stuck_run_start` without the size hypothesis. -/
theorem stuck_run_start' {cap mc : Nat} {Wk W O : Bytes} (K : SCtx cap mc Wk W O) {c : Conn} {n fuel : Nat}
    (hph : c.phase = .parseReq ⟨cap, [], .header, mc⟩ .start) (hstop : c.stop = false)
    (hinp : c.env.tr.input = W) (hb : Ben c.env.tr)
    (hsegs : c.env.segs = []) (hf : ans c.env.tr + 1 ≤ fuel) :
    ∃ c', runTask fuel c n none = (c', "RET") ∧
      FFin c.env.tr.wlog O (hsCount c.env.tr.events) c' ∧ c'.scripts = c.scripts := by
  obtain ⟨f, rfl⟩ : ∃ f, fuel = f + 1 := ⟨fuel - 1, by omega⟩
  obtain ⟨hsame, hph0, hsc, hstop0, hmx, hsg, hwk⟩ := prePoll_same c n hsegs
  rw [runTask_succ]
  generalize prePoll c n none = c0 at *
  have hstop1 : c0.stop = false := hstop0.trans hstop
  have hrun0 : (run .header [] mc).rem.length = 0 := by
    have := (run_ok [] mc (st := .header) trivial).2.2.length_le
    simp only [List.length_nil] at this; omega
  have hns0 : NonStuck cap mc [] := Or.inr (by have := K.cap24; omega)
  have hstart := start_track K.cap24 (raw := []) (Nat.zero_le _) hns0
  have hstep := step_start c0 _ (hph0.trans hph) hstop1
  rw [hstart] at hstep
  have hstep' : stepConn c0 = .next (mkC c0 (.parseReq (track cap mc [])
      (.writing (run .header [] mc).out (run .header [] mc).st.isFinal)) c0.env.tr) := hstep
  have hst : PSt cap mc W c.env.tr.wlog [] (mkC c0 (.parseReq (track cap mc [])
      (.writing (run .header [] mc).out (run .header [] mc).st.isFinal)) c0.env.tr) [] :=
    ⟨by show [] ++ c0.env.tr.input ++ [] = W
        rw [hsame.input, hinp, List.nil_append, List.append_nil],
      hstop1, hsame.ben hb, by omega, Or.inr ⟨_, rfl, by show c0.env.tr.wlog ++ _ = _; rw [hsame.wlog], [], rfl⟩⟩
  obtain ⟨c', r, hh, hfr, ho⟩ := stuck_poll (L0 := c.env.tr.wlog) K (Or.inl ⟨[], hst, hns0, List.nil_prefix⟩)
  have hh' := Halts.of_steps (Steps.one hstep') hh
  have hpoll := hh'.pollB (by
    show 1 + (2 * c0.env.tr.input.length + 5) ≤ _
    omega)
  have hans0 : ans c0.env.tr = ans c.env.tr := by unfold ans; rw [hsame.rd, hsame.wr]
  have hts : TStep c0.env.tr c'.env.tr := hfr.ts
  have hhs : hsCount c'.env.tr.events = hsCount c.env.tr.events := hts.hs.trans hsame.hs
  have hsc' : c'.scripts = c.scripts := hfr.scripts.trans hsc
  rw [hpoll]
  rcases ho with ⟨rfl, hst', hw, ha⟩ | ⟨rfl, h1, h2⟩
  · simp only [hw, if_true]
    have ha' : ans c'.env.tr < ans c0.env.tr := ha
    obtain ⟨c2, h1, h2, h3⟩ := stuck_run' K (ans c'.env.tr) c' (n + 1) f hst'
      (hfr.segs.trans hsg) (Nat.le_refl _) (by omega)
    refine ⟨c2, h1, ?_, h3.trans hsc'⟩
    rw [← hhs]; exact h2
  · exact ⟨c', rfl, ⟨h1, h2, hhs, hfr.stop.trans hstop1⟩, hsc'⟩

/-- `fatal_run` without the size hypothesis. -/
theorem fatal_run' {cap mc : Nat} {W L0 : Bytes} {e : PErr} (K : FCtx cap mc W e) :
    ∀ (A : Nat) (c : Conn) (F : Bytes) (n fuel : Nat),
      PSt cap mc W L0 [] c F → c.env.segs = [] → ans c.env.tr ≤ A → A + 1 ≤ fuel →
      ∃ c', runTask fuel c n none = (c', "RET") ∧
        FFin L0 (run .header W mc).out (hsCount c.env.tr.events) c' ∧ c'.scripts = c.scripts := by
  intro A
  induction A with
  | zero =>
    intro c F n fuel hst hsegs hA hf
    obtain ⟨f, rfl⟩ : ∃ f, fuel = f + 1 := ⟨fuel - 1, by omega⟩
    obtain ⟨hsame, hph, hsc, hstop, hmx, hsg, hwk⟩ := prePoll_same c n hsegs
    have hst0 := hst.cong hph hstop hsame
    obtain ⟨c', r, hh, hfr, ho⟩ := fatal_poll K hst0
    have hpoll := hh.pollB (by omega)
    have hans0 : ans (prePoll c n none).env.tr = ans c.env.tr := by unfold ans; rw [hsame.rd, hsame.wr]
    rw [runTask_succ, hpoll]
    rcases ho with ⟨rfl, _, _, ha⟩ | ⟨rfl, h1, h2⟩
    · omega
    · exact ⟨c', rfl, ⟨h1, h2, hfr.ts.hs.trans hsame.hs, hfr.stop.trans (hstop.trans hst.stop)⟩,
        hfr.scripts.trans hsc⟩
  | succ A ih =>
    intro c F n fuel hst hsegs hA hf
    obtain ⟨f, rfl⟩ : ∃ f, fuel = f + 1 := ⟨fuel - 1, by omega⟩
    obtain ⟨hsame, hph, hsc, hstop, hmx, hsg, hwk⟩ := prePoll_same c n hsegs
    have hst0 := hst.cong hph hstop hsame
    obtain ⟨c', r, hh, hfr, ho⟩ := fatal_poll K hst0
    have hpoll := hh.pollB (by omega)
    have hans0 : ans (prePoll c n none).env.tr = ans c.env.tr := by unfold ans; rw [hsame.rd, hsame.wr]
    rw [runTask_succ, hpoll]
    rcases ho with ⟨rfl, ⟨F', hst'⟩, hw, ha⟩ | ⟨rfl, h1, h2⟩
    · simp only [hw, if_true]
      obtain ⟨c2, h1, h2, h3⟩ := ih c' F' (n + 1) f hst' (hfr.segs.trans hsg) (by omega) (by omega)
      refine ⟨c2, h1, ?_, h3.trans (hfr.scripts.trans hsc)⟩
      have he : hsCount c'.env.tr.events = hsCount c.env.tr.events := hfr.ts.hs.trans hsame.hs
      rw [← he]; exact h2
    · exact ⟨c', rfl, ⟨h1, h2, hfr.ts.hs.trans hsame.hs, hfr.stop.trans (hstop.trans hst.stop)⟩,
        hfr.scripts.trans hsc⟩

/-- `fatal_run_start` without the size hypothesis. -/
theorem fatal_run_start' {cap mc : Nat} {W : Bytes} {e : PErr} (K : FCtx cap mc W e) {c : Conn} {n fuel : Nat}
    (hph : c.phase = .parseReq ⟨cap, [], .header, mc⟩ .start) (hstop : c.stop = false)
    (hinp : c.env.tr.input = W) (hb : Ben c.env.tr)
    (hsegs : c.env.segs = []) (hf : ans c.env.tr + 1 ≤ fuel) :
    ∃ c', runTask fuel c n none = (c', "RET") ∧
      FFin c.env.tr.wlog (run .header W mc).out (hsCount c.env.tr.events) c' ∧ c'.scripts = c.scripts := by
  obtain ⟨f, rfl⟩ : ∃ f, fuel = f + 1 := ⟨fuel - 1, by omega⟩
  obtain ⟨hsame, hph0, hsc, hstop0, hmx, hsg, hwk⟩ := prePoll_same c n hsegs
  rw [runTask_succ]
  generalize prePoll c n none = c0 at *
  have hstop1 : c0.stop = false := hstop0.trans hstop
  have hns0 := K.ns [] (List.nil_prefix)
  have hstart := start_track K.cap24 (raw := []) (Nat.zero_le _) hns0
  have hstep := step_start c0 _ (hph0.trans hph) hstop1
  rw [hstart] at hstep
  have hstep' : stepConn c0 = .next (mkC c0 (.parseReq (track cap mc [])
      (.writing (run .header [] mc).out (run .header [] mc).st.isFinal)) c0.env.tr) := hstep
  have hremle : (run .header [] mc).rem.length ≤ cap := by
    have := (run_ok [] mc (st := .header) trivial).2.2.length_le
    simp only [List.length_nil] at this; omega
  have hst : PSt cap mc W c.env.tr.wlog [] (mkC c0 (.parseReq (track cap mc [])
      (.writing (run .header [] mc).out (run .header [] mc).st.isFinal)) c0.env.tr) [] :=
    ⟨by show [] ++ c0.env.tr.input ++ [] = W
        rw [hsame.input, hinp, List.nil_append, List.append_nil],
      hstop1, hsame.ben hb, hremle, Or.inr ⟨_, rfl, by show c0.env.tr.wlog ++ _ = _; rw [hsame.wlog], [], rfl⟩⟩
  obtain ⟨c', r, hh, hfr, ho⟩ := fatal_poll K hst
  have hh' := Halts.of_steps (Steps.one hstep') hh
  have hpoll := hh'.pollB (by
    show 1 + (2 * c0.env.tr.input.length + 4) ≤ _
    omega)
  have hans0 : ans c0.env.tr = ans c.env.tr := by unfold ans; rw [hsame.rd, hsame.wr]
  have hts : TStep c0.env.tr c'.env.tr := hfr.ts
  have hhs : hsCount c'.env.tr.events = hsCount c.env.tr.events := hts.hs.trans hsame.hs
  have hsc' : c'.scripts = c.scripts := hfr.scripts.trans hsc
  rw [hpoll]
  rcases ho with ⟨rfl, ⟨F', hst'⟩, hw, ha⟩ | ⟨rfl, h1, h2⟩
  · simp only [hw, if_true]
    have ha' : ans c'.env.tr < ans c0.env.tr := ha
    obtain ⟨c2, h1, h2, h3⟩ := fatal_run' K (ans c'.env.tr) c' F' (n + 1) f hst'
      (hfr.segs.trans hsg) (Nat.le_refl _) (by omega)
    refine ⟨c2, h1, ?_, h3.trans hsc'⟩
    rw [← hhs]; exact h2
  · exact ⟨c', rfl, ⟨h1, h2, hhs, hfr.stop.trans hstop1⟩, hsc'⟩

end Fcgi.C06E
