import Fcgi.Props.C12
/-!
# Byte pools: how many bytes the parsers and the `Request` still hold (for the fuel bounds)

`Props/C12Fuel.lean` bounds the recursion depth of `pollConn` / `handlerPoll` by bytes: every
iteration that the fuel pays for takes at least one byte out of a pool that nothing refills within a
poll.  This file has the pool inequalities, for ALL calls (legal or not, whatever the result):

* `loop_pool`, `parse_pool` — stream parser: unconsumed input + stream bytes reported never exceed
  what was there before plus the new input;
* `pollOutput_frame`, `inLoop_pool`, `pollInput_pool`, `writeablePoll_pool` — `Request`: the pool
  `transport input + raw + stream buffer`, plus the bytes delivered into `dest`, does not grow.
-/
namespace Fcgi.Run
open Fcgi Fcgi.Req Fcgi.Str Fcgi.Async

/-! ## Stream parser -/

/-- the bytes a stream parser holds (unconsumed input + stream buffer) plus those it has written into
`dest` during the current call -/
def IterPool (p : Str.Parser) (res : Status) : Iter → Prop
  | .cont p' _ r' => p'.raw.length + p'.parsed.length + r'.delivered.length ≤
      p.raw.length + p.parsed.length + res.delivered.length
  | .stop p' r' => p'.raw.length + p'.parsed.length + r'.delivered.length ≤
      p.raw.length + p.parsed.length + res.delivered.length
  | .err p' _ => p'.raw.length + p'.parsed.length ≤ p.raw.length + p.parsed.length + res.delivered.length
  | .panic _ => True

theorem parsePayload_pool (p : Str.Parser) (dest : Option Nat) (res : Status) :
    IterPool p res (parsePayload p dest res) := by
  unfold parsePayload
  cases hst : p.state with
  | stream =>
    cases dest with
    | some c =>
      simp only []
      split
      · trivial
      · split <;>
          (simp only [IterPool, List.length_drop, List.length_append, List.length_take]; omega)
    | none =>
      simp only []
      split
      · trivial
      · split <;>
          (simp only [IterPool, List.length_drop, List.length_append, List.length_take]; omega)
  | skip =>
    simp only []
    split
    · trivial
    · split <;> (simp only [IterPool, List.length_drop]; omega)
  | values v =>
    simp only []
    split
    · split
      · trivial
      · split <;> (simp only [IterPool, List.length_drop]; omega)
    · split
      · trivial
      · split <;> (simp only [IterPool, List.length_drop]; omega)

theorem parseHead_pool (p : Str.Parser) (dest : Option Nat) (res : Status) :
    IterPool p res (parseHead p dest res) := by
  simp only [parseHead]
  split
  · rename_i b0 b1 b2 b3 b4 b5 b6 b7 rest hraw
    have hl : p.raw.length = rest.length + 8 := by rw [hraw]; simp
    repeat' split
    all_goals first
      | trivial
      | (dsimp only [IterPool]; omega)
  · dsimp only [IterPool]; omega

theorem IterPool.trans {p q : Str.Parser} {res r : Status} {it : Iter}
    (h1 : q.raw.length + q.parsed.length + r.delivered.length ≤
      p.raw.length + p.parsed.length + res.delivered.length)
    (h2 : IterPool q r it) : IterPool p res it := by
  cases it with
  | cont p' d' r' => simp only [IterPool] at h2 ⊢; omega
  | stop p' r' => simp only [IterPool] at h2 ⊢; omega
  | err p' e => simp only [IterPool] at h2 ⊢; omega
  | panic s => trivial

theorem padHead_pool (q : Str.Parser) (d : Option Nat) (r : Status) :
    IterPool q r
      (if q.pad > 0 then
        if q.raw.length ≤ q.pad then
          .stop { q with raw := [], g1 := q.g1 + q.raw.length, pad := q.pad - q.raw.length } r
        else parseHead { q with raw := q.raw.drop q.pad, g1 := q.g1 + q.pad, pad := 0 } d r
      else parseHead q d r) := by
  split
  · split
    · dsimp only [IterPool]; simp
    · refine IterPool.trans ?_ (parseHead_pool _ d r)
      dsimp only
      simp only [List.length_drop]; omega
  · exact parseHead_pool q d r

theorem iter_pool (p : Str.Parser) (dest : Option Nat) (res : Status) :
    IterPool p res (iter p dest res) := by
  unfold iter
  by_cases hpay : p.pay > 0
  · simp only [hpay, if_true]
    have hp := parsePayload_pool p dest res
    cases hpp : parsePayload p dest res with
    | cont q d r =>
      rw [hpp] at hp
      exact IterPool.trans hp (padHead_pool q d r)
    | stop q r => rw [hpp] at hp; exact hp
    | err q e => rw [hpp] at hp; exact hp
    | panic s => trivial
  · simp only [hpay, if_false]
    exact padHead_pool p dest res

/-- what the loop returns -/
def LoopPool (p : Str.Parser) (res : Status) : Str.Parser × ParseRes → Prop
  | (p', .ok st) => p'.raw.length + p'.parsed.length + st.delivered.length ≤
      p.raw.length + p.parsed.length + res.delivered.length
  | (p', _) => p'.raw.length + p'.parsed.length ≤ p.raw.length + p.parsed.length + res.delivered.length

theorem loop_pool (p : Str.Parser) (dest : Option Nat) (res : Status) :
    LoopPool p res (loop p dest res) := by
  generalize hn : p.raw.length = n
  induction n using Nat.strongRecOn generalizing p dest res with
  | _ n ih =>
    rw [loop]
    split
    · simp only [LoopPool]; omega
    · have hi := iter_pool p dest res
      have hg := iter_good p dest res
      cases hit : iter p dest res with
      | cont p' d' r' =>
        rw [hit] at hi hg
        obtain ⟨_, h2, _⟩ := hg
        simp only [if_pos h2]
        have := ih _ (by omega) p' d' r' rfl
        simp only [IterPool] at hi
        revert this
        generalize loop p' d' r' = out
        obtain ⟨p2, pr⟩ := out
        cases pr <;> (simp only [LoopPool]; omega)
      | stop p' r' => rw [hit] at hi; exact hi
      | err p' e => rw [hit] at hi; exact hi
      | panic s => simp only [LoopPool]; omega

/-- **`Parser::parse`, any call**: what the parser holds afterwards (unconsumed input + stream
buffer) plus what it wrote into `dest` is at most what it held before plus the new input. -/
theorem parse_pool (p : Str.Parser) (new : Bytes) (dest : Option Nat) :
    (p.parse new dest).1.raw.length + (p.parse new dest).1.parsed.length +
        (match (p.parse new dest).2 with | .ok st => st.delivered.length | _ => 0) ≤
      p.raw.length + p.parsed.length + new.length := by
  unfold Str.Parser.parse
  split
  · simp
  · split
    · simp
    · have := loop_pool { p with raw := p.raw ++ new } dest
        { stream := 0, streamEnd := p.stream.isNone, output := 0, delivered := [] }
      revert this
      generalize loop { p with raw := p.raw ++ new } dest
        { stream := 0, streamEnd := p.stream.isNone, output := 0, delivered := [] } = out
      obtain ⟨p2, pr⟩ := out
      cases pr <;> (simp only [LoopPool, List.length_append, List.length_nil]; omega)

/-- a successful parse into `dest` reports exactly the bytes it wrote -/
theorem parse_some_delivered {p p' : Str.Parser} {new : Bytes} {n : Nat} {st : Status}
    (h : p.parse new (some n) = (p', .ok st)) : st.delivered.length = st.stream := by
  unfold Str.Parser.parse at h
  split at h
  · cases h
  · split at h
    · cases h
    · have hg := loop_good { p with raw := p.raw ++ new } (some n)
        { stream := 0, streamEnd := p.stream.isNone, output := 0, delivered := [] }
      rw [h] at hg
      obtain ⟨⟨d', hr⟩, -⟩ := hg
      have h1 := hr.cnt
      have h2 : p'.parsed = p.parsed := hr.dpar rfl
      simp only [List.length_nil] at h1
      rw [h2] at h1
      have h3 : ({ p with raw := p.raw ++ new } : Str.Parser).parsed = p.parsed := rfl
      rw [h3] at h1
      omega

/-! ## Transport and `Request` -/

/-- bytes a `read` answer carries -/
def rdLen : Poll (Except IoErr Bytes) → Nat
  | .ready (.ok bs) => bs.length
  | _ => 0

theorem read_pool' (t : Transport) (cap : Nat) :
    (t.read cap).1.input.length + rdLen (t.read cap).2 ≤ t.input.length := by
  unfold Transport.read
  repeat' split
  all_goals (try simp [Transport.ev, rdLen])
  all_goals (repeat' split)
  all_goals (try simp_all [Transport.ev, rdLen])
  all_goals (try (subst_vars; simp [List.length_take]))
  all_goals (try omega)

theorem read_pool {t t' : Transport} {cap : Nat} {x : Poll (Except IoErr Bytes)}
    (h : t.read cap = (t', x)) : t'.input.length + rdLen x ≤ t.input.length := by
  have := read_pool' t cap
  rwa [h] at this

/-- bytes delivered by a `poll_input` result -/
def _root_.Fcgi.Async.IRes.got : IRes → Nat
  | .ready _ d => d.length
  | _ => 0

/-- the byte pool of a `Request` and its transport: input still to be read, unconsumed input in the
parser's buffer, parsed stream bytes not yet taken by the handler -/
def pool (r : AReq) (t : Transport) : Nat := t.input.length + r.sp.raw.length + r.sp.parsed.length

theorem compress_pool (p : Str.Parser) : p.compress.raw = p.raw ∧ p.compress.parsed = p.parsed := ⟨rfl, rfl⟩

theorem inLoop_pool : ∀ (fuel : Nat) (r : AReq) (new : Bytes) (dest : Option Nat) (m : MutexSt) (t : Transport)
    {r' : AReq} {m' : MutexSt} {t' : Transport} {res : IRes},
    inLoop fuel r new dest m t = (r', m', t', res) →
    pool r' t' + res.got ≤ pool r t + new.length ∧
      (∀ n k d, dest = some n → res = .ready k d → d.length = k) := by
  intro fuel
  induction fuel with
  | zero =>
    intro r new dest m t r' m' t' res h
    simp only [inLoop] at h
    cases h
    exact ⟨by simp [IRes.got], fun n k d _ hr => by cases hr⟩
  | succ f ih =>
    intro r new dest m t r' m' t' res h
    simp only [inLoop] at h
    have hpp := parse_pool r.sp new dest
    split at h
    · rename_i sp s hp
      rw [hp] at hpp
      cases h
      simp only [pool, IRes.got] at hpp ⊢
      exact ⟨by omega, fun n k d _ hr => by cases hr⟩
    · rename_i sp e hp
      rw [hp] at hpp
      cases h
      simp only [pool, IRes.got] at hpp ⊢
      exact ⟨by omega, fun n k d _ hr => by cases hr⟩
    · rename_i sp st hp
      rw [hp] at hpp
      simp only at hpp
      split at h
      · cases h
        refine ⟨?_, fun n k d hd hr => ?_⟩
        · simp only [pool, IRes.got]
          split <;> (simp only; omega)
        · cases hr
          subst hd
          exact parse_some_delivered hp
      · split at h
        all_goals
          rename_i hpo
          obtain ⟨-, hsp, -, hin, -, -⟩ := pollOutput_spec hpo
          have e1 : ∀ {x : AReq}, x.sp = { sp.compress with output := x.sp.output } →
              x.sp.raw = sp.raw ∧ x.sp.parsed = sp.parsed := by
            intro x hx; rw [hx]; exact ⟨rfl, rfl⟩
        · cases h
          obtain ⟨a, b⟩ := e1 hsp
          simp only [pool, IRes.got, a, b, hin]
          exact ⟨by omega, fun n k d _ hr => by cases hr⟩
        · cases h
          obtain ⟨a, b⟩ := e1 hsp
          simp only [pool, IRes.got, a, b, hin]
          exact ⟨by omega, fun n k d _ hr => by cases hr⟩
        · cases h
          obtain ⟨a, b⟩ := e1 hsp
          simp only [pool, IRes.got, a, b, hin]
          exact ⟨by omega, fun n k d _ hr => by cases hr⟩
        · obtain ⟨a, b⟩ := e1 hsp
          have hinl := congrArg List.length hin
          split at h
          all_goals
            rename_i hrd
            have hrp := read_pool hrd
            simp only [rdLen] at hrp
          · cases h
            simp only [pool, IRes.got, a, b]
            exact ⟨by omega, fun n k d _ hr => by cases hr⟩
          · cases h
            simp only [pool, IRes.got, a, b]
            exact ⟨by omega, fun n k d _ hr => by cases hr⟩
          · cases h
            simp only [pool, IRes.got, a, b]
            exact ⟨by omega, fun n k d _ hr => by cases hr⟩
          · obtain ⟨i1, i2⟩ := ih _ _ _ _ _ h
            refine ⟨?_, i2⟩
            simp only [pool, a, b] at i1 ⊢
            omega


theorem pollOutput_pool {r : AReq} {m : MutexSt} {t : Transport} {r' : AReq} {m' : MutexSt}
    {t' : Transport} {res : ORes} (h : r.pollOutput m t = (r', m', t', res)) : pool r' t' = pool r t := by
  obtain ⟨-, hsp, -, hin, -, -⟩ := pollOutput_spec h
  have : r'.sp.raw = r.sp.raw ∧ r'.sp.parsed = r.sp.parsed := by rw [hsp]; exact ⟨rfl, rfl⟩
  simp only [pool, this.1, this.2, hin]

/-- **`poll_input`, any call**: the pool shrinks by at least what was delivered; and a result
`Ready(k)` for a `dest` buffer carries exactly `k` bytes. -/
theorem pollInput_pool {r : AReq} {dest : Option Nat} {m : MutexSt} {t : Transport}
    {r' : AReq} {m' : MutexSt} {t' : Transport} {res : IRes}
    (h : r.pollInput dest m t = (r', m', t', res)) :
    pool r' t' + res.got ≤ pool r t ∧
      (∀ n k d, dest = some n → res = .ready k d → d.length = k) := by
  simp only [AReq.pollInput] at h
  split at h
  · cases h; exact ⟨by simp [IRes.got], fun n k d _ hr => by cases hr; rfl⟩
  · cases h; exact ⟨by simp [IRes.got], fun n k d hd _ => by cases hd⟩
  · rename_i n hd tl hbuf
    cases h
    refine ⟨?_, fun n' k d _ hr => ?_⟩
    · simp only [pool, IRes.got, Str.Parser.consumeStream, List.length_drop, List.length_take]
      omega
    · cases hr
      simp only [List.length_take]; omega
  · split at h
    all_goals
      rename_i hpo
      have hp := pollOutput_pool hpo
    · cases h; exact ⟨by simp only [IRes.got]; omega, fun n k d _ hr => by cases hr⟩
    · cases h; exact ⟨by simp only [IRes.got]; omega, fun n k d _ hr => by cases hr⟩
    · cases h; exact ⟨by simp only [IRes.got]; omega, fun n k d _ hr => by cases hr⟩
    · obtain ⟨i1, i2⟩ := inLoop_pool _ _ _ _ _ _ h
      simp only [List.length_nil] at i1
      exact ⟨by omega, i2⟩

theorem setStream_pool {p p' : Str.Parser} {st : Option Nat} (h : p.setStream st = .ok p') :
    p'.raw = p.raw ∧ p'.parsed.length ≤ p.parsed.length := by
  rcases setStream_ok_cases h with ⟨-, rfl⟩ | ⟨-, rfl, -⟩
  · exact ⟨rfl, Nat.le_refl _⟩
  · exact ⟨rfl, by simp [Str.Parser.switchTo, Str.Parser.discardStream]⟩

/-- `writeable()`: the pool does not grow. -/
theorem writeablePoll_pool {r : AReq} {started : Bool} {m : MutexSt} {t : Transport}
    {r' : AReq} {b : Bool} {m' : MutexSt} {t' : Transport} {res : ORes}
    (h : r.writeablePoll started m t = (r', b, m', t', res)) : pool r' t' ≤ pool r t := by
  simp only [AReq.writeablePoll] at h
  split at h
  · cases h; exact Nat.le_refl _
  · split at h
    · cases h; exact Nat.le_refl _
    · rename_i r0 heq
      have hr : pool r0 t ≤ pool r t := by
        split at heq
        · cases heq; exact Nat.le_refl _
        · split at heq
          · cases heq
            obtain ⟨a, b⟩ := setStream_pool ‹_›
            simp only [pool, a]; omega
          · cases heq
      split at h
      all_goals
        obtain ⟨h1, -⟩ := pollInput_pool ‹_›
        cases h
        omega

end Fcgi.Run
