import Fcgi.Proofs.ChainFilter
/-!
# C05 (4) at the sync level — a whole Filter turn

`refWire_stream_any`: the reference of a well-formed stream followed by ANY bytes.
`r2f_of_ledger`: `E2E.R2f` from any ledger of the `⟨id,3,8⟩` reference (generalises `r2f_start`).
`filter_turn_ledger`: a Filter's parser from `from_parser` on — any reads of `Stdin` (`A`),
`set_stream(Some(Data))` at ANY point (mid-record, before the end of `Stdin`, …), any reads of
`Data` (`B`), `set_stream(None)`, any legal skip (`N`) to the record boundary: the replies generated
are exactly those owed for the Stdin records (read or passed over), the Stdin terminator, and the
Data records consumed.  Source of the ledger: `C03SS.two_phase_ledger`.
-/
namespace Fcgi.C05C
open Fcgi Fcgi.Req Fcgi.Str Fcgi.Spec Fcgi.C03SI
open Fcgi.E2E (Pos R2f R2fCtx E8 E1 view1 StdinRec DataRec owedI serAll_app body_wf)

theorem stop_add_end : ∀ n, E2E.Stop.add n (Stop.endOfStream 0) = Stop.endOfStream n
  | 0 => rfl
  | n + 1 => by simp only [E2E.Stop.add, stop_add_end n, Stop.succ]

/-- **The reference on a well-formed stream followed by anything**: it stops in front of the record
that ends the stream, whatever bytes follow. -/
theorem refWire_stream_any (E : Str.Cfg) (hs : E.s = 5 ∨ E.s = 8) (hid : E.id < 65536) {content : Bytes}
    {body : List Rec} (hb : Body E.id E.s content body) (e : Rec) (he : e.WF)
    (hcls : rclass E e = .endStream) (w : Bytes) :
    refWire E (serAll (body ++ [e]) ++ w) = ⟨content, owedStream E.id E.s E.mc body, .eos, e.ser ++ w⟩ := by
  obtain ⟨hw, hwf, ht⟩ := decomp_spec w
  have hpres : serAll (body ++ [e]) ++ w = serAll (body ++ e :: (decomp w).1) ++ (decomp w).2 := by
    conv => lhs; rw [hw]
    simp [serAll, List.append_assoc]
  have hall : ∀ r ∈ body ++ e :: (decomp w).1, r.WF := by
    intro r hr
    rcases List.mem_append.1 hr with h | h
    · exact body_wf hid hb r h
    · rcases List.mem_cons.1 h with rfl | h
      · exact he
      · exact hwf r h
  rw [hpres, refWire_of_presentation E hall ht, E2E.refRun_body_app hs hb]
  have hr : refRun E (e :: (decomp w).1) = ⟨[], [], .endOfStream 0⟩ := by simp only [refRun, hcls]
  rw [hr]
  simp only [stop_add_end, glue, List.append_nil]
  congr 1
  rw [List.drop_left' rfl, serAll_cons, List.append_assoc, ← hw]

/-- `E2E.R2f` from a ledger of the `⟨id,3,8⟩` reference on the Data bytes -/
theorem r2f_of_ledger {id mc cap : Nat} {Rd : List Rec} (hc : R2fCtx id mc cap Rd) {pB : Str.Parser}
    (hmt : Match (E8 id mc) pB) (hsinv : SInv pB) (hcap : pB.cap = cap) {P dO Gd fut : Bytes}
    (hw : Gd ++ fut = serAll Rd) (hpos : Pos Rd pB.raw pB.pay pB.pad fut)
    (hled : ∀ x, Gd ++ x <+: serAll Rd →
      dO ++ (Rem (E8 id mc) pB x).out = P ++ (refWire (E8 id mc) (Gd ++ x)).out ∧
      (Rem (E8 id mc) pB x).verdict = (refWire (E8 id mc) (Gd ++ x)).verdict ∧
      (Rem (E8 id mc) pB x).unread = (refWire (E8 id mc) (Gd ++ x)).unread) :
    R2f id mc cap Rd P (pB.switchTo none) Gd fut dO := by
  have hR := E2E.data_recsOK1 hc.recs
  have hcapB : pB.cap = cap := hcap
  refine ⟨⟨rfl, hmt.id, hpos⟩, ⟨hmt.id, rfl, rfl, hmt.mc, (by show 5 ∈ inputStreams 1; decide)⟩, ?_, hcapB, rfl,
    hw, ?_⟩
  · obtain ⟨h1, h2, h3, h4, _, h6⟩ := hsinv
    refine ⟨?_, h2, h3, ?_, Or.inr ⟨5, rfl, (by show 5 ∈ inputStreams 1; decide)⟩, h6⟩
    · simp only [Str.Parser.freeStart, view1, Str.Parser.switchTo, Str.Parser.discardStream, List.length_nil] at h1 ⊢
      omega
    · show match (if pB.state == .stream then SState.skip else pB.state) with
        | .values v => v < 8 | _ => True
      cases hst : pB.state with
      | values v => rw [hst] at h4; exact h4
      | stream => trivial
      | skip => trivial
  · intro x hx
    have hxf : x <+: fut := by
      rw [← hw] at hx
      exact (List.prefix_append_right_inj Gd).1 hx
    have hclean0 : E2E.CleanW1 id 0 0 (Gd ++ x) := E2E.clean_recs1 id Rd hR _ hx
    have hclean1 : E2E.CleanW1 id pB.pay pB.pad (pB.raw ++ x) :=
      E2E.clean_pos1 hR hpos ((List.prefix_append_right_inj _).2 hxf)
    -- the ledger of the Data phase, for this `x`
    obtain ⟨c2, c3, c4⟩ := hled x hx
    have hA0 := E2E.ref_81 id mc hclean0 .skip
    have hA := E2E.ref_81 id mc hclean1 pB.state
    rw [ref_eq_refWire, show E2E.sw .skip = .skip from rfl, ref_eq_refWire] at hA0
    have hst : (view1 (pB.switchTo none)).state = E2E.sw pB.state := by
      show (if pB.state == .stream then SState.skip else pB.state) = _
      cases pB.state <;> rfl
    have hrem : Rem (E1 id mc) (view1 (pB.switchTo none)) x =
        ref (E1 id mc) (E2E.sw pB.state) pB.pay pB.pad (pB.raw ++ x) := by
      unfold Rem
      rw [hst]
      rfl
    rw [hrem]
    unfold Rem at c2 c3 c4
    rcases hA0 with ⟨a1, a2⟩ | ⟨a1, a2⟩ <;> rcases hA with ⟨b1, b2⟩ | ⟨b1, b2⟩
    · rw [a2, b2]
      simp only [RefOut.pre, List.nil_append]
      rw [← c2, ← c4]
    · exact absurd (c3 ▸ a1) b1
    · exact absurd (c3 ▸ b1 : (refWire (E8 id mc) (Gd ++ x)).verdict = .more) a1
    · rw [a2, b2, RefOut.pre_pre, RefOut.pre_pre, ← c4]
      simp only [List.nil_append]
      rw [← c2]


/-- **A whole Filter turn.** -/
theorem filter_turn_ledger {id mc cap : Nat} {c5 : Bytes} {b5 Rd : List Rec} {t5 : Rec}
    (hb5 : Body id 5 c5 b5) (ht5 : IsTerm id 5 t5) (hc : R2fCtx id mc cap Rd)
    {p0 : Str.Parser} (h0 : Start ⟨id, 3, 5, mc⟩ p0) (hcap : p0.cap = cap) {A B N : List Op}
    (h2 : C03SS.TwoPhase ⟨id, 3, 5, mc⟩ p0 A 8 B)
    (hl : LegalAll p0 ((A ++ [Op.setStream (some 8)] ++ B) ++ Op.setStream none :: N))
    {Gd fut : Bytes} (hG : p0.raw ++ (fedBytes A ++ fedBytes B) = serAll (b5 ++ [t5]) ++ Gd)
    (hw : Gd ++ (fedBytes N ++ fut) = serAll Rd)
    (hpos : Pos Rd (applyOps p0 (A ++ [Op.setStream (some 8)] ++ B)).raw
      (applyOps p0 (A ++ [Op.setStream (some 8)] ++ B)).pay
      (applyOps p0 (A ++ [Op.setStream (some 8)] ++ B)).pad (fedBytes N ++ fut))
    (hb : (applyOps p0 ((A ++ [Op.setStream (some 8)] ++ B) ++ Op.setStream none :: N)).isRecordBoundary = true) :
    ∃ d rs, Rd = d ++ rs ∧
      C03S.grownAll p0 ((A ++ [Op.setStream (some 8)] ++ B) ++ Op.setStream none :: N) =
        owedStream id 5 mc b5 ++ owedI id mc [t5] ++ owedI id mc d ∧
      (applyOps p0 ((A ++ [Op.setStream (some 8)] ++ B) ++ Op.setStream none :: N)).raw ++ fut = serAll rs := by
  have hid := hc.hid
  have ht5rec : StdinRec id t5 := by
    refine ⟨ht5.1, Or.inr ⟨?_, ht5.2.1⟩⟩
    exact UInt8.toNat_inj.1 (by rw [ht5.2.2.1]; rfl)
  have h5 : ∀ r ∈ [t5], StdinRec id r := fun r hr => by rw [List.mem_singleton.1 hr]; exact ht5rec
  have hcls : rclass ⟨id, 3, 5, mc⟩ t5 = .endStream := by
    simp [rclass, ht5.2.1, ht5.2.2.1, ht5.2.2.2, RT.isInputStream]
  obtain ⟨hlX, hlN⟩ := C02.LegalAll_append.1 hl
  obtain ⟨-, -, hmtAB, hsinvAB, -⟩ := C03SS.two_phase_ledger h0 h2 []
  have hmt8 : Match (E8 id mc) (applyOps p0 (A ++ [Op.setStream (some 8)] ++ B)) := hmtAB
  -- the ledger of the two reading phases, seen from the Data records
  have hled : ∀ x, Gd ++ x <+: serAll Rd →
      C03S.grownAll p0 (A ++ [Op.setStream (some 8)] ++ B) ++
          (Rem (E8 id mc) (applyOps p0 (A ++ [Op.setStream (some 8)] ++ B)) x).out =
        (owedStream id 5 mc b5 ++ owedI id mc [t5]) ++ (refWire (E8 id mc) (Gd ++ x)).out ∧
      (Rem (E8 id mc) (applyOps p0 (A ++ [Op.setStream (some 8)] ++ B)) x).verdict =
        (refWire (E8 id mc) (Gd ++ x)).verdict ∧
      (Rem (E8 id mc) (applyOps p0 (A ++ [Op.setStream (some 8)] ++ B)) x).unread =
        (refWire (E8 id mc) (Gd ++ x)).unread := by
    intro x _
    obtain ⟨-, -, -, -, -, -, -, -, o, v, u⟩ := C03SS.two_phase_ledger h0 h2 x
    have hT : refWire ⟨id, 3, 5, mc⟩ (p0.raw ++ (fedBytes A ++ fedBytes B) ++ x) =
        ⟨c5, owedStream id 5 mc b5, .eos, t5.ser ++ (Gd ++ x)⟩ := by
      rw [hG, List.append_assoc]
      exact refWire_stream_any ⟨id, 3, 5, mc⟩ (Or.inl rfl) hid hb5 t5 ht5.1 hcls (Gd ++ x)
    have hS : switchRef (Cfg.withStream ⟨id, 3, 5, mc⟩ 8) ⟨c5, owedStream id 5 mc b5, .eos, t5.ser ++ (Gd ++ x)⟩ =
        (refWire (E8 id mc) (Gd ++ x)).pre [] (owedStream id 5 mc b5 ++ owedI id mc [t5]) := by
      simp only [switchRef]
      rw [show t5.ser = serAll [t5] from (C02.serAll_single t5).symm]
      show (ref (E8 id mc) .skip 0 0 (serAll [t5] ++ (Gd ++ x))).pre [] (owedStream id 5 mc b5) = _
      rw [ref_eq_refWire, E2E.refWire8_stdin id mc h5, RefOut.pre_pre, List.nil_append]
    rw [hT, hS] at o v u
    exact ⟨o, v, u⟩
  have hcapAB : (applyOps p0 (A ++ [Op.setStream (some 8)] ++ B)).cap = cap := by
    rw [(C05.applyOps_frame _ p0).1, hcap]
  have hst := r2f_of_ledger hc hmt8 hsinvAB hcapAB hw hpos hled
  -- the skip
  have hsw : applyOp (applyOps p0 (A ++ [Op.setStream (some 8)] ++ B)) (.setStream none) =
      (applyOps p0 (A ++ [Op.setStream (some 8)] ++ B)).switchTo none := by
    simp only [applyOp, Str.setStream_none]
    rw [if_neg (by rw [hmt8.strm]; simp)]
  have hlN' : LegalAll ((applyOps p0 (A ++ [Op.setStream (some 8)] ++ B)).switchTo none) N := by
    rw [← hsw]; exact hlN.2
  have hignS : Str.Ign ((applyOps p0 (A ++ [Op.setStream (some 8)] ++ B)).switchTo none) := by
    rw [← hsw]; exact ign_of_setNone _ (fun h => by rw [hmt8.strm] at h; cases h)
  have hinvS : SInv ((applyOps p0 (A ++ [Op.setStream (some 8)] ++ B)).switchTo none) := by
    rw [← hsw]; exact (Str.step_safe hsinvAB hlN.1).1
  obtain ⟨G', hr2⟩ := r2f_ops_any hc N _ _ fut _ hst hignS hinvS hlN'
  have happ : applyOps p0 ((A ++ [Op.setStream (some 8)] ++ B) ++ Op.setStream none :: N) =
      applyOps ((applyOps p0 (A ++ [Op.setStream (some 8)] ++ B)).switchTo none) N := by
    rw [applyOps_append, Str.applyOps_cons, hsw]
  have hgr : C03S.grownAll p0 ((A ++ [Op.setStream (some 8)] ++ B) ++ Op.setStream none :: N) =
      C03S.grownAll p0 (A ++ [Op.setStream (some 8)] ++ B) ++
        C03S.grownAll ((applyOps p0 (A ++ [Op.setStream (some 8)] ++ B)).switchTo none) N := by
    rw [grownAll_append]
    show _ ++ ([] ++ C03S.grownAll (applyOp (applyOps p0 (A ++ [Op.setStream (some 8)] ++ B)) (.setStream none)) N) = _
    rw [hsw, List.nil_append]
  rw [happ] at hb ⊢
  rw [hgr]
  have hb' : (applyOps ((applyOps p0 (A ++ [Op.setStream (some 8)] ++ B)).switchTo none) N).pay = 0 ∧
      (applyOps ((applyOps p0 (A ++ [Op.setStream (some 8)] ++ B)).switchTo none) N).pad = 0 := by
    simpa [Str.Parser.isRecordBoundary] using hb
  have hp := hr2.ign.pos
  rw [hb'.1, hb'.2] at hp
  obtain ⟨rs, ⟨d, hd⟩, hrs⟩ := pos_boundary hp
  refine ⟨d, rs, hd.symm, ?_, hrs⟩
  have hnow := (hr2.now hc).2.1
  have hrsR : ∀ r ∈ rs, DataRec id r := fun r hr => hc.recs r (by rw [← hd]; exact List.mem_append_right _ hr)
  have hrem : (Rem (E1 id mc) (view1 (applyOps ((applyOps p0 (A ++ [Op.setStream (some 8)] ++ B)).switchTo none) N)) fut).out =
      owedI id mc rs := by
    unfold Rem
    show (ref (E1 id mc) (applyOps ((applyOps p0 (A ++ [Op.setStream (some 8)] ++ B)).switchTo none) N).state
      (applyOps ((applyOps p0 (A ++ [Op.setStream (some 8)] ++ B)).switchTo none) N).pay
      (applyOps ((applyOps p0 (A ++ [Op.setStream (some 8)] ++ B)).switchTo none) N).pad
      ((applyOps ((applyOps p0 (A ++ [Op.setStream (some 8)] ++ B)).switchTo none) N).raw ++ fut)).out = _
    rw [hb'.1, hb'.2, ref_eq_refWire, hrs, E2E.refWire_view1 id mc hrsR]
  rw [hrem, ← hd, owedI_append, ← List.append_assoc] at hnow
  exact List.append_cancel_right hnow

end Fcgi.C05C
