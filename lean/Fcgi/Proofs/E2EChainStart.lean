import Fcgi.Proofs.E2EUnreadChain
import Fcgi.Props.C12Fuel
/-!
# Where the last request of a keep-alive chain starts

Two facts that let a theorem about a run `runTask fuel (connS b mc t scripts) n none` (a FRESH connection) be used
for the last request of a chain:

* `runTask_start_eq_reading` — a connection in `parse_request` with an EMPTY request parser behaves the same whether
  it is about to make its initial `parse(0)` (`.start`, a fresh connection) or is waiting for input (`.reading`, a
  reused connection whose previous request left nothing in the buffer): the initial `parse(0)` of an empty buffer
  yields nothing and writes nothing.
* `chain_serves_sc` — `E2E.chain_serves` with handler scripts left over for later requests.
-/
namespace Fcgi.E2E
open Fcgi Fcgi.Req Fcgi.Str Fcgi.Async Fcgi.Run Fcgi.Spec

theorem run_header_nil (mc : Nat) : run .header [] mc = { rem := [], st := .header, out := [] } := by
  rcases Req.run_nil (s := .header) trivial mc with h | ⟨c, v, h, _⟩
  · exact h
  · cases h

/-- the initial `parse(0)` of an empty parser: nothing -/
theorem parse_nil_fresh {cap mc : Nat} (h24 : 24 ≤ cap) :
    ({ cap := cap, input := [], state := .header, maxConns := mc } : Req.Parser).parse [] =
      (⟨cap, [], .header, mc⟩, some { done := false, output := [] }) := by
  have h := start_track (cap := cap) (mc := mc) h24 (raw := []) (Nat.zero_le _)
    (Or.inr (by rw [run_header_nil]; show 0 < cap; omega))
  rw [h, run_header_nil, track_nil]
  rfl

/-- two phase transitions lead from `.start` to `.reading` -/
theorem pollConn_start_reading {cap mc : Nat} (h24 : 24 ≤ cap) (f : Nat) (env : Run.Env)
    (scripts : List (List HOp × Bool)) :
    pollConn (f + 2) ⟨.parseReq ⟨cap, [], .header, mc⟩ .start, env, scripts, false⟩ =
      pollConn f ⟨.parseReq ⟨cap, [], .header, mc⟩ .reading, env, scripts, false⟩ := by
  rw [pollConn_succ, step_start _ _ rfl rfl, parse_nil_fresh h24]
  show pollConn (f + 1) ⟨.parseReq ⟨cap, [], .header, mc⟩ (.writing [] false), env, scripts, false⟩ = _
  rw [pollConn_succ, step_writing_more _ _ [] [] env.tr rfl rfl (by rfl)]
  rfl

/-- **Fresh = reused with an empty buffer.** -/
theorem runTask_start_eq_reading {cap mc : Nat} (h24 : 24 ≤ cap) (fuel : Nat) (env : Run.Env)
    (scripts : List (List HOp × Bool)) (n : Nat) :
    runTask (fuel + 1) ⟨.parseReq ⟨cap, [], .header, mc⟩ .start, env, scripts, false⟩ n none =
      runTask (fuel + 1) ⟨.parseReq ⟨cap, [], .header, mc⟩ .reading, env, scripts, false⟩ n none := by
  · rw [runTask_succ, runTask_succ]
    have e0 : ∀ sub, prePoll ⟨.parseReq ⟨cap, [], .header, mc⟩ sub, env, scripts, false⟩ n none =
        ⟨.parseReq ⟨cap, [], .header, mc⟩ sub,
          (prePoll ⟨.parseReq ⟨cap, [], .header, mc⟩ .reading, env, scripts, false⟩ n none).env, scripts, false⟩ := by
      intro sub; rfl
    rw [e0 .start, e0 .reading]
    generalize (prePoll ⟨.parseReq ⟨cap, [], .header, mc⟩ .reading, env, scripts, false⟩ n none).env = env1
    have hK : connFuel ⟨.parseReq ⟨cap, [], .header, mc⟩ .start, env1, scripts, false⟩ =
        connFuel ⟨.parseReq ⟨cap, [], .header, mc⟩ .reading, env1, scripts, false⟩ := rfl
    rw [hK]
    obtain ⟨K, hKe⟩ : ∃ K, connFuel ⟨.parseReq ⟨cap, [], .header, mc⟩ .reading, env1, scripts, false⟩ = K + 2 :=
      ⟨connFuel ⟨.parseReq ⟨cap, [], .header, mc⟩ .reading, env1, scripts, false⟩ - 2, by unfold connFuel; omega⟩
    have hwf : ConnWF ⟨.parseReq ⟨cap, [], .header, mc⟩ .reading, env1, scripts, false⟩ := trivial
    have hnp := C12Fuel.pollConn_no_fuel_panic K _ hwf (by
      rw [C12Fuel.bufLen_eq]
      have : K + 2 = 100000 + 7 * env1.tr.input.length + 5 * 0 := hKe.symm
      show 7 * env1.tr.input.length + 5 * 0 + 10 < K
      omega)
    rcases hp : pollConn K ⟨.parseReq ⟨cap, [], .header, mc⟩ .reading, env1, scripts, false⟩ with ⟨c1, r1⟩
    rw [hp] at hnp
    have h2 := pollConn_fuel_stable K _ hp hnp 2
    rw [hKe, pollConn_start_reading h24, hp, h2]

/-- `chain_serves` with handler scripts `sc` left for later requests. -/
theorem chain_serves_sc (cap mc : Nat) (Zend : Bytes) (sc : List (List HOp × Bool)) :
    ∀ (xs : List RSpec) (x : RSpec) (left : List Rec) (Lw : Bytes) (h : Nat) (evs : List String) (A0 : Nat)
      (c : Conn) (n fuel : Nat),
      (∀ ys y zs, x :: xs = ys ++ y :: zs → Serves cap mc y (nextW Zend zs) ∧ LeftOK cap y.left) →
      LeftOK cap left → StartAt cap mc left Lw ((x :: xs).map RSpec.handler ++ sc) h evs A0 x.W c → A0 + 1 ≤ fuel →
      ∃ c' A, closedLoop fuel (xs.map RSpec.W) c n = (c', "STALL") ∧ SegAll (x :: xs) A ∧
        Waiting cap mc (lastLeft xs x.left) (Lw ++ A) sc (h + (x :: xs).length) (evsAfter (x :: xs) evs) A0 c' := by
  intro xs
  induction xs with
  | nil =>
    intro x left Lw h evs A0 c n fuel hall hleft hstart hf
    obtain ⟨hsv, _⟩ := hall [] x [] rfl
    obtain ⟨c', A, hrun, hseg, hw⟩ := hsv left Lw sc h evs A0 c n fuel hleft hstart hf
    exact ⟨c', A, hrun, ⟨A, [], hseg, rfl, (List.append_nil _).symm⟩, hw⟩
  | cons y ys ih =>
    intro x left Lw h evs A0 c n fuel hall hleft hstart hf
    obtain ⟨hsv, hlx⟩ := hall [] x (y :: ys) rfl
    obtain ⟨c', A1, hrun, hseg, hw⟩ := hsv left Lw ((y :: ys).map RSpec.handler ++ sc) h evs A0 c n fuel hleft hstart hf
    obtain ⟨c2, A2, hrun2, hseg2, hw2⟩ := ih y x.left (Lw ++ A1) (h + 1) (x.ev :: evs) A0 (feed c' y.W) (n + 1000) fuel
      (fun ys' y' zs' he => hall (x :: ys') y' zs' (by rw [he]; rfl)) hlx (Or.inl ⟨c', hw, rfl⟩) hf
    refine ⟨c2, A1 ++ A2, ?_, ⟨A1, A2, hseg, hseg2, rfl⟩, ?_⟩
    · simp only [closedLoop, List.map_cons, hrun, if_true]
      exact hrun2
    · have e1 : Lw ++ A1 ++ A2 = Lw ++ (A1 ++ A2) := List.append_assoc _ _ _
      have e2 : h + 1 + (y :: ys).length = h + (x :: y :: ys).length := by simp only [List.length_cons]; omega
      rw [e1, e2] at hw2
      exact hw2

end Fcgi.E2E
