import Fcgi.Proofs.ChainTurn
import Fcgi.Proofs.E2EFits
import Fcgi.Props.C03StrInv
/-!
# C05 at the sync level — what the stream parser does while its stream is active

`reads_sim`: a stream parser created at a hand-off (`from_parser` on any look-ahead `e`), for a
request whose first input stream `s` is carried by `body ++ [term]`, under a history `A ++ Bq`: `A`
any legal history without `set_stream` (parse with any destination and any chunking, consume,
compress, consume_output — the stream stays active), `Bq` operations other than `parse`
(`set_stream(None)`, `consume_output`, …: what the caller does before `into_request_parser` when it
stands at a record boundary).  Whatever look-ahead is buffered — also bytes of later requests —,
the parser never passes the stream's terminating record.
-/
namespace Fcgi.C05C
open Fcgi Fcgi.Req Fcgi.Str Fcgi.Spec
open Fcgi.E2E (serAll_app body_wf)

/-- no `parse` call -/
def Quiet (ops : List Op) : Prop := ∀ op ∈ ops, ∀ new dest, op ≠ .parse new dest

theorem fedBytes_eq (ops : List Op) : C05.fedBytes ops = Str.fedBytes ops := by
  induction ops with
  | nil => rfl
  | cons op t ih => cases op <;> simp [C05.fedBytes, Str.fedBytes, ih]

theorem quiet_facts : ∀ (ops : List Op) (p : Str.Parser), Quiet ops →
    C05.fedBytes ops = [] ∧ deliveredOps p ops = [] ∧ C03S.grownAll p ops = [] ∧
    (applyOps p ops).raw = p.raw ∧ (applyOps p ops).pay = p.pay ∧ (applyOps p ops).pad = p.pad := by
  intro ops
  induction ops with
  | nil => intro p _; exact ⟨rfl, rfl, rfl, rfl, rfl, rfl⟩
  | cons op t ih =>
    intro p hq
    have hop := hq op List.mem_cons_self
    obtain ⟨a, b, c, d, e, f⟩ := ih (applyOp p op) (fun x hx => hq x (List.mem_cons_of_mem _ hx))
    obtain ⟨f1, f2, f3⟩ := applyOp_frame3 p op hop
    rw [Str.applyOps_cons, d, e, f, f1, f2, f3]
    refine ⟨?_, ?_, ?_, rfl, rfl, rfl⟩
    · cases op <;> first | exact a | exact absurd rfl (hop _ _)
    · cases op <;> first | (simp only [deliveredOps, deliveredOp, List.nil_append]; exact b) | exact absurd rfl (hop _ _)
    · cases op <;> first | (simp only [C03S.grownAll, C03S.outGrowth, List.nil_append]; exact c) | exact absurd rfl (hop _ _)

theorem fedBytes_append (a b : List Op) : C05.fedBytes (a ++ b) = C05.fedBytes a ++ C05.fedBytes b := by
  induction a with
  | nil => rfl
  | cons op t ih => cases op <;> simp [C05.fedBytes, ih]

theorem legalAll_append {p : Str.Parser} {a b : List Op} :
    LegalAll p (a ++ b) ↔ LegalAll p a ∧ LegalAll (applyOps p a) b := by
  induction a generalizing p with
  | nil => simp [LegalAll]
  | cons op t ih => simp [LegalAll, ih, and_assoc]

theorem serAll_inj {a b : List Rec} (ha : ∀ r ∈ a, r.WF) (hb : ∀ r ∈ b, r.WF) (h : serAll a = serAll b) :
    a = b :=
  (C03SI.decomposition_unique (t := []) (t' := []) ha hb (by decide) (by decide) (by simpa using h)).1

/-- the terminating record of stream `s` of request `id` -/
def IsTerm (id s : Nat) (e : Rec) : Prop := e.WF ∧ e.id = id ∧ e.rtype.toNat = s ∧ e.content = []

/-- **The reading phase.** -/
theorem reads_sim {cap mc id role s : Nat} {rq : Request} {e content : Bytes} {body tl : List Rec}
    {term : Rec} {A Bq : List Op} {fut : Bytes}
    (hid : rq.id = id) (hidlt : id < 65536) (hrole : rq.role = role)
    (hs : nextInputStream role none = some s) (hmem : s ∈ inputStreams role)
    (hb : Body id s content body) (hterm : IsTerm id s term) (htl : ∀ r ∈ tl, r.WF) (hlen : e.length ≤ cap)
    (hw : e ++ C05.fedBytes (A ++ Bq) ++ fut = serAll (body ++ term :: tl))
    (hl : LegalAll (Str.Parser.fromParser cap rq e mc) (A ++ Bq)) (hns : NoSet A) (hq : Quiet Bq) :
    let sp := Str.Parser.fromParser cap rq e mc
    let spE := applyOps sp (A ++ Bq)
    -- (2) the bytes delivered are a prefix of the content; `stream_end` only after all of it
    (deliveredOps sp (A ++ Bq) <+: content ∧ EveryParse (EndExact content) [] sp A) ∧
    -- the replies generated are a prefix of those owed for the stream's noise
    C03S.grownAll sp (A ++ Bq) <+: owedStream id s mc body ∧
    -- the terminating record (and everything behind it) is never consumed
    (e ++ C05.fedBytes (A ++ Bq)).length ≤ (serAll body).length + spE.raw.length ∧
    -- at a record boundary: exactly the records `d` were consumed
    (spE.isRecordBoundary = true → ∃ d rs cr, body = d ++ rs ∧ Body id s cr rs ∧
      deliveredOps sp (A ++ Bq) ++ cr = content ∧
      C03S.grownAll sp (A ++ Bq) = owedStream id s mc d ∧
      e ++ C05.fedBytes (A ++ Bq) = serAll d ++ spE.raw ∧ spE.raw ++ fut = serAll (rs ++ term :: tl)) := by
  intro sp spE
  obtain ⟨hl1, hl2⟩ := legalAll_append.1 hl
  obtain ⟨q1, q2, q3, q4, q5, q6⟩ := quiet_facts Bq (applyOps sp A) hq
  have hinv : SInv sp := SInv_fromParser cap rq e mc hlen (by rw [hid]; exact hidlt)
  have hfed : C05.fedBytes (A ++ Bq) = Str.fedBytes A := by rw [fedBytes_append, q1, List.append_nil, fedBytes_eq]
  rw [hfed] at hw
  have hdel : deliveredOps sp (A ++ Bq) = deliveredOps sp A := by rw [deliveredOps_append, q2, List.append_nil]
  have hgr : C03S.grownAll sp (A ++ Bq) = C03S.grownAll sp A := by rw [grownAll_append, q3, List.append_nil]
  have hspE : spE.raw = (applyOps sp A).raw ∧ spE.pay = (applyOps sp A).pay ∧ spE.pad = (applyOps sp A).pad := by
    show (applyOps sp (A ++ Bq)).raw = _ ∧ (applyOps sp (A ++ Bq)).pay = _ ∧ (applyOps sp (A ++ Bq)).pad = _
    rw [applyOps_append]; exact ⟨q4, q5, q6⟩
  -- the simulation of `Proofs/StrSim`
  have hend : EndMark id role s (term.ser ++ serAll tl) :=
    ⟨term, serAll tl, rfl, hterm.1, hterm.2.1, Or.inl ⟨hterm.2.2.1, hterm.2.2.2⟩⟩
  have hw0 : sp.raw ++ (Str.fedBytes A ++ fut) = serAll body ++ (term.ser ++ serAll tl) := by
    rw [← List.append_assoc, ← serAll_cons, ← serAll_app]; exact hw
  have hsim := Sim.init (mc := mc) (p := sp) hb hend hmem hid hrole (by show nextInputStream rq.role none = some s; rw [hrole]; exact hs)
    rfl rfl rfl hw0
  obtain ⟨remC, remO, hsim', -, hC, hO, hE⟩ := ops_sim (x := fut) A sp content (owedStream id s mc body) [] hsim hinv hl1 hns
  obtain ⟨c, pd, rs, ct, hbrs, hc, hpd, hcore, hrc, hro⟩ := hsim'.core
  simp only at hcore hrc hro
  refine ⟨⟨by rw [hdel]; exact ⟨remC, hC⟩, by simpa using hE⟩, by rw [hgr]; exact ⟨remO, hO⟩, ?_, ?_⟩
  · -- never beyond the body
    rw [hfed, hspE.1]
    have h1 := congrArg List.length hcore
    have h2 := congrArg List.length hw
    rw [serAll_app, serAll_cons] at h2
    simp only [List.length_append] at h1 h2 ⊢
    omega
  · intro hbd
    have hb' : (applyOps sp A).pay = 0 ∧ (applyOps sp A).pad = 0 := by
      have : spE.pay = 0 ∧ spE.pad = 0 := by simpa [Str.Parser.isRecordBoundary] using hbd
      rw [← hspE.2.1, ← hspE.2.2]; exact this
    have hc0 : c = [] := List.length_eq_zero_iff.1 (hc.trans hb'.1)
    have hp0 : pd = [] := List.length_eq_zero_iff.1 (hpd.trans hb'.2)
    subst hc0 hp0
    simp only [List.nil_append] at hcore
    rw [stateC_nil] at hrc
    rw [stateO_nil] at hro
    simp only [List.nil_append] at hrc hro
    -- the framing: what was consumed is `serAll` of a record-prefix
    have hbwf := body_wf hidlt hb
    have hRwf : ∀ r ∈ body ++ term :: tl, r.WF := by
      intro r hr
      rcases List.mem_append.1 hr with h | h
      · exact hbwf r h
      · rcases List.mem_cons.1 h with rfl | h
        · exact hterm.1
        · exact htl r h
    have hwA : sp.raw ++ C05.fedBytes A ++ fut = serAll (body ++ term :: tl) := by
      rw [fedBytes_eq]; exact hw
    have hbA : (applyOps sp A).isRecordBoundary = true := by
      simp [Str.Parser.isRecordBoundary, hb'.1, hb'.2]
    obtain ⟨d, rs', hsplit, hrs', hcons⟩ := handover_records hRwf hinv rfl rfl hl1 hwA hbA
    have hrs'wf : ∀ r ∈ rs', r.WF := fun r hr => hRwf r (by rw [hsplit]; exact List.mem_append_right _ hr)
    have hrswf : ∀ r ∈ rs ++ term :: tl, r.WF := by
      intro r hr
      rcases List.mem_append.1 hr with h | h
      · exact body_wf hidlt hbrs r h
      · rcases List.mem_cons.1 h with rfl | h
        · exact hterm.1
        · exact htl r h
    have heq : rs' = rs ++ term :: tl := by
      refine serAll_inj hrs'wf hrswf ?_
      rw [← hrs', hcore, serAll_app, serAll_cons]
    have hbody : body = d ++ rs := by
      have : body ++ term :: tl = (d ++ rs) ++ term :: tl := by rw [hsplit, heq, List.append_assoc]
      exact List.append_cancel_right this
    refine ⟨d, rs, ct, hbody, hbrs, by rw [hdel, ← hrc]; exact hC, ?_, ?_, ?_⟩
    · rw [hgr]
      have : C03S.grownAll sp A ++ owedStream id s mc rs = owedStream id s mc d ++ owedStream id s mc rs := by
        rw [hro] at hO
        rw [hO, hbody, owedStream_append]
      exact List.append_cancel_right this
    · rw [hfed, hspE.1, ← fedBytes_eq]; exact hcons
    · rw [hspE.1, hrs', heq]

/-- **The caller reads while the stream is active and hands over at a record boundary without
parsing in ignore mode.**  The records behind the preamble are the first input stream's `body`, its
terminating record `term`, and `more` (for a Filter: the `Data` stream; otherwise trailing noise);
the history is `A ++ Bq`: `A` without `set_stream`, `Bq` without `parse`. -/
structure ActiveReads (q : Spec1) (t : Turn) (s : Nat) (content : Bytes) (body : List Rec) (term : Rec)
    (more : List Rec) (A Bq : List Op) : Prop where
  split : q.srecs = body ++ term :: more
  strm : nextInputStream q.p.role none = some s
  mem : s ∈ inputStreams q.p.role
  body : Body q.p.id s content body
  term : IsTerm q.p.id s term
  ops : t.ops = A ++ Bq
  noSet : NoSet A
  quiet : Quiet Bq

theorem wf_id_lt {p : Preamble} {recs : List Rec} (h : WellFormedPreamble p recs) : p.id < 65536 := by
  induction h with
  | noise r hn t ih => exact ih
  | «begin» pad res body5 hb hp hid hrole hl t => exact hid.2

/-- `reads_sim` for a turn of the chain: from what `Front` says about the turn's stream parser. -/
theorem front_reads {cap mc : Nat} {q : Spec1} {later : List Rec} {t : Turn} {o : Obs} (hq : q.OK)
    (hlater : ∀ r ∈ later, r.WF) (hf : Front cap mc q later t o)
    {s : Nat} {content : Bytes} {body : List Rec} {term : Rec} {more : List Rec} {A Bq : List Op}
    (ha : ActiveReads q t s content body term more A Bq) :
    (deliveredOps o.sp t.ops <+: content ∧ EveryParse (EndExact content) [] o.sp A) ∧
    C03S.grownAll o.sp t.ops <+: owedStream q.p.id s mc body ∧
    NoOverrun q t o ∧
    (o.spEnd.isRecordBoundary = true → ∃ d rs cr, body = d ++ rs ∧ Body q.p.id s cr rs ∧
      deliveredOps o.sp t.ops ++ cr = content ∧
      C03S.grownAll o.sp t.ops = owedStream q.p.id s mc d ∧
      o.sp.raw ++ C05.fedBytes t.ops = serAll d ++ o.spEnd.raw) := by
  obtain ⟨hsp, hlen, hend, hl, fut, hpre⟩ := hf
  have hidlt : q.p.id < 65536 := wf_id_lt hq.1
  have htl : ∀ r ∈ more ++ later, r.WF := by
    intro r hr
    rcases List.mem_append.1 hr with h | h
    · exact (hq.2 r (by rw [ha.split]; exact List.mem_append_right _ (List.mem_cons_of_mem _ h))).1
    · exact hlater r h
  have hw : o.sp.raw ++ C05.fedBytes (A ++ Bq) ++ fut = serAll (body ++ term :: (more ++ later)) := by
    rw [← ha.ops, hpre, ha.split]
    simp [List.append_assoc]
  have hl' : LegalAll (Str.Parser.fromParser cap q.p.request o.sp.raw mc) (A ++ Bq) := by
    rw [← hsp, ← ha.ops]; exact hl
  have h := reads_sim (rq := q.p.request) (e := o.sp.raw) (cap := cap) (mc := mc) rfl hidlt rfl ha.strm ha.mem
    ha.body ha.term htl hlen hw hl' ha.noSet ha.quiet
  simp only [← hsp, ← ha.ops, ← hend] at h
  obtain ⟨h1, h2, h3, h4⟩ := h
  refine ⟨h1, h2, ?_, ?_⟩
  · unfold NoOverrun
    have : (serAll body).length ≤ (serAll q.srecs).length := by
      rw [ha.split, serAll_app, List.length_append]; omega
    omega
  · intro hb
    obtain ⟨d, rs, cr, a, b, c, d', e', -⟩ := h4 hb
    exact ⟨d, rs, cr, a, b, c, d', e'⟩

/-! ## Computing a turn whose preamble arrives in one chunk (for concrete instances) -/

theorem turn_one {cap mc : Nat} (hcap : 24 ≤ cap) {inp new rest o : Bytes} {r : Request} (hne : new ≠ [])
    (hlen : (inp ++ new).length ≤ cap)
    (hrun : run .header (inp ++ new) mc = ⟨rest, .done r, o, none⟩) (ops : List Op) {rp' : Req.Parser}
    (hrp : (applyOps (Str.Parser.fromParser cap r rest mc) ops).intoRequestParser = some (.ok rp')) :
    turn (Req.Parser.fromParser cap inp mc) ⟨[new], ops⟩ =
      some (⟨r, o, Str.Parser.fromParser cap r rest mc, applyOps (Str.Parser.fromParser cap r rest mc) ops⟩, rp') ∧
    (LegalAll (Str.Parser.fromParser cap r rest mc) ops →
      TurnLegal (Req.Parser.fromParser cap inp mc) ⟨[new], ops⟩) := by
  have hl1 : inp.length ≤ cap := by simp only [List.length_append] at hlen; omega
  have hp := C03.fromParser_inv (input := inp) mc hl1 hcap
  have hn : new.length ≤ (Req.Parser.fromParser cap inp mc).free := by
    simp only [Req.Parser.free, Req.Parser.fromParser, List.length_append] at hlen ⊢; omega
  have hparse : (Req.Parser.fromParser cap inp mc).parse new =
      ({ cap := cap, input := rest, state := .done r, maxConns := mc },
        some { done := true, output := o }) := by
    rw [parse_eq hp hn]
    simp only [Req.Parser.fromParser, hrun]
    rfl
  have hfeed : C03.feedAll (Req.Parser.fromParser cap inp mc) [new] =
      ({ cap := cap, input := rest, state := .done r, maxConns := mc }, o, []) := by
    rw [C03.feedAll_cons [] rfl hparse]
    simp [C03.feedAll]
  constructor
  · unfold turn
    simp only [hfeed, Req.Parser.intoStreamParser, hrp]
  · intro hl
    refine ⟨Or.inr ⟨hne, hn, by rw [hparse]; trivial⟩, by rw [hfeed], ?_⟩
    intro sp hsp
    rw [hfeed] at hsp
    simp only [Req.Parser.intoStreamParser] at hsp
    cases hsp
    exact hl

end Fcgi.C05C
