import Fcgi.Proofs.LoopAppend
import Fcgi.Proofs.ChainFilter2
/-!
# The skip crossing from the Stdin records into the Data records

`loop_ign_short`: in ignore mode a call that returns `Ok` at a record boundary has consumed every
complete record (fewer than 8 bytes are left).  `r2f_clean`: at a clean record boundary `E2E.R2f`
holds trivially, whatever was generated before (`P`).  `r2_cross`: ONE `parse` call of the skip that
completes the Stdin records and runs on into the Data records — split by `Str.parse_append_ign`
into the call that ends exactly behind the Stdin records (`E2E.parse_r2`, view `⟨id,3,8⟩`) and the
call over the Data bytes (`E2E.parse_r2f`, view `⟨id,1,5⟩`).
-/
namespace Fcgi.Str
open Fcgi Fcgi.Req

theorem parseHead_ign_stop_short {x q : Parser} {d : Option Nat} {r r' : Status} (hs : x.stream = none)
    (h : parseHead x d r = .stop q r') : x.raw.length < 8 := by
  apply Classical.byContradiction
  intro hlen
  have h8 : 8 ≤ x.raw.length := by omega
  obtain ⟨cap, g0, parsed, g1, raw, output, request, stream, pay, pad, state, mc⟩ := x
  simp only at hs
  subst hs
  match raw, h8 with
  | b0 :: b1 :: b2 :: b3 :: b4 :: b5 :: b6 :: b7 :: rest, _ =>
    simp only [parseHead, Str.cmp_none] at h
    split at h
    · cases h
    · cases h
    · repeat' split at h
      all_goals cases h
    · cases h

theorem iter_ign_stop_short {p q : Parser} {d : Option Nat} {r r' : Status} (hig : Ign p)
    (h : iter p d r = .stop q r') (hpay : q.pay = 0) (hpad : q.pad = 0) : q.raw.length < 8 := by
  rw [E2E.iter_eq] at h
  have hpadHead : ∀ (x : Parser), x.stream = none → E2E.padHead x d r = .stop q r' → q.raw.length < 8 := by
    intro x hx hh
    unfold E2E.padHead at hh
    split at hh
    · split at hh
      · cases hh; simp
      · have hfr := E2E.parseHead_fr { x with raw := x.raw.drop x.pad, g1 := x.g1 + x.pad, pad := 0 } d r
        have hsh := parseHead_ign_stop_short (x := { x with raw := x.raw.drop x.pad, g1 := x.g1 + x.pad, pad := 0 }) hx hh
        rw [hh] at hfr; subst hfr; exact hsh
    · have hfr := E2E.parseHead_fr x d r
      have hsh := parseHead_ign_stop_short hx hh
      rw [hh] at hfr; subst hfr; exact hsh
  by_cases hp : p.pay > 0
  · simp only [hp, if_true] at h
    have hfr := E2E.parsePayload_fr p d r
    cases hpp : parsePayload p d r with
    | cont q2 d2 r2 =>
      rw [hpp] at h hfr
      obtain ⟨k, -, -, -, -, -, -, hst, -⟩ := hfr
      have hh : E2E.padHead q2 d2 r2 = .stop q r' := h
      -- `padHead` with the destination the payload step returned
      have := hpadHead
      unfold E2E.padHead at hh
      split at hh
      · split at hh
        · cases hh; simp
        · have hfr2 := E2E.parseHead_fr { q2 with raw := q2.raw.drop q2.pad, g1 := q2.g1 + q2.pad, pad := 0 } d2 r2
          have hsh := parseHead_ign_stop_short (x := { q2 with raw := q2.raw.drop q2.pad, g1 := q2.g1 + q2.pad, pad := 0 })
            (hst.trans hig.1) hh
          rw [hh] at hfr2; subst hfr2; exact hsh
      · have hfr2 := E2E.parseHead_fr q2 d2 r2
        have hsh := parseHead_ign_stop_short (hst.trans hig.1) hh
        rw [hh] at hfr2; subst hfr2; exact hsh
    | stop q2 r2 =>
      rw [hpp] at h hfr
      injection h with h1 h2
      subst h1
      obtain ⟨k, hk1, hk2, hk3, hk4, -⟩ := hfr
      have hple : p.pay ≤ p.raw.length := by omega
      obtain ⟨q', d', r1, -, -, e0, e1, -⟩ := parsePayload_feed p [] d r hig.2 hple
      rw [hpp] at e1
      split at e1
      · cases e1
      · rename_i hnl
        injection e1 with a1 _
        subst a1
        rw [e0, List.length_drop]; omega
    | err q2 e => rw [hpp] at h; cases h
    | panic s => rw [hpp] at h; cases h
  · simp only [hp, if_false] at h
    exact hpadHead p hig.1 h

/-- in ignore mode, `Ok` at a record boundary: every complete record has been consumed -/
theorem loop_ign_short : ∀ (n : Nat) (p : Parser) (d : Option Nat) (r : Status), p.raw.length ≤ n → SInv p → Ign p →
    ∀ q st, loop p d r = (q, .ok st) → q.pay = 0 → q.pad = 0 → q.raw.length < 8 := by
  intro n
  induction n with
  | zero =>
    intro p d r hn _ _ q st hl _ _
    have he : p.raw = [] := List.length_eq_zero_iff.1 (by omega)
    rw [loop.eq_1 p d r] at hl
    simp only [he, List.isEmpty_nil, if_true] at hl
    injection hl with h1 _
    rw [← h1, he]; simp
  | succ n ih =>
    intro p d r hn hinv hig q st hl hpay hpad
    rw [loop.eq_1 p d r] at hl
    by_cases he : p.raw.isEmpty
    · rw [if_pos he] at hl
      injection hl with h1 _
      rw [← h1]
      have : p.raw = [] := by simpa using he
      rw [this]; simp
    · rw [if_neg he] at hl
      have hg := iter_good p d r
      have hi := iter_ign p d r hinv hig
      cases hit : iter p d r with
      | panic s => rw [hit] at hl; cases hl
      | err q1 e => rw [hit] at hl; cases hl
      | stop q1 r1 =>
        rw [hit] at hl
        injection hl with h1 _
        subst h1
        exact iter_ign_stop_short hig hit hpay hpad
      | cont q1 d1 r1 =>
        rw [hit] at hl hg hi
        simp only at hl
        by_cases hlt : q1.raw.length < p.raw.length
        · rw [if_pos hlt] at hl
          exact ih q1 d1 r1 (by omega) (hg.2.2 hinv) hi q st hl hpay hpad
        · rw [if_neg hlt] at hl; cases hl

end Fcgi.Str

namespace Fcgi.C05C
open Fcgi Fcgi.Req Fcgi.Str Fcgi.Spec Fcgi.C03SI
open Fcgi.E2E (Pos R2 R2Ctx R2f R2fCtx Ev E1 view view1 StdinRec DataRec owedI serAll_app)

/-- **`R2f` at a clean record boundary**: an ignoring parser that has consumed everything it was
given and stands at a record boundary in front of the Data records satisfies `R2f` with any `P`. -/
theorem r2f_clean {id mc cap : Nat} {Rd : List Rec} {s : Str.Parser} (hstrm : s.stream = none)
    (hid : s.request.id = id) (hidlt : id < 65536) (hmc : s.maxConns = mc) (hinv : SInv s) (hcap : s.cap = cap)
    (hpar : s.parsed = []) (hc : Clean s) {fut : Bytes} (hw : fut = serAll Rd) (P : Bytes) :
    R2f id mc cap Rd P s [] fut P := by
  obtain ⟨c1, c2, c3⟩ := hc
  refine ⟨⟨hstrm, hid, ?_⟩, ⟨hid, rfl, rfl, hmc, (by show 5 ∈ inputStreams 1; decide)⟩, ?_, hcap, hpar,
    by rw [List.nil_append]; exact hw, ?_⟩
  · rw [c1, c2, c3]; exact pos_start Rd (by rw [List.nil_append]; exact hw)
  · obtain ⟨h1, h2, h3, h4, _, h6⟩ := hinv
    exact ⟨h1, h2, h3, h4, Or.inr ⟨5, rfl, (by show 5 ∈ inputStreams 1; decide)⟩, by show s.request.id < 65536; rw [hid]; exact hidlt⟩
  · intro x _
    have : Rem (E1 id mc) (view1 s) x = refWire (E1 id mc) x := by
      unfold Rem
      show ref (E1 id mc) s.state s.pay s.pad (s.raw ++ x) = _
      rw [c1, c2, c3, List.nil_append, ref_eq_refWire]
    rw [this, List.nil_append]

/-- **The crossing call.**  `s`: the ignoring parser inside the Stdin records (`R2` over `R5`, `f5` =
the bytes of `R5` not yet given); one `parse(f5 ++ n2, None)`: the rest of the Stdin records and the
first bytes `n2` of the Data records.  Afterwards `R2f` holds over the Data records, with `P` = the
replies owed for ALL Stdin records (`owedI id mc R5` = what was generated up to the end of `R5`). -/
theorem r2_cross {id mc cap : Nat} {R5 Rd : List Rec} (hc5 : R2Ctx id mc cap R5) (hcd : R2fCtx id mc cap Rd)
    {s : Str.Parser} {G f5 n2 futd dO : Bytes} (h2 : R2 id mc cap R5 s G f5 dO) (hinv : SInv s) (hig : Ign s)
    (hfree : (f5 ++ n2).length ≤ s.free) (hwd : n2 ++ futd = serAll Rd) :
    ∃ o2, (s.parse (f5 ++ n2) none).1.output = s.output ++ (owedI id mc R5).drop dO.length ++ o2 ∧
      dO <+: owedI id mc R5 ∧
      okRes (s.parse (f5 ++ n2) none).2 = true ∧
      R2f id mc cap Rd (owedI id mc R5) (s.parse (f5 ++ n2) none).1 n2 futd (owedI id mc R5 ++ o2) := by
  have hf5 : f5.length ≤ s.free := by simp only [List.length_append] at hfree; omega
  -- the virtual call that ends exactly behind the Stdin records
  obtain ⟨p1, st1, o1, hp1, ho1, hrq1, hmc1, hr1, hbd1⟩ :=
    E2E.parse_r2 hc5 (by rw [List.append_nil]; exact h2 : R2 id mc cap R5 s G (f5 ++ []) dO) hf5
  have hb1 : p1.isRecordBoundary = true := by
    cases hb : p1.isRecordBoundary with
    | true => rfl
    | false => exact absurd rfl (hbd1 hb).2
  have hb1' : p1.pay = 0 ∧ p1.pad = 0 := by simpa [Str.Parser.isRecordBoundary] using hb1
  have hinv1 : SInv p1 := by
    have := (Str.step_safe hinv (show Legal s (.parse f5 none) from ⟨Or.inl rfl, hf5⟩)).1
    simpa [applyOp, hp1] using this
  have hig1 : Ign p1 := by
    have := (parse_ign_nodata hinv hig (show Legal s (.parse f5 none) from ⟨Or.inl rfl, hf5⟩)).1
    rw [hp1] at this; exact this
  -- it has consumed everything: clean
  have hshort : p1.raw.length < 8 := by
    have heq := parse_eq_loop s f5 none hinv.1 (Or.inl rfl) hf5
    rw [hp1] at heq
    exact loop_ign_short _ (s.feed f5) none (initStatus s) (Nat.le_refl _) (SInv_feed hinv hf5) hig p1 st1
      heq.symm hb1'.1 hb1'.2
  have hclean : Clean p1 := by
    refine ⟨?_, hb1'.1, hb1'.2⟩
    have hp := hr1.ign.pos
    rw [hb1'.1, hb1'.2] at hp
    obtain ⟨rs, -, hrs⟩ := pos_boundary hp
    rw [List.append_nil] at hrs
    cases rs with
    | nil => simpa [serAll] using hrs
    | cons r t =>
      rw [hrs, serAll_cons, List.length_append, ser_length] at hshort
      omega
  -- the ledger at the end of the Stdin records
  have hnow := (hr1.now hc5).2.1
  have hrem0 : (Rem (Ev id mc) (view p1) []).out = [] := by
    unfold Rem
    show (ref (Ev id mc) p1.state p1.pay p1.pad (p1.raw ++ [])).out = []
    rw [hclean.1, hclean.2.1, hclean.2.2, List.append_nil, ref_eq_refWire]
    have := E2E.refWire_view id mc (rs := []) (fun r hr => by cases hr)
    rw [show serAll ([] : List Rec) = [] from rfl] at this
    rw [this]; rfl
  rw [hrem0, List.append_nil] at hnow
  -- the call over the Data bytes
  have hfq : n2.length ≤ p1.free := by
    have hg := parse_good s f5 none hinv.1 (Or.inl rfl) hf5
    rw [hp1] at hg
    obtain ⟨⟨dd, hrel⟩, -⟩ := hg
    unfold Str.Parser.free at hfree ⊢
    simp only [List.length_append] at hfree
    have e0 : (s.feed f5).freeStart = s.freeStart + f5.length := by
      simp only [Str.Parser.feed, Str.Parser.freeStart, List.length_append]; omega
    rw [hrel.fs, hrel.cap, e0]
    show n2.length ≤ s.cap - (s.freeStart + f5.length)
    omega
  have hcl := r2f_clean (id := id) (mc := mc) (cap := cap) (Rd := Rd) (s := p1) hig1.1
    (by rw [hrq1]; exact h2.ign.rid) hc5.hid (by rw [hmc1]; exact h2.mt.mc) hinv1 hr1.capK hr1.par hclean
    (fut := n2 ++ futd) hwd (owedI id mc R5)
  obtain ⟨p2, st2, o2, hp2, ho2, -, -, hr2, -⟩ := E2E.parse_r2f hcd hcl hfq
  -- the real call is the two virtual ones
  obtain ⟨hsame, hok⟩ := parse_append_ign hinv hig hfree hp1 hclean
  rw [hp2] at hsame hok
  refine ⟨o2, ?_, ⟨o1, hnow⟩, by rw [hok]; rfl, ?_⟩
  · rw [hsame, ho2, ho1, ← hnow, List.drop_left]
  · rw [hsame]; exact hr2

/-- **The ledger of a skip that crosses from the Stdin records into the Data records.**  `s`: the
ignoring parser at the moment the stream was dropped, inside the Stdin records (`R2`); the skip is
`N1` (calls that stay inside the Stdin records), the crossing call, `N2` (any legal calls); it ends
at a record boundary.  The replies generated up to the drop (`dO`) and during the skip are exactly
those owed for all Stdin records and the Data records `d` consumed. -/
theorem skip_cross_ledger {id mc cap : Nat} {R5 Rd : List Rec} (hc5 : R2Ctx id mc cap R5) (hcd : R2fCtx id mc cap Rd)
    {s : Str.Parser} {G f5 n2 fut dO : Bytes} {N1 N2 : List Op} {dest : Option Nat}
    (h2 : R2 id mc cap R5 s G (fedBytes N1 ++ f5) dO) (hinv : SInv s) (hig : Ign s)
    (hl : LegalAll s (N1 ++ Op.parse (f5 ++ n2) dest :: N2))
    (hwd : n2 ++ (fedBytes N2 ++ fut) = serAll Rd)
    (hb : (applyOps s (N1 ++ Op.parse (f5 ++ n2) dest :: N2)).isRecordBoundary = true) :
    ∃ d rs, Rd = d ++ rs ∧
      dO ++ C03S.grownAll s (N1 ++ Op.parse (f5 ++ n2) dest :: N2) = owedI id mc R5 ++ owedI id mc d ∧
      (applyOps s (N1 ++ Op.parse (f5 ++ n2) dest :: N2)).raw ++ fut = serAll rs := by
  obtain ⟨hl1, hlc⟩ := C02.LegalAll_append.1 hl
  obtain ⟨hlp, hl2⟩ := hlc
  -- inside the Stdin records
  obtain ⟨G1, hr1⟩ := r2_ops_any hc5 N1 s G f5 dO h2 hig hinv hl1
  have hig1 := (ops_ign N1 s hinv hig hl1).1
  have hinv1 := (Str.trace_safe hinv hl1).1
  -- the crossing call
  have hpd : (applyOps s N1).parse (f5 ++ n2) dest = (applyOps s N1).parse (f5 ++ n2) none := by
    cases dest with
    | none => rfl
    | some n => exact parse_ign_dest hinv1 hig1 hlp
  obtain ⟨o2, hout, ⟨z, hz⟩, hok, hr2⟩ := r2_cross hc5 hcd hr1 hinv1 hig1 hlp.2 hwd
  have hap : applyOp (applyOps s N1) (.parse (f5 ++ n2) dest) = ((applyOps s N1).parse (f5 ++ n2) none).1 := by
    simp only [applyOp, hpd]
  have hgrow : C03S.outGrowth (applyOps s N1) (.parse (f5 ++ n2) dest) =
      (owedI id mc R5).drop (dO ++ C03S.grownAll s N1).length ++ o2 := by
    simp only [C03S.outGrowth, hpd, hout, List.append_assoc, List.drop_left]
  have hig2 : Ign ((applyOps s N1).parse (f5 ++ n2) none).1 := by
    have := (applyOp_ign hinv1 hig1 hlp).1
    rw [hap] at this; exact this
  have hinv2 : SInv ((applyOps s N1).parse (f5 ++ n2) none).1 := by
    have := (Str.step_safe hinv1 hlp).1
    rw [hap] at this; exact this
  -- inside the Data records
  obtain ⟨G2, hr3⟩ := r2f_ops_any hcd N2 _ _ fut _ hr2 hig2 hinv2 (by rw [← hap]; exact hl2)
  have happ : applyOps s (N1 ++ Op.parse (f5 ++ n2) dest :: N2) =
      applyOps ((applyOps s N1).parse (f5 ++ n2) none).1 N2 := by
    rw [applyOps_append, Str.applyOps_cons, hap]
  have hgr : C03S.grownAll s (N1 ++ Op.parse (f5 ++ n2) dest :: N2) =
      C03S.grownAll s N1 ++ ((owedI id mc R5).drop (dO ++ C03S.grownAll s N1).length ++ o2 ++
        C03S.grownAll ((applyOps s N1).parse (f5 ++ n2) none).1 N2) := by
    rw [grownAll_append]
    show _ ++ (C03S.outGrowth (applyOps s N1) (.parse (f5 ++ n2) dest) ++
      C03S.grownAll (applyOp (applyOps s N1) (.parse (f5 ++ n2) dest)) N2) = _
    rw [hgrow, hap]
  rw [happ] at hb ⊢
  have hb' : (applyOps ((applyOps s N1).parse (f5 ++ n2) none).1 N2).pay = 0 ∧
      (applyOps ((applyOps s N1).parse (f5 ++ n2) none).1 N2).pad = 0 := by
    simpa [Str.Parser.isRecordBoundary] using hb
  have hp := hr3.ign.pos
  rw [hb'.1, hb'.2] at hp
  obtain ⟨rs, ⟨d, hd⟩, hrs⟩ := pos_boundary hp
  refine ⟨d, rs, hd.symm, ?_, hrs⟩
  have hnow := (hr3.now hcd).2.1
  have hrsR : ∀ r ∈ rs, DataRec id r := fun r hr => hcd.recs r (by rw [← hd]; exact List.mem_append_right _ hr)
  have hrem : (Rem (E1 id mc) (view1 (applyOps ((applyOps s N1).parse (f5 ++ n2) none).1 N2)) fut).out =
      owedI id mc rs := by
    unfold Rem
    show (ref (E1 id mc) (applyOps ((applyOps s N1).parse (f5 ++ n2) none).1 N2).state
      (applyOps ((applyOps s N1).parse (f5 ++ n2) none).1 N2).pay
      (applyOps ((applyOps s N1).parse (f5 ++ n2) none).1 N2).pad
      ((applyOps ((applyOps s N1).parse (f5 ++ n2) none).1 N2).raw ++ fut)).out = _
    rw [hb'.1, hb'.2, ref_eq_refWire, hrs, E2E.refWire_view1 id mc hrsR]
  rw [hrem, ← hd, owedI_append, ← List.append_assoc] at hnow
  have hfin := List.append_cancel_right hnow
  rw [hgr, ← hfin]
  have hpre : dO ++ C03S.grownAll s N1 ++ (owedI id mc R5).drop (dO ++ C03S.grownAll s N1).length = owedI id mc R5 := by
    rw [← hz, List.drop_left]
  simp only [← List.append_assoc]
  rw [hpre]

/-- `r2_start` for a FILTER whose parser is still in stream `Stdin` (it never switched to `Data`):
`set_stream(None)` after any history without effective switch; everything given so far lies inside
the Stdin records `R`. -/
theorem r2_start5 {id mc cap : Nat} {R : List Rec} (hc : R2Ctx id mc cap R) {p0 : Str.Parser}
    (h0 : Start ⟨id, 3, 5, mc⟩ p0) (hcap : p0.cap = cap) {H : List Op} (hl : LegalAll p0 H)
    (hns : NoSwitch ⟨id, 3, 5, mc⟩ H) {fut : Bytes} (hw : p0.raw ++ fedBytes H ++ fut = serAll R) :
    R2 id mc cap R ((applyOps p0 H).switchTo none) (p0.raw ++ fedBytes H) fut (C03S.grownAll p0 H) := by
  have hRwf : ∀ r ∈ R, r.WF := fun r hr => (hc.recs r hr).1
  have hR := E2E.stdin_recsOK hc.recs
  -- framing
  have hpos : Pos R (applyOps p0 H).raw (applyOps p0 H).pay (applyOps p0 H).pad fut := by
    refine ops_pos hRwf H p0 fut h0.inv (by exact hl) ?_
    rw [h0.pay, h0.pad, fedBytes_eq]
    exact pos_start R (by rw [← List.append_assoc]; exact hw)
  obtain ⟨-, hmt, hsinv, -⟩ := ops_refS (E := ⟨id, 3, 5, mc⟩) (x := []) H p0 h0.mtch h0.inv hl hns
  have hcapH : (applyOps p0 H).cap = cap := by rw [(C05.applyOps_frame H p0).1, hcap]
  refine ⟨⟨rfl, hmt.id, hpos⟩, ⟨hmt.id, rfl, rfl, hmt.mc, (by show 8 ∈ inputStreams 3; decide)⟩, ?_, hcapH, rfl,
    hw, ?_⟩
  · obtain ⟨h1, h2, h3, h4, _, h6⟩ := hsinv
    refine ⟨?_, h2, h3, ?_, Or.inr ⟨8, rfl, (by show 8 ∈ inputStreams 3; decide)⟩, h6⟩
    · simp only [Str.Parser.freeStart, view, Str.Parser.switchTo, Str.Parser.discardStream, List.length_nil] at h1 ⊢
      omega
    · show match (if (applyOps p0 H).state == .stream then SState.skip else (applyOps p0 H).state) with
        | .values v => v < 8 | _ => True
      rw [demote_eq]
      cases hst : (applyOps p0 H).state with
      | values v => rw [hst] at h4; exact h4
      | stream => trivial
      | skip => trivial
  · intro x hx
    have hxf : x <+: fut := by
      rw [← hw] at hx
      exact (List.prefix_append_right_inj _).1 hx
    have hclean0 : E2E.CleanW id 0 0 (p0.raw ++ fedBytes H ++ x) := E2E.clean_recs id R hR _ hx
    have hclean1 : E2E.CleanW id (applyOps p0 H).pay (applyOps p0 H).pad ((applyOps p0 H).raw ++ x) :=
      E2E.clean_pos hR hpos ((List.prefix_append_right_inj _).2 hxf)
    have hwv : refWire (Ev id mc) (p0.raw ++ fedBytes H ++ x) =
        switchRef (Ev id mc) (refWire ⟨id, 3, 5, mc⟩ (p0.raw ++ fedBytes H ++ x)) := by
      rw [← ref_eq_refWire (Ev id mc) .skip, ← ref_eq_refWire ⟨id, 3, 5, mc⟩ .skip]
      exact ref_switch (E := ⟨id, 3, 5, mc⟩) E2E.later358 _ .skip 0 0
    have hrem : Rem (Ev id mc) (view ((applyOps p0 H).switchTo none)) x =
        switchRef (Ev id mc) (Rem ⟨id, 3, 5, mc⟩ (applyOps p0 H) x) := by
      unfold Rem
      show ref (Ev id mc) (if (applyOps p0 H).state == .stream then SState.skip else (applyOps p0 H).state)
        (applyOps p0 H).pay (applyOps p0 H).pad ((applyOps p0 H).raw ++ x) = _
      rw [demote_eq]
      exact ref_switch (E := ⟨id, 3, 5, mc⟩) E2E.later358 _ (applyOps p0 H).state (applyOps p0 H).pay (applyOps p0 H).pad
    -- the ledger of the reading phase, for this `x`
    obtain ⟨lost, -, -, c1, c2, c3, c4, -⟩ := ops_refS (E := ⟨id, 3, 5, mc⟩) (x := x) H p0 h0.mtch h0.inv hl hns
    rw [rem_start h0, ← List.append_assoc] at c1 c2 c3 c4
    have h1 : refWire ⟨id, 3, 5, mc⟩ (p0.raw ++ fedBytes H ++ x) =
        (Rem ⟨id, 3, 5, mc⟩ (applyOps p0 H) x).pre (availOps p0 H ++ lost) (C03S.grownAll p0 H) :=
      refOut_ext (by rw [RefOut.pre_content]; exact c1.symm) (by rw [RefOut.pre_out]; exact c2.symm)
        c3.symm c4.symm
    rw [hwv, h1, switchRef_pre, hrem]


/-- **A Filter that never switches to `Data` and drops the stream from stream `Stdin`**, the skip
running on into the Data records. -/
theorem filter_unswitched_ledger {id mc cap : Nat} {R5 Rd : List Rec} (hc5 : R2Ctx id mc cap R5)
    (hcd : R2fCtx id mc cap Rd) {p0 : Str.Parser} (h0 : Start ⟨id, 3, 5, mc⟩ p0) (hcap : p0.cap = cap)
    {H N1 N2 : List Op} {f5 n2 fut : Bytes} {dest : Option Nat}
    (hl : LegalAll p0 (H ++ Op.setStream none :: (N1 ++ Op.parse (f5 ++ n2) dest :: N2)))
    (hns : NoSwitch ⟨id, 3, 5, mc⟩ H)
    (hw5 : p0.raw ++ fedBytes H ++ (fedBytes N1 ++ f5) = serAll R5)
    (hwd : n2 ++ (fedBytes N2 ++ fut) = serAll Rd)
    (hb : (applyOps p0 (H ++ Op.setStream none :: (N1 ++ Op.parse (f5 ++ n2) dest :: N2))).isRecordBoundary = true) :
    ∃ d rs, Rd = d ++ rs ∧
      C03S.grownAll p0 (H ++ Op.setStream none :: (N1 ++ Op.parse (f5 ++ n2) dest :: N2)) =
        owedI id mc R5 ++ owedI id mc d ∧
      (applyOps p0 (H ++ Op.setStream none :: (N1 ++ Op.parse (f5 ++ n2) dest :: N2))).raw ++ fut = serAll rs := by
  obtain ⟨hlH, hlN⟩ := C02.LegalAll_append.1 hl
  obtain ⟨-, hmt, -, -⟩ := ops_refS (E := ⟨id, 3, 5, mc⟩) (x := []) H p0 h0.mtch h0.inv hlH hns
  have hsw : applyOp (applyOps p0 H) (.setStream none) = (applyOps p0 H).switchTo none := by
    simp only [applyOp, Str.setStream_none]
    rw [if_neg (by rw [hmt.strm]; simp)]
  have hst := r2_start5 hc5 h0 hcap hlH hns hw5
  have hignS : Ign ((applyOps p0 H).switchTo none) := by
    rw [← hsw]; exact ign_of_setNone _ (fun h => by rw [hmt.strm] at h; cases h)
  have hinvS : SInv ((applyOps p0 H).switchTo none) := by
    rw [← hsw]; exact (Str.step_safe (Str.trace_safe h0.inv hlH).1 hlN.1).1
  have hlN' : LegalAll ((applyOps p0 H).switchTo none) (N1 ++ Op.parse (f5 ++ n2) dest :: N2) := by
    rw [← hsw]; exact hlN.2
  have happ : applyOps p0 (H ++ Op.setStream none :: (N1 ++ Op.parse (f5 ++ n2) dest :: N2)) =
      applyOps ((applyOps p0 H).switchTo none) (N1 ++ Op.parse (f5 ++ n2) dest :: N2) := by
    rw [applyOps_append, Str.applyOps_cons, hsw]
  have hgr : C03S.grownAll p0 (H ++ Op.setStream none :: (N1 ++ Op.parse (f5 ++ n2) dest :: N2)) =
      C03S.grownAll p0 H ++ C03S.grownAll ((applyOps p0 H).switchTo none) (N1 ++ Op.parse (f5 ++ n2) dest :: N2) := by
    rw [grownAll_append]
    show _ ++ ([] ++ C03S.grownAll (applyOp (applyOps p0 H) (.setStream none)) _) = _
    rw [hsw, List.nil_append]
  rw [happ] at hb ⊢
  rw [hgr]
  exact skip_cross_ledger hc5 hcd hst hinvS hignS hlN' hwd hb

end Fcgi.C05C
