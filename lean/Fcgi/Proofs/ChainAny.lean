import Fcgi.Proofs.IgnoreMode
import Fcgi.Proofs.ChainReads
import Fcgi.Props.C03StrSet
/-!
# C05 (2) for ANY legal history: what a stream parser delivers

Every legal operation history on a stream parser splits at its first `set_stream(None)`; what comes
before names streams only (`C03SS.SetSome`) and has at most one effective switch
(`C03SS.history_shape`); what comes after delivers nothing (`Str.ops_ign`).  So the bytes delivered
are `dA ++ dB`: `dA` a prefix of the first stream's reference content, `dB` (only after an effective
switch to a later stream `s'`) a prefix of that stream's.
-/
namespace Fcgi.C05C
open Fcgi Fcgi.Req Fcgi.Str Fcgi.Spec Fcgi.C03SI

/-- the ignore-mode invariant in the form every reachable parser satisfies -/
def IgnInv (p : Str.Parser) : Prop := p.stream = none → p.state ≠ .stream

theorem ignInv_fromParser (cap : Nat) (rq : Request) (e : Bytes) (mc : Nat) :
    IgnInv (Str.Parser.fromParser cap rq e mc) := fun _ h => by cases h

theorem ignInv_op {p : Str.Parser} {op : Op} (hinv : SInv p) (h : IgnInv p) (hl : Legal p op) :
    IgnInv (applyOp p op) := by
  cases hs : p.stream with
  | none => exact fun _ => (applyOp_ign hinv ⟨hs, h hs⟩ hl).1.2
  | some e =>
    cases op with
    | parse new dest =>
      intro hn
      rw [show (applyOp p (.parse new dest)).stream = p.stream from C18.parse_keeps_stream p new dest, hs] at hn
      cases hn
    | consumeStream amt => intro hn; rw [show (applyOp p (.consumeStream amt)).stream = p.stream from rfl, hs] at hn; cases hn
    | compress => intro hn; rw [show (applyOp p .compress).stream = p.stream from rfl, hs] at hn; cases hn
    | consumeOutput amt => intro hn; rw [show (applyOp p (.consumeOutput amt)).stream = p.stream from rfl, hs] at hn; cases hn
    | setStream st =>
      cases st with
      | none => exact fun _ => (ign_of_setNone p h).2
      | some s =>
        intro hn
        simp only [applyOp] at hn ⊢
        cases hr : p.setStream (some s) with
        | ok p' =>
          rw [hr] at hn
          rcases Str.setStream_ok_cases hr with ⟨-, rfl⟩ | ⟨-, rfl, -⟩
          · rw [hs] at hn; cases hn
          · cases hn
        | rejected => rw [hr] at hn; rw [hs] at hn; cases hn
        | panic x => rw [hr] at hn; rw [hs] at hn; cases hn

theorem ignInv_ops : ∀ (ops : List Op) (p : Str.Parser), SInv p → IgnInv p → LegalAll p ops →
    IgnInv (applyOps p ops) := by
  intro ops
  induction ops with
  | nil => intro p _ h _; exact h
  | cons op t ih =>
    intro p hinv h hl
    exact ih _ (Str.step_safe hinv hl.1).1 (ignInv_op hinv h hl.1) hl.2

/-- a history either names streams only, or splits at its first `set_stream(None)` -/
theorem split_none : ∀ (ops : List Op), C03SS.SetSome ops ∨
    ∃ H N, ops = H ++ Op.setStream none :: N ∧ C03SS.SetSome H := by
  intro ops
  induction ops with
  | nil => exact Or.inl (fun _ h => by cases h)
  | cons op t ih =>
    by_cases hop : op = .setStream none
    · subst hop
      exact Or.inr ⟨[], t, rfl, fun _ h => by cases h⟩
    · have hkeep : ∀ {A : List Op}, C03SS.SetSome A → C03SS.SetSome (op :: A) := by
        intro A hA st hm
        rcases List.mem_cons.1 hm with h | h
        · cases st with
          | none => exact absurd h.symm hop
          | some s => exact ⟨s, rfl⟩
        · exact hA st h
      rcases ih with h | ⟨H, N, rfl, hH⟩
      · exact Or.inl (hkeep h)
      · exact Or.inr ⟨op :: H, N, rfl, hkeep hH⟩

/-- histories without an effective switch: delivered bytes are a prefix of the reference content -/
theorem noSwitch_prefix {E : Cfg} {p0 : Str.Parser} (h0 : Start E p0) (ops : List Op) (hl : LegalAll p0 ops)
    (hns : NoSwitch E ops) (w : Bytes) (hfed : p0.raw ++ fedBytes ops <+: w) :
    deliveredOps p0 ops <+: (refWire E w).content := by
  obtain ⟨x, hx⟩ := hfed
  obtain ⟨lost, -, -, hc, -⟩ := ops_refS (E := E) (x := x) ops p0 h0.mtch h0.inv hl hns
  rw [rem_start h0, ← List.append_assoc, hx] at hc
  exact (delivered_le_avail h0.inv hl).trans ⟨lost ++ (Rem E (applyOps p0 ops) x).content, by rw [← hc]; simp [List.append_assoc]⟩

theorem deliveredOps_cons_set (p : Str.Parser) (st : Option Nat) (t : List Op) :
    deliveredOps p (.setStream st :: t) = deliveredOps (applyOp p (.setStream st)) t := by
  simp [deliveredOps, deliveredOp]

/-- histories naming streams only -/
theorem setSome_delivered {E : Cfg} {p0 : Str.Parser} (h0 : Start E p0) (ops : List Op) (hl : LegalAll p0 ops)
    (hs : C03SS.SetSome ops) (w : Bytes) (hfed : p0.raw ++ fedBytes ops <+: w) :
    ∃ dA dB, deliveredOps p0 ops = dA ++ dB ∧ dA <+: (refWire E w).content ∧
      (dB = [] ∨ ∃ s', Later E.role (some E.s) s' ∧
        dB <+: (switchRef (E.withStream s') (refWire E w)).content) := by
  rcases C03SS.history_shape E ops hs with hns | ⟨A, s', B, rfl, hA, hlat, hB⟩
  · exact ⟨_, [], (List.append_nil _).symm, noSwitch_prefix h0 ops hl hns w hfed, Or.inl rfl⟩
  · have h2 : C03SS.TwoPhase E p0 A s' B := ⟨hl, hA, hlat, hB⟩
    obtain ⟨-, pA, pB, -⟩ := C03SS.phase_prefix_sim h0 h2 w hfed
    obtain ⟨hlAS, hlB⟩ := C02.LegalAll_append.1 hl
    obtain ⟨hlA, hlS⟩ := C02.LegalAll_append.1 hlAS
    have hinvA := (Str.trace_safe h0.inv hlA).1
    have hinvS : SInv (C03SS.afterSwitch p0 A s') := (Str.step_safe hinvA hlS.1).1
    have hlB' : LegalAll (C03SS.afterSwitch p0 A s') B := by
      have := hlB
      rw [applyOps_append] at this
      exact this
    refine ⟨deliveredOps p0 A, deliveredOps (C03SS.afterSwitch p0 A s') B, ?_,
      (delivered_le_avail h0.inv hlA).trans pA, Or.inr ⟨s', hlat, (delivered_le_avail hinvS hlB').trans pB⟩⟩
    rw [deliveredOps_append, deliveredOps_append, applyOps_append]
    simp [deliveredOps, deliveredOp, C03SS.afterSwitch, List.append_assoc]

/-- **Any legal history.** -/
theorem any_delivered {E : Cfg} {p0 : Str.Parser} (h0 : Start E p0) (hI : IgnInv p0) (ops : List Op)
    (hl : LegalAll p0 ops) (w : Bytes) (hfed : p0.raw ++ fedBytes ops <+: w) :
    ∃ dA dB, deliveredOps p0 ops = dA ++ dB ∧ dA <+: (refWire E w).content ∧
      (dB = [] ∨ ∃ s', Later E.role (some E.s) s' ∧
        dB <+: (switchRef (E.withStream s') (refWire E w)).content) := by
  rcases split_none ops with hs | ⟨H, N, rfl, hH⟩
  · exact setSome_delivered h0 ops hl hs w hfed
  · obtain ⟨hlH, hlN⟩ := C02.LegalAll_append.1 hl
    have hfedH : p0.raw ++ fedBytes H <+: w := by
      refine List.IsPrefix.trans ?_ hfed
      rw [C02.fedBytes_append, ← List.append_assoc]
      exact List.prefix_append _ _
    obtain ⟨dA, dB, hd, hA, hB⟩ := setSome_delivered h0 H hlH hH w hfedH
    have hinvH := (Str.trace_safe h0.inv hlH).1
    have hIH := ignInv_ops H p0 h0.inv hI hlH
    have hign := ign_of_setNone (applyOps p0 H) hIH
    have hinvS := (Str.step_safe hinvH hlN.1).1
    obtain ⟨-, hN⟩ := ops_ign N _ hinvS hign hlN.2
    refine ⟨dA, dB, ?_, hA, hB⟩
    rw [deliveredOps_append, deliveredOps_cons_set, hN, List.append_nil, hd]

/-- a Responder has one input stream: no stream is later than `Stdin` -/
theorem no_later_responder (s' : Nat) : ¬ Later 1 (some 5) s' := by
  intro h
  have hm := Str.mem_of_Later h
  have : s' = 5 := by simpa [inputStreams, RT.stdin] using hm
  subst this
  exact absurd h.1 (Nat.lt_irrefl _)

end Fcgi.C05C
