import Fcgi.Proofs.E2EWritersNF
import Fcgi.Proofs.E2EWriters4
/-!
# The two-writer engine with `flush` (`Proofs/E2EWriters2`, `E2EWriters4`) without the model-fuel bound (`…NF`)

`WFOK.hfu : fcost W + 20 ≤ 1000` is gone (`WFOKN`): `write_phase3NF` asks for `scriptCost h + 1 ≤ fuel`, and at the polls
`scriptOf c` dominates the cost of the writes and flushes still in the script (`ftail_cost`, `otailF_cost`).  Copies by text
transformation (suffix `NF`) of the lemmas that take a `WFOK`; the write/flush loop lemmas (`tail_run3`, `open_phase3`,
`writeAll_run2F`, `run_stagesF`, `run_stagesN`) are shared.
-/
namespace Fcgi.E2E
open Fcgi Fcgi.Req Fcgi.Str Fcgi.Async Fcgi.Run Fcgi.Spec Fcgi.C09E

theorem curCost_flushN (sub : HSub) (i : Nat) : curCost sub (.flush i) = 1 := by cases sub <;> rfl

theorem fops_cost (W : FList) : fcost W ≤ ((W.map WOp.hop).map opCost).sum := by
  induction W with
  | nil => simp [fcost]
  | cons x W ih =>
    cases x with
    | w i d =>
      have := wcost_le d.length
      simp only [fcost, List.map_cons, List.sum_cons, WOp.hop, opCost] at ih ⊢
      omega
    | f i =>
      simp only [fcost, List.map_cons, List.sum_cons, WOp.hop, opCost] at ih ⊢
      omega

theorem ftail_cost (W : FList) (st : ExitStatus) : fcost W + 3 ≤ ((ftail W st).map opCost).sum := by
  have := fops_cost W
  simp only [ftail, List.map_append, List.sum_append, List.map_cons, List.sum_cons, opCost, List.map_nil, List.sum_nil]
  omega

theorem otailF_cost (W : FList) (st : ExitStatus) : fcost W + 5 ≤ ((otailF W st).map opCost).sum := by
  have := ftail_cost W st
  simp only [otailF, List.map_cons, List.sum_cons, opCost]
  omega

/-- `WFOK` without the model-fuel bound -/
structure WFOKN (g : Cfg) (W : FList) : Prop where
  wf : WellFormedPreamble g.p g.recs
  role : g.p.role = 1
  pairs : ∀ q ∈ g.p.pairs, (NV.enc q).length ≤ alignedBufsize g.b
  noise : NoiseFits (alignedBufsize g.b) g.recs
  hb : Body g.p.id 5 g.content g.body
  hf : NoiseFits (alignedBufsize g.b) g.body
  hp : g.pad.length < 256
  hX2 : g.X2 = []
  hX : g.X = serAll g.body ++ g.term.ser
  hU : g.U = g.term.ser
  hs : g.hscript = fscriptW W g.st

/-- **One poll of the tail**, the handler suspended in a `write_all` or in a `flush`. -/
theorem write_phase3NF {id : Nat} {W : FList} {st : ExitStatus} {Lb : Bytes}
    {r : AReq} {h : HState} {e : Run.Env} (hw : HW3 id W st Lb h e) (hb : Ben e.tr) (hok : FlOk e.tr)
    {fuel : Nat} (hf : scriptCost h + 1 ≤ fuel) :
    WOut3 id W st Lb r e (handlerPoll fuel r h e) := by
  obtain ⟨ops, sub, wsl, pr⟩ := h
  obtain ⟨hpr, i, W', ws, hws, hidle, hcase⟩ := hw
  simp only at hpr hws hcase
  subst hpr hws
  rcases hcase with ⟨data, L, sent, hops, hst, hlog, hL, hc⟩ | ⟨hops, hheld, hL, hc⟩
  · subst hops
    have hF := ftail_cost W' st
    have hwl := wcost_le (restOf sub data).length
    have hf : wcost (restOf sub data).length + fcost W' + 4 ≤ fuel := by
      simp only [scriptCost, curCost_writeAll] at hf
      omega
    rcases writeAll_run2F (ty := 6 + i.val) (me := i.val) (id := id) r data (ftail W' st) true (restOf sub data).length fuel sub
        (wtab ws) (ws i) e L sent (by show i.val < 2; exact i.isLt) (wtab_get ws i) (Nat.le_refl _) (by omega) hb hst hlog with
      ⟨w', e', rd', L', sent', d1, d2, d3, d4, d5, d6, d7, d8, d9, d10, d11, d12⟩ |
      ⟨w', e', f', d1, d2, d3, d4, d5, d6, d7, d8, d9⟩
    · rw [d1]
      refine ⟨rfl, d8, d9, d12, d7.tf, Or.inl ⟨rfl, d10, ?_, rfl, i, W', (fun j => if j = i then w' else ws j),
        wtab_set ws i w', ?_, Or.inl ⟨data, L', sent', rfl, ?_, d3, ?_, ?_⟩⟩⟩
      · show mu e'.tr < mu e.tr
        have := d12.length_le; unfold mu; omega
      · intro j hj; simp only [if_neg hj]; exact hidle j hj
      · simp only [if_true]; exact d5
      · show L' ++ (streamRecords (6 + i.val) id rd' ++ outOf id (writesOf W')) = _
        rw [← List.append_assoc, d4, List.append_assoc]; exact hL
      · show wcost rd'.length + fcost W' ≤ fcost W
        have : wcost rd'.length ≤ wcost (restOf sub data).length := by unfold wcost; omega
        omega
    · rw [d1, wtab_set]
      have hs1 : TStep e.tr (e'.ev "W=ok").tr := d6.trans (TStep.ev _ (by decide))
      refine (tail_run3 id r st W Lb W' f' (fun j => if j = i then w' else ws j) (e'.ev "W=ok") (by omega) (hb.step hs1)
        (hok.suffix d9) ?_ d5 ?_ (by omega)).after hs1 d9 d7 d8
      · intro j
        by_cases hj : j = i
        · subst hj; simp only [if_true]; exact d4
        · simp only [if_neg hj]; exact hidle j hj
      · show (e'.tr.ev "W=ok").wlog ++ outOf id (writesOf W') = _
        rw [Transport.ev_wlog, d3, List.append_assoc]; exact hL
  · subst hops
    have hF := ftail_cost W' st
    have hf : 1 + fcost W' + 4 ≤ fuel := by
      simp only [scriptCost, curCost_flushN] at hf
      omega
    obtain ⟨f, rfl⟩ : ∃ f, fuel = f + 1 := ⟨fuel - 1, by omega⟩
    rw [hp_flush f r i.val (ftail W' st) sub (wtab ws) (ws i) (wtab_get ws i) true e,
      pollFlush_eq (ws i) i.val e.mutex e.tr hheld.wr (Or.inr ⟨hheld.lock, hheld.mx⟩)]
    obtain ⟨c1, c2, c3, c4, c5, c6⟩ := flush_cases e.tr hok
    rcases hfl : e.tr.flush with ⟨t', res⟩
    rw [hfl] at c1 c2 c3 c4 c5 c6
    simp only at c1 c2 c3 c4 c5 c6
    rcases c6 with ⟨rfl, c7⟩ | ⟨rfl, c7, c8⟩
    · simp only
      rw [wtab_set]
      have hs1 : TStep e.tr (({ e with mutex := none, tr := t' } : Run.Env).ev "F=ok").tr :=
        c7.trans (TStep.ev _ (by decide))
      refine (tail_run3 id r st W Lb W' f (fun j => if j = i then { ws i with lock := .none } else ws j)
        (({ e with mutex := none, tr := t' } : Run.Env).ev "F=ok") (by omega) (hb.step hs1) (hok.suffix c3) ?_ rfl ?_
        (by omega)).after hs1 c3 c2 rfl
      · intro j
        by_cases hj : j = i
        · subst hj; simp only [if_true]; exact ⟨hheld.ty, hheld.id, rfl, hheld.wr⟩
        · simp only [if_neg hj]; exact hidle j hj
      · show (t'.ev "F=ok").wlog ++ outOf id (writesOf W') = _
        rw [Transport.ev_wlog, c1]; exact hL
    · simp only
      rw [wtab_set]
      refine ⟨rfl, c2, rfl, c3, c5, Or.inl ⟨rfl, c7, by show mu t' < mu e.tr; unfold mu; omega, rfl, i, W',
        (fun j => if j = i then { ws i with lock := .held } else ws j), rfl, ?_, Or.inr ⟨rfl, ?_, ?_, hc⟩⟩⟩
      · intro j hj; simp only [if_neg hj]; exact hidle j hj
      · simp only [if_true]; exact ⟨hheld.ty, hheld.id, rfl, hheld.wr, rfl⟩
      · show t'.wlog ++ _ = _
        rw [c1]; exact hL

theorem WFOKN.fok {g : Cfg} {W : FList} (ok : WFOKN g W) : FOK g := ⟨ok.wf, ok.pairs, ok.noise⟩

theorem WFOKN.hid {g : Cfg} {W : FList} (ok : WFOKN g W) : g.p.id < 65536 := (pid_of_wf ok.wf).2

theorem WFOKN.kok {g : Cfg} {W : FList} (ok : WFOKN g W) : g.K.OK := resp_kok ok.hid ok.hb ok.hf ok.hp ok.hX2 ok.hX

theorem WFOKN.kfin {g : Cfg} {W : FList} (ok : WFOKN g W) : g.K.final = true := by
  simp [RCtx.final, Cfg.K, ok.role, nextInputStream, RT.stdin]

theorem WFOKN.ku {g : Cfg} {W : FList} (ok : WFOKN g W) : g.K.U = g.U := by simp [Cfg.K, ok.hX2, ok.hU]

theorem WFOKN.front {g : Cfg} {W : FList} (ok : WFOKN g W) {us : List Rec} (hu : LeftOK (alignedBufsize g.b) us) :
    WFOKN (g.front us) W :=
  ⟨wf_idle ok.wf us hu.1, ok.role, ok.pairs, noiseFits_app hu.2 ok.noise, ok.hb, ok.hf, ok.hp, ok.hX2, ok.hX, ok.hU,
    ok.hs⟩

/-- **One poll** with the handler in one of its output ops. -/
theorem hwf_pollNF {g : Cfg} {W : FList} (ok : WFOKN g W) {c : Conn} (h : HWf g W c) (hok : FlOk c.env.tr) :
    RF g W 3 c := by
  obtain ⟨r, h, O1, hph, hw, hfin, hO, hseen, hb, hstop, hev, hsc⟩ := h
  have hfuel := handlerFuel_ge c.env r
  have hout := write_phase3NF (r := r) hw hb hok (fuel := (handlerFuel c.env r + scriptOf c)) (by rw [scriptOf_handler hph]; omega)
  exact bwrite_outF (r := r) (e0 := c.env) hph rfl hout (.refl _) (List.suffix_refl _) rfl hfin hO hseen hb hstop hev hsc

/-- the rest of a poll from the handler's `readAll` on -/
theorem ra_pollFNF {g : Cfg} {W : FList} (ok : WFOKN g W) {c : Conn} {r : AReq} {sub : HSub} {dO : Bytes}
    (hph : c.phase = .handler r { ops := .readAll :: otailF W g.st, sub := sub, propagate := true })
    (hs : RSt g.K g.L1 [] r c.env.mutex c.env.tr (accOf sub) dO)
    (hb : Ben c.env.tr) (hok : FlOk c.env.tr) (hstop : c.stop = false) (hev : Ev1 g c.env.tr) (hsc : c.scripts = g.more) :
    RF g W 3 c := by
  have hK := ok.kok
  obtain ⟨G0, hi0⟩ := hs.inv
  have hrl := hi0.rem_le hK
  have hcapr : r.sp.cap = g.cap := hi0.capK
  have hcapK : g.K.cap = g.cap := rfl
  have hcost : fcost W + 6 ≤ scriptOf c := by
    rw [scriptOf_handler hph]
    have := otailF_cost W g.st
    simp only [scriptCost, curCost_readAllN]
    omega
  have hfuel : g.K.cap / 32 + 3 * c.env.tr.input.length + fcost W + 14 ≤ (handlerFuel c.env r + scriptOf c) := by
    have := handlerFuel_ge' c.env r; rw [hcapr] at this; rw [hcapK]; omega
  rcases readAll_runF hK (L := g.L1) (P := []) (otailF W g.st) [] true
      (2 * ((g.K.C.length - (accOf sub).length) / 64) + 2 * c.env.tr.input.length + 2) ((handlerFuel c.env r + scriptOf c)) r sub c.env dO 1
      (by omega) (by omega) (fun h => by omega) hb hs with
    ⟨r', acc', e', dO', d1, d3, d5, d6, d8, d9, dfl⟩ |
    ⟨r', e', f', d1, d2, d3, dl, dm, d4, d5, d6, dw, d8, d9, dfl⟩
  · have hstep := C07.handler_step c r _ hph
    rw [d1] at hstep
    have hstep' : stepConn c = .halt ⟨.handler r' { ops := .readAll :: otailF W g.st, sub := .readAllAcc acc', propagate := true },
        e', c.scripts, c.stop⟩ .pending := hstep
    exact Or.inl (Or.inl (Or.inl ⟨_, (Halts.now hstep').mono (by omega), ⟨d6.w, d5, rfl⟩,
      Or.inl (Or.inr (Or.inl ⟨r', _, rfl, ⟨rfl, rfl, rfl, dO', d3⟩, hb.step d6, hstop, hev.step d6, hsc⟩)), d8, d9⟩))
  · obtain ⟨G1, hi1⟩ := d3.inv
    obtain ⟨O1, hlog1, hlog2⟩ := d3.log
    have hs1 : TStep c.env.tr (e'.ev (rEvent g.K.C)).tr := d9.trans (TStep.ev _ (isHS_rEvent _))
    have hfin : REnd g.N r' (e'.ev (rEvent g.K.C)).tr.input := by
      have := REnd.of_read hi1 (dw ok.kfin) dl d4 d5 d6
      have hN : g.K.ectx = g.N := by simp [RCtx.ectx, Cfg.N, Cfg.K, ok.hX2, ok.hU]
      rw [hN] at this; exact this
    have hreq : r'.sp.request = g.p.request := hi1.req
    have hid2 : r'.sp.request.id = g.p.id := by rw [hreq]; rfl
    have hw := open_phase3 (W := W) (st := g.st) (Lb := g.L1 ++ O1) (r := r') (e := e'.ev (rEvent g.K.C))
      (dw ok.kfin) dm (by show (e'.tr.ev _).wlog = _; rw [Transport.ev_wlog, hlog1])
      (hb.step hs1) (hok.suffix dfl) (fuel := f') (by have := d9.tle.input_len; omega)
    rw [hid2] at hw
    have hseen : QR g (e'.ev (rEvent g.K.C)).tr := by
      show rEvent g.content ∈ e'.tr.events ++ [rEvent g.K.C]
      simp [Cfg.K]
    have hO : O1 ++ r'.sp.output = g.Ob := by
      have : O1 ++ r'.sp.output = [] ++ g.K.O := hlog2
      simpa [Cfg.K, Cfg.Ob] using this
    exact bwrite_outF (r := r') (e0 := e'.ev (rEvent g.K.C)) (O1 := O1) hph d1 hw hs1 dfl d8 hfin hO hseen hb hstop hev hsc

theorem ha_pollNF {g : Cfg} {W : FList} (ok : WFOKN g W) {c : Conn} (h : HA3 g W c) (hok : FlOk c.env.tr) : RF g W 3 c := by
  obtain ⟨r, ⟨ops, sub, ws, pr⟩, hph, ⟨hops, hws, hpr, dO, hs⟩, hb, hstop, hev, hsc⟩ := h
  simp only at hops hws hpr hs
  subst hops hws hpr
  exact ra_pollFNF ok hph hs hb hok hstop hev hsc

/-- the first poll of the handler -/
theorem writersF_firstNF {g : Cfg} {W : FList} (ok : WFOKN g W) (c : Conn) (hc : FirstCfg g c) (hok : FlOk c.env.tr) :
    RF g W 6 c := by
  obtain ⟨e1, hph, hlen, hwire, hlog, hm, hb, hstop, hev, hsc⟩ := hc
  have hrole : g.p.request.role = 1 := ok.role
  have hstart : C03SI.Start g.K.E (Str.Parser.fromParser g.cap g.p.request e1 g.mc) :=
    C03SI.start_fresh g.cap g.p.request e1 g.mc hlen ok.hid (Or.inl hrole)
  have hrinv : RInv g.K (AReq.new (Str.Parser.fromParser g.cap g.p.request e1 g.mc)) e1 c.env.tr.input [] [] := by
    refine ⟨hstart.mtch, hstart.inv, rfl, rfl, rfl, hwire, fun x => ?_⟩
    have := C03SI.rem_start hstart x
    show refWire g.K.E (e1 ++ x) = (Rem g.K.E (Str.Parser.fromParser g.cap g.p.request e1 g.mc) x).pre [] []
    rw [this]; rfl
  have hrst : RSt g.K g.L1 [] (AReq.new (Str.Parser.fromParser g.cap g.p.request e1 g.mc)) c.env.mutex c.env.tr [] [] :=
    ⟨⟨e1, hrinv⟩, by rw [hm]; exact lockInv_free rfl, Or.inl hm, ⟨[], by rw [hlog, List.append_nil], rfl⟩⟩
  rw [ok.hs] at hph
  exact (ra_pollFNF ok (sub := .fresh) hph hrst hb hok hstop hev hsc).mono (by omega)

theorem sfw_pollNF {g : Cfg} {W : FList} (ok : WFOKN g W) {c : Conn} (h : SFw g W c) (hap : C12Inv.AllProp c)
    (hok : FlOk c.env.tr) : RF g W (2 * c.env.tr.input.length + 15) c := by
  have hwc := wcostAll_le W
  rcases h with (h | h | h) | h | h
  · rcases fstage_first ok.fok h with ⟨c', hh, hl, hS', hw, ha⟩ | ⟨k, c1, hk, hs, hl, hf⟩
    · exact Or.inl (Or.inl (Or.inl ⟨c', hh.mono (by omega), hl, Or.inl (Or.inl hS'), hw, ha⟩))
    · obtain ⟨hfl1, _⟩ := steps_fl hs hap
      exact (GResF.of_steps hs hl hap (writersF_firstNF ok c1 hf (hok.suffix hfl1))).mono (by omega)
  · exact (ha_pollNF ok h hok).mono (by omega)
  · exact (hwf_pollNF ok h hok).mono (by omega)
  · exact Or.inl ((hwq_pollWN (qr_mono g) h).mono (by omega))
  · exact Or.inl ((tq_pollW (qr_mono g) h).mono (by omega))

/-- **The executor**: a Responder whose handler reads all of Stdin and then runs any sequence of `write_all` and
`flush` calls on its two writers, over a transport with any script of `Pending`/`Ok` flush answers. -/
theorem run_writersFNF {g : Cfg} {W : FList} (ok : WFOKN g W) {Z : Bytes}
    (hns : NoStuckW g.cap g.mc (g.U ++ Z))
    (hNF : ∀ F x, F ++ x ++ Z = g.U ++ Z → (run .header F g.mc).st.isFinal = false)
    (em : EndMode) (evs0 : List String) (c : Conn) (n0 fuel : Nat) (hst : FStage g c)
    (hem : c.env.tr.endMode = em) (hev0 : ∀ s ∈ evs0, s ∈ c.env.tr.events)
    (hap : C12Inv.AllProp c) (hok : FlOk c.env.tr)
    (hsegs : c.env.segs = []) (hf : mu c.env.tr + 1 ≤ fuel) :
    ∃ c'' fin, runTask fuel c n0 none = (c'', fin) ∧
      (GEnd g.cap g.mc Z g.more (g.hs0 + 1)
          (fun i : Bytes × Bytes => g.p.flags.toNat % 2 = 1 ∧ i.1 ++ i.2 = g.Ob)
          (fun _ => g.U ++ Z) (fun i => g.Lw (writesOf W) i.1 i.2)
          (fun _ => [hsEvent g.p.request, rEvent g.content]) em evs0 (ans c.env.tr) c'' fin ∨
       (fin = "RET" ∧ FQW g (writesOf W) (QR g) c'' ∧ c''.env.tr.endMode = em ∧ (∀ s ∈ evs0, s ∈ c''.env.tr.events))) :=
  run_stagesF (cap24 g) (fun _ _ => hns) (fun _ _ => hNF)
    (fun _ _ h => SQW.cong (qr_mono g) (fun c c' h a b d e f => S0F.cong c c' h a b d e f) h)
    (fun _ h hap hok => (sfw_pollNF ok h hap hok).imp3 (fun c1 _ h => by
      obtain ⟨O1, O2, hO, q3, haf⟩ := h
      obtain ⟨raw, hph, hw, hraw⟩ := haf.ph
      exact ⟨(O1, O2), ⟨haf.keep, hO⟩,
        Or.inr ⟨raw, hph, by rw [hw], hraw, haf.log, haf.ben, haf.stop⟩,
        ⟨haf.sc, haf.mtx, haf.ev.1, fun s hs => by
          rcases List.mem_cons.1 hs with rfl | hs
          · exact haf.ev.2
          · rw [List.mem_singleton.1 hs]; exact q3⟩⟩))
    em evs0 c n0 fuel (Or.inl (Or.inl hst)) hem hev0 hap hok hsegs hf

/-- the request (KEEP_CONN) started from any `StartAt` of a chain: it ends parked behind its Stdin terminator, which
the stream parser never consumed -/
theorem serve_writersF_coreNF {g : Cfg} {W : FList} (ok : WFOKN g W) (hk : g.p.flags.toNat % 2 = 1) {left : List Rec}
    (hleft : LeftOK (alignedBufsize g.b) left) {Z : Bytes} (hT : IdleNoise g.term)
    (hZ : GoodNext g.cap g.mc [g.term] Z)
    {Lw : Bytes} {evs : List String} {A0 : Nat} {c : Conn} (n0 fuel : Nat)
    (hLw : Lw = g.L0 ++ idleOwed g.mc left)
    (hstart : StartAt g.cap g.mc left Lw ((g.hscript, true) :: g.more) g.hs0 evs A0 g.W c)
    (hap : C12Inv.AllProp c) (hok : FlOk c.env.tr) (hf : A0 + c.env.tr.fl.length + 1 ≤ fuel) :
    ∃ c' O1 O2, runTask fuel c n0 none = (c', "STALL") ∧ O1 ++ O2 = g.Ob ∧ rEvent g.content ∈ c'.env.tr.events ∧
      Waiting g.cap g.mc [g.term] ((g.front left).Lw (writesOf W) O1 O2 ++ idleOwed g.mc [g.term]) g.more (g.hs0 + 1)
        (hsEvent g.p.request :: evs) A0 c' := by
  have okf := ok.front hleft
  obtain ⟨hst, hsg, hem, hans, hev, hin⟩ := fstage_of_startAt hleft hLw hstart
  have hser : serAll [g.term] = g.term.ser := C02.serAll_single _
  have hidle : ∀ e ∈ [g.term], IdleNoise e := fun e he => by rw [List.mem_singleton.1 he]; exact hT
  have hU : (g.front left).U = g.term.ser := ok.hU
  obtain ⟨c', fin, hrun, hres⟩ :=
    run_writersFNF okf (Z := Z) (by rw [hU, ← hser]; exact hZ.1) (by rw [hU, ← hser]; exact hZ.2)
      .pend evs c n0 fuel hst hem hev hap hok hsg (by unfold mu; omega)
  rcases hres with ⟨⟨O1, O2⟩, ⟨hkp0, hO⟩, hkp, hem', hev', hans', hsg', hend⟩ |
      ⟨_, ⟨O1, O2, _, _, hfu⟩, _, _⟩
  · rcases hend with ⟨rfl, hp⟩ | ⟨_, hfn⟩
    · obtain ⟨F, hF, hps, hph, hlg⟩ := hp.pst
      have hFe : F = serAll [g.term] := by
        rw [hser, ← hU]; exact List.append_cancel_right hF
      subst hFe
      have hnf : (run .header (serAll [g.term]) g.mc).st.isFinal = false := (run_idle_out g.mc _ hidle).2.2
      have hob : (run .header (serAll [g.term]) (g.front left).mc).out = idleOwed g.mc [g.term] :=
        (run_idle_out g.mc _ hidle).1
      refine ⟨c', O1, O2, hrun, hO, hkp.ev _ (List.mem_cons_of_mem _ List.mem_cons_self), ⟨hph, hnf, hps.rem, hp.inp, by rw [hlg, hob],
        ⟨(g.front left).Lw (writesOf W) O1 O2, by
          show _ = _ ++ (run .header (serAll [g.term]) (g.front left).mc).out
          rw [hob]⟩, hps.stop, hps.ben, hkp.sc, hkp.mx,
        hkp.hs, ?_, hsg', hem', by omega⟩⟩
      intro s hs
      rcases List.mem_cons.1 hs with rfl | hs
      · exact hkp.ev _ List.mem_cons_self
      · exact hev' s hs
    · rw [hfn.em] at hem'; cases hem'
  · have := hfu.nokeep
    have e : (g.front left).p = g.p := rfl
    rw [e] at this
    omega

theorem sfw_pollNNF {g : Cfg} {W : FList} (ok : WFOKN g W) {c : Conn} (h : SFw g W c)
    (hok : FlOk c.env.tr) : RF g W (2 * c.env.tr.input.length + 15) c := by
  have hwc := wcostAll_le W
  rcases h with (h | h | h) | h | h
  · rcases fstage_first ok.fok h with ⟨c', hh, hl, hS', hw, ha⟩ | ⟨k, c1, hk, hs, hl, hf⟩
    · exact Or.inl (Or.inl (Or.inl ⟨c', hh.mono (by omega), hl, Or.inl (Or.inl hS'), hw, ha⟩))
    · have hfl1 := steps_fs hs
      exact (GResF.of_stepsN hs hl (writersF_firstNF ok c1 hf (hok.suffix hfl1))).mono (by omega)
  · exact (ha_pollNF ok h hok).mono (by omega)
  · exact (hwf_pollNF ok h hok).mono (by omega)
  · exact Or.inl ((hwq_pollWN (qr_mono g) h).mono (by omega))
  · exact Or.inl ((tq_pollW (qr_mono g) h).mono (by omega))

/-- **The executor**: a Responder whose handler reads all of Stdin and then runs any sequence of `write_all` and
`flush` calls on its two writers, over a transport with any script of `Pending`/`Ok` flush answers. -/
theorem run_writersNNF {g : Cfg} {W : FList} (ok : WFOKN g W) {Z : Bytes}
    (hns : NoStuckW g.cap g.mc (g.U ++ Z))
    (hNF : ∀ F x, F ++ x ++ Z = g.U ++ Z → (run .header F g.mc).st.isFinal = false)
    (em : EndMode) (evs0 : List String) (c : Conn) (n0 fuel : Nat) (hst : FStage g c)
    (hem : c.env.tr.endMode = em) (hev0 : ∀ s ∈ evs0, s ∈ c.env.tr.events)
    (hok : FlOk c.env.tr)
    (hsegs : c.env.segs = []) (hf : mu c.env.tr + 1 ≤ fuel) :
    ∃ c'' fin, runTask fuel c n0 none = (c'', fin) ∧
      (GEnd g.cap g.mc Z g.more (g.hs0 + 1)
          (fun i : Bytes × Bytes => g.p.flags.toNat % 2 = 1 ∧ i.1 ++ i.2 = g.Ob)
          (fun _ => g.U ++ Z) (fun i => g.Lw (writesOf W) i.1 i.2)
          (fun _ => [hsEvent g.p.request, rEvent g.content]) em evs0 (ans c.env.tr) c'' fin ∨
       (fin = "RET" ∧ FQW g (writesOf W) (QR g) c'' ∧ c''.env.tr.endMode = em ∧ (∀ s ∈ evs0, s ∈ c''.env.tr.events))) :=
  run_stagesN (cap24 g) (fun _ _ => hns) (fun _ _ => hNF)
    (fun _ _ h => SQW.cong (qr_mono g) (fun c c' h a b d e f => S0F.cong c c' h a b d e f) h)
    (fun _ h hok => (sfw_pollNNF ok h hok).imp3 (fun c1 _ h => by
      obtain ⟨O1, O2, hO, q3, haf⟩ := h
      obtain ⟨raw, hph, hw, hraw⟩ := haf.ph
      exact ⟨(O1, O2), ⟨haf.keep, hO⟩,
        Or.inr ⟨raw, hph, by rw [hw], hraw, haf.log, haf.ben, haf.stop⟩,
        ⟨haf.sc, haf.mtx, haf.ev.1, fun s hs => by
          rcases List.mem_cons.1 hs with rfl | hs
          · exact haf.ev.2
          · rw [List.mem_singleton.1 hs]; exact q3⟩⟩))
    em evs0 c n0 fuel (Or.inl (Or.inl hst)) hem hev0 hok hsegs hf

end Fcgi.E2E
