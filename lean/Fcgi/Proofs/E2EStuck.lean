import Fcgi.Proofs.E2EFatal
/-!
# C06 end to end: the request parser gets stuck on its input

`parse_loop_gen`: `E2E.parse_loop` without the global hypothesis `NoStuckW` — the bytes consumed so far
are not stuck (invariant), and a poll may additionally end in `SOut`: the next read returns bytes that
fill the buffer without completing anything.  `stuck_step`: that `parse` call reports `done` with the
parser in `Fatal(StuckOnInput)`; `WSt` / `wst_poll`: the final `write_all` of what was produced so
far, then `into_stream_parser` fails and the task ends.
-/
namespace Fcgi.C06E
open Fcgi Fcgi.Req Fcgi.Str Fcgi.Async Fcgi.Run Fcgi.Spec Fcgi.E2E

/-- the bytes consumed so far have not filled the buffer with an unfinished unit -/
def NonStuck (cap mc : Nat) (F : Bytes) : Prop :=
  (run .header F mc).st.isFinal = true ∨ (run .header F mc).rem.length < cap

/-- the poll is about to get stuck: in `reading`, the read returns `bs`, and `F ++ bs` is stuck -/
def SOut (cap mc : Nat) (W0 L0 Z : Bytes) (Q : Bytes → Prop) (c1 : Conn) (F1 : Bytes) : Prop :=
  ∃ t bs, c1.phase = .parseReq (track cap mc F1) .reading ∧ (run .header F1 mc).st.isFinal = false ∧
    c1.env.tr.read (track cap mc F1).free = (t, .ready (.ok bs)) ∧ bs ≠ [] ∧
    bs.length ≤ (track cap mc F1).free ∧ ¬ NonStuck cap mc (F1 ++ bs) ∧ Q (F1 ++ bs) ∧
    F1 ++ bs ++ t.input ++ Z = W0 ∧ c1.env.tr.wlog = L0 ++ (run .header F1 mc).out ∧
    t.wlog = c1.env.tr.wlog ∧ Ben c1.env.tr ∧ TStep c1.env.tr t ∧ c1.stop = false ∧
    (run .header F1 mc).rem.length ≤ cap

theorem parse_loop_gen {cap mc : Nat} {W0 L0 Z : Bytes} (h24 : 24 ≤ cap) {Q : Bytes → Prop}
    (hQ : ∀ F bs, Q F → (run .header F mc).rem.length + bs.length ≤ cap → F ++ bs <+: W0 → Q (F ++ bs)) :
    ∀ (M : Nat) (c : Conn) (F : Bytes), PSt cap mc W0 L0 Z c F → NonStuck cap mc F ∧ Q F →
      2 * c.env.tr.input.length + wbit c ≤ M →
      ∃ n c1 F1, n ≤ M + 1 ∧ Steps n c c1 ∧ Frame c c1 ∧ (NonStuck cap mc F1 ∧ Q F1) ∧ ∃ a, F1 = F ++ a ∧
        (POut cap mc W0 L0 Z c1 F1 ∨ SOut cap mc W0 L0 Z Q c1 F1) := by
  intro M
  induction M using Nat.strongRecOn with
  | _ M ih =>
    intro c F hst hF hM
    obtain ⟨hwire, hstop, hben, hrem, hph⟩ := hst
    rcases hph with ⟨hphase, hnf, hlog⟩ | ⟨rest, hphase, hlog, opre, hopre⟩
    · -- reading
      by_cases hin : c.env.tr.input = []
      · exact ⟨0, c, F, by omega, .refl _, .refl _, hF, [], (List.append_nil F).symm, Or.inl
          (Or.inr (Or.inr ⟨hin, hnf, hphase, ⟨hwire, hstop, hben, hrem, Or.inl ⟨hphase, hnf, hlog⟩⟩⟩))⟩
      · have hfreepos : 0 < (track cap mc F).free := by
          rcases hF.1 with h | h
          · rw [hnf] at h; cases h
          · simp only [track, Req.Parser.free]; omega
        have hstep := step_reading c _ hphase hstop
        rcases hrd : c.env.tr.read (track cap mc F).free with ⟨t, res⟩
        rw [hrd] at hstep
        have hts := read_tstep hrd
        cases res with
        | pending =>
          obtain ⟨hi, hw | hw⟩ := read_pending hben hrd
          · refine ⟨0, c, F, by omega, .refl _, .refl _, hF, [], (List.append_nil F).symm, Or.inl
              (Or.inl ⟨{ c with env := { c.env with tr := t } }, hstep, ?_, ⟨rfl, rfl, rfl, rfl, hts⟩, hw.1, hw.2⟩)⟩
            have hwl : t.wlog = c.env.tr.wlog := by have := read_wlog c.env.tr (track cap mc F).free; rwa [hrd] at this
            exact ⟨by simpa [hi] using hwire, hstop, hben.step hts, hrem,
              Or.inl ⟨hphase, hnf, by simpa [hwl] using hlog⟩⟩
          · exact absurd hw.1 hin
        | ready x =>
          cases x with
          | error e => exact (read_error hben hrd).elim
          | ok bs =>
            obtain ⟨hinp, hwl, hlen, hz⟩ := read_ok_ben hben hrd
            have hbne : bs ≠ [] := by
              intro hx
              rcases hz hx with hz | hz
              · omega
              · exact hin hz.1
            have hpre2 : F ++ bs <+: W0 := by
              refine ⟨t.input ++ Z, ?_⟩
              rw [← hwire, hinp]
              simp only [List.append_assoc]
            have hq2 : Q (F ++ bs) := hQ F bs hF.2 (by
                simp only [track, Req.Parser.free] at hlen; omega) ⟨t.input ++ Z, by
                rw [← hwire, hinp]; simp only [List.append_assoc]⟩
            by_cases hns2 : NonStuck cap mc (F ++ bs)
            case neg =>
              exact ⟨0, c, F, by omega, .refl _, .refl _, hF, [], (List.append_nil F).symm, Or.inr
                ⟨t, bs, hphase, hnf, hrd, hbne, hlen, hns2, hq2, by
                  rw [← hwire, hinp]; simp only [List.append_assoc], hlog, hwl, hben, hts, hstop, hrem⟩⟩
            obtain ⟨o, hpar, hout⟩ := parse_track h24 hrem hbne hlen hns2
            have hstep' : stepConn c = .next { c with
                phase := .parseReq (track cap mc (F ++ bs)) (.writing o (run .header (F ++ bs) mc).st.isFinal),
                env := { c.env with tr := t } } := by
              rw [hstep]
              cases bs with
              | nil => exact absurd rfl hbne
              | cons b bs' => simp only [hpar]
            have hrem' : (run .header (F ++ bs) mc).rem.length ≤ cap := by
              have hsplit := Req.run_split (st := .header) trivial F bs mc hbne
              rw [hsplit]
              have hw1 := (run_ok F mc (st := .header) trivial).2.1
              have := (run_ok ((run .header F mc).rem ++ bs) mc hw1).2.2.length_le
              simp only [List.length_append] at this
              simp only [track, Req.Parser.free] at hlen
              show (run (run .header F mc).st ((run .header F mc).rem ++ bs) mc).rem.length ≤ cap
              omega
            have hlt : t.input.length < c.env.tr.input.length := by
              have := congrArg List.length hinp
              have : 0 < bs.length := List.length_pos_iff.mpr hbne
              simp only [List.length_append] at *
              omega
            have hst' : PSt cap mc W0 L0 Z { c with
                phase := .parseReq (track cap mc (F ++ bs)) (.writing o (run .header (F ++ bs) mc).st.isFinal),
                env := { c.env with tr := t } } (F ++ bs) := by
              refine ⟨?_, hstop, hben.step hts, hrem', Or.inr ⟨o, rfl, ?_⟩⟩
              · show (F ++ bs) ++ t.input ++ Z = W0
                rw [List.append_assoc F, ← hinp]; exact hwire
              · refine ⟨?_, (run .header F mc).out, hout⟩
                show t.wlog ++ o = _
                rw [hwl, hlog, hout, List.append_assoc]
            obtain ⟨n, c1, F1, hn, hs, hfr, hF1, a, ha, hout'⟩ := ih (2 * t.input.length + 1) (by
                have : wbit c = 0 := by simp [wbit, hphase]
                omega) _ _ hst' ⟨hns2, hq2⟩ (by simp [wbit])
            exact ⟨n + 1, c1, F1, by omega, .step hstep' hs,
              Frame.trans (Frame.mk' c _ t hts) hfr, hF1, bs ++ a, by rw [ha, List.append_assoc], hout'⟩
    · -- in `write_all`
      have hwb : wbit c = 1 := by simp [wbit, hphase]
      rcases hwa : writeAllLoop (rest.length + 1) rest c.env.tr with ⟨rest', t', res⟩
      obtain ⟨hts, hinp, ⟨dn, hd, hl⟩, hres⟩ := writeAllLoop_ben _ _ _ hben (Nat.lt_succ_self _) hwa
      rcases hres with ⟨rfl, rfl⟩ | ⟨rfl, hne, hwk, hans⟩
      · simp only [List.append_nil] at hd
        subst hd
        cases hfin : (run .header F mc).st.isFinal with
        | true =>
          rw [hfin] at hphase
          exact ⟨0, c, F, by omega, .refl _, .refl _, hF, [], (List.append_nil F).symm, Or.inl
            (Or.inr (Or.inl ⟨rest, t', hphase, hfin, hwire, hstop, hben, hrem, hwa,
            by rw [hl, hlog], hts, hinp⟩))⟩
        | false =>
          rw [hfin] at hphase
          have hstep := step_writing_more c _ rest [] t' hphase hstop hwa
          have hst' : PSt cap mc W0 L0 Z
              { c with phase := .parseReq (track cap mc F) .reading, env := { c.env with tr := t' } } F :=
            ⟨by simpa [hinp] using hwire, hstop, hben.step hts, hrem,
              Or.inl ⟨rfl, hfin, by show t'.wlog = _; rw [hl, hlog]⟩⟩
          obtain ⟨n, c1, F1, hn, hs, hfr, hF1, a, ha, hout'⟩ := ih (2 * c.env.tr.input.length) (by omega) _ _ hst' hF
            (by simp [wbit, hinp])
          exact ⟨n + 1, c1, F1, by omega, .step hstep hs, Frame.trans (Frame.mk' c _ t' hts) hfr, hF1, a, ha, hout'⟩
      · have hstep := step_writing_pending c _ rest _ rest' t' hphase hstop hwa
        refine ⟨0, c, F, by omega, .refl _, .refl _, hF, [], (List.append_nil F).symm, Or.inl (Or.inl
          ⟨{ c with phase := .parseReq (track cap mc F) (.writing rest' (run .header F mc).st.isFinal), env := { c.env with tr := t' } },
            hstep, ?_, ⟨rfl, rfl, rfl, rfl, hts⟩, hwk, hans⟩)⟩
        refine ⟨by simpa [hinp] using hwire, hstop, hben.step hts, hrem, Or.inr ⟨rest', rfl, ?_, opre ++ dn, ?_⟩⟩
        · show t'.wlog ++ rest' = _
          rw [hl, List.append_assoc, ← hd, hlog]
        · rw [hopre, hd, List.append_assoc]


/-- **The call that gets stuck.**  The chunk fits the free space, the loop does not reach a final state, and
what is left fills the buffer: `parse` reports `done` with the state `Fatal(StuckOnInput)`. -/
theorem stuck_parse {cap mc : Nat} (h24 : 24 ≤ cap) {F bs : Bytes}
    (hrem : (run .header F mc).rem.length ≤ cap) (hbs : bs ≠ [])
    (hfree : bs.length ≤ (track cap mc F).free) (hst : ¬ NonStuck cap mc (F ++ bs)) :
    ∃ o rem', (track cap mc F).parse bs =
        (⟨cap, rem', .fatal .stuckOnInput, mc⟩, some { done := true, output := o }) ∧ rem'.length = cap ∧
      (run .header (F ++ bs) mc).out = (run .header F mc).out ++ o := by
  have hsplit := Req.run_split (st := .header) trivial F bs mc hbs
  have hp := track_inv h24 hrem (mc := mc)
  have hnf : (run .header (F ++ bs) mc).st.isFinal = false := by
    cases h : (run .header (F ++ bs) mc).st.isFinal with
    | false => rfl
    | true => exact (hst (Or.inl h)).elim
  have hbig : cap ≤ (run .header (F ++ bs) mc).rem.length := by
    have : ¬ (run .header (F ++ bs) mc).rem.length < cap := fun h => hst (Or.inr h)
    omega
  have hle : (run .header (F ++ bs) mc).rem.length ≤ cap := by
    rw [hsplit]
    have := (run_ok ((run .header F mc).rem ++ bs) mc (st := (run .header F mc).st) hp.2.1).2.2.length_le
    simp only [List.length_append] at this
    simp only [track, Req.Parser.free] at hfree
    show (run (run .header F mc).st ((run .header F mc).rem ++ bs) mc).rem.length ≤ cap
    omega
  rw [hsplit] at hnf hbig hle
  have hpar := parse_eq hp hfree
  simp only [track] at hpar
  refine ⟨(run (run .header F mc).st ((run .header F mc).rem ++ bs) mc).out,
    (run (run .header F mc).st ((run .header F mc).rem ++ bs) mc).rem, ?_, ?_, ?_⟩
  · simp only [track]
    simp only at hnf hbig hle
    have hc : (!(run (run .header F mc).st ((run .header F mc).rem ++ bs) mc).st.isFinal &&
        (run (run .header F mc).st ((run .header F mc).rem ++ bs) mc).rem.length == cap) = true := by
      simp only [hnf, Bool.not_false, Bool.true_and, beq_iff_eq]
      omega
    rw [hpar]
    simp only [hc, if_true]
  · simp only at hbig hle; omega
  · rw [hsplit]

/-! ## The final `write_all` of a failed `parse_request` -/

/-- the request parser is in a fatal state; `write_all` of the last output is in progress; when it is
through, the write log is `Lf` -/
def WSt (e : PErr) (Lf : Bytes) (c : Conn) : Prop :=
  ∃ rp rest, c.phase = .parseReq rp (.writing rest true) ∧ rp.state = .fatal e ∧ c.stop = false ∧
    Ben c.env.tr ∧ c.env.tr.wlog ++ rest = Lf

theorem wst_poll {e : PErr} {Lf : Bytes} {c : Conn} (h : WSt e Lf c) :
    ∃ c' r, Halts 1 c c' r ∧ Frame c c' ∧
      ((r = .pending ∧ WSt e Lf c' ∧ c'.env.tr.woken = true ∧ ans c'.env.tr < ans c.env.tr) ∨
       (r = .finished ∧ c'.phase = .finished ∧ c'.env.tr.wlog = Lf)) := by
  obtain ⟨rp, rest, hph, hfat, hstop, hben, hlog⟩ := h
  rcases hwa : writeAllLoop (rest.length + 1) rest c.env.tr with ⟨rest', t', res⟩
  obtain ⟨hts, hinp, ⟨dn, hd, hl⟩, hres⟩ := writeAllLoop_ben _ _ _ hben (Nat.lt_succ_self _) hwa
  rcases hres with ⟨rfl, rfl⟩ | ⟨rfl, hne, hwk, hans⟩
  · have hstep := step_writing_fatal c rp rest t' e hph hstop hwa hfat
    refine ⟨_, .finished, Halts.now hstep, Frame.mk' c .finished t' hts, Or.inr ⟨rfl, rfl, ?_⟩⟩
    show t'.wlog = Lf
    rw [hl, ← hlog, hd, List.append_nil]
  · have hstep := step_writing_pending c rp rest true rest' t' hph hstop hwa
    refine ⟨_, .pending, Halts.now hstep, Frame.mk' c _ t' hts, Or.inl ⟨rfl, ?_, hwk, hans⟩⟩
    refine ⟨rp, rest', rfl, hfat, hstop, hben.step hts, ?_⟩
    show t'.wlog ++ rest' = Lf
    rw [hl, ← hlog, hd, List.append_assoc]

/-! ## The context: a unit that does not fit -/

/-- `W = Wk ++ Z`; up to `Wk` no prefix is final; `Wk` itself leaves at least `cap` unparsed bytes; a
read into the free space cannot jump over the end of `Wk`; every stuck prefix has produced `O`. -/
structure SCtx (cap mc : Nat) (Wk W : Bytes) (O : Bytes) : Prop where
  cap24 : 24 ≤ cap
  pre : Wk <+: W
  nf : ∀ F, F <+: Wk → (run .header F mc).st.isFinal = false
  big : cap ≤ (run .header Wk mc).rem.length
  inside : ∀ F bs, F <+: Wk → (run .header F mc).rem.length + bs.length ≤ cap → F ++ bs <+: W → F ++ bs <+: Wk
  out : ∀ F, F <+: Wk → cap ≤ (run .header F mc).rem.length → (run .header F mc).out = O

/-- the stage: still parsing (inside `Wk`, not stuck), or already in the final write -/
def SSt (cap mc : Nat) (Wk W L0 O : Bytes) (c : Conn) : Prop :=
  (∃ F, PSt cap mc W L0 [] c F ∧ NonStuck cap mc F ∧ F <+: Wk) ∨ WSt .stuckOnInput (L0 ++ O) c

def SFOut (cap mc : Nat) (Wk W L0 O : Bytes) (c c' : Conn) (r : PRes) : Prop :=
  (r = .pending ∧ SSt cap mc Wk W L0 O c' ∧ c'.env.tr.woken = true ∧ ans c'.env.tr < ans c.env.tr) ∨
  (r = .finished ∧ c'.phase = .finished ∧ c'.env.tr.wlog = L0 ++ O)

theorem stuck_poll {cap mc : Nat} {Wk W L0 O : Bytes} (K : SCtx cap mc Wk W O) {c : Conn}
    (hst : SSt cap mc Wk W L0 O c) :
    ∃ c' r, Halts (2 * c.env.tr.input.length + 5) c c' r ∧ Frame c c' ∧ SFOut cap mc Wk W L0 O c c' r := by
  rcases hst with ⟨F, hst, hF, hpre⟩ | hw
  · obtain ⟨n, c1, F1, hn, hs, hfr, ⟨hF1, hpre1⟩, a, ha, hout⟩ :=
      parse_loop_gen (Q := fun F => F <+: Wk) K.cap24 (fun F bs h1 h2 h3 => K.inside F bs h1 h2 h3)
        _ c F hst ⟨hF, hpre⟩ (Nat.le_refl _)
    have hnb : n ≤ 2 * c.env.tr.input.length + 2 := by have := wbit_le c; omega
    rcases hout with (⟨c2, h1, h2, h3, h4, h5⟩ | ⟨rest, t', hph, hf, hw, hstop, _, _, hwa, hlog, hts, _⟩ | ⟨hin, hnf, hph, hst1⟩) |
        ⟨t, bs, hph, hnf, hrd, hbne, hlen, hns, hq, hwire, hlog, hwl, hben, hts, hstop, hrem⟩
    · refine ⟨c2, .pending, ⟨n, c1, by omega, hs, h1⟩, hfr.trans h3,
        Or.inl ⟨rfl, Or.inl ⟨F1, h2, hF1, hpre1⟩, h4, ?_⟩⟩
      have := hfr.ts.ans_le; omega
    · rw [K.nf F1 hpre1] at hf; cases hf
    · exfalso
      have hF1W : F1 = W := by
        have := hst1.wire
        rwa [hin, List.append_nil, List.append_nil] at this
      have hWk : F1 = Wk := by
        obtain ⟨z, hz⟩ := K.pre
        obtain ⟨y, hy⟩ := hpre1
        have : z = [] ∧ y = [] := by
          have h1 := congrArg List.length hz
          have h2 := congrArg List.length hy
          rw [← hF1W] at h1
          simp only [List.length_append] at h1 h2
          constructor <;> apply List.eq_nil_of_length_eq_zero <;> omega
        rw [← hy, this.2, List.append_nil]
      rcases hF1 with h | h
      · rw [hnf] at h; cases h
      · have := K.big; rw [← hWk] at this; omega
    · -- the read that fills the buffer
      obtain ⟨o, rem', hpar, hrl, hout⟩ := stuck_parse K.cap24 hrem hbne hlen hns
      have hstep := step_reading c1 _ hph hstop
      rw [hrd] at hstep
      have hstep' : stepConn c1 = .next { c1 with
          phase := .parseReq ⟨cap, rem', .fatal .stuckOnInput, mc⟩ (.writing o true),
          env := { c1.env with tr := t } } := by
        rw [hstep]
        cases bs with
        | nil => exact absurd rfl hbne
        | cons b bs' => simp only [hpar]
      have hbig : cap ≤ (run .header (F1 ++ bs) mc).rem.length := by
        have : ¬ (run .header (F1 ++ bs) mc).rem.length < cap := fun h => hns (Or.inr h)
        omega
      have hO := K.out _ hq hbig
      have hw : WSt .stuckOnInput (L0 ++ O) { c1 with
          phase := .parseReq ⟨cap, rem', .fatal .stuckOnInput, mc⟩ (.writing o true),
          env := { c1.env with tr := t } } :=
        ⟨_, o, rfl, rfl, hstop, hben.step hts, by
          show t.wlog ++ o = _
          rw [hwl, hlog, List.append_assoc, ← hout, hO]⟩
      obtain ⟨c', r, hh, hfr2, ho⟩ := wst_poll hw
      have hh' := Halts.of_steps (hs.trans (Steps.one hstep')) hh
      have hfr' : Frame c c' := (hfr.trans (Frame.mk' c1 _ t hts)).trans hfr2
      refine ⟨c', r, hh'.mono (by omega), hfr', ?_⟩
      rcases ho with ⟨rfl, h1, h2, h3⟩ | ⟨rfl, h1, h2⟩
      · refine Or.inl ⟨rfl, Or.inr h1, h2, ?_⟩
        have h4 := hfr.ts.ans_le
        have h5 := hts.ans_le
        have h3' : ans c'.env.tr < ans t := h3
        omega
      · exact Or.inr ⟨rfl, h1, h2⟩
  · obtain ⟨c', r, hh, hfr, ho⟩ := wst_poll hw
    refine ⟨c', r, hh.mono (by omega), hfr, ?_⟩
    rcases ho with ⟨rfl, h1, h2, h3⟩ | ⟨rfl, h1, h2⟩
    · exact Or.inl ⟨rfl, Or.inr h1, h2, h3⟩
    · exact Or.inr ⟨rfl, h1, h2⟩

theorem WSt.cong {e : PErr} {Lf : Bytes} {c c' : Conn} (h : WSt e Lf c) (hph : c'.phase = c.phase) (hstop : c'.stop = c.stop)
    (hs : TrSame c.env.tr c'.env.tr) : WSt e Lf c' := by
  obtain ⟨rp, rest, h1, h2, h3, h4, h5⟩ := h
  exact ⟨rp, rest, hph.trans h1, h2, hstop.trans h3, hs.ben h4, by rw [hs.wlog]; exact h5⟩

theorem SSt.cong {cap mc : Nat} {Wk W L0 O : Bytes} {c c' : Conn} (h : SSt cap mc Wk W L0 O c)
    (hph : c'.phase = c.phase) (hstop : c'.stop = c.stop) (hs : TrSame c.env.tr c'.env.tr) :
    SSt cap mc Wk W L0 O c' := by
  rcases h with ⟨F, h1, h2, h3⟩ | h
  · exact Or.inl ⟨F, h1.cong hph hstop hs, h2, h3⟩
  · exact Or.inr (h.cong hph hstop hs)

theorem SSt.stop {cap mc : Nat} {Wk W L0 O : Bytes} {c : Conn} (h : SSt cap mc Wk W L0 O c) : c.stop = false := by
  rcases h with ⟨F, h1, _, _⟩ | ⟨_, _, _, _, h3, _, _⟩
  · exact h1.stop
  · exact h3

theorem stuck_run {cap mc : Nat} {Wk W L0 O : Bytes} (K : SCtx cap mc Wk W O) :
    ∀ (A : Nat) (c : Conn) (n fuel : Nat),
      SSt cap mc Wk W L0 O c → c.env.segs = [] → ans c.env.tr ≤ A → A + 1 ≤ fuel →
      2 * c.env.tr.input.length + 5 ≤ 100000 →
      ∃ c', runTask fuel c n none = (c', "RET") ∧
        FFin L0 O (hsCount c.env.tr.events) c' ∧ c'.scripts = c.scripts := by
  intro A
  induction A with
  | zero =>
    intro c n fuel hst hsegs hA hf hlen
    obtain ⟨f, rfl⟩ : ∃ f, fuel = f + 1 := ⟨fuel - 1, by omega⟩
    obtain ⟨hsame, hph, hsc, hstop, hmx, hsg, hwk⟩ := prePoll_same c n hsegs
    have hst0 := hst.cong hph hstop hsame
    obtain ⟨c', r, hh, hfr, ho⟩ := stuck_poll K hst0
    have hpoll := hh.pollT (by rw [hsame.input]; exact hlen)
    have hans0 : ans (prePoll c n none).env.tr = ans c.env.tr := by unfold ans; rw [hsame.rd, hsame.wr]
    rw [runTask_succ, hpoll]
    rcases ho with ⟨rfl, _, _, ha⟩ | ⟨rfl, h1, h2⟩
    · omega
    · exact ⟨c', rfl, ⟨h1, h2, hfr.ts.hs.trans hsame.hs, hfr.stop.trans (hstop.trans hst.stop)⟩,
        hfr.scripts.trans hsc⟩
  | succ A ih =>
    intro c n fuel hst hsegs hA hf hlen
    obtain ⟨f, rfl⟩ : ∃ f, fuel = f + 1 := ⟨fuel - 1, by omega⟩
    obtain ⟨hsame, hph, hsc, hstop, hmx, hsg, hwk⟩ := prePoll_same c n hsegs
    have hst0 := hst.cong hph hstop hsame
    obtain ⟨c', r, hh, hfr, ho⟩ := stuck_poll K hst0
    have hpoll := hh.pollT (by rw [hsame.input]; exact hlen)
    have hans0 : ans (prePoll c n none).env.tr = ans c.env.tr := by unfold ans; rw [hsame.rd, hsame.wr]
    rw [runTask_succ, hpoll]
    rcases ho with ⟨rfl, hst', hw, ha⟩ | ⟨rfl, h1, h2⟩
    · simp only [hw, if_true]
      have hlen' : 2 * c'.env.tr.input.length + 5 ≤ 100000 := by
        have := hfr.ts.tle.input_len
        rw [hsame.input] at this
        omega
      obtain ⟨c2, h1, h2, h3⟩ := ih c' (n + 1) f hst' (hfr.segs.trans hsg) (by omega) (by omega) hlen'
      refine ⟨c2, h1, ?_, h3.trans (hfr.scripts.trans hsc)⟩
      have he : hsCount c'.env.tr.events = hsCount c.env.tr.events := hfr.ts.hs.trans hsame.hs
      rw [← he]; exact h2
    · exact ⟨c', rfl, ⟨h1, h2, hfr.ts.hs.trans hsame.hs, hfr.stop.trans (hstop.trans hst.stop)⟩,
        hfr.scripts.trans hsc⟩

/-- **The executor started in front of `parse_request`**, the wire `W` in the transport. -/
theorem stuck_run_start {cap mc : Nat} {Wk W O : Bytes} (K : SCtx cap mc Wk W O) {c : Conn} {n fuel : Nat}
    (hph : c.phase = .parseReq ⟨cap, [], .header, mc⟩ .start) (hstop : c.stop = false)
    (hinp : c.env.tr.input = W) (hb : Ben c.env.tr)
    (hsegs : c.env.segs = []) (hf : ans c.env.tr + 1 ≤ fuel) (hlen : 2 * c.env.tr.input.length + 6 ≤ 100000) :
    ∃ c', runTask fuel c n none = (c', "RET") ∧
      FFin c.env.tr.wlog O (hsCount c.env.tr.events) c' ∧ c'.scripts = c.scripts := by
  obtain ⟨f, rfl⟩ : ∃ f, fuel = f + 1 := ⟨fuel - 1, by omega⟩
  obtain ⟨hsame, hph0, hsc, hstop0, hmx, hsg, hwk⟩ := prePoll_same c n hsegs
  rw [runTask_succ]
  generalize prePoll c n none = c0 at *
  have hstop1 : c0.stop = false := hstop0.trans hstop
  have hrun0 : (run .header [] mc).rem.length = 0 := by
    have := (run_ok [] mc (st := .header) trivial).2.2.length_le
    simp only [List.length_nil] at this; omega
  have hns0 : NonStuck cap mc [] := Or.inr (by have := K.cap24; omega)
  have hstart := start_track K.cap24 (raw := []) (Nat.zero_le _) hns0
  have hstep := step_start c0 _ (hph0.trans hph) hstop1
  rw [hstart] at hstep
  have hstep' : stepConn c0 = .next (mkC c0 (.parseReq (track cap mc [])
      (.writing (run .header [] mc).out (run .header [] mc).st.isFinal)) c0.env.tr) := hstep
  have hst : PSt cap mc W c.env.tr.wlog [] (mkC c0 (.parseReq (track cap mc [])
      (.writing (run .header [] mc).out (run .header [] mc).st.isFinal)) c0.env.tr) [] :=
    ⟨by show [] ++ c0.env.tr.input ++ [] = W
        rw [hsame.input, hinp, List.nil_append, List.append_nil],
      hstop1, hsame.ben hb, by omega, Or.inr ⟨_, rfl, by show c0.env.tr.wlog ++ _ = _; rw [hsame.wlog], [], rfl⟩⟩
  obtain ⟨c', r, hh, hfr, ho⟩ := stuck_poll (L0 := c.env.tr.wlog) K (Or.inl ⟨[], hst, hns0, List.nil_prefix⟩)
  have hh' := Halts.of_steps (Steps.one hstep') hh
  have hpoll := hh'.pollT (by
    show 1 + (2 * c0.env.tr.input.length + 5) ≤ 100000
    rw [hsame.input]; omega)
  have hans0 : ans c0.env.tr = ans c.env.tr := by unfold ans; rw [hsame.rd, hsame.wr]
  have hts : TStep c0.env.tr c'.env.tr := hfr.ts
  have hhs : hsCount c'.env.tr.events = hsCount c.env.tr.events := hts.hs.trans hsame.hs
  have hsc' : c'.scripts = c.scripts := hfr.scripts.trans hsc
  rw [hpoll]
  rcases ho with ⟨rfl, hst', hw, ha⟩ | ⟨rfl, h1, h2⟩
  · simp only [hw, if_true]
    have hlen' : 2 * c'.env.tr.input.length + 5 ≤ 100000 := by
      have := hts.tle.input_len
      rw [hsame.input] at this
      omega
    have ha' : ans c'.env.tr < ans c0.env.tr := ha
    obtain ⟨c2, h1, h2, h3⟩ := stuck_run K (ans c'.env.tr) c' (n + 1) f hst'
      (hfr.segs.trans hsg) (Nat.le_refl _) (by omega) hlen'
    refine ⟨c2, h1, ?_, h3.trans hsc'⟩
    rw [← hhs]; exact h2
  · exact ⟨c', rfl, ⟨h1, h2, hhs, hfr.stop.trans hstop1⟩, hsc'⟩

end Fcgi.C06E
